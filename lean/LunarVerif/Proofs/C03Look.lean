import LunarVerif.Proofs.C03Trav
/-! `Lookup` of a PATTERN as if it were a URL — what `AddFlow` does to find the node to merge into.
Two facts: (found) if the pattern is already in the tree the lookup finds exactly that entry and reports
the pattern as normalised URL, unless the pattern's `*` is swallowed by a parameter sibling; (own) if the
lookup reports the pattern as normalised URL, the entry it answers with IS the pattern's own entry,
outside the wildcard-fallback configurations (`NoConf`). -/
namespace LunarVerif.C03
open LunarVerif.UrlTree LunarVerif.UrlMatch

variable {V : Type}

/-- One iteration of `lookGo`, by cases. -/
theorem lookGo_cons_cases (res : Res V) (fw : Option (Option V)) (params : List (String × String))
    (path : List Part) (u : Part) (us : List Part) :
    (∃ s, u.seg = .lit s ∧ constFlag? res s = some u.host ∧
      lookGo res fw params path (u :: us) =
        lookGo (step (.lit s) res) (match wildChild? res with | some wv => some wv | none => fw) params
          (path ++ [u]) us) ∨
    ((∀ s, u.seg = .lit s → constFlag? res s ≠ some u.host) ∧
      ((∃ n, parChild? res = some (n, u.host) ∧
        lookGo res fw params path (u :: us) =
          lookGo (step .par res) (match wildChild? res with | some wv => some wv | none => fw)
            (if u.seg.isPar then params else setParam n u.seg.text params) (path ++ [⟨u.host, .par n⟩]) us) ∨
       ((∀ n, parChild? res ≠ some (n, u.host)) ∧
        lookGo res fw params path (u :: us) =
          stuck (match wildChild? res with | some wv => some wv | none => fw) params path u))) := by
  by_cases hc : ∃ s, u.seg = .lit s ∧ constFlag? res s = some u.host
  · obtain ⟨s, hs, hf⟩ := hc
    refine .inl ⟨s, hs, hf, ?_⟩
    conv => lhs; unfold lookGo
    simp [hs, hf]
    cases wildChild? res <;> rfl
  · right
    have hno : ∀ s, u.seg = .lit s → constFlag? res s ≠ some u.host := fun s hs hf => hc ⟨s, hs, hf⟩
    refine ⟨hno, ?_⟩
    have hvia : ∀ {α : Type} (a : String → α) (b : α),
        (match (match u.seg with
          | .lit s => if constFlag? res s = some u.host then some s else none
          | _ => (none : Option String)) with
        | some s => a s
        | none => b) = b := by
      intro α a b
      cases hs : u.seg with
      | lit s => simp [hno s hs]
      | par n => rfl
      | wild => rfl
    cases hp : parChild? res with
    | none =>
      right
      refine ⟨by simp, ?_⟩
      conv => lhs; unfold lookGo
      simp only [hp]
      exact hvia _ _
    | some nh =>
      obtain ⟨n, h⟩ := nh
      by_cases hh : h = u.host
      · left
        subst hh
        refine ⟨n, rfl, ?_⟩
        conv => lhs; unfold lookGo
        simp only [hp, if_true]
        exact hvia _ _
      · right
        refine ⟨?_, ?_⟩
        · intro n' heq
          simp only [Option.some.injEq, Prod.mk.injEq] at heq
          exact hh heq.2
        · conv => lhs; unfold lookGo
          simp only [hp, hh, if_false]
          exact hvia _ _

theorem lookGo_norm_prefix (us : List Part) : ∀ (res : Res V) (fw : Option (Option V))
    (params : List (String × String)) (path : List Part),
    (lookGo res fw params path us).isMatch = true →
    ∃ tail, (lookGo res fw params path us).norm = path ++ tail := by
  induction us with
  | nil =>
    intro res fw params path h
    unfold lookGo at h ⊢
    split
    · exact ⟨[], by simp⟩
    · rename_i hn
      rw [hn] at h
      simp only at h
      split
      · exact ⟨[], by simp⟩
      · rename_i hw
        rw [hw] at h
        simp only at h
        split
        · exact ⟨[], by simp⟩
        · simp [LookupResult.none] at h
  | cons u us ih =>
    intro res fw params path h
    rcases lookGo_cons_cases res fw params path u us with ⟨s, _, _, he⟩ | ⟨_, ⟨n, _, he⟩ | ⟨_, he⟩⟩
    · rw [he] at h ⊢
      obtain ⟨tail, ht⟩ := ih _ _ _ _ h
      exact ⟨u :: tail, by rw [ht]; simp⟩
    · rw [he] at h ⊢
      obtain ⟨tail, ht⟩ := ih _ _ _ _ h
      exact ⟨⟨u.host, .par n⟩ :: tail, by rw [ht]; simp⟩
    · rw [he] at h ⊢
      obtain ⟨wv, _, hst⟩ := stuck_match h
      exact ⟨[⟨u.host, .wild⟩], by rw [hst]⟩

/-! ### (found) -/

theorem followsPast_step {p u : Part} (_hnw : p.seg ≠ .wild) (hacc : segAccepts p.seg u.seg = true) {e' rest : List Part}
    (hrest : rest ≠ []) (h : followsPast ((u :: rest).length - 1) (p :: e') (u :: rest) = false) :
    followsPast (rest.length - 1) e' rest = false := by
  cases rest with
  | nil => exact absurd rfl hrest
  | cons x r =>
    simp only [List.length_cons, Nat.add_sub_cancel] at h ⊢
    simpa [followsPast, hacc] using h

/-- If the pattern `rem` is in the tree, its lookup finds that entry and reports `path ++ rem`. -/
theorem lookGo_found (rem : List Part) : ∀ (res : Res V) (fw : Option (Option V))
    (params : List (String × String)) (path : List Part) (j : V),
    WildLast res → PartsOK res → RCoh res → (rem, some j) ∈ res →
    (endsWild rem = true → ∀ e ∈ res, followsPast (rem.length - 1) e.1 rem = false) →
    (lookGo res fw params path rem).isMatch = true ∧ (lookGo res fw params path rem).value = some j ∧
      (lookGo res fw params path rem).norm = path ++ rem := by
  induction rem with
  | nil =>
    intro res fw params path j _ _ hc hm _
    unfold lookGo
    rw [nodeValue_eq_of_mem hc hm]
    simp
  | cons u rest ih =>
    intro res fw params path j hwl hp hc hm hnsp
    have hstep : ∀ k, u.seg.key = k → u.seg ≠ .wild → segAccepts u.seg u.seg = true →
        (lookGo (step k res) (match wildChild? res with | some wv => some wv | none => fw) params
            (path ++ [u]) rest).isMatch = true ∧
        (lookGo (step k res) (match wildChild? res with | some wv => some wv | none => fw) params
            (path ++ [u]) rest).value = some j ∧
        (lookGo (step k res) (match wildChild? res with | some wv => some wv | none => fw) params
            (path ++ [u]) rest).norm = (path ++ [u]) ++ rest := by
      intro k hk hnw hacc
      apply ih _ _ _ _ j (hwl.step k) (hp.step k) (hc.step hp k) (mem_step.mpr ⟨u, hm, hk⟩)
      intro hew ⟨e', ev⟩ he'
      obtain ⟨p, hpm, hpk⟩ := mem_step.mp he'
      have hpu : p = u := hp.head_eq hpm hm (by rw [hpk, hk])
      subst hpu
      have hrest : rest ≠ [] := by intro h; subst h; simp [endsWild] at hew
      have hew' : endsWild (p :: rest) = true := by rw [endsWild_cons]; simp [hrest, hew]
      exact followsPast_step hnw hacc hrest (hnsp hew' _ hpm)
    cases hs : u.seg with
    | lit s =>
      have hf : constFlag? res s = some u.host := by
        cases hcf : constFlag? res s with
        | none => exact absurd hs (constFlag?_none hcf hm)
        | some f =>
          obtain ⟨p, r, v, hpm, hps, hpf⟩ := constFlag?_some hcf
          have : p = u := hp.head_eq hpm hm (by rw [hps, hs])
          rw [← hpf, this]
      rcases lookGo_cons_cases res fw params path u rest with ⟨s', hs', _, he⟩ | ⟨hno, _⟩
      · rw [hs] at hs'
        simp only [Seg.lit.injEq] at hs'
        subst hs'
        rw [he]
        have := hstep (.lit s) (by rw [hs]; rfl) (by rw [hs]; simp) (by rw [hs]; simp [segAccepts])
        simpa using this
      · exact absurd hf (hno s hs)
    | par n =>
      have hpc : parChild? res = some (n, u.host) := by
        cases hpc : parChild? res with
        | none => have := parChild?_none hpc hm; simp [hs, Seg.isPar] at this
        | some nh =>
          obtain ⟨n', f⟩ := nh
          obtain ⟨p, r, v, hpm, hps, hpf⟩ := parChild?_some hpc
          have hpu : p = u := hp.head_eq hpm hm (by rw [hps, hs]; rfl)
          subst hpu
          rw [hs] at hps
          simp only [Seg.par.injEq] at hps
          rw [hps, hpf]
      rcases lookGo_cons_cases res fw params path u rest with ⟨s', hs', _, _⟩ | ⟨_, ⟨n', hpc', he⟩ | ⟨hnone, _⟩⟩
      · rw [hs] at hs'; cases hs'
      · rw [hpc] at hpc'
        simp only [Option.some.injEq, Prod.mk.injEq, and_true] at hpc'
        subst hpc'
        rw [he]
        have hu : (⟨u.host, Seg.par n⟩ : Part) = u := by cases u; simp_all
        rw [hu]
        have := hstep .par (by rw [hs]; rfl) (by rw [hs]; simp) (by rw [hs]; simp [segAccepts])
        have hpar : u.seg.isPar = true := by rw [hs]; rfl
        simpa [hpar] using this
      · exact absurd hpc (hnone n)
    | wild =>
      have hrest : rest = [] := wildLast_wild_head (hwl _ hm) hs
      subst hrest
      have hwc := wildChild?_of_mem hwl hp hc hs hm
      rcases lookGo_cons_cases res fw params path u [] with ⟨s', hs', _, _⟩ | ⟨_, ⟨n', hpc', _⟩ | ⟨_, he⟩⟩
      · rw [hs] at hs'; cases hs'
      · -- a parameter sibling would swallow the `*`: excluded
        exfalso
        obtain ⟨p, r, v, hpm, hps, _⟩ := parChild?_some hpc'
        have := hnsp (by simp [endsWild, hs]) _ hpm
        simp [followsPast, hps, hs, segAccepts] at this
      · rw [he, hwc]
        have hu : (⟨u.host, Seg.wild⟩ : Part) = u := by cases u; simp_all
        simp [stuck, hs, Seg.isPar, hu]

/-! ### (own) -/

/-- No wildcard fallback can answer for the pattern `rem` below the node `res` (with `fw` the wildcard
    already seen above). -/
structure NoConf (res : Res V) (fw : Option (Option V)) (rem : Url) : Prop where
  zero : ∀ e ∈ res, wildPos e.1 rem ≠ some rem.length
  anc : endsWild rem = false →
    (fw = none ∧ ∀ w ∈ res, coversAbove 0 w.1 rem = false) ∨ (∀ e ∈ res, runsPast e.1 rem = false)
  ancW : endsWild rem = true →
    (fw = none ∧ ∀ w ∈ res, coversAbove 1 w.1 rem = false) ∨ (∀ e ∈ res, reaches e.1 rem.dropLast = false)

def AllSome (res : Res V) : Prop := ∀ e ∈ res, e.2 ≠ none

theorem AllSome.step {res : Res V} (h : AllSome res) (k : Key) : AllSome (step k res) := by
  intro ⟨rest, v⟩ hmem
  obtain ⟨p, hp, _⟩ := mem_step.mp hmem
  exact h (p :: rest, v) hp

theorem wildPos_cons_step {p u : Part} (hnw : p.seg ≠ .wild) (hacc : segAccepts p.seg u.seg = true)
    (e' rest : List Part) : wildPos (p :: e') (u :: rest) = (wildPos e' rest).map (· + 1) := by
  cases hs : p.seg with
  | wild => exact absurd hs hnw
  | lit s => rw [hs] at hacc; simp [wildPos, hs, hacc]
  | par n => rw [hs] at hacc; simp [wildPos, hs, hacc]

theorem coversAbove_cons_step {p u : Part} (hnw : p.seg ≠ .wild) (hacc : segAccepts p.seg u.seg = true)
    (k : Nat) (e' rest : List Part) : coversAbove k (p :: e') (u :: rest) = coversAbove k e' rest := by
  unfold coversAbove
  rw [wildPos_cons_step hnw hacc]
  cases wildPos e' rest with
  | none => rfl
  | some n => simp only [Option.map_some, List.length_cons]; congr 1; apply propext; omega

theorem coversAbove_wild {w : Part} (hw : w.seg = .wild) (k : Nat) (us : Url) :
    coversAbove k [w] us = decide (k < us.length) := by
  simp [coversAbove, wildPos, hw]

theorem NoConf.step {res : Res V} {fw : Option (Option V)} {u : Part} {rest : Url} {k : Key}
    (h : NoConf res fw (u :: rest)) (hwl : WildLast res) (hu : u.seg ≠ .wild)
    (hk : ∀ p : Part, p.seg.key = k → p.seg ≠ .wild ∧ segAccepts p.seg u.seg = true ∧ trieAccepts p u = true) :
    NoConf (step k res) (match wildChild? res with | some wv => some wv | none => fw) rest := by
  have hfw : ∀ j, j < (u :: rest).length → (∀ w ∈ res, coversAbove j w.1 (u :: rest) = false) →
      wildChild? res = none := by
    intro j hj hall
    cases hw : wildChild? res with
    | none => rfl
    | some wv =>
      obtain ⟨w, hws, hm⟩ := wildChild?_entry hwl hw
      have := hall _ hm
      rw [coversAbove_wild hws] at this
      simp only [List.length_cons, decide_eq_false_iff_not] at this hj
      omega
  refine ⟨?_, ?_, ?_⟩
  · intro ⟨e', v⟩ hmem hz
    obtain ⟨p, hp, hpk⟩ := mem_step.mp hmem
    obtain ⟨hnw, hacc, _⟩ := hk p hpk
    apply h.zero _ hp
    rw [wildPos_cons_step hnw hacc]
    simp only at hz
    simp [hz]
  · intro hew
    have hew' : endsWild (u :: rest) = false := by
      rw [endsWild_cons]
      by_cases hr : rest = []
      · simp [hr, hu]
      · simp only [hr, if_false]; exact hew
    rcases h.anc hew' with ⟨hfn, hall⟩ | hall
    · left
      rw [hfw 0 (by simp) hall]
      refine ⟨hfn, ?_⟩
      intro ⟨e', v⟩ hmem
      obtain ⟨p, hp, hpk⟩ := mem_step.mp hmem
      obtain ⟨hnw, hacc, _⟩ := hk p hpk
      have := hall _ hp
      rwa [coversAbove_cons_step hnw hacc] at this
    · right
      intro ⟨e', v⟩ hmem
      obtain ⟨p, hp, hpk⟩ := mem_step.mp hmem
      obtain ⟨_, _, hta⟩ := hk p hpk
      have := hall _ hp
      simpa [runsPast, hta] using this
  · intro hew
    have hr : rest ≠ [] := by intro hr; subst hr; simp [endsWild] at hew
    have hew' : endsWild (u :: rest) = true := by rw [endsWild_cons]; simp [hr, hew]
    rcases h.ancW hew' with ⟨hfn, hall⟩ | hall
    · left
      have hlen : 1 < (u :: rest).length := by
        cases rest with
        | nil => exact absurd rfl hr
        | cons a l => simp
      rw [hfw 1 hlen hall]
      refine ⟨hfn, ?_⟩
      intro ⟨e', v⟩ hmem
      obtain ⟨p, hp, hpk⟩ := mem_step.mp hmem
      obtain ⟨hnw, hacc, _⟩ := hk p hpk
      have := hall _ hp
      rwa [coversAbove_cons_step hnw hacc] at this
    · right
      intro ⟨e', v⟩ hmem
      obtain ⟨p, hp, hpk⟩ := mem_step.mp hmem
      obtain ⟨_, _, hta⟩ := hk p hpk
      have := hall _ hp
      rw [List.dropLast_cons_of_ne_nil hr] at this
      simpa [reaches, hta] using this

theorem reaches_nil (e : Pattern) : reaches e [] = true := by cases e <;> rfl

/-- If the lookup of the pattern `rem` reports `path ++ rem` as normalised URL, it answers with the entry
    of `rem` itself — outside `NoConf` violations. -/
theorem lookGo_norm_own (rem : List Part) : ∀ (res : Res V) (fw : Option (Option V))
    (params : List (String × String)) (path : List Part),
    WildLast res → PartsOK res → AllSome res → Aligned res rem → NoConf res fw rem → (res ≠ [] ∨ fw = none) →
    (lookGo res fw params path rem).isMatch = true →
    (lookGo res fw params path rem).norm = path ++ rem →
    (rem, (lookGo res fw params path rem).value) ∈ res := by
  induction rem with
  | nil =>
    intro res fw params path hwl _ hall _ hnc hne hm _
    unfold lookGo at hm ⊢
    cases hn : nodeValue res with
    | some v => simp only; exact nodeValue_some hn
    | none =>
      rw [hn] at hm
      simp only at hm ⊢
      cases hw : wildChild? res with
      | some wv =>
        obtain ⟨w, hws, hmem⟩ := wildChild?_entry hwl hw
        exact absurd (by simp [wildPos, hws]) (hnc.zero _ hmem)
      | none =>
        rw [hw] at hm
        simp only at hm ⊢
        cases fw with
        | none => simp [LookupResult.none] at hm
        | some wv =>
          exfalso
          rcases hnc.anc (by simp [endsWild]) with ⟨hf, _⟩ | hrp
          · cases hf
          · rcases hne with hne | hf
            · obtain ⟨⟨q, ov⟩, he⟩ := List.exists_mem_of_ne_nil _ hne
              cases q with
              | nil => exact hall _ he (nodeValue_none hn he)
              | cons p q' =>
                have := hrp _ he
                simp [runsPast] at this
                exact wildChild?_none hw he this
            · cases hf
  | cons u rest ih =>
    intro res fw params path hwl hp hall hal hnc hne hm hnorm
    rcases lookGo_cons_cases res fw params path u rest with ⟨s, hs, hf, he⟩ | ⟨_, ⟨n, hpc, he⟩ | ⟨_, he⟩⟩
    · rw [he] at hm hnorm ⊢
      obtain ⟨tail, ht⟩ := lookGo_norm_prefix _ _ _ _ _ hm
      have htail : tail = rest := by
        rw [ht, List.append_assoc] at hnorm
        have := List.append_cancel_left hnorm
        simpa using this
      subst htail
      obtain ⟨p0, r0, v0, hm0, hp0s, hp0h⟩ := constFlag?_some hf
      have hp0 : p0 = u := by cases p0; cases u; simp_all
      subst hp0
      have hk : ∀ p : Part, p.seg.key = Key.lit s →
          p.seg ≠ .wild ∧ segAccepts p.seg p0.seg = true ∧ trieAccepts p p0 = true := by
        intro p hpk
        have := key_eq_lit hpk
        simp [this, hs, segAccepts, trieAccepts]
      have := ih _ _ params (path ++ [p0]) (hwl.step _) (hp.step _) (hall.step _) (hal.step (stepOK_lit hs))
        (hnc.step hwl (by rw [hs]; simp) hk)
        (.inl (List.ne_nil_of_mem (mem_step.mpr ⟨p0, hm0, by rw [hs]; rfl⟩))) hm ht
      obtain ⟨p, hpm, hpk⟩ := mem_step.mp this
      have : p = p0 := hp.head_eq hpm hm0 (by rw [hpk, hs]; rfl)
      subst this
      exact hpm
    · rw [he] at hm hnorm ⊢
      obtain ⟨tail, ht⟩ := lookGo_norm_prefix _ _ _ _ _ hm
      have hboth : (⟨u.host, Seg.par n⟩ : Part) = u ∧ tail = rest := by
        rw [ht, List.append_assoc] at hnorm
        have := List.append_cancel_left hnorm
        simpa using this
      obtain ⟨hu, htail⟩ := hboth
      subst htail
      have hus : u.seg = .par n := by rw [← hu]
      obtain ⟨p0, r0, v0, hm0, hp0s, hp0h⟩ := parChild?_some hpc
      have hp0 : p0 = u := by cases p0; cases u; simp_all
      subst hp0
      have hk : ∀ p : Part, p.seg.key = Key.par →
          p.seg ≠ .wild ∧ segAccepts p.seg p0.seg = true ∧ trieAccepts p p0 = true := by
        intro p hpk
        obtain ⟨m, hm'⟩ := key_eq_par hpk
        simp [hm', hus, segAccepts, trieAccepts]
      rw [hu] at ht hm ⊢
      have := ih _ _ _ (path ++ [p0]) (hwl.step _) (hp.step _) (hall.step _) (hal.step (k := .par) stepOK_par)
        (hnc.step hwl (by rw [hus]; simp) hk)
        (.inl (List.ne_nil_of_mem (mem_step.mpr ⟨p0, hm0, by rw [hus]; rfl⟩))) hm ht
      obtain ⟨p, hpm, hpk⟩ := mem_step.mp this
      have : p = p0 := hp.head_eq hpm hm0 (by rw [hpk, hus]; rfl)
      subst this
      exact hpm
    · rw [he] at hm hnorm ⊢
      obtain ⟨wv, hfw, hst⟩ := stuck_match hm
      rw [hst] at hnorm ⊢
      simp only at hnorm ⊢
      have hboth : (⟨u.host, Seg.wild⟩ : Part) = u ∧ rest = [] := by
        have := List.append_cancel_left hnorm
        simp only [List.cons.injEq] at this
        exact ⟨this.1, this.2.symm⟩
      obtain ⟨hu, hrest⟩ := hboth
      subst hrest
      have hus : u.seg = .wild := by rw [← hu]
      cases hw : wildChild? res with
      | some wv' =>
        rw [hw] at hfw
        simp only [Option.some.injEq] at hfw
        subst hfw
        obtain ⟨w, hws, hmem⟩ := wildChild?_entry hwl hw
        have hwh := hal.head hmem (.inr hws)
        have : w = u := by cases w; cases u; simp_all
        subst this
        exact hmem
      | none =>
        rw [hw] at hfw
        simp only at hfw
        exfalso
        rcases hnc.ancW (by simp [endsWild, hus]) with ⟨hf, _⟩ | hr
        · rw [hf] at hfw; cases hfw
        · rcases hne with hne | hf
          · obtain ⟨e, he'⟩ := List.exists_mem_of_ne_nil _ hne
            have := hr _ he'
            simp [reaches_nil] at this
          · rw [hf] at hfw; cases hfw

end LunarVerif.C03
