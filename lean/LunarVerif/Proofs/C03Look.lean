import LunarVerif.Proofs.C03Trav
/-! `Lookup` of a PATTERN as if it were a URL — what `AddFlow` does to find the node to merge into.
Two facts: (found) if the pattern is already in the tree the lookup finds exactly that entry and reports
the pattern as normalised URL, unless the pattern's `*` is swallowed by a parameter sibling; (own) if the
lookup reports the pattern as normalised URL, the entry it answers with IS the pattern's own entry,
outside the wildcard-fallback configurations (`NoConf`). -/
namespace LunarVerif.C03
open LunarVerif.UrlTree LunarVerif.UrlMatch

variable {V : Type}

/-- One iteration of `lookGo`, by cases. -/
theorem lookGo_cons_cases (res : Res V) (fw : Option (Option V)) (params : List (String × String))
    (path : List Part) (u : Part) (us : List Part) :
    (∃ s, u.seg = .lit s ∧ constFlag? res s = some u.host ∧
      lookGo res fw params path (u :: us) =
        lookGo (step (.lit s) res) (match wildChild? res with | some wv => some wv | none => fw) params
          (path ++ [u]) us) ∨
    ((∀ s, u.seg = .lit s → constFlag? res s ≠ some u.host) ∧
      ((∃ n, parChild? res = some (n, u.host) ∧
        lookGo res fw params path (u :: us) =
          lookGo (step .par res) (match wildChild? res with | some wv => some wv | none => fw)
            (if u.seg.isPar then params else setParam n u.seg.text params) (path ++ [⟨u.host, .par n⟩]) us) ∨
       ((∀ n, parChild? res ≠ some (n, u.host)) ∧
        lookGo res fw params path (u :: us) =
          stuck (match wildChild? res with | some wv => some wv | none => fw) params path u))) := by
  by_cases hc : ∃ s, u.seg = .lit s ∧ constFlag? res s = some u.host
  · obtain ⟨s, hs, hf⟩ := hc
    refine .inl ⟨s, hs, hf, ?_⟩
    conv => lhs; unfold lookGo
    simp [hs, hf]
    cases wildChild? res <;> rfl
  · right
    have hno : ∀ s, u.seg = .lit s → constFlag? res s ≠ some u.host := fun s hs hf => hc ⟨s, hs, hf⟩
    refine ⟨hno, ?_⟩
    have hvia : ∀ {α : Type} (a : String → α) (b : α),
        (match (match u.seg with
          | .lit s => if constFlag? res s = some u.host then some s else none
          | _ => (none : Option String)) with
        | some s => a s
        | none => b) = b := by
      intro α a b
      cases hs : u.seg with
      | lit s => simp [hno s hs]
      | par n => rfl
      | wild => rfl
    cases hp : parChild? res with
    | none =>
      right
      refine ⟨by simp, ?_⟩
      conv => lhs; unfold lookGo
      simp only [hp]
      exact hvia _ _
    | some nh =>
      obtain ⟨n, h⟩ := nh
      by_cases hh : h = u.host
      · left
        subst hh
        refine ⟨n, rfl, ?_⟩
        conv => lhs; unfold lookGo
        simp only [hp, if_true]
        exact hvia _ _
      · right
        refine ⟨?_, ?_⟩
        · intro n' heq
          simp only [Option.some.injEq, Prod.mk.injEq] at heq
          exact hh heq.2
        · conv => lhs; unfold lookGo
          simp only [hp, hh, if_false]
          exact hvia _ _

theorem lookGo_norm_prefix (us : List Part) : ∀ (res : Res V) (fw : Option (Option V))
    (params : List (String × String)) (path : List Part),
    (lookGo res fw params path us).isMatch = true →
    ∃ tail, (lookGo res fw params path us).norm = path ++ tail := by
  induction us with
  | nil =>
    intro res fw params path h
    unfold lookGo at h ⊢
    split
    · exact ⟨[], by simp⟩
    · rename_i hn
      rw [hn] at h
      simp only at h
      split
      · exact ⟨[], by simp⟩
      · rename_i hw
        rw [hw] at h
        simp only at h
        split
        · exact ⟨[], by simp⟩
        · simp [LookupResult.none] at h
  | cons u us ih =>
    intro res fw params path h
    rcases lookGo_cons_cases res fw params path u us with ⟨s, _, _, he⟩ | ⟨_, ⟨n, _, he⟩ | ⟨_, he⟩⟩
    · rw [he] at h ⊢
      obtain ⟨tail, ht⟩ := ih _ _ _ _ h
      exact ⟨u :: tail, by rw [ht]; simp⟩
    · rw [he] at h ⊢
      obtain ⟨tail, ht⟩ := ih _ _ _ _ h
      exact ⟨⟨u.host, .par n⟩ :: tail, by rw [ht]; simp⟩
    · rw [he] at h ⊢
      obtain ⟨wv, _, hst⟩ := stuck_match h
      exact ⟨[⟨u.host, .wild⟩], by rw [hst]⟩

/-! ### (found) -/

theorem followsPast_step {p u : Part} (_hnw : p.seg ≠ .wild) (hacc : segAccepts p.seg u.seg = true) {e' rest : List Part}
    (hrest : rest ≠ []) (h : followsPast ((u :: rest).length - 1) (p :: e') (u :: rest) = false) :
    followsPast (rest.length - 1) e' rest = false := by
  cases rest with
  | nil => exact absurd rfl hrest
  | cons x r =>
    simp only [List.length_cons, Nat.add_sub_cancel] at h ⊢
    simpa [followsPast, hacc] using h

/-- If the pattern `rem` is in the tree, its lookup finds that entry and reports `path ++ rem`. -/
theorem lookGo_found (rem : List Part) : ∀ (res : Res V) (fw : Option (Option V))
    (params : List (String × String)) (path : List Part) (j : V),
    WildLast res → PartsOK res → RCoh res → (rem, some j) ∈ res →
    (endsWild rem = true → ∀ e ∈ res, followsPast (rem.length - 1) e.1 rem = false) →
    (lookGo res fw params path rem).isMatch = true ∧ (lookGo res fw params path rem).value = some j ∧
      (lookGo res fw params path rem).norm = path ++ rem := by
  induction rem with
  | nil =>
    intro res fw params path j _ _ hc hm _
    unfold lookGo
    rw [nodeValue_eq_of_mem hc hm]
    simp
  | cons u rest ih =>
    intro res fw params path j hwl hp hc hm hnsp
    have hstep : ∀ k, u.seg.key = k → u.seg ≠ .wild → segAccepts u.seg u.seg = true →
        (lookGo (step k res) (match wildChild? res with | some wv => some wv | none => fw) params
            (path ++ [u]) rest).isMatch = true ∧
        (lookGo (step k res) (match wildChild? res with | some wv => some wv | none => fw) params
            (path ++ [u]) rest).value = some j ∧
        (lookGo (step k res) (match wildChild? res with | some wv => some wv | none => fw) params
            (path ++ [u]) rest).norm = (path ++ [u]) ++ rest := by
      intro k hk hnw hacc
      apply ih _ _ _ _ j (hwl.step k) (hp.step k) (hc.step hp k) (mem_step.mpr ⟨u, hm, hk⟩)
      intro hew ⟨e', ev⟩ he'
      obtain ⟨p, hpm, hpk⟩ := mem_step.mp he'
      have hpu : p = u := hp.head_eq hpm hm (by rw [hpk, hk])
      subst hpu
      have hrest : rest ≠ [] := by intro h; subst h; simp [endsWild] at hew
      have hew' : endsWild (p :: rest) = true := by rw [endsWild_cons]; simp [hrest, hew]
      exact followsPast_step hnw hacc hrest (hnsp hew' _ hpm)
    cases hs : u.seg with
    | lit s =>
      have hf : constFlag? res s = some u.host := by
        cases hcf : constFlag? res s with
        | none => exact absurd hs (constFlag?_none hcf hm)
        | some f =>
          obtain ⟨p, r, v, hpm, hps, hpf⟩ := constFlag?_some hcf
          have : p = u := hp.head_eq hpm hm (by rw [hps, hs])
          rw [← hpf, this]
      rcases lookGo_cons_cases res fw params path u rest with ⟨s', hs', _, he⟩ | ⟨hno, _⟩
      · rw [hs] at hs'
        simp only [Seg.lit.injEq] at hs'
        subst hs'
        rw [he]
        have := hstep (.lit s) (by rw [hs]; rfl) (by rw [hs]; simp) (by rw [hs]; simp [segAccepts])
        simpa using this
      · exact absurd hf (hno s hs)
    | par n =>
      have hpc : parChild? res = some (n, u.host) := by
        cases hpc : parChild? res with
        | none => have := parChild?_none hpc hm; simp [hs, Seg.isPar] at this
        | some nh =>
          obtain ⟨n', f⟩ := nh
          obtain ⟨p, r, v, hpm, hps, hpf⟩ := parChild?_some hpc
          have hpu : p = u := hp.head_eq hpm hm (by rw [hps, hs]; rfl)
          subst hpu
          rw [hs] at hps
          simp only [Seg.par.injEq] at hps
          rw [hps, hpf]
      rcases lookGo_cons_cases res fw params path u rest with ⟨s', hs', _, _⟩ | ⟨_, ⟨n', hpc', he⟩ | ⟨hnone, _⟩⟩
      · rw [hs] at hs'; cases hs'
      · rw [hpc] at hpc'
        simp only [Option.some.injEq, Prod.mk.injEq, and_true] at hpc'
        subst hpc'
        rw [he]
        have hu : (⟨u.host, Seg.par n⟩ : Part) = u := by cases u; simp_all
        rw [hu]
        have := hstep .par (by rw [hs]; rfl) (by rw [hs]; simp) (by rw [hs]; simp [segAccepts])
        have hpar : u.seg.isPar = true := by rw [hs]; rfl
        simpa [hpar] using this
      · exact absurd hpc (hnone n)
    | wild =>
      have hrest : rest = [] := wildLast_wild_head (hwl _ hm) hs
      subst hrest
      have hwc := wildChild?_of_mem hwl hp hc hs hm
      rcases lookGo_cons_cases res fw params path u [] with ⟨s', hs', _, _⟩ | ⟨_, ⟨n', hpc', _⟩ | ⟨_, he⟩⟩
      · rw [hs] at hs'; cases hs'
      · -- a parameter sibling would swallow the `*`: excluded
        exfalso
        obtain ⟨p, r, v, hpm, hps, _⟩ := parChild?_some hpc'
        have := hnsp (by simp [endsWild, hs]) _ hpm
        simp [followsPast, hps, hs, segAccepts] at this
      · rw [he, hwc]
        have hu : (⟨u.host, Seg.wild⟩ : Part) = u := by cases u; simp_all
        simp [stuck, hs, Seg.isPar, hu]

end LunarVerif.C03
