import LunarVerif.Proofs.C14Parse
/-!
Helper lemmas for C14, part C (connection): a declaration of the configuration that lies in NO known-defect
class for the request is registered with an expression that is found in the request's subject string, so the
model's `managedB` is true.  From it: the judge predicate can never report an unclassified violation on the
model's own answers.
-/
set_option linter.unusedSimpArgs false
namespace LunarVerif.C14
open LunarVerif.UrlTree LunarVerif.UrlMatch LunarVerif.Regex

theorem mem_dedup {α : Type} [DecidableEq α] (a : α) : ∀ (l : List α), a ∈ dedup l ↔ a ∈ l := by
  intro l
  induction l with
  | nil => simp [dedup]
  | cons b bs ih =>
    unfold dedup
    by_cases hb : b ∈ bs
    · rw [if_pos hb, ih]
      constructor
      · intro h; exact List.mem_cons_of_mem _ h
      · intro h
        rcases List.mem_cons.mp h with h | h
        · subst h; exact hb
        · exact h
    · rw [if_neg hb]
      simp [ih]

theorem mem_insertStr (a x : String) : ∀ (l : List String), x ∈ insertStr a l ↔ x = a ∨ x ∈ l := by
  intro l
  induction l with
  | nil => simp [insertStr]
  | cons b bs ih =>
    unfold insertStr
    split
    · simp
    · simp [ih]
      constructor
      · rintro (h | h | h)
        · exact Or.inr (Or.inl h)
        · exact Or.inl h
        · exact Or.inr (Or.inr h)
      · rintro (h | h | h)
        · exact Or.inr (Or.inl h)
        · exact Or.inl h
        · exact Or.inr (Or.inr h)

theorem mem_sortStr (x : String) : ∀ (l : List String), x ∈ sortStr l ↔ x ∈ l := by
  intro l
  induction l with
  | nil => simp [sortStr]
  | cons a as ih => simp [sortStr, mem_insertStr, ih]

/-- The expression text registered for a safe pattern is found in the subject of every accepted URL. -/
theorem exprSearch_safe (m : List Char) (P U : List Part) (hs : safe P = true)
    (hm : ∀ c ∈ m, plainChar c = true) (hu : urlWF U = true) (hmt : «matches» P U = true) :
    exprSearch (formatEndpoint m (render P)) (subject m (render U)) = true := by
  unfold exprSearch
  rw [parse_format_safe m P hs hm]
  exact (reSearch_iff _ _).mpr (search_of_full (covers_full m P U hs hu hmt))

/-- Every supported method of every loaded declaration that is enabled has its expression registered. -/
theorem registered_mem (cfg : Cfg) (d : Decl) (method : String) (hd : d ∈ declsOf cfg) (he : d.enabled = true)
    (hm : method ∈ d.supported) :
    formatEndpoint method.toList d.url.toList ∈ registered cfg := by
  cases cfg with
  | flows fs =>
    simp only [declsOf, List.mem_map] at hd
    obtain ⟨f, hf, hfd⟩ := hd
    subst hfd
    simp only [registered, List.mem_flatMap]
    refine ⟨f.key, (mem_dedup _ _).mpr (List.mem_map.mpr ⟨f, hf, rfl⟩), ?_⟩
    simp only [keyEntries, List.mem_map]
    refine ⟨method, ?_, rfl⟩
    simp only [Decl.supported] at hm
    simp only [Flow.key]
    by_cases hemp : f.methods.isEmpty = true
    · have : f.methods = [] := by simpa using hemp
      simp [this, sortStr] at hm ⊢
      exact hm
    · have hne : f.methods ≠ [] := by simpa using hemp
      rw [if_neg hemp] at hm
      have hmem : method ∈ sortStr f.methods := (mem_sortStr _ _).mpr hm
      have : (sortStr f.methods).isEmpty = false := by
        cases hms : sortStr f.methods with
        | nil => rw [hms] at hmem; simp at hmem
        | cons _ _ => rfl
      simp [this, hmem]
  | policies ps g =>
    simp only [declsOf, List.mem_map] at hd
    obtain ⟨p, hp, hpd⟩ := hd
    subst hpd
    simp only [Decl.supported, List.isEmpty_cons, Bool.false_eq_true, if_false, List.mem_singleton] at hm
    subst hm
    simp only [registered, List.mem_map, List.mem_filter]
    exact ⟨p, ⟨hp, he⟩, rfl⟩

/-- A clean declaration is managed. -/
theorem clean_managed (cfg : Cfg) (d : Decl) (method url : String) (hd : d ∈ declsOf cfg)
    (hc : classify d method url = none) : managedB cfg method url = true := by
  unfold classify at hc
  split at hc
  · cases hc
  · split at hc
    · cases hc
    · split at hc
      · cases hc
      · split at hc
        · cases hc
        · split at hc
          · cases hc
          · split at hc
            · cases hc
            · rename_i _ _ _ hodd hsafe hacc
              simp only [Bool.not_eq_true, Bool.or_eq_false_iff, bne_eq_false_iff_eq] at hodd
              simp only [Bool.not_eq_true', Bool.not_eq_false, Bool.and_eq_true, beq_iff_eq] at hsafe hacc
              obtain ⟨_, hrp⟩ := hodd
              obtain ⟨hsf, hsm⟩ := hsafe
              obtain ⟨hac, hru⟩ := hacc
              simp only [accepts, Bool.and_eq_true, List.contains_iff_mem] at hac
              obtain ⟨⟨⟨hen, hmem⟩, hmt⟩, hwf⟩ := hac
              have hreg := registered_mem cfg d method hd hen hmem
              have hsm' : ∀ c ∈ method.toList, plainChar c = true := by
                simpa [safeMethod] using hsm
              have hex := exprSearch_safe method.toList (splitURL d.url) (splitURL url) hsf hsm' hwf hmt
              rw [hrp, hru] at hex
              unfold managedB
              simp only [Bool.or_eq_true, List.any_eq_true]
              exact Or.inr ⟨_, hreg, hex⟩

end LunarVerif.C14
