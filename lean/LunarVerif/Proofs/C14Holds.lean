import LunarVerif.Proofs.C14Parse
/-!
Helper lemmas for C14, part C (connection): a declaration of the configuration that lies in NO known-defect
class for the request is registered with an expression that is found in the request's subject string, so the
model's `managedB` is true.  From it: the judge predicate can never report an unclassified violation on the
model's own answers.
-/
set_option linter.unusedSimpArgs false
namespace LunarVerif.C14
open LunarVerif.UrlTree LunarVerif.UrlMatch LunarVerif.Regex

theorem mem_dedup {α : Type} [DecidableEq α] (a : α) : ∀ (l : List α), a ∈ dedup l ↔ a ∈ l := by
  intro l
  induction l with
  | nil => simp [dedup]
  | cons b bs ih =>
    unfold dedup
    by_cases hb : b ∈ bs
    · rw [if_pos hb, ih]
      constructor
      · intro h; exact List.mem_cons_of_mem _ h
      · intro h
        rcases List.mem_cons.mp h with h | h
        · subst h; exact hb
        · exact h
    · rw [if_neg hb]
      simp [ih]

theorem mem_insertStr (a x : String) : ∀ (l : List String), x ∈ insertStr a l ↔ x = a ∨ x ∈ l := by
  intro l
  induction l with
  | nil => simp [insertStr]
  | cons b bs ih =>
    unfold insertStr
    split
    · simp
    · simp [ih]
      constructor
      · rintro (h | h | h)
        · exact Or.inr (Or.inl h)
        · exact Or.inl h
        · exact Or.inr (Or.inr h)
      · rintro (h | h | h)
        · exact Or.inr (Or.inl h)
        · exact Or.inl h
        · exact Or.inr (Or.inr h)

theorem mem_sortStr (x : String) : ∀ (l : List String), x ∈ sortStr l ↔ x ∈ l := by
  intro l
  induction l with
  | nil => simp [sortStr]
  | cons a as ih => simp [sortStr, mem_insertStr, ih]

theorem ne_nil_of_isEmpty {α : Type} {l : List α} (h : l.isEmpty = false) : l ≠ [] := by
  intro hl; subst hl; simp at h

/-- What a token method gives the two theorems. -/
theorem tokenMethod_facts {m : String} (h : tokenMethod m = true) :
    m.toList ≠ [] ∧ (∀ c ∈ m.toList, plainChar c = true) ∧ (∀ c ∈ m.toList, c ≠ ':') := by
  simp only [tokenMethod, Bool.and_eq_true, Bool.not_eq_true', List.all_eq_true, bne_iff_ne, ne_eq] at h
  exact ⟨ne_nil_of_isEmpty h.1, fun c hc => (h.2 c hc).1, fun c hc => (h.2 c hc).2⟩

/-- The expression text registered for a pattern is found in the subject of every accepted URL. -/
theorem exprSearch_safe (meth : Option (List Char)) (m : List Char) (P U : List Part)
    (hmeth : meth = some m ∨ (meth = none ∧ m ≠ [] ∧ ∀ c ∈ m, c ≠ ':'))
    (hplain : ∀ m', meth = some m' → ∀ c ∈ m', plainChar c = true)
    (hs : safe P = true) (hu : urlWF U = true) (hmt : «matches» P U = true) :
    exprSearch (formatEndpoint (methodText meth) (render P)) (subject m (render U)) = true := by
  unfold exprSearch
  rw [parse_format_safe meth P hs hplain]
  exact (reSearch_iff _ _).mpr (search_of_full (covers_full meth m P U hmeth hs hu hmt))

/-- Policy side of `BuildHAProxyEndpointsRequest`: an endpoint with at least one enabled plugin has at least one
    entry. -/
theorem policy_registered (ps : List Policy) (g : Bool) (p : Policy) (hp : p ∈ ps) (he : p.enabled = true) :
    formatEndpoint p.method.toList p.url.toList ∈ registered (.policies ps g) := by
  simp only [registered, List.mem_flatMap, List.mem_map]
  refine ⟨p, hp, ?_⟩
  have hne : (p.rem.filter id ++ p.diag.filter id) ≠ [] := by
    simp only [Policy.enabled, Bool.or_eq_true, List.any_eq_true, id] at he
    rcases he with ⟨b, hb, hbt⟩ | ⟨b, hb, hbt⟩
    · intro hnil
      have : b ∈ p.rem.filter id ++ p.diag.filter id :=
        List.mem_append.mpr (Or.inl (List.mem_filter.mpr ⟨hb, hbt⟩))
      rw [hnil] at this
      simp at this
    · intro hnil
      have : b ∈ p.rem.filter id ++ p.diag.filter id :=
        List.mem_append.mpr (Or.inr (List.mem_filter.mpr ⟨hb, hbt⟩))
      rw [hnil] at this
      simp at this
  cases hl : p.rem.filter id ++ p.diag.filter id with
  | nil => exact absurd hl hne
  | cons b bs => exact ⟨b, by simp, rfl⟩

/-- Every method an enabled declaration accepts has an expression registered for it: the method's own, or —
    when the declaration names no method — the any-method expression. -/
theorem registered_mem (cfg : Cfg) (d : Decl) (method : String) (hd : d ∈ declsOf cfg) (he : d.enabled = true)
    (hm : d.acceptsMethod method = true) :
    ∃ meth : Option (List Char), (meth = some method.toList ∨ meth = none) ∧
      formatEndpoint (methodText meth) d.url.toList ∈ registered cfg := by
  cases cfg with
  | flows fs =>
    simp only [declsOf, List.mem_map] at hd
    obtain ⟨f, hf, hfd⟩ := hd
    subst hfd
    simp only [Decl.acceptsMethod, Bool.or_eq_true, List.contains_iff_mem] at hm
    have hkey : f.key ∈ dedup (fs.map Flow.key) := (mem_dedup _ _).mpr (List.mem_map.mpr ⟨f, hf, rfl⟩)
    by_cases hemp : f.methods = []
    · refine ⟨none, Or.inr rfl, ?_⟩
      simp only [registered, List.mem_flatMap]
      refine ⟨f.key, hkey, ?_⟩
      simp [keyEntries, Flow.key, hemp, sortStr, methodText]
    · refine ⟨some method.toList, Or.inl rfl, ?_⟩
      have hmem : method ∈ f.methods := by
        rcases hm with hm | hm
        · exact absurd (by simpa using hm) hemp
        · exact hm
      have hs : method ∈ sortStr f.methods := (mem_sortStr _ _).mpr hmem
      have hne : (sortStr f.methods).isEmpty = false := by
        cases hms : sortStr f.methods with
        | nil => rw [hms] at hs; simp at hs
        | cons _ _ => rfl
      simp only [registered, List.mem_flatMap]
      refine ⟨f.key, hkey, ?_⟩
      simp only [keyEntries, Flow.key, hne, Bool.false_eq_true, if_false, List.mem_map, methodText, Option.getD_some]
      exact ⟨method, hs, rfl⟩
  | policies ps g =>
    simp only [declsOf, List.mem_map] at hd
    obtain ⟨p, hp, hpd⟩ := hd
    subst hpd
    simp only [Decl.acceptsMethod, List.isEmpty_cons, Bool.false_or, List.contains_iff_mem,
      List.mem_singleton] at hm
    refine ⟨some method.toList, Or.inl rfl, ?_⟩
    subst hm
    simpa [methodText] using policy_registered ps g p hp he

/-- A clean declaration (within the input assumptions) is managed. -/
theorem clean_managed (cfg : Cfg) (d : Decl) (method url : String) (hd : d ∈ declsOf cfg)
    (ha : assumptionsOK d method url = true) (hc : classify d method url = none) :
    managedB cfg method url = true := by
  unfold classify at hc
  split at hc
  · cases hc
  · split at hc
    · rename_i _ hacc
      simp only [accepts, Bool.and_eq_true] at hacc
      obtain ⟨⟨⟨hen, hmeth⟩, hmt⟩, hwf⟩ := hacc
      simp only [assumptionsOK, Bool.and_eq_true, beq_iff_eq, List.all_eq_true] at ha
      obtain ⟨⟨⟨⟨hsf, hrp⟩, hru⟩, htok⟩, _⟩ := ha
      obtain ⟨t1, t2, t3⟩ := tokenMethod_facts htok
      obtain ⟨meth, hm, hreg⟩ := registered_mem cfg d method hd hen hmeth
      have hmeth' : meth = some method.toList ∨ (meth = none ∧ method.toList ≠ [] ∧ ∀ c ∈ method.toList, c ≠ ':') := by
        rcases hm with hm | hm
        · exact Or.inl hm
        · exact Or.inr ⟨hm, t1, t3⟩
      have hplain : ∀ m', meth = some m' → ∀ c ∈ m', plainChar c = true := by
        intro m' hm'
        rcases hm with hm | hm
        · rw [hm] at hm'
          cases hm'
          exact t2
        · rw [hm] at hm'; cases hm'
      have hex := exprSearch_safe meth method.toList (splitURL d.url) (splitURL url) hmeth' hplain hsf hwf hmt
      rw [hrp, hru] at hex
      unfold managedB
      simp only [Bool.or_eq_true, List.any_eq_true]
      exact Or.inr ⟨_, hreg, hex⟩
    · split at hc <;> cases hc

end LunarVerif.C14
