import LunarVerif.Proofs.C03Look
/-! The load invariant of the filter tree: outside the configuration classes F03a/d/e/g every loaded
flow sits in the node of its OWN pattern, every pattern has exactly one node, and the node's requirements
come from a flow on that pattern. -/
namespace LunarVerif.C03
open LunarVerif.UrlTree LunarVerif.UrlMatch

theorem FNode.group_add (n : FNode) (f : Flow) (k : Kind) :
    (n.add f).group k = if f.kind = k then n.group k ++ [f] else n.group k := by
  cases hk : f.kind <;> cases k <;> simp [FNode.add, FNode.group, hk]

theorem FNode.req_add (n : FNode) (f : Flow) : (n.add f).req = n.req := by
  cases hk : f.kind <;> simp [FNode.add, hk]

theorem FNode.group_fresh (f : Flow) (k : Kind) : (FNode.fresh f).group k = if f.kind = k then [f] else [] := by
  cases hk : f.kind <;> cases k <;> simp [FNode.fresh, FNode.group, hk]

theorem FNode.req_fresh (f : Flow) : (FNode.fresh f).req = if f.kind = .user then some f else none := by
  cases hk : f.kind <;> simp [FNode.fresh, hk]

theorem FNode.group_empty (k : Kind) : FNode.empty.group k = [] := by cases k <;> rfl

theorem getD_set_eq' {α : Type} (l : List α) (i : Nat) (a d : α) (h : i < l.length) :
    (l.set i a).getD i d = a := by
  simp [List.getD, h]

theorem getD_set_ne' {α : Type} (l : List α) (i j : Nat) (a d : α) (h : i ≠ j) :
    (l.set i a).getD j d = l.getD j d := by
  simp [List.getD, List.getElem?_set_ne h]

theorem getD_append_left' {α : Type} (l : List α) (a d : α) (j : Nat) (h : j < l.length) :
    (l ++ [a]).getD j d = l.getD j d := by
  simp [List.getD, List.getElem?_append_left h]

theorem getD_append_new' {α : Type} (l : List α) (a d : α) : (l ++ [a]).getD l.length d = a := by
  simp [List.getD]

/-! ### the invariant -/

structure Inv (ft : FTree) (done : List Flow) : Prop where
  wl : WildLast ft.tree
  names : NamesOK ft.tree
  vals : ∀ q ov, (q, ov) ∈ ft.tree → ∃ i, ov = some i ∧ i < ft.store.length
  dom : ∀ q ov, (q, ov) ∈ ft.tree → ∃ g ∈ done, g.parts = q
  uniq : ∀ q i j, (q, some i) ∈ ft.tree → (q, some j) ∈ ft.tree → i = j
  inj : ∀ q q' i, (q, some i) ∈ ft.tree → (q', some i) ∈ ft.tree → q = q'
  node : ∀ q i, (q, some i) ∈ ft.tree → ∀ k, ∀ g ∈ (ft.store.getD i .empty).group k,
    g.parts = q ∧ g ∈ done ∧ g.kind = k
  cov : ∀ g ∈ done, ∃ i, (g.parts, some i) ∈ ft.tree ∧ g ∈ (ft.store.getD i .empty).group g.kind
  req : ∀ q i, (q, some i) ∈ ft.tree → ∃ g0 ∈ done, g0.parts = q ∧
    (ft.store.getD i .empty).req = (if g0.kind = .user then some g0 else none)

theorem inv_empty : Inv .empty [] := by
  constructor <;> simp [FTree.empty, WildLast, NamesOK]

/-- What is asked of the flow `f` about to be added after `done`. -/
structure Fresh (done : List Flow) (f : Flow) : Prop where
  conf : mergeConfusedAt done f = false
  flags : ∀ g ∈ done ++ [f], ∀ g' ∈ done ++ [f], flagsOK g.parts g'.parts = true
  wl : wildLast f.parts = true
  canon : (∃ g ∈ done, g.parts = f.parts) → f.canon = true

theorem Inv.partsOK {ft : FTree} {done : List Flow} (h : Inv ft done)
    (hfl : ∀ g ∈ done, ∀ g' ∈ done, flagsOK g.parts g'.parts = true) : PartsOK ft.tree := by
  intro ⟨q1, v1⟩ h1 ⟨q2, v2⟩ h2
  obtain ⟨g1, hg1, hq1⟩ := h.dom _ _ h1
  obtain ⟨g2, hg2, hq2⟩ := h.dom _ _ h2
  apply partsAgree_of _ _ (h.names _ h1 _ h2)
  have := hostsAgree_of_flagsOK _ _ (hfl g1 hg1 g2 hg2)
  rw [hq1, hq2, trunc_of_wildLast _ (h.wl _ h1), trunc_of_wildLast _ (h.wl _ h2)] at this
  exact this

theorem Inv.rcoh {ft : FTree} {done : List Flow} (h : Inv ft done) : RCoh ft.tree := by
  intro ⟨q1, v1⟩ h1 ⟨q2, v2⟩ h2 heq
  simp only at heq
  subst heq
  obtain ⟨i, hi, _⟩ := h.vals _ _ h1
  obtain ⟨j, hj, _⟩ := h.vals _ _ h2
  subst hi; subst hj
  simp only [Option.some.injEq]
  exact h.uniq _ _ _ h1 h2

theorem Inv.allSome {ft : FTree} {done : List Flow} (h : Inv ft done) : AllSome ft.tree := by
  intro ⟨q, ov⟩ hm
  obtain ⟨i, hi, _⟩ := h.vals _ _ hm
  simp [hi]

theorem Inv.aligned {ft : FTree} {done : List Flow} (h : Inv ft done) {u : Url}
    (hfl : ∀ g ∈ done, flagsOK g.parts u = true) : Aligned ft.tree u := by
  intro ⟨q, ov⟩ hm
  obtain ⟨g, hg, hq⟩ := h.dom _ _ hm
  rw [← hq]
  exact hfl g hg

theorem any_false_of {α : Type} {l : List α} {p : α → Bool} (h : l.any p = false) : ∀ a ∈ l, p a = false := by
  intro a ha
  rw [List.any_eq_false] at h
  simpa using h a ha

/-- `NoConf` for the tree, from the classifier of F03d (no node of the pattern exists yet). -/
theorem Inv.noConf {ft : FTree} {done : List Flow} (h : Inv ft done) {f : Flow}
    (hconf : mergeConfusedAt done f = false) (hown : ¬ ∃ g ∈ done, g.parts = f.parts) :
    NoConf ft.tree none f.parts := by
  have hownb : done.any (fun g => g.parts == f.parts) = false := by
    rw [List.any_eq_false]
    intro g hg
    simp only [beq_iff_eq]
    exact fun he => hown ⟨g, hg, he⟩
  unfold mergeConfusedAt at hconf
  simp only [hownb, Bool.not_false, Bool.true_and, Bool.false_and, Bool.or_false, Bool.or_eq_false_iff] at hconf
  obtain ⟨⟨h1, h2⟩, h3⟩ := hconf
  refine ⟨?_, ?_, ?_⟩
  · intro ⟨q, ov⟩ hm
    obtain ⟨g, hg, hq⟩ := h.dom _ _ hm
    have := any_false_of h1 g hg
    simp only [beq_eq_false_iff_ne, ne_eq] at this
    rw [← hq]; exact this
  · intro hew
    simp only [hew, Bool.not_false, Bool.true_and, Bool.and_eq_false_iff] at h2
    rcases h2 with h2 | h2
    · left
      refine ⟨rfl, ?_⟩
      intro ⟨q, ov⟩ hm
      obtain ⟨g, hg, hq⟩ := h.dom _ _ hm
      rw [← hq]; exact any_false_of h2 g hg
    · right
      intro ⟨q, ov⟩ hm
      obtain ⟨g, hg, hq⟩ := h.dom _ _ hm
      rw [← hq]; exact any_false_of h2 g hg
  · intro hew
    simp only [hew, Bool.true_and, Bool.and_eq_false_iff] at h3
    rcases h3 with h3 | h3
    · left
      refine ⟨rfl, ?_⟩
      intro ⟨q, ov⟩ hm
      obtain ⟨g, hg, hq⟩ := h.dom _ _ hm
      rw [← hq]; exact any_false_of h3 g hg
    · right
      intro ⟨q, ov⟩ hm
      obtain ⟨g, hg, hq⟩ := h.dom _ _ hm
      rw [← hq]; exact any_false_of h3 g hg

theorem mem_append_entry {t : Tree Nat} {ps : List Part} {n : Nat} {q : List Part} {ov : Option Nat}
    (hwl : wildLast ps = true)
    (h : (q, ov) ∈ t ++ [(trunc ps, if (trunc ps).length < ps.length then none else some n)]) :
    (q, ov) ∈ t ∨ (q = ps ∧ ov = some n) := by
  rcases List.mem_append.mp h with hm | hm
  · exact .inl hm
  · right
    rw [trunc_of_wildLast _ hwl] at hm
    simpa using hm

theorem entry_mem_append {t : Tree Nat} {ps : List Part} {n : Nat} (hwl : wildLast ps = true) :
    (ps, some n) ∈ t ++ [(trunc ps, if (trunc ps).length < ps.length then none else some n)] := by
  apply List.mem_append_right
  rw [trunc_of_wildLast _ hwl]
  simp

/-- One `AddFlow` preserves the invariant. -/
theorem addFlow_inv {ft ft' : FTree} {done : List Flow} {f : Flow}
    (hinv : Inv ft done) (hf : Fresh done f) (h : addFlow ft f = .ok ft') : Inv ft' (done ++ [f]) := by
  have hfl : ∀ g ∈ done, ∀ g' ∈ done, flagsOK g.parts g'.parts = true :=
    fun g hg g' hg' => hf.flags g (by simp [hg]) g' (by simp [hg'])
  have hpo := hinv.partsOK hfl
  have hrc := hinv.rcoh
  have hsub : ∀ g, g ∈ done → g ∈ done ++ [f] := fun g hg => by simp [hg]
  by_cases hown : ∃ g ∈ done, g.parts = f.parts
  · -- the node of the pattern exists: the lookup finds it and the flow is merged into it
    obtain ⟨g, hg, hgp⟩ := hown
    obtain ⟨i, hmem, _⟩ := hinv.cov g hg
    rw [hgp] at hmem
    have hnsp : endsWild f.parts = true → ∀ e ∈ ft.tree, followsPast (f.parts.length - 1) e.1 f.parts = false := by
      intro hew ⟨q, ov⟩ hm
      obtain ⟨g', hg', hq⟩ := hinv.dom _ _ hm
      have hconf := hf.conf
      unfold mergeConfusedAt at hconf
      have hownb : done.any (fun g => g.parts == f.parts) = true := by
        rw [List.any_eq_true]; exact ⟨g, hg, by simp [hgp]⟩
      simp only [hownb, hew, Bool.true_and, Bool.or_eq_false_iff] at hconf
      rw [← hq]
      exact any_false_of hconf.2 g' hg'
    obtain ⟨hm1, hm2, hm3⟩ := lookGo_found f.parts ft.tree none [] [] i hinv.wl hpo hrc hmem hnsp
    have hcanon := hf.canon ⟨g, hg, hgp⟩
    have hi : i < ft.store.length := by
      obtain ⟨j, hj, hlt⟩ := hinv.vals _ _ hmem
      simp only [Option.some.injEq] at hj; subst hj; exact hlt
    unfold addFlow at h
    simp only [List.nil_append] at hm3
    change (lookupParts ft.tree f.parts).isMatch = true at hm1
    change (lookupParts ft.tree f.parts).value = some i at hm2
    change (lookupParts ft.tree f.parts).norm = f.parts at hm3
    have hcond : ((lookupParts ft.tree f.parts).isMatch && f.canon &&
        (lookupParts ft.tree f.parts).norm == f.parts) = true := by
      simp [hm1, hcanon, hm3]
    simp only at h
    rw [if_pos hcond, hm2] at h
    simp only [Except.ok.injEq] at h
    subst h
    have hqi : ∀ q, (q, some i) ∈ ft.tree → q = f.parts := fun q hq => hinv.inj _ _ _ hq hmem
    refine ⟨hinv.wl, hinv.names, ?_, ?_, hinv.uniq, hinv.inj, ?_, ?_, ?_⟩
    · intro q ov hm
      obtain ⟨j, hj, hlt⟩ := hinv.vals q ov hm
      exact ⟨j, hj, by simpa using hlt⟩
    · intro q ov hm
      obtain ⟨g', hg', hq⟩ := hinv.dom q ov hm
      exact ⟨g', hsub _ hg', hq⟩
    · intro q j hm k g' hg'
      simp only at hg'
      by_cases hji : j = i
      · subst hji
        rw [getD_set_eq' _ _ _ _ hi, FNode.group_add] at hg'
        by_cases hk : f.kind = k
        · rw [if_pos hk] at hg'
          rcases List.mem_append.mp hg' with hg' | hg'
          · obtain ⟨a, b, c⟩ := hinv.node q j hm k g' hg'
            exact ⟨a, hsub _ b, c⟩
          · simp only [List.mem_singleton] at hg'
            subst hg'
            exact ⟨(hqi q hm).symm, by simp, hk⟩
        · rw [if_neg hk] at hg'
          obtain ⟨a, b, c⟩ := hinv.node q j hm k g' hg'
          exact ⟨a, hsub _ b, c⟩
      · rw [getD_set_ne' _ _ _ _ _ (Ne.symm hji)] at hg'
        obtain ⟨a, b, c⟩ := hinv.node q j hm k g' hg'
        exact ⟨a, hsub _ b, c⟩
    · intro g' hg'
      simp only
      rcases List.mem_append.mp hg' with hg' | hg'
      · obtain ⟨j, hj, hin⟩ := hinv.cov g' hg'
        refine ⟨j, hj, ?_⟩
        by_cases hji : j = i
        · subst hji
          rw [getD_set_eq' _ _ _ _ hi, FNode.group_add]
          split
          · exact List.mem_append_left _ hin
          · exact hin
        · rw [getD_set_ne' _ _ _ _ _ (Ne.symm hji)]; exact hin
      · simp only [List.mem_singleton] at hg'
        subst hg'
        refine ⟨i, hmem, ?_⟩
        rw [getD_set_eq' _ _ _ _ hi, FNode.group_add]
        simp
    · intro q j hm
      simp only
      obtain ⟨g0, hg0, hq0, hreq⟩ := hinv.req q j hm
      refine ⟨g0, hsub _ hg0, hq0, ?_⟩
      by_cases hji : j = i
      · subst hji
        rw [getD_set_eq' _ _ _ _ hi, FNode.req_add]; exact hreq
      · rw [getD_set_ne' _ _ _ _ _ (Ne.symm hji)]; exact hreq
  · -- no node of the pattern yet: nothing answers for it, a fresh node is inserted
    have hal : Aligned ft.tree f.parts := hinv.aligned (fun g hg => hf.flags g (by simp [hg]) f (by simp))
    have hcond : ((lookupParts ft.tree f.parts).isMatch && f.canon &&
        (lookupParts ft.tree f.parts).norm == f.parts) = false := by
      cases hc : ((lookupParts ft.tree f.parts).isMatch && f.canon &&
        (lookupParts ft.tree f.parts).norm == f.parts) with
      | false => rfl
      | true =>
        exfalso
        simp only [Bool.and_eq_true, beq_iff_eq] at hc
        obtain ⟨⟨hm, _⟩, hn⟩ := hc
        have := lookGo_norm_own f.parts ft.tree none [] [] hinv.wl hpo hinv.allSome hal
          (hinv.noConf hf.conf hown) (.inr rfl) hm (by simpa [lookupParts] using hn)
        obtain ⟨g, hg, hq⟩ := hinv.dom _ _ this
        exact hown ⟨g, hg, hq⟩
    unfold addFlow at h
    simp only at h
    rw [if_neg (by simp [hcond])] at h
    split at h
    · simp at h
    · rename_i t' hins
      simp only [Except.ok.injEq] at h
      subst h
      have hnames := insertParts_namesOK hinv.names hins
      have hwl' := insertParts_wildLast hinv.wl hins
      have ht' := insertParts_declared hins
      have hnew := fun q ov => @mem_append_entry ft.tree f.parts ft.store.length q ov hf.wl
      refine ⟨hwl', hnames, ?_, ?_, ?_, ?_, ?_, ?_, ?_⟩
      · intro q ov hm
        simp only at hm ⊢
        rw [ht'] at hm
        rcases hnew q ov hm with hold | ⟨_, hov⟩
        · obtain ⟨j, hj, hlt⟩ := hinv.vals q ov hold
          exact ⟨j, hj, by simp; omega⟩
        · exact ⟨ft.store.length, hov, by simp⟩
      · intro q ov hm
        simp only at hm
        rw [ht'] at hm
        rcases hnew q ov hm with hold | ⟨hq, _⟩
        · obtain ⟨g, hg, hgq⟩ := hinv.dom q ov hold
          exact ⟨g, hsub _ hg, hgq⟩
        · exact ⟨f, by simp, hq.symm⟩
      · intro q i j h1 h2
        simp only at h1 h2
        rw [ht'] at h1 h2
        rcases hnew _ _ h1 with o1 | ⟨e1, j1⟩ <;> rcases hnew _ _ h2 with o2 | ⟨e2, j2⟩
        · exact hinv.uniq _ _ _ o1 o2
        · exfalso
          obtain ⟨g, hg, hgq⟩ := hinv.dom _ _ o1
          exact hown ⟨g, hg, by rw [hgq, e2]⟩
        · exfalso
          obtain ⟨g, hg, hgq⟩ := hinv.dom _ _ o2
          exact hown ⟨g, hg, by rw [hgq, e1]⟩
        · simp only [Option.some.injEq] at j1 j2; rw [j1, j2]
      · intro q q' i h1 h2
        simp only at h1 h2
        rw [ht'] at h1 h2
        rcases hnew _ _ h1 with o1 | ⟨e1, j1⟩ <;> rcases hnew _ _ h2 with o2 | ⟨e2, j2⟩
        · exact hinv.inj _ _ _ o1 o2
        · exfalso
          obtain ⟨j, hj, hlt⟩ := hinv.vals _ _ o1
          simp only [Option.some.injEq] at hj j2; omega
        · exfalso
          obtain ⟨j, hj, hlt⟩ := hinv.vals _ _ o2
          simp only [Option.some.injEq] at hj j1; omega
        · rw [e1, e2]
      · intro q i hm k g hg
        simp only at hm hg
        rw [ht'] at hm
        rcases hnew _ _ hm with hold | ⟨hq, hi⟩
        · obtain ⟨j, hj, hlt⟩ := hinv.vals _ _ hold
          simp only [Option.some.injEq] at hj; subst hj
          rw [getD_append_left' _ _ _ _ hlt] at hg
          obtain ⟨a, b, c⟩ := hinv.node q i hold k g hg
          exact ⟨a, hsub _ b, c⟩
        · simp only [Option.some.injEq] at hi; subst hi
          rw [getD_append_new', FNode.group_fresh] at hg
          by_cases hk : f.kind = k
          · rw [if_pos hk] at hg
            simp only [List.mem_singleton] at hg
            subst hg
            exact ⟨hq.symm, by simp, hk⟩
          · rw [if_neg hk] at hg; simp at hg
      · intro g hg
        simp only
        rw [ht']
        rcases List.mem_append.mp hg with hg | hg
        · obtain ⟨j, hj, hin⟩ := hinv.cov g hg
          obtain ⟨j', hj', hlt⟩ := hinv.vals _ _ hj
          simp only [Option.some.injEq] at hj'; subst hj'
          exact ⟨j, List.mem_append_left _ hj, by rw [getD_append_left' _ _ _ _ hlt]; exact hin⟩
        · simp only [List.mem_singleton] at hg
          subst hg
          exact ⟨ft.store.length, entry_mem_append hf.wl, by rw [getD_append_new', FNode.group_fresh]; simp⟩
      · intro q i hm
        simp only at hm ⊢
        rw [ht'] at hm
        rcases hnew _ _ hm with hold | ⟨hq, hi⟩
        · obtain ⟨j, hj, hlt⟩ := hinv.vals _ _ hold
          simp only [Option.some.injEq] at hj; subst hj
          obtain ⟨g0, hg0, hq0, hreq⟩ := hinv.req q i hold
          exact ⟨g0, hsub _ hg0, hq0, by rw [getD_append_left' _ _ _ _ hlt]; exact hreq⟩
        · simp only [Option.some.injEq] at hi; subst hi
          exact ⟨f, by simp, hq.symm, by rw [getD_append_new', FNode.req_fresh]⟩

/-! ### the whole load -/

/-- `Fresh` for every flow relative to the flows loaded before it. -/
def FreshAll : List Flow → List Flow → Prop
  | _, [] => True
  | done, f :: rest => Fresh done f ∧ FreshAll (done ++ [f]) rest

theorem buildFrom_inv (fs : List Flow) : ∀ (ft ft' : FTree) (done : List Flow),
    Inv ft done → FreshAll done fs → buildFrom ft fs = .ok ft' → Inv ft' (done ++ fs) := by
  induction fs with
  | nil => intro ft ft' done hinv _ h; simp [buildFrom] at h; subst h; simpa using hinv
  | cons f rest ih =>
    intro ft ft' done hinv hfa h
    unfold buildFrom at h
    split at h
    · simp at h
    · rename_i ft1 hadd
      obtain ⟨hf, hrest⟩ := hfa
      have := ih ft1 ft' (done ++ [f]) (addFlow_inv hinv hf hadd) hrest h
      simpa using this

theorem laterSameNonCanon_split (done : List Flow) (f : Flow) (rest : List Flow)
    (h : laterSameNonCanon (done ++ f :: rest) = false) : ∀ g ∈ done, g.parts = f.parts → f.canon = true := by
  induction done with
  | nil => intro g hg; simp at hg
  | cons d ds ih =>
    intro g hg hgp
    simp only [List.cons_append, laterSameNonCanon, Bool.or_eq_false_iff] at h
    rcases List.mem_cons.mp hg with rfl | hg
    · have := any_false_of h.1 f (by simp)
      simpa [hgp] using this
    · exact ih h.2 g hg hgp

theorem freshAll_of (rest : List Flow) : ∀ (done : List Flow),
    mergeConfusedFrom done rest = false →
    (∀ g ∈ done ++ rest, ∀ g' ∈ done ++ rest, flagsOK g.parts g'.parts = true) →
    (∀ g ∈ done ++ rest, wildLast g.parts = true) →
    laterSameNonCanon (done ++ rest) = false → FreshAll done rest := by
  induction rest with
  | nil => intro done _ _ _ _; trivial
  | cons f rest ih =>
    intro done hconf hflags hwl hcanon
    simp only [mergeConfusedFrom, Bool.or_eq_false_iff] at hconf
    refine ⟨⟨hconf.1, ?_, hwl f (by simp), ?_⟩, ?_⟩
    · intro g hg g' hg'
      apply hflags
      · rcases List.mem_append.mp hg with hg | hg
        · simp [hg]
        · simp at hg; simp [hg]
      · rcases List.mem_append.mp hg' with hg' | hg'
        · simp [hg']
        · simp at hg'; simp [hg']
    · rintro ⟨g, hg, hgp⟩
      exact laterSameNonCanon_split done f rest hcanon g hg hgp
    · apply ih (done ++ [f]) hconf.2
      · simpa using hflags
      · simpa using hwl
      · simpa using hcanon

theorem cfgBoundaryMix_false {cfg : List Flow} (h : cfgBoundaryMix cfg = false) :
    ∀ g ∈ cfg, ∀ g' ∈ cfg, flagsOK g.parts g'.parts = true := by
  intro g hg g' hg'
  have h1 := any_false_of h g' hg'
  unfold boundaryMix at h1
  have h2 := any_false_of h1 g hg
  simpa using h2

/-- The invariant holds of every tree loaded from a configuration outside F03a/d/e/g. -/
theorem build_inv {cfg : List Flow} {ft : FTree} (hb : benignCfg cfg = true) (h : build cfg = .ok ft) :
    Inv ft cfg := by
  unfold benignCfg at hb
  simp only [Bool.and_eq_true, Bool.not_eq_true'] at hb
  obtain ⟨⟨⟨_, hmc⟩, hbm⟩, hnc⟩ := hb
  unfold nonCanonical at hnc
  simp only [Bool.or_eq_false_iff] at hnc
  have hwl : ∀ g ∈ cfg, wildLast g.parts = true := by
    intro g hg
    have := any_false_of hnc.1 g hg
    simpa using this
  have hfa := freshAll_of cfg [] hmc (by simpa using cfgBoundaryMix_false hbm) (by simpa using hwl)
    (by simpa using hnc.2)
  have := buildFrom_inv cfg .empty ft [] inv_empty hfa h
  simpa using this

end LunarVerif.C03
