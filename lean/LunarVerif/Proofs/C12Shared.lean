import LunarVerif.Proofs.C12
import LunarVerif.Spec.C12Shared
/-! C12, several caching remedies on the one shared plugin cache. -/
set_option linter.unusedSectionVars false
set_option linter.unusedSimpArgs false
namespace LunarVerif.C12

section
variable {σ : Type} [DecidableEq σ]

def SSrc (k : SKey σ) (e : Entry (Stored σ)) (r0 : SRec σ) : Prop :=
  ∃ rm m u sel r bl sz, r0.op = .resp rm m u sel r bl sz ∧ k = ⟨m, u, dots rm.n sel, sel⟩ ∧ bl ≤ rm.cfg.maxRec ∧
    e.val.resp = r ∧ e.expiry = r0.t + rm.cfg.ttl

structure SInv (h : List (SRec σ)) (c : SCache σ) : Prop where
  src : ∀ k e, find? k c.entries = some e → ∃ r0, r0 ∈ h ∧ SSrc k e r0
  time : ∀ r0, r0 ∈ h → r0.t ≤ c.now
  off : c.sizeOn = false → c.entries = [] ∧ c.tracked = 0
  held : c.sizeOn = true → (heldSize c.entries : Int) ≤ c.tracked
  bound : c.tracked ≤ maxLimit h
  grow : c.tracked ≤ growBound h

theorem maxLimit_nonneg (h : List (SRec σ)) : 0 ≤ maxLimit h := by
  induction h with
  | nil => simp [maxLimit]
  | cons r older ih =>
    simp only [maxLimit]
    cases r.op <;> simp only <;> (try exact ih)
    split <;> omega

theorem maxLimit_mono (r : SRec σ) (h : List (SRec σ)) : maxLimit h ≤ maxLimit (r :: h) := by
  simp only [maxLimit]
  cases r.op <;> simp only <;> (try exact Int.le_refl _)
  split <;> omega

theorem maxLimit_resp (t : Int) (rm : Remedy) (m u : σ) (sel : List (σ × σ)) (r : Resp σ) (bl sz : Nat)
    (o : POut σ) (h : List (SRec σ)) : rm.cfg.maxBytes ≤ maxLimit (⟨t, .resp rm m u sel r bl sz, o⟩ :: h) := by
  simp only [maxLimit]
  split <;> omega

theorem growBound_resp_mono (t : Int) (rm : Remedy) (m u : σ) (sel : List (σ × σ)) (r : Resp σ) (bl sz : Nat)
    (o : POut σ) (h : List (SRec σ)) :
    growBound h ≤ growBound (⟨t, .resp rm m u sel r bl sz, o⟩ :: h) ∧
    rm.cfg.maxBytes ≤ growBound (⟨t, .resp rm m u sel r bl sz, o⟩ :: h) := by
  simp only [growBound]
  split <;> omega

theorem growBound_req (t : Int) (rm : Remedy) (m u : σ) (sel : List (σ × σ)) (o : POut σ) (h : List (SRec σ)) :
    growBound (⟨t, .req rm m u sel, o⟩ :: h) = growBound h := by simp [growBound]
theorem growBound_fire (t : Int) (i : Nat) (o : POut σ) (h : List (SRec σ)) :
    growBound (⟨t, .fire i, o⟩ :: h) = growBound h := by simp [growBound]
theorem growBound_skip (t : Int) (d : Nat) (o : POut σ) (h : List (SRec σ)) :
    growBound (⟨t, .skip d, o⟩ :: h) = growBound h := by simp [growBound]
theorem growBound_adv (t : Int) (d : Nat) (o : POut σ) (h : List (SRec σ)) :
    growBound (⟨t, .adv d, o⟩ :: h) = growBound h := by simp [growBound]

theorem sinv_init (t0 : Int) : SInv ([] : List (SRec σ)) (Cache.init t0 false 0) := by
  refine ⟨?_, ?_, ?_, ?_, ?_, ?_⟩
  · intro k e hf; simp [Cache.init, find?] at hf
  · intro r0 hr; cases hr
  · intro _; exact ⟨rfl, rfl⟩
  · intro h; simp [Cache.init] at h
  · simp [Cache.init, maxLimit]
  · simp [Cache.init, growBound]

theorem sinv_shrink {h : List (SRec σ)} {c c' : SCache σ} (r : SRec σ)
    (hinv : SInv h c) (hrt : r.t = c.now)
    (hent : ∀ k e, find? k c'.entries = some e → find? k c.entries = some e)
    (hnow : c.now ≤ c'.now) (hson : c'.sizeOn = c.sizeOn) (htr : c'.tracked ≤ c.tracked)
    (hoff : c.sizeOn = false → c'.entries = [] ∧ c'.tracked = 0)
    (hheld : c.sizeOn = true → (heldSize c.entries : Int) ≤ c.tracked → (heldSize c'.entries : Int) ≤ c'.tracked)
    (hgrow : growBound h ≤ growBound (r :: h) ∨ c'.tracked ≤ growBound (r :: h)) :
    SInv (r :: h) c' := by
  refine ⟨?_, ?_, ?_, ?_, ?_, ?_⟩
  · intro k e hf
    obtain ⟨r0, hm, hs⟩ := hinv.src k e (hent k e hf)
    exact ⟨r0, List.mem_cons_of_mem _ hm, hs⟩
  · intro r0 hm
    rcases List.mem_cons.mp hm with h1 | h1
    · rw [h1, hrt]; exact hnow
    · have := hinv.time r0 h1; omega
  · intro hx; rw [hson] at hx; exact hoff hx
  · intro hx; rw [hson] at hx; exact hheld hx (hinv.held hx)
  · have := hinv.bound; have := maxLimit_mono r h; omega
  · have := hinv.grow
    rcases hgrow with h1 | h1 <;> omega

theorem shrink_clearKey_held (c : SCache σ) (k : SKey σ) (hon : c.sizeOn = true)
    (hh : (heldSize c.entries : Int) ≤ c.tracked) :
    (heldSize (clearKey c k).entries : Int) ≤ (clearKey c k).tracked := by
  have := heldSize_erase_le k c.entries
  simp only [clearKey, hon, if_true]
  omega

theorem clearKey_tracked_le (c : SCache σ) (k : SKey σ) : (clearKey c k).tracked ≤ c.tracked := by
  simp only [clearKey]; cases c.sizeOn <;> simp <;> omega

theorem clearAll_tracked_le (c : SCache σ) (l : List (Sleeper (SKey σ))) : (clearAll c l).tracked ≤ c.tracked := by
  induction l generalizing c with
  | nil => exact Int.le_refl _
  | cons s rest ih => exact Int.le_trans (ih _) (clearKey_tracked_le c s.key)

theorem clearAll_held (c : SCache σ) (l : List (Sleeper (SKey σ))) (hon : c.sizeOn = true)
    (hh : (heldSize c.entries : Int) ≤ c.tracked) :
    (heldSize (clearAll c l).entries : Int) ≤ (clearAll c l).tracked := by
  induction l generalizing c with
  | nil => exact hh
  | cons s rest ih => exact ih (clearKey c s.key) hon (shrink_clearKey_held c s.key hon hh)

theorem sstep_inv (c : SCache σ) (h : List (SRec σ)) (op : SOp σ) (hinv : SInv h c) :
    SInv (⟨c.now, op, (sstep c op).2⟩ :: h) (sstep c op).1 := by
  have same : ∀ o, (growBound h ≤ growBound (⟨c.now, op, o⟩ :: h) ∨ c.tracked ≤ growBound (⟨c.now, op, o⟩ :: h)) →
      SInv (⟨c.now, op, o⟩ :: h) c := fun o hg =>
    sinv_shrink ⟨c.now, op, o⟩ hinv rfl (fun _ _ x => x) (Int.le_refl _) rfl (Int.le_refl _) hinv.off (fun _ x => x) hg
  cases op with
  | resp rm m u sel r bl sz =>
    have hgr : ∀ o : POut σ, growBound h ≤ growBound (⟨c.now, .resp rm m u sel r bl sz, o⟩ :: h) :=
      fun o => (growBound_resp_mono c.now rm m u sel r bl sz o h).1
    simp only [sstep]
    by_cases hbig : bl > rm.cfg.maxRec
    · simp only [hbig, if_true]; exact same _ (Or.inl (hgr _))
    · simp only [hbig, if_false]
      by_cases hhas : has c ⟨m, u, dots rm.n sel, sel⟩ = true
      · simp only [hhas, if_true]; exact same _ (Or.inl (hgr _))
      · simp only [hhas, Bool.false_eq_true, if_false]
        have hheld1 : (heldSize c.entries : Int) ≤ c.tracked := by
          cases hon : c.sizeOn with
          | false => obtain ⟨he, ht⟩ := hinv.off hon; rw [he, ht]; simp [heldSize]
          | true => exact hinv.held hon
        have hml := maxLimit_resp c.now rm m u sel r bl sz (POut.noop : POut σ) h
        have hmono := maxLimit_mono (⟨c.now, .resp rm m u sel r bl sz, POut.noop⟩ : SRec σ) h
        have hgm := growBound_resp_mono c.now rm m u sel r bl sz (POut.noop : POut σ) h
        refine ⟨?_, ?_, ?_, ?_, ?_, ?_⟩
        · intro k e hf
          rcases find?_set hf with ⟨hk, he, _⟩ | ⟨_, _, hb⟩ | ⟨_, hb⟩
          · refine ⟨_, List.mem_cons_self, rm, m, u, sel, r, bl, sz, rfl, hk, by omega, ?_, ?_⟩
            · rw [he]
            · rw [he]
          · obtain ⟨r0, hm, hs⟩ := hinv.src k e hb
            exact ⟨r0, List.mem_cons_of_mem _ hm, hs⟩
          · obtain ⟨r0, hm, hs⟩ := hinv.src k e hb
            exact ⟨r0, List.mem_cons_of_mem _ hm, hs⟩
        · intro r0 hm
          rw [set_now]
          rcases List.mem_cons.mp hm with h1 | h1
          · rw [h1]; exact Int.le_refl _
          · exact hinv.time r0 h1
        · intro hx; rw [set_sizeOn] at hx; cases hx
        · intro _
          rcases set_cases ({ c with sizeOn := true, max := rm.cfg.maxBytes } : SCache σ) ⟨m, u, dots rm.n sel, sel⟩
            ⟨r, c.now⟩ rm.cfg.ttl sz with ⟨_, h1⟩ | ⟨_, _, _, _, _, hcase⟩
          · rw [h1]; exact hheld1
          · have hle := heldSize_erase_le (⟨m, u, dots rm.n sel, sel⟩ : SKey σ) c.entries
            rcases hcase with ⟨_, hent, htr⟩ | ⟨_, hent, htr⟩
            · rw [hent, htr]; simp only [heldSize, if_true]; omega
            · rw [hent, htr]; show (heldSize (erase _ c.entries) : Int) ≤ c.tracked; omega
        · have hb := hinv.bound
          rcases set_cases ({ c with sizeOn := true, max := rm.cfg.maxBytes } : SCache σ) ⟨m, u, dots rm.n sel, sel⟩
            ⟨r, c.now⟩ rm.cfg.ttl sz with ⟨_, h1⟩ | ⟨hroom, _, _, _, _, hcase⟩
          · rw [h1]; show c.tracked ≤ _; omega
          · rcases hcase with ⟨_, _, htr⟩ | ⟨_, _, htr⟩
            · rw [htr]
              have : ¬ (c.tracked + (sz : Nat) > rm.cfg.maxBytes) := fun x => hroom ⟨rfl, x⟩
              simp only [if_true]
              show c.tracked + (sz : Nat) ≤ _
              omega
            · rw [htr]; show c.tracked ≤ _; omega
        · have hg := hinv.grow
          rcases set_cases ({ c with sizeOn := true, max := rm.cfg.maxBytes } : SCache σ) ⟨m, u, dots rm.n sel, sel⟩
            ⟨r, c.now⟩ rm.cfg.ttl sz with ⟨_, h1⟩ | ⟨hroom, _, _, _, _, hcase⟩
          · rw [h1]; show c.tracked ≤ _; omega
          · rcases hcase with ⟨_, _, htr⟩ | ⟨_, _, htr⟩
            · rw [htr]
              have : ¬ (c.tracked + (sz : Nat) > rm.cfg.maxBytes) := fun x => hroom ⟨rfl, x⟩
              simp only [if_true]
              show c.tracked + (sz : Nat) ≤ _
              omega
            · rw [htr]; show c.tracked ≤ _; omega
  | req rm m u sel =>
    simp only [sstep]
    cases get c ⟨m, u, dots rm.n sel, sel⟩ with
    | none => exact same _ (Or.inl (by rw [growBound_req]; exact Int.le_refl _))
    | some s => exact same _ (Or.inl (by rw [growBound_req]; exact Int.le_refl _))
  | fire i =>
    simp only [sstep]
    refine sinv_shrink _ hinv rfl (fun _ _ x => find?_fire x) (by rw [fire_now]; exact Int.le_refl _)
      (fire_sizeOn c i) ?_
      (fun hx => ⟨fire_entries_nil i (hinv.off hx).1, by rw [fire_tracked_off i hx]; exact (hinv.off hx).2⟩) ?_
      (Or.inl (by rw [growBound_fire]; exact Int.le_refl _))
    · rcases fire_cases c i with h1 | h1 | ⟨s, _, _, h1⟩
      · rw [h1]; exact Int.le_refl _
      · rw [h1]; exact Int.le_refl _
      · rw [h1]; exact clearKey_tracked_le c s.key
    · intro hon hh
      rcases fire_cases c i with h1 | h1 | ⟨s, _, _, h1⟩
      · rw [h1]; exact hh
      · rw [h1]; exact hh
      · rw [h1]; exact shrink_clearKey_held c s.key hon hh
  | skip d =>
    simp only [sstep]
    exact sinv_shrink _ hinv rfl (fun _ _ x => x) (by simp only [skip]; omega) rfl (Int.le_refl _) hinv.off
      (fun _ x => x) (Or.inl (by rw [growBound_skip]; exact Int.le_refl _))
  | adv d =>
    simp only [sstep]
    exact sinv_shrink _ hinv rfl (fun _ _ x => find?_adv x) (by rw [adv_now]; omega)
      (adv_sizeOn c d) (clearAll_tracked_le c _)
      (fun hx => ⟨adv_entries_nil d (hinv.off hx).1, by rw [adv_tracked_off d hx]; exact (hinv.off hx).2⟩)
      (fun hon hh => clearAll_held c _ hon hh) (Or.inl (by rw [growBound_adv]; exact Int.le_refl _))
  | probe => simp only [sstep]; exact same _ (Or.inr (by simp [growBound]))

theorem sstep_recOk (c : SCache σ) (h : List (SRec σ)) (op : SOp σ) (hinv : SInv h c) :
    sRecOk false ⟨c.now, op, (sstep c op).2⟩ h = true := by
  cases op with
  | resp rm m u sel r bl sz =>
    simp only [sstep]
    by_cases hbig : bl > rm.cfg.maxRec
    · simp [hbig, sRecOk]
    · by_cases hhas : has c ⟨m, u, dots rm.n sel, sel⟩ = true
      · simp [hbig, hhas, sRecOk]
      · simp [hbig, hhas, sRecOk]
  | req rm m u sel =>
    simp only [sstep]
    cases hg : get c ⟨m, u, dots rm.n sel, sel⟩ with
    | none => simp [sRecOk]
    | some s =>
      obtain ⟨e, hf, hv, hle⟩ := get_some hg
      obtain ⟨r0, hm, rm0, m0, u0, sel0, r, bl, sz, hop, hk, hbl, hr, hexp⟩ := hinv.src _ e hf
      have ht := hinv.time r0 hm
      simp only [sRecOk]
      simp only [decide_true, Bool.true_and]
      rw [List.any_eq_true]
      refine ⟨r0, hm, ?_⟩
      have hk' : m0 = m ∧ u0 = u ∧ dots rm0.n sel0 = dots rm.n sel ∧ sel0 = sel := by
        simp only [SKey.mk.injEq] at hk
        exact ⟨hk.1.symm, hk.2.1.symm, hk.2.2.1.symm, hk.2.2.2.symm⟩
      rw [hv] at hr
      have hd := hk'.2.2.1
      rw [hk'.2.2.2] at hd
      simp only [sJustifies, hop]
      simp only [hk'.1, hk'.2.1, hk'.2.2.2, hd, hbl, ← hr, decide_true, Bool.and_self, Bool.true_and,
        Bool.and_true, Bool.not_false, Bool.true_or, Bool.and_eq_true, decide_eq_true_eq]
      constructor <;> omega
  | fire i => simp [sstep, sRecOk]
  | skip d => simp [sstep, sRecOk]
  | adv d => simp [sstep, sRecOk]
  | probe =>
    simp only [sstep, sRecOk]
    have hb := hinv.bound
    have hg := hinv.grow
    cases hon : c.sizeOn with
    | false =>
      obtain ⟨he, ht⟩ := hinv.off hon
      rw [he, ht]
      rw [ht] at hg
      simp [heldSize]; exact ⟨maxLimit_nonneg h, hg⟩
    | true =>
      have h1 := hinv.held hon
      simp; omega

theorem srun_holdsRev (ops : List (SOp σ)) (c : SCache σ) (h : List (SRec σ)) (hinv : SInv h c)
    (hh : sholdsRev false h = true) : sholdsRev false ((srun c ops).reverse ++ h) = true := by
  induction ops generalizing c h with
  | nil => simpa [srun] using hh
  | cons op ops ih =>
    simp only [srun, List.reverse_cons, List.append_assoc, List.singleton_append]
    apply ih
    · exact sstep_inv c h op hinv
    · simp only [sholdsRev, Bool.and_eq_true]
      exact ⟨sstep_recOk c h op hinv, hh⟩

end

end LunarVerif.C12
