import LunarVerif.Proofs.C12
import LunarVerif.Spec.C12SharedT
/-! C12, several throttling configurations on the one shared plugin. -/
set_option linter.unusedSectionVars false
set_option linter.unusedSimpArgs false
namespace LunarVerif.C12

section
variable {σ : Type} [DecidableEq σ]

def TSSrc (f : AbsTtl) (num : σ → Option Int) (k : σ × σ) (e : Entry (HStored σ)) (r0 : TSRec σ) : Prop :=
  ∃ a m u r n ttl, r0.op = .resp a m u r ∧ k = (m, u) ∧ a.cfg.statuses.contains r.status = true ∧
    e.val = ⟨r, r0.t⟩ ∧ readRa num a r = some n ∧ ttlOf f a.cfg r0.t n = some ttl ∧
    e.expiry = r0.t + ttl ∧ ttl > 0

structure TSInv (f : AbsTtl) (num : σ → Option Int) (h : List (TSRec σ)) (c : TSCache σ) : Prop where
  src : ∀ k e, find? k c.entries = some e → ∃ r0, r0 ∈ h ∧ TSSrc f num k e r0
  time : ∀ r0, r0 ∈ h → r0.t ≤ c.now

theorem tsinv_init (f : AbsTtl) (num : σ → Option Int) (t0 : Int) :
    TSInv f num ([] : List (TSRec σ)) (Cache.init t0 false 0) := by
  constructor
  · intro k e hf; simp [Cache.init, find?] at hf
  · intro r0 hr; cases hr

theorem tsinv_shrink {f : AbsTtl} {num : σ → Option Int} {h : List (TSRec σ)} {c c' : TSCache σ} (r : TSRec σ)
    (hinv : TSInv f num h c) (hrt : r.t = c.now)
    (hent : ∀ k e, find? k c'.entries = some e → find? k c.entries = some e)
    (hnow : c.now ≤ c'.now) : TSInv f num (r :: h) c' := by
  constructor
  · intro k e hf
    obtain ⟨r0, hm, hs⟩ := hinv.src k e (hent k e hf)
    exact ⟨r0, List.mem_cons_of_mem _ hm, hs⟩
  · intro r0 hm
    rcases List.mem_cons.mp hm with h1 | h1
    · rw [h1, hrt]; exact hnow
    · have := hinv.time r0 h1; omega

theorem tsstep_req_fst (f : AbsTtl) (num : σ → Option Int) (c : TSCache σ) (rm : TRemedy σ) (m u : σ) :
    (tsstep f num c (.req rm m u)).1 = c := by
  simp only [tsstep]
  repeat' (first | rfl | split)

theorem tsstep_inv (f : AbsTtl) (num : σ → Option Int) (c : TSCache σ) (h : List (TSRec σ)) (op : TSOp σ)
    (hinv : TSInv f num h c) :
    TSInv f num (⟨c.now, op, (tsstep f num c op).2⟩ :: h) (tsstep f num c op).1 := by
  have same : ∀ o, TSInv f num (⟨c.now, op, o⟩ :: h) c := fun o =>
    tsinv_shrink ⟨c.now, op, o⟩ hinv rfl (fun _ _ x => x) (Int.le_refl _)
  cases op with
  | resp a m u r =>
    simp only [tsstep]
    by_cases hst : a.cfg.statuses.contains r.status = true
    · simp only [hst, Bool.not_true, Bool.false_eq_true, if_false]
      by_cases hhas : has c (m, u) = true
      · simp only [hhas, if_true]; exact same _
      · simp only [hhas, Bool.false_eq_true, if_false]
        cases hra : readRa num a r with
        | none => simp only [Option.bind]; exact same _
        | some n =>
          cases httl : ttlOf f a.cfg c.now n with
          | none => simp only [Option.bind, httl]; exact same _
          | some ttl =>
            simp only [Option.bind, httl]
            constructor
            · intro k e hf
              rcases find?_set hf with ⟨hk, he, hok⟩ | ⟨_, _, hb⟩ | ⟨_, hb⟩
              · have hpos : ttl > 0 := by
                  rw [hk] at hf; exact find?_set_ok_pos hok hf
                refine ⟨_, List.mem_cons_self, a, m, u, r, n, ttl, rfl, hk, hst, ?_, hra, httl, ?_, hpos⟩
                · rw [he]
                · rw [he]
              · obtain ⟨r0, hm, hs⟩ := hinv.src k e hb
                exact ⟨r0, List.mem_cons_of_mem _ hm, hs⟩
              · obtain ⟨r0, hm, hs⟩ := hinv.src k e hb
                exact ⟨r0, List.mem_cons_of_mem _ hm, hs⟩
            · intro r0 hm
              rw [set_now]
              rcases List.mem_cons.mp hm with h1 | h1
              · rw [h1]; exact Int.le_refl _
              · exact hinv.time r0 h1
    · simp only [hst, Bool.not_false, if_true]; exact same _
  | req rm m u =>
    have := same (tsstep f num c (.req rm m u)).2
    rw [tsstep_req_fst]; exact this
  | fire i =>
    simp only [tsstep]
    exact tsinv_shrink _ hinv rfl (fun _ _ x => find?_fire x) (by rw [fire_now]; exact Int.le_refl _)
  | skip d =>
    simp only [tsstep]
    exact tsinv_shrink _ hinv rfl (fun _ _ x => x) (by simp only [skip]; omega)
  | adv d =>
    simp only [tsstep]
    exact tsinv_shrink _ hinv rfl (fun _ _ x => find?_adv x) (by rw [adv_now]; omega)
  | probe => simp only [tsstep]; exact same _

theorem tsstep_recOk (f : AbsTtl) (hf : AbsTtlOk f) (num : σ → Option Int) (c : TSCache σ) (h : List (TSRec σ))
    (op : TSOp σ) (hinv : TSInv f num h c) : tsRecOk num ⟨c.now, op, (tsstep f num c op).2⟩ h = true := by
  cases op with
  | resp a m u r => simp [tsRecOk]
  | req b m u =>
    simp only [tsstep]
    cases hg : get c (m, u) with
    | none => simp [tsRecOk]
    | some s =>
      obtain ⟨e, hfe, hv, hle⟩ := get_some hg
      obtain ⟨r0, hm, a, m0, u0, r, n, ttl, hop, hk, hst, hval, hra, httl, hexp, hpos⟩ := hinv.src _ e hfe
      have ht := hinv.time r0 hm
      have hk' : m0 = m ∧ u0 = u := by cases hk; exact ⟨rfl, rfl⟩
      rw [hv] at hval
      have hres : s.resp = r := by rw [hval]
      have hcr : s.created = r0.t := by rw [hval]
      -- fresh by the storing configuration
      have hfresh : freshByA num a r r0.t c.now = true := by
        cases hty : a.cfg.type with
        | rel =>
          simp only [ttlOf, hty, Option.some.injEq] at httl
          simp only [freshByA, hty, hra, decide_eq_true_eq]; omega
        | abs =>
          simp only [ttlOf, hty, Option.some.injEq] at httl
          simp only [freshByA, hty, hra, decide_eq_true_eq]
          rcases hf n r0.t with h1 | h1 <;> omega
        | undef => simp [ttlOf, hty] at httl
      have base : ∀ out, (match b.cfg.type with
            | .rel =>
              match readRa num b r with
              | some nb => decide (c.now - r0.t < nb) && decide (out = rewriteHdr b.hdr (nb - (c.now - r0.t)) r.hdrs)
              | none => false
            | _ => decide (out = rawAll r.hdrs)) = true →
          tsRecOk num ⟨c.now, .req b m u, .early r.status r.body out⟩ h = true := by
        intro out hb
        simp only [tsRecOk]
        rw [List.any_eq_true]
        refine ⟨r0, hm, ?_⟩
        simp only [tsJustifies, hop, hk'.1, hk'.2, hst, hfresh, decide_true, Bool.and_self, Bool.true_and,
          Bool.and_true, Bool.and_eq_true, decide_eq_true_eq]
        exact ⟨ht, hb⟩
      cases hbt : b.cfg.type with
      | rel =>
        simp only [hres]
        cases hrb : readRa num b r with
        | none => simp [tsRecOk]
        | some nb =>
          simp only
          by_cases hl : c.now - s.created ≥ nb
          · simp [hl, tsRecOk]
          · simp only [hl, if_false]
            rw [hcr] at hl ⊢
            apply base
            simp only [hbt, hrb, decide_true, Bool.and_true, decide_eq_true_eq]
            omega
      | abs =>
        simp only [hres]
        apply base
        simp [hbt]
      | undef =>
        simp only [hres]
        apply base
        simp [hbt]
  | fire i => simp [tsstep, tsRecOk]
  | skip d => simp [tsstep, tsRecOk]
  | adv d => simp [tsstep, tsRecOk]
  | probe => simp [tsstep, tsRecOk]

theorem tsrun_holdsRev (f : AbsTtl) (hf : AbsTtlOk f) (num : σ → Option Int) (ops : List (TSOp σ)) (c : TSCache σ)
    (h : List (TSRec σ)) (hinv : TSInv f num h c) (hh : tsholdsRev num h = true) :
    tsholdsRev num ((tsrun f num c ops).reverse ++ h) = true := by
  induction ops generalizing c h with
  | nil => simpa [tsrun] using hh
  | cons op ops ih =>
    simp only [tsrun, List.reverse_cons, List.append_assoc, List.singleton_append]
    apply ih
    · exact tsstep_inv f num c h op hinv
    · simp only [tsholdsRev, Bool.and_eq_true]
      exact ⟨tsstep_recOk f hf num c h op hinv, hh⟩

end

end LunarVerif.C12
