import LunarVerif.Model.C12
/-! C12, raw cache: the association list that stands for the Go map `cache map[K]ValueWrapper` never holds two
pairs for one key, in any reachable state.  This is what makes `entries.length` (the `n` of a `probe` answer,
compared with the implementation's `len(cache)`) the number of stored keys, and `find?` (first pair wins) the
map lookup — until now a tested fact of the correspondence run, not a theorem. -/
set_option linter.unusedSectionVars false
namespace LunarVerif.C12

section
variable {κ ν α : Type} [DecidableEq κ]

/-- the keys of the association list, in list order -/
def keys (l : List (κ × α)) : List κ := l.map Prod.fst

/-- One pair per key. -/
def KeysNodup (c : Cache κ ν) : Prop := (keys c.entries).Nodup

theorem keys_erase_sublist (k : κ) (l : List (κ × α)) : (keys (erase k l)).Sublist (keys l) := by
  induction l with
  | nil => simp [erase, keys]
  | cons p rest ih =>
    unfold erase
    split
    · exact List.Sublist.cons _ (by simpa [keys] using ih)
    · simpa [keys] using ih

theorem not_mem_keys_erase (k : κ) (l : List (κ × α)) : k ∉ keys (erase k l) := by
  induction l with
  | nil => simp [erase, keys]
  | cons p rest ih =>
    unfold erase
    split
    · exact ih
    · rename_i hne
      simp only [keys, List.map_cons, List.mem_cons, not_or]
      exact ⟨fun h => hne h.symm, by simpa [keys] using ih⟩

theorem nodup_keys_erase (k : κ) {l : List (κ × α)} (h : (keys l).Nodup) : (keys (erase k l)).Nodup :=
  h.sublist (keys_erase_sublist k l)

/-- `find?` answers exactly for the keys of the list. -/
theorem find?_isSome_iff (k : κ) (l : List (κ × α)) : (find? k l).isSome = true ↔ k ∈ keys l := by
  induction l with
  | nil => simp [find?, keys]
  | cons p rest ih =>
    unfold find?
    split
    · rename_i h; simp [keys, h]
    · rename_i h
      simp only [keys, List.map_cons, List.mem_cons]
      constructor
      · intro hs; exact Or.inr (by simpa [keys] using ih.mp hs)
      · intro hm
        rcases hm with hm | hm
        · exact absurd hm.symm h
        · exact ih.mpr (by simpa [keys] using hm)

theorem find?_erase_self (k : κ) (l : List (κ × α)) : find? k (erase k l) = none := by
  induction l with
  | nil => simp [erase, find?]
  | cons p rest ih =>
    unfold erase
    split
    · exact ih
    · rename_i hne
      unfold find?
      simp [hne, ih]

theorem erase_erase_self (k : κ) (l : List (κ × α)) : erase k (erase k l) = erase k l := by
  induction l with
  | nil => simp [erase]
  | cons p rest ih =>
    by_cases h : p.1 = k
    · simp [erase, h, ih]
    · simp [erase, h, ih]

/-- A second removal of the same key changes nothing (it finds no entry: nothing to subtract, nothing to delete). -/
theorem clearKey_idem (c : Cache κ ν) (k : κ) : clearKey (clearKey c k) k = clearKey c k := by
  unfold clearKey
  simp only [foundSize, find?_erase_self, erase_erase_self]
  cases c.sizeOn <;> simp

theorem clearKey_keysNodup (c : Cache κ ν) (k : κ) (h : KeysNodup c) : KeysNodup (clearKey c k) := by
  unfold KeysNodup clearKey; exact nodup_keys_erase k h

theorem clearAll_keysNodup (l : List (Sleeper κ)) (c : Cache κ ν) (h : KeysNodup c) : KeysNodup (clearAll c l) := by
  induction l generalizing c with
  | nil => simpa [clearAll] using h
  | cons s rest ih => unfold clearAll; exact ih _ (clearKey_keysNodup c s.key h)

theorem set_keysNodup (c : Cache κ ν) (k : κ) (v : ν) (ttl : Int) (sz : Nat) (h : KeysNodup c) :
    KeysNodup (set c k v ttl sz).1 := by
  have hcons : (keys ((k, ({ val := v, expiry := c.now + ttl, size := sz } : Entry ν)) :: erase k c.entries)).Nodup := by
    simp only [keys, List.map_cons, List.nodup_cons]
    exact ⟨by simpa [keys] using not_mem_keys_erase k c.entries, by simpa [keys] using nodup_keys_erase k h⟩
  unfold set
  split
  · exact h
  · dsimp only
    split
    · exact hcons
    · exact clearKey_keysNodup (c := { c with
        entries := (k, { val := v, expiry := c.now + ttl, size := sz }) :: erase k c.entries,
        tracked := if c.sizeOn then c.tracked + (sz : Nat) else c.tracked }) k hcons

theorem fire_keysNodup (c : Cache κ ν) (i : Nat) (h : KeysNodup c) : KeysNodup (fire c i).1 := by
  unfold fire
  split
  · exact h
  · split
    · exact clearKey_keysNodup c _ h
    · exact h

theorem adv_keysNodup (c : Cache κ ν) (d : Nat) (h : KeysNodup c) : KeysNodup (adv c d).1 := by
  unfold adv
  exact clearAll_keysNodup _ c h

theorem step_keysNodup (c : Cache κ ν) (ev : Ev κ ν) (h : KeysNodup c) : KeysNodup (step c ev).1 := by
  cases ev with
  | set k v ttl sz => exact set_keysNodup c k v ttl sz h
  | get k => exact h
  | has k => exact h
  | del k => exact clearKey_keysNodup c k h
  | fire i => exact fire_keysNodup c i h
  | skip d => exact h
  | adv d => exact adv_keysNodup c d h
  | wstep d => exact h
  | probe => exact h

theorem final_keysNodup (evs : List (Ev κ ν)) (c : Cache κ ν) (h : KeysNodup c) : KeysNodup (final c evs) := by
  induction evs generalizing c with
  | nil => exact h
  | cons ev evs ih => exact ih _ (step_keysNodup c ev h)

theorem init_keysNodup (cfg : Cfg) : KeysNodup (cfg.init : Cache κ ν) := by
  simp [KeysNodup, Cfg.init, Cache.init, keys]

end
end LunarVerif.C12
