import LunarVerif.Model.C18Publish
/-! Helper lemmas and the invariant for the register-before-publish model. -/
namespace LunarVerif.C18.Publish

theorem advance_spec (i : Nat) : ∀ (ps : List (Nat × List PStep)) (st : PStep) (ps' : List (Nat × List PStep)),
    advance i ps = some (st, ps') →
    ∃ pre p post, ps = pre ++ (i, st :: p) :: post ∧ ps' = pre ++ (i, p) :: post := by
  intro ps
  induction ps with
  | nil => intro st ps' h; simp [advance] at h
  | cons e rest ih =>
    intro st ps' h
    obtain ⟨j, p⟩ := e
    unfold advance at h
    by_cases hj : j = i
    · simp only [hj, if_true] at h
      cases p with
      | nil => simp at h
      | cons s p' =>
        simp only [Option.some.injEq, Prod.mk.injEq] at h
        obtain ⟨h1, h2⟩ := h
        exact ⟨[], p', rest, by simp [hj, h1], by simp [← h2]⟩
    · simp only [hj, if_false] at h
      cases ha : advance i rest with
      | none => rw [ha] at h; simp at h
      | some r =>
        obtain ⟨s, r'⟩ := r
        rw [ha] at h
        simp only [Option.some.injEq, Prod.mk.injEq] at h
        obtain ⟨h1, h2⟩ := h
        obtain ⟨pre, p0, post, e1, e2⟩ := ih s r' ha
        refine ⟨(j, p) :: pre, p0, post, ?_, ?_⟩
        · simp [e1, h1]
        · simp [← h2, e2]

/-- The invariant: queued ids are registered; a producer that has not registered yet still has its
    `register` before any `publish`; nothing was lost; every published id is queued or was handled. -/
def Inv (s : St) : Prop :=
  (∀ i ∈ s.queue, i ∈ s.registered) ∧
  (∀ e ∈ s.progs, regBeforePub e.2 = true ∨ e.1 ∈ s.registered) ∧
  s.lost = [] ∧
  (∀ i ∈ s.published, i ∈ s.queue ∨ i ∈ s.handled)

theorem inv_init (progs : List (Nat × List PStep)) (h : ∀ e ∈ progs, regBeforePub e.2 = true) :
    Inv (init progs) := by
  refine ⟨?_, ?_, rfl, ?_⟩
  · intro i hi; simp [init] at hi
  · intro e he; exact Or.inl (h e he)
  · intro i hi; simp [init] at hi

theorem inv_step (s : St) (e : PEv) (h : Inv s) : Inv (step s e) := by
  obtain ⟨hq, hp, hl, hpub⟩ := h
  cases e with
  | tick =>
    unfold step
    cases hqq : s.queue with
    | nil => simp only; exact ⟨hq, hp, hl, hpub⟩
    | cons i q =>
      simp only
      have hi : i ∈ s.registered := hq i (by rw [hqq]; simp)
      have hc : s.registered.contains i = true := by simpa using hi
      rw [if_pos hc]
      refine ⟨?_, hp, hl, ?_⟩
      · intro k hk; exact hq k (by rw [hqq]; exact List.mem_cons_of_mem _ hk)
      · intro k hk
        rcases hpub k hk with h1 | h1
        · rw [hqq] at h1
          rcases List.mem_cons.mp h1 with h2 | h2
          · right; simp [h2]
          · left; exact h2
        · right; exact List.mem_cons_of_mem _ h1
  | prod i =>
    cases ha : advance i s.progs with
    | none =>
      have e : step s (PEv.prod i) = s := by simp only [step, ha]
      rw [e]; exact ⟨hq, hp, hl, hpub⟩
    | some r =>
      obtain ⟨st, ps⟩ := r
      obtain ⟨pre, p, post, e1, e2⟩ := advance_spec i s.progs st ps ha
      have hold : regBeforePub (st :: p) = true ∨ i ∈ s.registered :=
        hp (i, st :: p) (by rw [e1]; simp)
      have hrest : ∀ e ∈ ps, e = (i, p) ∨ e ∈ s.progs := by
        intro e he
        rw [e2] at he
        rcases List.mem_append.mp he with h1 | h1
        · right; rw [e1]; exact List.mem_append_left _ h1
        · rcases List.mem_cons.mp h1 with h2 | h2
          · left; exact h2
          · right; rw [e1]; exact List.mem_append_right _ (List.mem_cons_of_mem _ h2)
      cases st with
      | register =>
        have e : step s (PEv.prod i) = { s with progs := ps, registered := i :: s.registered } := by
          simp only [step, ha]
        rw [e]
        refine ⟨?_, ?_, hl, hpub⟩
        · intro k hk; exact List.mem_cons_of_mem _ (hq k hk)
        · intro e he
          rcases hrest e he with h1 | h1
          · right; rw [h1]; simp
          · rcases hp e h1 with h2 | h2
            · exact Or.inl h2
            · exact Or.inr (List.mem_cons_of_mem _ h2)
      | publish =>
        have e : step s (PEv.prod i) =
            { s with progs := ps, queue := s.queue ++ [i], published := i :: s.published } := by
          simp only [step, ha]
        rw [e]
        have hreg : i ∈ s.registered := by
          rcases hold with h1 | h1
          · simp [regBeforePub] at h1
          · exact h1
        refine ⟨?_, ?_, hl, ?_⟩
        · intro k hk
          rcases List.mem_append.mp hk with h1 | h1
          · exact hq k h1
          · simp at h1; rw [h1]; exact hreg
        · intro e he
          rcases hrest e he with h1 | h1
          · right; rw [h1]; exact hreg
          · exact hp e h1
        · intro k hk
          rcases List.mem_cons.mp hk with h1 | h1
          · left; rw [h1]; simp
          · rcases hpub k h1 with h2 | h2
            · left; exact List.mem_append_left _ h2
            · right; exact h2
      | other =>
        have e : step s (PEv.prod i) = { s with progs := ps } := by simp only [step, ha]
        rw [e]
        refine ⟨hq, ?_, hl, hpub⟩
        intro e he
        rcases hrest e he with h1 | h1
        · rcases hold with h2 | h2
          · left; rw [h1]; simpa [regBeforePub] using h2
          · right; rw [h1]; exact h2
        · exact hp e h1

theorem inv_run (evs : List PEv) : ∀ s, Inv s → Inv (run evs s) := by
  induction evs with
  | nil => intro s h; exact h
  | cons e es ih => intro s h; exact ih _ (inv_step s e h)

end LunarVerif.C18.Publish
