import LunarVerif.Proofs.C06
/-!
Helper lemmas for C06, part 6: without shutdown a request is rejected by time-out only after its
TTL has passed on the clock (`now > arrival + ttl`, strict as `time.After`).
-/
namespace LunarVerif.C06

/-- Ids the TTL watcher has found expired and not yet handled. -/
def wtodo : WPc → List Nat
  | .idle => []
  | .scanned t => t
  | .holding i t => i :: t

structure InvW (cfg : Cfg) (s : St) : Prop where
  w1 : ∀ j, j ∈ wtodo s.watcher → j < s.n ∧ (s.reqs j).arrival + cfg.ttl < s.now
  w2 : ∀ i, (s.reqs i).res = .timeout → i < s.n ∧ (s.reqs i).arrival + cfg.ttl < s.now

theorem invW_init (cfg : Cfg) (t0 : Nat) : InvW cfg (St.init t0) := by
  constructor <;> simp [St.init, wtodo]

/-- A step that keeps the watcher, `n`, the clock, and every request's arrival and result. -/
theorem invW_frame (cfg : Cfg) (s s' : St) (hw : s'.watcher = s.watcher) (hn : s'.n = s.n) (ht : s'.now = s.now)
    (ha : ∀ i, (s'.reqs i).arrival = (s.reqs i).arrival) (hr : ∀ i, (s'.reqs i).res = (s.reqs i).res)
    (h : InvW cfg s) : InvW cfg s' := by
  obtain ⟨w1, w2⟩ := h
  constructor
  · intro j hj; rw [hw] at hj; rw [hn, ht, ha j]; exact w1 j hj
  · intro i hi; rw [hr i] at hi; rw [hn, ht, ha i]; exact w2 i hi

theorem invW_arrive (cfg : Cfg) (s : St) (p : Nat) (h : InvW cfg s) : InvW cfg (stepArrive cfg s p) := by
  obtain ⟨w1, w2⟩ := h
  unfold stepArrive
  split <;>
  · constructor
    · intro j hj
      simp only [St.emit] at hj ⊢
      have := w1 j hj
      simp only [show j ≠ s.n by omega, if_false]
      omega
    · intro i hi
      simp only [St.emit] at hi ⊢
      by_cases e : i = s.n
      · simp [e] at hi
      · simp only [e, if_false] at hi ⊢
        have := w2 i hi
        omega

theorem signal_reqs (s : St) (i : Nat) (r : RResult) (j : Nat) :
    ((s.signal i r).reqs j).arrival = (s.reqs j).arrival ∧
    ((s.signal i r).reqs j).res = (if j = i then r else (s.reqs j).res) ∧
    (s.signal i r).n = s.n ∧ (s.signal i r).now = s.now ∧ (s.signal i r).watcher = s.watcher := by
  simp only [St.signal]
  split <;> simp only [St.upd, St.emit] <;> split <;> simp_all

theorem invW_loop (cfg : Cfg) (s : St) (k : Nat) (hN : InvN s) (h : InvW cfg s) : InvW cfg (stepLoop cfg s k) := by
  unfold stepLoop
  split
  · exact h
  · exact h
  · split
    · exact invW_frame cfg s _ rfl rfl rfl (fun _ => rfl) (fun _ => rfl) h
    · exact invW_frame cfg s _ rfl rfl rfl (fun _ => rfl) (fun _ => rfl) h
  · split
    · refine invW_frame cfg s _ rfl rfl rfl ?_ ?_ h <;> intro j <;> simp only [St.upd] <;> split <;> simp_all
    · exact invW_frame cfg s _ rfl rfl rfl (fun _ => rfl) (fun _ => rfl) h
  · refine invW_frame cfg s _ rfl rfl rfl ?_ ?_ h <;> intro j <;> simp only [St.upd, St.emit] <;> split <;> simp_all
  · refine invW_frame cfg s _ rfl rfl rfl ?_ ?_ h <;> intro j <;> simp only [St.upd, St.emit, St.enq] <;> split <;> simp_all
  · refine invW_frame cfg s _ rfl rfl rfl ?_ ?_ h <;> intro j <;> simp only [St.upd] <;> split <;> simp_all
  · rename_i i heq
    obtain ⟨w1, w2⟩ := h
    constructor
    · intro j hj
      have := signal_reqs s i .success j
      simp only [this.1, this.2.2.1, this.2.2.2.1] at hj ⊢
      exact w1 j (by simpa [this.2.2.2.2] using hj)
    · intro j hj
      have := signal_reqs s i .success j
      simp only [this.1, this.2.1, this.2.2.1, this.2.2.2.1] at hj ⊢
      by_cases e : j = i
      · simp [e] at hj
      · simp only [e, if_false] at hj; exact w2 j hj
  · rename_i todo heq
    exact absurd heq (hN.lp.2 todo)

theorem invW_watcher (cfg : Cfg) (s : St) (k : Nat) (h : InvW cfg s) : InvW cfg (stepWatcher s k) := by
  obtain ⟨w1, w2⟩ := h
  unfold stepWatcher
  split
  · exact ⟨w1, w2⟩
  · rename_i todo heq
    simp only [heq, wtodo] at w1
    split
    · split
      · constructor
        · intro j hj; simp [wtodo] at hj
        · exact w2
      · exact ⟨by simpa [heq, wtodo] using w1, w2⟩
    · rename_i i hk
      have hi : i ∈ todo := List.mem_of_getElem? hk
      have sub : ∀ j, j ∈ todo.eraseIdx k → j ∈ todo := fun j hj => List.mem_of_mem_eraseIdx hj
      split
      · constructor
        · intro j hj
          simp only [wtodo, List.mem_cons] at hj
          simp only [St.upd]
          have : j ∈ todo := by rcases hj with e | e; exact e ▸ hi; exact sub j e
          have := w1 j this
          split <;> simp_all
        · intro j hj
          simp only [St.upd] at hj ⊢
          split at hj <;> simp_all
      · constructor
        · intro j hj
          simp only [wtodo] at hj
          exact w1 j (sub j hj)
        · exact w2
  · rename_i i todo heq
    simp only [heq, wtodo, List.mem_cons] at w1
    constructor
    · intro j hj
      have := signal_reqs s i .timeout j
      simp only [wtodo] at hj
      simp only [this.1, this.2.2.1, this.2.2.2.1]
      exact w1 j (Or.inr hj)
    · intro j hj
      have := signal_reqs s i .timeout j
      simp only [this.1, this.2.1, this.2.2.1, this.2.2.2.1] at hj ⊢
      by_cases e : j = i
      · subst e; exact w1 j (Or.inl rfl)
      · simp only [e, if_false] at hj; exact w2 j hj

theorem mem_idsWhere (s : St) (p : Req → Bool) (j : Nat) (h : j ∈ idsWhere s p) : j < s.n ∧ p (s.reqs j) = true := by
  unfold idsWhere at h
  simpa using h

theorem invW_step (cfg : Cfg) (s : St) (a : Act) (ha : a ≠ .cancel) (hA : InvA s) (hN : InvN s) (h : InvW cfg s) :
    InvW cfg (step cfg s a) := by
  unfold step
  rw [hA.np]
  simp only [Bool.false_eq_true, if_false]
  cases a with
  | advance d =>
    obtain ⟨w1, w2⟩ := h
    constructor
    · intro j hj; have := w1 j hj; exact ⟨this.1, Nat.lt_of_lt_of_le this.2 (Nat.le_add_right _ _)⟩
    · intro j hj; have := w2 j hj; exact ⟨this.1, Nat.lt_of_lt_of_le this.2 (Nat.le_add_right _ _)⟩
  | arrive p => exact invW_arrive cfg s p h
  | register i =>
    show InvW cfg (stepRegister s i)
    unfold stepRegister
    split
    · refine invW_frame cfg s _ rfl rfl rfl ?_ ?_ h <;> intro j <;> simp only [St.upd] <;> split <;> simp_all
    · exact h
  | push i =>
    show InvW cfg (stepPush s i)
    unfold stepPush
    split
    · refine invW_frame cfg s _ rfl rfl rfl ?_ ?_ h <;> intro j <;> simp only [St.upd, St.emit, St.enq] <;> split <;> simp_all
    · exact h
  | wake i =>
    show InvW cfg (stepWake s i)
    unfold stepWake
    split
    · refine invW_frame cfg s _ rfl rfl rfl ?_ ?_ h <;> intro j <;> simp only [St.upd, St.emit] <;> split <;> simp_all
    · exact h
  | unwatch i =>
    show InvW cfg (stepUnwatch s i)
    unfold stepUnwatch
    split
    · refine invW_frame cfg s _ rfl rfl rfl ?_ ?_ h <;> intro j <;> simp only [St.upd, St.emit] <;> split <;> simp_all
    · exact h
  | heapRemove i =>
    show InvW cfg (stepHeapRemove s i)
    unfold stepHeapRemove
    split
    · refine invW_frame cfg s _ rfl rfl rfl ?_ ?_ h <;> intro j <;> simp only [St.upd] <;> split <;> simp_all
    · exact h
  | loopFire =>
    show InvW cfg (stepLoopFire s)
    unfold stepLoopFire
    split
    · split <;> exact invW_frame cfg s _ rfl rfl rfl (fun _ => rfl) (fun _ => rfl) h
    · exact h
  | loopStep k => exact invW_loop cfg s k hN h
  | wScan =>
    show InvW cfg (stepScan cfg s)
    unfold stepScan
    split
    · obtain ⟨w1, w2⟩ := h
      constructor
      · intro j hj
        simp only [wtodo] at hj
        have := mem_idsWhere s _ j hj
        simp only [Bool.and_eq_true, decide_eq_true_eq] at this
        exact ⟨this.1, this.2.2⟩
      · exact w2
    · exact h
  | wStep k => exact invW_watcher cfg s k h
  | cancel => exact absurd rfl ha

theorem invAW_run (cfg : Cfg) (acts : List Act) (s : St) (hn : noCancel acts) (hA : InvA s) (hN : InvN s)
    (hW : InvW cfg s) : InvW cfg (run cfg s acts) := by
  induction acts generalizing s with
  | nil => exact hW
  | cons a rest ih =>
    have ha : a ≠ .cancel := fun e => hn (by simp [e])
    have hr : noCancel rest := fun e => hn (by simp [e])
    exact ih (step cfg s a) hr (invA_step cfg s a hA) (invN_step cfg s a ha hN) (invW_step cfg s a ha hA hN hW)

end LunarVerif.C06
