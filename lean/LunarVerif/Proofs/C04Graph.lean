import LunarVerif.Spec.C04
/-!
Builder ↔ connection list.  For a direction built by `buildConnections` from the empty graph out of
the connection list `cs`:
  * a node exists exactly for the processors mentioned in `cs`;
  * its edge list is the list of edges its connections contribute, in connection order, with
    duplicates removed;
  * the root is the target of the last `stream start → processor` connection.
-/
namespace LunarVerif.C04
open LunarVerif.FlowGraph LunarVerif.FlowExec

/-- the edge a connection contributes to its source node -/
def connEdge (c : Conn) : Option (String × Edge) :=
  match c.src, c.dst with
  | .proc f cond, .proc t _ => some (f, ⟨cond, .node t⟩)
  | .proc f cond, .stream n a => some (f, ⟨cond, .stream n a⟩)
  | _, _ => none

def edgeFor (k : String) (c : Conn) : Option Edge :=
  match connEdge c with
  | some (f, e) => if f == k then some e else none
  | none => none

def rawEdges (cs : List Conn) (k : String) : List Edge := cs.filterMap (edgeFor k)

def dedupE (l : List Edge) : List Edge := l.foldl addEdge []

def mentionedC (c : Conn) (k : String) : Bool :=
  (match c.src, c.dst with
   | .proc f _, _ => f == k
   | _, _ => false) ||
  (match c.dst with
   | .proc t _ => t == k
   | _ => false)

def entryC (c : Conn) : Option String :=
  match c.src, c.dst with
  | .stream _ a, .proc t _ => if a == "start" then some t else none
  | _, _ => none

theorem mentioned_eq (cs : List Conn) (k : String) : mentioned cs k = cs.any (mentionedC · k) := rfl

theorem entry_eq (cs : List Conn) : entry cs = (cs.filterMap entryC).getLast? := rfl

theorem mentioned_snoc (cs : List Conn) (c : Conn) (k : String) :
    mentioned (cs ++ [c]) k = (mentioned cs k || mentionedC c k) := by
  simp [mentioned_eq, List.any_append]

theorem rawEdges_snoc (cs : List Conn) (c : Conn) (k : String) :
    rawEdges (cs ++ [c]) k = rawEdges cs k ++ (edgeFor k c).toList := by
  unfold rawEdges
  rw [List.filterMap_append]
  congr 1

theorem dedupE_snoc (l : List Edge) (e : Edge) : dedupE (l ++ [e]) = addEdge (dedupE l) e := by
  simp [dedupE, List.foldl_append]

theorem entry_snoc (cs : List Conn) (c : Conn) :
    entry (cs ++ [c]) = (match entryC c with | some t => some t | none => entry cs) := by
  simp only [entry_eq, List.filterMap_append, List.filterMap_cons, List.filterMap_nil]
  cases entryC c <;> simp

theorem rawEdges_nil_of_not_mentioned (cs : List Conn) (k : String) (h : mentioned cs k = false) :
    rawEdges cs k = [] := by
  induction cs with
  | nil => rfl
  | cons c cs ih =>
    simp only [mentioned_eq, List.any_cons, Bool.or_eq_false_iff] at h
    have ih' := ih (by simpa [mentioned_eq] using h.2)
    simp only [rawEdges, List.filterMap_cons] at ih' ⊢
    have : edgeFor k c = none := by
      have h1 := h.1
      unfold mentionedC at h1
      unfold edgeFor connEdge
      cases hs : c.src <;> cases hd : c.dst <;> simp_all
    rw [this]; exact ih'

/-! ### lookups after the builder's primitive updates -/

theorem findNode_map (f : Node → Node) (hf : ∀ n, (f n).key = n.key) (nodes : List Node) (k : String) :
    findNode (nodes.map f) k = (findNode nodes k).map f := by
  induction nodes with
  | nil => rfl
  | cons n ns ih =>
    simp only [findNode, List.map_cons, List.find?_cons, hf] at ih ⊢
    cases h : n.key == k <;> simp [ih]

theorem findNode_append_single (nodes : List Node) (x : Node) (k : String) :
    findNode (nodes ++ [x]) k = (findNode nodes k).or (if x.key == k then some x else none) := by
  simp only [findNode, List.find?_append, List.find?_cons, List.find?_nil]
  cases h : x.key == k <;> simp

theorem findNode_key {nodes : List Node} {k : String} {n : Node} (h : findNode nodes k = some n) : n.key = k := by
  have := List.find?_some h
  simpa using this

theorem find_addEdgeTo (g : DirGraph) (k : String) (e : Edge) (k' : String) :
    (addEdgeTo g k e).find k' =
      (g.find k').map fun n => if n.key == k then { n with edges := addEdge n.edges e } else n := by
  unfold addEdgeTo DirGraph.find
  apply findNode_map
  intro n; split <;> rfl

theorem root_addEdgeTo (g : DirGraph) (k : String) (e : Edge) : (addEdgeTo g k e).root = g.root := rfl

theorem getOrCreate_spec {procs : List (String × String)} {g g1 : DirGraph} {k : String}
    (h : getOrCreate procs g k = some g1) :
    g1.root = g.root ∧
    ∀ k', g1.find k' = if g.find k = none ∧ k' = k then some ⟨k, []⟩ else g.find k' := by
  unfold getOrCreate at h
  cases hf : g.find k with
  | some n =>
    rw [hf] at h
    simp only [Option.some.injEq] at h
    subst h
    exact ⟨rfl, fun k' => by simp⟩
  | none =>
    rw [hf] at h
    simp only at h
    split at h
    · simp only [Option.some.injEq] at h
      subst h
      refine ⟨rfl, fun k' => ?_⟩
      simp only [DirGraph.find, findNode_append_single]
      by_cases hk : k' = k
      · subst hk
        have : findNode g.nodes k' = none := hf
        simp [this]
      · have : (k == k') = false := by simpa using fun h => hk h.symm
        simp [hk, this]
    · exact absurd h (by simp)

/-- edge list of the node with key `k`, if it exists -/
def edgesAt (g : DirGraph) (k : String) : Option (List Edge) := (g.find k).map (·.edges)

theorem edgesAt_getOrCreate {procs : List (String × String)} {g g1 : DirGraph} {k0 : String}
    (h : getOrCreate procs g k0 = some g1) (k : String) :
    edgesAt g1 k = if edgesAt g k0 = none ∧ k = k0 then some [] else edgesAt g k := by
  have := (getOrCreate_spec h).2 k
  unfold edgesAt
  rw [this]
  cases hf : g.find k0 <;> by_cases hk : k = k0 <;> simp [hk]

theorem edgesAt_addEdgeTo (g : DirGraph) (f : String) (e : Edge) (k : String) :
    edgesAt (addEdgeTo g f e) k = (edgesAt g k).map fun es => if k == f then addEdge es e else es := by
  unfold edgesAt
  rw [find_addEdgeTo]
  cases hf : g.find k with
  | none => rfl
  | some n =>
    have hk : n.key = k := findNode_key hf
    simp only [Option.map_some, hk]
    split <;> rfl

/-- The invariant of `buildConnections`: the graph built so far is the graph of the connections
    processed so far. -/
structure Inv (g : DirGraph) (cs : List Conn) : Prop where
  nodes : ∀ k, edgesAt g k = if mentioned cs k then some (dedupE (rawEdges cs k)) else none
  root : g.root = entry cs

theorem inv_empty : Inv {} [] := by
  constructor
  · intro k; rfl
  · rfl

theorem dedupE_nil : dedupE [] = [] := rfl

/-- generic step: nodes for `f` (source, gets edge `e`) -/
theorem inv_step_edge {procs : List (String × String)} {g g1 : DirGraph} {pre : List Conn} {c : Conn}
    {f : String} {e : Edge} (h : Inv g pre) (h1 : getOrCreate procs g f = some g1)
    (hm : ∀ k, mentionedC c k = (f == k)) (he : ∀ k, edgeFor k c = if f == k then some e else none)
    (hr : entryC c = none) : Inv (addEdgeTo g1 f e) (pre ++ [c]) := by
  constructor
  · intro k
    rw [edgesAt_addEdgeTo, edgesAt_getOrCreate h1, h.nodes, h.nodes, mentioned_snoc, rawEdges_snoc, hm, he]
    by_cases hk : k = f
    · subst hk
      cases hmf : mentioned pre k
      · simp [rawEdges_nil_of_not_mentioned pre k hmf, dedupE, addEdge]
      · simp [dedupE_snoc]
    · have h1 : (f == k) = false := by simpa using fun h => hk h.symm
      have h2 : (k == f) = false := by simpa using hk
      simp [hk, h1, h2]
  · rw [root_addEdgeTo, (getOrCreate_spec h1).1, h.root, entry_snoc, hr]

/-- generic step: nodes for `f` (source, gets edge `e`) and `t` (target) -/
theorem inv_step_edge2 {procs : List (String × String)} {g g1 g2 : DirGraph} {pre : List Conn} {c : Conn}
    {f t : String} {e : Edge} (h : Inv g pre) (h1 : getOrCreate procs g f = some g1)
    (h2 : getOrCreate procs g1 t = some g2)
    (hm : ∀ k, mentionedC c k = (f == k || t == k)) (he : ∀ k, edgeFor k c = if f == k then some e else none)
    (hr : entryC c = none) : Inv (addEdgeTo g2 f e) (pre ++ [c]) := by
  constructor
  · intro k
    rw [edgesAt_addEdgeTo, edgesAt_getOrCreate h2, edgesAt_getOrCreate h1, edgesAt_getOrCreate h1,
      h.nodes, h.nodes, h.nodes, mentioned_snoc, rawEdges_snoc, hm, he]
    by_cases hk : k = f
    · subst hk
      by_cases hkt : t = k
      · subst hkt
        cases hmf : mentioned pre t
        · simp [rawEdges_nil_of_not_mentioned pre t hmf, dedupE, addEdge]
        · simp [dedupE_snoc]
      · have h3 : (t == k) = false := by simpa using hkt
        cases hmf : mentioned pre k <;> cases hmt : mentioned pre t
        all_goals simp [hkt, h3, Ne.symm hkt, dedupE_snoc]
        all_goals simp [rawEdges_nil_of_not_mentioned pre k hmf, dedupE, addEdge]
    · have h3 : (f == k) = false := by simpa using fun h => hk h.symm
      have h4 : (k == f) = false := by simpa using hk
      by_cases hkt : k = t
      · subst hkt
        cases hmf : mentioned pre f <;> cases hmt : mentioned pre k
        all_goals simp [hk, h3, h4]
        all_goals simp [rawEdges_nil_of_not_mentioned pre k hmt, dedupE]
      · have h5 : (t == k) = false := by simpa using fun h => hkt h.symm
        cases hmf : mentioned pre f <;> cases hmt : mentioned pre t
        all_goals simp [hk, hkt, h3, h4, h5]
  · rw [root_addEdgeTo, (getOrCreate_spec h2).1, (getOrCreate_spec h1).1, h.root, entry_snoc, hr]

/-- generic step: node for `t`, which becomes the root -/
theorem inv_step_root {procs : List (String × String)} {g g1 : DirGraph} {pre : List Conn} {c : Conn}
    {t : String} (h : Inv g pre) (h1 : getOrCreate procs g t = some g1)
    (hm : ∀ k, mentionedC c k = (t == k)) (he : ∀ k, edgeFor k c = none)
    (hr : entryC c = some t) : Inv { g1 with root := some t } (pre ++ [c]) := by
  constructor
  · intro k
    have : edgesAt { g1 with root := some t } k = edgesAt g1 k := rfl
    rw [this, edgesAt_getOrCreate h1, h.nodes, h.nodes, mentioned_snoc, rawEdges_snoc, hm, he]
    by_cases hk : k = t
    · subst hk
      cases hmf : mentioned pre k
      · simp [rawEdges_nil_of_not_mentioned pre k hmf, dedupE]
      · simp
    · have h3 : (t == k) = false := by simpa using fun h => hk h.symm
      simp [hk, h3]
  · show some t = _
    rw [entry_snoc, hr]

/-- generic step: nothing happens -/
theorem inv_step_noop {g : DirGraph} {pre : List Conn} {c : Conn} (h : Inv g pre)
    (hm : ∀ k, mentionedC c k = false) (he : ∀ k, edgeFor k c = none) (hr : entryC c = none) :
    Inv g (pre ++ [c]) := by
  constructor
  · intro k
    rw [h.nodes, mentioned_snoc, rawEdges_snoc, hm, he]
    simp
  · rw [h.root, entry_snoc, hr]

theorem inv_step {pts : List PType} {procs : List (String × String)} {d : Dir} {g g' : DirGraph}
    {pre : List Conn} {c : Conn} (h : Inv g pre) (hb : buildConnection pts procs d g c = .ok g') :
    Inv g' (pre ++ [c]) := by
  unfold buildConnection at hb
  cases hs : c.src with
  | stream sn sa =>
    cases hd : c.dst with
    | stream dn da =>
      simp only [hs, hd, Except.ok.injEq] at hb
      subst hb
      apply inv_step_noop h <;> intros <;> simp [mentionedC, edgeFor, connEdge, entryC, hs, hd]
    | proc t tc =>
      simp only [hs, hd] at hb
      split at hb
      · rename_i hstart
        cases h1 : getOrCreate procs g t with
        | none => simp [h1] at hb
        | some g1 =>
          simp only [h1, Except.ok.injEq] at hb
          subst hb
          apply inv_step_root h h1 <;> intros <;> simp [mentionedC, edgeFor, connEdge, entryC, hs, hd, hstart]
      · simp at hb
  | proc f cond =>
    cases hd : c.dst with
    | stream dn da =>
      simp only [hs, hd] at hb
      split at hb
      · simp at hb
      · split at hb
        · cases h1 : getOrCreate procs g f with
          | none => simp [h1] at hb
          | some g1 =>
            simp only [h1, Except.ok.injEq] at hb
            subst hb
            apply inv_step_edge h h1 <;> intros <;> simp [mentionedC, edgeFor, connEdge, entryC, hs, hd]
        · simp at hb
    | proc t tc =>
      simp only [hs, hd] at hb
      split at hb
      · simp at hb
      · cases h1 : getOrCreate procs g f with
        | none => simp [h1] at hb
        | some g1 =>
          simp only [h1] at hb
          cases h2 : getOrCreate procs g1 t with
          | none => simp [h2] at hb
          | some g2 =>
            simp only [h2, Except.ok.injEq] at hb
            subst hb
            apply inv_step_edge2 h h1 h2 <;> intros <;> simp [mentionedC, edgeFor, connEdge, entryC, hs, hd]

theorem inv_build {pts : List PType} {procs : List (String × String)} {d : Dir} :
    ∀ (cs pre : List Conn) (g g' : DirGraph), Inv g pre → buildConnections pts procs d g cs = .ok g' →
      Inv g' (pre ++ cs)
  | [], pre, g, g', h, hb => by
    simp only [buildConnections, Except.ok.injEq] at hb
    subst hb; simpa using h
  | c :: cs, pre, g, g', h, hb => by
    simp only [buildConnections] at hb
    cases h1 : buildConnection pts procs d g c with
    | error e => simp [h1] at hb
    | ok g1 =>
      simp only [h1] at hb
      have := inv_build cs (pre ++ [c]) g1 g' (inv_step h h1) hb
      simpa using this

/-- **The built graph is the graph of the connection list.** -/
theorem build_inv {pts : List PType} {procs : List (String × String)} {d : Dir} {cs : List Conn} {g : DirGraph}
    (hb : buildConnections pts procs d {} cs = .ok g) : Inv g cs := by
  simpa using inv_build cs [] {} g inv_empty hb

/-! ### what the walker reads off a node, in terms of the connection list -/

/-- targets of the edges the walker follows on output `name` -/
def matchT (name : String) (es : List Edge) : List String :=
  es.filterMap fun e =>
    match e.target with
    | .node t => if e.cond == name then some t else none
    | .stream _ _ => none

theorem Target.same_iff (a b : Target) : a.same b = true ↔ a = b := by
  cases a <;> cases b <;> simp [Target.same]

theorem Edge.same_iff (a b : Edge) : a.same b = true ↔ a = b := by
  cases a; cases b
  simp [Edge.same, Target.same_iff]

theorem any_same_iff_mem (acc : List Edge) (e : Edge) : acc.any (·.same e) = true ↔ e ∈ acc := by
  simp only [List.any_eq_true, Edge.same_iff]
  constructor
  · rintro ⟨x, hx, rfl⟩; exact hx
  · intro h; exact ⟨e, h, rfl⟩

theorem mem_matchT {name : String} {es : List Edge} {t : String} :
    t ∈ matchT name es ↔ (⟨name, .node t⟩ : Edge) ∈ es := by
  unfold matchT
  simp only [List.mem_filterMap]
  constructor
  · rintro ⟨e, he, h⟩
    cases e with
    | mk c tg =>
      cases tg with
      | stream _ _ => simp at h
      | node t' =>
        simp only at h
        split at h
        · rename_i hc
          simp only [Option.some.injEq] at h
          have : c = name := by simpa using hc
          subst this; subst h; exact he
        · simp at h
  · intro h
    exact ⟨_, h, by simp⟩

theorem matchT_cons (name : String) (e : Edge) (l : List Edge) :
    matchT name (e :: l) = matchT name [e] ++ matchT name l := by
  unfold matchT
  rw [← List.filterMap_append]
  rfl

theorem matchT_append (name : String) (l l' : List Edge) :
    matchT name (l ++ l') = matchT name l ++ matchT name l' := by
  unfold matchT
  rw [List.filterMap_append]

theorem matchT_addEdge (name : String) (acc : List Edge) (e : Edge) :
    matchT name (addEdge acc e) = (matchT name [e]).foldl addNew (matchT name acc) := by
  cases e with
  | mk c tg =>
    cases tg with
    | stream n a =>
      have h0 : matchT name [(⟨c, .stream n a⟩ : Edge)] = [] := by simp [matchT]
      rw [h0]
      unfold addEdge
      split
      · rfl
      · rw [matchT_append, h0]; simp
    | node t =>
      by_cases hc : c = name
      · subst hc
        have h1 : matchT c [(⟨c, .node t⟩ : Edge)] = [t] := by simp [matchT]
        rw [h1]
        simp only [List.foldl_cons, List.foldl_nil]
        unfold addEdge addNew
        have hiff : (acc.any (·.same ⟨c, .node t⟩) = true) ↔ ((matchT c acc).contains t = true) := by
          rw [any_same_iff_mem, List.contains_iff_mem, mem_matchT]
        by_cases hany : acc.any (·.same ⟨c, .node t⟩) = true
        · rw [if_pos hany, if_pos (hiff.mp hany)]
        · rw [if_neg hany, if_neg (fun h => hany (hiff.mpr h))]
          rw [matchT_append, h1]
      · have hb : (c == name) = false := by simpa using hc
        have h0 : matchT name [(⟨c, .node t⟩ : Edge)] = [] := by simp [matchT, hc]
        rw [h0]
        unfold addEdge
        split
        · rfl
        · rw [matchT_append, h0]; simp

theorem matchT_foldl (name : String) (l : List Edge) :
    ∀ acc : List Edge, matchT name (l.foldl addEdge acc) = (matchT name l).foldl addNew (matchT name acc) := by
  induction l with
  | nil => intro acc; rfl
  | cons e l ih =>
    intro acc
    rw [List.foldl_cons, ih, matchT_cons name e l, List.foldl_append, matchT_addEdge]

theorem matchT_dedupE (name : String) (l : List Edge) : matchT name (dedupE l) = dedup (matchT name l) := by
  have := matchT_foldl name l []
  simpa [dedupE, dedup, matchT] using this

def connSucc (k o : String) (c : Conn) : Option String :=
  match c.src, c.dst with
  | .proc f cond, .proc t _ => if f == k && cond == o then some t else none
  | _, _ => none

theorem succs_eq (cs : List Conn) (k o : String) : succs cs k o = dedup (cs.filterMap (connSucc k o)) := rfl

theorem matchT_rawEdges (cs : List Conn) (k o : String) :
    matchT o (rawEdges cs k) = cs.filterMap (connSucc k o) := by
  unfold matchT rawEdges
  rw [List.filterMap_filterMap]
  congr 1
  funext c
  unfold edgeFor connEdge connSucc
  cases hs : c.src <;> cases hd : c.dst <;> simp
  split <;> simp_all

/-! ### summary: what a built direction looks like -/

theorem find_isSome_eq {g : DirGraph} {cs : List Conn} (h : Inv g cs) (k : String) :
    (g.find k).isSome = mentioned cs k := by
  have := h.nodes k
  unfold edgesAt at this
  cases hf : g.find k <;> cases hm : mentioned cs k <;> simp_all

theorem node_edges {g : DirGraph} {cs : List Conn} (h : Inv g cs) {k : String} {n : Node}
    (hn : g.find k = some n) : n.edges = dedupE (rawEdges cs k) := by
  have := h.nodes k
  unfold edgesAt at this
  rw [hn] at this
  cases hm : mentioned cs k <;> simp_all

/-- the targets the walker follows from `k` on output `o` = the reference interpreter's successors -/
theorem node_succs {g : DirGraph} {cs : List Conn} (h : Inv g cs) {k : String} {n : Node}
    (hn : g.find k = some n) (o : String) : matchT o n.edges = succs cs k o := by
  rw [node_edges h hn, matchT_dedupE, matchT_rawEdges, succs_eq]

theorem mem_foldl_addEdge (l : List Edge) : ∀ (acc : List Edge) (e : Edge),
    e ∈ l.foldl addEdge acc → e ∈ acc ∨ e ∈ l := by
  induction l with
  | nil => intro acc e h; exact Or.inl h
  | cons x l ih =>
    intro acc e h
    rw [List.foldl_cons] at h
    rcases ih _ _ h with h1 | h1
    · unfold addEdge at h1
      split at h1
      · exact Or.inl h1
      · rcases List.mem_append.mp h1 with h2 | h2
        · exact Or.inl h2
        · simp only [List.mem_singleton] at h2
          subst h2; exact Or.inr (List.mem_cons_self ..)
    · exact Or.inr (List.mem_cons_of_mem _ h1)

theorem mem_dedupE {l : List Edge} {e : Edge} (h : e ∈ dedupE l) : e ∈ l := by
  rcases mem_foldl_addEdge l [] e h with h | h
  · simp at h
  · exact h

/-- every edge of a built node that targets a processor targets an existing node -/
theorem edge_target_exists {g : DirGraph} {cs : List Conn} (h : Inv g cs) {k t : String} {n : Node} {e : Edge}
    (hn : g.find k = some n) (he : e ∈ n.edges) (ht : e.target = .node t) : (g.find t).isSome = true := by
  rw [find_isSome_eq h]
  rw [node_edges h hn] at he
  have he' := mem_dedupE he
  unfold rawEdges at he'
  rw [List.mem_filterMap] at he'
  obtain ⟨c, hc, hce⟩ := he'
  rw [mentioned_eq, List.any_eq_true]
  refine ⟨c, hc, ?_⟩
  unfold edgeFor connEdge at hce
  unfold mentionedC
  cases hs : c.src <;> cases hd : c.dst <;> simp [hs, hd] at hce ⊢
  · obtain ⟨_, rfl⟩ := hce; simp at ht
  · obtain ⟨_, rfl⟩ := hce
    simp only [Target.node.injEq] at ht
    exact Or.inr ht

theorem root_exists {g : DirGraph} {cs : List Conn} (h : Inv g cs) {r : String} (hr : g.root = some r) :
    (g.find r).isSome = true := by
  rw [find_isSome_eq h]
  rw [h.root, entry_eq] at hr
  have hmem : r ∈ cs.filterMap entryC := List.mem_of_getLast? hr
  rw [List.mem_filterMap] at hmem
  obtain ⟨c, hc, hce⟩ := hmem
  rw [mentioned_eq, List.any_eq_true]
  refine ⟨c, hc, ?_⟩
  unfold entryC at hce
  unfold mentionedC
  cases hs : c.src <;> cases hd : c.dst <;> simp [hs, hd] at hce ⊢
  exact hce.2

def toTarget : End → Target
  | .proc t _ => .node t
  | .stream n a => .stream n a

theorem head_foldl_addEdge (l : List Edge) : ∀ acc : List Edge,
    (l.foldl addEdge acc).head? = (acc ++ l).head? := by
  induction l with
  | nil => intro acc; simp
  | cons x l ih =>
    intro acc
    rw [List.foldl_cons, ih]
    cases acc with
    | nil => simp [addEdge]
    | cons a as =>
      unfold addEdge
      split <;> simp

def leaving (k : String) (c : Conn) : Option End :=
  match c.src with
  | .proc f _ => if f == k then some c.dst else none
  | _ => none

theorem firstConn_eq (cs : List Conn) (k : String) : firstConn cs k = cs.findSome? (leaving k) := rfl

theorem edgeFor_leaving (k : String) (c : Conn) :
    (edgeFor k c).map (·.target) = (leaving k c).map toTarget := by
  unfold edgeFor connEdge leaving
  cases hs : c.src <;> cases hd : c.dst <;> simp only [] <;> (try rfl)
  all_goals (split <;> simp [toTarget])

theorem head_rawEdges (cs : List Conn) (k : String) :
    (rawEdges cs k).head?.map (·.target) = (firstConn cs k).map toTarget := by
  induction cs with
  | nil => rfl
  | cons c cs ih =>
    have hpt := edgeFor_leaving k c
    rw [firstConn_eq] at ih ⊢
    unfold rawEdges at ih ⊢
    rw [List.filterMap_cons, List.findSome?_cons]
    cases he : edgeFor k c with
    | none =>
      rw [he] at hpt
      cases hl : leaving k c with
      | none => simpa using ih
      | some d => rw [hl] at hpt; simp at hpt
    | some e =>
      rw [he] at hpt
      cases hl : leaving k c with
      | none => rw [hl] at hpt; simp at hpt
      | some d =>
        rw [hl] at hpt
        simpa using hpt

/-- the first edge of a built node is the first connection leaving its key -/
theorem first_edge {g : DirGraph} {cs : List Conn} (h : Inv g cs) {k : String} {n : Node}
    (hn : g.find k = some n) : n.edges.head?.map (·.target) = (firstConn cs k).map toTarget := by
  rw [node_edges h hn]
  unfold dedupE
  rw [head_foldl_addEdge, List.nil_append, head_rawEdges]

end LunarVerif.C04
