import LunarVerif.Model.C09Conc
import LunarVerif.Proofs.C09
/-! Helper lemmas for the interleaving model of C09: a run depends on the limiter state only through its
    per-key view; every schedule's history is the sequential run of its own requests. -/
namespace LunarVerif.C09

section
variable {κ : Type} [DecidableEq κ]

/-- what a key's `singleRateLimitState` is, an absent entry standing for a fresh one -/
def view (st : State κ) (k : κ) : KeyState := (find k st).getD initKey

theorem view_set (k k' : κ) (v : KeyState) (st : State κ) :
    view (set k v st) k' = if k' = k then v else view st k' := by
  by_cases h : k' = k
  · subst h; simp [view, find_set_same]
  · simp [view, find_set_other _ _ _ _ h, h]

theorem stepL_view (cap : CapFn) (st : State κ) (r : Req κ) (k : κ) :
    view (stepL cap st r).1 k = if k = r.key then (tryInc cap r.t r.wd (view st r.key)).1 else view st k := by
  simp only [stepL]
  rw [view_set]
  rfl

theorem stepL_event (cap : CapFn) (st : State κ) (r : Req κ) :
    (stepL cap st r).2 = ⟨r.key, r.t, r.wd, (tryInc cap r.t r.wd (view st r.key)).2⟩ := by
  simp [stepL, view]

theorem runL_append (cap : CapFn) (rs : List (Req κ)) (r : Req κ) (st : State κ) :
    runL cap st (rs ++ [r]) = runL cap st rs ++ [(stepL cap (finalL cap st rs) r).2] := by
  induction rs generalizing st with
  | nil => simp [runL, finalL]
  | cons x xs ih => simp [runL, finalL, ih]

theorem finalL_append (cap : CapFn) (rs : List (Req κ)) (r : Req κ) (st : State κ) :
    finalL cap st (rs ++ [r]) = (stepL cap (finalL cap st rs) r).1 := by
  induction rs generalizing st with
  | nil => simp [finalL]
  | cons x xs ih => simp [finalL, ih]

/-- Invariant of the interleaving model. -/
structure InvC (cap : CapFn) (calls : List (Call κ)) (c : Conc κ) : Prop where
  seq : history c = runL cap [] (inputs (history c))
  vw : ∀ k, view c.st k = view (finalL cap [] (inputs (history c))) k
  nodup : (c.done.map (·.1)).Nodup
  isdone : ∀ d ∈ c.done, c.pcs[d.1]? = some Pc.done
  fromCall : ∀ d ∈ c.done, ∃ call, calls[d.1]? = some call ∧ d.2.key = call.key ∧ d.2.wd = call.wd

theorem invC_init (cap : CapFn) (calls : List (Call κ)) : InvC cap calls (initC calls) := by
  constructor <;> simp [initC, history, inputs, runL, finalL]

theorem not_done_of_pc (c : Conc κ) (i : Nat) (pc : Pc) (hpc : c.pcs[i]? = some pc) (hne : pc ≠ Pc.done)
    (hd : ∀ d ∈ c.done, c.pcs[d.1]? = some Pc.done) : ∀ d ∈ c.done, d.1 ≠ i := by
  intro d hdm heq
  have := hd d hdm
  rw [heq, hpc] at this
  exact hne (Option.some.inj this)

theorem isdone_set (c : Conc κ) (i : Nat) (pc : Pc) (hni : ∀ d ∈ c.done, d.1 ≠ i)
    (hd : ∀ d ∈ c.done, c.pcs[d.1]? = some Pc.done) :
    ∀ d ∈ c.done, (c.pcs.set i pc)[d.1]? = some Pc.done := by
  intro d hdm
  rw [List.getElem?_set_ne (fun h => hni d hdm h.symm)]
  exact hd d hdm

theorem stepC_inv (cap : CapFn) (calls : List (Call κ)) (c : Conc κ) (i t : Nat)
    (hinv : InvC cap calls c) : InvC cap calls (stepC cap calls c i t) := by
  unfold stepC
  split
  · -- A: definedQuotas
    next call hcall hpc =>
    have hni := not_done_of_pc c i _ hpc (by decide) hinv.isdone
    exact ⟨hinv.seq, hinv.vw, hinv.nodup, isdone_set c i _ hni hinv.isdone, hinv.fromCall⟩
  · -- B: get-or-create
    next call hcall hpc =>
    have hni := not_done_of_pc c i _ hpc (by decide) hinv.isdone
    refine ⟨hinv.seq, ?_, hinv.nodup, isdone_set c i _ hni hinv.isdone, hinv.fromCall⟩
    intro k
    have := hinv.vw k
    simp only [history] at this ⊢
    rw [← this]
    cases hf : find call.key c.st with
    | some v => rfl
    | none =>
      simp only
      rw [view_set]
      by_cases hk : k = call.key
      · subst hk; simp [view, hf]
      · simp [hk]
  · -- C: TryToIncrement
    next call hcall hpc =>
    have hni := not_done_of_pc c i _ hpc (by decide) hinv.isdone
    have hhist : ∀ c' : Conc κ, c'.done = (i, (stepL cap c.st ⟨call.key, t, call.wd⟩).2) :: c.done →
        history c' = history c ++ [(stepL cap c.st ⟨call.key, t, call.wd⟩).2] := by
      intro c' hc'; simp [history, hc']
    have hin : inputs (history c ++ [(stepL cap c.st ⟨call.key, t, call.wd⟩).2])
        = inputs (history c) ++ [⟨call.key, t, call.wd⟩] := by
      simp [inputs, stepL_key]
    have hev : (stepL cap c.st ⟨call.key, t, call.wd⟩).2
        = (stepL cap (finalL cap [] (inputs (history c))) ⟨call.key, t, call.wd⟩).2 := by
      rw [stepL_event, stepL_event, hinv.vw]
    refine ⟨?_, ?_, ?_, ?_, ?_⟩
    · rw [hhist _ rfl, hin, runL_append, ← hinv.seq, hev]
    · intro k
      rw [hhist _ rfl, hin, finalL_append, stepL_view, stepL_view, hinv.vw k, hinv.vw call.key]
    · simp only [List.map_cons, List.nodup_cons]
      refine ⟨?_, hinv.nodup⟩
      intro hmem
      obtain ⟨d, hd, hdi⟩ := List.mem_map.mp hmem
      exact hni d hd hdi
    · intro d hd
      simp only [List.mem_cons] at hd
      rcases hd with rfl | hd
      · simp only
        rw [List.getElem?_set_self]
        have : i < c.pcs.length := by
          rcases Nat.lt_or_ge i c.pcs.length with h | h
          · exact h
          · rw [List.getElem?_eq_none h] at hpc; exact absurd hpc (by simp)
        exact this
      · exact isdone_set c i _ hni hinv.isdone d hd
    · intro d hd
      simp only [List.mem_cons] at hd
      rcases hd with rfl | hd
      · exact ⟨call, hcall, by simp [stepL], by simp [stepL]⟩
      · exact hinv.fromCall d hd
  · exact hinv

theorem runC_inv (cap : CapFn) (calls : List (Call κ)) (sched : List (Nat × Nat)) :
    ∀ c : Conc κ, InvC cap calls c → InvC cap calls (runC cap calls c sched) := by
  induction sched with
  | nil => intro c h; exact h
  | cons s rest ih =>
    intro c h
    obtain ⟨i, t⟩ := s
    exact ih _ (stepC_inv cap calls c i t h)

/-- the `done` log of one step: unchanged, or one new entry stamped with the step's instant -/
theorem stepC_done (cap : CapFn) (calls : List (Call κ)) (c : Conc κ) (i t : Nat) :
    (stepC cap calls c i t).done = c.done ∨
    ∃ e : Event κ, e.t = t ∧ (stepC cap calls c i t).done = (i, e) :: c.done := by
  unfold stepC
  split
  · exact Or.inl rfl
  · exact Or.inl rfl
  · exact Or.inr ⟨_, by simp [stepL], rfl⟩
  · exact Or.inl rfl

/-- a monotone clock along the schedule gives a monotone history -/
theorem runC_mono (cap : CapFn) (calls : List (Call κ)) (sched : List (Nat × Nat)) :
    ∀ c : Conc κ, sched.Pairwise (fun a b => a.2 ≤ b.2) →
      c.done.Pairwise (fun a b => b.2.t ≤ a.2.t) → (∀ d ∈ c.done, ∀ s ∈ sched, d.2.t ≤ s.2) →
      (runC cap calls c sched).done.Pairwise (fun a b => b.2.t ≤ a.2.t) := by
  induction sched with
  | nil => intro c _ h _; exact h
  | cons s rest ih =>
    intro c hs hp hle
    obtain ⟨i, t⟩ := s
    rw [List.pairwise_cons] at hs
    simp only [runC]
    rcases stepC_done cap calls c i t with hd | ⟨e, het, hd⟩
    · apply ih _ hs.2
      · rw [hd]; exact hp
      · rw [hd]; intro d hdm s hsm; exact hle d hdm s (by simp [hsm])
    · apply ih _ hs.2
      · rw [hd, List.pairwise_cons]
        refine ⟨?_, hp⟩
        intro d hdm
        simp only [het]
        exact hle d hdm (i, t) (by simp)
      · rw [hd]
        intro d hdm s hsm
        simp only [List.mem_cons] at hdm
        rcases hdm with rfl | hdm
        · simp only [het]; exact hs.1 s hsm
        · exact hle d hdm s (by simp [hsm])

theorem history_monotone (c : Conc κ) (h : c.done.Pairwise (fun a b => b.2.t ≤ a.2.t)) :
    monotone (inputs (history c)) = true := by
  rw [monotone, decide_eq_true_eq]
  unfold inputs history
  rw [List.pairwise_map, List.pairwise_reverse, List.pairwise_map]
  exact h.imp (fun h => by simpa [Event.req] using h)

end
end LunarVerif.C09
