import LunarVerif.Spec.C02
/-! Helper lemmas for C02 (the property theorems are in `Properties/C02.lean`). -/
namespace LunarVerif.C02

/-! ### Layer A: invariants of every sequence of critical sections -/

def Bounded (cfg : Cfg) (s : S) : Prop := ∀ q, (s.members q).length ≤ cfg.max q

theorem bounded_init (cfg : Cfg) : Bounded cfg (S.init cfg) := by
  intro q; simp [S.init]

theorem bounded_micro (cfg : Cfg) (s : S) (op : Micro) (h : Bounded cfg s) :
    Bounded cfg (micro cfg s op) := by
  intro q'
  cases op with
  | sadd q m =>
    simp only [micro]
    split
    · dsimp only
      split
      · subst_vars; simp; omega
      · exact h q'
    · exact h q'
  | srem q m =>
    simp only [micro]
    split
    · dsimp only
      split
      · subst_vars
        have := List.length_erase_le (a := m) (l := s.members q)
        have := h q
        omega
      · exact h q'
    · exact h q'
  | setst q r m => exact h q'
  | del q r => exact h q'
  | rmSet r q => simp only [micro]; split <;> exact h q'
  | rmPop r => exact h q'
  | clock a b => exact h q'

theorem bounded_reach (cfg : Cfg) (s : S) (h : Reach cfg s) : Bounded cfg s := by
  induction h with
  | init => exact bounded_init cfg
  | step s op _ ih => exact bounded_micro cfg s op ih

/-- Ghost accounting: every successful add of a member value is either still in the set or was removed. -/
def Accounted (s : S) : Prop := ∀ q m, s.adds q m = s.rems q m + (s.members q).count m

theorem accounted_init (cfg : Cfg) : Accounted (S.init cfg) := by
  intro q m; simp [S.init]

theorem accounted_micro (cfg : Cfg) (s : S) (op : Micro) (h : Accounted s) :
    Accounted (micro cfg s op) := by
  intro q' m'
  cases op with
  | sadd q m =>
    simp only [micro]
    split
    · dsimp only
      by_cases hq : q' = q
      · subst hq
        by_cases hm : m' = m
        · subst hm; simp [List.count_append]; have := h q' m'; omega
        · simp [hm, List.count_append, List.count_singleton]
          have := h q' m'
          have hne : ¬ (m = m') := fun e => hm e.symm
          simp [hne]; exact this
      · simp [hq]; exact h q' m'
    · exact h q' m'
  | srem q m =>
    simp only [micro]
    split
    · rename_i hmem
      dsimp only
      by_cases hq : q' = q
      · subst hq
        by_cases hm : m' = m
        · subst hm
          simp [List.count_erase_self]
          have := h q' m'
          have hpos : 0 < (s.members q').count m' := List.count_pos_iff.mpr hmem
          omega
        · simp [hm]
          exact h q' m'
      · simp [hq]; exact h q' m'
    · exact h q' m'
  | setst q r m => exact h q' m'
  | del q r => exact h q' m'
  | rmSet r q => simp only [micro]; split <;> exact h q' m'
  | rmPop r => exact h q' m'
  | clock a b => exact h q' m'

theorem accounted_reach (cfg : Cfg) (s : S) (h : Reach cfg s) : Accounted s := by
  induction h with
  | init => exact accounted_init cfg
  | step s op _ ih => exact accounted_micro cfg s op ih


/-! ### Effect of one critical section on one quota -/

theorem micro_now (cfg : Cfg) (s : S) (op : Micro) (h : ∀ a b, op ≠ .clock a b) :
    (micro cfg s op).now = s.now ∧ (micro cfg s op).nextGC = s.nextGC := by
  cases op with
  | sadd q m => simp only [micro]; split <;> exact ⟨rfl, rfl⟩
  | srem q m => simp only [micro]; split <;> exact ⟨rfl, rfl⟩
  | setst q r m => exact ⟨rfl, rfl⟩
  | del q r => exact ⟨rfl, rfl⟩
  | rmSet r q => simp only [micro]; split <;> exact ⟨rfl, rfl⟩
  | rmPop r => exact ⟨rfl, rfl⟩
  | clock a b => exact absurd rfl (h a b)

theorem sadd_members (cfg : Cfg) (s : S) (q : Nat) (m : Member) (q' : Nat) :
    (micro cfg s (.sadd q m)).members q' =
      if q' = q ∧ (s.members q).length < cfg.max q then s.members q ++ [m] else s.members q' := by
  simp only [micro]; split
  · dsimp only; split <;> simp_all
  · simp_all

theorem srem_members (cfg : Cfg) (s : S) (q : Nat) (m : Member) (q' : Nat) :
    (micro cfg s (.srem q m)).members q' = if q' = q then (s.members q).erase m else s.members q' := by
  simp only [micro]; split
  · rfl
  · rename_i h; split
    · subst_vars; exact (List.erase_of_not_mem h).symm
    · rfl

theorem setst_allowed (cfg : Cfg) (s : S) (q r : Nat) (m : Member) (q' r' : Nat) :
    (micro cfg s (.setst q r m)).allowed q' r' = if q' = q ∧ r' = r then some m else s.allowed q' r' := rfl

theorem del_allowed (cfg : Cfg) (s : S) (q r : Nat) (q' r' : Nat) :
    (micro cfg s (.del q r)).allowed q' r' = if q' = q ∧ r' = r then none else s.allowed q' r' := rfl

@[simp] theorem sadd_allowed (cfg : Cfg) (s : S) (q : Nat) (m : Member) :
    (micro cfg s (.sadd q m)).allowed = s.allowed := by simp only [micro]; split <;> rfl
@[simp] theorem srem_allowed (cfg : Cfg) (s : S) (q : Nat) (m : Member) :
    (micro cfg s (.srem q m)).allowed = s.allowed := by simp only [micro]; split <;> rfl
@[simp] theorem setst_members (cfg : Cfg) (s : S) (q r : Nat) (m : Member) :
    (micro cfg s (.setst q r m)).members = s.members := rfl
@[simp] theorem del_members (cfg : Cfg) (s : S) (q r : Nat) :
    (micro cfg s (.del q r)).members = s.members := rfl
@[simp] theorem rmSet_members (cfg : Cfg) (s : S) (q r : Nat) :
    (micro cfg s (.rmSet r q)).members = s.members := by simp only [micro]; split <;> rfl
@[simp] theorem rmSet_allowed (cfg : Cfg) (s : S) (q r : Nat) :
    (micro cfg s (.rmSet r q)).allowed = s.allowed := by simp only [micro]; split <;> rfl
@[simp] theorem rmPop_members (cfg : Cfg) (s : S) (r : Nat) :
    (micro cfg s (.rmPop r)).members = s.members := rfl
@[simp] theorem rmPop_allowed (cfg : Cfg) (s : S) (r : Nat) :
    (micro cfg s (.rmPop r)).allowed = s.allowed := rfl
@[simp] theorem clock_members (cfg : Cfg) (s : S) (a b : Nat) :
    (micro cfg s (.clock a b)).members = s.members := rfl
@[simp] theorem clock_allowed (cfg : Cfg) (s : S) (a b : Nat) :
    (micro cfg s (.clock a b)).allowed = s.allowed := rfl
@[simp] theorem sadd_rm (cfg : Cfg) (s : S) (q : Nat) (m : Member) :
    (micro cfg s (.sadd q m)).rm = s.rm := by simp only [micro]; split <;> rfl
@[simp] theorem srem_rm (cfg : Cfg) (s : S) (q : Nat) (m : Member) :
    (micro cfg s (.srem q m)).rm = s.rm := by simp only [micro]; split <;> rfl
@[simp] theorem setst_rm (cfg : Cfg) (s : S) (q r : Nat) (m : Member) :
    (micro cfg s (.setst q r m)).rm = s.rm := rfl
@[simp] theorem del_rm (cfg : Cfg) (s : S) (q r : Nat) :
    (micro cfg s (.del q r)).rm = s.rm := rfl
@[simp] theorem sadd_now (cfg : Cfg) (s : S) (q : Nat) (m : Member) :
    (micro cfg s (.sadd q m)).now = s.now := (micro_now cfg s _ (by intro a b h; cases h)).1
@[simp] theorem srem_now (cfg : Cfg) (s : S) (q : Nat) (m : Member) :
    (micro cfg s (.srem q m)).now = s.now := (micro_now cfg s _ (by intro a b h; cases h)).1
@[simp] theorem setst_now (cfg : Cfg) (s : S) (q r : Nat) (m : Member) :
    (micro cfg s (.setst q r m)).now = s.now := rfl
@[simp] theorem del_now (cfg : Cfg) (s : S) (q r : Nat) :
    (micro cfg s (.del q r)).now = s.now := rfl
@[simp] theorem rmSet_now (cfg : Cfg) (s : S) (q r : Nat) :
    (micro cfg s (.rmSet r q)).now = s.now := (micro_now cfg s _ (by intro a b h; cases h)).1
@[simp] theorem rmPop_now (cfg : Cfg) (s : S) (r : Nat) :
    (micro cfg s (.rmPop r)).now = s.now := rfl
@[simp] theorem sadd_next (cfg : Cfg) (s : S) (q : Nat) (m : Member) :
    (micro cfg s (.sadd q m)).nextGC = s.nextGC := (micro_now cfg s _ (by intro a b h; cases h)).2
@[simp] theorem srem_next (cfg : Cfg) (s : S) (q : Nat) (m : Member) :
    (micro cfg s (.srem q m)).nextGC = s.nextGC := (micro_now cfg s _ (by intro a b h; cases h)).2
@[simp] theorem setst_next (cfg : Cfg) (s : S) (q r : Nat) (m : Member) :
    (micro cfg s (.setst q r m)).nextGC = s.nextGC := rfl
@[simp] theorem del_next (cfg : Cfg) (s : S) (q r : Nat) :
    (micro cfg s (.del q r)).nextGC = s.nextGC := rfl
@[simp] theorem rmSet_next (cfg : Cfg) (s : S) (q r : Nat) :
    (micro cfg s (.rmSet r q)).nextGC = s.nextGC := (micro_now cfg s _ (by intro a b h; cases h)).2
@[simp] theorem rmPop_next (cfg : Cfg) (s : S) (r : Nat) :
    (micro cfg s (.rmPop r)).nextGC = s.nextGC := rfl

/-- `s'` agrees with `s` on quota `q` (set and status map). -/
def SameQ (q : Nat) (s s' : S) : Prop := s'.members q = s.members q ∧ s'.allowed q = s.allowed q

theorem SameQ.refl (q : Nat) (s : S) : SameQ q s s := ⟨rfl, rfl⟩
theorem SameQ.trans {q : Nat} {s s' s'' : S} (h1 : SameQ q s s') (h2 : SameQ q s' s'') : SameQ q s s'' :=
  ⟨h2.1.trans h1.1, h2.2.trans h1.2⟩

/-- Clock, GC timer and `reqIDToQuota` untouched. -/
def SameEnv (s s' : S) : Prop := s'.now = s.now ∧ s'.nextGC = s.nextGC ∧ s'.rm = s.rm
theorem SameEnv.refl (s : S) : SameEnv s s := ⟨rfl, rfl, rfl⟩
theorem SameEnv.trans {s s' s'' : S} (h1 : SameEnv s s') (h2 : SameEnv s' s'') : SameEnv s s'' :=
  ⟨h2.1.trans h1.1, h2.2.1.trans h1.2.1, h2.2.2.trans h1.2.2⟩

/-- Effect of an `Inc`-type call for request `r` at instant `now` on quota `q`. -/
inductive IncRel (cfg : Cfg) (r now q : Nat) (s s' : S) : Prop
  | same : SameQ q s s' → IncRel cfg r now q s s'
  | added : s.allowed q r = none → (s.members q).length < cfg.max q →
      s'.members q = s.members q ++ [⟨now + cfg.exp q, r⟩] →
      (∀ r', s'.allowed q r' = if r' = r then some ⟨now + cfg.exp q, r⟩ else s.allowed q r') →
      IncRel cfg r now q s s'

theorem IncRel.trans {cfg : Cfg} {r now q : Nat} {s s' s'' : S}
    (h1 : IncRel cfg r now q s s') (h2 : IncRel cfg r now q s' s'') : IncRel cfg r now q s s'' := by
  cases h1 with
  | same e1 =>
    cases h2 with
    | same e2 => exact .same (e1.trans e2)
    | added hn hr hm ha =>
      refine .added (by rw [← e1.2]; exact hn) (by rw [← e1.1]; exact hr) (by rw [hm, e1.1]) ?_
      intro r'; rw [ha r', e1.2]
  | added hn hr hm ha =>
    cases h2 with
    | same e2 =>
      refine .added hn hr (by rw [e2.1, hm]) ?_
      intro r'; rw [e2.2, ha r']
    | added hn2 _ _ _ => rw [ha r] at hn2; simp at hn2

/-- Effect of a `Dec`-type call for request `r` on quota `q`. -/
inductive DecRel (r q : Nat) (s s' : S) : Prop
  | same : SameQ q s s' → DecRel r q s s'
  | removed (m : Member) : s.allowed q r = some m → s'.members q = (s.members q).erase m →
      (∀ r', s'.allowed q r' = if r' = r then none else s.allowed q r') → DecRel r q s s'

theorem DecRel.trans {r q : Nat} {s s' s'' : S}
    (h1 : DecRel r q s s') (h2 : DecRel r q s' s'') : DecRel r q s s'' := by
  cases h1 with
  | same e1 =>
    cases h2 with
    | same e2 => exact .same (e1.trans e2)
    | removed m hs hm ha =>
      refine .removed m (by rw [← e1.2]; exact hs) (by rw [hm, e1.1]) ?_
      intro r'; rw [ha r', e1.2]
  | removed m hs hm ha =>
    cases h2 with
    | same e2 =>
      refine .removed m hs (by rw [e2.1, hm]) ?_
      intro r'; rw [e2.2, ha r']
    | removed m2 hs2 _ _ => rw [ha r] at hs2; simp at hs2


/-! ### `Inc` / `Allowed` / `Dec` along an ancestor chain -/

theorem incChain_env (cfg : Cfg) (ch : List Nat) (r : Nat) : ∀ s, SameEnv s (incChain cfg ch s r) := by
  induction ch with
  | nil => intro s; exact SameEnv.refl s
  | cons q rest ih =>
    intro s
    simp only [incChain]
    split
    · exact SameEnv.refl s
    · split
      · have h := ih (micro cfg s (.sadd q ⟨s.now + cfg.exp q, r⟩))
        obtain ⟨h1, h2, h3⟩ := h
        exact ⟨by simp [h1], by simp [h2], by simp [h3]⟩
      · exact SameEnv.refl s

theorem incChain_frame (cfg : Cfg) (ch : List Nat) (r q' : Nat) (hq : q' ∉ ch) :
    ∀ s, SameQ q' s (incChain cfg ch s r) := by
  induction ch with
  | nil => intro s; exact SameQ.refl q' s
  | cons q rest ih =>
    intro s
    have hne : q' ≠ q := fun e => hq (by simp [e])
    have hr : q' ∉ rest := fun e => hq (by simp [e])
    simp only [incChain]
    split
    · exact SameQ.refl q' s
    · split
      · obtain ⟨h1, h2⟩ := ih hr (micro cfg s (.sadd q ⟨s.now + cfg.exp q, r⟩))
        constructor
        · simp [h1, sadd_members, hne]
        · funext r'; simp [setst_allowed, hne, h2]
      · exact SameQ.refl q' s

theorem incChain_rel (cfg : Cfg) (ch : List Nat) (r q' : Nat) (hnd : ch.Nodup) :
    ∀ s, IncRel cfg r s.now q' s (incChain cfg ch s r) := by
  induction ch with
  | nil => intro s; exact .same (SameQ.refl q' s)
  | cons q rest ih =>
    intro s
    have hqr : q ∉ rest := (List.nodup_cons.mp hnd).1
    have hnd' : rest.Nodup := (List.nodup_cons.mp hnd).2
    simp only [incChain]
    split
    · exact .same (SameQ.refl q' s)
    · rename_i hst
      split
      · rename_i hroom
        generalize hs1 : micro cfg s (.sadd q ⟨s.now + cfg.exp q, r⟩) = s1
        have hmem : ∀ q'', s1.members q'' =
            if q'' = q then s.members q ++ [⟨s.now + cfg.exp q, r⟩] else s.members q'' := by
          intro q''; rw [← hs1, sadd_members]; by_cases h : q'' = q <;> simp [h, hroom]
        have hal : s1.allowed = s.allowed := by rw [← hs1]; simp
        have hnow : s1.now = s.now := by rw [← hs1]; simp
        by_cases hq : q' = q
        · subst hq
          obtain ⟨f1, f2⟩ := incChain_frame cfg rest r q' hqr s1
          refine .added (by simpa using hst) hroom ?_ ?_
          · simp only [setst_members, f1, hmem]; simp
          · intro r'
            simp only [setst_allowed, f2, hal]
            by_cases hr' : r' = r <;> simp [hr']
        · have h := ih hnd' s1
          rw [hnow] at h
          cases h with
          | same e =>
            refine .same ⟨?_, ?_⟩
            · simp only [setst_members, e.1, hmem]; simp [hq]
            · funext r'; simp only [setst_allowed, e.2, hal]; simp [hq]
          | added hn hr hm ha =>
            refine .added (by simpa [hal] using hn) (by simpa [hmem, hq] using hr) ?_ ?_
            · simp only [setst_members, hm, hmem]; simp [hq]
            · intro r'; simp only [setst_allowed, ha r', hal]; simp [hq]
      · exact .same (SameQ.refl q' s)

/-- After `Inc` on `q :: rest` the request has a status at `q`, unless it had none and the set was full. -/
theorem incChain_head (cfg : Cfg) (q : Nat) (rest : List Nat) (r : Nat) (s : S) (hq : q ∉ rest) :
    ((incChain cfg (q :: rest) s r).allowed q r).isSome ∨
    (incChain cfg (q :: rest) s r = s ∧ s.allowed q r = none ∧ cfg.max q ≤ (s.members q).length) := by
  simp only [incChain]
  split
  · left; assumption
  · rename_i hst
    split
    · left; simp [setst_allowed]
    · right; refine ⟨rfl, by simpa using hst, by omega⟩

theorem allowedChain_env (cfg : Cfg) (ch : List Nat) (r : Nat) : ∀ s, SameEnv s (allowedChain cfg ch s r).1 := by
  induction ch with
  | nil => intro s; exact SameEnv.refl s
  | cons q rest ih =>
    intro s
    simp only [allowedChain]
    split
    · exact (incChain_env cfg (q :: rest) r s).trans (ih _)
    · exact incChain_env cfg (q :: rest) r s

theorem allowedChain_frame (cfg : Cfg) (ch : List Nat) (r q' : Nat) (hq : q' ∉ ch) :
    ∀ s, SameQ q' s (allowedChain cfg ch s r).1 := by
  induction ch with
  | nil => intro s; exact SameQ.refl q' s
  | cons q rest ih =>
    intro s
    have hr : q' ∉ rest := fun e => hq (by simp [e])
    simp only [allowedChain]
    split
    · exact (incChain_frame cfg (q :: rest) r q' hq s).trans (ih hr _)
    · exact incChain_frame cfg (q :: rest) r q' hq s

theorem allowedChain_rel (cfg : Cfg) (ch : List Nat) (r q' : Nat) (hnd : ch.Nodup) :
    ∀ s, IncRel cfg r s.now q' s (allowedChain cfg ch s r).1 := by
  induction ch with
  | nil => intro s; exact .same (SameQ.refl q' s)
  | cons q rest ih =>
    intro s
    have hnd' : rest.Nodup := (List.nodup_cons.mp hnd).2
    simp only [allowedChain]
    have h1 := incChain_rel cfg (q :: rest) r q' hnd s
    split
    · have h2 := ih hnd' (incChain cfg (q :: rest) s r)
      rw [(incChain_env cfg (q :: rest) r s).1] at h2
      exact h1.trans h2
    · exact h1

/-- `Allowed` answered yes: the request has a status at every level. -/
theorem allowedChain_true (cfg : Cfg) (ch : List Nat) (r : Nat) (hnd : ch.Nodup) :
    ∀ s, (allowedChain cfg ch s r).2 = true → ∀ q ∈ ch, ((allowedChain cfg ch s r).1.allowed q r).isSome := by
  induction ch with
  | nil => intro s _ q hq; cases hq
  | cons q rest ih =>
    intro s
    have hqr : q ∉ rest := (List.nodup_cons.mp hnd).1
    have hnd' : rest.Nodup := (List.nodup_cons.mp hnd).2
    simp only [allowedChain]
    split
    · rename_i hst
      intro ht q' hq'
      rcases List.mem_cons.mp hq' with e | e
      · subst e
        rw [(allowedChain_frame cfg rest r q' hqr _).2]; exact hst
      · exact ih hnd' _ ht q' e
    · intro ht; cases ht

/-- `Allowed` answered no: at some level the request has no status and the set is full. -/
theorem allowedChain_false (cfg : Cfg) (ch : List Nat) (r : Nat) (hnd : ch.Nodup) :
    ∀ s, (allowedChain cfg ch s r).2 = false →
      ∃ q ∈ ch, (allowedChain cfg ch s r).1.allowed q r = none ∧
        cfg.max q ≤ ((allowedChain cfg ch s r).1.members q).length := by
  induction ch with
  | nil => intro s h; simp [allowedChain] at h
  | cons q rest ih =>
    intro s
    have hqr : q ∉ rest := (List.nodup_cons.mp hnd).1
    have hnd' : rest.Nodup := (List.nodup_cons.mp hnd).2
    simp only [allowedChain]
    split
    · intro hf
      obtain ⟨q', hq', h1, h2⟩ := ih hnd' _ hf
      exact ⟨q', List.mem_cons_of_mem _ hq', h1, h2⟩
    · rename_i hst
      intro _
      rcases incChain_head cfg q rest r s hqr with h | ⟨he, hn, hm⟩
      · exact absurd h hst
      · refine ⟨q, List.mem_cons_self, ?_, ?_⟩
        · rw [he]; exact hn
        · rw [he]; exact hm

theorem decChain_env (cfg : Cfg) (ch : List Nat) (r : Nat) : ∀ s, SameEnv s (decChain cfg ch s r) := by
  induction ch with
  | nil => intro s; exact SameEnv.refl s
  | cons q rest ih =>
    intro s
    simp only [decChain]
    split
    · obtain ⟨h1, h2, h3⟩ := ih s
      exact ⟨by simp [h1], by simp [h2], by simp [h3]⟩
    · rename_i m _
      obtain ⟨h1, h2, h3⟩ := ih (micro cfg s (.srem q m))
      exact ⟨by simp [h1], by simp [h2], by simp [h3]⟩

theorem decChain_frame (cfg : Cfg) (ch : List Nat) (r q' : Nat) (hq : q' ∉ ch) :
    ∀ s, SameQ q' s (decChain cfg ch s r) := by
  induction ch with
  | nil => intro s; exact SameQ.refl q' s
  | cons q rest ih =>
    intro s
    have hne : q' ≠ q := fun e => hq (by simp [e])
    have hr : q' ∉ rest := fun e => hq (by simp [e])
    simp only [decChain]
    split
    · obtain ⟨h1, h2⟩ := ih hr s
      exact ⟨by simp [h1], by funext r'; simp [del_allowed, hne, h2]⟩
    · rename_i m _
      obtain ⟨h1, h2⟩ := ih hr (micro cfg s (.srem q m))
      constructor
      · simp [h1, srem_members, hne]
      · funext r'; simp [del_allowed, hne, h2]

theorem decChain_rel (cfg : Cfg) (ch : List Nat) (r q' : Nat) (hnd : ch.Nodup) :
    ∀ s, DecRel r q' s (decChain cfg ch s r) := by
  induction ch with
  | nil => intro s; exact .same (SameQ.refl q' s)
  | cons q rest ih =>
    intro s
    have hqr : q ∉ rest := (List.nodup_cons.mp hnd).1
    have hnd' : rest.Nodup := (List.nodup_cons.mp hnd).2
    simp only [decChain]
    split
    · rename_i hn
      by_cases hq : q' = q
      · subst hq
        obtain ⟨f1, f2⟩ := decChain_frame cfg rest r q' hqr s
        refine .same ⟨by simp [f1], ?_⟩
        funext r'
        simp only [del_allowed, f2]
        by_cases hr' : r' = r <;> simp [hr', hn]
      · have h := ih hnd' s
        cases h with
        | same e => exact .same ⟨by simp [e.1], by funext r'; simp [del_allowed, hq, e.2]⟩
        | removed m2 hs hm ha =>
          exact .removed m2 hs (by simp [hm]) (by intro r'; simp [del_allowed, hq, ha r'])
    · rename_i m hst
      generalize hs1 : micro cfg s (.srem q m) = s1
      have hmem : ∀ q'', s1.members q'' = if q'' = q then (s.members q).erase m else s.members q'' := by
        intro q''; rw [← hs1, srem_members]
      have hal : s1.allowed = s.allowed := by rw [← hs1]; simp
      by_cases hq : q' = q
      · subst hq
        obtain ⟨f1, f2⟩ := decChain_frame cfg rest r q' hqr s1
        refine .removed m hst ?_ ?_
        · simp only [del_members, f1, hmem]; simp
        · intro r'
          simp only [del_allowed, f2, hal]
          by_cases hr' : r' = r <;> simp [hr']
      · have h := ih hnd' s1
        cases h with
        | same e =>
          refine .same ⟨?_, ?_⟩
          · simp only [del_members, e.1, hmem]; simp [hq]
          · funext r'; simp only [del_allowed, e.2, hal]; simp [hq]
        | removed m2 hs hm ha =>
          refine .removed m2 (by simpa [hal] using hs) ?_ ?_
          · simp only [del_members, hm, hmem]; simp [hq]
          · intro r'; simp only [del_allowed, ha r', hal]; simp [hq]

/-- `Dec` on a chain leaves the request without a status at every level. -/
theorem decChain_clears (cfg : Cfg) (ch : List Nat) (r : Nat) (hnd : ch.Nodup) :
    ∀ s, ∀ q ∈ ch, (decChain cfg ch s r).allowed q r = none := by
  induction ch with
  | nil => intro s q h; cases h
  | cons q0 rest ih =>
    intro s q hq
    have hqr : q0 ∉ rest := (List.nodup_cons.mp hnd).1
    have hnd' : rest.Nodup := (List.nodup_cons.mp hnd).2
    simp only [decChain]
    rcases List.mem_cons.mp hq with e | e
    · subst e; simp [del_allowed]
    · have hne : q ≠ q0 := fun e2 => hqr (e2 ▸ e)
      simp only [del_allowed, hne, false_and, if_false]
      exact ih hnd' _ q e

/-- A `Dec`-type call never gives a status. -/
theorem DecRel.keeps_none {r q : Nat} {s s' : S} (h : DecRel r q s s') (hn : s.allowed q r = none) :
    s'.allowed q r = none := by
  cases h with
  | same e => rw [e.2]; exact hn
  | removed m hs _ _ => rw [hn] at hs; cases hs

/-! ### The per-quota invariant between events -/

structure JQ (s : S) (q : Nat) : Prop where
  own : ∀ r m, s.allowed q r = some m → m ∈ s.members q ∧ m.req = r
  has : ∀ m, m ∈ s.members q → s.allowed q m.req = some m
  nodup : (s.members q).Nodup

theorem JQ.init (cfg : Cfg) (q : Nat) : JQ (S.init cfg) q :=
  ⟨by intro r m h; simp [S.init] at h, by intro m h; simp [S.init] at h, by simp [S.init]⟩

theorem JQ.of_same {s s' : S} {q : Nat} (h : JQ s q) (e : SameQ q s s') : JQ s' q := by
  obtain ⟨e1, e2⟩ := e
  exact ⟨by rw [e1, e2]; exact h.own, by rw [e1, e2]; exact h.has, by rw [e1]; exact h.nodup⟩

theorem JQ.holds_iff {s : S} {q : Nat} (h : JQ s q) (r : Nat) :
    holdsSlot r (s.members q) = true ↔ (s.allowed q r).isSome = true := by
  simp only [holdsSlot, List.any_eq_true, beq_iff_eq]
  constructor
  · rintro ⟨m, hm, hr⟩
    rw [← hr, h.has m hm]; rfl
  · intro hs
    obtain ⟨m, hm⟩ := Option.isSome_iff_exists.mp hs
    exact ⟨m, (h.own r m hm).1, (h.own r m hm).2⟩

theorem JQ.reqs_nodup {s : S} {q : Nat} (h : JQ s q) : ((s.members q).map (·.req)).Nodup := by
  unfold List.Nodup
  rw [List.pairwise_map]
  refine List.Pairwise.imp_of_mem ?_ h.nodup
  intro a b ha hb hne hab
  have h1 := h.has a ha
  have h2 := h.has b hb
  rw [hab, h2] at h1
  exact hne (Option.some.inj h1).symm

theorem JQ.inc {cfg : Cfg} {s s' : S} {q r now : Nat} (h : JQ s q) (hr : IncRel cfg r now q s s') : JQ s' q := by
  cases hr with
  | same e => exact h.of_same e
  | added hn _ hm ha =>
    have hfresh : (⟨now + cfg.exp q, r⟩ : Member) ∉ s.members q := by
      intro hin
      have := h.has _ hin
      rw [hn] at this; cases this
    refine ⟨?_, ?_, ?_⟩
    · intro r' m' hs
      rw [ha r'] at hs
      rw [hm]
      by_cases hr' : r' = r
      · simp [hr'] at hs; subst hs; simp [hr']
      · simp [hr'] at hs
        exact ⟨List.mem_append_left _ (h.own r' m' hs).1, (h.own r' m' hs).2⟩
    · intro m' hin
      rw [hm] at hin
      rw [ha]
      rcases List.mem_append.mp hin with hin | hin
      · have hne : m'.req ≠ r := by
          intro e
          have := h.has m' hin
          rw [e, hn] at this; cases this
        simp [hne]; exact h.has m' hin
      · simp at hin; subst hin; simp
    · rw [hm]
      exact List.nodup_append.mpr ⟨h.nodup, by simp, by
        intro a ha' b hb; simp at hb; subst hb; intro e; subst e; exact hfresh ha'⟩

theorem JQ.dec {s s' : S} {q r : Nat} (h : JQ s q) (hr : DecRel r q s s') : JQ s' q := by
  cases hr with
  | same e => exact h.of_same e
  | removed m hs hm ha =>
    obtain ⟨hmin, hmr⟩ := h.own r m hs
    refine ⟨?_, ?_, ?_⟩
    · intro r' m' hs'
      rw [ha r'] at hs'
      by_cases hr' : r' = r
      · simp [hr'] at hs'
      · simp [hr'] at hs'
        obtain ⟨h1, h2⟩ := h.own r' m' hs'
        refine ⟨?_, h2⟩
        rw [hm]
        have hne : m' ≠ m := by intro e; subst e; exact hr' (h2.symm.trans hmr)
        exact (List.mem_erase_of_ne hne).mpr h1
    · intro m' hin
      rw [hm] at hin
      have hin' := List.mem_of_mem_erase hin
      have hne : m'.req ≠ r := by
        intro e
        have := h.has m' hin'
        rw [e, hs] at this
        have : m = m' := Option.some.inj this
        subst this
        exact (List.Nodup.not_mem_erase h.nodup) hin
      rw [ha]; simp [hne]; exact h.has m' hin'
    · rw [hm]; exact h.nodup.erase m

/-- Removing the member recorded for `r` is removing everything `r` holds. -/
theorem JQ.erase_eq_others {s : S} {q r : Nat} {m : Member} (h : JQ s q) (hs : s.allowed q r = some m) :
    (s.members q).erase m = others r (s.members q) := by
  rw [h.nodup.erase_eq_filter, others]
  apply List.filter_congr
  intro m' hin
  obtain ⟨_, hmr⟩ := h.own r m hs
  by_cases e : m' = m
  · subst e; show (m' != m') = (m'.req != r); simp [hmr]
  · have : m'.req ≠ r := by
      intro e2
      have := h.has m' hin
      rw [e2, hs] at this
      exact e (Option.some.inj this).symm
    show (m' != m) = (m'.req != r)
    rw [bne_iff_ne.mpr e, bne_iff_ne.mpr this]

theorem JQ.others_eq_self {s : S} {q r : Nat} (h : JQ s q) (hs : s.allowed q r = none) :
    others r (s.members q) = s.members q := by
  rw [others, List.filter_eq_self]
  intro m hin
  have := h.has m hin
  have hne : m.req ≠ r := by intro e; rw [e, hs] at this; cases this
  simpa using hne


/-! ### Well-formed configurations -/

theorem isConc_lt (cfg : Cfg) (q : Nat) (h : cfg.isConc q = true) : q < cfg.quotas.length := by
  by_cases hlt : q < cfg.quotas.length
  · exact hlt
  · have : cfg.quotas[q]? = none := List.getElem?_eq_none (by omega)
    simp [Cfg.isConc, this] at h

theorem wf_chain (cfg : Cfg) (hwf : cfg.wf = true) (q : Nat) (hq : cfg.isConc q = true) :
    (cfg.chainOf q).Nodup ∧ ∀ q' ∈ cfg.chainOf q, cfg.isConc q' = true := by
  simp only [Cfg.wf, Bool.and_eq_true, List.all_eq_true, List.mem_range, Bool.or_eq_true,
    Bool.not_eq_true', decide_eq_true_eq] at hwf
  rcases hwf.1.1.1.2 q (isConc_lt cfg q hq) with h | h
  · rw [hq] at h; cases h
  · exact h

theorem wf_gc (cfg : Cfg) (hwf : cfg.wf = true) : 0 < cfg.gc := by
  simp only [Cfg.wf, Bool.and_eq_true, decide_eq_true_eq] at hwf
  exact hwf.1.1.1.1

theorem chainOf_head (cfg : Cfg) (q : Nat) : ∃ rest, cfg.chainOf q = q :: rest := by
  simp only [Cfg.chainOf, chainFuel]; exact ⟨_, rfl⟩

/-! ### Processors and flows -/

def SameClock (s s' : S) : Prop := s'.now = s.now ∧ s'.nextGC = s.nextGC
theorem SameClock.refl (s : S) : SameClock s s := ⟨rfl, rfl⟩
theorem SameClock.trans {s s' s'' : S} (h1 : SameClock s s') (h2 : SameClock s' s'') : SameClock s s'' :=
  ⟨h2.1.trans h1.1, h2.2.trans h1.2⟩
theorem SameEnv.clock {s s' : S} (h : SameEnv s s') : SameClock s s' := ⟨h.1, h.2.1⟩

theorem IncRel.of_left {cfg : Cfg} {r now q : Nat} {s s0 s' : S} (e : SameQ q s s0)
    (h : IncRel cfg r now q s0 s') : IncRel cfg r now q s s' := (IncRel.same e).trans h

theorem DecRel.of_left {r q : Nat} {s s0 s' : S} (e : SameQ q s s0)
    (h : DecRel r q s0 s') : DecRel r q s s' := (DecRel.same e).trans h

theorem rmSet_sameQ (cfg : Cfg) (s : S) (r q q' : Nat) : SameQ q' s (micro cfg s (.rmSet r q)) :=
  ⟨by simp, by simp⟩
theorem rmSet_clock (cfg : Cfg) (s : S) (r q : Nat) : SameClock s (micro cfg s (.rmSet r q)) :=
  ⟨by simp, by simp⟩
theorem rmPop_sameQ (cfg : Cfg) (s : S) (r q' : Nat) : SameQ q' s (micro cfg s (.rmPop r)) :=
  ⟨by simp, by simp⟩
theorem rmPop_clock (cfg : Cfg) (s : S) (r : Nat) : SameClock s (micro cfg s (.rmPop r)) :=
  ⟨by simp, by simp⟩

theorem limiter_rel (cfg : Cfg) (hwf : cfg.wf = true) (s : S) (q r q' : Nat) :
    IncRel cfg r s.now q' s (limiter cfg s q r).1 ∧ SameClock s (limiter cfg s q r).1 := by
  simp only [limiter]
  split
  · rename_i hc
    obtain ⟨hnd, _⟩ := wf_chain cfg hwf q hc
    generalize hs0 : micro cfg s (.rmSet r q) = s0
    have e0 : SameQ q' s s0 := by rw [← hs0]; exact rmSet_sameQ cfg s r q q'
    have c0 : SameClock s s0 := by rw [← hs0]; exact rmSet_clock cfg s r q
    have h1 := incChain_rel cfg (cfg.chainOf q) r q' hnd s0
    have c1 := (incChain_env cfg (cfg.chainOf q) r s0).clock
    have h2 := allowedChain_rel cfg (cfg.chainOf q) r q' hnd (incChain cfg (cfg.chainOf q) s0 r)
    have c2 := (allowedChain_env cfg (cfg.chainOf q) r (incChain cfg (cfg.chainOf q) s0 r)).clock
    rw [c1.1] at h2
    rw [c0.1] at h1 h2
    exact ⟨IncRel.of_left e0 (h1.trans h2), c0.trans (c1.trans c2)⟩
  · exact ⟨.same (rmSet_sameQ cfg s r q q'), rmSet_clock cfg s r q⟩

theorem userFlow_rel (cfg : Cfg) (hwf : cfg.wf = true) (order : List Nat) (r q' : Nat) :
    ∀ s, IncRel cfg r s.now q' s (userFlow cfg order s r).1 ∧ SameClock s (userFlow cfg order s r).1 := by
  induction order with
  | nil => intro s; exact ⟨.same (SameQ.refl q' s), SameClock.refl s⟩
  | cons q rest ih =>
    intro s
    simp only [userFlow]
    obtain ⟨h1, c1⟩ := limiter_rel cfg hwf s q r q'
    split
    · obtain ⟨h2, c2⟩ := ih (limiter cfg s q r).1
      rw [c1.1] at h2
      exact ⟨h1.trans h2, c1.trans c2⟩
    · exact ⟨h1, c1⟩

theorem sysInc_rel (cfg : Cfg) (hwf : cfg.wf = true) (qs : List Nat) (r q' : Nat) :
    ∀ s, IncRel cfg r s.now q' s (sysInc cfg qs s r) ∧ SameClock s (sysInc cfg qs s r) := by
  induction qs with
  | nil => intro s; exact ⟨.same (SameQ.refl q' s), SameClock.refl s⟩
  | cons q rest ih =>
    intro s
    simp only [sysInc]
    generalize hs0 : micro cfg s (.rmSet r q) = s0
    have e0 : SameQ q' s s0 := by rw [← hs0]; exact rmSet_sameQ cfg s r q q'
    have c0 : SameClock s s0 := by rw [← hs0]; exact rmSet_clock cfg s r q
    split
    · rename_i hc
      obtain ⟨hnd, _⟩ := wf_chain cfg hwf q hc
      have h1 := incChain_rel cfg (cfg.chainOf q) r q' hnd s0
      have c1 := (incChain_env cfg (cfg.chainOf q) r s0).clock
      obtain ⟨h2, c2⟩ := ih (incChain cfg (cfg.chainOf q) s0 r)
      rw [c1.1] at h2
      rw [c0.1] at h1 h2
      exact ⟨IncRel.of_left e0 (h1.trans h2), c0.trans (c1.trans c2)⟩
    · obtain ⟨h2, c2⟩ := ih s0
      rw [c0.1] at h2
      exact ⟨IncRel.of_left e0 h2, c0.trans c2⟩

theorem decList_rel (cfg : Cfg) (hwf : cfg.wf = true) (qs : List Nat) (r q' : Nat) :
    ∀ s, DecRel r q' s (decList cfg qs s r) ∧ SameClock s (decList cfg qs s r) ∧
      (decList cfg qs s r).rm = s.rm := by
  induction qs with
  | nil => intro s; exact ⟨.same (SameQ.refl q' s), SameClock.refl s, rfl⟩
  | cons q rest ih =>
    intro s
    simp only [decList]
    split
    · rename_i hc
      obtain ⟨hnd, _⟩ := wf_chain cfg hwf q hc
      have h1 := decChain_rel cfg (cfg.chainOf q) r q' hnd s
      have e1 := decChain_env cfg (cfg.chainOf q) r s
      obtain ⟨h2, c2, r2⟩ := ih (decChain cfg (cfg.chainOf q) s r)
      exact ⟨h1.trans h2, e1.clock.trans c2, r2.trans e1.2.2⟩
    · exact ih s

theorem drop_rel (cfg : Cfg) (hwf : cfg.wf = true) (s : S) (r q' : Nat) :
    DecRel r q' s (drop cfg s r) ∧ SameClock s (drop cfg s r) := by
  simp only [drop]
  obtain ⟨h1, c1, _⟩ := decList_rel cfg hwf (s.rm r) r q' (micro cfg s (.rmPop r))
  exact ⟨DecRel.of_left (rmPop_sameQ cfg s r q') h1, (rmPop_clock cfg s r).trans c1⟩

theorem sysDec_rel (cfg : Cfg) (hwf : cfg.wf = true) (qs : List Nat) (r q' : Nat) :
    ∀ s, DecRel r q' s (sysDec cfg qs s r) ∧ SameClock s (sysDec cfg qs s r) := by
  induction qs with
  | nil => intro s; exact ⟨.same (SameQ.refl q' s), SameClock.refl s⟩
  | cons q rest ih =>
    intro s
    simp only [sysDec]
    generalize hs0 : micro cfg s (.rmSet r q) = s0
    have e0 : SameQ q' s s0 := by rw [← hs0]; exact rmSet_sameQ cfg s r q q'
    have c0 : SameClock s s0 := by rw [← hs0]; exact rmSet_clock cfg s r q
    split
    · rename_i hc
      obtain ⟨hnd, _⟩ := wf_chain cfg hwf q hc
      have h1 := decChain_rel cfg (cfg.chainOf q) r q' hnd s0
      have c1 := (decChain_env cfg (cfg.chainOf q) r s0).clock
      obtain ⟨h2, c2⟩ := ih (decChain cfg (cfg.chainOf q) s0 r)
      exact ⟨DecRel.of_left e0 (h1.trans h2), c0.trans (c1.trans c2)⟩
    · obtain ⟨h2, c2⟩ := ih s0
      exact ⟨DecRel.of_left e0 h2, c0.trans c2⟩

theorem endFlows_rel (cfg : Cfg) (hwf : cfg.wf = true) (s : S) (r : Nat) (tx : Tx) (q' : Nat) :
    DecRel r q' s (endFlows cfg s r tx) ∧ SameClock s (endFlows cfg s r tx) := by
  simp only [endFlows]
  obtain ⟨h1, c1⟩ := sysDec_rel cfg hwf (cfg.sysDecsFor tx) r q' s
  obtain ⟨h2, c2⟩ := drop_rel cfg hwf (sysDec cfg (cfg.sysDecsFor tx) s r) r q'
  exact ⟨h1.trans h2, c1.trans c2⟩

/-! ### Event-level runs are sequences of critical sections -/

theorem reach_incChain (cfg : Cfg) (ch : List Nat) (r : Nat) : ∀ s, Reach cfg s → Reach cfg (incChain cfg ch s r) := by
  induction ch with
  | nil => intro s h; exact h
  | cons q rest ih =>
    intro s h
    simp only [incChain]
    split
    · exact h
    · split
      · exact .step _ _ (ih _ (.step _ _ h))
      · exact h

theorem reach_allowedChain (cfg : Cfg) (ch : List Nat) (r : Nat) :
    ∀ s, Reach cfg s → Reach cfg (allowedChain cfg ch s r).1 := by
  induction ch with
  | nil => intro s h; exact h
  | cons q rest ih =>
    intro s h
    simp only [allowedChain]
    split
    · exact ih _ (reach_incChain cfg _ r s h)
    · exact reach_incChain cfg _ r s h

theorem reach_decChain (cfg : Cfg) (ch : List Nat) (r : Nat) : ∀ s, Reach cfg s → Reach cfg (decChain cfg ch s r) := by
  induction ch with
  | nil => intro s h; exact h
  | cons q rest ih =>
    intro s h
    simp only [decChain]
    split
    · exact .step _ _ (ih _ h)
    · exact .step _ _ (ih _ (.step _ _ h))

theorem reach_limiter (cfg : Cfg) (s : S) (q r : Nat) (h : Reach cfg s) : Reach cfg (limiter cfg s q r).1 := by
  simp only [limiter]
  split
  · exact reach_allowedChain cfg _ r _ (reach_incChain cfg _ r _ (.step _ _ h))
  · show Reach cfg (micro cfg s (.rmSet r q)); exact .step _ _ h

theorem reach_userFlow (cfg : Cfg) (order : List Nat) (r : Nat) :
    ∀ s, Reach cfg s → Reach cfg (userFlow cfg order s r).1 := by
  induction order with
  | nil => intro s h; exact h
  | cons q rest ih =>
    intro s h
    simp only [userFlow]
    split
    · exact ih _ (reach_limiter cfg s q r h)
    · exact reach_limiter cfg s q r h

theorem reach_sysInc (cfg : Cfg) (qs : List Nat) (r : Nat) : ∀ s, Reach cfg s → Reach cfg (sysInc cfg qs s r) := by
  induction qs with
  | nil => intro s h; exact h
  | cons q rest ih =>
    intro s h
    simp only [sysInc]
    split
    · exact ih _ (reach_incChain cfg _ r _ (.step _ _ h))
    · exact ih _ (.step _ _ h)

theorem reach_decList (cfg : Cfg) (qs : List Nat) (r : Nat) : ∀ s, Reach cfg s → Reach cfg (decList cfg qs s r) := by
  induction qs with
  | nil => intro s h; exact h
  | cons q rest ih =>
    intro s h
    simp only [decList]
    split
    · exact ih _ (reach_decChain cfg _ r _ h)
    · exact ih _ h

theorem reach_drop (cfg : Cfg) (s : S) (r : Nat) (h : Reach cfg s) : Reach cfg (drop cfg s r) :=
  reach_decList cfg _ r _ (.step _ _ h)

theorem reach_sysDec (cfg : Cfg) (qs : List Nat) (r : Nat) : ∀ s, Reach cfg s → Reach cfg (sysDec cfg qs s r) := by
  induction qs with
  | nil => intro s h; exact h
  | cons q rest ih =>
    intro s h
    simp only [sysDec]
    split
    · exact ih _ (reach_decChain cfg _ r _ (.step _ _ h))
    · exact ih _ (.step _ _ h)

theorem reach_endFlows (cfg : Cfg) (s : S) (r : Nat) (tx : Tx) (h : Reach cfg s) : Reach cfg (endFlows cfg s r tx) :=
  reach_drop cfg _ r (reach_sysDec cfg _ r s h)

theorem reach_reqEvent (cfg : Cfg) (s : S) (r : Nat) (tx : Tx) (h : Reach cfg s) :
    Reach cfg (reqEvent cfg s r tx).1 := by
  have hM := reach_userFlow cfg cfg.order r _ (reach_sysInc cfg (cfg.sysStartFor tx) r s h)
  simp only [reqEvent]
  split
  · exact reach_endFlows cfg _ r tx (reach_drop cfg _ r hM)
  · split
    · exact reach_endFlows cfg _ r tx (reach_drop cfg _ r hM)
    · exact hM

theorem reach_gcLoop (cfg : Cfg) (q : Nat) (ms : List Member) :
    ∀ s, Reach cfg s → Reach cfg (gcLoop cfg q ms s) := by
  induction ms with
  | nil => intro s h; exact h
  | cons m rest ih =>
    intro s h
    simp only [gcLoop]
    split
    · exact ih _ (.step _ _ (.step _ _ h))
    · exact ih _ h

theorem reach_gcQuota (cfg : Cfg) (s : S) (q : Nat) (h : Reach cfg s) : Reach cfg (gcQuota cfg s q) := by
  simp only [gcQuota]; split
  · exact reach_gcLoop cfg q _ s h
  · exact h

theorem reach_foldl_gc (cfg : Cfg) (qs : List Nat) : ∀ s, Reach cfg s → Reach cfg (qs.foldl (gcQuota cfg) s) := by
  induction qs with
  | nil => intro s h; exact h
  | cons q rest ih => intro s h; exact ih _ (reach_gcQuota cfg s q h)

theorem reach_tickN (cfg : Cfg) (k : Nat) : ∀ s, Reach cfg s → Reach cfg (tickN cfg k s) := by
  induction k with
  | zero => intro s h; exact h
  | succ k ih =>
    intro s h
    simp only [tickN]
    exact ih _ (.step _ _ (reach_foldl_gc cfg _ _ (.step _ _ h)))

theorem reach_event (cfg : Cfg) (s : S) (e : Event) (h : Reach cfg s) : Reach cfg (event cfg s e).1 := by
  cases e with
  | req r tx => exact reach_reqEvent cfg s r tx h
  | resp r tx => exact reach_endFlows cfg s r tx h
  | err r => exact reach_drop cfg s r h
  | adv d =>
    show Reach cfg (advance cfg s d)
    simp only [advance]
    exact .step _ _ (reach_tickN cfg _ s h)

theorem reach_final (cfg : Cfg) (es : List Event) : ∀ s, Reach cfg s → Reach cfg (final cfg s es) := by
  induction es with
  | nil => intro s h; exact h
  | cons e rest ih => intro s h; exact ih _ (reach_event cfg s e h)


/-! ### `reqIDToQuota` -/

theorem rmSet_rm (cfg : Cfg) (s : S) (r q r' : Nat) :
    (micro cfg s (.rmSet r q)).rm r' = if r' = r ∧ q ∉ s.rm r then s.rm r ++ [q] else s.rm r' := by
  simp only [micro]
  split
  · rename_i h
    have : q ∈ s.rm r := List.contains_iff_mem.mp h
    simp [this]
  · rename_i h
    have : q ∉ s.rm r := fun hh => h (List.contains_iff_mem.mpr hh)
    by_cases e : r' = r <;> simp [e, this]

/-- `reqIDToQuota` after an `Inc`-type phase for `r`: other requests untouched, `r`'s entries kept. -/
def RmMono (r : Nat) (s s' : S) : Prop :=
  (∀ r', r' ≠ r → s'.rm r' = s.rm r') ∧ (∀ x ∈ s.rm r, x ∈ s'.rm r)

theorem RmMono.refl (r : Nat) (s : S) : RmMono r s s := ⟨fun _ _ => rfl, fun _ h => h⟩
theorem RmMono.trans {r : Nat} {s s' s'' : S} (h1 : RmMono r s s') (h2 : RmMono r s' s'') : RmMono r s s'' :=
  ⟨fun r' hr => (h2.1 r' hr).trans (h1.1 r' hr), fun x hx => h2.2 x (h1.2 x hx)⟩
theorem RmMono.of_eq {r : Nat} {s s' : S} (h : s'.rm = s.rm) : RmMono r s s' :=
  ⟨fun _ _ => by rw [h], fun _ hx => by rw [h]; exact hx⟩

theorem rmSet_mono (cfg : Cfg) (s : S) (r q : Nat) :
    RmMono r s (micro cfg s (.rmSet r q)) ∧ q ∈ (micro cfg s (.rmSet r q)).rm r := by
  refine ⟨⟨?_, ?_⟩, ?_⟩
  · intro r' hr; rw [rmSet_rm]; simp [hr]
  · intro x hx; rw [rmSet_rm]; split
    · exact List.mem_append_left _ hx
    · exact hx
  · rw [rmSet_rm]
    by_cases h : q ∈ s.rm r <;> simp [h]

def incPhase (cfg : Cfg) (s : S) (r : Nat) (tx : Tx) : S × Bool :=
  userFlow cfg cfg.order (sysInc cfg (cfg.sysStartFor tx) s r) r

theorem reqEvent_eq (cfg : Cfg) (s : S) (r : Nat) (tx : Tx) :
    reqEvent cfg s r tx =
      if !(incPhase cfg s r tx).2 then (endFlows cfg (drop cfg (incPhase cfg s r tx).1 r) r tx, .refused)
      else if cfg.early && tx.post then (endFlows cfg (drop cfg (incPhase cfg s r tx).1 r) r tx, .early)
      else ((incPhase cfg s r tx).1, .admitted) := rfl

theorem incPhase_rel (cfg : Cfg) (hwf : cfg.wf = true) (s : S) (r : Nat) (tx : Tx) (q : Nat) :
    IncRel cfg r s.now q s (incPhase cfg s r tx).1 ∧ SameClock s (incPhase cfg s r tx).1 := by
  obtain ⟨h1, c1⟩ := sysInc_rel cfg hwf (cfg.sysStartFor tx) r q s
  obtain ⟨h2, c2⟩ := userFlow_rel cfg hwf cfg.order r q (sysInc cfg (cfg.sysStartFor tx) s r)
  rw [c1.1] at h2
  exact ⟨h1.trans h2, c1.trans c2⟩

theorem drop_rm (cfg : Cfg) (hwf : cfg.wf = true) (s : S) (r r' : Nat) :
    (drop cfg s r).rm r' = if r' = r then [] else s.rm r' := by
  simp only [drop]
  rw [(decList_rel cfg hwf (s.rm r) r 0 (micro cfg s (.rmPop r))).2.2]
  rfl

theorem sysDec_rm (cfg : Cfg) (qs : List Nat) (r : Nat) : ∀ s, RmMono r s (sysDec cfg qs s r) := by
  induction qs with
  | nil => intro s; exact RmMono.refl r s
  | cons q rest ih =>
    intro s
    simp only [sysDec]
    obtain ⟨m1, _⟩ := rmSet_mono cfg s r q
    split
    · have e1 := (decChain_env cfg (cfg.chainOf q) r (micro cfg s (.rmSet r q))).2.2
      exact (m1.trans (RmMono.of_eq e1)).trans (ih _)
    · exact m1.trans (ih _)

theorem endFlows_rm (cfg : Cfg) (hwf : cfg.wf = true) (s : S) (r : Nat) (tx : Tx) (r' : Nat) :
    (endFlows cfg s r tx).rm r' = if r' = r then [] else s.rm r' := by
  simp only [endFlows]
  rw [drop_rm cfg hwf]
  by_cases e : r' = r
  · simp [e]
  · simp [e]; exact (sysDec_rm cfg _ r s).1 r' e

/-! ### Verdicts -/

theorem IncRel.keeps {cfg : Cfg} {r now q : Nat} {s s' : S} (h : IncRel cfg r now q s s')
    (hs : (s.allowed q r).isSome = true) : (s'.allowed q r).isSome = true := by
  cases h with
  | same e => rw [e.2]; exact hs
  | added hn _ _ _ => rw [hn] at hs; cases hs

/-- The limiters all said `below_limit`: the request has a status at every level of every concurrent
    limiter's chain. -/
theorem userFlow_true (cfg : Cfg) (hwf : cfg.wf = true) (order : List Nat) (r : Nat) :
    ∀ s, (userFlow cfg order s r).2 = true →
      ∀ q0 ∈ order, cfg.isConc q0 = true → ∀ q ∈ cfg.chainOf q0,
        ((userFlow cfg order s r).1.allowed q r).isSome = true := by
  induction order with
  | nil => intro s _ q0 h; cases h
  | cons q1 rest ih =>
    intro s
    simp only [userFlow]
    split
    · rename_i hok
      intro ht q0 hq0 hc q hq
      rcases List.mem_cons.mp hq0 with e | e
      · subst e
        obtain ⟨hnd, _⟩ := wf_chain cfg hwf q0 hc
        have h1 : ((limiter cfg s q0 r).1.allowed q r).isSome = true := by
          have hok' := hok
          simp only [limiter, hc, if_true] at hok' ⊢
          exact allowedChain_true cfg _ r hnd _ hok' q hq
        obtain ⟨h2, _⟩ := userFlow_rel cfg hwf rest r q (limiter cfg s q0 r).1
        exact h2.keeps h1
      · exact ih _ ht q0 e hc q hq
    · intro ht; cases ht

/-- Some limiter said `above_limit`: at some level of its chain the request has no status and the set is full. -/
theorem userFlow_false (cfg : Cfg) (hwf : cfg.wf = true) (order : List Nat) (r : Nat) :
    ∀ s, (userFlow cfg order s r).2 = false →
      ∃ q0 ∈ order, cfg.isConc q0 = true ∧ ∃ q ∈ cfg.chainOf q0,
        (userFlow cfg order s r).1.allowed q r = none ∧
        cfg.max q ≤ ((userFlow cfg order s r).1.members q).length := by
  induction order with
  | nil => intro s h; simp [userFlow] at h
  | cons q1 rest ih =>
    intro s
    simp only [userFlow]
    split
    · intro hf
      obtain ⟨q0, hq0, hc, q, hq, h1, h2⟩ := ih _ hf
      exact ⟨q0, List.mem_cons_of_mem _ hq0, hc, q, hq, h1, h2⟩
    · rename_i hno
      intro _
      have hno' : (limiter cfg s q1 r).2 = false := by simpa using hno
      by_cases hc : cfg.isConc q1 = true
      · obtain ⟨hnd, _⟩ := wf_chain cfg hwf q1 hc
        simp only [limiter, hc, if_true] at hno' ⊢
        obtain ⟨q, hq, h1, h2⟩ := allowedChain_false cfg _ r hnd _ hno'
        exact ⟨q1, List.mem_cons_self, hc, q, hq, h1, h2⟩
      · simp [limiter, hc] at hno'

/-! ### Helpers on sets -/

def st (s : S) (r : Nat) (q : Nat) : Bool := (s.allowed q r).isSome

theorem st_of_sameQ {s s' : S} {r q : Nat} (e : SameQ q s s') : st s' r q = st s r q := by
  simp [st, e.2]

theorem holds_others_false (r : Nat) (l : List Member) : holdsSlot r (others r l) = false := by
  simp [holdsSlot, others]

theorem others_of_not_holds (r : Nat) (l : List Member) (h : holdsSlot r l = false) : others r l = l := by
  rw [others, List.filter_eq_self]
  intro m hm
  simp only [holdsSlot, List.any_eq_false, beq_iff_eq] at h
  simpa using h m hm

/-- One `Dec`-type call that clears `reach` and keeps everything else gives every quota's set the shape the
    Spec asks for, provided the request holds no slot outside `reach`. -/
theorem dec_exact {s s' : S} {r q : Nat} (hJ : JQ s q) (hrel : DecRel r q s s')
    (hclear : (s.allowed q r).isSome = true → s'.allowed q r = none) :
    s'.members q = others r (s.members q) := by
  cases hrel with
  | same e =>
    cases hs : s.allowed q r with
    | none => rw [e.1, hJ.others_eq_self hs]
    | some m =>
      have := hclear (by simp [hs])
      rw [e.2, hs] at this; cases this
  | removed m hs hm _ => rw [hm, hJ.erase_eq_others hs]

/-! ### Shape of a set across a request event -/

theorem shape {cfg : Cfg} {s M s' : S} {r now q : Nat} (hJ : JQ s q)
    (hi : IncRel cfg r now q s M) (hd : DecRel r q M s') :
    s'.members q = s.members q ∨ s'.members q = others r (s.members q) ∨
    s'.members q = s.members q ++ [⟨now + cfg.exp q, r⟩] := by
  have hJM : JQ M q := hJ.inc hi
  cases hd with
  | same e =>
    cases hi with
    | same e0 => left; rw [e.1, e0.1]
    | added _ _ hm _ => right; right; rw [e.1, hm]
  | removed m hs hm _ =>
    cases hi with
    | same e0 =>
      right; left
      rw [hm, e0.1]
      exact hJ.erase_eq_others (by rw [← e0.2]; exact hs)
    | added hn _ hm0 ha =>
      left
      rw [hm, hJM.erase_eq_others hs, hm0]
      have : others r (s.members q ++ [⟨now + cfg.exp q, r⟩]) = others r (s.members q) := by
        simp [others, List.filter_append]
      rw [this, hJ.others_eq_self hn]


/-! ### The GC -/

/-- Effect of GC work on quota `q` at instant `now`. -/
structure GcStep (q now : Nat) (s s' : S) : Prop where
  sub : (s'.members q).Sublist (s.members q)
  exp : ∀ m ∈ s.members q, m ∈ s'.members q ∨ m.expiry ≤ now
  env : SameEnv s s'
  frame : ∀ q', q' ≠ q → SameQ q' s s'

theorem GcStep.refl (q now : Nat) (s : S) : GcStep q now s s :=
  ⟨List.Sublist.refl _, fun _ h => Or.inl h, SameEnv.refl s, fun q' _ => SameQ.refl q' s⟩

theorem GcStep.trans {q now : Nat} {s s' s'' : S} (h1 : GcStep q now s s') (h2 : GcStep q now s' s'') :
    GcStep q now s s'' :=
  ⟨h2.sub.trans h1.sub,
   fun m hm => by
     rcases h1.exp m hm with h | h
     · exact h2.exp m h
     · exact Or.inr h,
   h1.env.trans h2.env,
   fun q' hq' => (h1.frame q' hq').trans (h2.frame q' hq')⟩

/-- Loop invariant of `checkForExpiredRequests`: `init` is the set at loop start (the snapshot). -/
structure LI (q : Nat) (init : List Member) (s : S) : Prop where
  mem_sub : ∀ m ∈ s.members q, m ∈ init
  jq : JQ s q
  gone : ∀ m ∈ init, m ∉ s.members q → s.allowed q m.req = none

theorem gc_remove_step (cfg : Cfg) (q : Nat) (init : List Member) (s : S) (m : Member)
    (hli : LI q init s) (hm : m ∈ init) (he : m.expiry ≤ s.now) :
    LI q init (micro cfg (micro cfg s (.srem q m)) (.del q m.req)) ∧
    GcStep q s.now s (micro cfg (micro cfg s (.srem q m)) (.del q m.req)) := by
  generalize hs2 : micro cfg (micro cfg s (.srem q m)) (.del q m.req) = s2
  have hmem2 : ∀ q', s2.members q' = if q' = q then (s.members q).erase m else s.members q' := by
    intro q'; rw [← hs2]; simp only [del_members, srem_members]
  have hal2 : ∀ q' r', s2.allowed q' r' = if q' = q ∧ r' = m.req then none else s.allowed q' r' := by
    intro q' r'; rw [← hs2]; simp only [del_allowed, srem_allowed]
  have henv : SameEnv s s2 := by rw [← hs2]; exact ⟨by simp, by simp, by simp⟩
  have hframe : ∀ q', q' ≠ q → SameQ q' s s2 := by
    intro q' hq'
    exact ⟨by rw [hmem2]; simp [hq'], by funext r'; rw [hal2]; simp [hq']⟩
  by_cases hin : m ∈ s.members q
  · have hst := hli.jq.has m hin
    have hrel : DecRel m.req q s s2 :=
      .removed m hst (by rw [hmem2]; simp) (by intro r'; rw [hal2]; simp)
    refine ⟨⟨?_, hli.jq.dec hrel, ?_⟩, ⟨?_, ?_, henv, hframe⟩⟩
    · intro m' hm'
      rw [hmem2] at hm'; simp at hm'
      exact hli.mem_sub m' (List.mem_of_mem_erase hm')
    · intro m0 hm0 hnot
      rw [hmem2] at hnot; simp at hnot
      rw [hal2]
      by_cases e : m0.req = m.req
      · simp [e]
      · simp [e]
        by_cases hin0 : m0 ∈ s.members q
        · have hne : m0 ≠ m := fun e2 => e (by rw [e2])
          exact absurd ((List.mem_erase_of_ne hne).mpr hin0) hnot
        · exact hli.gone m0 hm0 hin0
    · rw [hmem2]; simp; exact List.erase_sublist
    · intro m' hm'
      by_cases e : m' = m
      · right; rw [e]; exact he
      · left; rw [hmem2]; simp; exact (List.mem_erase_of_ne e).mpr hm'
  · have hnone := hli.gone m hm hin
    have hsame : SameQ q s s2 := by
      constructor
      · rw [hmem2]; simp; exact hin
      · funext r'
        rw [hal2]
        by_cases e : r' = m.req
        · simp [e, hnone]
        · simp [e]
    refine ⟨⟨?_, hli.jq.of_same hsame, ?_⟩, ⟨?_, ?_, henv, hframe⟩⟩
    · intro m' hm'; rw [hsame.1] at hm'; exact hli.mem_sub m' hm'
    · intro m0 hm0 hnot
      rw [hsame.1] at hnot; rw [hsame.2]; exact hli.gone m0 hm0 hnot
    · rw [hsame.1]; exact List.Sublist.refl _
    · intro m' hm'; left; rw [hsame.1]; exact hm'

/-- The GC loop over a snapshot `ms ⊆ init`: invariant kept, only expired members leave, and none of the members
    it looked at is left expired. -/
theorem gcLoop_spec (cfg : Cfg) (q : Nat) (init : List Member) (ms : List Member) :
    ∀ s, LI q init s → (∀ m ∈ ms, m ∈ init) →
      JQ (gcLoop cfg q ms s) q ∧ GcStep q s.now s (gcLoop cfg q ms s) ∧
      (∀ m ∈ (gcLoop cfg q ms s).members q, m ∈ ms → s.now < m.expiry) := by
  induction ms with
  | nil => intro s hli _; exact ⟨hli.jq, GcStep.refl q s.now s, by intro m _ h; cases h⟩
  | cons m0 rest ih =>
    intro s hli hms
    have hms' : ∀ m ∈ rest, m ∈ init := fun m h => hms m (List.mem_cons_of_mem _ h)
    simp only [gcLoop]
    split
    · rename_i he
      obtain ⟨hli2, hstep⟩ := gc_remove_step cfg q init s m0 hli (hms m0 List.mem_cons_self) he
      obtain ⟨hj, hs, hc⟩ := ih _ hli2 hms'
      have hnow : (micro cfg (micro cfg s (.srem q m0)) (.del q m0.req)).now = s.now := by simp
      rw [hnow] at hs hc
      refine ⟨hj, hstep.trans hs, ?_⟩
      intro m hm hin
      rcases List.mem_cons.mp hin with e | e
      · exfalso
        have h1 := hs.sub.subset hm
        simp only [del_members, srem_members, if_true] at h1
        rw [e] at h1
        exact (List.Nodup.not_mem_erase hli.jq.nodup) h1
      · exact hc m hm e
    · rename_i he
      obtain ⟨hj, hs, hc⟩ := ih s hli hms'
      refine ⟨hj, hs, ?_⟩
      intro m hm hin
      rcases List.mem_cons.mp hin with e | e
      · rw [e]; omega
      · exact hc m hm e

/-- `Done q now s`: nothing in `q`'s set is expired at `now`. -/
def Done (q now : Nat) (s : S) : Prop := ∀ m ∈ s.members q, now < m.expiry

theorem gcQuota_spec (cfg : Cfg) (s : S) (q0 : Nat) (hJ : ∀ q, JQ s q) :
    (∀ q, JQ (gcQuota cfg s q0) q) ∧ GcStep q0 s.now s (gcQuota cfg s q0) ∧
    (cfg.isConc q0 = true → Done q0 s.now (gcQuota cfg s q0)) := by
  simp only [gcQuota]
  split
  · have hli : LI q0 (s.members q0) s := ⟨fun _ h => h, hJ q0, fun m hm hn => absurd hm hn⟩
    obtain ⟨hj, hs, hc⟩ := gcLoop_spec cfg q0 (s.members q0) (s.members q0) s hli (fun _ h => h)
    refine ⟨?_, hs, ?_⟩
    · intro q
      by_cases e : q = q0
      · subst e; exact hj
      · exact (hJ q).of_same (hs.frame q e)
    · intro _ m hm
      exact hc m hm (hs.sub.subset hm)
  · rename_i hc
    exact ⟨hJ, GcStep.refl q0 s.now s, fun h => absurd h hc⟩

/-- What one GC tick (all quotas) does to quota `q`. -/
structure GcQ (q now : Nat) (s s' : S) : Prop where
  sub : (s'.members q).Sublist (s.members q)
  exp : ∀ m ∈ s.members q, m ∈ s'.members q ∨ m.expiry ≤ now

theorem GcStep.toGcQ {q0 now : Nat} {s s' : S} (h : GcStep q0 now s s') (q : Nat) : GcQ q now s s' := by
  by_cases e : q = q0
  · subst e; exact ⟨h.sub, h.exp⟩
  · have f := h.frame q e
    exact ⟨by rw [f.1]; exact List.Sublist.refl _, fun m hm => Or.inl (by rw [f.1]; exact hm)⟩

theorem GcQ.trans {q now : Nat} {s s' s'' : S} (h1 : GcQ q now s s') (h2 : GcQ q now s' s'') : GcQ q now s s'' :=
  ⟨h2.sub.trans h1.sub, fun m hm => by
    rcases h1.exp m hm with h | h
    · exact h2.exp m h
    · exact Or.inr h⟩

theorem gcFold_spec (cfg : Cfg) (qs : List Nat) :
    ∀ s, (∀ q, JQ s q) →
      (∀ q, JQ (qs.foldl (gcQuota cfg) s) q) ∧ (∀ q, GcQ q s.now s (qs.foldl (gcQuota cfg) s)) ∧
      SameEnv s (qs.foldl (gcQuota cfg) s) := by
  induction qs with
  | nil =>
    intro s hJ
    exact ⟨hJ, fun q => ⟨List.Sublist.refl _, fun _ h => Or.inl h⟩, SameEnv.refl s⟩
  | cons q0 rest ih =>
    intro s hJ
    obtain ⟨hJ1, hs1, _⟩ := gcQuota_spec cfg s q0 hJ
    obtain ⟨hJ2, hq2, he2⟩ := ih _ hJ1
    simp only [List.foldl_cons]
    rw [hs1.env.1] at hq2
    exact ⟨hJ2, fun q => (hs1.toGcQ q).trans (hq2 q), hs1.env.trans he2⟩

theorem Done.of_gcq {q now now' : Nat} {s s' : S} (h : Done q now s) (g : GcQ q now' s s') : Done q now s' :=
  fun m hm => h m (g.sub.subset hm)

/-- A GC tick over all quotas leaves nothing expired in a concurrent quota's set. -/
theorem gcFold_complete (cfg : Cfg) (q : Nat) (hc : cfg.isConc q = true) (qs : List Nat) :
    ∀ s, (∀ q', JQ s q') → (q ∈ qs ∨ Done q s.now s) →
      Done q s.now (qs.foldl (gcQuota cfg) s) := by
  induction qs with
  | nil =>
    intro s _ h
    rcases h with h | h
    · cases h
    · exact h
  | cons q0 rest ih =>
    intro s hJ h
    obtain ⟨hJ1, hs1, hd1⟩ := gcQuota_spec cfg s q0 hJ
    have hq1 := hs1.toGcQ q
    have hnow : (gcQuota cfg s q0).now = s.now := hs1.env.1
    simp only [List.foldl_cons]
    have key : Done q s.now (gcQuota cfg s q0) ∨ q ∈ rest := by
      rcases h with h | h
      · rcases List.mem_cons.mp h with e | e
        · left; subst e; exact hd1 hc
        · right; exact e
      · left; exact h.of_gcq hq1
    have := ih (gcQuota cfg s q0) hJ1 (by
      rw [hnow]
      rcases key with k | k
      · exact Or.inr k
      · exact Or.inl k)
    rw [hnow] at this
    exact this

/-- One GC tick at its due instant. -/
def oneTick (cfg : Cfg) (s : S) : S :=
  let s1 := gcAll cfg (micro cfg s (.clock s.nextGC s.nextGC))
  micro cfg s1 (.clock s1.now (s1.nextGC + cfg.gc))

theorem tickN_succ (cfg : Cfg) (k : Nat) (s : S) : tickN cfg (k + 1) s = tickN cfg k (oneTick cfg s) := rfl

theorem GcQ.mono {q now now' : Nat} {s s' : S} (h : GcQ q now s s') (hle : now ≤ now') : GcQ q now' s s' :=
  ⟨h.sub, fun m hm => (h.exp m hm).imp id (fun e => Nat.le_trans e hle)⟩

theorem oneTick_spec (cfg : Cfg) (s : S) (hJ : ∀ q, JQ s q) :
    (∀ q, JQ (oneTick cfg s) q) ∧
    (∀ q, GcQ q s.nextGC s (oneTick cfg s)) ∧
    (oneTick cfg s).nextGC = s.nextGC + cfg.gc ∧
    (oneTick cfg s).now = s.nextGC ∧
    (oneTick cfg s).rm = s.rm ∧
    (∀ q, cfg.isConc q = true → Done q s.nextGC (oneTick cfg s)) := by
  simp only [oneTick]
  generalize hs0 : micro cfg s (.clock s.nextGC s.nextGC) = s0
  have hJ0 : ∀ q, JQ s0 q := fun q => (hJ q).of_same (by rw [← hs0]; exact ⟨rfl, rfl⟩)
  have hnow0 : s0.now = s.nextGC := by rw [← hs0]; rfl
  have hnext0 : s0.nextGC = s.nextGC := by rw [← hs0]; rfl
  have hmem0 : s0.members = s.members := by rw [← hs0]; rfl
  have hrm0 : s0.rm = s.rm := by rw [← hs0]; rfl
  obtain ⟨hJ1, hq1, he1⟩ := gcFold_spec cfg (List.range cfg.quotas.length) s0 hJ0
  rw [hnow0] at hq1
  refine ⟨fun q => (hJ1 q).of_same ⟨rfl, rfl⟩, ?_, ?_, ?_, ?_, ?_⟩
  · intro q
    have := hq1 q
    exact ⟨by simpa [hmem0, gcAll] using this.sub, by simpa [hmem0, gcAll] using this.exp⟩
  · show (gcAll cfg s0).nextGC + cfg.gc = _
    simp only [gcAll]; rw [he1.2.1, hnext0]
  · show (gcAll cfg s0).now = _
    simp only [gcAll]; rw [he1.1, hnow0]
  · show (gcAll cfg s0).rm = _
    simp only [gcAll]; rw [he1.2.2, hrm0]
  · intro q hc
    have := gcFold_complete cfg q hc (List.range cfg.quotas.length) s0 hJ0
      (Or.inl (List.mem_range.mpr (isConc_lt cfg q hc)))
    rw [hnow0] at this
    exact this

/-- `k + 1` GC ticks, the last at `s.nextGC + k * gc`. -/
theorem tickN_spec (cfg : Cfg) (k : Nat) :
    ∀ s, (∀ q, JQ s q) →
      (∀ q, JQ (tickN cfg (k + 1) s) q) ∧
      (∀ q, GcQ q (s.nextGC + k * cfg.gc) s (tickN cfg (k + 1) s)) ∧
      (tickN cfg (k + 1) s).nextGC = s.nextGC + (k + 1) * cfg.gc ∧
      (tickN cfg (k + 1) s).rm = s.rm ∧
      (∀ q, cfg.isConc q = true → Done q (s.nextGC + k * cfg.gc) (tickN cfg (k + 1) s)) := by
  induction k with
  | zero =>
    intro s hJ
    obtain ⟨h1, h2, h3, _, h5, h6⟩ := oneTick_spec cfg s hJ
    rw [tickN_succ]
    simp only [tickN, Nat.zero_mul, Nat.add_zero, Nat.zero_add, Nat.one_mul]
    exact ⟨h1, h2, h3, h5, h6⟩
  | succ k ih =>
    intro s hJ
    obtain ⟨h1, h2, h3, _, h5, _⟩ := oneTick_spec cfg s hJ
    obtain ⟨i1, i2, i3, i4, i5⟩ := ih (oneTick cfg s) h1
    rw [tickN_succ]
    have hlast : (oneTick cfg s).nextGC + k * cfg.gc = s.nextGC + (k + 1) * cfg.gc := by
      rw [h3, Nat.succ_mul]; omega
    rw [hlast] at i2 i5
    refine ⟨i1, ?_, ?_, ?_, ?_⟩
    · intro q
      exact ((h2 q).mono (Nat.le_add_right _ _)).trans (i2 q)
    · rw [i3, h3, Nat.succ_mul (k + 1)]; omega
    · rw [i4, h5]
    · intro q hc
      exact i5 q hc



theorem wf_sysDecs (cfg : Cfg) (hwf : cfg.wf = true) (q : Nat) (hq : cfg.isConc q = true) :
    q ∈ cfg.sysDecs := by
  simp only [Cfg.wf, Bool.and_eq_true, List.all_eq_true, List.mem_range, Bool.or_eq_true,
    Bool.not_eq_true', List.contains_iff_mem] at hwf
  rcases hwf.1.2 q (isConc_lt cfg q hq) with h | h
  · rw [hq] at h; cases h
  · exact h

/-! ### Complete release -/

theorem decList_clears (cfg : Cfg) (hwf : cfg.wf = true) (qs : List Nat) (r : Nat) :
    ∀ s, ∀ q0 ∈ qs, cfg.isConc q0 = true → ∀ q ∈ cfg.chainOf q0, (decList cfg qs s r).allowed q r = none := by
  induction qs with
  | nil => intro s q0 h; cases h
  | cons q1 rest ih =>
    intro s q0 hq0 hc q hq
    simp only [decList]
    rcases List.mem_cons.mp hq0 with e | e
    · subst e
      simp only [hc, if_true]
      obtain ⟨hnd, _⟩ := wf_chain cfg hwf q0 hc
      have h1 := decChain_clears cfg (cfg.chainOf q0) r hnd s q hq
      exact (decList_rel cfg hwf rest r q _).1.keeps_none h1
    · exact ih _ q0 e hc q hq

theorem sysDec_clears (cfg : Cfg) (hwf : cfg.wf = true) (qs : List Nat) (r : Nat) :
    ∀ s, ∀ q0 ∈ qs, cfg.isConc q0 = true → (sysDec cfg qs s r).allowed q0 r = none := by
  induction qs with
  | nil => intro s q0 h; cases h
  | cons q1 rest ih =>
    intro s q0 hq0 hc
    simp only [sysDec]
    rcases List.mem_cons.mp hq0 with e | e
    · subst e
      simp only [hc, if_true]
      obtain ⟨hnd, _⟩ := wf_chain cfg hwf q0 hc
      obtain ⟨tl, htl⟩ := chainOf_head cfg q0
      have h1 := decChain_clears cfg (cfg.chainOf q0) r hnd (micro cfg s (.rmSet r q0)) q0
        (by rw [htl]; exact List.mem_cons_self)
      exact (sysDec_rel cfg hwf rest r q0 _).1.keeps_none h1
    · exact ih _ q0 e hc

theorem holds_of_subset (r : Nat) (l l' : List Member) (h : ∀ m ∈ l', m ∈ l)
    (hs : holdsSlot r l' = true) : holdsSlot r l = true := by
  simp only [holdsSlot, List.any_eq_true] at hs ⊢
  obtain ⟨m, hm, hr⟩ := hs
  exact ⟨m, h m hm, hr⟩

theorem DecRel.subset {r q : Nat} {s s' : S} (h : DecRel r q s s') : ∀ m ∈ s'.members q, m ∈ s.members q := by
  cases h with
  | same e => intro m hm; rw [← e.1]; exact hm
  | removed m0 _ hm _ => intro m h; rw [hm] at h; exact List.mem_of_mem_erase h

/-- `r`'s slots are on chains of quotas `r` touched. -/
def HeldR (cfg : Cfg) (r : Nat) (s : S) : Prop :=
  ∀ q, cfg.isConc q = true → holdsSlot r (s.members q) = true →
    ∃ q0 ∈ s.rm r, cfg.isConc q0 = true ∧ q ∈ cfg.chainOf q0

theorem touch_held (cfg : Cfg) (s : S) (r q0 : Nat) (h : HeldR cfg r s) :
    HeldR cfg r (micro cfg s (.rmSet r q0)) := by
  intro q hc hh
  rw [rmSet_members] at hh
  obtain ⟨q1, h1, h2, h3⟩ := h q hc hh
  exact ⟨q1, (rmSet_mono cfg s r q0).1.2 q1 h1, h2, h3⟩

theorem others_idem (r : Nat) (l : List Member) : others r (others r l) = others r l := by
  simp [others, List.filter_filter]

/-- `OnRequestDrop` removes exactly `r`'s members from every concurrent quota: every quota in which `r` holds a
    slot is on the chain of a quota `r` touched. -/
theorem drop_exact' (cfg : Cfg) (hwf : cfg.wf = true) (s : S) (r : Nat) (hJ : ∀ q, JQ s q) (hH : HeldR cfg r s)
    (q : Nat) (hc : cfg.isConc q = true) :
    (drop cfg s r).members q = others r (s.members q) := by
  apply dec_exact (hJ q) (drop_rel cfg hwf s r q).1
  intro hsome
  obtain ⟨q0, hq0, hc0, hq⟩ := hH q hc (((hJ q).holds_iff r).mpr hsome)
  simp only [drop]
  exact decList_clears cfg hwf (s.rm r) r _ q0 hq0 hc0 q hq

theorem sysDec_held (cfg : Cfg) (hwf : cfg.wf = true) (qs : List Nat) (r : Nat) :
    ∀ s, HeldR cfg r s → HeldR cfg r (sysDec cfg qs s r) := by
  induction qs with
  | nil => intro s h; exact h
  | cons q0 rest ih =>
    intro s h
    simp only [sysDec]
    have h0 := touch_held cfg s r q0 h
    split
    · rename_i hc
      apply ih
      obtain ⟨hnd, _⟩ := wf_chain cfg hwf q0 hc
      intro q hcq hh
      have hrel := decChain_rel cfg (cfg.chainOf q0) r q hnd (micro cfg s (.rmSet r q0))
      rw [(decChain_env cfg (cfg.chainOf q0) r _).2.2]
      exact h0 q hcq (holds_of_subset r _ _ hrel.subset hh)
    · exact ih _ h0

/-- A response (system end flows that match, then `OnResponseFinish` releasing every touched quota) removes exactly
    `r`'s members from every concurrent quota. -/
theorem endFlows_exact (cfg : Cfg) (hwf : cfg.wf = true) (s : S) (r : Nat) (tx : Tx) (hJ : ∀ q, JQ s q)
    (hH : HeldR cfg r s) (q : Nat) (hc : cfg.isConc q = true) :
    (endFlows cfg s r tx).members q = others r (s.members q) := by
  have hrel := fun q' => (sysDec_rel cfg hwf (cfg.sysDecsFor tx) r q' s).1
  have hJ1 : ∀ q', JQ (sysDec cfg (cfg.sysDecsFor tx) s r) q' := fun q' => (hJ q').dec (hrel q')
  simp only [endFlows]
  rw [drop_exact' cfg hwf _ r hJ1 (sysDec_held cfg hwf _ r s hH) q hc]
  cases hrel q with
  | same e => rw [e.1]
  | removed m hs hm _ => rw [hm, (hJ q).erase_eq_others hs, others_idem]

/-! ### The invariant between events, and the tracker -/

structure Inv (cfg : Cfg) (s : S) : Prop where
  reach : Reach cfg s
  jq : ∀ q, JQ s q
  held : ∀ r q, cfg.isConc q = true → holdsSlot r (s.members q) = true →
    ∃ q0 ∈ s.rm r, cfg.isConc q0 = true ∧ q ∈ cfg.chainOf q0

theorem Inv.init (cfg : Cfg) : Inv cfg (S.init cfg) :=
  ⟨.init, JQ.init cfg, by intro r q _ h; simp [S.init, holdsSlot] at h⟩

theorem drop_exact (cfg : Cfg) (hwf : cfg.wf = true) (s : S) (r : Nat) (hI : Inv cfg s)
    (q : Nat) (hc : cfg.isConc q = true) :
    (drop cfg s r).members q = others r (s.members q) :=
  drop_exact' cfg hwf s r hI.jq (hI.held r) q hc

def Tracks (t : Tracker) (s : S) : Prop := t.now = s.now ∧ t.nextGC = s.nextGC ∧ t.snap = s.members

theorem Tracks.init (cfg : Cfg) : Tracks (Tracker.init cfg) (S.init cfg) := ⟨rfl, rfl, rfl⟩

theorem stepOk_intro (cfg : Cfg) (t : Tracker) (o : Obs)
    (h1 : ∀ q, cfg.isConc q = true → quotaOk cfg t o q = true) (h2 : refusalOk cfg t o = true) :
    stepOk cfg t o = true := by
  simp only [stepOk, Bool.and_eq_true, List.all_eq_true, Bool.or_eq_true, Bool.not_eq_true']
  refine ⟨?_, h2⟩
  intro q _
  cases hc : cfg.isConc q with
  | false => left; rfl
  | true => right; exact h1 q hc

theorem stepOk_elim (cfg : Cfg) (t : Tracker) (o : Obs) (h : stepOk cfg t o = true) (q : Nat)
    (hc : cfg.isConc q = true) : quotaOk cfg t o q = true := by
  simp only [stepOk, Bool.and_eq_true, List.all_eq_true, Bool.or_eq_true, Bool.not_eq_true'] at h
  rcases h.1 q (List.mem_range.mpr (isConc_lt cfg q hc)) with h' | h'
  · rw [hc] at h'; cases h'
  · exact h'

theorem snapOk_of (cfg : Cfg) (s : S) (q : Nat) (hr : Reach cfg s) (hj : JQ s q) :
    snapOk cfg q (s.members q) = true := by
  simp only [snapOk, Bool.and_eq_true, decide_eq_true_eq]
  exact ⟨bounded_reach cfg s hr q, hj.reqs_nodup⟩

theorem IncRel.subset {cfg : Cfg} {r now q : Nat} {s s' : S} (h : IncRel cfg r now q s s') :
    ∀ m ∈ s'.members q, m ∈ s.members q ∨ m.req = r := by
  cases h with
  | same e => intro m hm; left; rw [← e.1]; exact hm
  | added _ _ hm _ =>
    intro m h; rw [hm] at h
    rcases List.mem_append.mp h with h | h
    · left; exact h
    · right; simp at h; rw [h]

theorem holds_eq_of_mem_others (r : Nat) (a b : List Member) (h : a = others r b) : holdsSlot r a = false := by
  rw [h]; exact holds_others_false r b

/-- What the main induction needs from one event. -/
def StepGoal (cfg : Cfg) (t : Tracker) (s : S) (e : Event) : Prop :=
  Tracks (t.next cfg ⟨e, (event cfg s e).2, (event cfg s e).1.members⟩) (event cfg s e).1 ∧
  Inv cfg (event cfg s e).1 ∧
  stepOk cfg t ⟨e, (event cfg s e).2, (event cfg s e).1.members⟩ = true

/-- A release event for `r` keeps the `held` invariant: `r` holds nothing afterwards, the others hold no more
    than before and keep their `reqIDToQuota` entry. -/
theorem held_after_release (cfg : Cfg) (s s' : S) (r : Nat) (hI : Inv cfg s)
    (hsub : ∀ q r', r' ≠ r → holdsSlot r' (s'.members q) = true → holdsSlot r' (s.members q) = true)
    (hrm : ∀ r', r' ≠ r → s'.rm r' = s.rm r')
    (hfree : ∀ q, cfg.isConc q = true → holdsSlot r (s'.members q) = false) :
    ∀ r' q, cfg.isConc q = true → holdsSlot r' (s'.members q) = true →
      ∃ q0 ∈ s'.rm r', cfg.isConc q0 = true ∧ q ∈ cfg.chainOf q0 := by
  intro r' q hc hh
  by_cases e : r' = r
  · subst e; rw [hfree q hc] at hh; cases hh
  · rw [hrm r' e]; exact hI.held r' q hc (hsub q r' e hh)

/-! ### Response and proxy error -/

theorem step_resp (cfg : Cfg) (hwf : cfg.wf = true) (t : Tracker) (s : S) (r : Nat) (tx : Tx)
    (hI : Inv cfg s) (hT : Tracks t s) : StepGoal cfg t s (.resp r tx) := by
  obtain ⟨tn, tg, ts⟩ := hT
  have hrel := fun q => (endFlows_rel cfg hwf s r tx q).1
  have hclk := (endFlows_rel cfg hwf s r tx 0).2
  have hJ' : ∀ q, JQ (endFlows cfg s r tx) q := fun q => (hI.jq q).dec (hrel q)
  have hreach' : Reach cfg (endFlows cfg s r tx) := reach_endFlows cfg s r tx hI.reach
  have hex := endFlows_exact cfg hwf s r tx hI.jq (hI.held r)
  refine ⟨?_, ⟨hreach', hJ', ?_⟩, ?_⟩
  · exact ⟨by simp [event, respEvent, Tracker.next, tn, hclk.1], by simp [event, respEvent, Tracker.next, tg, hclk.2],
      by simp [event, respEvent, Tracker.next]⟩
  · apply held_after_release cfg s (endFlows cfg s r tx) r hI
    · intro q r' _ hh; exact holds_of_subset r' _ _ (hrel q).subset hh
    · intro r' e; rw [endFlows_rm cfg hwf]; simp [e]
    · intro q hc; exact holds_eq_of_mem_others r _ _ (hex q hc)
  · apply stepOk_intro
    · intro q hc
      simp only [quotaOk, event, respEvent, Bool.and_eq_true, beq_iff_eq]
      refine ⟨snapOk_of cfg _ q hreach' (hJ' q), ?_, trivial⟩
      rw [ts]; exact hex q hc
    · simp [refusalOk, event]

theorem step_err (cfg : Cfg) (hwf : cfg.wf = true) (t : Tracker) (s : S) (r : Nat)
    (hI : Inv cfg s) (hT : Tracks t s) : StepGoal cfg t s (.err r) := by
  obtain ⟨tn, tg, ts⟩ := hT
  have hrel := fun q => (drop_rel cfg hwf s r q).1
  have hclk := (drop_rel cfg hwf s r 0).2
  have hJ' : ∀ q, JQ (drop cfg s r) q := fun q => (hI.jq q).dec (hrel q)
  have hreach' : Reach cfg (drop cfg s r) := reach_drop cfg s r hI.reach
  have hex := drop_exact cfg hwf s r hI
  refine ⟨?_, ⟨hreach', hJ', ?_⟩, ?_⟩
  · exact ⟨by simp [event, errEvent, Tracker.next, tn, hclk.1], by simp [event, errEvent, Tracker.next, tg, hclk.2],
      by simp [event, errEvent, Tracker.next]⟩
  · apply held_after_release cfg s (drop cfg s r) r hI
    · intro q r' _ hh; exact holds_of_subset r' _ _ (hrel q).subset hh
    · intro r' e; rw [drop_rm cfg hwf]; simp [e]
    · intro q hc; exact holds_eq_of_mem_others r _ _ (hex q hc)
  · apply stepOk_intro
    · intro q hc
      simp only [quotaOk, event, errEvent, Bool.and_eq_true, beq_iff_eq]
      refine ⟨snapOk_of cfg _ q hreach' (hJ' q), ?_, trivial⟩
      rw [ts]; exact hex q hc
    · simp [refusalOk, event]

/-! ### Clock advance with GC ticks -/

theorem step_adv (cfg : Cfg) (t : Tracker) (s : S) (d : Nat)
    (hI : Inv cfg s) (hT : Tracks t s) : StepGoal cfg t s (.adv d) := by
  obtain ⟨tn, tg, ts⟩ := hT
  have hreach' : Reach cfg (advance cfg s d) := reach_event cfg s (.adv d) hI.reach
  simp only [StepGoal, event]
  cases hk : dueCount s.nextGC cfg.gc (s.now + d) with
  | zero =>
    have hadv : advance cfg s d = micro cfg s (.clock (s.now + d) s.nextGC) := by
      simp [advance, hk, tickN]
    have hlt : t.lastTick cfg d = none := by simp [Tracker.lastTick, tn, tg, hk]
    have hmem : (advance cfg s d).members = s.members := by rw [hadv]; rfl
    have hInv : Inv cfg (advance cfg s d) := by
      refine ⟨hreach', ?_, ?_⟩
      · intro q; exact (hI.jq q).of_same (by rw [hadv]; exact ⟨rfl, rfl⟩)
      · intro r q hc hh; rw [hadv] at hh ⊢; exact hI.held r q hc hh
    refine ⟨?_, hInv, ?_⟩
    · refine ⟨?_, ?_, rfl⟩
      · simp [Tracker.next, tn, hadv, micro]
      · simp [Tracker.next, tn, tg, hk, hadv, micro]
    · apply stepOk_intro
      · intro q hc
        simp only [quotaOk, hlt, Bool.and_eq_true, beq_iff_eq]
        refine ⟨snapOk_of cfg _ q hreach' (hInv.jq q), by simp, ?_⟩
        rw [hmem, ts]
      · simp [refusalOk]
  | succ k =>
    obtain ⟨hJ1, hq1, hn1, hrm1, hd1⟩ := tickN_spec cfg k s hI.jq
    have hadv : advance cfg s d =
        micro cfg (tickN cfg (k + 1) s) (.clock (s.now + d) (tickN cfg (k + 1) s).nextGC) := by
      simp [advance, hk]
    have hlt : t.lastTick cfg d = some (s.nextGC + k * cfg.gc) := by simp [Tracker.lastTick, tn, tg, hk]
    have hmem : (advance cfg s d).members = (tickN cfg (k + 1) s).members := by rw [hadv]; rfl
    have hInv : Inv cfg (advance cfg s d) := by
      refine ⟨hreach', ?_, ?_⟩
      · intro q; exact (hJ1 q).of_same (by rw [hadv]; exact ⟨rfl, rfl⟩)
      · intro r q hc hh
        have hrm : (advance cfg s d).rm = s.rm := by rw [hadv]; exact hrm1
        rw [hrm]
        rw [hmem] at hh
        exact hI.held r q hc (holds_of_subset r _ _ (fun m hm => (hq1 q).sub.subset hm) hh)
    refine ⟨?_, hInv, ?_⟩
    · refine ⟨?_, ?_, rfl⟩
      · simp [Tracker.next, tn, hadv, micro]
      · simp only [Tracker.next, tn, tg, hk]; rw [hadv]; exact hn1.symm
    · apply stepOk_intro
      · intro q hc
        simp only [quotaOk, hlt, Bool.and_eq_true, beq_iff_eq, List.all_eq_true, Bool.or_eq_true,
          decide_eq_true_eq, List.contains_iff_mem]
        rw [hmem, ts]
        refine ⟨snapOk_of cfg _ q (reach_tickN cfg (k + 1) s hI.reach) (hJ1 q), by simp, ⟨?_, ?_⟩, ?_⟩
        · exact List.isSublist_iff_sublist.mpr (hq1 q).sub
        · intro m hm; exact (hq1 q).exp m hm
        · intro m hm; exact hd1 q hc m hm
      · simp [refusalOk]


/-! ### Request -/

theorem wf_fixed_chain (cfg : Cfg) (hwf : cfg.wf = true) (q0 : Nat) (hlt : q0 < cfg.quotas.length)
    (hf : cfg.isConc q0 = false) : cfg.chainOf q0 = [q0] := by
  simp only [Cfg.wf, Bool.and_eq_true, List.all_eq_true, List.mem_range, Bool.or_eq_true,
    Option.isNone_iff_eq_none] at hwf
  rcases hwf.2 q0 hlt with h | h
  · rw [hf] at h; cases h
  · simp [Cfg.chainOf, chainFuel, h]

theorem wf_order_lt (cfg : Cfg) (hwf : cfg.wf = true) (q0 : Nat) (h : q0 ∈ cfg.order) : q0 < cfg.quotas.length := by
  simp only [Cfg.wf, Bool.and_eq_true, List.all_eq_true, decide_eq_true_eq] at hwf
  exact hwf.1.1.2 q0 h

theorem mem_concPath (cfg : Cfg) (hwf : cfg.wf = true) (q : Nat) (h : cfg.concPath.contains q = true) :
    ∃ q0 ∈ cfg.order, cfg.isConc q0 = true ∧ q ∈ cfg.chainOf q0 := by
  simp only [Cfg.concPath, List.contains_iff_mem, List.mem_filter, List.mem_flatMap] at h
  obtain ⟨⟨q0, h1, h3⟩, hc⟩ := h
  refine ⟨q0, h1, ?_, h3⟩
  cases hq0 : cfg.isConc q0 with
  | true => rfl
  | false =>
    rw [wf_fixed_chain cfg hwf q0 (wf_order_lt cfg hwf q0 h1) hq0] at h3
    simp at h3; subst h3; rw [hq0] at hc; cases hc

theorem concPath_intro (cfg : Cfg) (hwf : cfg.wf = true) (q0 q : Nat) (h0 : q0 ∈ cfg.order)
    (hc0 : cfg.isConc q0 = true) (hq : q ∈ cfg.chainOf q0) : q ∈ cfg.concPath := by
  simp only [Cfg.concPath, List.mem_filter, List.mem_flatMap]
  exact ⟨⟨q0, h0, hq⟩, (wf_chain cfg hwf q0 hc0).2 q hq⟩

/-- `GetQuota(q0, r)` followed by chain work on `chainOf q0` keeps `HeldR`. -/
theorem chain_held (cfg : Cfg) (s s1 : S) (r q0 : Nat) (hc0 : cfg.isConc q0 = true) (h : HeldR cfg r s)
    (hrm : s1.rm = (micro cfg s (.rmSet r q0)).rm)
    (hframe : ∀ q, q ∉ cfg.chainOf q0 → SameQ q (micro cfg s (.rmSet r q0)) s1) : HeldR cfg r s1 := by
  intro q hc hh
  rw [hrm]
  by_cases hin : q ∈ cfg.chainOf q0
  · exact ⟨q0, (rmSet_mono cfg s r q0).2, hc0, hin⟩
  · rw [(hframe q hin).1] at hh
    exact touch_held cfg s r q0 h q hc hh

theorem limiter_held (cfg : Cfg) (s : S) (q0 r : Nat) (h : HeldR cfg r s) :
    HeldR cfg r (limiter cfg s q0 r).1 ∧ RmMono r s (limiter cfg s q0 r).1 := by
  have hm := (rmSet_mono cfg s r q0).1
  simp only [limiter]
  split
  · rename_i hc
    have e1 := incChain_env cfg (cfg.chainOf q0) r (micro cfg s (.rmSet r q0))
    have e2 := allowedChain_env cfg (cfg.chainOf q0) r (incChain cfg (cfg.chainOf q0) (micro cfg s (.rmSet r q0)) r)
    have hrm := e2.2.2.trans e1.2.2
    refine ⟨chain_held cfg s _ r q0 hc h hrm ?_, hm.trans (RmMono.of_eq hrm)⟩
    intro q hq
    exact (incChain_frame cfg _ r q hq _).trans (allowedChain_frame cfg _ r q hq _)
  · exact ⟨touch_held cfg s r q0 h, hm⟩

theorem userFlow_held (cfg : Cfg) (order : List Nat) (r : Nat) :
    ∀ s, HeldR cfg r s → HeldR cfg r (userFlow cfg order s r).1 ∧ RmMono r s (userFlow cfg order s r).1 := by
  induction order with
  | nil => intro s h; exact ⟨h, RmMono.refl r s⟩
  | cons q rest ih =>
    intro s h
    obtain ⟨h1, m1⟩ := limiter_held cfg s q r h
    simp only [userFlow]
    split
    · obtain ⟨h2, m2⟩ := ih _ h1
      exact ⟨h2, m1.trans m2⟩
    · exact ⟨h1, m1⟩

theorem sysInc_held (cfg : Cfg) (qs : List Nat) (r : Nat) :
    ∀ s, HeldR cfg r s → HeldR cfg r (sysInc cfg qs s r) ∧ RmMono r s (sysInc cfg qs s r) := by
  induction qs with
  | nil => intro s h; exact ⟨h, RmMono.refl r s⟩
  | cons q0 rest ih =>
    intro s h
    have hm := (rmSet_mono cfg s r q0).1
    simp only [sysInc]
    split
    · rename_i hc
      have e1 := incChain_env cfg (cfg.chainOf q0) r (micro cfg s (.rmSet r q0))
      have h1 := chain_held cfg s _ r q0 hc h e1.2.2 (fun q hq => incChain_frame cfg _ r q hq _)
      obtain ⟨h2, m2⟩ := ih _ h1
      exact ⟨h2, (hm.trans (RmMono.of_eq e1.2.2)).trans m2⟩
    · obtain ⟨h2, m2⟩ := ih _ (touch_held cfg s r q0 h)
      exact ⟨h2, hm.trans m2⟩

theorem incPhase_held (cfg : Cfg) (s : S) (r : Nat) (tx : Tx) (h : HeldR cfg r s) :
    HeldR cfg r (incPhase cfg s r tx).1 ∧ RmMono r s (incPhase cfg s r tx).1 := by
  obtain ⟨h1, m1⟩ := sysInc_held cfg (cfg.sysStartFor tx) r s h
  obtain ⟨h2, m2⟩ := userFlow_held cfg cfg.order r _ h1
  exact ⟨h2, m1.trans m2⟩

/-- Invariant after the `Inc` phase of a request (also the final state of an admitted request). -/
theorem inv_incPhase (cfg : Cfg) (hwf : cfg.wf = true) (s : S) (r : Nat) (tx : Tx) (hI : Inv cfg s) :
    Inv cfg (incPhase cfg s r tx).1 := by
  have hinc := fun q => (incPhase_rel cfg hwf s r tx q).1
  obtain ⟨hheld, hmono⟩ := incPhase_held cfg s r tx (hI.held r)
  refine ⟨reach_userFlow cfg _ r _ (reach_sysInc cfg _ r s hI.reach), fun q => (hI.jq q).inc (hinc q), ?_⟩
  intro r' q hc hh
  by_cases e : r' = r
  · subst e; exact hheld q hc hh
  · rw [hmono.1 r' e]
    apply hI.held r' q hc
    simp only [holdsSlot, List.any_eq_true, beq_iff_eq] at hh ⊢
    obtain ⟨m, hm, hr⟩ := hh
    rcases (hinc q).subset m hm with h | h
    · exact ⟨m, h, hr⟩
    · exact absurd (hr.symm.trans h) e

theorem step_req (cfg : Cfg) (hwf : cfg.wf = true) (t : Tracker) (s : S) (r : Nat) (tx : Tx)
    (hI : Inv cfg s) (hT : Tracks t s) : StepGoal cfg t s (.req r tx) := by
  obtain ⟨tn, tg, ts⟩ := hT
  have hinc := fun q => (incPhase_rel cfg hwf s r tx q).1
  have hclkM := (incPhase_rel cfg hwf s r tx 0).2
  have hIM := inv_incPhase cfg hwf s r tx hI
  have hdrop := fun q => (drop_rel cfg hwf (incPhase cfg s r tx).1 r q).1
  have hclkD := (drop_rel cfg hwf (incPhase cfg s r tx).1 r 0).2
  have hend := fun q => (endFlows_rel cfg hwf (drop cfg (incPhase cfg s r tx).1 r) r tx q).1
  have hclkF := (endFlows_rel cfg hwf (drop cfg (incPhase cfg s r tx).1 r) r tx 0).2
  have hdec := fun q => (hdrop q).trans (hend q)
  have hJD : ∀ q, JQ (drop cfg (incPhase cfg s r tx).1 r) q := fun q => (hIM.jq q).dec (hdrop q)
  have hJF : ∀ q, JQ (endFlows cfg (drop cfg (incPhase cfg s r tx).1 r) r tx) q := fun q => (hJD q).dec (hend q)
  have hreachF : Reach cfg (endFlows cfg (drop cfg (incPhase cfg s r tx).1 r) r tx) :=
    reach_endFlows cfg _ r tx (reach_drop cfg _ r hIM.reach)
  have hHD : HeldR cfg r (drop cfg (incPhase cfg s r tx).1 r) := by
    intro q hc hh
    rw [drop_exact cfg hwf _ r hIM q hc, holds_others_false] at hh; cases hh
  have hfree : ∀ q, cfg.isConc q = true →
      holdsSlot r ((endFlows cfg (drop cfg (incPhase cfg s r tx).1 r) r tx).members q) = false :=
    fun q hc => holds_eq_of_mem_others r _ _ (endFlows_exact cfg hwf _ r tx hJD hHD q hc)
  have hrmF : ∀ r', r' ≠ r → (endFlows cfg (drop cfg (incPhase cfg s r tx).1 r) r tx).rm r' = s.rm r' := by
    intro r' e
    rw [endFlows_rm cfg hwf]; simp [e]; rw [drop_rm cfg hwf]; simp [e]
    exact (incPhase_held cfg s r tx (hI.held r)).2.1 r' e
  have hInvF : Inv cfg (endFlows cfg (drop cfg (incPhase cfg s r tx).1 r) r tx) := by
    refine ⟨hreachF, hJF, ?_⟩
    apply held_after_release cfg s _ r hI
    · intro q r' e hh
      simp only [holdsSlot, List.any_eq_true, beq_iff_eq] at hh ⊢
      obtain ⟨m, hm, hr⟩ := hh
      rcases (hinc q).subset m ((hdec q).subset m hm) with h | h
      · exact ⟨m, h, hr⟩
      · exact absurd (hr.symm.trans h) e
    · exact hrmF
    · exact hfree
  have hreleased : ∀ v : Verdict, (v = .refused ∨ v = .early) →
      (v = .refused → (incPhase cfg s r tx).2 = false) →
      Tracks (t.next cfg ⟨.req r tx, v, (endFlows cfg (drop cfg (incPhase cfg s r tx).1 r) r tx).members⟩)
        (endFlows cfg (drop cfg (incPhase cfg s r tx).1 r) r tx) ∧
      Inv cfg (endFlows cfg (drop cfg (incPhase cfg s r tx).1 r) r tx) ∧
      stepOk cfg t ⟨.req r tx, v, (endFlows cfg (drop cfg (incPhase cfg s r tx).1 r) r tx).members⟩ = true := by
    intro v hv hvf
    refine ⟨?_, hInvF, ?_⟩
    · exact ⟨by simp [Tracker.next, tn, hclkM.1, hclkD.1, hclkF.1],
        by simp [Tracker.next, tg, hclkM.2, hclkD.2, hclkF.2], by simp [Tracker.next]⟩
    · apply stepOk_intro
      · intro q hc
        simp only [quotaOk, Bool.and_eq_true, Bool.or_eq_true, beq_iff_eq]
        refine ⟨snapOk_of cfg _ q hreachF (hJF q), ?_, ?_⟩
        · rw [ts, tn]
          rcases shape (hI.jq q) (hinc q) (hdec q) with h | h | h
          · left; left; exact h
          · left; right; exact h
          · right; exact h
        · rcases hv with e | e <;> subst e <;> simp [hfree q hc]
      · rcases hv with e | e
        · subst e
          simp only [refusalOk, Bool.or_eq_true, List.any_eq_true, decide_eq_true_eq]
          left
          obtain ⟨q0, hq0, hc0, q, hq, h1, h2⟩ := userFlow_false cfg hwf cfg.order r _ (hvf rfl)
          refine ⟨q, ?_, ?_⟩
          · exact concPath_intro cfg hwf q0 q hq0 hc0 hq
          · rw [ts]
            cases hinc q with
            | same e => rw [← e.1]; exact h2
            | added _ _ _ ha =>
              have := ha r
              simp at this
              rw [show (incPhase cfg s r tx).1.allowed q r =
                (userFlow cfg cfg.order (sysInc cfg (cfg.sysStartFor tx) s r) r).1.allowed q r from rfl, h1] at this
              cases this
        · subst e; simp [refusalOk]
  simp only [StepGoal, event]
  rw [reqEvent_eq]
  cases hok : (incPhase cfg s r tx).2 with
  | false =>
    simp only [Bool.not_false, if_true]
    exact hreleased .refused (Or.inl rfl) (fun _ => hok)
  | true =>
    simp only [Bool.not_true, Bool.false_eq_true, if_false]
    split
    · exact hreleased .early (Or.inr rfl) (fun h => by cases h)
    · refine ⟨?_, hIM, ?_⟩
      · exact ⟨by simp [Tracker.next, tn, hclkM.1], by simp [Tracker.next, tg, hclkM.2], by simp [Tracker.next]⟩
      · apply stepOk_intro
        · intro q hc
          simp only [quotaOk, Bool.and_eq_true, Bool.or_eq_true, beq_iff_eq, Bool.not_eq_true']
          refine ⟨snapOk_of cfg _ q hIM.reach (hIM.jq q), ?_, ?_⟩
          · rw [ts, tn]
            cases hinc q with
            | same e => left; left; exact e.1
            | added _ _ hm _ => right; exact hm
          · cases hcp : cfg.concPath.contains q with
            | false => left; rfl
            | true =>
              right
              obtain ⟨q0, hq0, hc0, hq⟩ := mem_concPath cfg hwf q hcp
              have := userFlow_true cfg hwf cfg.order r _ hok q0 hq0 hc0 q hq
              exact ((hIM.jq q).holds_iff r).mpr this
        · simp [refusalOk]

/-! ### The connection: the Spec holds on every model run -/

theorem step_event (cfg : Cfg) (hwf : cfg.wf = true) (t : Tracker) (s : S) (e : Event)
    (hI : Inv cfg s) (hT : Tracks t s) : StepGoal cfg t s e := by
  cases e with
  | req r tx => exact step_req cfg hwf t s r tx hI hT
  | resp r tx => exact step_resp cfg hwf t s r tx hI hT
  | err r => exact step_err cfg hwf t s r hI hT
  | adv d => exact step_adv cfg t s d hI hT

theorem holds_run (cfg : Cfg) (hwf : cfg.wf = true) (es : List Event) :
    ∀ s t, Inv cfg s → Tracks t s → holdsFrom cfg t (run cfg s es) = true := by
  induction es with
  | nil => intro s t _ _; rfl
  | cons e rest ih =>
    intro s t hI hT
    obtain ⟨hT', hInv', hok⟩ := step_event cfg hwf t s e hI hT
    simp only [run, holdsFrom, Bool.and_eq_true]
    exact ⟨hok, ih _ _ hInv' hT'⟩

theorem inv_final (cfg : Cfg) (hwf : cfg.wf = true) (es : List Event) :
    ∀ s t, Inv cfg s → Tracks t s → Inv cfg (final cfg s es) := by
  induction es with
  | nil => intro s t hI _; exact hI
  | cons e rest ih =>
    intro s t hI hT
    obtain ⟨hT', hInv', _⟩ := step_event cfg hwf t s e hI hT
    exact ih _ _ hInv' hT'

/-- A refusal needs a full set among the quotas the limiters consulted. -/
theorem refused_full (cfg : Cfg) (hwf : cfg.wf = true) (s : S) (r : Nat) (tx : Tx)
    (h : (reqEvent cfg s r tx).2 = .refused) :
    ∃ q ∈ cfg.concPath, cfg.max q ≤ (s.members q).length := by
  rw [reqEvent_eq] at h
  cases hok : (incPhase cfg s r tx).2 with
  | true =>
    simp only [hok, Bool.not_true, Bool.false_eq_true, if_false] at h
    split at h <;> cases h
  | false =>
    obtain ⟨q0, hq0, hc0, q, hq, h1, h2⟩ := userFlow_false cfg hwf cfg.order r _ hok
    refine ⟨q, ?_, ?_⟩
    · exact concPath_intro cfg hwf q0 q hq0 hc0 hq
    · cases (incPhase_rel cfg hwf s r tx q).1 with
      | same e => rw [← e.1]; exact h2
      | added _ _ _ ha =>
        have := ha r
        simp at this
        rw [show (incPhase cfg s r tx).1.allowed q r =
          (userFlow cfg cfg.order (sysInc cfg (cfg.sysStartFor tx) s r) r).1.allowed q r from rfl, h1] at this
        cases this


/-- An admitted request holds a slot in every concurrent quota its limiters consulted. -/
theorem admitted_holds (cfg : Cfg) (hwf : cfg.wf = true) (s : S) (r : Nat) (tx : Tx) (hjq : ∀ q, JQ s q)
    (h : (reqEvent cfg s r tx).2 = .admitted) :
    ∀ q ∈ cfg.concPath, holdsSlot r ((reqEvent cfg s r tx).1.members q) = true := by
  intro q hq
  rw [reqEvent_eq] at h ⊢
  cases hok : (incPhase cfg s r tx).2 with
  | false => simp [hok] at h
  | true =>
    simp only [hok, Bool.not_true, Bool.false_eq_true, if_false] at h ⊢
    split
    · rename_i he; simp [he] at h
    · obtain ⟨q0, hq0, hc0, hq'⟩ := mem_concPath cfg hwf q (List.contains_iff_mem.mpr hq)
      have := userFlow_true cfg hwf cfg.order r _ hok q0 hq0 hc0 q hq'
      have hJM : JQ (incPhase cfg s r tx).1 q := (hjq q).inc (incPhase_rel cfg hwf s r tx q).1
      exact (hJM.holds_iff r).mpr this

/-- The state after a refused / early-answered request. -/
theorem reqEvent_released (cfg : Cfg) (s : S) (r : Nat) (tx : Tx)
    (h : (reqEvent cfg s r tx).2 = .refused ∨ (reqEvent cfg s r tx).2 = .early) :
    (reqEvent cfg s r tx).1 = endFlows cfg (drop cfg (incPhase cfg s r tx).1 r) r tx := by
  rw [reqEvent_eq] at h ⊢
  split
  · rfl
  · split
    · rfl
    · rename_i h1 h2
      simp [h1, h2] at h


/-! ### Spec level: members belong to open transactions only -/

theorem next_snap (cfg : Cfg) (t : Tracker) (o : Obs) : (t.next cfg o).snap = o.mem := by
  simp only [Tracker.next]; split <;> rfl

/-- On any observed history satisfying the Spec (whoever produced it), every member of a concurrent quota's
    set belongs to a transaction that is still open. -/
theorem members_open (cfg : Cfg) (obs : List Obs) :
    ∀ (t : Tracker) (op : Nat → Bool), holdsFrom cfg t obs = true →
      (∀ q, cfg.isConc q = true → ∀ m ∈ t.snap q, op m.req = true) →
      ∀ q, cfg.isConc q = true → ∀ m ∈ lastSnap cfg t obs q, lastOpen m.req obs (op m.req) = true := by
  induction obs with
  | nil => intro t op _ h q hc m hm; exact h q hc m hm
  | cons o rest ih =>
    intro t op hh hop q hc m hm
    simp only [holdsFrom, Bool.and_eq_true] at hh
    simp only [lastSnap] at hm
    simp only [lastOpen]
    -- the status function after this event
    let op' : Nat → Bool := fun r => match o.ev with
      | .req r' _ => if r' = r then o.verdict == .admitted else op r
      | .resp r' _ => if r' = r then false else op r
      | .err r' => if r' = r then false else op r
      | .adv _ => op r
    have key : ∀ q, cfg.isConc q = true → ∀ m ∈ (t.next cfg o).snap q, op' m.req = true := by
      intro q hc m hm
      rw [next_snap] at hm
      have hq := stepOk_elim cfg t o hh.1 q hc
      simp only [quotaOk, Bool.and_eq_true] at hq
      obtain ⟨_, hq⟩ := hq
      cases hev : o.ev with
      | req r post =>
        rw [hev] at hq
        simp only [op', hev]
        simp only [Bool.and_eq_true, Bool.or_eq_true, beq_iff_eq] at hq
        obtain ⟨hshape, hverd⟩ := hq
        by_cases e : r = m.req
        · simp only [e, if_true]
          have hhold : holdsSlot r (o.mem q) = true := by
            simp only [holdsSlot, List.any_eq_true, beq_iff_eq]; exact ⟨m, hm, e.symm⟩
          cases hv : o.verdict with
          | admitted => rfl
          | refused => rw [hv] at hverd; simp [hhold] at hverd
          | early => rw [hv] at hverd; simp [hhold] at hverd
          | none => rw [hv] at hverd; cases hverd
        · simp only [e, if_false]
          have hmb : m ∈ t.snap q := by
            rcases hshape with (h | h) | h
            · rw [h] at hm; exact hm
            · rw [h] at hm; exact (List.mem_filter.mp hm).1
            · rw [h] at hm
              rcases List.mem_append.mp hm with h2 | h2
              · exact h2
              · simp at h2; rw [h2] at e; exact absurd rfl e
          exact hop q hc m hmb
      | resp r tx =>
        rw [hev] at hq
        simp only [op', hev]
        simp only [Bool.and_eq_true, beq_iff_eq] at hq
        rw [hq.1] at hm
        have := List.mem_filter.mp hm
        have hne : ¬ r = m.req := by intro e; simpa [e] using this.2
        simp only [hne, if_false]
        exact hop q hc m this.1
      | err r =>
        rw [hev] at hq
        simp only [op', hev]
        simp only [Bool.and_eq_true, beq_iff_eq] at hq
        rw [hq.1] at hm
        have := List.mem_filter.mp hm
        have hne : ¬ r = m.req := by intro e; simpa [e] using this.2
        simp only [hne, if_false]
        exact hop q hc m this.1
      | adv d =>
        rw [hev] at hq
        simp only [op', hev]
        simp only [Bool.and_eq_true] at hq
        apply hop q hc m
        cases hl : t.lastTick cfg d with
        | none => rw [hl] at hq; simp at hq; rw [hq.2] at hm; exact hm
        | some tick =>
          rw [hl] at hq
          simp only [Bool.and_eq_true] at hq
          exact (List.isSublist_iff_sublist.mp hq.2.1.1).subset hm
    exact ih (t.next cfg o) op' hh.2 key q hc m hm


theorem lastSnap_run (cfg : Cfg) (es : List Event) :
    ∀ s t, t.snap = s.members → lastSnap cfg t (run cfg s es) = (final cfg s es).members := by
  induction es with
  | nil => intro s t h; exact h
  | cons e rest ih =>
    intro s t _
    simp only [run, lastSnap, final]
    exact ih _ _ (next_snap cfg t _)

/-! ### Reload -/

/-- Well-formedness does not depend on the start instant. -/
theorem chainFuel_startedAt (cfg : Cfg) (now f q : Nat) :
    chainFuel (cfg.startedAt now) f q = chainFuel cfg f q := by
  induction f generalizing q with
  | zero => rfl
  | succ f ih =>
    show q :: (match cfg.parent q with | some p => chainFuel (cfg.startedAt now) f p | none => []) = _
    cases h : cfg.parent q <;> simp [chainFuel, h, ih]

theorem chainOf_startedAt (cfg : Cfg) (now q : Nat) : (cfg.startedAt now).chainOf q = cfg.chainOf q :=
  chainFuel_startedAt cfg now _ q

theorem wf_startedAt (cfg : Cfg) (now : Nat) : (cfg.startedAt now).wf = cfg.wf := by
  unfold Cfg.wf Cfg.sysDecs Cfg.sysOrder Cfg.rootOf
  simp only [chainOf_startedAt]
  rfl

theorem isConc_startedAt (cfg : Cfg) (now q : Nat) : (cfg.startedAt now).isConc q = cfg.isConc q := rfl

/-- Every load of a history with reloads is a run of a freshly started engine. -/
theorem runReloads_fresh (cfg0 : Cfg) (now0 : Nat) (es : List Event) (rest : List (Cfg × List Event))
    (hwf0 : cfg0.wf = true) (hwf : ∀ p ∈ rest, p.1.wf = true) :
    ∀ p ∈ runReloads (cfg0.startedAt now0) (S.init (cfg0.startedAt now0)) es rest,
      ∃ (cfg : Cfg) (now : Nat) (es' : List Event), cfg.wf = true ∧ p = (cfg.startedAt now, run (cfg.startedAt now) (S.init (cfg.startedAt now)) es') := by
  induction rest generalizing cfg0 now0 es with
  | nil =>
    intro p hp
    simp only [runReloads, List.mem_singleton] at hp
    exact ⟨cfg0, now0, es, hwf0, hp⟩
  | cons hd tl ih =>
    intro p hp
    simp only [runReloads, List.mem_cons] at hp
    rcases hp with hp | hp
    · exact ⟨cfg0, now0, es, hwf0, hp⟩
    · exact ih hd.1 _ hd.2 (hwf hd (List.mem_cons_self ..)) (fun q hq => hwf q (List.mem_cons_of_mem _ hq)) p hp

end LunarVerif.C02
