import LunarVerif.Spec.C02
/-! Helper lemmas for C02 (the property theorems are in `Properties/C02.lean`). -/
namespace LunarVerif.C02

/-! ### Layer A: invariants of every sequence of critical sections -/

def Bounded (cfg : Cfg) (s : S) : Prop := ∀ q, (s.members q).length ≤ cfg.max q

theorem bounded_init (cfg : Cfg) : Bounded cfg (S.init cfg) := by
  intro q; simp [S.init]

theorem bounded_micro (cfg : Cfg) (s : S) (op : Micro) (h : Bounded cfg s) :
    Bounded cfg (micro cfg s op) := by
  intro q'
  cases op with
  | sadd q m =>
    simp only [micro]
    split
    · dsimp only
      split
      · subst_vars; simp; omega
      · exact h q'
    · exact h q'
  | srem q m =>
    simp only [micro]
    split
    · dsimp only
      split
      · subst_vars
        have := List.length_erase_le (a := m) (l := s.members q)
        have := h q
        omega
      · exact h q'
    · exact h q'
  | setst q r m => exact h q'
  | del q r => exact h q'
  | rmSet r q => simp only [micro]; split <;> exact h q'
  | rmPop r => exact h q'
  | clock a b => exact h q'

theorem bounded_reach (cfg : Cfg) (s : S) (h : Reach cfg s) : Bounded cfg s := by
  induction h with
  | init => exact bounded_init cfg
  | step s op _ ih => exact bounded_micro cfg s op ih

/-- Ghost accounting: every successful add of a member value is either still in the set or was removed. -/
def Accounted (s : S) : Prop := ∀ q m, s.adds q m = s.rems q m + (s.members q).count m

theorem accounted_init (cfg : Cfg) : Accounted (S.init cfg) := by
  intro q m; simp [S.init]

theorem accounted_micro (cfg : Cfg) (s : S) (op : Micro) (h : Accounted s) :
    Accounted (micro cfg s op) := by
  intro q' m'
  cases op with
  | sadd q m =>
    simp only [micro]
    split
    · dsimp only
      by_cases hq : q' = q
      · subst hq
        by_cases hm : m' = m
        · subst hm; simp [List.count_append]; have := h q' m'; omega
        · simp [hm, List.count_append, List.count_singleton]
          have := h q' m'
          have hne : ¬ (m = m') := fun e => hm e.symm
          simp [hne]; exact this
      · simp [hq]; exact h q' m'
    · exact h q' m'
  | srem q m =>
    simp only [micro]
    split
    · rename_i hmem
      dsimp only
      by_cases hq : q' = q
      · subst hq
        by_cases hm : m' = m
        · subst hm
          simp [List.count_erase_self]
          have := h q' m'
          have hpos : 0 < (s.members q').count m' := List.count_pos_iff.mpr hmem
          omega
        · simp [hm]
          exact h q' m'
      · simp [hq]; exact h q' m'
    · exact h q' m'
  | setst q r m => exact h q' m'
  | del q r => exact h q' m'
  | rmSet r q => simp only [micro]; split <;> exact h q' m'
  | rmPop r => exact h q' m'
  | clock a b => exact h q' m'

theorem accounted_reach (cfg : Cfg) (s : S) (h : Reach cfg s) : Accounted s := by
  induction h with
  | init => exact accounted_init cfg
  | step s op _ ih => exact accounted_micro cfg s op ih


/-! ### Effect of one critical section on one quota -/

theorem micro_now (cfg : Cfg) (s : S) (op : Micro) (h : ∀ a b, op ≠ .clock a b) :
    (micro cfg s op).now = s.now ∧ (micro cfg s op).nextGC = s.nextGC := by
  cases op with
  | sadd q m => simp only [micro]; split <;> exact ⟨rfl, rfl⟩
  | srem q m => simp only [micro]; split <;> exact ⟨rfl, rfl⟩
  | setst q r m => exact ⟨rfl, rfl⟩
  | del q r => exact ⟨rfl, rfl⟩
  | rmSet r q => simp only [micro]; split <;> exact ⟨rfl, rfl⟩
  | rmPop r => exact ⟨rfl, rfl⟩
  | clock a b => exact absurd rfl (h a b)

theorem sadd_members (cfg : Cfg) (s : S) (q : Nat) (m : Member) (q' : Nat) :
    (micro cfg s (.sadd q m)).members q' =
      if q' = q ∧ (s.members q).length < cfg.max q then s.members q ++ [m] else s.members q' := by
  simp only [micro]; split
  · dsimp only; split <;> simp_all
  · simp_all

theorem srem_members (cfg : Cfg) (s : S) (q : Nat) (m : Member) (q' : Nat) :
    (micro cfg s (.srem q m)).members q' = if q' = q then (s.members q).erase m else s.members q' := by
  simp only [micro]; split
  · rfl
  · rename_i h; split
    · subst_vars; exact (List.erase_of_not_mem h).symm
    · rfl

theorem setst_allowed (cfg : Cfg) (s : S) (q r : Nat) (m : Member) (q' r' : Nat) :
    (micro cfg s (.setst q r m)).allowed q' r' = if q' = q ∧ r' = r then some m else s.allowed q' r' := rfl

theorem del_allowed (cfg : Cfg) (s : S) (q r : Nat) (q' r' : Nat) :
    (micro cfg s (.del q r)).allowed q' r' = if q' = q ∧ r' = r then none else s.allowed q' r' := rfl

@[simp] theorem sadd_allowed (cfg : Cfg) (s : S) (q : Nat) (m : Member) :
    (micro cfg s (.sadd q m)).allowed = s.allowed := by simp only [micro]; split <;> rfl
@[simp] theorem srem_allowed (cfg : Cfg) (s : S) (q : Nat) (m : Member) :
    (micro cfg s (.srem q m)).allowed = s.allowed := by simp only [micro]; split <;> rfl
@[simp] theorem setst_members (cfg : Cfg) (s : S) (q r : Nat) (m : Member) :
    (micro cfg s (.setst q r m)).members = s.members := rfl
@[simp] theorem del_members (cfg : Cfg) (s : S) (q r : Nat) :
    (micro cfg s (.del q r)).members = s.members := rfl
@[simp] theorem rmSet_members (cfg : Cfg) (s : S) (q r : Nat) :
    (micro cfg s (.rmSet r q)).members = s.members := by simp only [micro]; split <;> rfl
@[simp] theorem rmSet_allowed (cfg : Cfg) (s : S) (q r : Nat) :
    (micro cfg s (.rmSet r q)).allowed = s.allowed := by simp only [micro]; split <;> rfl
@[simp] theorem rmPop_members (cfg : Cfg) (s : S) (r : Nat) :
    (micro cfg s (.rmPop r)).members = s.members := rfl
@[simp] theorem rmPop_allowed (cfg : Cfg) (s : S) (r : Nat) :
    (micro cfg s (.rmPop r)).allowed = s.allowed := rfl
@[simp] theorem clock_members (cfg : Cfg) (s : S) (a b : Nat) :
    (micro cfg s (.clock a b)).members = s.members := rfl
@[simp] theorem clock_allowed (cfg : Cfg) (s : S) (a b : Nat) :
    (micro cfg s (.clock a b)).allowed = s.allowed := rfl
@[simp] theorem sadd_rm (cfg : Cfg) (s : S) (q : Nat) (m : Member) :
    (micro cfg s (.sadd q m)).rm = s.rm := by simp only [micro]; split <;> rfl
@[simp] theorem srem_rm (cfg : Cfg) (s : S) (q : Nat) (m : Member) :
    (micro cfg s (.srem q m)).rm = s.rm := by simp only [micro]; split <;> rfl
@[simp] theorem setst_rm (cfg : Cfg) (s : S) (q r : Nat) (m : Member) :
    (micro cfg s (.setst q r m)).rm = s.rm := rfl
@[simp] theorem del_rm (cfg : Cfg) (s : S) (q r : Nat) :
    (micro cfg s (.del q r)).rm = s.rm := rfl
@[simp] theorem sadd_now (cfg : Cfg) (s : S) (q : Nat) (m : Member) :
    (micro cfg s (.sadd q m)).now = s.now := (micro_now cfg s _ (by intro a b h; cases h)).1
@[simp] theorem srem_now (cfg : Cfg) (s : S) (q : Nat) (m : Member) :
    (micro cfg s (.srem q m)).now = s.now := (micro_now cfg s _ (by intro a b h; cases h)).1
@[simp] theorem setst_now (cfg : Cfg) (s : S) (q r : Nat) (m : Member) :
    (micro cfg s (.setst q r m)).now = s.now := rfl
@[simp] theorem del_now (cfg : Cfg) (s : S) (q r : Nat) :
    (micro cfg s (.del q r)).now = s.now := rfl
@[simp] theorem rmSet_now (cfg : Cfg) (s : S) (q r : Nat) :
    (micro cfg s (.rmSet r q)).now = s.now := (micro_now cfg s _ (by intro a b h; cases h)).1
@[simp] theorem rmPop_now (cfg : Cfg) (s : S) (r : Nat) :
    (micro cfg s (.rmPop r)).now = s.now := rfl
@[simp] theorem sadd_next (cfg : Cfg) (s : S) (q : Nat) (m : Member) :
    (micro cfg s (.sadd q m)).nextGC = s.nextGC := (micro_now cfg s _ (by intro a b h; cases h)).2
@[simp] theorem srem_next (cfg : Cfg) (s : S) (q : Nat) (m : Member) :
    (micro cfg s (.srem q m)).nextGC = s.nextGC := (micro_now cfg s _ (by intro a b h; cases h)).2
@[simp] theorem setst_next (cfg : Cfg) (s : S) (q r : Nat) (m : Member) :
    (micro cfg s (.setst q r m)).nextGC = s.nextGC := rfl
@[simp] theorem del_next (cfg : Cfg) (s : S) (q r : Nat) :
    (micro cfg s (.del q r)).nextGC = s.nextGC := rfl
@[simp] theorem rmSet_next (cfg : Cfg) (s : S) (q r : Nat) :
    (micro cfg s (.rmSet r q)).nextGC = s.nextGC := (micro_now cfg s _ (by intro a b h; cases h)).2
@[simp] theorem rmPop_next (cfg : Cfg) (s : S) (r : Nat) :
    (micro cfg s (.rmPop r)).nextGC = s.nextGC := rfl

/-- `s'` agrees with `s` on quota `q` (set and status map). -/
def SameQ (q : Nat) (s s' : S) : Prop := s'.members q = s.members q ∧ s'.allowed q = s.allowed q

theorem SameQ.refl (q : Nat) (s : S) : SameQ q s s := ⟨rfl, rfl⟩
theorem SameQ.trans {q : Nat} {s s' s'' : S} (h1 : SameQ q s s') (h2 : SameQ q s' s'') : SameQ q s s'' :=
  ⟨h2.1.trans h1.1, h2.2.trans h1.2⟩

/-- Clock, GC timer and `reqIDToQuota` untouched. -/
def SameEnv (s s' : S) : Prop := s'.now = s.now ∧ s'.nextGC = s.nextGC ∧ s'.rm = s.rm
theorem SameEnv.refl (s : S) : SameEnv s s := ⟨rfl, rfl, rfl⟩
theorem SameEnv.trans {s s' s'' : S} (h1 : SameEnv s s') (h2 : SameEnv s' s'') : SameEnv s s'' :=
  ⟨h2.1.trans h1.1, h2.2.1.trans h1.2.1, h2.2.2.trans h1.2.2⟩

/-- Effect of an `Inc`-type call for request `r` at instant `now` on quota `q`. -/
inductive IncRel (cfg : Cfg) (r now q : Nat) (s s' : S) : Prop
  | same : SameQ q s s' → IncRel cfg r now q s s'
  | added : s.allowed q r = none → (s.members q).length < cfg.max q →
      s'.members q = s.members q ++ [⟨now + cfg.exp q, r⟩] →
      (∀ r', s'.allowed q r' = if r' = r then some ⟨now + cfg.exp q, r⟩ else s.allowed q r') →
      IncRel cfg r now q s s'

theorem IncRel.trans {cfg : Cfg} {r now q : Nat} {s s' s'' : S}
    (h1 : IncRel cfg r now q s s') (h2 : IncRel cfg r now q s' s'') : IncRel cfg r now q s s'' := by
  cases h1 with
  | same e1 =>
    cases h2 with
    | same e2 => exact .same (e1.trans e2)
    | added hn hr hm ha =>
      refine .added (by rw [← e1.2]; exact hn) (by rw [← e1.1]; exact hr) (by rw [hm, e1.1]) ?_
      intro r'; rw [ha r', e1.2]
  | added hn hr hm ha =>
    cases h2 with
    | same e2 =>
      refine .added hn hr (by rw [e2.1, hm]) ?_
      intro r'; rw [e2.2, ha r']
    | added hn2 _ _ _ => rw [ha r] at hn2; simp at hn2

/-- Effect of a `Dec`-type call for request `r` on quota `q`. -/
inductive DecRel (r q : Nat) (s s' : S) : Prop
  | same : SameQ q s s' → DecRel r q s s'
  | removed (m : Member) : s.allowed q r = some m → s'.members q = (s.members q).erase m →
      (∀ r', s'.allowed q r' = if r' = r then none else s.allowed q r') → DecRel r q s s'

theorem DecRel.trans {r q : Nat} {s s' s'' : S}
    (h1 : DecRel r q s s') (h2 : DecRel r q s' s'') : DecRel r q s s'' := by
  cases h1 with
  | same e1 =>
    cases h2 with
    | same e2 => exact .same (e1.trans e2)
    | removed m hs hm ha =>
      refine .removed m (by rw [← e1.2]; exact hs) (by rw [hm, e1.1]) ?_
      intro r'; rw [ha r', e1.2]
  | removed m hs hm ha =>
    cases h2 with
    | same e2 =>
      refine .removed m hs (by rw [e2.1, hm]) ?_
      intro r'; rw [e2.2, ha r']
    | removed m2 hs2 _ _ => rw [ha r] at hs2; simp at hs2


/-! ### `Inc` / `Allowed` / `Dec` along an ancestor chain -/

theorem incChain_env (cfg : Cfg) (ch : List Nat) (r : Nat) : ∀ s, SameEnv s (incChain cfg ch s r) := by
  induction ch with
  | nil => intro s; exact SameEnv.refl s
  | cons q rest ih =>
    intro s
    simp only [incChain]
    split
    · exact SameEnv.refl s
    · split
      · have h := ih (micro cfg s (.sadd q ⟨s.now + cfg.exp q, r⟩))
        obtain ⟨h1, h2, h3⟩ := h
        exact ⟨by simp [h1], by simp [h2], by simp [h3]⟩
      · exact SameEnv.refl s

theorem incChain_frame (cfg : Cfg) (ch : List Nat) (r q' : Nat) (hq : q' ∉ ch) :
    ∀ s, SameQ q' s (incChain cfg ch s r) := by
  induction ch with
  | nil => intro s; exact SameQ.refl q' s
  | cons q rest ih =>
    intro s
    have hne : q' ≠ q := fun e => hq (by simp [e])
    have hr : q' ∉ rest := fun e => hq (by simp [e])
    simp only [incChain]
    split
    · exact SameQ.refl q' s
    · split
      · obtain ⟨h1, h2⟩ := ih hr (micro cfg s (.sadd q ⟨s.now + cfg.exp q, r⟩))
        constructor
        · simp [h1, sadd_members, hne]
        · funext r'; simp [setst_allowed, hne, h2]
      · exact SameQ.refl q' s

theorem incChain_rel (cfg : Cfg) (ch : List Nat) (r q' : Nat) (hnd : ch.Nodup) :
    ∀ s, IncRel cfg r s.now q' s (incChain cfg ch s r) := by
  induction ch with
  | nil => intro s; exact .same (SameQ.refl q' s)
  | cons q rest ih =>
    intro s
    have hqr : q ∉ rest := (List.nodup_cons.mp hnd).1
    have hnd' : rest.Nodup := (List.nodup_cons.mp hnd).2
    simp only [incChain]
    split
    · exact .same (SameQ.refl q' s)
    · rename_i hst
      split
      · rename_i hroom
        generalize hs1 : micro cfg s (.sadd q ⟨s.now + cfg.exp q, r⟩) = s1
        have hmem : ∀ q'', s1.members q'' =
            if q'' = q then s.members q ++ [⟨s.now + cfg.exp q, r⟩] else s.members q'' := by
          intro q''; rw [← hs1, sadd_members]; by_cases h : q'' = q <;> simp [h, hroom]
        have hal : s1.allowed = s.allowed := by rw [← hs1]; simp
        have hnow : s1.now = s.now := by rw [← hs1]; simp
        by_cases hq : q' = q
        · subst hq
          obtain ⟨f1, f2⟩ := incChain_frame cfg rest r q' hqr s1
          refine .added (by simpa using hst) hroom ?_ ?_
          · simp only [setst_members, f1, hmem]; simp
          · intro r'
            simp only [setst_allowed, f2, hal]
            by_cases hr' : r' = r <;> simp [hr']
        · have h := ih hnd' s1
          rw [hnow] at h
          cases h with
          | same e =>
            refine .same ⟨?_, ?_⟩
            · simp only [setst_members, e.1, hmem]; simp [hq]
            · funext r'; simp only [setst_allowed, e.2, hal]; simp [hq]
          | added hn hr hm ha =>
            refine .added (by simpa [hal] using hn) (by simpa [hmem, hq] using hr) ?_ ?_
            · simp only [setst_members, hm, hmem]; simp [hq]
            · intro r'; simp only [setst_allowed, ha r', hal]; simp [hq]
      · exact .same (SameQ.refl q' s)

/-- After `Inc` on `q :: rest` the request has a status at `q`, unless it had none and the set was full. -/
theorem incChain_head (cfg : Cfg) (q : Nat) (rest : List Nat) (r : Nat) (s : S) (hq : q ∉ rest) :
    ((incChain cfg (q :: rest) s r).allowed q r).isSome ∨
    (incChain cfg (q :: rest) s r = s ∧ s.allowed q r = none ∧ cfg.max q ≤ (s.members q).length) := by
  simp only [incChain]
  split
  · left; assumption
  · rename_i hst
    split
    · left; simp [setst_allowed]
    · right; refine ⟨rfl, by simpa using hst, by omega⟩

theorem allowedChain_env (cfg : Cfg) (ch : List Nat) (r : Nat) : ∀ s, SameEnv s (allowedChain cfg ch s r).1 := by
  induction ch with
  | nil => intro s; exact SameEnv.refl s
  | cons q rest ih =>
    intro s
    simp only [allowedChain]
    split
    · exact (incChain_env cfg (q :: rest) r s).trans (ih _)
    · exact incChain_env cfg (q :: rest) r s

theorem allowedChain_frame (cfg : Cfg) (ch : List Nat) (r q' : Nat) (hq : q' ∉ ch) :
    ∀ s, SameQ q' s (allowedChain cfg ch s r).1 := by
  induction ch with
  | nil => intro s; exact SameQ.refl q' s
  | cons q rest ih =>
    intro s
    have hr : q' ∉ rest := fun e => hq (by simp [e])
    simp only [allowedChain]
    split
    · exact (incChain_frame cfg (q :: rest) r q' hq s).trans (ih hr _)
    · exact incChain_frame cfg (q :: rest) r q' hq s

theorem allowedChain_rel (cfg : Cfg) (ch : List Nat) (r q' : Nat) (hnd : ch.Nodup) :
    ∀ s, IncRel cfg r s.now q' s (allowedChain cfg ch s r).1 := by
  induction ch with
  | nil => intro s; exact .same (SameQ.refl q' s)
  | cons q rest ih =>
    intro s
    have hnd' : rest.Nodup := (List.nodup_cons.mp hnd).2
    simp only [allowedChain]
    have h1 := incChain_rel cfg (q :: rest) r q' hnd s
    split
    · have h2 := ih hnd' (incChain cfg (q :: rest) s r)
      rw [(incChain_env cfg (q :: rest) r s).1] at h2
      exact h1.trans h2
    · exact h1

/-- `Allowed` answered yes: the request has a status at every level. -/
theorem allowedChain_true (cfg : Cfg) (ch : List Nat) (r : Nat) (hnd : ch.Nodup) :
    ∀ s, (allowedChain cfg ch s r).2 = true → ∀ q ∈ ch, ((allowedChain cfg ch s r).1.allowed q r).isSome := by
  induction ch with
  | nil => intro s _ q hq; cases hq
  | cons q rest ih =>
    intro s
    have hqr : q ∉ rest := (List.nodup_cons.mp hnd).1
    have hnd' : rest.Nodup := (List.nodup_cons.mp hnd).2
    simp only [allowedChain]
    split
    · rename_i hst
      intro ht q' hq'
      rcases List.mem_cons.mp hq' with e | e
      · subst e
        rw [(allowedChain_frame cfg rest r q' hqr _).2]; exact hst
      · exact ih hnd' _ ht q' e
    · intro ht; cases ht

/-- `Allowed` answered no: at some level the request has no status and the set is full. -/
theorem allowedChain_false (cfg : Cfg) (ch : List Nat) (r : Nat) (hnd : ch.Nodup) :
    ∀ s, (allowedChain cfg ch s r).2 = false →
      ∃ q ∈ ch, (allowedChain cfg ch s r).1.allowed q r = none ∧
        cfg.max q ≤ ((allowedChain cfg ch s r).1.members q).length := by
  induction ch with
  | nil => intro s h; simp [allowedChain] at h
  | cons q rest ih =>
    intro s
    have hqr : q ∉ rest := (List.nodup_cons.mp hnd).1
    have hnd' : rest.Nodup := (List.nodup_cons.mp hnd).2
    simp only [allowedChain]
    split
    · intro hf
      obtain ⟨q', hq', h1, h2⟩ := ih hnd' _ hf
      exact ⟨q', List.mem_cons_of_mem _ hq', h1, h2⟩
    · rename_i hst
      intro _
      rcases incChain_head cfg q rest r s hqr with h | ⟨he, hn, hm⟩
      · exact absurd h hst
      · refine ⟨q, List.mem_cons_self, ?_, ?_⟩
        · rw [he]; exact hn
        · rw [he]; exact hm

theorem decChain_env (cfg : Cfg) (ch : List Nat) (r : Nat) : ∀ s, SameEnv s (decChain cfg ch s r) := by
  induction ch with
  | nil => intro s; exact SameEnv.refl s
  | cons q rest ih =>
    intro s
    simp only [decChain]
    split
    · exact SameEnv.refl s
    · rename_i m _
      obtain ⟨h1, h2, h3⟩ := ih (micro cfg s (.srem q m))
      exact ⟨by simp [h1], by simp [h2], by simp [h3]⟩

theorem decChain_frame (cfg : Cfg) (ch : List Nat) (r q' : Nat) (hq : q' ∉ ch) :
    ∀ s, SameQ q' s (decChain cfg ch s r) := by
  induction ch with
  | nil => intro s; exact SameQ.refl q' s
  | cons q rest ih =>
    intro s
    have hne : q' ≠ q := fun e => hq (by simp [e])
    have hr : q' ∉ rest := fun e => hq (by simp [e])
    simp only [decChain]
    split
    · exact SameQ.refl q' s
    · rename_i m _
      obtain ⟨h1, h2⟩ := ih hr (micro cfg s (.srem q m))
      constructor
      · simp [h1, srem_members, hne]
      · funext r'; simp [del_allowed, hne, h2]

theorem decChain_rel (cfg : Cfg) (ch : List Nat) (r q' : Nat) (hnd : ch.Nodup) :
    ∀ s, DecRel r q' s (decChain cfg ch s r) := by
  induction ch with
  | nil => intro s; exact .same (SameQ.refl q' s)
  | cons q rest ih =>
    intro s
    have hqr : q ∉ rest := (List.nodup_cons.mp hnd).1
    have hnd' : rest.Nodup := (List.nodup_cons.mp hnd).2
    simp only [decChain]
    split
    · exact .same (SameQ.refl q' s)
    · rename_i m hst
      generalize hs1 : micro cfg s (.srem q m) = s1
      have hmem : ∀ q'', s1.members q'' = if q'' = q then (s.members q).erase m else s.members q'' := by
        intro q''; rw [← hs1, srem_members]
      have hal : s1.allowed = s.allowed := by rw [← hs1]; simp
      by_cases hq : q' = q
      · subst hq
        obtain ⟨f1, f2⟩ := decChain_frame cfg rest r q' hqr s1
        refine .removed m hst ?_ ?_
        · simp only [del_members, f1, hmem]; simp
        · intro r'
          simp only [del_allowed, f2, hal]
          by_cases hr' : r' = r <;> simp [hr']
      · have h := ih hnd' s1
        cases h with
        | same e =>
          refine .same ⟨?_, ?_⟩
          · simp only [del_members, e.1, hmem]; simp [hq]
          · funext r'; simp only [del_allowed, e.2, hal]; simp [hq]
        | removed m2 hs hm ha =>
          refine .removed m2 (by simpa [hal] using hs) ?_ ?_
          · simp only [del_members, hm, hmem]; simp [hq]
          · intro r'; simp only [del_allowed, ha r', hal]; simp [hq]


/-! ### The per-quota invariant between events -/

structure JQ (s : S) (q : Nat) : Prop where
  own : ∀ r m, s.allowed q r = some m → m ∈ s.members q ∧ m.req = r
  has : ∀ m, m ∈ s.members q → s.allowed q m.req = some m
  nodup : (s.members q).Nodup

theorem JQ.init (cfg : Cfg) (q : Nat) : JQ (S.init cfg) q :=
  ⟨by intro r m h; simp [S.init] at h, by intro m h; simp [S.init] at h, by simp [S.init]⟩

theorem JQ.of_same {s s' : S} {q : Nat} (h : JQ s q) (e : SameQ q s s') : JQ s' q := by
  obtain ⟨e1, e2⟩ := e
  exact ⟨by rw [e1, e2]; exact h.own, by rw [e1, e2]; exact h.has, by rw [e1]; exact h.nodup⟩

theorem JQ.holds_iff {s : S} {q : Nat} (h : JQ s q) (r : Nat) :
    holdsSlot r (s.members q) = true ↔ (s.allowed q r).isSome = true := by
  simp only [holdsSlot, List.any_eq_true, beq_iff_eq]
  constructor
  · rintro ⟨m, hm, hr⟩
    rw [← hr, h.has m hm]; rfl
  · intro hs
    obtain ⟨m, hm⟩ := Option.isSome_iff_exists.mp hs
    exact ⟨m, (h.own r m hm).1, (h.own r m hm).2⟩

theorem JQ.reqs_nodup {s : S} {q : Nat} (h : JQ s q) : ((s.members q).map (·.req)).Nodup := by
  unfold List.Nodup
  rw [List.pairwise_map]
  refine List.Pairwise.imp_of_mem ?_ h.nodup
  intro a b ha hb hne hab
  have h1 := h.has a ha
  have h2 := h.has b hb
  rw [hab, h2] at h1
  exact hne (Option.some.inj h1).symm

theorem JQ.inc {cfg : Cfg} {s s' : S} {q r now : Nat} (h : JQ s q) (hr : IncRel cfg r now q s s') : JQ s' q := by
  cases hr with
  | same e => exact h.of_same e
  | added hn _ hm ha =>
    have hfresh : (⟨now + cfg.exp q, r⟩ : Member) ∉ s.members q := by
      intro hin
      have := h.has _ hin
      rw [hn] at this; cases this
    refine ⟨?_, ?_, ?_⟩
    · intro r' m' hs
      rw [ha r'] at hs
      rw [hm]
      by_cases hr' : r' = r
      · simp [hr'] at hs; subst hs; simp [hr']
      · simp [hr'] at hs
        exact ⟨List.mem_append_left _ (h.own r' m' hs).1, (h.own r' m' hs).2⟩
    · intro m' hin
      rw [hm] at hin
      rw [ha]
      rcases List.mem_append.mp hin with hin | hin
      · have hne : m'.req ≠ r := by
          intro e
          have := h.has m' hin
          rw [e, hn] at this; cases this
        simp [hne]; exact h.has m' hin
      · simp at hin; subst hin; simp
    · rw [hm]
      exact List.nodup_append.mpr ⟨h.nodup, by simp, by
        intro a ha' b hb; simp at hb; subst hb; intro e; subst e; exact hfresh ha'⟩

theorem JQ.dec {s s' : S} {q r : Nat} (h : JQ s q) (hr : DecRel r q s s') : JQ s' q := by
  cases hr with
  | same e => exact h.of_same e
  | removed m hs hm ha =>
    obtain ⟨hmin, hmr⟩ := h.own r m hs
    refine ⟨?_, ?_, ?_⟩
    · intro r' m' hs'
      rw [ha r'] at hs'
      by_cases hr' : r' = r
      · simp [hr'] at hs'
      · simp [hr'] at hs'
        obtain ⟨h1, h2⟩ := h.own r' m' hs'
        refine ⟨?_, h2⟩
        rw [hm]
        have hne : m' ≠ m := by intro e; subst e; exact hr' (h2.symm.trans hmr)
        exact (List.mem_erase_of_ne hne).mpr h1
    · intro m' hin
      rw [hm] at hin
      have hin' := List.mem_of_mem_erase hin
      have hne : m'.req ≠ r := by
        intro e
        have := h.has m' hin'
        rw [e, hs] at this
        have : m = m' := Option.some.inj this
        subst this
        exact (List.Nodup.not_mem_erase h.nodup) hin
      rw [ha]; simp [hne]; exact h.has m' hin'
    · rw [hm]; exact h.nodup.erase m

/-- Removing the member recorded for `r` is removing everything `r` holds. -/
theorem JQ.erase_eq_others {s : S} {q r : Nat} {m : Member} (h : JQ s q) (hs : s.allowed q r = some m) :
    (s.members q).erase m = others r (s.members q) := by
  rw [h.nodup.erase_eq_filter, others]
  apply List.filter_congr
  intro m' hin
  obtain ⟨_, hmr⟩ := h.own r m hs
  by_cases e : m' = m
  · subst e; show (m' != m') = (m'.req != r); simp [hmr]
  · have : m'.req ≠ r := by
      intro e2
      have := h.has m' hin
      rw [e2, hs] at this
      exact e (Option.some.inj this).symm
    show (m' != m) = (m'.req != r)
    rw [bne_iff_ne.mpr e, bne_iff_ne.mpr this]

theorem JQ.others_eq_self {s : S} {q r : Nat} (h : JQ s q) (hs : s.allowed q r = none) :
    others r (s.members q) = s.members q := by
  rw [others, List.filter_eq_self]
  intro m hin
  have := h.has m hin
  have hne : m.req ≠ r := by intro e; rw [e, hs] at this; cases this
  simpa using hne


/-! ### Well-formed configurations -/

theorem isConc_lt (cfg : Cfg) (q : Nat) (h : cfg.isConc q = true) : q < cfg.quotas.length := by
  by_cases hlt : q < cfg.quotas.length
  · exact hlt
  · have : cfg.quotas[q]? = none := List.getElem?_eq_none (by omega)
    simp [Cfg.isConc, this] at h

theorem wf_chain (cfg : Cfg) (hwf : cfg.wf = true) (q : Nat) (hq : cfg.isConc q = true) :
    (cfg.chainOf q).Nodup ∧ ∀ q' ∈ cfg.chainOf q, cfg.isConc q' = true := by
  simp only [Cfg.wf, Bool.and_eq_true, List.all_eq_true, List.mem_range, Bool.or_eq_true,
    Bool.not_eq_true', decide_eq_true_eq] at hwf
  rcases hwf.1.2 q (isConc_lt cfg q hq) with h | h
  · rw [hq] at h; cases h
  · exact h

theorem wf_gc (cfg : Cfg) (hwf : cfg.wf = true) : 0 < cfg.gc := by
  simp only [Cfg.wf, Bool.and_eq_true, decide_eq_true_eq] at hwf
  exact hwf.1.1

theorem chainOf_head (cfg : Cfg) (q : Nat) : ∃ rest, cfg.chainOf q = q :: rest := by
  simp only [Cfg.chainOf, chainFuel]; exact ⟨_, rfl⟩

/-! ### Processors and flows -/

def SameClock (s s' : S) : Prop := s'.now = s.now ∧ s'.nextGC = s.nextGC
theorem SameClock.refl (s : S) : SameClock s s := ⟨rfl, rfl⟩
theorem SameClock.trans {s s' s'' : S} (h1 : SameClock s s') (h2 : SameClock s' s'') : SameClock s s'' :=
  ⟨h2.1.trans h1.1, h2.2.trans h1.2⟩
theorem SameEnv.clock {s s' : S} (h : SameEnv s s') : SameClock s s' := ⟨h.1, h.2.1⟩

theorem IncRel.of_left {cfg : Cfg} {r now q : Nat} {s s0 s' : S} (e : SameQ q s s0)
    (h : IncRel cfg r now q s0 s') : IncRel cfg r now q s s' := (IncRel.same e).trans h

theorem DecRel.of_left {r q : Nat} {s s0 s' : S} (e : SameQ q s s0)
    (h : DecRel r q s0 s') : DecRel r q s s' := (DecRel.same e).trans h

theorem rmSet_sameQ (cfg : Cfg) (s : S) (r q q' : Nat) : SameQ q' s (micro cfg s (.rmSet r q)) :=
  ⟨by simp, by simp⟩
theorem rmSet_clock (cfg : Cfg) (s : S) (r q : Nat) : SameClock s (micro cfg s (.rmSet r q)) :=
  ⟨by simp, by simp⟩
theorem rmPop_sameQ (cfg : Cfg) (s : S) (r q' : Nat) : SameQ q' s (micro cfg s (.rmPop r)) :=
  ⟨by simp, by simp⟩
theorem rmPop_clock (cfg : Cfg) (s : S) (r : Nat) : SameClock s (micro cfg s (.rmPop r)) :=
  ⟨by simp, by simp⟩

theorem limiter_rel (cfg : Cfg) (hwf : cfg.wf = true) (s : S) (q r q' : Nat) :
    IncRel cfg r s.now q' s (limiter cfg s q r).1 ∧ SameClock s (limiter cfg s q r).1 := by
  simp only [limiter]
  split
  · rename_i hc
    obtain ⟨hnd, _⟩ := wf_chain cfg hwf q hc
    generalize hs0 : micro cfg s (.rmSet r q) = s0
    have e0 : SameQ q' s s0 := by rw [← hs0]; exact rmSet_sameQ cfg s r q q'
    have c0 : SameClock s s0 := by rw [← hs0]; exact rmSet_clock cfg s r q
    have h1 := incChain_rel cfg (cfg.chainOf q) r q' hnd s0
    have c1 := (incChain_env cfg (cfg.chainOf q) r s0).clock
    have h2 := allowedChain_rel cfg (cfg.chainOf q) r q' hnd (incChain cfg (cfg.chainOf q) s0 r)
    have c2 := (allowedChain_env cfg (cfg.chainOf q) r (incChain cfg (cfg.chainOf q) s0 r)).clock
    rw [c1.1] at h2
    rw [c0.1] at h1 h2
    exact ⟨IncRel.of_left e0 (h1.trans h2), c0.trans (c1.trans c2)⟩
  · exact ⟨.same (rmSet_sameQ cfg s r q q'), rmSet_clock cfg s r q⟩

theorem userFlow_rel (cfg : Cfg) (hwf : cfg.wf = true) (order : List Nat) (r q' : Nat) :
    ∀ s, IncRel cfg r s.now q' s (userFlow cfg order s r).1 ∧ SameClock s (userFlow cfg order s r).1 := by
  induction order with
  | nil => intro s; exact ⟨.same (SameQ.refl q' s), SameClock.refl s⟩
  | cons q rest ih =>
    intro s
    simp only [userFlow]
    obtain ⟨h1, c1⟩ := limiter_rel cfg hwf s q r q'
    split
    · obtain ⟨h2, c2⟩ := ih (limiter cfg s q r).1
      rw [c1.1] at h2
      exact ⟨h1.trans h2, c1.trans c2⟩
    · exact ⟨h1, c1⟩

theorem sysInc_rel (cfg : Cfg) (hwf : cfg.wf = true) (qs : List Nat) (r q' : Nat) :
    ∀ s, IncRel cfg r s.now q' s (sysInc cfg qs s r) ∧ SameClock s (sysInc cfg qs s r) := by
  induction qs with
  | nil => intro s; exact ⟨.same (SameQ.refl q' s), SameClock.refl s⟩
  | cons q rest ih =>
    intro s
    simp only [sysInc]
    generalize hs0 : micro cfg s (.rmSet r q) = s0
    have e0 : SameQ q' s s0 := by rw [← hs0]; exact rmSet_sameQ cfg s r q q'
    have c0 : SameClock s s0 := by rw [← hs0]; exact rmSet_clock cfg s r q
    split
    · rename_i hc
      obtain ⟨hnd, _⟩ := wf_chain cfg hwf q hc
      have h1 := incChain_rel cfg (cfg.chainOf q) r q' hnd s0
      have c1 := (incChain_env cfg (cfg.chainOf q) r s0).clock
      obtain ⟨h2, c2⟩ := ih (incChain cfg (cfg.chainOf q) s0 r)
      rw [c1.1] at h2
      rw [c0.1] at h1 h2
      exact ⟨IncRel.of_left e0 (h1.trans h2), c0.trans (c1.trans c2)⟩
    · obtain ⟨h2, c2⟩ := ih s0
      rw [c0.1] at h2
      exact ⟨IncRel.of_left e0 h2, c0.trans c2⟩

theorem drop_rel (cfg : Cfg) (hwf : cfg.wf = true) (s : S) (r q' : Nat) :
    DecRel r q' s (drop cfg s r) ∧ SameClock s (drop cfg s r) := by
  simp only [drop]
  split
  · exact ⟨.same (SameQ.refl q' s), SameClock.refl s⟩
  · rename_i q _
    split
    · rename_i hc
      obtain ⟨hnd, _⟩ := wf_chain cfg hwf q hc
      have h1 := decChain_rel cfg (cfg.chainOf q) r q' hnd (micro cfg s (.rmPop r))
      have c1 := (decChain_env cfg (cfg.chainOf q) r (micro cfg s (.rmPop r))).clock
      exact ⟨DecRel.of_left (rmPop_sameQ cfg s r q') h1, (rmPop_clock cfg s r).trans c1⟩
    · exact ⟨.same (rmPop_sameQ cfg s r q'), rmPop_clock cfg s r⟩

theorem sysDec_rel (cfg : Cfg) (hwf : cfg.wf = true) (qs : List Nat) (r q' : Nat) :
    ∀ s, DecRel r q' s (sysDec cfg qs s r) ∧ SameClock s (sysDec cfg qs s r) := by
  induction qs with
  | nil => intro s; exact ⟨.same (SameQ.refl q' s), SameClock.refl s⟩
  | cons q rest ih =>
    intro s
    simp only [sysDec]
    generalize hs0 : micro cfg s (.rmSet r q) = s0
    have e0 : SameQ q' s s0 := by rw [← hs0]; exact rmSet_sameQ cfg s r q q'
    have c0 : SameClock s s0 := by rw [← hs0]; exact rmSet_clock cfg s r q
    split
    · rename_i hc
      obtain ⟨hnd, _⟩ := wf_chain cfg hwf q hc
      have h1 := decChain_rel cfg (cfg.chainOf q) r q' hnd s0
      have c1 := (decChain_env cfg (cfg.chainOf q) r s0).clock
      obtain ⟨h2, c2⟩ := ih (decChain cfg (cfg.chainOf q) s0 r)
      exact ⟨DecRel.of_left e0 (h1.trans h2), c0.trans (c1.trans c2)⟩
    · obtain ⟨h2, c2⟩ := ih s0
      exact ⟨DecRel.of_left e0 h2, c0.trans c2⟩

theorem endFlows_rel (cfg : Cfg) (hwf : cfg.wf = true) (s : S) (r q' : Nat) :
    DecRel r q' s (endFlows cfg s r) ∧ SameClock s (endFlows cfg s r) := by
  simp only [endFlows]
  obtain ⟨h1, c1⟩ := sysDec_rel cfg hwf cfg.wiredDec.toList r q' s
  exact ⟨h1.trans (.same (rmPop_sameQ cfg _ r q')), c1.trans (rmPop_clock cfg _ r)⟩


/-! ### Event-level runs are sequences of critical sections -/

theorem reach_incChain (cfg : Cfg) (ch : List Nat) (r : Nat) : ∀ s, Reach cfg s → Reach cfg (incChain cfg ch s r) := by
  induction ch with
  | nil => intro s h; exact h
  | cons q rest ih =>
    intro s h
    simp only [incChain]
    split
    · exact h
    · split
      · exact .step _ _ (ih _ (.step _ _ h))
      · exact h

theorem reach_allowedChain (cfg : Cfg) (ch : List Nat) (r : Nat) :
    ∀ s, Reach cfg s → Reach cfg (allowedChain cfg ch s r).1 := by
  induction ch with
  | nil => intro s h; exact h
  | cons q rest ih =>
    intro s h
    simp only [allowedChain]
    split
    · exact ih _ (reach_incChain cfg _ r s h)
    · exact reach_incChain cfg _ r s h

theorem reach_decChain (cfg : Cfg) (ch : List Nat) (r : Nat) : ∀ s, Reach cfg s → Reach cfg (decChain cfg ch s r) := by
  induction ch with
  | nil => intro s h; exact h
  | cons q rest ih =>
    intro s h
    simp only [decChain]
    split
    · exact h
    · exact .step _ _ (ih _ (.step _ _ h))

theorem reach_limiter (cfg : Cfg) (s : S) (q r : Nat) (h : Reach cfg s) : Reach cfg (limiter cfg s q r).1 := by
  simp only [limiter]
  split
  · exact reach_allowedChain cfg _ r _ (reach_incChain cfg _ r _ (.step _ _ h))
  · show Reach cfg (micro cfg s (.rmSet r q)); exact .step _ _ h

theorem reach_userFlow (cfg : Cfg) (order : List Nat) (r : Nat) :
    ∀ s, Reach cfg s → Reach cfg (userFlow cfg order s r).1 := by
  induction order with
  | nil => intro s h; exact h
  | cons q rest ih =>
    intro s h
    simp only [userFlow]
    split
    · exact ih _ (reach_limiter cfg s q r h)
    · exact reach_limiter cfg s q r h

theorem reach_sysInc (cfg : Cfg) (qs : List Nat) (r : Nat) : ∀ s, Reach cfg s → Reach cfg (sysInc cfg qs s r) := by
  induction qs with
  | nil => intro s h; exact h
  | cons q rest ih =>
    intro s h
    simp only [sysInc]
    split
    · exact ih _ (reach_incChain cfg _ r _ (.step _ _ h))
    · exact ih _ (.step _ _ h)

theorem reach_drop (cfg : Cfg) (s : S) (r : Nat) (h : Reach cfg s) : Reach cfg (drop cfg s r) := by
  simp only [drop]
  split
  · exact h
  · split
    · exact reach_decChain cfg _ r _ (.step _ _ h)
    · exact .step _ _ h

theorem reach_sysDec (cfg : Cfg) (qs : List Nat) (r : Nat) : ∀ s, Reach cfg s → Reach cfg (sysDec cfg qs s r) := by
  induction qs with
  | nil => intro s h; exact h
  | cons q rest ih =>
    intro s h
    simp only [sysDec]
    split
    · exact ih _ (reach_decChain cfg _ r _ (.step _ _ h))
    · exact ih _ (.step _ _ h)

theorem reach_endFlows (cfg : Cfg) (s : S) (r : Nat) (h : Reach cfg s) : Reach cfg (endFlows cfg s r) :=
  .step _ _ (reach_sysDec cfg _ r s h)

theorem reach_reqEvent (cfg : Cfg) (s : S) (r : Nat) (post : Bool) (h : Reach cfg s) :
    Reach cfg (reqEvent cfg s r post).1 := by
  have hM := reach_userFlow cfg cfg.order r _ (reach_sysInc cfg cfg.sysStart r s h)
  simp only [reqEvent]
  split
  · exact reach_endFlows cfg _ r (reach_drop cfg _ r hM)
  · split
    · exact reach_endFlows cfg _ r (reach_drop cfg _ r hM)
    · exact hM

theorem reach_gcLoop (cfg : Cfg) (q : Nat) (is : List Nat) :
    ∀ arr s, Reach cfg s → Reach cfg (gcLoop cfg q is arr s) := by
  induction is with
  | nil => intro arr s h; exact h
  | cons i rest ih =>
    intro arr s h
    simp only [gcLoop]
    split
    · exact ih _ _ h
    · split
      · exact ih _ _ (.step _ _ (.step _ _ h))
      · exact ih _ _ h

theorem reach_gcQuota (cfg : Cfg) (s : S) (q : Nat) (h : Reach cfg s) : Reach cfg (gcQuota cfg s q) := by
  simp only [gcQuota]; split
  · exact reach_gcLoop cfg q _ _ s h
  · exact h

theorem reach_foldl_gc (cfg : Cfg) (qs : List Nat) : ∀ s, Reach cfg s → Reach cfg (qs.foldl (gcQuota cfg) s) := by
  induction qs with
  | nil => intro s h; exact h
  | cons q rest ih => intro s h; exact ih _ (reach_gcQuota cfg s q h)

theorem reach_tickN (cfg : Cfg) (k : Nat) : ∀ s, Reach cfg s → Reach cfg (tickN cfg k s) := by
  induction k with
  | zero => intro s h; exact h
  | succ k ih =>
    intro s h
    simp only [tickN]
    exact ih _ (.step _ _ (reach_foldl_gc cfg _ _ (.step _ _ h)))

theorem reach_event (cfg : Cfg) (s : S) (e : Event) (h : Reach cfg s) : Reach cfg (event cfg s e).1 := by
  cases e with
  | req r post => exact reach_reqEvent cfg s r post h
  | resp r => exact reach_endFlows cfg s r h
  | err r => exact reach_drop cfg s r h
  | adv d =>
    show Reach cfg (advance cfg s d)
    simp only [advance]
    exact .step _ _ (reach_tickN cfg _ s h)

theorem reach_final (cfg : Cfg) (es : List Event) : ∀ s, Reach cfg s → Reach cfg (final cfg s es) := by
  induction es with
  | nil => intro s h; exact h
  | cons e rest ih => intro s h; exact ih _ (reach_event cfg s e h)


/-! ### `reqIDToQuota` -/

theorem rmSet_rm (cfg : Cfg) (s : S) (r q r' : Nat) :
    (micro cfg s (.rmSet r q)).rm r' = if r' = r ∧ s.rm r = none then some q else s.rm r' := by
  simp only [micro]
  split
  · rename_i h
    have : s.rm r ≠ none := by intro e; rw [e] at h; cases h
    simp [this]
  · rename_i h
    have : s.rm r = none := by cases hh : s.rm r <;> simp_all
    simp [this]

/-- `reqIDToQuota` after an `Inc`-type phase for `r`: other requests untouched, an existing entry kept. -/
def RmMono (r : Nat) (s s' : S) : Prop :=
  (∀ r', r' ≠ r → s'.rm r' = s.rm r') ∧ (∀ x, s.rm r = some x → s'.rm r = some x)

theorem RmMono.refl (r : Nat) (s : S) : RmMono r s s := ⟨fun _ _ => rfl, fun _ h => h⟩
theorem RmMono.trans {r : Nat} {s s' s'' : S} (h1 : RmMono r s s') (h2 : RmMono r s' s'') : RmMono r s s'' :=
  ⟨fun r' hr => (h2.1 r' hr).trans (h1.1 r' hr), fun x hx => h2.2 x (h1.2 x hx)⟩
theorem RmMono.of_eq {r : Nat} {s s' : S} (h : s'.rm = s.rm) : RmMono r s s' :=
  ⟨fun _ _ => by rw [h], fun _ hx => by rw [h]; exact hx⟩

theorem rmSet_mono (cfg : Cfg) (s : S) (r q : Nat) :
    RmMono r s (micro cfg s (.rmSet r q)) ∧ (s.rm r = none → (micro cfg s (.rmSet r q)).rm r = some q) := by
  refine ⟨⟨?_, ?_⟩, ?_⟩
  · intro r' hr; rw [rmSet_rm]; simp [hr]
  · intro x hx; rw [rmSet_rm]; simp [hx]
  · intro hn; rw [rmSet_rm]; simp [hn]

theorem limiter_rm (cfg : Cfg) (s : S) (q r : Nat) :
    RmMono r s (limiter cfg s q r).1 ∧ (s.rm r = none → (limiter cfg s q r).1.rm r = some q) := by
  have h0 := rmSet_mono cfg s r q
  simp only [limiter]
  split
  · have e1 := (incChain_env cfg (cfg.chainOf q) r (micro cfg s (.rmSet r q))).2.2
    have e2 := (allowedChain_env cfg (cfg.chainOf q) r (incChain cfg (cfg.chainOf q) (micro cfg s (.rmSet r q)) r)).2.2
    have e : (allowedChain cfg (cfg.chainOf q) (incChain cfg (cfg.chainOf q) (micro cfg s (.rmSet r q)) r) r).1.rm
        = (micro cfg s (.rmSet r q)).rm := e2.trans e1
    exact ⟨h0.1.trans (RmMono.of_eq e), fun hn => by rw [e]; exact h0.2 hn⟩
  · exact h0

theorem userFlow_rm (cfg : Cfg) (order : List Nat) (r : Nat) :
    ∀ s, RmMono r s (userFlow cfg order s r).1 ∧
      (∀ q, order.head? = some q → s.rm r = none → (userFlow cfg order s r).1.rm r = some q) := by
  induction order with
  | nil => intro s; exact ⟨RmMono.refl r s, by intro q h; cases h⟩
  | cons q rest ih =>
    intro s
    simp only [userFlow]
    obtain ⟨m1, f1⟩ := limiter_rm cfg s q r
    split
    · obtain ⟨m2, _⟩ := ih (limiter cfg s q r).1
      refine ⟨m1.trans m2, ?_⟩
      intro q' hq' hn
      simp at hq'; subst hq'
      exact m2.2 _ (f1 hn)
    · refine ⟨m1, ?_⟩
      intro q' hq' hn
      simp at hq'; subst hq'
      exact f1 hn

theorem sysInc_rm (cfg : Cfg) (qs : List Nat) (r : Nat) :
    ∀ s, RmMono r s (sysInc cfg qs s r) ∧
      (∀ q, qs.head? = some q → s.rm r = none → (sysInc cfg qs s r).rm r = some q) := by
  induction qs with
  | nil => intro s; exact ⟨RmMono.refl r s, by intro q h; cases h⟩
  | cons q rest ih =>
    intro s
    simp only [sysInc]
    obtain ⟨m1, f1⟩ := rmSet_mono cfg s r q
    split
    · have e1 := (incChain_env cfg (cfg.chainOf q) r (micro cfg s (.rmSet r q))).2.2
      obtain ⟨m2, _⟩ := ih (incChain cfg (cfg.chainOf q) (micro cfg s (.rmSet r q)) r)
      refine ⟨(m1.trans (RmMono.of_eq e1)).trans m2, ?_⟩
      intro q' hq' hn
      simp at hq'; subst hq'
      exact m2.2 _ (by rw [e1]; exact f1 hn)
    · obtain ⟨m2, _⟩ := ih (micro cfg s (.rmSet r q))
      refine ⟨m1.trans m2, ?_⟩
      intro q' hq' hn
      simp at hq'; subst hq'
      exact m2.2 _ (f1 hn)

/-- The `Inc` phase of a request event: live system start flows, then the user flow's limiters. -/
def incPhase (cfg : Cfg) (s : S) (r : Nat) : S × Bool :=
  userFlow cfg cfg.order (sysInc cfg cfg.sysStart s r) r

theorem incPhase_rel (cfg : Cfg) (hwf : cfg.wf = true) (s : S) (r q : Nat) :
    IncRel cfg r s.now q s (incPhase cfg s r).1 ∧ SameClock s (incPhase cfg s r).1 := by
  obtain ⟨h1, c1⟩ := sysInc_rel cfg hwf cfg.sysStart r q s
  obtain ⟨h2, c2⟩ := userFlow_rel cfg hwf cfg.order r q (sysInc cfg cfg.sysStart s r)
  rw [c1.1] at h2
  exact ⟨h1.trans h2, c1.trans c2⟩

theorem incPhase_rm (cfg : Cfg) (s : S) (r : Nat) :
    RmMono r s (incPhase cfg s r).1 ∧
      (∀ q, cfg.firstTouched = some q → s.rm r = none → (incPhase cfg s r).1.rm r = some q) := by
  obtain ⟨m1, f1⟩ := sysInc_rm cfg cfg.sysStart r s
  obtain ⟨m2, f2⟩ := userFlow_rm cfg cfg.order r (sysInc cfg cfg.sysStart s r)
  refine ⟨m1.trans m2, ?_⟩
  intro q hq hn
  simp only [Cfg.firstTouched] at hq
  cases hs : cfg.sysStart with
  | nil =>
    rw [hs] at hq; simp at hq
    have : sysInc cfg cfg.sysStart s r = s := by rw [hs]; rfl
    simp only [incPhase]
    rw [this]
    rw [this] at f2
    exact f2 q hq hn
  | cons q0 rest =>
    rw [hs] at hq; simp at hq; subst hq
    exact m2.2 _ (f1 q0 (by rw [hs]; rfl) hn)

theorem reqEvent_eq (cfg : Cfg) (s : S) (r : Nat) (post : Bool) :
    reqEvent cfg s r post =
      if !(incPhase cfg s r).2 then (endFlows cfg (drop cfg (incPhase cfg s r).1 r) r, .refused)
      else if cfg.early && post then (endFlows cfg (drop cfg (incPhase cfg s r).1 r) r, .early)
      else ((incPhase cfg s r).1, .admitted) := rfl

theorem drop_rm (cfg : Cfg) (s : S) (r r' : Nat) : (drop cfg s r).rm r' = if r' = r then none else s.rm r' := by
  simp only [drop]
  split
  · rename_i h; by_cases e : r' = r <;> simp [e, h]
  · rename_i q _
    split
    · rw [(decChain_env cfg (cfg.chainOf q) r (micro cfg s (.rmPop r))).2.2]; rfl
    · rfl

theorem sysDec_rm (cfg : Cfg) (qs : List Nat) (r : Nat) : ∀ s, RmMono r s (sysDec cfg qs s r) := by
  induction qs with
  | nil => intro s; exact RmMono.refl r s
  | cons q rest ih =>
    intro s
    simp only [sysDec]
    obtain ⟨m1, _⟩ := rmSet_mono cfg s r q
    split
    · have e1 := (decChain_env cfg (cfg.chainOf q) r (micro cfg s (.rmSet r q))).2.2
      exact (m1.trans (RmMono.of_eq e1)).trans (ih _)
    · exact m1.trans (ih _)

theorem endFlows_rm (cfg : Cfg) (s : S) (r r' : Nat) :
    (endFlows cfg s r).rm r' = if r' = r then none else s.rm r' := by
  simp only [endFlows]
  show (if r' = r then none else (sysDec cfg cfg.wiredDec.toList s r).rm r') = _
  by_cases e : r' = r
  · simp [e]
  · simp [e]; exact (sysDec_rm cfg _ r s).1 r' e


/-! ### Verdicts -/

theorem IncRel.keeps {cfg : Cfg} {r now q : Nat} {s s' : S} (h : IncRel cfg r now q s s')
    (hs : (s.allowed q r).isSome = true) : (s'.allowed q r).isSome = true := by
  cases h with
  | same e => rw [e.2]; exact hs
  | added hn _ _ _ => rw [hn] at hs; cases hs

/-- The limiters all said `below_limit`: the request has a status at every level of every concurrent
    limiter's chain. -/
theorem userFlow_true (cfg : Cfg) (hwf : cfg.wf = true) (order : List Nat) (r : Nat) :
    ∀ s, (userFlow cfg order s r).2 = true →
      ∀ q0 ∈ order, cfg.isConc q0 = true → ∀ q ∈ cfg.chainOf q0,
        ((userFlow cfg order s r).1.allowed q r).isSome = true := by
  induction order with
  | nil => intro s _ q0 h; cases h
  | cons q1 rest ih =>
    intro s
    simp only [userFlow]
    split
    · rename_i hok
      intro ht q0 hq0 hc q hq
      rcases List.mem_cons.mp hq0 with e | e
      · subst e
        obtain ⟨hnd, _⟩ := wf_chain cfg hwf q0 hc
        have h1 : ((limiter cfg s q0 r).1.allowed q r).isSome = true := by
          have hok' := hok
          simp only [limiter, hc, if_true] at hok' ⊢
          exact allowedChain_true cfg _ r hnd _ hok' q hq
        obtain ⟨h2, _⟩ := userFlow_rel cfg hwf rest r q (limiter cfg s q0 r).1
        exact h2.keeps h1
      · exact ih _ ht q0 e hc q hq
    · intro ht; cases ht

/-- Some limiter said `above_limit`: at some level of its chain the request has no status and the set is full. -/
theorem userFlow_false (cfg : Cfg) (hwf : cfg.wf = true) (order : List Nat) (r : Nat) :
    ∀ s, (userFlow cfg order s r).2 = false →
      ∃ q0 ∈ order, cfg.isConc q0 = true ∧ ∃ q ∈ cfg.chainOf q0,
        (userFlow cfg order s r).1.allowed q r = none ∧
        cfg.max q ≤ ((userFlow cfg order s r).1.members q).length := by
  induction order with
  | nil => intro s h; simp [userFlow] at h
  | cons q1 rest ih =>
    intro s
    simp only [userFlow]
    split
    · intro hf
      obtain ⟨q0, hq0, hc, q, hq, h1, h2⟩ := ih _ hf
      exact ⟨q0, List.mem_cons_of_mem _ hq0, hc, q, hq, h1, h2⟩
    · rename_i hno
      intro _
      have hno' : (limiter cfg s q1 r).2 = false := by simpa using hno
      by_cases hc : cfg.isConc q1 = true
      · obtain ⟨hnd, _⟩ := wf_chain cfg hwf q1 hc
        simp only [limiter, hc, if_true] at hno' ⊢
        obtain ⟨q, hq, h1, h2⟩ := allowedChain_false cfg _ r hnd _ hno'
        exact ⟨q1, List.mem_cons_self, hc, q, hq, h1, h2⟩
      · simp [limiter, hc] at hno'

/-! ### What a `Dec` reaches -/

def st (s : S) (r : Nat) (q : Nat) : Bool := (s.allowed q r).isSome

/-- `Dec` on a chain clears the status exactly on the leading levels that have one; everything else keeps
    its set and status map. -/
theorem decChain_reach (cfg : Cfg) (ch : List Nat) (r : Nat) (hnd : ch.Nodup) :
    ∀ s, (∀ q ∈ ch.takeWhile (st s r), (decChain cfg ch s r).allowed q r = none) ∧
         (∀ q, q ∉ ch.takeWhile (st s r) → SameQ q s (decChain cfg ch s r)) := by
  induction ch with
  | nil => intro s; exact ⟨(by intro q h; cases h), fun q _ => SameQ.refl q s⟩
  | cons q0 rest ih =>
    intro s
    have hqr : q0 ∉ rest := (List.nodup_cons.mp hnd).1
    have hnd' : rest.Nodup := (List.nodup_cons.mp hnd).2
    simp only [decChain]
    split
    · rename_i hn
      have : st s r q0 = false := by simp [st, hn]
      simp only [List.takeWhile_cons, this]
      exact ⟨(by intro q h; cases h), fun q _ => SameQ.refl q s⟩
    · rename_i m hs
      have hst : st s r q0 = true := by simp [st, hs]
      generalize hs1 : micro cfg s (.srem q0 m) = s1
      have hal : s1.allowed = s.allowed := by rw [← hs1]; simp
      have hst1 : st s1 r = st s r := by funext q; simp [st, hal]
      obtain ⟨i1, i2⟩ := ih hnd' s1
      rw [hst1] at i1 i2
      simp only [List.takeWhile_cons, hst, if_true]
      constructor
      · intro q hq
        rcases List.mem_cons.mp hq with e | e
        · subst e; simp [del_allowed]
        · have hne : q ≠ q0 := fun e2 => hqr (e2 ▸ (List.takeWhile_sublist _).subset e)
          simp only [del_allowed, hne, false_and, if_false]
          exact i1 q e
      · intro q hq
        have hne : q ≠ q0 := fun e => hq (by simp [e])
        have hq' : q ∉ rest.takeWhile (st s r) := fun e => hq (List.mem_cons_of_mem _ e)
        obtain ⟨f1, f2⟩ := i2 q hq'
        constructor
        · simp only [del_members, f1]; rw [← hs1, srem_members]; simp [hne]
        · funext r'; simp only [del_allowed, hne, false_and, if_false, f2, hal]

theorem takeWhile_congr' {α : Type} (p p' : α → Bool) (l : List α) (h : ∀ x ∈ l, p x = p' x) :
    l.takeWhile p = l.takeWhile p' := by
  induction l with
  | nil => rfl
  | cons a rest ih =>
    simp only [List.takeWhile_cons, h a List.mem_cons_self]
    split
    · rw [ih (fun x hx => h x (List.mem_cons_of_mem _ hx))]
    · rfl

theorem holds_others_false (r : Nat) (l : List Member) : holdsSlot r (others r l) = false := by
  simp [holdsSlot, others]

theorem others_of_not_holds (r : Nat) (l : List Member) (h : holdsSlot r l = false) : others r l = l := by
  rw [others, List.filter_eq_self]
  intro m hm
  simp only [holdsSlot, List.any_eq_false, beq_iff_eq] at h
  simpa using h m hm

/-- One `Dec`-type call that clears `reach` and keeps everything else gives every quota's set the shape the
    Spec asks for, provided the request holds no slot outside `reach`. -/
theorem dec_exact {s s' : S} {r q : Nat} (hJ : JQ s q) (hrel : DecRel r q s s')
    (hclear : (s.allowed q r).isSome = true → s'.allowed q r = none) :
    s'.members q = others r (s.members q) := by
  cases hrel with
  | same e =>
    cases hs : s.allowed q r with
    | none => rw [e.1, hJ.others_eq_self hs]
    | some m =>
      have := hclear (by simp [hs])
      rw [e.2, hs] at this; cases this
  | removed m hs hm _ => rw [hm, hJ.erase_eq_others hs]

/-! ### Shape of a set across a request event -/

theorem shape {cfg : Cfg} {s M s' : S} {r now q : Nat} (hJ : JQ s q)
    (hi : IncRel cfg r now q s M) (hd : DecRel r q M s') :
    s'.members q = s.members q ∨ s'.members q = others r (s.members q) ∨
    s'.members q = s.members q ++ [⟨now + cfg.exp q, r⟩] := by
  have hJM : JQ M q := hJ.inc hi
  cases hd with
  | same e =>
    cases hi with
    | same e0 => left; rw [e.1, e0.1]
    | added _ _ hm _ => right; right; rw [e.1, hm]
  | removed m hs hm _ =>
    cases hi with
    | same e0 =>
      right; left
      rw [hm, e0.1]
      exact hJ.erase_eq_others (by rw [← e0.2]; exact hs)
    | added hn _ hm0 ha =>
      left
      rw [hm, hJM.erase_eq_others hs, hm0]
      have : others r (s.members q ++ [⟨now + cfg.exp q, r⟩]) = others r (s.members q) := by
        simp [others, List.filter_append]
      rw [this, hJ.others_eq_self hn]


/-! ### Prefix-closed holdings along a chain -/

/-- `f` is true on a prefix of the list and false on the rest. -/
def PC (f : Nat → Bool) : List Nat → Prop
  | [] => True
  | q :: rest => (f q = true ∧ PC f rest) ∨ (f q = false ∧ ∀ q' ∈ rest, f q' = false)

theorem PC_of_all_false (f : Nat → Bool) : ∀ l : List Nat, (∀ q ∈ l, f q = false) → PC f l
  | [], _ => trivial
  | q :: rest, h => Or.inr ⟨h q List.mem_cons_self, fun q' hq' => h q' (List.mem_cons_of_mem _ hq')⟩

theorem PC_congr (f g : Nat → Bool) : ∀ l : List Nat, (∀ q ∈ l, f q = g q) → PC f l → PC g l
  | [], _, _ => trivial
  | q :: rest, h, hp => by
    have hq := h q List.mem_cons_self
    have hr : ∀ q' ∈ rest, f q' = g q' := fun q' hq' => h q' (List.mem_cons_of_mem _ hq')
    rcases hp with ⟨h1, h2⟩ | ⟨h1, h2⟩
    · exact Or.inl ⟨by rw [← hq]; exact h1, PC_congr f g rest hr h2⟩
    · exact Or.inr ⟨by rw [← hq]; exact h1, fun q' hq' => by rw [← hr q' hq']; exact h2 q' hq'⟩

theorem PC_of_filter_eq_takeWhile (f : Nat → Bool) :
    ∀ l : List Nat, l.filter f = l.takeWhile f → PC f l
  | [], _ => trivial
  | q :: rest, h => by
    cases hq : f q with
    | true =>
      simp only [List.filter_cons, List.takeWhile_cons, hq, if_true] at h
      exact Or.inl ⟨hq, PC_of_filter_eq_takeWhile f rest (List.cons.inj h).2⟩
    | false =>
      simp only [List.filter_cons, List.takeWhile_cons, hq] at h
      refine Or.inr ⟨hq, ?_⟩
      intro q' hq'
      cases hf : f q' with
      | false => rfl
      | true =>
        have : q' ∈ rest.filter f := List.mem_filter.mpr ⟨hq', hf⟩
        simp at h
        exact absurd hf (by simpa using h q' hq')

theorem PC_false_outside (f : Nat → Bool) : ∀ l : List Nat, PC f l → ∀ q ∈ l, q ∉ l.takeWhile f → f q = false
  | [], _, q, hq, _ => by cases hq
  | q0 :: rest, hp, q, hq, hn => by
    rcases hp with ⟨h1, h2⟩ | ⟨h1, h2⟩
    · simp only [List.takeWhile_cons, h1, if_true] at hn
      rcases List.mem_cons.mp hq with e | e
      · subst e; exact absurd List.mem_cons_self hn
      · exact PC_false_outside f rest h2 q e (fun hh => hn (List.mem_cons_of_mem _ hh))
    · rcases List.mem_cons.mp hq with e | e
      · subst e; exact h1
      · exact h2 q e

theorem st_of_sameQ {s s' : S} {r q : Nat} (e : SameQ q s s') : st s' r q = st s r q := by
  simp [st, e.2]

theorem incChain_pc (cfg : Cfg) (ch : List Nat) (r : Nat) (hnd : ch.Nodup) :
    ∀ s, PC (st s r) ch → PC (st (incChain cfg ch s r) r) ch := by
  induction ch with
  | nil => intro s _; trivial
  | cons q rest ih =>
    intro s hp
    have hqr : q ∉ rest := (List.nodup_cons.mp hnd).1
    have hnd' : rest.Nodup := (List.nodup_cons.mp hnd).2
    simp only [incChain]
    split
    · exact hp
    · rename_i hst
      split
      · generalize hs1 : micro cfg s (.sadd q ⟨s.now + cfg.exp q, r⟩) = s1
        have hal : s1.allowed = s.allowed := by rw [← hs1]; simp
        rcases hp with ⟨h1, _⟩ | ⟨_, h2⟩
        · exact absurd h1 (by simpa [st] using hst)
        · have hp1 : PC (st s1 r) rest := PC_of_all_false _ rest (fun q' hq' => by simpa [st, hal] using h2 q' hq')
          have hp2 := ih hnd' s1 hp1
          refine Or.inl ⟨by simp [st, setst_allowed], ?_⟩
          refine PC_congr _ _ rest ?_ hp2
          intro q' hq'
          have hne : q' ≠ q := fun e => hqr (e ▸ hq')
          simp [st, setst_allowed, hne]
      · exact hp

theorem allowedChain_pc (cfg : Cfg) (ch : List Nat) (r : Nat) (hnd : ch.Nodup) :
    ∀ s, PC (st s r) ch → PC (st (allowedChain cfg ch s r).1 r) ch := by
  induction ch with
  | nil => intro s _; trivial
  | cons q rest ih =>
    intro s hp
    have hqr : q ∉ rest := (List.nodup_cons.mp hnd).1
    have hnd' : rest.Nodup := (List.nodup_cons.mp hnd).2
    have h1 := incChain_pc cfg (q :: rest) r hnd s hp
    simp only [allowedChain]
    split
    · rename_i hst
      rcases h1 with ⟨_, h3⟩ | ⟨h2, _⟩
      · refine Or.inl ⟨?_, ih hnd' _ h3⟩
        rw [st_of_sameQ (allowedChain_frame cfg rest r q hqr _)]
        simpa [st] using hst
      · exact absurd hst (by simpa [st] using h2)
    · exact h1

theorem decChain_clears (cfg : Cfg) (ch : List Nat) (r : Nat) (hnd : ch.Nodup) (s : S)
    (hp : PC (st s r) ch) : ∀ q ∈ ch, (decChain cfg ch s r).allowed q r = none := by
  intro q hq
  obtain ⟨h1, h2⟩ := decChain_reach cfg ch r hnd s
  by_cases hin : q ∈ ch.takeWhile (st s r)
  · exact h1 q hin
  · rw [(h2 q hin).2]
    have := PC_false_outside _ ch hp q hq hin
    simpa [st] using this

theorem limiter_pc (cfg : Cfg) (hwf : cfg.wf = true) (ch : List Nat) (s : S) (q r : Nat)
    (hq : cfg.isConc q = true → cfg.chainOf q = ch) (hp : PC (st s r) ch) :
    PC (st (limiter cfg s q r).1 r) ch := by
  have hp0 : PC (st (micro cfg s (.rmSet r q)) r) ch :=
    PC_congr _ _ ch (fun q' _ => (st_of_sameQ (rmSet_sameQ cfg s r q q')).symm) hp
  simp only [limiter]
  split
  · rename_i hc
    obtain ⟨hnd, _⟩ := wf_chain cfg hwf q hc
    rw [hq hc] at hnd ⊢
    exact allowedChain_pc cfg ch r hnd _ (incChain_pc cfg ch r hnd _ hp0)
  · exact hp0

theorem userFlow_pc (cfg : Cfg) (hwf : cfg.wf = true) (ch : List Nat) (order : List Nat) (r : Nat)
    (ho : ∀ q ∈ order, cfg.isConc q = true → cfg.chainOf q = ch) :
    ∀ s, PC (st s r) ch → PC (st (userFlow cfg order s r).1 r) ch := by
  induction order with
  | nil => intro s hp; exact hp
  | cons q rest ih =>
    intro s hp
    have h1 := limiter_pc cfg hwf ch s q r (ho q List.mem_cons_self) hp
    simp only [userFlow]
    split
    · exact ih (fun q' hq' => ho q' (List.mem_cons_of_mem _ hq')) _ h1
    · exact h1

theorem sysInc_nonconc (cfg : Cfg) (qs : List Nat) (r q' : Nat) (hq : ∀ q ∈ qs, cfg.isConc q = false) :
    ∀ s, SameQ q' s (sysInc cfg qs s r) := by
  induction qs with
  | nil => intro s; exact SameQ.refl q' s
  | cons q rest ih =>
    intro s
    simp only [sysInc, hq q List.mem_cons_self]
    exact (rmSet_sameQ cfg s r q q').trans (ih (fun q'' h => hq q'' (List.mem_cons_of_mem _ h)) _)

theorem incPhase_rmft (cfg : Cfg) (s : S) (r : Nat)
    (h : ∀ q, s.rm r = some q → cfg.firstTouched = some q) :
    ∀ q, (incPhase cfg s r).1.rm r = some q → cfg.firstTouched = some q := by
  intro q hq
  obtain ⟨m, f⟩ := incPhase_rm cfg s r
  cases hs : s.rm r with
  | some y => rw [m.2 y hs] at hq; rw [← Option.some.inj hq]; exact h y hs
  | none =>
    cases hft : cfg.firstTouched with
    | some q0 => rw [f q0 hft hs] at hq; exact hq
    | none =>
      exfalso
      simp only [Cfg.firstTouched, List.head?_eq_none_iff, List.append_eq_nil_iff] at hft
      have : (incPhase cfg s r).1 = s := by simp [incPhase, hft.1, hft.2, sysInc, userFlow]
      rw [this, hs] at hq; cases hq


/-! ### The GC -/

/-- Effect of GC work on quota `q` at instant `now`. -/
structure GcStep (q now : Nat) (s s' : S) : Prop where
  sub : (s'.members q).Sublist (s.members q)
  exp : ∀ m ∈ s.members q, m ∈ s'.members q ∨ m.expiry ≤ now
  env : SameEnv s s'
  frame : ∀ q', q' ≠ q → SameQ q' s s'

theorem GcStep.refl (q now : Nat) (s : S) : GcStep q now s s :=
  ⟨List.Sublist.refl _, fun _ h => Or.inl h, SameEnv.refl s, fun q' _ => SameQ.refl q' s⟩

theorem GcStep.trans {q now : Nat} {s s' s'' : S} (h1 : GcStep q now s s') (h2 : GcStep q now s' s'') :
    GcStep q now s s'' :=
  ⟨h2.sub.trans h1.sub,
   fun m hm => by
     rcases h1.exp m hm with h | h
     · exact h2.exp m h
     · exact Or.inr h,
   h1.env.trans h2.env,
   fun q' hq' => (h1.frame q' hq').trans (h2.frame q' hq')⟩

/-- Loop invariant of `checkForExpiredRequests`: `init` is the set at loop start, `arr` the backing array. -/
structure LI (q : Nat) (init arr : List Member) (s : S) : Prop where
  arr_sub : ∀ m ∈ arr, m ∈ init
  mem_sub : ∀ m ∈ s.members q, m ∈ init
  jq : JQ s q
  gone : ∀ m ∈ init, m ∉ s.members q → s.allowed q m.req = none

theorem gc_remove_step (cfg : Cfg) (q : Nat) (init arr : List Member) (s : S) (m : Member)
    (hli : LI q init arr s) (hm : m ∈ arr) (he : m.expiry ≤ s.now) :
    let s2 := micro cfg (micro cfg s (.srem q m)) (.del q m.req)
    let arr' := if m ∈ s.members q then (s.members q).erase m ++ arr.drop ((s.members q).length - 1) else arr
    LI q init arr' s2 ∧ GcStep q s.now s s2 := by
  intro s2 arr'
  have hmem2 : ∀ q', s2.members q' = if q' = q then (s.members q).erase m else s.members q' := by
    intro q'; simp only [s2, del_members, srem_members]
  have hal2 : ∀ q' r', s2.allowed q' r' = if q' = q ∧ r' = m.req then none else s.allowed q' r' := by
    intro q' r'; simp only [s2, del_allowed, srem_allowed]
  have henv : SameEnv s s2 := ⟨by simp [s2], by simp [s2], by simp [s2]⟩
  have hframe : ∀ q', q' ≠ q → SameQ q' s s2 := by
    intro q' hq'
    exact ⟨by rw [hmem2]; simp [hq'], by funext r'; rw [hal2]; simp [hq']⟩
  by_cases hin : m ∈ s.members q
  · have hst := hli.jq.has m hin
    have hrel : DecRel m.req q s s2 :=
      .removed m hst (by rw [hmem2]; simp) (by intro r'; rw [hal2]; simp)
    refine ⟨⟨?_, ?_, hli.jq.dec hrel, ?_⟩, ⟨?_, ?_, henv, hframe⟩⟩
    · intro m' hm'
      simp only [arr', hin, if_true] at hm'
      rcases List.mem_append.mp hm' with h | h
      · exact hli.mem_sub m' (List.mem_of_mem_erase h)
      · exact hli.arr_sub m' (List.mem_of_mem_drop h)
    · intro m' hm'
      rw [hmem2] at hm'; simp at hm'
      exact hli.mem_sub m' (List.mem_of_mem_erase hm')
    · intro m0 hm0 hnot
      rw [hmem2] at hnot; simp at hnot
      rw [hal2]
      by_cases e : m0.req = m.req
      · simp [e]
      · simp [e]
        by_cases hin0 : m0 ∈ s.members q
        · have hne : m0 ≠ m := fun e2 => e (by rw [e2])
          exact absurd ((List.mem_erase_of_ne hne).mpr hin0) hnot
        · exact hli.gone m0 hm0 hin0
    · rw [hmem2]; simp; exact List.erase_sublist
    · intro m' hm'
      by_cases e : m' = m
      · right; rw [e]; exact he
      · left; rw [hmem2]; simp; exact (List.mem_erase_of_ne e).mpr hm'
  · have hnone := hli.gone m (hli.arr_sub m hm) hin
    have hsame : SameQ q s s2 := by
      constructor
      · rw [hmem2]; simp; exact hin
      · funext r'
        rw [hal2]
        by_cases e : r' = m.req
        · simp [e, hnone]
        · simp [e]
    refine ⟨⟨?_, ?_, hli.jq.of_same hsame, ?_⟩, ⟨?_, ?_, henv, hframe⟩⟩
    · intro m' hm'; simp only [arr', hin, if_false] at hm'; exact hli.arr_sub m' hm'
    · intro m' hm'; rw [hsame.1] at hm'; exact hli.mem_sub m' hm'
    · intro m0 hm0 hnot
      rw [hsame.1] at hnot; rw [hsame.2]; exact hli.gone m0 hm0 hnot
    · rw [hsame.1]; exact List.Sublist.refl _
    · intro m' hm'; left; rw [hsame.1]; exact hm'

theorem gcLoop_spec (cfg : Cfg) (q : Nat) (init : List Member) (is : List Nat) :
    ∀ arr s, LI q init arr s →
      JQ (gcLoop cfg q is arr s) q ∧ GcStep q s.now s (gcLoop cfg q is arr s) := by
  induction is with
  | nil => intro arr s hli; exact ⟨hli.jq, GcStep.refl q s.now s⟩
  | cons i rest ih =>
    intro arr s hli
    simp only [gcLoop]
    split
    · exact ih arr s hli
    · rename_i m hget
      split
      · rename_i he
        have hm : m ∈ arr := List.mem_of_getElem? hget
        obtain ⟨hli2, hstep⟩ := gc_remove_step cfg q init arr s m hli hm he
        obtain ⟨hj, hs⟩ := ih _ _ hli2
        have hnow : (micro cfg (micro cfg s (.srem q m)) (.del q m.req)).now = s.now := by simp
        rw [hnow] at hs
        exact ⟨hj, hstep.trans hs⟩
      · exact ih arr s hli

theorem gcQuota_spec (cfg : Cfg) (s : S) (q0 : Nat) (hJ : ∀ q, JQ s q) :
    (∀ q, JQ (gcQuota cfg s q0) q) ∧ GcStep q0 s.now s (gcQuota cfg s q0) := by
  simp only [gcQuota]
  split
  · have hli : LI q0 (s.members q0) (s.members q0) s :=
      ⟨fun _ h => h, fun _ h => h, hJ q0, fun m hm hn => absurd hm hn⟩
    obtain ⟨hj, hs⟩ := gcLoop_spec cfg q0 (s.members q0) _ _ s hli
    refine ⟨?_, hs⟩
    intro q
    by_cases e : q = q0
    · subst e; exact hj
    · exact (hJ q).of_same (hs.frame q e)
  · exact ⟨hJ, GcStep.refl q0 s.now s⟩

/-- What one GC tick (all quotas) does to quota `q`. -/
structure GcQ (q now : Nat) (s s' : S) : Prop where
  sub : (s'.members q).Sublist (s.members q)
  exp : ∀ m ∈ s.members q, m ∈ s'.members q ∨ m.expiry ≤ now

theorem GcStep.toGcQ {q0 now : Nat} {s s' : S} (h : GcStep q0 now s s') (q : Nat) : GcQ q now s s' := by
  by_cases e : q = q0
  · subst e; exact ⟨h.sub, h.exp⟩
  · have f := h.frame q e
    exact ⟨by rw [f.1]; exact List.Sublist.refl _, fun m hm => Or.inl (by rw [f.1]; exact hm)⟩

theorem GcQ.trans {q now : Nat} {s s' s'' : S} (h1 : GcQ q now s s') (h2 : GcQ q now s' s'') : GcQ q now s s'' :=
  ⟨h2.sub.trans h1.sub, fun m hm => by
    rcases h1.exp m hm with h | h
    · exact h2.exp m h
    · exact Or.inr h⟩

theorem gcFold_spec (cfg : Cfg) (qs : List Nat) :
    ∀ s, (∀ q, JQ s q) →
      (∀ q, JQ (qs.foldl (gcQuota cfg) s) q) ∧ (∀ q, GcQ q s.now s (qs.foldl (gcQuota cfg) s)) ∧
      SameEnv s (qs.foldl (gcQuota cfg) s) := by
  induction qs with
  | nil =>
    intro s hJ
    exact ⟨hJ, fun q => ⟨List.Sublist.refl _, fun _ h => Or.inl h⟩, SameEnv.refl s⟩
  | cons q0 rest ih =>
    intro s hJ
    obtain ⟨hJ1, hs1⟩ := gcQuota_spec cfg s q0 hJ
    obtain ⟨hJ2, hq2, he2⟩ := ih _ hJ1
    simp only [List.foldl_cons]
    rw [hs1.env.1] at hq2
    exact ⟨hJ2, fun q => (hs1.toGcQ q).trans (hq2 q), hs1.env.trans he2⟩

theorem gcLoop_members_expired (cfg : Cfg) (q : Nat) (s : S) (m : Member) :
    (micro cfg (micro cfg s (.srem q m)) (.del q m.req)).members q = (s.members q).erase m ∧
    (micro cfg (micro cfg s (.srem q m)) (.del q m.req)).now = s.now := by
  constructor
  · simp only [del_members, srem_members]; simp
  · simp

theorem gcQuota_complete (cfg : Cfg) (s : S) (q : Nat) (hc : cfg.isConc q = true)
    (hlen : (s.members q).length ≤ 2) (hnd : (s.members q).Nodup) :
    ∀ m ∈ (gcQuota cfg s q).members q, s.now < m.expiry := by
  simp only [gcQuota, hc, if_true]
  match hm : s.members q, hlen, hnd with
  | [], _, _ =>
    simp [gcLoop, hm]
  | [a], _, _ =>
    simp only [List.length_singleton, List.range_succ, List.range_zero, List.nil_append, gcLoop,
      List.getElem?_cons_zero]
    split
    · intro m hmm
      rw [(gcLoop_members_expired cfg q s a).1, hm] at hmm
      simp at hmm
    · rename_i hne
      intro m hmm
      rw [hm] at hmm; simp at hmm; subst hmm; omega
  | [a, b], _, hnd' =>
    have hab : a ≠ b := by simpa using hnd'
    simp only [List.length_cons, List.length_nil, List.range_succ, List.range_zero, List.nil_append,
      List.cons_append, gcLoop, List.getElem?_cons_zero]
    have harr : (if a ∈ s.members q then (s.members q).erase a ++ List.drop ((s.members q).length - 1) [a, b]
        else [a, b])[1]? = some b := by rw [hm]; simp
    have harr2 : [a, b][1]? = some b := by simp
    rw [harr, harr2]
    dsimp only
    intro m
    by_cases ha : a.expiry ≤ s.now
    · simp only [ha, if_true]
      have h1 := gcLoop_members_expired cfg q s a
      rw [h1.2]
      by_cases hb : b.expiry ≤ s.now
      · simp only [hb, if_true]
        rw [(gcLoop_members_expired cfg q _ b).1, h1.1, hm]
        simp
      · simp only [hb, if_false]
        rw [h1.1, hm]
        simp
        intro e; subst e; omega
    · simp only [ha, if_false]
      by_cases hb : b.expiry ≤ s.now
      · simp only [hb, if_true]
        rw [(gcLoop_members_expired cfg q s b).1, hm]
        have : [a, b].erase b = [a] := by simp [hab]
        rw [this]
        simp
        intro e; subst e; omega
      · simp only [hb, if_false]
        rw [hm]
        simp
        rintro (e | e) <;> subst e <;> omega
  | _ :: _ :: _ :: _, hl, _ => simp at hl

/-- `Done q now s`: nothing in `q`'s set is expired at `now`. -/
def Done (q now : Nat) (s : S) : Prop := ∀ m ∈ s.members q, now < m.expiry

theorem Done.of_gcq {q now now' : Nat} {s s' : S} (h : Done q now s) (g : GcQ q now' s s') : Done q now s' :=
  fun m hm => h m (g.sub.subset hm)

/-- A GC tick over all quotas leaves nothing expired in a concurrent quota's set of at most two members. -/
theorem gcFold_complete (cfg : Cfg) (q : Nat) (hc : cfg.isConc q = true) (qs : List Nat) :
    ∀ s, (∀ q', JQ s q') → (s.members q).length ≤ 2 → (q ∈ qs ∨ Done q s.now s) →
      Done q s.now (qs.foldl (gcQuota cfg) s) := by
  induction qs with
  | nil =>
    intro s _ _ h
    rcases h with h | h
    · cases h
    · exact h
  | cons q0 rest ih =>
    intro s hJ hlen h
    obtain ⟨hJ1, hs1⟩ := gcQuota_spec cfg s q0 hJ
    have hq1 := hs1.toGcQ q
    have hlen1 : ((gcQuota cfg s q0).members q).length ≤ 2 := Nat.le_trans hq1.sub.length_le hlen
    have hnow : (gcQuota cfg s q0).now = s.now := hs1.env.1
    simp only [List.foldl_cons]
    have key : Done q s.now (gcQuota cfg s q0) ∨ q ∈ rest := by
      rcases h with h | h
      · rcases List.mem_cons.mp h with e | e
        · left; subst e; exact gcQuota_complete cfg s q hc hlen (hJ q).nodup
        · right; exact e
      · left; exact h.of_gcq hq1
    have := ih (gcQuota cfg s q0) hJ1 hlen1 (by
      rw [hnow]
      rcases key with k | k
      · exact Or.inr k
      · exact Or.inl k)
    rw [hnow] at this
    exact this

/-- One GC tick at its due instant. -/
def oneTick (cfg : Cfg) (s : S) : S :=
  let s1 := gcAll cfg (micro cfg s (.clock s.nextGC s.nextGC))
  micro cfg s1 (.clock s1.now (s1.nextGC + cfg.gc))

theorem tickN_succ (cfg : Cfg) (k : Nat) (s : S) : tickN cfg (k + 1) s = tickN cfg k (oneTick cfg s) := rfl

theorem GcQ.mono {q now now' : Nat} {s s' : S} (h : GcQ q now s s') (hle : now ≤ now') : GcQ q now' s s' :=
  ⟨h.sub, fun m hm => (h.exp m hm).imp id (fun e => Nat.le_trans e hle)⟩

theorem oneTick_spec (cfg : Cfg) (s : S) (hJ : ∀ q, JQ s q) :
    (∀ q, JQ (oneTick cfg s) q) ∧
    (∀ q, GcQ q s.nextGC s (oneTick cfg s)) ∧
    (oneTick cfg s).nextGC = s.nextGC + cfg.gc ∧
    (oneTick cfg s).now = s.nextGC ∧
    (oneTick cfg s).rm = s.rm ∧
    (∀ q, cfg.isConc q = true → (s.members q).length ≤ 2 → Done q s.nextGC (oneTick cfg s)) := by
  simp only [oneTick]
  generalize hs0 : micro cfg s (.clock s.nextGC s.nextGC) = s0
  have hJ0 : ∀ q, JQ s0 q := fun q => (hJ q).of_same (by rw [← hs0]; exact ⟨rfl, rfl⟩)
  have hnow0 : s0.now = s.nextGC := by rw [← hs0]; rfl
  have hnext0 : s0.nextGC = s.nextGC := by rw [← hs0]; rfl
  have hmem0 : s0.members = s.members := by rw [← hs0]; rfl
  have hrm0 : s0.rm = s.rm := by rw [← hs0]; rfl
  obtain ⟨hJ1, hq1, he1⟩ := gcFold_spec cfg (List.range cfg.quotas.length) s0 hJ0
  rw [hnow0] at hq1
  refine ⟨fun q => (hJ1 q).of_same ⟨rfl, rfl⟩, ?_, ?_, ?_, ?_, ?_⟩
  · intro q
    have := hq1 q
    exact ⟨by simpa [hmem0, gcAll] using this.sub, by simpa [hmem0, gcAll] using this.exp⟩
  · show (gcAll cfg s0).nextGC + cfg.gc = _
    simp only [gcAll]; rw [he1.2.1, hnext0]
  · show (gcAll cfg s0).now = _
    simp only [gcAll]; rw [he1.1, hnow0]
  · show (gcAll cfg s0).rm = _
    simp only [gcAll]; rw [he1.2.2, hrm0]
  · intro q hc hlen
    have := gcFold_complete cfg q hc (List.range cfg.quotas.length) s0 hJ0 (by rw [hmem0]; exact hlen)
      (Or.inl (List.mem_range.mpr (isConc_lt cfg q hc)))
    rw [hnow0] at this
    exact this

/-- `k + 1` GC ticks, the last at `s.nextGC + k * gc`. -/
theorem tickN_spec (cfg : Cfg) (k : Nat) :
    ∀ s, (∀ q, JQ s q) →
      (∀ q, JQ (tickN cfg (k + 1) s) q) ∧
      (∀ q, GcQ q (s.nextGC + k * cfg.gc) s (tickN cfg (k + 1) s)) ∧
      (tickN cfg (k + 1) s).nextGC = s.nextGC + (k + 1) * cfg.gc ∧
      (tickN cfg (k + 1) s).rm = s.rm ∧
      (∀ q, cfg.isConc q = true → (s.members q).length ≤ 2 →
        Done q (s.nextGC + k * cfg.gc) (tickN cfg (k + 1) s)) := by
  induction k with
  | zero =>
    intro s hJ
    obtain ⟨h1, h2, h3, _, h5, h6⟩ := oneTick_spec cfg s hJ
    rw [tickN_succ]
    simp only [tickN, Nat.zero_mul, Nat.add_zero, Nat.zero_add, Nat.one_mul]
    exact ⟨h1, h2, h3, h5, h6⟩
  | succ k ih =>
    intro s hJ
    obtain ⟨h1, h2, h3, _, h5, _⟩ := oneTick_spec cfg s hJ
    obtain ⟨i1, i2, i3, i4, i5⟩ := ih (oneTick cfg s) h1
    rw [tickN_succ]
    have hlast : (oneTick cfg s).nextGC + k * cfg.gc = s.nextGC + (k + 1) * cfg.gc := by
      rw [h3, Nat.succ_mul]; omega
    rw [hlast] at i2 i5
    refine ⟨i1, ?_, ?_, ?_, ?_⟩
    · intro q
      exact ((h2 q).mono (Nat.le_add_right _ _)).trans (i2 q)
    · rw [i3, h3, Nat.succ_mul (k + 1)]; omega
    · rw [i4, h5]
    · intro q hc hlen
      exact i5 q hc (Nat.le_trans (h2 q).sub.length_le hlen)


/-! ### The invariant between events, and the tracker -/

structure Inv (cfg : Cfg) (s : S) : Prop where
  reach : Reach cfg s
  jq : ∀ q, JQ s q
  rmft : ∀ r q, s.rm r = some q → cfg.firstTouched = some q
  held : ∀ r q, cfg.isConc q = true → holdsSlot r (s.members q) = true →
    ∃ ft, cfg.firstTouched = some ft ∧ s.rm r = some ft

theorem Inv.init (cfg : Cfg) : Inv cfg (S.init cfg) :=
  ⟨.init, JQ.init cfg, by intro r q h; simp [S.init] at h, by intro r q _ h; simp [S.init, holdsSlot] at h⟩

def Tracks (t : Tracker) (s : S) : Prop := t.now = s.now ∧ t.nextGC = s.nextGC ∧ t.snap = s.members

theorem Tracks.init (cfg : Cfg) : Tracks (Tracker.init cfg) (S.init cfg) := ⟨rfl, rfl, rfl⟩

theorem stepOk_intro (cfg : Cfg) (t : Tracker) (o : Obs)
    (h1 : ∀ q, cfg.isConc q = true → quotaOk cfg t o q = true) (h2 : refusalOk cfg t o = true) :
    stepOk cfg t o = true := by
  simp only [stepOk, Bool.and_eq_true, List.all_eq_true, Bool.or_eq_true, Bool.not_eq_true']
  refine ⟨?_, h2⟩
  intro q _
  cases hc : cfg.isConc q with
  | false => left; rfl
  | true => right; exact h1 q hc

theorem stepOk_elim (cfg : Cfg) (t : Tracker) (o : Obs) (h : stepOk cfg t o = true) (q : Nat)
    (hc : cfg.isConc q = true) : quotaOk cfg t o q = true := by
  simp only [stepOk, Bool.and_eq_true, List.all_eq_true, Bool.or_eq_true, Bool.not_eq_true'] at h
  rcases h.1 q (List.mem_range.mpr (isConc_lt cfg q hc)) with h' | h'
  · rw [hc] at h'; cases h'
  · exact h'

theorem snapOk_of (cfg : Cfg) (s : S) (q : Nat) (hr : Reach cfg s) (hj : JQ s q) :
    snapOk cfg q (s.members q) = true := by
  simp only [snapOk, Bool.and_eq_true, decide_eq_true_eq]
  exact ⟨bounded_reach cfg s hr q, hj.reqs_nodup⟩

theorem holds_of_subset (r : Nat) (l l' : List Member) (h : ∀ m ∈ l', m ∈ l)
    (hs : holdsSlot r l' = true) : holdsSlot r l = true := by
  simp only [holdsSlot, List.any_eq_true] at hs ⊢
  obtain ⟨m, hm, hr⟩ := hs
  exact ⟨m, h m hm, hr⟩

theorem DecRel.subset {r q : Nat} {s s' : S} (h : DecRel r q s s') : ∀ m ∈ s'.members q, m ∈ s.members q := by
  cases h with
  | same e => intro m hm; rw [← e.1]; exact hm
  | removed m0 _ hm _ => intro m h; rw [hm] at h; exact List.mem_of_mem_erase h

theorem IncRel.subset {cfg : Cfg} {r now q : Nat} {s s' : S} (h : IncRel cfg r now q s s') :
    ∀ m ∈ s'.members q, m ∈ s.members q ∨ m.req = r := by
  cases h with
  | same e => intro m hm; left; rw [← e.1]; exact hm
  | added _ _ hm _ =>
    intro m h; rw [hm] at h
    rcases List.mem_append.mp h with h | h
    · left; exact h
    · right; simp at h; rw [h]

/-- A release event for `r` (response, proxy error, refused / early request) keeps the `held` invariant, as
    soon as `r` itself holds nothing afterwards. -/
theorem held_after_release (cfg : Cfg) (s s' : S) (r : Nat) (hI : Inv cfg s)
    (hsub : ∀ q r', r' ≠ r → holdsSlot r' (s'.members q) = true → holdsSlot r' (s.members q) = true)
    (hrm : ∀ r', r' ≠ r → s'.rm r' = s.rm r')
    (hfree : ∀ q, cfg.isConc q = true → holdsSlot r (s'.members q) = false) :
    ∀ r' q, cfg.isConc q = true → holdsSlot r' (s'.members q) = true →
      ∃ ft, cfg.firstTouched = some ft ∧ s'.rm r' = some ft := by
  intro r' q hc hh
  by_cases e : r' = r
  · subst e; rw [hfree q hc] at hh; cases hh
  · rw [hrm r' e]; exact hI.held r' q hc (hsub q r' e hh)

theorem holds_eq_of_mem_others (r : Nat) (a b : List Member) (h : a = others r b) : holdsSlot r a = false := by
  rw [h]; exact holds_others_false r b

/-! ### Response -/

theorem respReach_eq (cfg : Cfg) (s : S) (r q0 : Nat) (hJ : ∀ q, JQ s q) (hc : cfg.isConc q0 = true) :
    decReach cfg s.members r q0 = (cfg.chainOf q0).takeWhile (st s r) := by
  simp only [decReach, hc, if_true]
  apply takeWhile_congr'
  intro q _
  cases h1 : holdsSlot r (s.members q) with
  | true => simp [st, ((hJ q).holds_iff r).mp h1]
  | false =>
    cases h2 : st s r q with
    | false => rfl
    | true => rw [((hJ q).holds_iff r).mpr (by simpa [st] using h2)] at h1; cases h1

/-- A `Dec` of chain `chainOf q0` gives every concurrent quota the exact shape, if `r` holds nothing outside
    that `Dec`'s reach. -/
theorem dec_chain_exact (cfg : Cfg) (hwf : cfg.wf = true) (s s0 : S) (r q0 : Nat) (hJ : ∀ q, JQ s q)
    (hc0 : cfg.isConc q0 = true) (hs0 : ∀ q, SameQ q s s0)
    (hleak : leaky cfg s.members r (decReach cfg s.members r q0) = false)
    (q : Nat) (hc : cfg.isConc q = true) :
    (decChain cfg (cfg.chainOf q0) s0 r).members q = others r (s.members q) := by
  obtain ⟨hnd, _⟩ := wf_chain cfg hwf q0 hc0
  have hJ0 : ∀ q, JQ s0 q := fun q => (hJ q).of_same (hs0 q)
  have hst0 : st s0 r = st s r := by funext q'; exact st_of_sameQ (hs0 q')
  obtain ⟨h1, _⟩ := decChain_reach cfg (cfg.chainOf q0) r hnd s0
  rw [hst0] at h1
  have hrel := decChain_rel cfg (cfg.chainOf q0) r q hnd s0
  have := dec_exact (hJ0 q) hrel (by
    intro hsome
    apply h1
    rw [← respReach_eq cfg s r q0 hJ hc0]
    have hh : holdsSlot r (s.members q) = true := ((hJ q).holds_iff r).mpr (by rw [← (hs0 q).2]; exact hsome)
    simp only [leaky, List.any_eq_false, Bool.and_eq_true, Bool.not_eq_true', not_and,
      Bool.not_eq_false] at hleak
    have := hleak q (List.mem_range.mpr (isConc_lt cfg q hc)) ⟨hc, hh⟩
    simpa using this)
  rw [this, (hs0 q).1]

theorem wiredDec_conc (cfg : Cfg) (q : Nat) (h : cfg.wiredDec = some q) : cfg.isConc q = true := by
  simp only [Cfg.wiredDec] at h
  have := List.mem_of_getLast? h
  exact (List.mem_filter.mp this).2

theorem not_leaky_nil (cfg : Cfg) (snap : Snap) (r : Nat) (h : leaky cfg snap r [] = false) (q : Nat)
    (hc : cfg.isConc q = true) : holdsSlot r (snap q) = false := by
  simp only [leaky, List.any_eq_false, Bool.and_eq_true, Bool.not_eq_true', not_and, Bool.not_eq_false] at h
  cases hh : holdsSlot r (snap q) with
  | false => rfl
  | true =>
    have := h q (List.mem_range.mpr (isConc_lt cfg q hc)) ⟨hc, hh⟩
    simp at this


/-- What the main induction needs from one event. -/
def StepGoal (cfg : Cfg) (t : Tracker) (s : S) (e : Event) : Prop :=
  Tracks (t.next cfg ⟨e, (event cfg s e).2, (event cfg s e).1.members⟩) (event cfg s e).1 ∧
  (stepOk cfg t ⟨e, (event cfg s e).2, (event cfg s e).1.members⟩ = true → Inv cfg (event cfg s e).1) ∧
  (finding cfg t ⟨e, (event cfg s e).2, (event cfg s e).1.members⟩ = none →
    stepOk cfg t ⟨e, (event cfg s e).2, (event cfg s e).1.members⟩ = true)

theorem endFlows_members_none (cfg : Cfg) (s : S) (r : Nat) (h : cfg.wiredDec = none) :
    (endFlows cfg s r).members = s.members := by
  simp [endFlows, h, sysDec]

theorem endFlows_members_some (cfg : Cfg) (s : S) (r lc : Nat) (h : cfg.wiredDec = some lc)
    (hc : cfg.isConc lc = true) :
    (endFlows cfg s r).members = (decChain cfg (cfg.chainOf lc) (micro cfg s (.rmSet r lc)) r).members := by
  simp [endFlows, h, sysDec, hc]

/-- After the response-direction end flow every concurrent quota has the exact shape, if `r` holds nothing
    outside the wired `Dec`'s reach. -/
theorem endFlows_exact (cfg : Cfg) (hwf : cfg.wf = true) (s : S) (r : Nat) (hJ : ∀ q, JQ s q)
    (hleak : respLeaky cfg s.members r = false) (q : Nat) (hc : cfg.isConc q = true) :
    (endFlows cfg s r).members q = others r (s.members q) := by
  simp only [respLeaky, respReach] at hleak
  cases hw : cfg.wiredDec with
  | none =>
    rw [hw] at hleak
    rw [endFlows_members_none cfg s r hw, others_of_not_holds r _ (not_leaky_nil cfg _ r hleak q hc)]
  | some lc =>
    rw [hw] at hleak
    have hlc := wiredDec_conc cfg lc hw
    rw [endFlows_members_some cfg s r lc hw hlc]
    exact dec_chain_exact cfg hwf s _ r lc hJ hlc (fun q' => rmSet_sameQ cfg s r lc q') hleak q hc

theorem step_resp (cfg : Cfg) (hwf : cfg.wf = true) (t : Tracker) (s : S) (r : Nat)
    (hI : Inv cfg s) (hT : Tracks t s) : StepGoal cfg t s (.resp r) := by
  obtain ⟨tn, tg, ts⟩ := hT
  have hrel := fun q => (endFlows_rel cfg hwf s r q).1
  have hclk := (endFlows_rel cfg hwf s r 0).2
  have hJ' : ∀ q, JQ (endFlows cfg s r) q := fun q => (hI.jq q).dec (hrel q)
  have hreach' : Reach cfg (endFlows cfg s r) := reach_endFlows cfg s r hI.reach
  refine ⟨?_, ?_, ?_⟩
  · exact ⟨by simp [event, respEvent, Tracker.next, tn, hclk.1], by simp [event, respEvent, Tracker.next, tg, hclk.2],
      by simp [event, respEvent, Tracker.next]⟩
  · intro hok
    refine ⟨hreach', hJ', ?_, ?_⟩
    · intro r' q h
      simp only [event, respEvent] at h
      rw [endFlows_rm] at h
      by_cases e : r' = r
      · simp [e] at h
      · simp [e] at h; exact hI.rmft r' q h
    · apply held_after_release cfg s (endFlows cfg s r) r hI
      · intro q r' _ hh
        exact holds_of_subset r' _ _ (hrel q).subset hh
      · intro r' e; rw [endFlows_rm]; simp [e]
      · intro q hc
        have := stepOk_elim cfg t _ hok q hc
        simp only [quotaOk, event, respEvent, Bool.and_eq_true, beq_iff_eq] at this
        exact holds_eq_of_mem_others r _ _ this.2.1
  · intro hf
    simp only [finding, event, respEvent] at hf
    have hleak : respLeaky cfg s.members r = false := by
      rw [ts] at hf
      cases h : respLeaky cfg s.members r with
      | false => rfl
      | true => rw [h] at hf; simp at hf
    apply stepOk_intro
    · intro q hc
      simp only [quotaOk, event, respEvent, Bool.and_eq_true, beq_iff_eq]
      refine ⟨snapOk_of cfg _ q hreach' (hJ' q), ?_, trivial⟩
      rw [ts]
      exact endFlows_exact cfg hwf s r hI.jq hleak q hc
    · simp [refusalOk, event]


/-! ### Proxy error -/

theorem drop_exact (cfg : Cfg) (hwf : cfg.wf = true) (s : S) (r : Nat) (hI : Inv cfg s)
    (hleak : errLeaky cfg s.members r = false) (q : Nat) (hc : cfg.isConc q = true) :
    (drop cfg s r).members q = others r (s.members q) := by
  simp only [errLeaky, dropReach] at hleak
  simp only [drop]
  split
  · rename_i hn
    cases hh : holdsSlot r (s.members q) with
    | false => rw [others_of_not_holds r _ hh]
    | true =>
      obtain ⟨ft, _, h2⟩ := hI.held r q hc hh
      rw [hn] at h2; cases h2
  · rename_i x hx
    rw [hI.rmft r x hx] at hleak
    dsimp only at hleak
    split
    · rename_i hcx
      exact dec_chain_exact cfg hwf s _ r x hI.jq hcx (fun q' => rmPop_sameQ cfg s r q') hleak q hc
    · rename_i hcx
      have : decReach cfg s.members r x = [] := by simp [decReach, hcx]
      rw [this] at hleak
      rw [others_of_not_holds r _ (not_leaky_nil cfg _ r hleak q hc)]
      simp

theorem step_err (cfg : Cfg) (hwf : cfg.wf = true) (t : Tracker) (s : S) (r : Nat)
    (hI : Inv cfg s) (hT : Tracks t s) : StepGoal cfg t s (.err r) := by
  obtain ⟨tn, tg, ts⟩ := hT
  have hrel := fun q => (drop_rel cfg hwf s r q).1
  have hclk := (drop_rel cfg hwf s r 0).2
  have hJ' : ∀ q, JQ (drop cfg s r) q := fun q => (hI.jq q).dec (hrel q)
  have hreach' : Reach cfg (drop cfg s r) := reach_drop cfg s r hI.reach
  refine ⟨?_, ?_, ?_⟩
  · exact ⟨by simp [event, errEvent, Tracker.next, tn, hclk.1], by simp [event, errEvent, Tracker.next, tg, hclk.2],
      by simp [event, errEvent, Tracker.next]⟩
  · intro hok
    refine ⟨hreach', hJ', ?_, ?_⟩
    · intro r' q h
      simp only [event, errEvent] at h
      rw [drop_rm] at h
      by_cases e : r' = r
      · simp [e] at h
      · simp [e] at h; exact hI.rmft r' q h
    · apply held_after_release cfg s (drop cfg s r) r hI
      · intro q r' _ hh
        exact holds_of_subset r' _ _ (hrel q).subset hh
      · intro r' e; rw [drop_rm]; simp [e]
      · intro q hc
        have := stepOk_elim cfg t _ hok q hc
        simp only [quotaOk, event, errEvent, Bool.and_eq_true, beq_iff_eq] at this
        exact holds_eq_of_mem_others r _ _ this.2.1
  · intro hf
    simp only [finding, event, errEvent] at hf
    have hleak : errLeaky cfg s.members r = false := by
      rw [ts] at hf
      cases h : errLeaky cfg s.members r with
      | false => rfl
      | true => rw [h] at hf; simp at hf
    apply stepOk_intro
    · intro q hc
      simp only [quotaOk, event, errEvent, Bool.and_eq_true, beq_iff_eq]
      refine ⟨snapOk_of cfg _ q hreach' (hJ' q), ?_, trivial⟩
      rw [ts]
      exact drop_exact cfg hwf s r hI hleak q hc
    · simp [refusalOk, event]


/-! ### Clock advance with GC ticks -/

theorem not_crowded (cfg : Cfg) (snap : Snap) (h : gcCrowded cfg snap = false) (q : Nat)
    (hc : cfg.isConc q = true) : (snap q).length ≤ 2 := by
  simp only [gcCrowded, List.any_eq_false, Bool.and_eq_true, decide_eq_true_eq, not_and] at h
  have := h q (List.mem_range.mpr (isConc_lt cfg q hc)) hc
  omega

theorem step_adv (cfg : Cfg) (t : Tracker) (s : S) (d : Nat)
    (hI : Inv cfg s) (hT : Tracks t s) : StepGoal cfg t s (.adv d) := by
  obtain ⟨tn, tg, ts⟩ := hT
  have hreach' : Reach cfg (advance cfg s d) := reach_event cfg s (.adv d) hI.reach
  simp only [StepGoal, event]
  cases hk : dueCount s.nextGC cfg.gc (s.now + d) with
  | zero =>
    have hadv : advance cfg s d = micro cfg s (.clock (s.now + d) s.nextGC) := by
      simp [advance, hk, tickN]
    have hlt : t.lastTick cfg d = none := by simp [Tracker.lastTick, tn, tg, hk]
    have hmem : (advance cfg s d).members = s.members := by rw [hadv]; rfl
    have hInv : Inv cfg (advance cfg s d) := by
      refine ⟨hreach', ?_, ?_, ?_⟩
      · intro q; exact (hI.jq q).of_same (by rw [hadv]; exact ⟨rfl, rfl⟩)
      · intro r q h; rw [hadv] at h; exact hI.rmft r q h
      · intro r q hc hh; rw [hadv] at hh ⊢; exact hI.held r q hc hh
    refine ⟨?_, fun _ => hInv, ?_⟩
    · refine ⟨?_, ?_, rfl⟩
      · simp [Tracker.next, tn, hadv, micro]
      · simp [Tracker.next, tn, tg, hk, hadv, micro]
    · intro _
      apply stepOk_intro
      · intro q hc
        simp only [quotaOk, hlt, Bool.and_eq_true, beq_iff_eq]
        refine ⟨snapOk_of cfg _ q hreach' (hInv.jq q), by simp, ?_⟩
        rw [hmem, ts]
      · simp [refusalOk]
  | succ k =>
    obtain ⟨hJ1, hq1, hn1, hrm1, hd1⟩ := tickN_spec cfg k s hI.jq
    have hadv : advance cfg s d =
        micro cfg (tickN cfg (k + 1) s) (.clock (s.now + d) (tickN cfg (k + 1) s).nextGC) := by
      simp [advance, hk]
    have hlt : t.lastTick cfg d = some (s.nextGC + k * cfg.gc) := by simp [Tracker.lastTick, tn, tg, hk]
    have hmem : (advance cfg s d).members = (tickN cfg (k + 1) s).members := by rw [hadv]; rfl
    have hInv : Inv cfg (advance cfg s d) := by
      refine ⟨hreach', ?_, ?_, ?_⟩
      · intro q; exact (hJ1 q).of_same (by rw [hadv]; exact ⟨rfl, rfl⟩)
      · intro r q h
        have : (advance cfg s d).rm = s.rm := by rw [hadv]; exact hrm1
        rw [this] at h; exact hI.rmft r q h
      · intro r q hc hh
        have hrm : (advance cfg s d).rm = s.rm := by rw [hadv]; exact hrm1
        rw [hrm]
        rw [hmem] at hh
        exact hI.held r q hc (holds_of_subset r _ _ (fun m hm => (hq1 q).sub.subset hm) hh)
    refine ⟨?_, fun _ => hInv, ?_⟩
    · refine ⟨?_, ?_, rfl⟩
      · simp [Tracker.next, tn, hadv, micro]
      · simp only [Tracker.next, tn, tg, hk]; rw [hadv]; exact hn1.symm
    · intro hf
      have hcrowd : gcCrowded cfg s.members = false := by
        simp only [finding, hlt, Option.isSome_some, Bool.true_and, ts] at hf
        cases h : gcCrowded cfg s.members with
        | false => rfl
        | true => rw [h] at hf; simp at hf
      apply stepOk_intro
      · intro q hc
        simp only [quotaOk, hlt, Bool.and_eq_true, beq_iff_eq, List.all_eq_true, Bool.or_eq_true,
          decide_eq_true_eq, List.contains_iff_mem]
        rw [hmem, ts]
        refine ⟨snapOk_of cfg _ q (reach_tickN cfg (k + 1) s hI.reach) (hJ1 q), by simp, ⟨?_, ?_⟩, ?_⟩
        · exact List.isSublist_iff_sublist.mpr (hq1 q).sub
        · intro m hm; exact (hq1 q).exp m hm
        · intro m hm
          exact hd1 q hc (not_crowded cfg _ hcrowd q hc) m hm
      · simp [refusalOk]


/-! ### Request -/

theorem simple_unpack (cfg : Cfg) (h : cfg.simple = true) :
    (∀ q ∈ cfg.sysStart, cfg.isConc q = false) ∧
    ∃ c, cfg.order.filter cfg.isConc = [c] ∧ (∀ q, cfg.isConc q = true → q ∈ cfg.chainOf c) ∧
      cfg.wiredDec = some c := by
  simp only [Cfg.simple, Bool.and_eq_true, List.all_eq_true, Bool.not_eq_true'] at h
  refine ⟨h.1, ?_⟩
  have h2 := h.2
  split at h2
  · rename_i c hc
    simp only [Bool.and_eq_true, List.all_eq_true, List.mem_range, Bool.or_eq_true, Bool.not_eq_true',
      List.contains_iff_mem, beq_iff_eq] at h2
    refine ⟨c, hc, ?_, h2.2⟩
    intro q hq
    rcases h2.1 q (isConc_lt cfg q hq) with h3 | h3
    · rw [hq] at h3; cases h3
    · exact h3
  · cases h2

theorem st_eq_holds (s : S) (r q : Nat) (hJ : JQ s q) : holdsSlot r (s.members q) = st s r q := by
  cases h1 : holdsSlot r (s.members q) with
  | true => simp [st, (hJ.holds_iff r).mp h1]
  | false =>
    cases h2 : st s r q with
    | false => rfl
    | true => rw [(hJ.holds_iff r).mpr (by simpa [st] using h2)] at h1; cases h1

/-- In a simple set-up, with `r`'s holdings prefix-closed along the chain, a refused / early-answered request
    leaves `r` without a status at every level (so without a slot anywhere). -/
theorem released_simple (cfg : Cfg) (hwf : cfg.wf = true) (s : S) (r : Nat) (hjq : ∀ q, JQ s q)
    (hrmft : ∀ q, s.rm r = some q → cfg.firstTouched = some q)
    (hsimple : cfg.simple = true) (hpc : prefixClosed cfg s.members r = true)
    (hJF : ∀ q, JQ (endFlows cfg (drop cfg (incPhase cfg s r).1 r) r) q) :
    ∀ q, cfg.isConc q = true →
      holdsSlot r ((endFlows cfg (drop cfg (incPhase cfg s r).1 r) r).members q) = false := by
  obtain ⟨hsys, c, hfo, hall, hw⟩ := simple_unpack cfg hsimple
  have hcc : cfg.isConc c = true := by
    have : c ∈ cfg.order.filter cfg.isConc := by rw [hfo]; simp
    exact (List.mem_filter.mp this).2
  obtain ⟨hnd, _⟩ := wf_chain cfg hwf c hcc
  have hord : ∀ q ∈ cfg.order, cfg.isConc q = true → cfg.chainOf q = cfg.chainOf c := by
    intro q hq hc
    have : q ∈ cfg.order.filter cfg.isConc := List.mem_filter.mpr ⟨hq, hc⟩
    rw [hfo] at this; simp at this; rw [this]
  -- prefix-closed in `s`
  have hp0 : PC (st s r) (cfg.chainOf c) := by
    simp only [prefixClosed, hfo, beq_iff_eq] at hpc
    have := PC_of_filter_eq_takeWhile _ _ hpc
    exact PC_congr _ _ _ (fun q _ => st_eq_holds s r q (hjq q)) this
  -- through the Inc phase
  have hp1 : PC (st (sysInc cfg cfg.sysStart s r) r) (cfg.chainOf c) :=
    PC_congr _ _ _ (fun q _ => (st_of_sameQ (sysInc_nonconc cfg _ r q hsys s)).symm) hp0
  have hpM : PC (st (incPhase cfg s r).1 r) (cfg.chainOf c) :=
    userFlow_pc cfg hwf _ cfg.order r hord _ hp1
  -- through the drop
  have hpD : PC (st (drop cfg (incPhase cfg s r).1 r) r) (cfg.chainOf c) := by
    simp only [drop]
    split
    · exact hpM
    · rename_i x hx
      have hpP : PC (st (micro cfg (incPhase cfg s r).1 (.rmPop r)) r) (cfg.chainOf c) :=
        PC_congr _ _ _ (fun q _ => (st_of_sameQ (rmPop_sameQ cfg _ r q)).symm) hpM
      split
      · rename_i hcx
        have hft := incPhase_rmft cfg s r hrmft x hx
        have hxc : x = c := by
          simp only [Cfg.firstTouched] at hft
          have hmem : x ∈ cfg.sysStart ++ cfg.order := List.mem_of_head? hft
          rcases List.mem_append.mp hmem with h | h
          · rw [hsys x h] at hcx; cases hcx
          · have : x ∈ cfg.order.filter cfg.isConc := List.mem_filter.mpr ⟨h, hcx⟩
            rw [hfo] at this; simpa using this
        rw [hxc]
        apply PC_of_all_false
        intro q hq
        have := decChain_clears cfg (cfg.chainOf c) r hnd _ hpP q hq
        simp [st, this]
      · exact hpP
  -- through the response-direction end flow
  intro q hc
  have hq : q ∈ cfg.chainOf c := hall q hc
  have hnone : (endFlows cfg (drop cfg (incPhase cfg s r).1 r) r).allowed q r = none := by
    simp only [endFlows, hw, Option.toList, sysDec, hcc, if_true, rmPop_allowed]
    have hpS : PC (st (micro cfg (drop cfg (incPhase cfg s r).1 r) (.rmSet r c)) r) (cfg.chainOf c) :=
      PC_congr _ _ _ (fun q' _ => (st_of_sameQ (rmSet_sameQ cfg _ r c q')).symm) hpD
    exact decChain_clears cfg (cfg.chainOf c) r hnd _ hpS q hq
  cases hh : holdsSlot r ((endFlows cfg (drop cfg (incPhase cfg s r).1 r) r).members q) with
  | false => rfl
  | true =>
    have := ((hJF q).holds_iff r).mp hh
    rw [hnone] at this; cases this


theorem mem_concPath (cfg : Cfg) (q : Nat) (h : cfg.concPath.contains q = true) :
    ∃ q0 ∈ cfg.order, cfg.isConc q0 = true ∧ q ∈ cfg.chainOf q0 := by
  simp only [Cfg.concPath, List.contains_iff_mem, List.mem_flatMap, List.mem_filter] at h
  obtain ⟨q0, ⟨h1, h2⟩, h3⟩ := h
  exact ⟨q0, h1, h2, h3⟩

/-- Invariant after the `Inc` phase of a request (also the final state of an admitted request). -/
theorem inv_incPhase (cfg : Cfg) (hwf : cfg.wf = true) (s : S) (r : Nat) (hI : Inv cfg s) :
    Inv cfg (incPhase cfg s r).1 := by
  have hinc := fun q => (incPhase_rel cfg hwf s r q).1
  obtain ⟨hmono, hft⟩ := incPhase_rm cfg s r
  refine ⟨reach_userFlow cfg _ r _ (reach_sysInc cfg _ r s hI.reach), fun q => (hI.jq q).inc (hinc q), ?_, ?_⟩
  · intro r' q h
    by_cases e : r' = r
    · subst e; exact incPhase_rmft cfg s r' (hI.rmft r') q h
    · rw [hmono.1 r' e] at h; exact hI.rmft r' q h
  · intro r' q hc hh
    by_cases e : r' = r
    · subst e
      cases hs : s.rm r' with
      | some y => exact ⟨y, hI.rmft r' y hs, hmono.2 y hs⟩
      | none =>
        cases hf : cfg.firstTouched with
        | some q0 => exact ⟨q0, rfl, hft q0 hf hs⟩
        | none =>
          exfalso
          simp only [Cfg.firstTouched, List.head?_eq_none_iff, List.append_eq_nil_iff] at hf
          have : (incPhase cfg s r').1 = s := by simp [incPhase, hf.1, hf.2, sysInc, userFlow]
          rw [this] at hh
          obtain ⟨ft, h1, _⟩ := hI.held r' q hc hh
          simp [Cfg.firstTouched, hf.1, hf.2] at h1
    · rw [hmono.1 r' e]
      apply hI.held r' q hc
      simp only [holdsSlot, List.any_eq_true, beq_iff_eq] at hh ⊢
      obtain ⟨m, hm, hr⟩ := hh
      rcases (hinc q).subset m hm with h | h
      · exact ⟨m, h, hr⟩
      · exact absurd (hr.symm.trans h) e

theorem step_req (cfg : Cfg) (hwf : cfg.wf = true) (t : Tracker) (s : S) (r : Nat) (post : Bool)
    (hI : Inv cfg s) (hT : Tracks t s) : StepGoal cfg t s (.req r post) := by
  obtain ⟨tn, tg, ts⟩ := hT
  have hinc := fun q => (incPhase_rel cfg hwf s r q).1
  have hclkM := (incPhase_rel cfg hwf s r 0).2
  have hIM := inv_incPhase cfg hwf s r hI
  -- the released state (refused / early)
  have hdrop := fun q => (drop_rel cfg hwf (incPhase cfg s r).1 r q).1
  have hclkD := (drop_rel cfg hwf (incPhase cfg s r).1 r 0).2
  have hend := fun q => (endFlows_rel cfg hwf (drop cfg (incPhase cfg s r).1 r) r q).1
  have hclkF := (endFlows_rel cfg hwf (drop cfg (incPhase cfg s r).1 r) r 0).2
  have hdec := fun q => (hdrop q).trans (hend q)
  have hJF : ∀ q, JQ (endFlows cfg (drop cfg (incPhase cfg s r).1 r) r) q := fun q => (hIM.jq q).dec (hdec q)
  have hreachF : Reach cfg (endFlows cfg (drop cfg (incPhase cfg s r).1 r) r) :=
    reach_endFlows cfg _ r (reach_drop cfg _ r hIM.reach)
  have hrmF : ∀ r', (endFlows cfg (drop cfg (incPhase cfg s r).1 r) r).rm r' =
      if r' = r then none else s.rm r' := by
    intro r'
    rw [endFlows_rm]
    by_cases e : r' = r
    · simp [e]
    · simp [e]; rw [drop_rm]; simp [e]; exact (incPhase_rm cfg s r).1.1 r' e
  have hshapeF : ∀ q, (endFlows cfg (drop cfg (incPhase cfg s r).1 r) r).members q = s.members q ∨
      (endFlows cfg (drop cfg (incPhase cfg s r).1 r) r).members q = others r (s.members q) ∨
      (endFlows cfg (drop cfg (incPhase cfg s r).1 r) r).members q = s.members q ++ [⟨s.now + cfg.exp q, r⟩] :=
    fun q => shape (hI.jq q) (hinc q) (hdec q)
  -- common: Inv of the released state, given `r` holds nothing afterwards
  have hInvF : (∀ q, cfg.isConc q = true →
      holdsSlot r ((endFlows cfg (drop cfg (incPhase cfg s r).1 r) r).members q) = false) →
      Inv cfg (endFlows cfg (drop cfg (incPhase cfg s r).1 r) r) := by
    intro hfree
    refine ⟨hreachF, hJF, ?_, ?_⟩
    · intro r' q h
      rw [hrmF] at h
      by_cases e : r' = r
      · simp [e] at h
      · simp [e] at h; exact hI.rmft r' q h
    · apply held_after_release cfg s _ r hI
      · intro q r' e hh
        simp only [holdsSlot, List.any_eq_true, beq_iff_eq] at hh ⊢
        obtain ⟨m, hm, hr⟩ := hh
        rcases (hinc q).subset m ((hdec q).subset m hm) with h | h
        · exact ⟨m, h, hr⟩
        · exact absurd (hr.symm.trans h) e
      · intro r' e; rw [hrmF]; simp [e]
      · exact hfree
  -- the released branch as a whole, for a verdict `v ∈ {refused, early}`
  have hreleased : ∀ v : Verdict, (v = .refused ∨ v = .early) →
      (v = .refused → (incPhase cfg s r).2 = false) →
      let o : Obs := ⟨.req r post, v, (endFlows cfg (drop cfg (incPhase cfg s r).1 r) r).members⟩
      Tracks (t.next cfg o) (endFlows cfg (drop cfg (incPhase cfg s r).1 r) r) ∧
      (stepOk cfg t o = true → Inv cfg (endFlows cfg (drop cfg (incPhase cfg s r).1 r) r)) ∧
      (finding cfg t o = none → stepOk cfg t o = true) := by
    intro v hv hvf o
    refine ⟨?_, ?_, ?_⟩
    · exact ⟨by simp [o, Tracker.next, tn, hclkM.1, hclkD.1, hclkF.1],
        by simp [o, Tracker.next, tg, hclkM.2, hclkD.2, hclkF.2], by simp [o, Tracker.next]⟩
    · intro hok
      apply hInvF
      intro q hc
      have := stepOk_elim cfg t o hok q hc
      simp only [quotaOk, o, Bool.and_eq_true] at this
      rcases hv with e | e <;> subst e <;> simpa using this.2.2
    · intro hf
      have hrisk : reqRisk cfg s.members r = false := by
        simp only [finding, o, ts] at hf
        cases h : reqRisk cfg s.members r with
        | false => rfl
        | true => rcases hv with e | e <;> subst e <;> simp [h] at hf
      simp only [reqRisk, Bool.or_eq_false_iff, Bool.not_eq_false'] at hrisk
      have hfree := released_simple cfg hwf s r hI.jq (hI.rmft r) hrisk.1 hrisk.2 hJF
      apply stepOk_intro
      · intro q hc
        simp only [quotaOk, o, Bool.and_eq_true, Bool.or_eq_true, beq_iff_eq]
        refine ⟨snapOk_of cfg _ q hreachF (hJF q), ?_, ?_⟩
        · rw [ts, tn]
          rcases hshapeF q with h | h | h
          · left; left; exact h
          · left; right; exact h
          · right; exact h
        · rcases hv with e | e <;> subst e <;> simp [hfree q hc]
      · rcases hv with e | e
        · subst e
          simp only [refusalOk, o, List.any_eq_true, decide_eq_true_eq]
          obtain ⟨q0, hq0, hc0, q, hq, h1, h2⟩ := userFlow_false cfg hwf cfg.order r _ (hvf rfl)
          refine ⟨q, ?_, ?_⟩
          · simp only [Cfg.concPath, List.mem_flatMap, List.mem_filter]
            exact ⟨q0, ⟨hq0, hc0⟩, hq⟩
          · rw [ts]
            cases hinc q with
            | same e => rw [← e.1]; exact h2
            | added _ _ _ ha =>
              have := ha r
              simp at this
              rw [show (incPhase cfg s r).1.allowed q r = (userFlow cfg cfg.order (sysInc cfg cfg.sysStart s r) r).1.allowed q r from rfl, h1] at this
              cases this
        · subst e; simp [refusalOk, o]
  -- case analysis on the verdict
  simp only [StepGoal, event]
  rw [reqEvent_eq]
  cases hok : (incPhase cfg s r).2 with
  | false =>
    simp only [Bool.not_false, if_true]
    exact hreleased .refused (Or.inl rfl) (fun _ => hok)
  | true =>
    simp only [Bool.not_true, Bool.false_eq_true, if_false]
    split
    · exact hreleased .early (Or.inr rfl) (fun h => by cases h)
    · refine ⟨?_, fun _ => hIM, ?_⟩
      · exact ⟨by simp [Tracker.next, tn, hclkM.1], by simp [Tracker.next, tg, hclkM.2], by simp [Tracker.next]⟩
      · intro _
        apply stepOk_intro
        · intro q hc
          simp only [quotaOk, Bool.and_eq_true, Bool.or_eq_true, beq_iff_eq, Bool.not_eq_true']
          refine ⟨snapOk_of cfg _ q hIM.reach (hIM.jq q), ?_, ?_⟩
          · rw [ts, tn]
            cases hinc q with
            | same e => left; left; exact e.1
            | added _ _ hm _ => right; exact hm
          · cases hcp : cfg.concPath.contains q with
            | false => left; rfl
            | true =>
              right
              obtain ⟨q0, hq0, hc0, hq⟩ := mem_concPath cfg q hcp
              have := userFlow_true cfg hwf cfg.order r _ hok q0 hq0 hc0 q hq
              exact ((hIM.jq q).holds_iff r).mpr this
        · simp [refusalOk]


/-! ### The connection: the judge predicate on every model run -/

theorem step_event (cfg : Cfg) (hwf : cfg.wf = true) (t : Tracker) (s : S) (e : Event)
    (hI : Inv cfg s) (hT : Tracks t s) : StepGoal cfg t s e := by
  cases e with
  | req r post => exact step_req cfg hwf t s r post hI hT
  | resp r => exact step_resp cfg hwf t s r hI hT
  | err r => exact step_err cfg hwf t s r hI hT
  | adv d => exact step_adv cfg t s d hI hT

/-- The first event of a model run that fails a Spec condition (if any) is in a known-defect class. -/
theorem judge_run (cfg : Cfg) (hwf : cfg.wf = true) (es : List Event) :
    ∀ s t, Inv cfg s → Tracks t s → judgeFrom cfg t (run cfg s es) ≠ some none := by
  induction es with
  | nil => intro s t _ _; simp [run, judgeFrom]
  | cons e rest ih =>
    intro s t hI hT
    obtain ⟨hT', hInv', hfind⟩ := step_event cfg hwf t s e hI hT
    simp only [run, judgeFrom]
    split
    · rename_i hok
      exact ih _ _ (hInv' hok) hT'
    · rename_i hok
      intro h
      exact hok (hfind (Option.some.inj h))

/-- As long as the judge has nothing to report, the invariant holds at the end of the history. -/
theorem inv_of_judge_none (cfg : Cfg) (hwf : cfg.wf = true) (es : List Event) :
    ∀ s t, Inv cfg s → Tracks t s → judgeFrom cfg t (run cfg s es) = none → Inv cfg (final cfg s es) := by
  induction es with
  | nil => intro s t hI _ _; exact hI
  | cons e rest ih =>
    intro s t hI hT hj
    obtain ⟨hT', hInv', _⟩ := step_event cfg hwf t s e hI hT
    simp only [run, judgeFrom] at hj
    split at hj
    · rename_i hok
      exact ih _ _ (hInv' hok) hT' hj
    · cases hj

/-- Spec-level: a run on which the judge reports no unclassified failure and no event is in a defect class
    satisfies the whole property. -/
theorem holds_of_judge (cfg : Cfg) (obs : List Obs) :
    ∀ t, judgeFrom cfg t obs ≠ some none → cleanFrom cfg t obs = true → holdsFrom cfg t obs = true := by
  induction obs with
  | nil => intro t _ _; rfl
  | cons o rest ih =>
    intro t hj hc
    simp only [cleanFrom, Bool.and_eq_true, Option.isNone_iff_eq_none] at hc
    simp only [judgeFrom] at hj
    simp only [holdsFrom, Bool.and_eq_true]
    split at hj
    · rename_i hok
      exact ⟨hok, ih _ hj hc.2⟩
    · rw [hc.1] at hj; exact absurd rfl hj

/-! ### Unconditional part of the invariant along every history -/

structure Inv0 (cfg : Cfg) (s : S) : Prop where
  reach : Reach cfg s
  jq : ∀ q, JQ s q
  rmft : ∀ r q, s.rm r = some q → cfg.firstTouched = some q

theorem Inv0.init (cfg : Cfg) : Inv0 cfg (S.init cfg) :=
  ⟨.init, JQ.init cfg, by intro r q h; simp [S.init] at h⟩

theorem Inv.toInv0 {cfg : Cfg} {s : S} (h : Inv cfg s) : Inv0 cfg s := ⟨h.reach, h.jq, h.rmft⟩

theorem inv0_event (cfg : Cfg) (hwf : cfg.wf = true) (s : S) (e : Event) (hI : Inv0 cfg s) :
    Inv0 cfg (event cfg s e).1 := by
  refine ⟨reach_event cfg s e hI.reach, ?_, ?_⟩
  · intro q
    cases e with
    | req r post =>
      have hM : JQ (incPhase cfg s r).1 q := (hI.jq q).inc (incPhase_rel cfg hwf s r q).1
      have hF := hM.dec (((drop_rel cfg hwf (incPhase cfg s r).1 r q).1).trans
        (endFlows_rel cfg hwf (drop cfg (incPhase cfg s r).1 r) r q).1)
      simp only [event]; rw [reqEvent_eq]
      split
      · exact hF
      · split
        · exact hF
        · exact hM
    | resp r => exact (hI.jq q).dec (endFlows_rel cfg hwf s r q).1
    | err r => exact (hI.jq q).dec (drop_rel cfg hwf s r q).1
    | adv d =>
      simp only [event, advance]
      cases dueCount s.nextGC cfg.gc (s.now + d) with
      | zero => exact (hI.jq q).of_same ⟨rfl, rfl⟩
      | succ k => exact ((tickN_spec cfg k s hI.jq).1 q).of_same ⟨rfl, rfl⟩
  · intro r' q h
    cases e with
    | req r post =>
      have hM : ∀ q, (incPhase cfg s r).1.rm r' = some q → cfg.firstTouched = some q := by
        intro q h
        by_cases e : r' = r
        · subst e; exact incPhase_rmft cfg s r' (hI.rmft r') q h
        · rw [(incPhase_rm cfg s r).1.1 r' e] at h; exact hI.rmft r' q h
      have hF : ∀ q, (endFlows cfg (drop cfg (incPhase cfg s r).1 r) r).rm r' = some q →
          cfg.firstTouched = some q := by
        intro q h
        rw [endFlows_rm] at h
        by_cases e : r' = r
        · simp [e] at h
        · simp [e] at h; rw [drop_rm] at h; simp [e] at h; exact hM q h
      simp only [event] at h; rw [reqEvent_eq] at h
      split at h
      · exact hF q h
      · split at h
        · exact hF q h
        · exact hM q h
    | resp r =>
      simp only [event, respEvent] at h
      rw [endFlows_rm] at h
      by_cases e : r' = r
      · simp [e] at h
      · simp [e] at h; exact hI.rmft r' q h
    | err r =>
      simp only [event, errEvent] at h
      rw [drop_rm] at h
      by_cases e : r' = r
      · simp [e] at h
      · simp [e] at h; exact hI.rmft r' q h
    | adv d =>
      simp only [event, advance] at h
      cases hk : dueCount s.nextGC cfg.gc (s.now + d) with
      | zero => rw [hk] at h; exact hI.rmft r' q h
      | succ k =>
        rw [hk] at h
        have := (tickN_spec cfg k s hI.jq).2.2.2.1
        have h' : (tickN cfg (k + 1) s).rm r' = some q := h
        rw [this] at h'
        exact hI.rmft r' q h'

theorem inv0_final (cfg : Cfg) (hwf : cfg.wf = true) (es : List Event) :
    ∀ s, Inv0 cfg s → Inv0 cfg (final cfg s es) := by
  induction es with
  | nil => intro s h; exact h
  | cons e rest ih => intro s h; exact ih _ (inv0_event cfg hwf s e h)

/-- A refusal needs a full set among the quotas the limiters consulted. -/
theorem refused_full (cfg : Cfg) (hwf : cfg.wf = true) (s : S) (r : Nat) (post : Bool)
    (h : (reqEvent cfg s r post).2 = .refused) :
    ∃ q ∈ cfg.concPath, cfg.max q ≤ (s.members q).length := by
  rw [reqEvent_eq] at h
  cases hok : (incPhase cfg s r).2 with
  | true =>
    simp only [hok, Bool.not_true, Bool.false_eq_true, if_false] at h
    split at h <;> cases h
  | false =>
    obtain ⟨q0, hq0, hc0, q, hq, h1, h2⟩ := userFlow_false cfg hwf cfg.order r _ hok
    refine ⟨q, ?_, ?_⟩
    · simp only [Cfg.concPath, List.mem_flatMap, List.mem_filter]
      exact ⟨q0, ⟨hq0, hc0⟩, hq⟩
    · cases (incPhase_rel cfg hwf s r q).1 with
      | same e => rw [← e.1]; exact h2
      | added _ _ _ ha =>
        have := ha r
        simp at this
        rw [show (incPhase cfg s r).1.allowed q r =
          (userFlow cfg cfg.order (sysInc cfg cfg.sysStart s r) r).1.allowed q r from rfl, h1] at this
        cases this


/-- An admitted request holds a slot in every concurrent quota its limiters consulted. -/
theorem admitted_holds (cfg : Cfg) (hwf : cfg.wf = true) (s : S) (r : Nat) (post : Bool) (hjq : ∀ q, JQ s q)
    (h : (reqEvent cfg s r post).2 = .admitted) :
    ∀ q ∈ cfg.concPath, holdsSlot r ((reqEvent cfg s r post).1.members q) = true := by
  intro q hq
  rw [reqEvent_eq] at h ⊢
  cases hok : (incPhase cfg s r).2 with
  | false => simp [hok] at h
  | true =>
    simp only [hok, Bool.not_true, Bool.false_eq_true, if_false] at h ⊢
    split
    · rename_i he; simp [he] at h
    · obtain ⟨q0, hq0, hc0, hq'⟩ := mem_concPath cfg q (List.contains_iff_mem.mpr hq)
      have := userFlow_true cfg hwf cfg.order r _ hok q0 hq0 hc0 q hq'
      have hJM : JQ (incPhase cfg s r).1 q := (hjq q).inc (incPhase_rel cfg hwf s r q).1
      exact (hJM.holds_iff r).mpr this

/-- The state after a refused / early-answered request. -/
theorem reqEvent_released (cfg : Cfg) (s : S) (r : Nat) (post : Bool)
    (h : (reqEvent cfg s r post).2 = .refused ∨ (reqEvent cfg s r post).2 = .early) :
    (reqEvent cfg s r post).1 = endFlows cfg (drop cfg (incPhase cfg s r).1 r) r := by
  rw [reqEvent_eq] at h ⊢
  split
  · rfl
  · split
    · rfl
    · rename_i h1 h2
      simp [h1, h2] at h


/-! ### Spec level: members belong to open transactions only -/

theorem next_snap (cfg : Cfg) (t : Tracker) (o : Obs) : (t.next cfg o).snap = o.mem := by
  simp only [Tracker.next]; split <;> rfl

/-- On any observed history satisfying the Spec (whoever produced it), every member of a concurrent quota's
    set belongs to a transaction that is still open. -/
theorem members_open (cfg : Cfg) (obs : List Obs) :
    ∀ (t : Tracker) (op : Nat → Bool), holdsFrom cfg t obs = true →
      (∀ q, cfg.isConc q = true → ∀ m ∈ t.snap q, op m.req = true) →
      ∀ q, cfg.isConc q = true → ∀ m ∈ lastSnap cfg t obs q, lastOpen m.req obs (op m.req) = true := by
  induction obs with
  | nil => intro t op _ h q hc m hm; exact h q hc m hm
  | cons o rest ih =>
    intro t op hh hop q hc m hm
    simp only [holdsFrom, Bool.and_eq_true] at hh
    simp only [lastSnap] at hm
    simp only [lastOpen]
    -- the status function after this event
    let op' : Nat → Bool := fun r => match o.ev with
      | .req r' _ => if r' = r then o.verdict == .admitted else op r
      | .resp r' => if r' = r then false else op r
      | .err r' => if r' = r then false else op r
      | .adv _ => op r
    have key : ∀ q, cfg.isConc q = true → ∀ m ∈ (t.next cfg o).snap q, op' m.req = true := by
      intro q hc m hm
      rw [next_snap] at hm
      have hq := stepOk_elim cfg t o hh.1 q hc
      simp only [quotaOk, Bool.and_eq_true] at hq
      obtain ⟨_, hq⟩ := hq
      cases hev : o.ev with
      | req r post =>
        rw [hev] at hq
        simp only [op', hev]
        simp only [Bool.and_eq_true, Bool.or_eq_true, beq_iff_eq] at hq
        obtain ⟨hshape, hverd⟩ := hq
        by_cases e : r = m.req
        · simp only [e, if_true]
          have hhold : holdsSlot r (o.mem q) = true := by
            simp only [holdsSlot, List.any_eq_true, beq_iff_eq]; exact ⟨m, hm, e.symm⟩
          cases hv : o.verdict with
          | admitted => rfl
          | refused => rw [hv] at hverd; simp [hhold] at hverd
          | early => rw [hv] at hverd; simp [hhold] at hverd
          | none => rw [hv] at hverd; cases hverd
        · simp only [e, if_false]
          have hmb : m ∈ t.snap q := by
            rcases hshape with (h | h) | h
            · rw [h] at hm; exact hm
            · rw [h] at hm; exact (List.mem_filter.mp hm).1
            · rw [h] at hm
              rcases List.mem_append.mp hm with h2 | h2
              · exact h2
              · simp at h2; rw [h2] at e; exact absurd rfl e
          exact hop q hc m hmb
      | resp r =>
        rw [hev] at hq
        simp only [op', hev]
        simp only [Bool.and_eq_true, beq_iff_eq] at hq
        rw [hq.1] at hm
        have := List.mem_filter.mp hm
        have hne : ¬ r = m.req := by intro e; simpa [e] using this.2
        simp only [hne, if_false]
        exact hop q hc m this.1
      | err r =>
        rw [hev] at hq
        simp only [op', hev]
        simp only [Bool.and_eq_true, beq_iff_eq] at hq
        rw [hq.1] at hm
        have := List.mem_filter.mp hm
        have hne : ¬ r = m.req := by intro e; simpa [e] using this.2
        simp only [hne, if_false]
        exact hop q hc m this.1
      | adv d =>
        rw [hev] at hq
        simp only [op', hev]
        simp only [Bool.and_eq_true] at hq
        apply hop q hc m
        cases hl : t.lastTick cfg d with
        | none => rw [hl] at hq; simp at hq; rw [hq.2] at hm; exact hm
        | some tick =>
          rw [hl] at hq
          simp only [Bool.and_eq_true] at hq
          exact (List.isSublist_iff_sublist.mp hq.2.1.1).subset hm
    exact ih (t.next cfg o) op' hh.2 key q hc m hm


theorem lastSnap_run (cfg : Cfg) (es : List Event) :
    ∀ s t, t.snap = s.members → lastSnap cfg t (run cfg s es) = (final cfg s es).members := by
  induction es with
  | nil => intro s t h; exact h
  | cons e rest ih =>
    intro s t _
    simp only [run, lastSnap, final]
    exact ih _ _ (next_snap cfg t _)

end LunarVerif.C02
