import LunarVerif.Proofs.C01Hist
/-! C01: strict exactness for quotas without parent, one request at a time. -/
namespace LunarVerif.C01

/-- In every reconstructed window all charged arrivals were let through. -/
def EqAll (ss : SSt) : Prop := ∀ k, ∀ w ∈ ss.at k, w.admitted = w.charged

def Flat (cfg : Cfg) : Prop := ∀ (i : Nat) (c : QuotaCfg), cfg.quotas[i]? = some c → c.parent = none

theorem chain_flat (cfg : Cfg) (hflat : Flat cfg) (q : QId) :
    chain cfg q = [] ∨ ∃ c, cfg.quotas[q]? = some c ∧ chain cfg q = [(q, c)] := by
  unfold chain
  cases hn : cfg.quotas.length with
  | zero => left; simp [chainFuel]
  | succ n =>
    unfold chainFuel
    cases hq : cfg.quotas[q]? with
    | none => left; rfl
    | some c =>
      right
      refine ⟨c, rfl, ?_⟩
      simp [hflat q c hq]

theorem EqAll.set {ss : SSt} (h : EqAll ss) (k : Key) (ws : List Win) (hws : ∀ w ∈ ws, w.admitted = w.charged) :
    EqAll (KMap.set ss k ws) := by
  intro q w hw
  rw [SSt.at_set] at hw
  by_cases hk : k = q
  · simp only [hk, if_true] at hw; exact hws w hw
  · simp only [hk, if_false] at hw; exact h q w hw

theorem EqAll.set2 {ss : SSt} (h : EqAll ss) (k : Key) (ws1 ws2 : List Win)
    (hws : ∀ w ∈ ws2, w.admitted = w.charged) : EqAll (KMap.set (KMap.set ss k ws1) k ws2) := by
  intro q w hw
  rw [SSt.at_set] at hw
  by_cases hk : k = q
  · simp only [hk, if_true] at hw; exact hws w hw
  · simp only [hk, if_false] at hw
    rw [SSt.at_set] at hw
    simp only [hk, if_false] at hw
    exact h q w hw

theorem eq_charge_admit (win t : Nat) (ws : List Win) (h : ∀ w ∈ ws, w.admitted = w.charged) :
    ∀ w ∈ admitWin (chargeWin win t ws), w.admitted = w.charged := by
  cases ws with
  | nil => intro w hw; simp [chargeWin, admitWin] at hw; subst hw; rfl
  | cons v rest =>
    by_cases ho : outside win v.start t = true
    · intro w hw
      simp only [chargeWin, ho, if_true, admitWin, List.mem_cons] at hw
      rcases hw with hw | hw | hw
      · subst hw; rfl
      · subst hw; exact h _ (by simp)
      · exact h w (by simp [hw])
    · intro w hw
      simp only [chargeWin, ho, Bool.false_eq_true, if_false, admitWin, List.mem_cons] at hw
      rcases hw with hw | hw
      · subst hw
        have := h v (by simp)
        simp [this]
      · exact h w (by simp [hw])

theorem curAdmitted_eq (win t : Nat) (ws : List Win) (h : ∀ w ∈ ws, w.admitted = w.charged) :
    curAdmitted win t ws = curCharged win t ws := by
  cases ws with
  | nil => rfl
  | cons w rest => simp [curAdmitted, curCharged, h w (by simp)]

/-- One limiter call on a quota without parent, request id fresh: it is let through exactly when the
    current window has room, and the reconstruction keeps `admitted = charged`. -/
theorem flat_step (cfg : Cfg) (hflat : Flat cfg) (st : St) (ss : SSt) (q : QId) (r : Rid) (t : Nat) (h : Hdrs)
    (hrel : LevelsRel cfg st ss) (hfresh : ∀ k, (st.at k).memo.lookup r = none) (heq : EqAll ss) :
    EqAll (sStep cfg ss ⟨⟨.req, q, r, t, h⟩, (apiStep cfg st ⟨.req, q, r, t, h⟩).2⟩) ∧
    ((apiStep cfg st ⟨.req, q, r, t, h⟩).2 = some false → fullAdmitted ss (chain cfg q) t h = true) := by
  rcases chain_flat cfg hflat q with hch | ⟨c, hc, hch⟩
  · simp [apiStep, limiter, sStep, hch, incChain, allowedChain, sInc, sAdmit, heq]
  · have hinv := hrel (q, groupOf c h) c hc
    have hres := incLevel_res hinv c.win r t (hfresh _)
    simp only [apiStep, limiter, sStep, hch, incChain_cons, allowedChain_cons, sInc_cons, sAdmit_cons]
    by_cases hblk : c.max < curCharged c.win t (ss.at (q, groupOf c h)) + 1
    · -- blocked
      simp only [hblk, if_true] at hres
      have hne : (incLevel c.max c.win (st.at (q, groupOf c h)) r t).2 ≠ IncRes.increased := by
        rw [hres]; simp
      have hlk := incLevel_blocked_lookup c.max c.win _ r t (hfresh _) hne
      have hb : (allowedLevel (St.at (KMap.set st (q, groupOf c h)
          (incLevel c.max c.win (st.at (q, groupOf c h)) r t).1) (q, groupOf c h)) r).2 = false := by
        rw [St.at_set]
        simp only [if_true]
        unfold allowedLevel
        cases hl : (incLevel c.max c.win (st.at (q, groupOf c h)) r t).1.memo.lookup r with
        | none => rfl
        | some v =>
          cases v with
          | false => rfl
          | true => exact absurd hl hlk
      simp only [hres, hblk, if_true]
      have : (IncRes.blocked = IncRes.increased) = False := by simp
      simp only [this, if_false, hb, Bool.false_eq_true, sInc]
      refine ⟨heq, fun _ => ?_⟩
      simp only [fullAdmitted, List.any_cons, List.any_nil, Bool.or_false, decide_eq_true_eq]
      rw [curAdmitted_eq _ _ _ (heq _)]
      omega
    · -- room: charged and let through
      simp only [hblk, if_false] at hres
      have hlk := incLevel_increased_lookup c.max c.win _ r t hres
      have hb : (allowedLevel (St.at (KMap.set st (q, groupOf c h)
          (incLevel c.max c.win (st.at (q, groupOf c h)) r t).1) (q, groupOf c h)) r).2 = true := by
        rw [St.at_set]
        simp only [if_true]
        simp [allowedLevel, hlk]
      simp only [hres, hblk, if_true, if_false, incChain, hb, allowedChain, sInc, sAdmit, SSt.at_set]
      refine ⟨?_, fun hf => by simp at hf⟩
      exact heq.set2 _ _ _ (eq_charge_admit c.win t (ss.at (q, groupOf c h)) (heq _))


theorem flat_exact (cfg : Cfg) (hflat : Flat cfg) (hpf : ParentsFirst cfg) : ∀ (ops : List Op) (st : St) (ss : SSt),
    LevelsRel cfg st ss → (∀ r ∈ opArr ops, ∀ k, (st.at k).memo.lookup r = none) → nodupB (opArr ops) = true →
    (∀ o ∈ ops, o.kind = .req) → EqAll ss →
    exactFrom cfg fullAdmitted ss (observe cfg st ops) = true := by
  intro ops
  induction ops with
  | nil => intro st ss _ _ _ _ _; rfl
  | cons o os ih =>
    intro st ss hrel hfresh hnd hreq heq
    obtain ⟨hf', hnd', hfo⟩ := fresh_step cfg st o os hfresh hnd
    obtain ⟨hrel', _⟩ := apiStep_rel cfg hpf st ss o hrel hfo
    have hk : o.kind = .req := hreq o (by simp)
    obtain ⟨kind, q, r, t, h⟩ := o
    simp only at hk
    subst hk
    obtain ⟨heq', hfull⟩ := flat_step cfg hflat st ss q r t h hrel (hfo (Or.inr rfl)) heq
    have ih' := ih _ _ hrel' hf' hnd' (fun o ho => hreq o (by simp [ho])) heq'
    simp only [observe, exactFrom, ih', Bool.and_true]
    by_cases hc : ((apiStep cfg st ⟨.req, q, r, t, h⟩).2 == some false) = true
    · simp only [beq_iff_eq] at hc
      simp [hc, hfull hc]
    · simp [hc]

end LunarVerif.C01
