import LunarVerif.Spec.C17
/-! Helper lemmas for C17: association-list facts, the flows-mode invariant (counter = retries since
the last `failed`), the frame lemma, and the policy-mode simulation between the cache and the
monitor's budget. -/
namespace LunarVerif.C17

/-! ### association lists -/

theorem lookup_insert_same {α : Type} (k : Key) (v : α) (m : AMap α) :
    lookup k (insert k v m) = some v := by
  induction m with
  | nil => simp [insert, lookup]
  | cons x r ih =>
    obtain ⟨k', v'⟩ := x
    by_cases h : k' = k
    · simp [insert, lookup, h]
    · simp [insert, lookup, h, ih]

theorem lookup_insert_other {α : Type} (k k' : Key) (v : α) (m : AMap α) (hne : k' ≠ k) :
    lookup k' (insert k v m) = lookup k' m := by
  induction m with
  | nil => simp [insert, lookup, Ne.symm hne]
  | cons x r ih =>
    obtain ⟨k'', v''⟩ := x
    by_cases h : k'' = k
    · subst h
      simp [insert, lookup, Ne.symm hne]
    · by_cases h2 : k'' = k'
      · subst h2; simp [insert, lookup, h]
      · simp [insert, lookup, h, h2, ih]

theorem lookup_erase_same {α : Type} (k : Key) (m : AMap α) : lookup k (erase k m) = none := by
  induction m with
  | nil => simp [erase, lookup]
  | cons x r ih =>
    obtain ⟨k', v'⟩ := x
    by_cases h : k' = k
    · simp [erase, h, ih]
    · simp [erase, lookup, h, ih]

theorem lookup_erase_other {α : Type} (k k' : Key) (m : AMap α) (hne : k' ≠ k) :
    lookup k' (erase k m) = lookup k' m := by
  induction m with
  | nil => simp [erase, lookup]
  | cons x r ih =>
    obtain ⟨k'', v''⟩ := x
    by_cases h : k'' = k
    · subst h
      simp [erase, lookup, Ne.symm hne, ih]
    · by_cases h2 : k'' = k'
      · subst h2; simp [erase, lookup, h]
      · simp [erase, lookup, h, h2, ih]

/-- erasing can only remove bindings -/
theorem lookup_erase_some {α : Type} (k k' : Key) (m : AMap α) (e : α)
    (h : lookup k' (erase k m) = some e) : lookup k' m = some e := by
  by_cases hk : k' = k
  · subst hk; rw [lookup_erase_same] at h; cases h
  · rwa [lookup_erase_other _ _ _ hk] at h

/-! ### flows mode -/

/-- The counter stored under `k` is the number of retries since the last `failed` on `k`
    (absent when that number is 0). -/
def FInv (m : AMap Nat) (h : List FEvent) : Prop :=
  ∀ k, lookup k m = (if retriesSince k h = 0 then none else some (retriesSince k h))

theorem finv_init : FInv [] [] := by
  intro k; simp [lookup, retriesSince]

theorem finv_cur (m : AMap Nat) (h : List FEvent) (hinv : FInv m h) (k : Key) :
    (lookup k m).getD 0 = retriesSince k h := by
  rw [hinv k]
  by_cases h0 : retriesSince k h = 0
  · simp [h0]
  · simp [h0]

theorem fstep_inv (p : PCfg) (m : AMap Nat) (h : List FEvent) (k : Key) (hinv : FInv m h) :
    FInv (fstep p m k).1 (⟨p, k, (fstep p m k).2⟩ :: h) ∧
    fEventOk ⟨p, k, (fstep p m k).2⟩ h = true := by
  have hcur := finv_cur m h hinv k
  unfold fstep
  simp only [hcur]
  by_cases hgt : retriesSince k h + 1 > p.attempts
  · simp only [hgt, if_true]
    refine ⟨?_, ?_⟩
    · intro k'
      by_cases hk : k' = k
      · subst hk
        simp [lookup_erase_same, retriesSince]
      · rw [lookup_erase_other _ _ _ hk, lookup_insert_other _ _ _ _ hk, hinv k']
        simp [retriesSince, Ne.symm hk]
    · simp [fEventOk, hgt]
  · simp only [hgt, if_false]
    refine ⟨?_, ?_⟩
    · intro k'
      by_cases hk : k' = k
      · subst hk
        simp [lookup_insert_same, retriesSince]
      · rw [lookup_insert_other _ _ _ _ hk, hinv k']
        simp [retriesSince, Ne.symm hk]
    · simp [fEventOk, hgt]

theorem frun_holds (ops : List FOp) :
    ∀ (m : AMap Nat) (h : List FEvent), FInv m h → fholdsRev h = true →
      fholdsRev ((frun m ops).reverse ++ h) = true ∧ FInv (ffinal m ops) ((frun m ops).reverse ++ h) := by
  induction ops with
  | nil => intro m h hinv hh; simpa [frun, ffinal] using ⟨hh, hinv⟩
  | cons o os ih =>
    intro m h hinv hh
    have hs := fstep_inv o.cfg m h o.key hinv
    simp only [frun, ffinal, List.reverse_cons, List.append_assoc, List.singleton_append]
    apply ih _ _ hs.1
    simp only [fholdsRev, Bool.and_eq_true]
    exact ⟨hs.2, hh⟩

theorem fholdsRev_append_right (a b : List FEvent) (h : fholdsRev (a ++ b) = true) :
    fholdsRev b = true := by
  induction a with
  | nil => simpa using h
  | cons x xs ih =>
    simp only [List.cons_append, fholdsRev, Bool.and_eq_true] at h
    exact ih h.2

/-- With constant `attempts = A` on key `k`, a good history never shows more than `A` retries on
    `k` since the last `failed`. -/
theorem retriesSince_le (k : Key) (A : Nat) (h : List FEvent) (hh : fholdsRev h = true)
    (hA : ∀ e ∈ h, e.key = k → e.cfg.attempts = A) : retriesSince k h ≤ A := by
  induction h with
  | nil => simp [retriesSince]
  | cons e older ih =>
    simp only [fholdsRev, Bool.and_eq_true] at hh
    have ih' := ih hh.2 (fun e' he' => hA e' (List.mem_cons_of_mem _ he'))
    by_cases hk : e.key = k
    · have ha := hA e (List.mem_cons_self ..) hk
      have hok := hh.1
      unfold fEventOk at hok
      simp only [hk, ha] at hok
      simp only [retriesSince, hk, if_true]
      cases ho : e.out with
      | failed => simp
      | retry w =>
        by_cases hgt : retriesSince k older + 1 > A
        · simp [hgt, ho] at hok
        · simp only; omega
    · simp only [retriesSince, hk, if_false]; exact ih'

/-- Over a stretch without `failed` on `k`, retries on `k` accumulate. -/
theorem retriesSince_append (k : Key) (seg h : List FEvent) (hnf : noFailedOn k seg = true) :
    retriesSince k (seg.reverse ++ h) = countRetryOn k seg + retriesSince k h := by
  induction seg generalizing h with
  | nil => simp [countRetryOn]
  | cons e es ih =>
    simp only [noFailedOn, List.all_cons, Bool.and_eq_true] at hnf
    have hes : noFailedOn k es = true := by simpa [noFailedOn] using hnf.2
    simp only [List.reverse_cons, List.append_assoc, List.singleton_append]
    rw [ih (e :: h) hes]
    by_cases hk : e.key = k
    · cases ho : e.out with
      | failed => simp [hk, ho] at hnf
      | retry w =>
        simp [retriesSince, countRetryOn, hk, ho]
        omega
    · simp [retriesSince, countRetryOn, hk]

theorem frun_mem (ops : List FOp) : ∀ (m : AMap Nat) (e : FEvent), e ∈ frun m ops →
    ∃ o ∈ ops, e.cfg = o.cfg ∧ e.key = o.key := by
  induction ops with
  | nil => intro m e h; simp [frun] at h
  | cons o os ih =>
    intro m e h
    simp only [frun, List.mem_cons] at h
    rcases h with h | h
    · exact ⟨o, List.mem_cons_self .., by rw [h], by rw [h]⟩
    · obtain ⟨o', ho', hc⟩ := ih _ e h
      exact ⟨o', List.mem_cons_of_mem _ ho', hc⟩

/-! frame lemma: an execution reads and writes only its own counter -/

theorem fstep_frame (p : PCfg) (m : AMap Nat) (k k' : Key) (hne : k' ≠ k) :
    lookup k' (fstep p m k).1 = lookup k' m := by
  unfold fstep
  dsimp only
  split
  · rw [lookup_erase_other _ _ _ hne, lookup_insert_other _ _ _ _ hne]
  · rw [lookup_insert_other _ _ _ _ hne]

theorem fstep_congr (p : PCfg) (m m' : AMap Nat) (k : Key) (h : lookup k m = lookup k m') :
    (fstep p m k).2 = (fstep p m' k).2 ∧ lookup k (fstep p m k).1 = lookup k (fstep p m' k).1 := by
  unfold fstep
  dsimp only
  rw [h]
  split
  · simp [lookup_erase_same]
  · simp [lookup_insert_same]

theorem frun_filter (k : Key) (ops : List FOp) :
    ∀ (m m' : AMap Nat), lookup k m = lookup k m' →
      (frun m ops).filter (fun e => decide (e.key = k)) =
        frun m' (ops.filter fun o => decide (o.key = k)) := by
  induction ops with
  | nil => intro m m' _; simp [frun]
  | cons o os ih =>
    intro m m' hl
    by_cases hk : o.key = k
    · have hc := fstep_congr o.cfg m m' o.key (by rw [hk]; exact hl)
      simp only [frun, List.filter_cons, hk, decide_true, if_true]
      rw [← hk, hc.1]
      congr 1
      rw [hk]
      apply ih
      rw [← hk]; exact hc.2
    · simp only [frun, List.filter_cons, hk, decide_false, Bool.false_eq_true, if_false]
      apply ih
      rw [fstep_frame _ _ _ _ (Ne.symm hk)]; exact hl

/-! ### policy mode -/

/-- Simulation between the cache and the monitor's budget: a live cache entry has between 1 and
    `budget` attempts left. -/
def PInv (s : PState) (b : AMap Nat) : Prop :=
  ∀ k e, lookup k s.cache = some e → s.now ≤ e.exp →
    1 ≤ e.left ∧ e.left ≤ (((lookup k b).getD 0 : Nat) : Int)

theorem pinv_init (t0 : Nat) : PInv (PState.init t0) [] := by
  intro k e h; simp [PState.init, lookup] at h

theorem cacheGet_some (s : PState) (k : Key) (e : Entry) (h : cacheGet s k = some e) :
    lookup k s.cache = some e ∧ s.now ≤ e.exp := by
  unfold cacheGet at h
  cases hl : lookup k s.cache with
  | none => simp [hl] at h
  | some e' =>
    simp only [hl] at h
    by_cases hx : s.now > e'.exp
    · simp [hx] at h
    · simp only [hx, if_false, Option.some.injEq] at h
      subst h
      exact ⟨rfl, by omega⟩

theorem cacheGet_none (s : PState) (k : Key) (h : cacheGet s k = none) (e : Entry)
    (hl : lookup k s.cache = some e) : ¬ s.now ≤ e.exp := by
  unfold cacheGet at h
  simp only [hl] at h
  by_cases hx : s.now > e.exp
  · omega
  · simp [hx] at h

theorem fireDue_lookup (now : Nat) (t : List (Nat × Key)) :
    ∀ (c : AMap Entry) (k : Key) (e : Entry),
      lookup k (fireDue now t c).2 = some e → lookup k c = some e := by
  induction t with
  | nil => intro c k e h; simpa [fireDue] using h
  | cons x r ih =>
    intro c k e h
    obtain ⟨due, k'⟩ := x
    unfold fireDue at h
    by_cases hd : due ≤ now
    · simp only [hd, if_true] at h
      exact lookup_erase_some _ _ _ _ (ih _ _ _ h)
    · simp only [hd, if_false] at h
      exact ih _ _ _ h

theorem adv_inv (s : PState) (b : AMap Nat) (d : Nat) (h : PInv s b) : PInv (adv s d) b := by
  intro k e hl hlive
  unfold adv at hl hlive
  simp only at hl hlive
  exact h k e (fireDue_lookup _ _ _ _ _ hl) (by omega)

theorem jump_inv (s : PState) (b : AMap Nat) (d : Nat) (h : PInv s b) : PInv (jump s d) b := by
  intro k e hl hlive
  unfold jump at hl hlive
  simp only at hl hlive
  exact h k e hl (by omega)

/-- bookkeeping: the invariant after an update that touches only sequence `seq` -/
theorem pinv_update (s s' : PState) (b b' : AMap Nat) (h : PInv s b) (seq : Key)
    (hnow : s'.now = s.now)
    (hc : ∀ k, k ≠ seq → lookup k s'.cache = lookup k s.cache)
    (hb : ∀ k, k ≠ seq → lookup k b' = lookup k b)
    (hseq : ∀ e, lookup seq s'.cache = some e → s.now ≤ e.exp →
      1 ≤ e.left ∧ e.left ≤ (((lookup seq b').getD 0 : Nat) : Int)) :
    PInv s' b' := by
  intro k e hl hlive
  rw [hnow] at hlive
  by_cases hk : k = seq
  · subst hk; exact hseq e hl hlive
  · rw [hb k hk]; exact h k e (by rw [← hc k hk]; exact hl) hlive

/-- the monitor allows a retry header on a first response when `A ≥ 1`, or while budget is left;
    the new budget `v` is at least the old one minus one, and at least `A - 1` in the first case -/
theorem pmon_retry (A : Int) (b : AMap Nat) (seq : Key) (first : Bool) (n : Nat)
    (hperm : (first = true ∧ 1 ≤ A) ∨ 0 < (lookup seq b).getD 0) :
    ∃ v, pmon A b ⟨seq, first, true, .retry n⟩ = some (insert seq v b) ∧
      (lookup seq b).getD 0 - 1 ≤ v ∧ (first = true ∧ 1 ≤ A → A.toNat - 1 ≤ v) := by
  unfold pmon
  by_cases hf : first = true ∧ 1 ≤ A
  · refine ⟨max ((lookup seq b).getD 0 - 1) (A.toNat - 1), ?_, ?_, ?_⟩
    · simp [hf.1, hf.2]
    · omega
    · intro _; omega
  · have hpos : 0 < (lookup seq b).getD 0 := by
      rcases hperm with h | h
      · exact absurd h hf
      · exact h
    have hf' : (first && decide (1 ≤ A)) = false := by
      cases first <;> simp_all
    refine ⟨(lookup seq b).getD 0 - 1, ?_, ?_, ?_⟩
    · simp [hf', hpos]
    · omega
    · intro h; exact absurd h hf

theorem presp_inv (cfg : RCfg) (s : PState)
    (b : AMap Nat) (seq : Key) (first : Bool) (status : Int) (h : PInv s b) :
    ∃ b', pmon cfg.attempts b ⟨seq, first, inRange cfg status, (presp cfg s seq first status).2⟩ = some b' ∧
      PInv (presp cfg s seq first status).1 b' := by
  unfold presp
  by_cases hr : inRange cfg status = true
  · simp only [hr, if_true]
    -- which attempts-left / cool-down pair is used
    cases hg : cacheGet s seq with
    | some e0 =>
      obtain ⟨hl0, hlive0⟩ := cacheGet_some s seq e0 hg
      obtain ⟨h1e, hleb⟩ := h seq e0 hl0 hlive0
      have hpos : 0 < (lookup seq b).getD 0 := by omega
      obtain ⟨v, hv, hv1, _⟩ := pmon_retry cfg.attempts b seq first e0.next (Or.inr hpos)
      simp only
      by_cases hx : e0.left - 1 < 1
      · simp only [hx, if_true]
        refine ⟨_, hv, ?_⟩
        apply pinv_update s _ b _ h seq
        · rfl
        · intro k hk; exact lookup_erase_other _ _ _ hk
        · intro k hk; exact lookup_insert_other _ _ _ _ hk
        · intro e hl _; rw [lookup_erase_same] at hl; cases hl
      · simp only [hx, if_false]
        refine ⟨_, hv, ?_⟩
        apply pinv_update s _ b _ h seq
        · rfl
        · intro k hk; exact lookup_insert_other _ _ _ _ hk
        · intro k hk; exact lookup_insert_other _ _ _ _ hk
        · intro e hl _
          rw [lookup_insert_same] at hl
          simp only [Option.some.injEq] at hl
          subst hl
          rw [lookup_insert_same]
          simp only [Option.getD_some]
          omega
    | none =>
      -- no live state: NoOp unless this is a first response and at least one attempt is configured
      have hnoop : (first && decide (1 ≤ cfg.attempts)) = false →
          ∃ b', pmon cfg.attempts b ⟨seq, first, true, POut.noop⟩ = some b' ∧ PInv s b' := by
        intro hc
        refine ⟨erase seq b, by simp [pmon, hc], ?_⟩
        apply pinv_update s s b _ h seq
        · rfl
        · intro k _; rfl
        · intro k hk; exact lookup_erase_other _ _ _ hk
        · intro e hl hlive
          exact absurd hlive (cacheGet_none s seq hg e hl)
      by_cases hf : first = true
      · by_cases hA : cfg.attempts < 1
        · simpa [hf, hA] using hnoop (by simp [hf]; omega)
        · have h1 : 1 ≤ cfg.attempts := by omega
          obtain ⟨v, hv, _, hv2⟩ := pmon_retry cfg.attempts b seq first cfg.cooldown (Or.inl ⟨hf, h1⟩)
          have hv2 := hv2 ⟨hf, h1⟩
          simp only [hf, Bool.not_true, Bool.false_eq_true, if_false, hA]
          by_cases hx : cfg.attempts - 1 < 1
          · simp only [hx, if_true]
            refine ⟨_, by simpa [hf] using hv, ?_⟩
            apply pinv_update s _ b _ h seq
            · rfl
            · intro k hk; exact lookup_erase_other _ _ _ hk
            · intro k hk; exact lookup_insert_other _ _ _ _ hk
            · intro e hl _; rw [lookup_erase_same] at hl; cases hl
          · simp only [hx, if_false]
            refine ⟨_, by simpa [hf] using hv, ?_⟩
            apply pinv_update s _ b _ h seq
            · rfl
            · intro k hk; exact lookup_insert_other _ _ _ _ hk
            · intro k hk; exact lookup_insert_other _ _ _ _ hk
            · intro e hl _
              rw [lookup_insert_same] at hl
              simp only [Option.some.injEq] at hl
              subst hl
              rw [lookup_insert_same]
              simp only [Option.getD_some]
              omega
      · have hf' : first = false := by simpa using hf
        simpa [hf'] using hnoop (by simp [hf'])
  · have hr' : inRange cfg status = false := by simpa using hr
    simp only [hr', Bool.false_eq_true, if_false]
    refine ⟨erase seq b, by simp [pmon], ?_⟩
    apply pinv_update s _ b _ h seq
    · rfl
    · intro k hk; exact lookup_erase_other _ _ _ hk
    · intro k hk; exact lookup_erase_other _ _ _ hk
    · intro e hl _; rw [lookup_erase_same] at hl; cases hl

theorem prun_holds (cfg : RCfg) (ops : List POp) :
    ∀ (s : PState) (b : AMap Nat), PInv s b → pholdsFrom cfg.attempts b (prun cfg s ops) = true := by
  induction ops with
  | nil => intro s b _; simp [prun, pholdsFrom]
  | cons o os ih =>
    intro s b hinv
    cases o with
    | resp seq first status =>
      obtain ⟨b', hm, hinv'⟩ := presp_inv cfg s b seq first status hinv
      simp only [prun, pstepOp, pholdsFrom, hm]
      exact ih _ _ hinv'
    | adv d =>
      simp only [prun, pstepOp]
      exact ih _ _ (adv_inv s b d hinv)
    | jump d =>
      simp only [prun, pstepOp]
      exact ih _ _ (jump_inv s b d hinv)

/-! the bound that the monitor enforces: retries + remaining budget ≤ A × (first in-range responses) -/

theorem pmon_frame (A : Int) (s : Key) (b b' : AMap Nat) (e : PEvent)
    (hm : pmon A b e = some b') (hs : s ≠ e.seq) : lookup s b' = lookup s b := by
  unfold pmon at hm
  dsimp only at hm
  split at hm
  · split at hm
    · cases hm; exact lookup_erase_other _ _ _ hs
    · cases hm
  · split at hm
    · split at hm
      · cases hm
      · cases hm; exact lookup_erase_other _ _ _ hs
    · split at hm
      · cases hm; exact lookup_insert_other _ _ _ _ hs
      · split at hm
        · cases hm; exact lookup_insert_other _ _ _ _ hs
        · cases hm

theorem pmon_potential (A : Int) (s : Key) (b b' : AMap Nat) (e : PEvent)
    (hm : pmon A b e = some b') :
    (lookup s b').getD 0 + countRetryHdr s [e] ≤ (lookup s b).getD 0 + A.toNat * countFirstIn s [e] := by
  by_cases hs : e.seq = s
  · subst hs
    unfold pmon at hm
    dsimp only at hm
    by_cases hin : e.inRange = true
    · simp only [hin, Bool.not_true, Bool.false_eq_true, if_false] at hm
      cases ho : e.out with
      | noop =>
        simp only [ho] at hm
        by_cases hc : (e.first && decide (1 ≤ A)) = true
        · simp only [hc, if_true] at hm
          cases hm
        · simp only [hc, Bool.false_eq_true, if_false] at hm
          cases hm
          simp [lookup_erase_same, countRetryHdr, ho]
      | retry n =>
        simp only [ho] at hm
        by_cases hf : (e.first && decide (1 ≤ A)) = true
        · simp only [hf, if_true] at hm
          cases hm
          simp only [Bool.and_eq_true, decide_eq_true_eq] at hf
          have hA : 1 ≤ A.toNat := by omega
          simp only [lookup_insert_same, Option.getD_some, countRetryHdr, countFirstIn, List.filter_cons,
            decide_true, ho, hf.1, hin, Bool.and_self, Bool.true_and, List.filter_nil]
          simp
          omega
        · simp only [hf, Bool.false_eq_true, if_false] at hm
          by_cases hc : (lookup e.seq b).getD 0 > 0
          · simp only [hc, if_true] at hm
            cases hm
            simp only [lookup_insert_same, Option.getD_some, countRetryHdr, List.filter_cons,
              decide_true, ho, Bool.true_and, List.filter_nil]
            simp
            omega
          · simp only [hc, if_false] at hm
            cases hm
    · have hin' : e.inRange = false := by simpa using hin
      simp only [hin', Bool.not_false, if_true] at hm
      by_cases ho : (e.out == POut.noop) = true
      · simp only [ho, if_true] at hm
        cases hm
        have : e.out = .noop := by simpa using ho
        simp [lookup_erase_same, countRetryHdr, this]
      · simp only [ho, Bool.false_eq_true, if_false] at hm
        cases hm
  · have hf := pmon_frame A s b b' e hm (Ne.symm hs)
    rw [hf]
    simp [countRetryHdr, countFirstIn, hs]

theorem countRetryHdr_cons (s : Key) (e : PEvent) (l : List PEvent) :
    countRetryHdr s (e :: l) = countRetryHdr s [e] + countRetryHdr s l := by
  simp only [countRetryHdr, List.filter_cons, List.filter_nil]
  split <;> simp <;> omega

theorem countFirstIn_cons (s : Key) (e : PEvent) (l : List PEvent) :
    countFirstIn s (e :: l) = countFirstIn s [e] + countFirstIn s l := by
  simp only [countFirstIn, List.filter_cons, List.filter_nil]
  split <;> simp <;> omega

/-- What acceptance by the monitor means in numbers. -/
theorem pholdsFrom_bound (A : Int) (s : Key) (l : List PEvent) :
    ∀ b : AMap Nat, pholdsFrom A b l = true →
      countRetryHdr s l ≤ (lookup s b).getD 0 + A.toNat * countFirstIn s l := by
  induction l with
  | nil => intro b _; simp [countRetryHdr]
  | cons e es ih =>
    intro b hh
    unfold pholdsFrom at hh
    cases hm : pmon A b e with
    | none => simp [hm] at hh
    | some b' =>
      simp only [hm] at hh
      have h2 := ih b' hh
      have h3 := pmon_potential A s b b' e hm
      rw [countRetryHdr_cons, countFirstIn_cons, Nat.mul_add]
      omega

end LunarVerif.C17
