import LunarVerif.Spec.C01
/-! Helper lemmas for C01: maps, one level (`Lvl`) against its reconstructed windows, schedules. -/
namespace LunarVerif.C01

/-! ### Finite maps -/

theorem KMap.get_set {α : Type} (d : α) (m : KMap α) (k : Key) (v : α) (q : Key) :
    KMap.get d (KMap.set m k v) q = if k = q then v else KMap.get d m q := by
  simp [KMap.set, KMap.get]

theorem St.at_set (st : St) (k : Key) (l : Lvl) (q : Key) :
    St.at (KMap.set st k l) q = if k = q then l else St.at st q := by
  simp [St.at, KMap.get_set]

theorem SSt.at_set (ss : SSt) (k : Key) (ws : List Win) (q : Key) :
    SSt.at (KMap.set ss k ws) q = if k = q then ws else SSt.at ss q := by
  simp [SSt.at, KMap.get_set]

theorem St.at_init (k : Key) : St.at St.init k = Lvl.init := rfl
theorem SSt.at_init (k : Key) : SSt.at SSt.init k = [] := rfl

/-! ### The memo -/

/-- Number of `true` entries of a memo. -/
def memoTrue (m : List (Rid × Bool)) : Nat := (m.filter (fun e => e.2)).length

theorem memoTrue_cons (e : Rid × Bool) (m : List (Rid × Bool)) :
    memoTrue (e :: m) = (if e.2 then 1 else 0) + memoTrue m := by
  unfold memoTrue
  by_cases h : e.2 = true
  · simp [h]; omega
  · simp [h]

theorem memoTrue_erase_le (m : List (Rid × Bool)) (r : Rid) :
    memoTrue (m.filter (fun e => e.1 != r)) ≤ memoTrue m := by
  induction m with
  | nil => simp [memoTrue]
  | cons e m ih =>
    by_cases h : (e.1 != r) = true
    · simp only [List.filter_cons, h, if_true, memoTrue_cons]; omega
    · simp only [List.filter_cons, h, memoTrue_cons]
      have : (if (false : Bool) = true then e :: m.filter (fun e => e.1 != r) else m.filter (fun e => e.1 != r))
          = m.filter (fun e => e.1 != r) := by simp
      simp only [Bool.false_eq_true, if_false] at *
      omega

theorem memoTrue_erase_lt (m : List (Rid × Bool)) (r : Rid) (h : m.lookup r = some true) :
    memoTrue (m.filter (fun e => e.1 != r)) + 1 ≤ memoTrue m := by
  induction m with
  | nil => simp at h
  | cons e m ih =>
    obtain ⟨a, b⟩ := e
    by_cases hr : r = a
    · subst hr
      simp only [List.lookup_cons_self, Option.some.injEq] at h
      subst h
      have := memoTrue_erase_le m r
      simp [List.filter_cons, memoTrue_cons]; omega
    · have hne : (r == a) = false := by simpa using hr
      have hne' : (a != r) = true := by simp; exact fun h => hr h.symm
      simp only [List.lookup_cons, hne] at h
      have := ih h
      simp only [List.filter_cons, hne', if_true, memoTrue_cons]; omega

/-! ### One level against its reconstructed windows -/

/-- Relation between a level and the windows reconstructed from its log (newest first). -/
structure TInv (mx : Nat) (l : Lvl) (ws : List Win) : Prop where
  empty : ws = [] → l.start = none ∧ l.counter = 0 ∧ memoTrue l.memo = 0
  head : ∀ w rest, ws = w :: rest →
    l.start = some w.start ∧ l.counter = w.charged ∧ w.admitted + memoTrue l.memo ≤ w.charged
  all : ∀ w ∈ ws, w.admitted ≤ w.charged ∧ w.charged ≤ mx

theorem TInv.init (mx : Nat) : TInv mx Lvl.init [] := by
  constructor
  · intro _; simp [Lvl.init, memoTrue]
  · intro w rest h; simp at h
  · intro w h; simp at h

/-- The base count `AtomicIncWindow` starts from equals the charged count of the window that is
    current for the arrival, as reconstructed. -/
theorem base_eq_curCharged {mx : Nat} {l : Lvl} {ws : List Win} (inv : TInv mx l ws) (win t : Nat) :
    (if decide (win ≤ elapsed l t) then 0 else l.counter) = curCharged win t ws := by
  cases ws with
  | nil =>
    obtain ⟨_, hc, _⟩ := inv.empty rfl
    simp [curCharged, hc]
  | cons w rest =>
    obtain ⟨hs, hc, _⟩ := inv.head w rest rfl
    simp only [curCharged, outside, elapsed, hs, hc]

theorem incLevel_res {mx : Nat} {l : Lvl} {ws : List Win} (inv : TInv mx l ws) (win r t : Nat)
    (hfresh : l.memo.lookup r = none) :
    (incLevel mx win l r t).2 = if mx < curCharged win t ws + 1 then IncRes.blocked else IncRes.increased := by
  have hb := base_eq_curCharged inv win t
  unfold incLevel
  simp only [hfresh]
  rw [hb]
  split <;> rfl

/-- `quota.Inc` preserves the relation; the windows change exactly when the answer is `increased`. -/
theorem incLevel_inv {mx : Nat} {l : Lvl} {ws : List Win} (inv : TInv mx l ws) (win r t : Nat) :
    TInv mx (incLevel mx win l r t).1
      (if (incLevel mx win l r t).2 = IncRes.increased then chargeWin win t ws else ws) := by
  unfold incLevel
  cases hl : l.memo.lookup r with
  | some v => simpa using inv
  | none =>
    simp only
    by_cases hblk : mx < (if decide (win ≤ elapsed l t) = true then 0 else l.counter) + 1
    · -- blocked: only the memo changes, and it gains no `true`
      simp only [hblk, if_true]
      have : (IncRes.blocked = IncRes.increased) = False := by simp
      simp only [this, if_false]
      constructor
      · intro h
        obtain ⟨h1, h2, h3⟩ := inv.empty h
        refine ⟨h1, h2, ?_⟩
        dsimp only
        split
        · simp [memoTrue]
        · simp [memoTrue_cons, h3]
      · intro w rest h
        obtain ⟨h1, h2, h3⟩ := inv.head w rest h
        refine ⟨h1, h2, ?_⟩
        dsimp only
        split
        · simp [memoTrue]
        · simp [memoTrue_cons]; exact h3
      · exact inv.all
    · -- increased
      simp only [hblk, if_false]
      simp only [if_true]
      cases ws with
      | nil =>
        obtain ⟨hs, hc, hm⟩ := inv.empty rfl
        simp only [hc, ite_self, Nat.zero_add] at hblk
        constructor
        · intro h; simp [chargeWin] at h
        · intro w rest h
          simp only [chargeWin, List.cons.injEq] at h
          obtain ⟨hw, _⟩ := h
          subst hw
          dsimp only
          refine ⟨?_, ?_, ?_⟩
          · simp only [hs]; split <;> rfl
          · simp [hc]
          · simp only [memoTrue_cons, hc, ite_self]
            split
            · simp [memoTrue]
            · simp [hm]
        · intro w hw
          simp only [chargeWin, List.mem_singleton] at hw
          subst hw
          dsimp only
          omega
      | cons w rest =>
        obtain ⟨hs, hc, hm⟩ := inv.head w rest rfl
        have hall := inv.all
        have hel : elapsed l t = t - w.start * nsPerSec := by simp [elapsed, hs]
        by_cases hout : win ≤ t - w.start * nsPerSec
        · -- a new window
          have ho : outside win w.start t = true := by simp [outside, hout]
          have hd : decide (win ≤ elapsed l t) = true := by simp [hel, hout]
          simp only [hd, if_true, Nat.zero_add] at hblk ⊢
          simp only [chargeWin, ho, if_true]
          constructor
          · intro h; simp at h
          · intro w' rest' h
            simp only [List.cons.injEq] at h
            obtain ⟨hw, _⟩ := h
            subst hw
            dsimp only
            refine ⟨rfl, rfl, ?_⟩
            simp [memoTrue_cons, memoTrue]
          · intro w' hw'
            simp only [List.mem_cons] at hw'
            rcases hw' with h | h
            · subst h; dsimp only; omega
            · exact hall w' (by simp only [List.mem_cons]; exact h)
        · -- the current window
          have ho : outside win w.start t = false := by simp [outside, hout]
          have hd : decide (win ≤ elapsed l t) = false := by simp [hel, hout]
          simp only [hd, Bool.false_eq_true, if_false] at hblk ⊢
          simp only [chargeWin, ho, Bool.false_eq_true, if_false]
          constructor
          · intro h; simp at h
          · intro w' rest' h
            simp only [List.cons.injEq] at h
            obtain ⟨hw, _⟩ := h
            subst hw
            dsimp only
            refine ⟨by simp [hs], by omega, ?_⟩
            simp only [memoTrue_cons, if_true]
            omega
          · intro w' hw'
            simp only [List.mem_cons] at hw'
            rcases hw' with h | h
            · subst h
              dsimp only
              have := (hall w (by simp)).1
              omega
            · exact hall w' (by simp only [List.mem_cons]; right; exact h)

/-- `quota.Allowed` preserves the relation; an answer `true` is an admission in the current window. -/
theorem allowedLevel_inv {mx : Nat} {l : Lvl} {ws : List Win} (inv : TInv mx l ws) (r : Rid) :
    TInv mx (allowedLevel l r).1 (if (allowedLevel l r).2 = true then admitWin ws else ws) := by
  unfold allowedLevel
  cases hl : l.memo.lookup r with
  | none => simpa using inv
  | some v =>
    dsimp only
    cases v with
    | false =>
      simp only [Bool.false_eq_true, if_false]
      have hle := memoTrue_erase_le l.memo r
      constructor
      · intro h
        obtain ⟨h1, h2, h3⟩ := inv.empty h
        exact ⟨h1, h2, by dsimp only; omega⟩
      · intro w rest h
        obtain ⟨h1, h2, h3⟩ := inv.head w rest h
        exact ⟨h1, h2, by dsimp only; omega⟩
      · exact inv.all
    | true =>
      simp only [if_true]
      have hlt := memoTrue_erase_lt l.memo r hl
      cases ws with
      | nil =>
        obtain ⟨_, _, h3⟩ := inv.empty rfl
        omega
      | cons w rest =>
        obtain ⟨h1, h2, h3⟩ := inv.head w rest rfl
        have hall := inv.all
        simp only [admitWin]
        constructor
        · intro h; simp at h
        · intro w' rest' h
          simp only [List.cons.injEq] at h
          obtain ⟨hw, _⟩ := h
          subst hw
          dsimp only
          exact ⟨h1, h2, by omega⟩
        · intro w' hw'
          simp only [List.mem_cons] at hw'
          rcases hw' with h | h
          · subst h
            dsimp only
            have := (hall w (by simp)).2
            omega
          · exact hall w' (by simp only [List.mem_cons]; right; exact h)

/-- `quota.Dec` preserves the relation. -/
theorem decLevel_inv {mx : Nat} {l : Lvl} {ws : List Win} (inv : TInv mx l ws) (r : Rid) :
    TInv mx (decLevel l r) ws := by
  unfold decLevel
  have hle := memoTrue_erase_le l.memo r
  constructor
  · intro h
    obtain ⟨h1, h2, h3⟩ := inv.empty h
    exact ⟨h1, h2, by dsimp only; omega⟩
  · intro w rest h
    obtain ⟨h1, h2, h3⟩ := inv.head w rest h
    exact ⟨h1, h2, by dsimp only; omega⟩
  · exact inv.all

theorem TInv.counter_le {mx : Nat} {l : Lvl} {ws : List Win} (inv : TInv mx l ws) : l.counter ≤ mx := by
  cases ws with
  | nil => have := (inv.empty rfl).2.1; omega
  | cons w rest =>
    have := (inv.head w rest rfl).2.1
    have := (inv.all w (by simp)).2
    omega

end LunarVerif.C01
