import LunarVerif.Spec.C01
/-! Helper lemmas for C01: maps, one level (`Lvl`) against its reconstructed windows, schedules. -/
namespace LunarVerif.C01

/-! ### Finite maps -/

theorem KMap.get_set {α : Type} (d : α) (m : KMap α) (k : Key) (v : α) (q : Key) :
    KMap.get d (KMap.set m k v) q = if k = q then v else KMap.get d m q := by
  simp [KMap.set, KMap.get]

theorem St.at_set (st : St) (k : Key) (l : Lvl) (q : Key) :
    St.at (KMap.set st k l) q = if k = q then l else St.at st q := by
  simp [St.at, KMap.get_set]

theorem SSt.at_set (ss : SSt) (k : Key) (ws : List Win) (q : Key) :
    SSt.at (KMap.set ss k ws) q = if k = q then ws else SSt.at ss q := by
  simp [SSt.at, KMap.get_set]

theorem St.at_init (k : Key) : St.at St.init k = Lvl.init := rfl
theorem SSt.at_init (k : Key) : SSt.at SSt.init k = [] := rfl

/-! ### The memo -/

/-- What the pending (`true`) entries of a memo have counted, in total. -/
def memoCost (m : List (Rid × Option Nat)) : Nat := (m.map (fun e => e.2.getD 0)).sum

theorem memoCost_cons (e : Rid × Option Nat) (m : List (Rid × Option Nat)) :
    memoCost (e :: m) = e.2.getD 0 + memoCost m := by
  simp [memoCost]

theorem memoCost_nil : memoCost [] = 0 := rfl

theorem memoCost_erase_le (m : List (Rid × Option Nat)) (r : Rid) :
    memoCost (m.filter (fun e => e.1 != r)) ≤ memoCost m := by
  induction m with
  | nil => simp [memoCost]
  | cons e m ih =>
    by_cases h : (e.1 != r) = true
    · simp only [List.filter_cons, h, if_true, memoCost_cons]; omega
    · simp only [List.filter_cons, h, memoCost_cons]
      simp only [Bool.false_eq_true, if_false] at *
      omega

theorem memoCost_erase_lt (m : List (Rid × Option Nat)) (r : Rid) (c : Nat) (h : m.lookup r = some (some c)) :
    memoCost (m.filter (fun e => e.1 != r)) + c ≤ memoCost m := by
  induction m with
  | nil => simp at h
  | cons e m ih =>
    obtain ⟨a, b⟩ := e
    by_cases hr : r = a
    · subst hr
      simp only [List.lookup_cons_self, Option.some.injEq] at h
      subst h
      have := memoCost_erase_le m r
      simp [List.filter_cons, memoCost_cons]; omega
    · have hne : (r == a) = false := by simpa using hr
      have hne' : (a != r) = true := by simp; exact fun h => hr h.symm
      simp only [List.lookup_cons, hne] at h
      have := ih h
      simp only [List.filter_cons, hne', if_true, memoCost_cons]; omega

theorem pendingAmt_of_lookup (l : Lvl) (r : Rid) (c : Nat) (h : l.memo.lookup r = some (some c)) :
    pendingAmt l r = c := by
  simp [pendingAmt, h]

/-! ### One level against its reconstructed windows -/

/-- Relation between a level and the windows reconstructed from its log (newest first). -/
structure TInv (mx : Nat) (l : Lvl) (ws : List Win) : Prop where
  empty : ws = [] → l.start = none ∧ l.counter = 0 ∧ memoCost l.memo = 0
  head : ∀ w rest, ws = w :: rest →
    l.start = some w.start ∧ l.counter = w.charged ∧ w.admitted + memoCost l.memo ≤ w.charged
  all : ∀ w ∈ ws, w.admitted ≤ w.charged ∧ w.charged ≤ mx

theorem TInv.init (mx : Nat) : TInv mx Lvl.init [] := by
  constructor
  · intro _; simp [Lvl.init, memoCost]
  · intro w rest h; simp at h
  · intro w h; simp at h

/-- The base count `AtomicIncWindow` starts from equals the charged amount of the window that is
    current for the arrival, as reconstructed. -/
theorem base_eq_curCharged {mx : Nat} {l : Lvl} {ws : List Win} (inv : TInv mx l ws) (win t : Nat) :
    (if decide (win ≤ elapsed l t) then 0 else l.counter) = curCharged win t ws := by
  cases ws with
  | nil =>
    obtain ⟨_, hc, _⟩ := inv.empty rfl
    simp [curCharged, hc]
  | cons w rest =>
    obtain ⟨hs, hc, _⟩ := inv.head w rest rfl
    simp [curCharged, outside, elapsed, hs, hc]

theorem incLevel_res {mx : Nat} {l : Lvl} {ws : List Win} (inv : TInv mx l ws) (win r t cost : Nat)
    (hfresh : l.memo.lookup r = none) :
    (incLevel mx win l r t cost).2 =
      if mx < curCharged win t ws + cost then IncRes.blocked else IncRes.increased := by
  have hb := base_eq_curCharged inv win t
  unfold incLevel
  simp only [hfresh]
  rw [hb]
  split <;> rfl

/-- `quota.Inc` preserves the relation; the windows change exactly when the answer is `increased`. -/
theorem incLevel_inv {mx : Nat} {l : Lvl} {ws : List Win} (inv : TInv mx l ws) (win r t cost : Nat) :
    TInv mx (incLevel mx win l r t cost).1
      (if (incLevel mx win l r t cost).2 = IncRes.increased then chargeWin win t cost ws else ws) := by
  unfold incLevel
  cases hl : l.memo.lookup r with
  | some v => simpa using inv
  | none =>
    simp only
    by_cases hblk : mx < (if decide (win ≤ elapsed l t) = true then 0 else l.counter) + cost
    · -- blocked: only the memo changes, and it gains nothing pending
      simp only [hblk, if_true]
      have : (IncRes.blocked = IncRes.increased) = False := by simp
      simp only [this, if_false]
      constructor
      · intro h
        obtain ⟨h1, h2, h3⟩ := inv.empty h
        refine ⟨h1, h2, ?_⟩
        dsimp only
        split
        · simp [memoCost]
        · simp [memoCost_cons, h3]
      · intro w rest h
        obtain ⟨h1, h2, h3⟩ := inv.head w rest h
        refine ⟨h1, h2, ?_⟩
        dsimp only
        split
        · simp only [memoCost_nil]; omega
        · simp [memoCost_cons]; exact h3
      · exact inv.all
    · -- increased
      simp only [hblk, if_false]
      simp only [if_true]
      cases ws with
      | nil =>
        obtain ⟨hs, hc, hm⟩ := inv.empty rfl
        simp only [hc, ite_self, Nat.zero_add] at hblk
        constructor
        · intro h; simp [chargeWin] at h
        · intro w rest h
          simp only [chargeWin, List.cons.injEq] at h
          obtain ⟨hw, _⟩ := h
          subst hw
          dsimp only
          refine ⟨?_, ?_, ?_⟩
          · simp only [hs]; split <;> rfl
          · simp [hc]
          · by_cases hd : win ≤ elapsed l t
            · simp [hd, memoCost_cons, memoCost]
            · simp [hd, memoCost_cons, hm]
        · intro w hw
          simp only [chargeWin, List.mem_singleton] at hw
          subst hw
          dsimp only
          omega
      | cons w rest =>
        obtain ⟨hs, hc, hm⟩ := inv.head w rest rfl
        have hall := inv.all
        have hel : elapsed l t = t - w.start * nsPerSec := by simp [elapsed, hs]
        by_cases hout : win ≤ t - w.start * nsPerSec
        · -- a new window
          have ho : outside win w.start t = true := by simp [outside, hout]
          have hd : decide (win ≤ elapsed l t) = true := by simp [hel, hout]
          simp only [hd, if_true, Nat.zero_add] at hblk ⊢
          simp only [chargeWin, ho, if_true]
          constructor
          · intro h; simp at h
          · intro w' rest' h
            simp only [List.cons.injEq] at h
            obtain ⟨hw, _⟩ := h
            subst hw
            dsimp only
            refine ⟨rfl, rfl, ?_⟩
            simp [memoCost_cons, memoCost]
          · intro w' hw'
            simp only [List.mem_cons] at hw'
            rcases hw' with h | h
            · subst h; dsimp only; omega
            · exact hall w' (by simp only [List.mem_cons]; exact h)
        · -- the current window
          have ho : outside win w.start t = false := by simp [outside, hout]
          have hd : decide (win ≤ elapsed l t) = false := by simp [hel, hout]
          simp only [hd, Bool.false_eq_true, if_false] at hblk ⊢
          simp only [chargeWin, ho, Bool.false_eq_true, if_false]
          constructor
          · intro h; simp at h
          · intro w' rest' h
            simp only [List.cons.injEq] at h
            obtain ⟨hw, _⟩ := h
            subst hw
            dsimp only
            refine ⟨by simp [hs], by omega, ?_⟩
            simp only [memoCost_cons, Option.getD_some]
            omega
          · intro w' hw'
            simp only [List.mem_cons] at hw'
            rcases hw' with h | h
            · subst h
              dsimp only
              have := (hall w (by simp)).1
              omega
            · exact hall w' (by simp only [List.mem_cons]; right; exact h)

/-- `quota.Allowed` preserves the relation; an answer `true` is an admission in the current window of
    what had been counted for the request. -/
theorem allowedLevel_inv {mx : Nat} {l : Lvl} {ws : List Win} (inv : TInv mx l ws) (r : Rid) :
    TInv mx (allowedLevel l r).1
      (if (allowedLevel l r).2 = true then admitWin (pendingAmt l r) ws else ws) := by
  unfold allowedLevel
  cases hl : l.memo.lookup r with
  | none => simpa using inv
  | some v =>
    dsimp only
    cases v with
    | none =>
      simp only [Option.isSome_none, Bool.false_eq_true, if_false]
      have hle := memoCost_erase_le l.memo r
      constructor
      · intro h
        obtain ⟨h1, h2, h3⟩ := inv.empty h
        exact ⟨h1, h2, by dsimp only; omega⟩
      · intro w rest h
        obtain ⟨h1, h2, h3⟩ := inv.head w rest h
        exact ⟨h1, h2, by dsimp only; omega⟩
      · exact inv.all
    | some c =>
      simp only [Option.isSome_some, if_true]
      rw [pendingAmt_of_lookup l r c hl]
      have hlt := memoCost_erase_lt l.memo r c hl
      cases ws with
      | nil =>
        obtain ⟨h1, h2, h3⟩ := inv.empty rfl
        simp only [admitWin]
        constructor
        · intro _; exact ⟨h1, h2, by dsimp only; omega⟩
        · intro w rest h; simp at h
        · intro w h; simp at h
      | cons w rest =>
        obtain ⟨h1, h2, h3⟩ := inv.head w rest rfl
        have hall := inv.all
        simp only [admitWin]
        constructor
        · intro h; simp at h
        · intro w' rest' h
          simp only [List.cons.injEq] at h
          obtain ⟨hw, _⟩ := h
          subst hw
          dsimp only
          exact ⟨h1, h2, by omega⟩
        · intro w' hw'
          simp only [List.mem_cons] at hw'
          rcases hw' with h | h
          · subst h
            dsimp only
            have := (hall w (by simp)).2
            omega
          · exact hall w' (by simp only [List.mem_cons]; right; exact h)

/-- `quota.Dec` preserves the relation. -/
theorem decLevel_inv {mx : Nat} {l : Lvl} {ws : List Win} (inv : TInv mx l ws) (r : Rid) :
    TInv mx (decLevel l r) ws := by
  unfold decLevel
  have hle := memoCost_erase_le l.memo r
  constructor
  · intro h
    obtain ⟨h1, h2, h3⟩ := inv.empty h
    exact ⟨h1, h2, by dsimp only; omega⟩
  · intro w rest h
    obtain ⟨h1, h2, h3⟩ := inv.head w rest h
    exact ⟨h1, h2, by dsimp only; omega⟩
  · exact inv.all

/-- `quota.refund` preserves the relation; a refund that happened takes what had been counted for the
    request off the current window. -/
theorem refundLevel_inv {mx : Nat} {l : Lvl} {ws : List Win} (inv : TInv mx l ws) (r : Rid) :
    TInv mx (refundLevel l r).1
      (if (refundLevel l r).2 = true then refundWin (pendingAmt l r) ws else ws) := by
  unfold refundLevel
  cases hl : l.memo.lookup r with
  | none => simpa using inv
  | some v =>
    cases v with
    | none => simpa using inv
    | some c =>
      simp only [if_true]
      rw [pendingAmt_of_lookup l r c hl]
      have hlt := memoCost_erase_lt l.memo r c hl
      have hm : memoCost ((r, none) :: l.memo.filter (fun e => e.1 != r)) + c ≤ memoCost l.memo := by
        simp only [memoCost_cons]; simpa using hlt
      cases ws with
      | nil =>
        obtain ⟨h1, h2, h3⟩ := inv.empty rfl
        simp only [refundWin]
        constructor
        · intro _; exact ⟨h1, by dsimp only; omega, by dsimp only; omega⟩
        · intro w rest h; simp at h
        · intro w h; simp at h
      | cons w rest =>
        obtain ⟨h1, h2, h3⟩ := inv.head w rest rfl
        have hall := inv.all
        simp only [refundWin]
        constructor
        · intro h; simp at h
        · intro w' rest' h
          simp only [List.cons.injEq] at h
          obtain ⟨hw, _⟩ := h
          subst hw
          dsimp only
          exact ⟨h1, by omega, by omega⟩
        · intro w' hw'
          simp only [List.mem_cons] at hw'
          rcases hw' with h | h
          · subst h
            dsimp only
            have := (hall w (by simp)).2
            omega
          · exact hall w' (by simp only [List.mem_cons]; right; exact h)

theorem TInv.counter_le {mx : Nat} {l : Lvl} {ws : List Win} (inv : TInv mx l ws) : l.counter ≤ mx := by
  cases ws with
  | nil => have := (inv.empty rfl).2.1; omega
  | cons w rest =>
    have := (inv.head w rest rfl).2.1
    have := (inv.all w (by simp)).2
    omega

/-! ### Chains -/

/-- A pair `(id, definition)` that really is a quota of the configuration. -/
def validPair (cfg : Cfg) (p : QId × QuotaCfg) : Prop := cfg.quotas[p.1]? = some p.2

theorem chainFuel_valid (cfg : Cfg) : ∀ (n : Nat) (q : QId) (p : QId × QuotaCfg),
    p ∈ chainFuel cfg n q → validPair cfg p := by
  intro n
  induction n with
  | zero => intro q p h; simp [chainFuel] at h
  | succ n ih =>
    intro q p h
    unfold chainFuel at h
    cases hq : cfg.quotas[q]? with
    | none => simp [hq] at h
    | some c =>
      simp only [hq, List.mem_cons] at h
      rcases h with h | h
      · subst h; exact hq
      · cases hp : c.parent with
        | none => simp [hp] at h
        | some p' => simp only [hp] at h; exact ih p' p h

theorem chain_valid (cfg : Cfg) (q : QId) : ∀ p ∈ chain cfg q, validPair cfg p :=
  fun p h => chainFuel_valid cfg _ q p h

/-! ### Schedules -/

def Pc.todo : Pc → List (QId × QuotaCfg)
  | .inc t c _ => t ++ c
  | .refund t _ => t
  | .allowed t => t
  | .dec t => t
  | .done _ => []

/-- Every level is related to the windows reconstructed from the log. -/
def LevelsOk (cfg : Cfg) (st : St) (log : List LEv) : Prop :=
  ∀ (k : Key) (c : QuotaCfg), cfg.quotas[k.1]? = some c → TInv c.max (st.at k) (tally c.win k log)

theorem tally_cons_other (win : Nat) (k : Key) (e : LEv) (log : List LEv) (h : LEv.at k e = false) :
    tally win k (e :: log) = tally win k log := by
  simp [tally, h]

theorem tally_cons_at (win : Nat) (k : Key) (e : LEv) (log : List LEv) (h : LEv.at k e = true) :
    tally win k (e :: log) = tallyStep win (tally win k log) e := by
  simp [tally, h]

theorem afterInc_valid (cfg : Cfg) (q : QId) (thenA : Bool) :
    ∀ p ∈ (afterInc cfg q thenA).todo, validPair cfg p := by
  intro p hp
  unfold afterInc at hp
  split at hp
  · exact chain_valid cfg q p (by simpa [Pc.todo] using hp)
  · simp [Pc.todo] at hp

theorem stepThread_inv (cfg : Cfg) (st : St) (log : List LEv) (now tid : Nat) (th : Thread)
    (hl : LevelsOk cfg st log) (hv : ∀ p ∈ th.pc.todo, validPair cfg p) :
    LevelsOk cfg (stepThread cfg st now tid th).1 ((stepThread cfg st now tid th).2.2 ++ log) ∧
    (∀ p ∈ (stepThread cfg st now tid th).2.1.todo, validPair cfg p) := by
  unfold stepThread
  cases hpc : th.pc with
  | done v => simpa [Pc.todo] using hl
  | inc todo charged thenA =>
    cases todo with
    | nil => exact ⟨by simpa using hl, fun p hp => afterInc_valid cfg th.q thenA p hp⟩
    | cons ac rest =>
      obtain ⟨a, c⟩ := ac
      rw [hpc] at hv
      have hac : validPair cfg (a, c) := hv (a, c) (by simp [Pc.todo])
      dsimp only
      constructor
      · intro k c' hk
        by_cases hkk : (a, groupOf c th.h) = k
        · subst hkk
          have hcc : c' = c := by
            have : cfg.quotas[a]? = some c := hac
            simp only at hk; rw [this] at hk; exact (Option.some.inj hk).symm
          subst hcc
          rw [St.at_set]
          simp only [if_true, List.singleton_append]
          rw [tally_cons_at _ _ _ _ (by simp [LEv.at])]
          have := incLevel_inv (hl (a, groupOf c' th.h) c' hk) c'.win th.r now (costOf c' th.h)
          cases hres : (incLevel c'.max c'.win (st.at (a, groupOf c' th.h)) th.r now (costOf c' th.h)).2 <;>
            simp only [hres, tallyStep] at this ⊢ <;> simpa using this
        · rw [St.at_set]
          simp only [hkk, if_false, List.singleton_append]
          rw [tally_cons_other _ _ _ _ (by simp [LEv.at]; exact hkk)]
          exact hl k c' hk
      · intro p hp
        have hall : ∀ p ∈ (a, c) :: (rest ++ charged), validPair cfg p := by
          intro p hp; exact hv p (by simpa [Pc.todo] using hp)
        unfold incNext at hp
        split at hp
        · split at hp
          · exact afterInc_valid cfg th.q thenA p hp
          · rename_i x xs
            apply hall
            simp only [Pc.todo, List.mem_append, List.mem_cons] at hp ⊢
            rcases hp with hp | hp | hp
            · right; left; exact hp
            · left; exact hp
            · right; right; exact hp
        · split at hp
          · exact afterInc_valid cfg th.q thenA p hp
          · apply hall
            simp only [Pc.todo] at hp
            simp only [List.mem_cons, List.mem_append]
            right; right; simpa using hp
        · exact afterInc_valid cfg th.q thenA p hp
  | refund todo thenA =>
    cases todo with
    | nil => exact ⟨by simpa using hl, fun p hp => afterInc_valid cfg th.q thenA p hp⟩
    | cons ac rest =>
      obtain ⟨a, c⟩ := ac
      rw [hpc] at hv
      have hac : validPair cfg (a, c) := hv (a, c) (by simp [Pc.todo])
      have hrest : ∀ p ∈ rest, validPair cfg p := fun p hp => hv p (by simp [Pc.todo, hp])
      dsimp only
      constructor
      · intro k c' hk
        by_cases hkk : (a, groupOf c th.h) = k
        · subst hkk
          have hcc : c' = c := by
            have : cfg.quotas[a]? = some c := hac
            simp only at hk; rw [this] at hk; exact (Option.some.inj hk).symm
          subst hcc
          rw [St.at_set]
          simp only [if_true, List.singleton_append]
          rw [tally_cons_at _ _ _ _ (by simp [LEv.at])]
          have := refundLevel_inv (hl (a, groupOf c' th.h) c' hk) th.r
          cases hres : (refundLevel (st.at (a, groupOf c' th.h)) th.r).2 <;>
            simp only [hres, tallyStep] at this ⊢ <;> simpa using this
        · rw [St.at_set]
          simp only [hkk, if_false, List.singleton_append]
          rw [tally_cons_other _ _ _ _ (by simp [LEv.at]; exact hkk)]
          exact hl k c' hk
      · intro p hp
        unfold refundNext at hp
        split at hp
        · exact afterInc_valid cfg th.q thenA p hp
        · exact hrest p (by simpa [Pc.todo] using hp)
  | allowed todo =>
    cases todo with
    | nil => exact ⟨by simpa using hl, by simp [Pc.todo]⟩
    | cons ac rest =>
      obtain ⟨a, c⟩ := ac
      rw [hpc] at hv
      have hac : validPair cfg (a, c) := hv (a, c) (by simp [Pc.todo])
      have hrest : ∀ p ∈ rest, validPair cfg p := fun p hp => hv p (by simp [Pc.todo, hp])
      dsimp only
      have key : ∀ (b : Bool) (pre : List LEv), (∀ e ∈ pre, ∀ k, LEv.at k e = false) →
          (allowedLevel (st.at (a, groupOf c th.h)) th.r).2 = b →
          LevelsOk cfg (KMap.set st (a, groupOf c th.h) (allowedLevel (st.at (a, groupOf c th.h)) th.r).1)
            (pre ++ LEv.allowed (a, groupOf c th.h) th.r b (pendingAmt (st.at (a, groupOf c th.h)) th.r) :: log) := by
        intro b pre hpre hb k c' hk
        have hpre' : tally c'.win k (pre ++ LEv.allowed (a, groupOf c th.h) th.r b (pendingAmt (st.at (a, groupOf c th.h)) th.r) :: log)
            = tally c'.win k (LEv.allowed (a, groupOf c th.h) th.r b (pendingAmt (st.at (a, groupOf c th.h)) th.r) :: log) := by
          induction pre with
          | nil => rfl
          | cons e pre ih =>
            rw [List.cons_append, tally_cons_other _ _ _ _ (hpre e (by simp) k)]
            exact ih (fun e he => hpre e (by simp [he]))
        rw [hpre']
        by_cases hkk : (a, groupOf c th.h) = k
        · subst hkk
          have hcc : c' = c := by
            have : cfg.quotas[a]? = some c := hac
            simp only at hk; rw [this] at hk; exact (Option.some.inj hk).symm
          subst hcc
          rw [St.at_set]
          simp only [if_true]
          rw [tally_cons_at _ _ _ _ (by simp [LEv.at])]
          have := allowedLevel_inv (hl (a, groupOf c' th.h) c' hk) th.r
          rw [hb] at this
          cases b <;> simpa [tallyStep] using this
        · rw [St.at_set]
          simp only [hkk, if_false]
          rw [tally_cons_other _ _ _ _ (by simp [LEv.at]; exact hkk)]
          exact hl k c' hk
      cases hb : (allowedLevel (st.at (a, groupOf c th.h)) th.r).2 with
      | false =>
        simp only [Bool.false_eq_true, if_false]
        refine ⟨?_, by simp [Pc.todo]⟩
        exact key false [LEv.verdict tid th.r th.q false] (by simp [LEv.at]) hb
      | true =>
        simp only [if_true]
        cases rest with
        | nil =>
          refine ⟨?_, by simp [Pc.todo]⟩
          exact key true [LEv.verdict tid th.r th.q true] (by simp [LEv.at]) hb
        | cons x xs =>
          refine ⟨?_, fun p hp => hrest p (by simpa [Pc.todo] using hp)⟩
          exact key true [] (by simp) hb
  | dec todo =>
    cases todo with
    | nil => exact ⟨by simpa using hl, by simp [Pc.todo]⟩
    | cons ac rest =>
      obtain ⟨a, c⟩ := ac
      rw [hpc] at hv
      have hac : validPair cfg (a, c) := hv (a, c) (by simp [Pc.todo])
      have hrest : ∀ p ∈ rest, validPair cfg p := fun p hp => hv p (by simp [Pc.todo, hp])
      dsimp only
      refine ⟨?_, fun p hp => hrest p (by simpa [Pc.todo] using hp)⟩
      intro k c' hk
      by_cases hkk : (a, groupOf c th.h) = k
      · subst hkk
        have hcc : c' = c := by
          have : cfg.quotas[a]? = some c := hac
          simp only at hk; rw [this] at hk; exact (Option.some.inj hk).symm
        subst hcc
        rw [St.at_set]
        simp only [if_true, List.singleton_append]
        rw [tally_cons_at _ _ _ _ (by simp [LEv.at])]
        simpa [tallyStep] using decLevel_inv (hl (a, groupOf c' th.h) c' hk) th.r
      · rw [St.at_set]
        simp only [hkk, if_false, List.singleton_append]
        rw [tally_cons_other _ _ _ _ (by simp [LEv.at]; exact hkk)]
        exact hl k c' hk

/-- Invariant of the interleaving semantics. -/
structure SysInv (cfg : Cfg) (s : Sys) : Prop where
  lvl : LevelsOk cfg s.st s.log
  thr : ∀ th ∈ s.threads, ∀ p ∈ th.pc.todo, validPair cfg p

theorem SysInv.init (cfg : Cfg) (t0 : Nat) : SysInv cfg (Sys.init t0) := by
  constructor
  · intro k c _
    simpa [Sys.init, St.at_init, tally] using TInv.init c.max
  · intro th h; simp [Sys.init] at h

theorem SysInv.act (cfg : Cfg) (s : Sys) (a : Act) (inv : SysInv cfg s) : SysInv cfg (Sys.act cfg s a) := by
  cases a with
  | spawn kind q r h =>
    constructor
    · exact inv.lvl
    · intro th hth p hp
      simp only [Sys.act, List.mem_append, List.mem_singleton] at hth
      rcases hth with hth | hth
      · exact inv.thr th hth p hp
      · subst hth
        apply chain_valid cfg q p
        cases kind <;> simpa [spawnPc, Pc.todo] using hp
  | tick d => exact ⟨inv.lvl, inv.thr⟩
  | step tid =>
    simp only [Sys.act]
    cases hth : s.threads[tid]? with
    | none => exact inv
    | some th =>
      have hmem : th ∈ s.threads := List.mem_of_getElem? hth
      have := stepThread_inv cfg s.st s.log s.now tid th inv.lvl (inv.thr th hmem)
      dsimp only
      constructor
      · exact this.1
      · intro th' hth' p hp
        rcases List.mem_or_eq_of_mem_set hth' with h | h
        · exact inv.thr th' h p hp
        · subst h; exact this.2 p hp

theorem SysInv.run (cfg : Cfg) (acts : List Act) : ∀ (s : Sys), SysInv cfg s → SysInv cfg (Sys.run cfg s acts) := by
  induction acts with
  | nil => intro s h; exact h
  | cons a acts ih => intro s h; exact ih _ (SysInv.act cfg s a h)

end LunarVerif.C01
