import LunarVerif.Proofs.C14Text
import LunarVerif.Proofs.Regex
/-!
Helper lemmas for C14, part A (semantics): the INTENDED regex of a safe pattern matches the whole subject
`method:::url` of every URL the declarative matcher accepts.

  `covers_full` : safe P → urlWF U → matches P U → Matches true (formatAST m P) (subject m (render U)) true
-/
set_option linter.unusedSimpArgs false
namespace LunarVerif.C14
open LunarVerif.UrlTree LunarVerif.UrlMatch LunarVerif.Regex

/-- "The rest of the expression matches the rest of the subject up to its very end, whatever is on the left". -/
def TailM (rs : List Re) (w : List Char) : Prop := ∀ b, Matches b (catList rs) w true

theorem tailM_nil : TailM [] [] := fun _ => .eps _ _

theorem tailM_eol : TailM [.eol] [] := by
  intro b
  have h1 : Matches b .eol [] (true && ([] : List Char).isEmpty) := .eol _
  have h2 : Matches (b && ([] : List Char).isEmpty) (catList []) [] true := .eps _ _
  exact matches_catList_cons h1 h2

theorem tailM_lits (w : List Char) {rest : List Re} {w' : List Char} (h : TailM rest w') :
    TailM (w.map Re.char ++ rest) (w ++ w') :=
  matches_lits w rest w' true h

/-- A context-independent piece in front. -/
theorem tailM_cons {r : Re} {rs : List Re} {w1 w2 : List Char} (h1 : ∀ b e, Matches b r w1 e)
    (h2 : TailM rs w2) : TailM (r :: rs) (w1 ++ w2) := by
  intro b
  exact matches_catList_cons (h1 _ _) (h2 _)

/-- `[^/]+` matches any non-empty slash-free word. -/
theorem matches_paramRe (w : List Char) (hne : w ≠ []) (hs : ∀ c ∈ w, c ≠ '/') :
    ∀ b e, Matches b paramRe w e := by
  have hstar : ∀ (w : List Char), (∀ c ∈ w, c ≠ '/') → ∀ b e, Matches b (.star (.cls true [('/', '/')])) w e := by
    intro w
    induction w with
    | nil => intro _ b e; exact .starNil _ _ _
    | cons c cs ih =>
      intro hs b e
      have hc : clsOK true [('/', '/')] c = true := by
        have : c ≠ '/' := hs c (by simp)
        have h47 : '/'.toNat = 47 := by decide
        have hn : c.toNat ≠ 47 := fun h => this (Char.toNat_inj.mp (by rw [h, h47]))
        simp [clsOK, clsMem, h47]
        omega
      have h1 : Matches b (.cls true [('/', '/')]) [c] (e && cs.isEmpty) := .cls _ _ _ _ _ hc
      exact .starCons _ _ _ [c] cs h1 (ih (fun x hx => hs x (by simp [hx])) _ _)
  intro b e
  cases w with
  | nil => exact absurd rfl hne
  | cons c cs =>
    have hc : clsOK true [('/', '/')] c = true := by
      have : c ≠ '/' := hs c (by simp)
      have h47 : '/'.toNat = 47 := by decide
      have hn : c.toNat ≠ 47 := fun h => this (Char.toNat_inj.mp (by rw [h, h47]))
      simp [clsOK, clsMem, h47]
      omega
    have h1 : Matches b (.cls true [('/', '/')]) [c] (e && cs.isEmpty) := .cls _ _ _ _ _ hc
    have h2 := hstar cs (fun x hx => hs x (by simp [hx])) (b && ([c] : List Char).isEmpty) e
    exact .plus _ _ _ _ (matches_cat (w1 := [c]) h1 h2)

/-- `.*` matches any newline-free word. -/
theorem matches_star_any (w : List Char) (hs : ∀ c ∈ w, c ≠ '\n') : ∀ b e, Matches b (.star .any) w e := by
  induction w with
  | nil => intro b e; exact .starNil _ _ _
  | cons c cs ih =>
    intro b e
    have h1 : Matches b .any [c] (e && cs.isEmpty) := .any _ _ _ (hs c (by simp))
    exact .starCons _ _ _ [c] cs h1 (ih (fun x hx => hs x (by simp [hx])) _ _)

/-- `(/.*)?` matches the empty word and any newline-free word that starts with `/`. -/
theorem matches_wildRe (w : List Char) (h : w = [] ∨ ∃ w', w = '/' :: w' ∧ ∀ c ∈ w', c ≠ '\n') :
    ∀ b e, Matches b wildRe w e := by
  intro b e
  rcases h with h | ⟨w', h, hs⟩
  · subst h; exact .optNil _ _ _
  · subst h
    refine .optSome _ _ _ _ (.group _ _ _ _ ?_)
    have h1 : Matches b (.char '/') ['/'] (e && w'.isEmpty) := .char _ _ _
    have h3 : Matches ((b && (['/'] : List Char).isEmpty) && w'.isEmpty) .eps [] e := .eps _ _
    have h2 : Matches (b && (['/'] : List Char).isEmpty) (.cat (.star .any) .eps) (w' ++ []) e :=
      matches_cat (matches_star_any w' hs _ _) h3
    have := matches_cat (w1 := ['/']) (w2 := w' ++ []) (by simpa using h1) h2
    simpa using this

/-! ### Facts read off the declarative matcher -/

theorem matches_nil_left {us : List Part} (h : matchesG true [] us = true) : us = [] := by
  cases us with
  | nil => rfl
  | cons u us => simp [matchesG] at h

theorem matches_lit_inv {p : Part} {t : String} {ps us : List Part} (hp : p.seg = .lit t)
    (h : matchesG true (p :: ps) us = true) :
    ∃ u us', us = u :: us' ∧ u.host = p.host ∧ u.seg = .lit t ∧ matchesG true ps us' = true := by
  cases us with
  | nil => simp [matchesG, hp] at h
  | cons u us' =>
    simp [matchesG, hp, segAccepts] at h
    exact ⟨u, us', rfl, h.1.1, h.1.2, h.2⟩

theorem matches_par_inv {p : Part} {n : String} {ps us : List Part} (hp : p.seg = .par n)
    (h : matchesG true (p :: ps) us = true) :
    ∃ u us', us = u :: us' ∧ u.host = p.host ∧ matchesG true ps us' = true := by
  cases us with
  | nil => simp [matchesG, hp] at h
  | cons u us' =>
    simp [matchesG, hp, segAccepts] at h
    exact ⟨u, us', rfl, h.1.1, h.2⟩

theorem matches_wild_inv {p : Part} {ps us : List Part} (hp : p.seg = .wild)
    (h : matchesG true (p :: ps) us = true) : ∀ u us', us = u :: us' → u.host = p.host := by
  intro u us' hus
  subst hus
  simp [matchesG, hp] at h
  exact h.2

/-! ### Shape of a rendered path -/

theorem segWF_chars {s : Seg} (h : segWF s = true) :
    segChars s ≠ [] ∧ (∀ c ∈ segChars s, c ≠ '/') ∧ (∀ c ∈ segChars s, c ≠ '\n') := by
  simp [segWF] at h
  refine ⟨h.1, fun c hc => (h.2 c hc).1, fun c hc => (h.2 c hc).2⟩

theorem renderTail_path_noNL : ∀ (us : List Part), pathWF us = true → ∀ c ∈ renderTail us, c ≠ '\n' := by
  intro us
  induction us with
  | nil => intro _ c hc; simp [renderTail] at hc
  | cons u us ih =>
    intro h c hc
    simp [pathWF] at h
    obtain ⟨⟨hh, hw⟩, hr⟩ := h
    have hs := segWF_chars (by simpa using hw)
    simp [renderTail, hh] at hc
    rcases hc with hc | hc | hc
    · subst hc; decide
    · exact hs.2.2 c hc
    · exact ih hr c hc

theorem renderTail_path_shape (us : List Part) (h : pathWF us = true) :
    renderTail us = [] ∨ ∃ w', renderTail us = '/' :: w' ∧ ∀ c ∈ w', c ≠ '\n' := by
  cases us with
  | nil => left; rfl
  | cons u us =>
    right
    have hnl := renderTail_path_noNL (u :: us) h
    simp [pathWF] at h
    refine ⟨segChars u.seg ++ renderTail us, by simp [renderTail, h.1.1], ?_⟩
    intro c hc
    apply hnl
    simp [renderTail] at hc ⊢
    right
    exact hc

/-! ### Which end the expression has -/

/-- The closing pieces: `$` unless the pattern ends with `*`. -/
def fin (d : Bool) (ps : List Part) : List Re := if endsWildT d ps then [] else [.eol]

theorem tailM_fin_nil (d : Bool) : TailM (fin d []) [] := by
  cases d
  · exact tailM_eol
  · exact tailM_nil

/-! ### The path part -/

theorem path_covers : ∀ (ps us : List Part) (d : Bool), pathTailOK ps = true → pathWF us = true →
    matchesG true ps us = true → TailM (tailPieces ps ++ fin d ps) (renderTail us) := by
  intro ps
  induction ps with
  | nil =>
    intro us d _ _ hm
    have := matches_nil_left hm
    subst this
    simpa [tailPieces, renderTail] using tailM_fin_nil d
  | cons p ps ih =>
    intro us d hok hwf hm
    simp only [pathTailOK, Bool.and_eq_true, Bool.not_eq_true'] at hok
    obtain ⟨hph, hseg⟩ := hok
    cases hs : p.seg with
    | lit t =>
      rw [hs] at hseg
      simp only [Bool.and_eq_true] at hseg
      obtain ⟨u, us', hus, hh, hu, hm'⟩ := matches_lit_inv hs hm
      subst hus
      simp only [pathWF, Bool.and_eq_true, Bool.not_eq_true'] at hwf
      have ih' := ih us' false hseg.2 hwf.2 hm'
      have hfin : fin d (p :: ps) = fin false ps := by simp [fin, endsWildT, hs, lit_beq_wild, par_beq_wild]
      have hr : renderTail (u :: us') = ('/' :: t.toList) ++ renderTail us' := by
        simp [renderTail, hwf.1.1, hu, segChars]
      have hp : tailPieces (p :: ps) ++ fin d (p :: ps)
          = ('/' :: t.toList).map Re.char ++ (tailPieces ps ++ fin false ps) := by
        simp [tailPieces, hph, hs, hfin]
      rw [hr, hp]
      exact tailM_lits _ ih'
    | par n =>
      rw [hs] at hseg
      simp only [Bool.and_eq_true] at hseg
      obtain ⟨u, us', hus, hh, hm'⟩ := matches_par_inv hs hm
      subst hus
      simp only [pathWF, Bool.and_eq_true, Bool.not_eq_true'] at hwf
      have ih' := ih us' false hseg.2 hwf.2 hm'
      have hfin : fin d (p :: ps) = fin false ps := by simp [fin, endsWildT, hs, lit_beq_wild, par_beq_wild]
      have hw := segWF_chars hwf.1.2
      have hr : renderTail (u :: us') = ['/'] ++ (segChars u.seg ++ renderTail us') := by
        simp [renderTail, hwf.1.1]
      have hp : tailPieces (p :: ps) ++ fin d (p :: ps)
          = ['/'].map Re.char ++ (paramRe :: (tailPieces ps ++ fin false ps)) := by
        simp [tailPieces, hph, hs, hfin]
      rw [hr, hp]
      exact tailM_lits _ (tailM_cons (matches_paramRe _ hw.1 hw.2.1) ih')
    | wild =>
      rw [hs] at hseg
      have hps : ps = [] := by simpa using hseg
      subst hps
      have hp : tailPieces [p] ++ fin d [p] = [wildRe] := by
        simp [tailPieces, hph, hs, fin, endsWildT]
      rw [hp]
      have := tailM_cons (rs := []) (w2 := []) (matches_wildRe _ (renderTail_path_shape us hwf)) tailM_nil
      simpa using this

/-! ### Host labels, then the path -/

theorem pathWF_of_tail {us : List Part} (h : urlTailWF us = true) (hh : ∀ u us', us = u :: us' → u.host = false) :
    pathWF us = true := by
  cases us with
  | nil => rfl
  | cons u us' =>
    have := hh u us' rfl
    simpa [urlTailWF, this] using h

theorem matches_head_host {p : Part} {ps us : List Part} (h : matchesG true (p :: ps) us = true) :
    ∀ u us', us = u :: us' → u.host = p.host := by
  intro u us' hus
  subst hus
  cases hs : p.seg with
  | wild => exact matches_wild_inv hs h u us' rfl
  | lit t => obtain ⟨_, _, h1, h2, _⟩ := matches_lit_inv hs h; cases h1; exact h2
  | par n => obtain ⟨_, _, h1, h2, _⟩ := matches_par_inv hs h; cases h1; exact h2

theorem tail_covers : ∀ (ps us : List Part), tailOK ps = true → urlTailWF us = true →
    matchesG true ps us = true → TailM (tailPieces ps ++ fin false ps) (renderTail us) := by
  intro ps
  induction ps with
  | nil =>
    intro us _ _ hm
    have := matches_nil_left hm
    subst this
    simpa [tailPieces, renderTail] using tailM_fin_nil false
  | cons p ps ih =>
    intro us hok hwf hm
    by_cases hph : p.host = true
    · simp only [tailOK, hph, if_true, Bool.and_eq_true] at hok
      obtain ⟨hlit, hrest⟩ := hok
      cases hs : p.seg with
      | lit t =>
        obtain ⟨u, us', hus, hh, hu, hm'⟩ := matches_lit_inv hs hm
        subst hus
        rw [hph] at hh
        simp only [urlTailWF, hh, if_true, Bool.and_eq_true] at hwf
        have ih' := ih us' hrest hwf.2 hm'
        have hfin : fin false (p :: ps) = fin false ps := by simp [fin, endsWildT, hs, lit_beq_wild, par_beq_wild]
        have hr : renderTail (u :: us') = ('.' :: t.toList) ++ renderTail us' := by
          simp [renderTail, hh, hu, segChars]
        have hp : tailPieces (p :: ps) ++ fin false (p :: ps)
            = ('.' :: t.toList).map Re.char ++ (tailPieces ps ++ fin false ps) := by
          simp [tailPieces, hph, hs, hfin, segChars]
        rw [hr, hp]
        exact tailM_lits _ ih'
      | par n => simp [hs, hostLitOK] at hlit
      | wild => simp [hs, hostLitOK] at hlit
    · have hpf : p.host = false := by simpa using hph
      simp only [tailOK, hpf] at hok
      have hhead := matches_head_host hm
      have hpw := pathWF_of_tail hwf (fun u us' hus => by rw [hhead u us' hus, hpf])
      exact path_covers (p :: ps) us false (by simpa using hok) hpw hm

/-- Part A: the intended expression of a safe pattern matches the whole subject of every URL that the
    declarative matcher accepts. -/
theorem covers_full (m : List Char) (P U : List Part) (hs : safe P = true) (hu : urlWF U = true)
    (hm : «matches» P U = true) : Matches true (formatAST m P) (subject m (render U)) true := by
  cases P with
  | nil => simp [safe] at hs
  | cons p ps =>
    simp only [safe, Bool.and_eq_true] at hs
    obtain ⟨⟨hph, hlit⟩, hrest⟩ := hs
    cases hseg : p.seg with
    | par n => simp [hseg, hostLitOK] at hlit
    | wild => simp [hseg, hostLitOK] at hlit
    | lit t =>
      obtain ⟨u, us', hus, hh, huseg, hm'⟩ := matches_lit_inv hseg hm
      subst hus
      simp only [urlWF, Bool.and_eq_true] at hu
      have htail := tail_covers ps us' hrest hu.2 hm'
      have hfin : (if endsWild (p :: ps) then [] else [Re.eol]) = fin false ps := by
        simp [fin, endsWild_cons, hseg, lit_beq_wild]
      have hA : formatAST m (p :: ps)
          = catList ((m ++ delimiter ++ t.toList).map Re.char ++ (tailPieces ps ++ fin false ps)) := by
        simp [formatAST, hseg, segChars, hfin, List.append_assoc]
      have hS : subject m (render (u :: us')) = (m ++ delimiter ++ t.toList) ++ renderTail us' := by
        simp [subject, render, huseg, segChars, List.append_assoc]
      rw [hA, hS]
      exact tailM_lits _ htail true

end LunarVerif.C14
