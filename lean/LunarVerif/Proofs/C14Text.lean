import LunarVerif.Spec.C14
/-!
Helper lemmas for C14, part B1 (text): what `formatURL` (the transcription of `HaproxyEndpointFormat`'s string
operations) produces on the rendering of a SAFE pattern:

  `formatURL_safe` : safe (p :: ps), p = host literal t  ⇒
       formatURL (render (p :: ps)) = (t ++ fmtTail ps, endsWild (p :: ps))
-/
set_option linter.unusedSimpArgs false
namespace LunarVerif.C14
open LunarVerif.UrlTree LunarVerif.Regex

/-- `endsWild` continued over a tail: `d` = the previous part was `*`. -/
def endsWildT (d : Bool) : List Part → Bool
  | [] => d
  | p :: ps => endsWildT (p.seg == .wild) ps

theorem endsWild_cons (p : Part) (ps : List Part) : endsWild (p :: ps) = endsWildT (p.seg == .wild) ps := by
  induction ps generalizing p with
  | nil => rfl
  | cons q qs ih => simp [endsWild, endsWildT, ih]

theorem lit_beq_wild (t : String) : (Seg.lit t == Seg.wild) = false := beq_eq_false_iff_ne.mpr (by simp)
theorem par_beq_wild (n : String) : (Seg.par n == Seg.wild) = false := beq_eq_false_iff_ne.mpr (by simp)

/-- Text of a safe tail after the dot replacement, with `wt` in place of a final `/*`. -/
def midTail (wt : List Char) : List Part → List Char
  | [] => []
  | p :: ps =>
    (match p.host, p.seg with
      | true, s => '\\' :: '.' :: segChars s
      | false, .lit t => '/' :: replaceDots t.toList
      | false, .par n => '/' :: '{' :: (n.toList ++ ['}'])
      | false, .wild => wt) ++ midTail wt ps

/-- Expected output text of a safe tail. -/
def fmtTail : List Part → List Char
  | [] => []
  | p :: ps =>
    (match p.host, p.seg with
      | true, s => '\\' :: '.' :: segChars s
      | false, .lit t => '/' :: replaceDots t.toList
      | false, .par _ => paramRegex
      | false, .wild => wildcardRegex) ++ fmtTail ps

/-! ### characters -/

theorem ne_nil_of_isEmpty {α : Type} {l : List α} (h : l.isEmpty = false) : l ≠ [] := by
  intro hl; subst hl; simp at h

theorem plain_ne {c : Char} (h : plainChar c = true) :
    c ≠ '.' ∧ c ≠ '/' ∧ c ≠ '*' ∧ c ≠ '{' ∧ c ≠ '\\' := by
  simp [plainChar, metaChars] at h
  obtain ⟨⟨h1, h2⟩, _⟩ := h
  refine ⟨?_, ?_, ?_, ?_, ?_⟩ <;> (intro hc; subst hc; simp_all)

theorem nameChar_ne {c : Char} (h : isNameChar c = true) : c ≠ '.' ∧ c ≠ '/' ∧ c ≠ '*' ∧ c ≠ '}' := by
  refine ⟨?_, ?_, ?_, ?_⟩ <;> (intro hc; subst hc; revert h; decide)

/-! ### pass 1: dots -/

theorem replaceDots_append (a b : List Char) : replaceDots (a ++ b) = replaceDots a ++ replaceDots b := by
  induction a with
  | nil => rfl
  | cons c cs ih =>
    by_cases hc : c = '.'
    · simp [replaceDots, hc, ih]
    · simp [replaceDots, hc, ih]

theorem replaceDots_id (w : List Char) (h : ∀ c ∈ w, c ≠ '.') : replaceDots w = w := by
  induction w with
  | nil => rfl
  | cons c cs ih =>
    have hc : c ≠ '.' := h c (by simp)
    simp [replaceDots, hc, ih (fun x hx => h x (by simp [hx]))]

theorem hostLit_chars {s : Seg} (h : hostLitOK s = true) :
    ∃ t, s = .lit t ∧ t.toList ≠ [] ∧ ∀ c ∈ t.toList, plainChar c = true := by
  cases s with
  | lit t =>
    simp only [hostLitOK, Bool.and_eq_true, Bool.not_eq_true', List.all_eq_true] at h
    exact ⟨t, rfl, ne_nil_of_isEmpty h.1, h.2⟩
  | par n => simp [hostLitOK] at h
  | wild => simp [hostLitOK] at h

theorem replaceDots_pathTail : ∀ (ps : List Part), pathTailOK ps = true →
    replaceDots (renderTail ps) = midTail ['/', '*'] ps := by
  intro ps
  induction ps with
  | nil => intro _; rfl
  | cons p ps ih =>
    intro h
    simp only [pathTailOK, Bool.and_eq_true, Bool.not_eq_true'] at h
    obtain ⟨hph, hseg⟩ := h
    cases hs : p.seg with
    | lit t =>
      rw [hs] at hseg
      simp only [Bool.and_eq_true] at hseg
      simp [renderTail, midTail, hph, hs, segChars, replaceDots, replaceDots_append, ih hseg.2]
    | par n =>
      rw [hs] at hseg
      simp only [Bool.and_eq_true] at hseg
      have hn : ∀ c ∈ n.toList, c ≠ '.' := by
        intro c hc
        have := hseg.1
        simp [nameOK] at this
        exact (nameChar_ne (this.2 c hc)).1
      simp [renderTail, midTail, hph, hs, segChars, replaceDots, replaceDots_append, ih hseg.2,
        replaceDots_id _ hn]
    | wild =>
      rw [hs] at hseg
      have : ps = [] := by simpa using hseg
      subst this
      simp [renderTail, midTail, hph, hs, segChars, replaceDots]

theorem replaceDots_tail : ∀ (ps : List Part), tailOK ps = true →
    replaceDots (renderTail ps) = midTail ['/', '*'] ps := by
  intro ps
  induction ps with
  | nil => intro _; rfl
  | cons p ps ih =>
    intro h
    by_cases hph : p.host = true
    · simp only [tailOK, hph, if_true, Bool.and_eq_true] at h
      obtain ⟨t, hs, _, hpl⟩ := hostLit_chars h.1
      have hn : ∀ c ∈ t.toList, c ≠ '.' := fun c hc => (plain_ne (hpl c hc)).1
      simp [renderTail, midTail, hph, hs, segChars, replaceDots, replaceDots_append, ih h.2,
        replaceDots_id _ hn]
    · have hpf : p.host = false := by simpa using hph
      simp only [tailOK, hpf] at h
      exact replaceDots_pathTail (p :: ps) (by simpa using h)

/-! ### pass 2: the `/*` suffix -/

theorem stripWild_none (s : List Char) (h : ∀ c ∈ s, c ≠ '*') : stripWildSuffix s = none := by
  induction s with
  | nil => rfl
  | cons c cs ih =>
    have hcs : cs ≠ ['*'] := by
      intro hc
      exact h '*' (by simp [hc]) rfl
    simp [stripWildSuffix, hcs, ih (fun x hx => h x (by simp [hx]))]

theorem stripWild_some (pre : List Char) : stripWildSuffix (pre ++ ['/', '*']) = some pre := by
  induction pre with
  | nil => simp [stripWildSuffix]
  | cons c cs ih =>
    have : cs ++ ['/', '*'] ≠ ['*'] := by
      intro h
      have := congrArg List.length h
      simp at this
    simp [stripWildSuffix, this, ih]

theorem replaceDots_noStar (t : List Char) (h : ∀ c ∈ t, plainChar c = true ∨ c = '.') :
    ∀ c ∈ replaceDots t, c ≠ '*' ∧ c ≠ '/' ∧ c ≠ '{' := by
  induction t with
  | nil => intro c hc; simp [replaceDots] at hc
  | cons a as ih =>
    intro c hc
    have ih' := ih (fun x hx => h x (by simp [hx]))
    by_cases ha : a = '.'
    · simp [replaceDots, ha] at hc
      rcases hc with hc | hc | hc
      · subst hc; decide
      · subst hc; decide
      · exact ih' c hc
    · simp [replaceDots, ha] at hc
      rcases hc with hc | hc
      · subst hc
        rcases h c (by simp) with hp | hp
        · have := plain_ne hp
          exact ⟨this.2.2.1, this.2.1, this.2.2.2.1⟩
        · exact absurd hp ha
      · exact ih' c hc

theorem pathLit_chars {t : String} (h : pathLitOK t = true) :
    t.toList ≠ [] ∧ ∀ c ∈ t.toList, plainChar c = true ∨ c = '.' := by
  simp only [pathLitOK, Bool.and_eq_true, Bool.not_eq_true', List.all_eq_true, Bool.or_eq_true,
    beq_iff_eq] at h
  exact ⟨ne_nil_of_isEmpty h.1, h.2⟩

theorem name_chars {n : String} (h : nameOK n = true) : n.toList ≠ [] ∧ ∀ c ∈ n.toList, isNameChar c = true := by
  simp only [nameOK, Bool.and_eq_true, Bool.not_eq_true', List.all_eq_true] at h
  exact ⟨ne_nil_of_isEmpty h.1, h.2⟩

/-- The wildcard text only sits at the very end (and only when the tail ends with `*`). -/
theorem midTail_path : ∀ (ps : List Part) (d : Bool) (wt : List Char), pathTailOK ps = true →
    (endsWildT d ps = true → ps ≠ [] → midTail wt ps = midTail [] ps ++ wt) ∧
    (endsWildT d ps = false → midTail wt ps = midTail [] ps) ∧
    (∀ c ∈ midTail [] ps, c ≠ '*') := by
  intro ps
  induction ps with
  | nil => intro d wt _; simp [midTail]
  | cons p ps ih =>
    intro d wt h
    simp only [pathTailOK, Bool.and_eq_true, Bool.not_eq_true'] at h
    obtain ⟨hph, hseg⟩ := h
    cases hs : p.seg with
    | lit t =>
      rw [hs] at hseg
      simp only [Bool.and_eq_true] at hseg
      obtain ⟨i1, i2, i3⟩ := ih false wt hseg.2
      have hns := replaceDots_noStar _ (pathLit_chars hseg.1).2
      refine ⟨?_, ?_, ?_⟩
      · intro he _
        simp only [endsWildT, hs, lit_beq_wild] at he
        have hne : ps ≠ [] := by
          intro hp; subst hp; simp [endsWildT] at he
        simp [midTail, hph, hs, i1 he hne]
      · intro he
        simp only [endsWildT, hs, lit_beq_wild] at he
        simp [midTail, hph, hs, i2 he]
      · intro c hc
        simp [midTail, hph, hs] at hc
        rcases hc with hc | hc | hc
        · subst hc; decide
        · exact (hns c hc).1
        · exact i3 c hc
    | par n =>
      rw [hs] at hseg
      simp only [Bool.and_eq_true] at hseg
      obtain ⟨i1, i2, i3⟩ := ih false wt hseg.2
      have hn := (name_chars hseg.1).2
      refine ⟨?_, ?_, ?_⟩
      · intro he _
        simp only [endsWildT, hs, par_beq_wild] at he
        have hne : ps ≠ [] := by
          intro hp; subst hp; simp [endsWildT] at he
        simp [midTail, hph, hs, i1 he hne]
      · intro he
        simp only [endsWildT, hs, par_beq_wild] at he
        simp [midTail, hph, hs, i2 he]
      · intro c hc
        simp [midTail, hph, hs] at hc
        rcases hc with hc | hc | hc | hc | hc
        · subst hc; decide
        · subst hc; decide
        · exact (nameChar_ne (hn c hc)).2.2.1
        · subst hc; decide
        · exact i3 c hc
    | wild =>
      rw [hs] at hseg
      have : ps = [] := by simpa using hseg
      subst this
      refine ⟨?_, ?_, ?_⟩
      · intro _ _; simp [midTail, hph, hs]
      · intro he; simp [endsWildT, hs] at he
      · intro c hc; simp [midTail, hph, hs] at hc

theorem midTail_tail : ∀ (ps : List Part) (wt : List Char), tailOK ps = true →
    (endsWildT false ps = true → midTail wt ps = midTail [] ps ++ wt) ∧
    (endsWildT false ps = false → midTail wt ps = midTail [] ps) ∧
    (∀ c ∈ midTail [] ps, c ≠ '*') := by
  intro ps
  induction ps with
  | nil => intro wt _; simp [midTail, endsWildT]
  | cons p ps ih =>
    intro wt h
    by_cases hph : p.host = true
    · simp only [tailOK, hph, if_true, Bool.and_eq_true] at h
      obtain ⟨t, hs, _, hpl⟩ := hostLit_chars h.1
      obtain ⟨i1, i2, i3⟩ := ih wt h.2
      refine ⟨?_, ?_, ?_⟩
      · intro he
        simp only [endsWildT, hs, lit_beq_wild] at he
        simp [midTail, hph, hs, i1 he]
      · intro he
        simp only [endsWildT, hs, lit_beq_wild] at he
        simp [midTail, hph, hs, i2 he]
      · intro c hc
        simp [midTail, hph, hs, segChars] at hc
        rcases hc with hc | hc | hc | hc
        · subst hc; decide
        · subst hc; decide
        · exact (plain_ne (hpl c hc)).2.2.1
        · exact i3 c hc
    · have hpf : p.host = false := by simpa using hph
      simp only [tailOK, hpf] at h
      have hp : pathTailOK (p :: ps) = true := by simpa using h
      obtain ⟨i1, i2, i3⟩ := midTail_path (p :: ps) false wt hp
      exact ⟨fun he => i1 he (by simp), i2, i3⟩

/-! ### pass 3: path parameters -/

theorem rp_noslash (w rest : List Char) (h : ∀ c ∈ w, c ≠ '/') :
    replaceParamsGo .normal (w ++ rest) = w ++ replaceParamsGo .normal rest := by
  induction w with
  | nil => rfl
  | cons c cs ih =>
    have hc : c ≠ '/' := h c (by simp)
    simp [replaceParamsGo, hc, ih (fun x hx => h x (by simp [hx]))]

theorem rp_slash_word (w rest : List Char) (hne : w ≠ []) (h : ∀ c ∈ w, c ≠ '/' ∧ c ≠ '{') :
    replaceParamsGo .normal ('/' :: (w ++ rest)) = '/' :: (w ++ replaceParamsGo .normal rest) := by
  cases w with
  | nil => exact absurd rfl hne
  | cons c cs =>
    have hc := h c (by simp)
    have := rp_noslash cs rest (fun x hx => (h x (by simp [hx])).1)
    simp [replaceParamsGo, hc.1, hc.2, this]

theorem rp_name (n rest : List Char) (hn : ∀ c ∈ n, isNameChar c = true) :
    ∀ rev, (rev ≠ [] ∨ n ≠ []) →
      replaceParamsGo (.name rev) (n ++ '}' :: rest) = paramRegex ++ replaceParamsGo .normal rest := by
  induction n with
  | nil =>
    intro rev h
    have hr : rev ≠ [] := by simpa using h
    have : isNameChar '}' = false := by decide
    simp [replaceParamsGo, this, hr]
  | cons c cs ih =>
    intro rev _
    have hc := hn c (by simp)
    simp [replaceParamsGo, hc, ih (fun x hx => hn x (by simp [hx])) (c :: rev) (by simp)]

theorem rp_param (n rest : List Char) (hne : n ≠ []) (hn : ∀ c ∈ n, isNameChar c = true) :
    replaceParamsGo .normal ('/' :: '{' :: (n ++ '}' :: rest)) = paramRegex ++ replaceParamsGo .normal rest := by
  simp [replaceParamsGo, rp_name n rest hn [] (Or.inr hne)]

theorem rp_wildcard (rest : List Char) :
    replaceParamsGo .normal (wildcardRegex ++ rest) = wildcardRegex ++ replaceParamsGo .normal rest := by
  simp [wildcardRegex, replaceParamsGo]

theorem rp_pathTail : ∀ (ps : List Part) (rest : List Char), pathTailOK ps = true →
    replaceParamsGo .normal (midTail wildcardRegex ps ++ rest) = fmtTail ps ++ replaceParamsGo .normal rest := by
  intro ps
  induction ps with
  | nil => intro rest _; rfl
  | cons p ps ih =>
    intro rest h
    simp only [pathTailOK, Bool.and_eq_true, Bool.not_eq_true'] at h
    obtain ⟨hph, hseg⟩ := h
    cases hs : p.seg with
    | lit t =>
      rw [hs] at hseg
      simp only [Bool.and_eq_true] at hseg
      obtain ⟨hne, hch⟩ := pathLit_chars hseg.1
      have hns := replaceDots_noStar _ hch
      have hne' : replaceDots t.toList ≠ [] := by
        cases ht : t.toList with
        | nil => exact absurd ht hne
        | cons a as => by_cases ha : a = '.' <;> simp [replaceDots, ha]
      have := rp_slash_word (replaceDots t.toList) (midTail wildcardRegex ps ++ rest) hne'
        (fun c hc => ⟨(hns c hc).2.1, (hns c hc).2.2⟩)
      simp [midTail, fmtTail, hph, hs, List.append_assoc, this, ih rest hseg.2]
    | par n =>
      rw [hs] at hseg
      simp only [Bool.and_eq_true] at hseg
      obtain ⟨hne, hn⟩ := name_chars hseg.1
      have := rp_param n.toList (midTail wildcardRegex ps ++ rest) hne hn
      simp [midTail, fmtTail, hph, hs, List.append_assoc, this, ih rest hseg.2]
    | wild =>
      rw [hs] at hseg
      have : ps = [] := by simpa using hseg
      subst this
      simp [midTail, fmtTail, hph, hs, rp_wildcard]

theorem rp_tail : ∀ (ps : List Part) (rest : List Char), tailOK ps = true →
    replaceParamsGo .normal (midTail wildcardRegex ps ++ rest) = fmtTail ps ++ replaceParamsGo .normal rest := by
  intro ps
  induction ps with
  | nil => intro rest _; rfl
  | cons p ps ih =>
    intro rest h
    by_cases hph : p.host = true
    · simp only [tailOK, hph, if_true, Bool.and_eq_true] at h
      obtain ⟨t, hs, _, hpl⟩ := hostLit_chars h.1
      have hw : ∀ c ∈ ('\\' :: '.' :: t.toList), c ≠ '/' := by
        intro c hc
        simp at hc
        rcases hc with hc | hc | hc
        · subst hc; decide
        · subst hc; decide
        · exact (plain_ne (hpl c hc)).2.1
      have := rp_noslash ('\\' :: '.' :: t.toList) (midTail wildcardRegex ps ++ rest) hw
      simp only [List.cons_append] at this
      simp [midTail, fmtTail, hph, hs, segChars, List.append_assoc, this, ih rest h.2]
    · have hpf : p.host = false := by simpa using hph
      simp only [tailOK, hpf] at h
      exact rp_pathTail (p :: ps) rest (by simpa using h)

/-! ### the three passes together -/

theorem formatURL_safe (p : Part) (ps : List Part) (t : String) (hp : p.seg = .lit t)
    (hpl : ∀ c ∈ t.toList, plainChar c = true) (hok : tailOK ps = true) :
    formatURL (render (p :: ps)) = (t.toList ++ fmtTail ps, endsWild (p :: ps)) := by
  have hdots : replaceDots (render (p :: ps)) = t.toList ++ midTail ['/', '*'] ps := by
    have hn : ∀ c ∈ t.toList, c ≠ '.' := fun c hc => (plain_ne (hpl c hc)).1
    simp [render, hp, segChars, replaceDots_append, replaceDots_id _ hn, replaceDots_tail ps hok]
  have hfin : replaceParams (t.toList ++ midTail wildcardRegex ps) = t.toList ++ fmtTail ps := by
    have h1 := rp_noslash t.toList (midTail wildcardRegex ps) (fun c hc => (plain_ne (hpl c hc)).2.1)
    have h2 := rp_tail ps [] hok
    simp only [List.append_nil] at h2
    simp [replaceParams, h1, h2, replaceParamsGo]
  have hew : endsWild (p :: ps) = endsWildT false ps := by simp [endsWild_cons, hp, lit_beq_wild]
  obtain ⟨m1, m2, m3⟩ := midTail_tail ps ['/', '*'] hok
  obtain ⟨w1, w2, _⟩ := midTail_tail ps wildcardRegex hok
  unfold formatURL
  rw [hdots, hew]
  by_cases he : endsWildT false ps = true
  · have hs : stripWildSuffix (t.toList ++ midTail ['/', '*'] ps) = some (t.toList ++ midTail [] ps) := by
      rw [m1 he, ← List.append_assoc]
      exact stripWild_some _
    simp only [hs, he]
    rw [List.append_assoc, ← w1 he, hfin]
  · have he' : endsWildT false ps = false := by simpa using he
    have hs : stripWildSuffix (t.toList ++ midTail ['/', '*'] ps) = none := by
      rw [m2 he']
      apply stripWild_none
      intro c hc
      simp at hc
      rcases hc with hc | hc
      · exact (plain_ne (hpl c hc)).2.2.1
      · exact m3 c hc
    simp only [hs, he']
    rw [m2 he', ← w2 he', hfin]

end LunarVerif.C14
