import LunarVerif.Spec.C14Reload
/-!
Helper lemmas for the lifetime dimension of C14: with entries compared by text AND stamped registrations
(`Mode.stamped` = the code after F14g.patch + F14h.patch) every reachable state manages what the configuration in
force requires; with entries compared by text only (`Mode.byString`, F14g.patch alone) the same holds for
histories in which a reload only happens once the previous one has settled.
-/
set_option linter.unusedSimpArgs false
namespace LunarVerif.C14.Reload

theorem stampOf_set (es : List String) (s : Nat) (old : List (String × Nat)) (e : String) :
    stampOf (es.map (·, s) ++ old) e = if e ∈ es then s else stampOf old e := by
  induction es with
  | nil => simp
  | cons x xs ih =>
    simp only [List.map_cons, List.cons_append, stampOf, List.mem_cons]
    by_cases hx : x = e
    · simp [hx]
    · have hx' : ¬ e = x := fun h => hx h.symm
      simp [hx, hx', ih]

/-- Invariant of the stamped mode. -/
structure Inv (st : St) : Prop where
  eps : st.cur.ma = false → ∀ e ∈ st.cur.eps, e ∈ st.managed ∧
    ∀ j ∈ st.jobs, j.global = false → e ∈ j.eps → j.serial < stampOf st.stamps e
  all : st.cur.ma = true → st.all = true ∧ ∀ j ∈ st.jobs, j.global = true → j.serial < st.allStamp
  ser : ∀ j ∈ st.jobs, j.serial ≤ st.serial

theorem inv_init : Inv {} := ⟨by intro _ e he; simp at he, by intro h; simp at h, by intro j hj; simp at hj⟩

theorem inv_reload (st : St) (new : Req) (h : Inv st) : Inv (reload .stamped st new) := by
  unfold reload
  by_cases hma : new.ma = true
  · simp only [hma, if_true]
    refine ⟨by intro hc; simp [hma] at hc, ?_, ?_⟩
    · intro _
      refine ⟨rfl, ?_⟩
      intro j hj hg
      simp only [Bool.not_true, Bool.and_false, Bool.false_eq_true, if_false, List.append_nil,
        List.mem_append] at hj
      rcases hj with hj | hj
      · exact Nat.lt_succ_of_le (h.ser j hj)
      · split at hj
        · simp at hj
        · simp only [List.mem_singleton] at hj
          subst hj
          simp at hg
    · intro j hj
      simp only [Bool.not_true, Bool.and_false, Bool.false_eq_true, if_false, List.append_nil,
        List.mem_append] at hj
      rcases hj with hj | hj
      · exact Nat.le_succ_of_le (h.ser j hj)
      · split at hj
        · simp at hj
        · simp only [List.mem_singleton] at hj
          subst hj
          exact Nat.le_refl _
  · have hma' : new.ma = false := by simpa using hma
    simp only [hma', Bool.false_eq_true, if_false]
    refine ⟨?_, by intro hc; simp [hma'] at hc, ?_⟩
    · intro _ e he
      refine ⟨by simp [he], ?_⟩
      intro j hj hg hej
      rw [stampOf_set, if_pos he]
      simp only [List.mem_append] at hj
      rcases hj with (hj | hj) | hj
      · exact Nat.lt_succ_of_le (h.ser j hj)
      · split at hj
        · simp only [List.mem_singleton] at hj
          subst hj
          simp at hg
        · simp at hj
      · split at hj
        · simp at hj
        · simp only [List.mem_singleton] at hj
          subst hj
          simp only [List.mem_filter, Bool.not_eq_true', List.contains_eq_mem, decide_eq_false_iff_not] at hej
          exact absurd he hej.2
    · intro j hj
      simp only [List.mem_append] at hj
      rcases hj with (hj | hj) | hj
      · exact Nat.le_succ_of_le (h.ser j hj)
      · split at hj
        · simp only [List.mem_singleton] at hj; subst hj; exact Nat.le_refl _
        · simp at hj
      · split at hj
        · simp at hj
        · simp only [List.mem_singleton] at hj; subst hj; exact Nat.le_refl _

theorem inv_fire (st : St) (j : Job) (hj : j ∈ st.jobs) (h : Inv st) :
    Inv (fire .stamped st j) ∧ (fire .stamped st j).jobs = st.jobs := by
  unfold fire
  by_cases hg : j.global = true
  · simp only [hg, if_true]
    by_cases hcma : st.cur.ma = true
    · have := (h.all hcma).2 j hj hg
      simp [this]
      exact h
    · have hc : st.cur.ma = false := by simpa using hcma
      split
      · exact ⟨h, by first | rfl | trivial⟩
      · exact ⟨⟨h.eps, by intro hx; simp [hc] at hx, h.ser⟩, by first | rfl | trivial⟩
  · have hg' : j.global = false := by simpa using hg
    simp only [hg', Bool.false_eq_true, if_false]
    refine ⟨⟨?_, h.all, h.ser⟩, trivial⟩
    intro hc e he
    obtain ⟨hm, hjobs⟩ := h.eps hc e he
    refine ⟨?_, hjobs⟩
    simp only [List.mem_filter, hm, true_and, Bool.not_eq_true', Bool.and_eq_false_iff, Bool.or_eq_true,
      bne_iff_ne, ne_eq, not_true_eq_false, false_or, decide_eq_true_eq, List.contains_eq_mem,
      decide_eq_false_iff_not]
    by_cases hej : e ∈ j.eps
    · right
      have := hjobs j hj hg' hej
      simp
      omega
    · left; exact hej

theorem inv_fireAll (due : List Job) : ∀ (st : St), (∀ j ∈ due, j ∈ st.jobs) → Inv st →
    Inv (due.foldl (fire .stamped) st) ∧ (due.foldl (fire .stamped) st).jobs = st.jobs ∧
    (due.foldl (fire .stamped) st).cur = st.cur := by
  induction due with
  | nil => intro st _ h; exact ⟨h, rfl, rfl⟩
  | cons j js ih =>
    intro st hsub h
    obtain ⟨h1, h2⟩ := inv_fire st j (hsub j (by simp)) h
    have hcur : (fire .stamped st j).cur = st.cur := by
      unfold fire; split <;> (try split) <;> rfl
    obtain ⟨i1, i2, i3⟩ := ih (fire .stamped st j) (fun x hx => by rw [h2]; exact hsub x (by simp [hx])) h1
    simp only [List.foldl_cons]
    exact ⟨i1, i2.trans h2, i3.trans hcur⟩

theorem inv_advance (st : St) (d : Nat) (h : Inv st) : Inv (advance .stamped st d) := by
  unfold advance
  obtain ⟨i1, i2, _⟩ := inv_fireAll (st.jobs.filter fun j => decide (j.due ≤ st.now + d)) st
    (fun j hj => (List.mem_filter.mp hj).1) h
  refine ⟨?_, ?_, ?_⟩
  · intro hc e he
    obtain ⟨hm, hj⟩ := i1.eps hc e he
    refine ⟨hm, ?_⟩
    intro j hjm
    exact hj j (by rw [i2]; exact (List.mem_filter.mp hjm).1)
  · intro hc
    obtain ⟨ha, hj⟩ := i1.all hc
    refine ⟨ha, ?_⟩
    intro j hjm
    exact hj j (by rw [i2]; exact (List.mem_filter.mp hjm).1)
  · intro j hjm
    exact i1.ser j (by rw [i2]; exact (List.mem_filter.mp hjm).1)

theorem inv_run (evs : List Ev) : ∀ (st : St), Inv st → Inv (run .stamped st evs) := by
  induction evs with
  | nil => intro st h; exact h
  | cons ev evs ih =>
    intro st h
    apply ih
    cases ev with
    | reload r => exact inv_reload st r h
    | advance d => exact inv_advance st d h

theorem requiredOK_of_inv (st : St) (h : Inv st) : requiredOK st.cur st.all st.managed = true := by
  unfold requiredOK
  by_cases hc : st.cur.ma = true
  · simp [hc, (h.all hc).1]
  · have hc' : st.cur.ma = false := by simpa using hc
    simp only [hc', Bool.false_eq_true, if_false, List.all_eq_true, List.contains_eq_mem, decide_eq_true_eq]
    intro e he
    exact (h.eps hc' e he).1

/-! ### entries compared by text only (F14g.patch alone): reloads that wait for the previous one to settle -/

/-- Every reload of the history happens when no un-manage job is pending. -/
def Spaced (st : St) : List Ev → Prop
  | [] => True
  | .reload r :: evs => st.jobs = [] ∧ Spaced (reload .byString st r) evs
  | .advance d :: evs => Spaced (advance .byString st d) evs

structure InvS (st : St) : Prop where
  eps : st.cur.ma = false → ∀ e ∈ st.cur.eps, e ∈ st.managed ∧ ∀ j ∈ st.jobs, j.global = false → e ∉ j.eps
  all : st.cur.ma = true → st.all = true ∧ ∀ j ∈ st.jobs, j.global = false

theorem invS_init : InvS {} := ⟨by intro _ e he; simp at he, by intro h; simp at h⟩

theorem invS_reload (st : St) (new : Req) (hj : st.jobs = []) : InvS (reload .byString st new) := by
  unfold reload
  by_cases hma : new.ma = true
  · simp only [hma, if_true, hj]
    refine ⟨by intro hc; simp [hma] at hc, ?_⟩
    intro _
    refine ⟨rfl, ?_⟩
    intro j hjm
    simp only [Bool.not_true, Bool.and_false, Bool.false_eq_true, if_false, List.append_nil, List.nil_append] at hjm
    split at hjm
    · simp at hjm
    · simp only [List.mem_singleton] at hjm; subst hjm; rfl
  · have hma' : new.ma = false := by simpa using hma
    simp only [hma', Bool.false_eq_true, if_false, hj]
    refine ⟨?_, by intro hc; simp [hma'] at hc⟩
    intro _ e he
    refine ⟨by simp [he], ?_⟩
    intro j hjm hg
    simp only [List.nil_append, List.mem_append] at hjm
    rcases hjm with hjm | hjm
    · split at hjm
      · simp only [List.mem_singleton] at hjm; subst hjm; simp at hg
      · simp at hjm
    · split at hjm
      · simp at hjm
      · simp only [List.mem_singleton] at hjm
        subst hjm
        simp only [List.mem_filter, Bool.not_eq_true', List.contains_eq_mem, decide_eq_false_iff_not, not_and,
          Classical.not_not]
        intro _
        exact he

theorem invS_fire (st : St) (j : Job) (hj : j ∈ st.jobs) (h : InvS st) :
    InvS (fire .byString st j) ∧ (fire .byString st j).jobs = st.jobs ∧ (fire .byString st j).cur = st.cur := by
  unfold fire
  by_cases hg : j.global = true
  · simp only [hg, if_true]
    have hm : ¬ (Mode.byString = Mode.stamped ∧ j.serial < st.allStamp) := by simp
    rw [if_neg hm]
    by_cases hcma : st.cur.ma = true
    · have := (h.all hcma).2 j hj
      rw [hg] at this
      cases this
    · have hc : st.cur.ma = false := by simpa using hcma
      exact ⟨⟨h.eps, by intro hx; simp [hc] at hx⟩, rfl, rfl⟩
  · have hg' : j.global = false := by simpa using hg
    simp only [hg', Bool.false_eq_true, if_false]
    refine ⟨⟨?_, h.all⟩, trivial, trivial⟩
    intro hc e he
    obtain ⟨hm, hjobs⟩ := h.eps hc e he
    refine ⟨?_, hjobs⟩
    have := hjobs j hj hg'
    simp [List.mem_filter, hm, this]

theorem invS_fireAll (due : List Job) : ∀ (st : St), (∀ j ∈ due, j ∈ st.jobs) → InvS st →
    InvS (due.foldl (fire .byString) st) ∧ (due.foldl (fire .byString) st).jobs = st.jobs := by
  induction due with
  | nil => intro st _ h; exact ⟨h, rfl⟩
  | cons j js ih =>
    intro st hsub h
    obtain ⟨h1, h2, _⟩ := invS_fire st j (hsub j (by simp)) h
    obtain ⟨i1, i2⟩ := ih (fire .byString st j) (fun x hx => by rw [h2]; exact hsub x (by simp [hx])) h1
    simp only [List.foldl_cons]
    exact ⟨i1, i2.trans h2⟩

theorem invS_advance (st : St) (d : Nat) (h : InvS st) : InvS (advance .byString st d) := by
  unfold advance
  obtain ⟨i1, i2⟩ := invS_fireAll (st.jobs.filter fun j => decide (j.due ≤ st.now + d)) st
    (fun j hj => (List.mem_filter.mp hj).1) h
  refine ⟨?_, ?_⟩
  · intro hc e he
    obtain ⟨hm, hj⟩ := i1.eps hc e he
    exact ⟨hm, fun j hjm => hj j (by rw [i2]; exact (List.mem_filter.mp hjm).1)⟩
  · intro hc
    obtain ⟨ha, hj⟩ := i1.all hc
    exact ⟨ha, fun j hjm => hj j (by rw [i2]; exact (List.mem_filter.mp hjm).1)⟩

theorem invS_run (evs : List Ev) : ∀ (st : St), InvS st → Spaced st evs → InvS (run .byString st evs) := by
  induction evs with
  | nil => intro st h _; exact h
  | cons ev evs ih =>
    intro st h hs
    cases ev with
    | reload r => exact ih _ (invS_reload st r hs.1) hs.2
    | advance d => exact ih _ (invS_advance st d h) hs

theorem requiredOK_of_invS (st : St) (h : InvS st) : requiredOK st.cur st.all st.managed = true := by
  unfold requiredOK
  by_cases hc : st.cur.ma = true
  · simp [hc, (h.all hc).1]
  · have hc' : st.cur.ma = false := by simpa using hc
    simp only [hc', Bool.false_eq_true, if_false, List.all_eq_true, List.contains_eq_mem, decide_eq_true_eq]
    intro e he
    exact (h.eps hc' e he).1

end LunarVerif.C14.Reload
