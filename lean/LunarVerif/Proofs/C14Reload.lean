import LunarVerif.Spec.C14Reload
/-!
Helper lemmas for the lifetime dimension of C14: with entries compared by text AND stamped registrations
(`Mode.stamped` = the code after F14g.patch + F14h.patch) every reachable state manages what the configuration in
force requires; with entries compared by text only (`Mode.byString`, F14g.patch alone) the same holds for
histories in which a reload only happens once the previous one has settled.
-/
set_option linter.unusedSimpArgs false
namespace LunarVerif.C14.Reload

theorem stampOf_set (es : List String) (s : Nat) (old : List (String × Nat)) (e : String) :
    stampOf (es.map (·, s) ++ old) e = if e ∈ es then s else stampOf old e := by
  induction es with
  | nil => simp
  | cons x xs ih =>
    simp only [List.map_cons, List.cons_append, stampOf, List.mem_cons]
    by_cases hx : x = e
    · simp [hx]
    · have hx' : ¬ e = x := fun h => hx h.symm
      simp [hx, hx', ih]

theorem putAll_facts : ∀ (f : Nat) (es : List String),
    (∀ e ∈ (putAll f es).1, e ∈ (putAll f es).2.1) ∧
    ((putAll f es).2.2.2 = true → (putAll f es).1 = es ∧ (putAll f es).2.1 = es) := by
  intro f es
  induction es generalizing f with
  | nil => cases f <;> simp [putAll]
  | cons e es ih =>
    cases f with
    | zero =>
      obtain ⟨i1, i2⟩ := ih 0
      simp only [putAll]
      refine ⟨?_, ?_⟩
      · intro x hx
        simp only [List.mem_cons] at hx ⊢
        rcases hx with hx | hx
        · exact Or.inl hx
        · exact Or.inr (i1 x hx)
      · intro hok
        obtain ⟨j1, j2⟩ := i2 hok
        simp [j1, j2]
    | succ g => simp [putAll]

theorem delAll_sub : ∀ (f : Nat) (l : List String), ∀ e ∈ (delAll f l).1, e ∈ l := by
  intro f l
  induction l generalizing f with
  | nil => intro e he; cases f <;> simp [delAll] at he
  | cons x xs ih =>
    intro e he
    cases f with
    | zero =>
      simp only [delAll, List.mem_cons] at he ⊢
      rcases he with he | he
      · exact Or.inl he
      · exact Or.inr (ih 0 e he)
    | succ g => simp [delAll] at he

/-- Invariant of the stamped mode. -/
structure Inv (st : St) : Prop where
  eps : st.cur.ma = false → ∀ e ∈ st.cur.eps, e ∈ st.managed ∧
    ∀ j ∈ st.jobs, j.global = false → e ∈ j.eps → j.serial < stampOf st.stamps e
  all : st.cur.ma = true → st.all = true ∧ ∀ j ∈ st.jobs, j.global = true → j.serial < st.allStamp
  ser : ∀ j ∈ st.jobs, j.serial ≤ st.serial

theorem inv_init : Inv {} := ⟨by intro _ e he; simp at he, by intro h; simp at h, by intro j hj; simp at hj⟩

/-- jobs appended by a successful update carry the new serial -/
theorem newJobs_serial {st : St} {prev : Req} {nm : Bool} {toRemove : List String} {j : Job}
    (hj : j ∈ (if prev.ma && !nm then [(⟨st.now + ttl, st.serial + 1, true, []⟩ : Job)] else []) ++
      (if toRemove.isEmpty then [] else [(⟨st.now + ttl, st.serial + 1, false, toRemove⟩ : Job)])) :
    j.serial = st.serial + 1 ∧ (j.global = false → j.eps = toRemove) ∧ (j.global = true → nm = false) := by
  simp only [List.mem_append] at hj
  rcases hj with hj | hj
  · split at hj
    · rename_i hc
      simp only [List.mem_singleton] at hj
      subst hj
      simp only [Bool.and_eq_true, Bool.not_eq_true'] at hc
      exact ⟨rfl, by intro h; simp at h, fun _ => hc.2⟩
    · simp at hj
  · split at hj
    · simp at hj
    · simp only [List.mem_singleton] at hj
      subst hj
      exact ⟨rfl, fun _ => rfl, by intro h; simp at h⟩

theorem inv_reload (st : St) (new : Req) (h : Inv st) : Inv (reload .stamped st new) := by
  unfold reload
  simp only [Bool.false_eq_true, if_false]
  by_cases hma : new.ma = true
  · simp only [hma, if_true]
    cases hf : st.failPut with
    | succ f =>
      -- PUT /manage_all refused: nothing is published
      refine ⟨h.eps, ?_, ?_⟩
      · intro hc
        obtain ⟨ha, hj⟩ := h.all hc
        exact ⟨ha, fun j hjm hg => Nat.lt_succ_of_le (h.ser j hjm)⟩
      · intro j hjm; exact Nat.le_succ_of_le (h.ser j hjm)
    | zero =>
      refine ⟨by intro hc; simp [hma] at hc, ?_, ?_⟩
      · intro _
        refine ⟨rfl, ?_⟩
        intro j hj hg
        simp only [List.append_assoc, List.mem_append] at hj
        rcases hj with hj | hj
        · exact Nat.lt_succ_of_le (h.ser j hj)
        · have := (newJobs_serial (st := st) (prev := st.cur) (List.mem_append.mpr hj)).2.2 hg
          cases this
      · intro j hj
        simp only [List.append_assoc, List.mem_append] at hj
        rcases hj with hj | hj
        · exact Nat.le_succ_of_le (h.ser j hj)
        · rw [(newJobs_serial (st := st) (prev := st.cur) (List.mem_append.mpr hj)).1]
          exact Nat.le_refl _
  · have hma' : new.ma = false := by simpa using hma
    simp only [hma', Bool.false_eq_true, if_false]
    obtain ⟨p1, p2⟩ := putAll_facts st.failPut new.eps
    by_cases hok : (putAll st.failPut new.eps).2.2.2 = true
    · obtain ⟨q1, q2⟩ := p2 hok
      simp only [hok, if_true]
      refine ⟨?_, by intro hc; simp [hma'] at hc, ?_⟩
      · intro _ e he
        refine ⟨by simp [q1, he], ?_⟩
        intro j hj hg hej
        rw [stampOf_set, q2, if_pos he]
        simp only [List.append_assoc, List.mem_append] at hj
        rcases hj with hj | hj
        · exact Nat.lt_succ_of_le (h.ser j hj)
        · obtain ⟨_, n2, _⟩ := newJobs_serial (st := st) (prev := st.cur) (List.mem_append.mpr hj)
          rw [n2 hg] at hej
          simp only [List.mem_filter, Bool.not_eq_true', List.contains_eq_mem, decide_eq_false_iff_not] at hej
          exact absurd he hej.2
      · intro j hj
        simp only [List.append_assoc, List.mem_append] at hj
        rcases hj with hj | hj
        · exact Nat.le_succ_of_le (h.ser j hj)
        · rw [(newJobs_serial (st := st) (prev := st.cur) (List.mem_append.mpr hj)).1]
          exact Nat.le_refl _
    · -- a PUT was refused: what went through stays registered, the OLD policies stay in force
      simp only [hok, Bool.false_eq_true, if_false]
      refine ⟨?_, ?_, ?_⟩
      · intro hc e he
        obtain ⟨hm, hj⟩ := h.eps hc e he
        refine ⟨by simp [hm], ?_⟩
        intro j hjm hg hej
        rw [stampOf_set]
        split
        · exact Nat.lt_succ_of_le (h.ser j hjm)
        · exact hj j hjm hg hej
      · exact h.all
      · intro j hjm; exact Nat.le_succ_of_le (h.ser j hjm)

theorem inv_fire (st : St) (j : Job) (hj : j ∈ st.jobs) (h : Inv st) :
    Inv (fire .stamped st j) ∧ (fire .stamped st j).jobs = st.jobs ∧ (fire .stamped st j).cur = st.cur := by
  unfold fire
  by_cases hg : j.global = true
  · simp only [hg, if_true]
    by_cases hcma : st.cur.ma = true
    · have := (h.all hcma).2 j hj hg
      simp [this]
      exact h
    · have hc : st.cur.ma = false := by simpa using hcma
      split
      · exact ⟨h, rfl, rfl⟩
      · split
        · exact ⟨⟨h.eps, h.all, h.ser⟩, rfl, rfl⟩
        · exact ⟨⟨h.eps, by intro hx; simp [hc] at hx, h.ser⟩, rfl, rfl⟩
  · have hg' : j.global = false := by simpa using hg
    simp only [hg', Bool.false_eq_true, if_false]
    refine ⟨⟨?_, h.all, h.ser⟩, trivial, trivial⟩
    intro hc e he
    obtain ⟨hm, hjobs⟩ := h.eps hc e he
    refine ⟨?_, hjobs⟩
    simp only [List.mem_filter, hm, true_and, Bool.not_eq_true', List.contains_eq_mem, decide_eq_false_iff_not]
    intro hdel
    have hst := delAll_sub _ _ e hdel
    simp only [List.mem_filter, bne_self_eq_false, Bool.false_or, decide_eq_true_eq] at hst
    have := hjobs j hj hg' hst.1
    omega

theorem inv_fireAll (due : List Job) : ∀ (st : St), (∀ j ∈ due, j ∈ st.jobs) → Inv st →
    Inv (due.foldl (fire .stamped) st) ∧ (due.foldl (fire .stamped) st).jobs = st.jobs ∧
    (due.foldl (fire .stamped) st).cur = st.cur := by
  induction due with
  | nil => intro st _ h; exact ⟨h, rfl, rfl⟩
  | cons j js ih =>
    intro st hsub h
    obtain ⟨h1, h2, hcur⟩ := inv_fire st j (hsub j (by simp)) h
    obtain ⟨i1, i2, i3⟩ := ih (fire .stamped st j) (fun x hx => by rw [h2]; exact hsub x (by simp [hx])) h1
    simp only [List.foldl_cons]
    exact ⟨i1, i2.trans h2, i3.trans hcur⟩

theorem inv_advance (st : St) (d : Nat) (h : Inv st) : Inv (advance .stamped st d) := by
  unfold advance
  obtain ⟨i1, i2, _⟩ := inv_fireAll (st.jobs.filter fun j => decide (j.due ≤ st.now + d)) st
    (fun j hj => (List.mem_filter.mp hj).1) h
  refine ⟨?_, ?_, ?_⟩
  · intro hc e he
    obtain ⟨hm, hj⟩ := i1.eps hc e he
    refine ⟨hm, ?_⟩
    intro j hjm
    exact hj j (by rw [i2]; exact (List.mem_filter.mp hjm).1)
  · intro hc
    obtain ⟨ha, hj⟩ := i1.all hc
    refine ⟨ha, ?_⟩
    intro j hjm
    exact hj j (by rw [i2]; exact (List.mem_filter.mp hjm).1)
  · intro j hjm
    exact i1.ser j (by rw [i2]; exact (List.mem_filter.mp hjm).1)

theorem reload_jobs_prefix (m : Mode) (st : St) (new : Req) :
    ∃ extra, (reload m st new).jobs = st.jobs ++ extra := by
  unfold reload
  simp only [Bool.false_eq_true, if_false]
  split
  · split
    · exact ⟨[], by simp⟩
    · exact ⟨_, by simp only [List.append_assoc]; rfl⟩
  · split
    · exact ⟨_, by simp only [List.append_assoc]; rfl⟩
    · exact ⟨[], by simp⟩

/-- The un-manage a reload schedules is by MEMBERSHIP of the expression text: whatever the multiplicities, an
    expression the new request still contains is in no job that this reload adds. -/
theorem reload_job_spares_contained (st : St) (new : Req) (e : String) (he : e ∈ new.eps) :
    ∀ j ∈ (reload .stamped st new).jobs, j ∉ st.jobs → j.global = false → e ∉ j.eps := by
  intro j hj hnot hg
  unfold reload at hj
  simp only [Bool.false_eq_true, if_false] at hj
  have key : ∀ nm : Bool, j ∈ (if st.cur.ma && !nm then [(⟨st.now + ttl, st.serial + 1, true, []⟩ : Job)] else []) ++
      (if (st.cur.eps.filter fun x => !new.eps.contains x).isEmpty then []
       else [(⟨st.now + ttl, st.serial + 1, false, st.cur.eps.filter fun x => !new.eps.contains x⟩ : Job)]) →
      e ∉ j.eps := by
    intro nm hmem
    rw [(newJobs_serial (st := st) (prev := st.cur) hmem).2.1 hg]
    simp only [List.mem_filter, Bool.not_eq_true', List.contains_eq_mem, decide_eq_false_iff_not, not_and,
      Classical.not_not]
    intro _
    exact he
  split at hj
  · split at hj
    · exact absurd hj hnot
    · simp only [List.append_assoc, List.mem_append] at hj
      rcases hj with hj | hj
      · exact absurd hj hnot
      · exact key _ (List.mem_append.mpr hj)
  · split at hj
    · simp only [List.append_assoc, List.mem_append] at hj
      rcases hj with hj | hj
      · exact absurd hj hnot
      · exact key _ (List.mem_append.mpr hj)
    · exact absurd hj hnot

theorem inv_reloadNow (st : St) (new : Req) (h : Inv st) : Inv (reloadNow .stamped st new) := by
  unfold reloadNow
  have h1 := inv_reload st new h
  split
  · exact h1
  · obtain ⟨extra, hx⟩ := reload_jobs_prefix .stamped st new
    obtain ⟨i1, i2, i3⟩ := inv_fireAll ((reload .stamped st new).jobs.drop st.jobs.length).reverse
      (reload .stamped st new) (fun j hj => List.mem_of_mem_drop (List.mem_reverse.mp hj)) h1
    have hsub : ∀ j ∈ st.jobs, j ∈ (reload .stamped st new).jobs := by
      intro j hj; rw [hx]; exact List.mem_append_left _ hj
    refine ⟨?_, ?_, ?_⟩
    · intro hc e he
      obtain ⟨hm, hj⟩ := i1.eps hc e he
      exact ⟨hm, fun j hjm => hj j (by rw [i2]; exact hsub j hjm)⟩
    · intro hc
      obtain ⟨ha, hj⟩ := i1.all hc
      exact ⟨ha, fun j hjm => hj j (by rw [i2]; exact hsub j hjm)⟩
    · intro j hjm
      exact i1.ser j (by rw [i2]; exact hsub j hjm)

theorem inv_run (evs : List Ev) : ∀ (st : St), Inv st → Inv (run .stamped st evs) := by
  induction evs with
  | nil => intro st h; exact h
  | cons ev evs ih =>
    intro st h
    apply ih
    cases ev with
    | txn id =>
      show Inv (anchorTxn st id)
      unfold anchorTxn
      split
      · exact h
      · exact ⟨h.eps, h.all, h.ser⟩
    | reload r => exact inv_reload st r h
    | reloadNow r => exact inv_reloadNow st r h
    | advance d => exact inv_advance st d h
    | fail p d => exact ⟨h.eps, h.all, h.ser⟩

theorem requiredOK_of_inv (st : St) (h : Inv st) : requiredOK st.cur st.all st.managed = true := by
  unfold requiredOK
  by_cases hc : st.cur.ma = true
  · simp [hc, (h.all hc).1]
  · have hc' : st.cur.ma = false := by simpa using hc
    simp only [hc', Bool.false_eq_true, if_false, List.all_eq_true, List.contains_eq_mem, decide_eq_true_eq]
    intro e he
    exact (h.eps hc' e he).1

/-! ### transactions in flight: the proxy keeps managing what the engine still serves them from -/

theorem stampOf_mono (es : List String) (s : Nat) (old : List (String × Nat)) (e : String) (k : Nat)
    (hk : k < s) (h : k < stampOf old e) : k < stampOf (es.map (·, s) ++ old) e := by
  rw [stampOf_set]
  split
  · exact hk
  · exact h

/-- What an update does, as far as the in-flight transactions are concerned. -/
theorem reload_spec (st : St) (new : Req) : ∀ st', st' = reload .stamped st new →
    st'.now = st.now ∧ (∀ e ∈ st.managed, e ∈ st'.managed) ∧
    (∀ e k, k ≤ st.serial → k < stampOf st.stamps e → k < stampOf st'.stamps e) ∧
    (∀ k, k ≤ st.serial → k < st.allStamp → k < st'.allStamp) ∧ (st.all = true → st'.all = true) ∧
    ((st'.jobs = st.jobs ∧ st'.cur = st.cur ∧ st'.txns = st.txns) ∨
     (st'.cur = new ∧ st'.txns = supersede st.now st.txns ∧ (new.ma = true → st'.all = true) ∧
      (new.ma = false → ∀ e ∈ new.eps, e ∈ st'.managed) ∧
      ∃ extra, st'.jobs = st.jobs ++ extra ∧ ∀ j ∈ extra, j.due = st.now + ttl)) := by
  intro st' hst
  subst hst
  have hjobs : ∀ (nm : Bool) (tr : List String) (j : Job),
      j ∈ (if st.cur.ma && !nm then [(⟨st.now + ttl, st.serial + 1, true, []⟩ : Job)] else []) ++
        (if tr.isEmpty then [] else [(⟨st.now + ttl, st.serial + 1, false, tr⟩ : Job)]) → j.due = st.now + ttl := by
    intro nm tr j hj
    simp only [List.mem_append] at hj
    rcases hj with hj | hj
    · split at hj
      · simp only [List.mem_singleton] at hj; subst hj; rfl
      · simp at hj
    · split at hj
      · simp at hj
      · simp only [List.mem_singleton] at hj; subst hj; rfl
  unfold reload
  simp only [Bool.false_eq_true, if_false]
  by_cases hma : new.ma = true
  · simp only [hma, if_true]
    cases hf : st.failPut with
    | succ f =>
      refine ⟨rfl, fun e he => he, fun e k _ h => h, fun k hk _ => Nat.lt_succ_of_le hk, fun h => h, Or.inl ⟨rfl, rfl, rfl⟩⟩
    | zero =>
      refine ⟨rfl, fun e he => he, fun e k _ h => h, fun k hk _ => Nat.lt_succ_of_le hk, fun _ => rfl, Or.inr ?_⟩
      refine ⟨rfl, rfl, fun _ => rfl, (by intro h; cases h), _, (by simp only [List.append_assoc]; rfl), ?_⟩
      intro j hj
      exact hjobs _ _ j hj
  · have hma' : new.ma = false := by simpa using hma
    simp only [hma', Bool.false_eq_true, if_false]
    obtain ⟨_, p2⟩ := putAll_facts st.failPut new.eps
    by_cases hok : (putAll st.failPut new.eps).2.2.2 = true
    · obtain ⟨q1, _⟩ := p2 hok
      simp only [hok, if_true]
      refine ⟨(by first | rfl | trivial), fun e he => by simp [he], ?_, fun k _ h => h, fun h => h, Or.inr ?_⟩
      · intro e k hk h
        exact stampOf_mono _ _ _ _ _ (Nat.lt_succ_of_le hk) h
      · refine ⟨(by first | rfl | trivial), (by first | rfl | trivial), (by intro h; cases h), (fun _ e he => by simp [q1, he]), _,
          (by simp only [List.append_assoc]; rfl), ?_⟩
        intro j hj
        exact hjobs _ _ j hj
    · simp only [hok, Bool.false_eq_true, if_false]
      refine ⟨(by first | rfl | trivial), fun e he => by simp [he], ?_, fun k _ h => h, fun h => h, Or.inl ⟨(by first | rfl | trivial), (by first | rfl | trivial), (by first | rfl | trivial)⟩⟩
      intro e k hk h
      exact stampOf_mono _ _ _ _ _ (Nat.lt_succ_of_le hk) h

/-- The facts that protect an in-flight transaction. -/
def TxnFacts (st : St) (x : Txn) : Prop :=
  (x.sup = none → x.req = st.cur) ∧
  (∀ s, x.sup = some s → s ≤ st.now ∧
    (x.req.ma = false → ∀ e ∈ x.req.eps, e ∈ st.managed ∧
      ∀ j ∈ st.jobs, j.global = false → e ∈ j.eps → j.serial < stampOf st.stamps e ∨ s + ttl ≤ j.due) ∧
    (x.req.ma = true → st.all = true ∧
      ∀ j ∈ st.jobs, j.global = true → j.serial < st.allStamp ∨ s + ttl ≤ j.due))

structure InvT (st : St) : Prop where
  inv : Inv st
  tx : ∀ x ∈ st.txns, x.valid st.now = true → TxnFacts st x

theorem invT_init : InvT {} := ⟨inv_init, by intro x hx; simp at hx⟩

theorem valid_supersede {x : Txn} {t : Nat} (hs : x.sup = none)
    (h : ({ x with sup := some t } : Txn).valid t = true) : x.valid t = true := by
  simp only [Txn.valid, hs, Bool.and_eq_true, Bool.not_eq_true', decide_eq_true_eq] at h ⊢
  exact ⟨⟨h.1.1, h.1.2⟩, trivial⟩

theorem invT_reload (st : St) (new : Req) (h : InvT st) : InvT (reload .stamped st new) := by
  refine ⟨inv_reload st new h.inv, ?_⟩
  obtain ⟨f1, f2, f3, f4, f5, f6⟩ := reload_spec st new _ rfl
  intro x hx hv
  rw [f1] at hv
  rcases f6 with ⟨j1, j2, j3⟩ | ⟨c1, c2, c3, c4, extra, c5, c6⟩
  · -- the update was refused: the same transactions, jobs and configuration; more is managed
    rw [j3] at hx
    obtain ⟨t1, t2⟩ := h.tx x hx hv
    refine ⟨by rw [j2]; exact t1, ?_⟩
    intro s hs
    obtain ⟨u1, u2, u3⟩ := t2 s hs
    refine ⟨by rw [f1]; exact u1, ?_, ?_⟩
    · intro hm e he
      obtain ⟨v1, v2⟩ := u2 hm e he
      refine ⟨f2 e v1, ?_⟩
      intro j hj hg hej
      rw [j1] at hj
      rcases v2 j hj hg hej with v | v
      · exact Or.inl (f3 e _ (h.inv.ser j hj) v)
      · exact Or.inr v
    · intro hm
      obtain ⟨v1, v2⟩ := u3 hm
      refine ⟨f5 v1, ?_⟩
      intro j hj hg
      rw [j1] at hj
      rcases v2 j hj hg with v | v
      · exact Or.inl (f4 _ (h.inv.ser j hj) v)
      · exact Or.inr v
  · -- the update went through
    rw [c2] at hx
    simp only [supersede, List.mem_map] at hx
    obtain ⟨y, hy, hyx⟩ := hx
    by_cases hsn : y.sup.isNone = true
    · -- anchored to the version that is being superseded now
      have hs : y.sup = none := by simpa using hsn
      rw [if_pos hsn] at hyx
      subst hyx
      have hvy : y.valid st.now = true := valid_supersede hs hv
      obtain ⟨t1, _⟩ := h.tx y hy hvy
      have hreq := t1 hs
      refine ⟨by intro hc; simp at hc, ?_⟩
      intro s hs'
      simp only [Option.some.injEq] at hs'
      subst hs'
      refine ⟨by rw [f1]; exact Nat.le_refl _, ?_, ?_⟩
      · intro hm e he
        have hm' : st.cur.ma = false := by rw [← hreq]; exact hm
        have he' : e ∈ st.cur.eps := by rw [← hreq]; exact he
        obtain ⟨v1, v2⟩ := h.inv.eps hm' e he'
        refine ⟨f2 e v1, ?_⟩
        intro j hj hg hej
        rw [c5, List.mem_append] at hj
        rcases hj with hj | hj
        · exact Or.inl (f3 e _ (h.inv.ser j hj) (v2 j hj hg hej))
        · exact Or.inr (by rw [c6 j hj]; exact Nat.le_refl _)
      · intro hm
        have hm' : st.cur.ma = true := by rw [← hreq]; exact hm
        obtain ⟨v1, v2⟩ := h.inv.all hm'
        refine ⟨f5 v1, ?_⟩
        intro j hj hg
        rw [c5, List.mem_append] at hj
        rcases hj with hj | hj
        · exact Or.inl (f4 _ (h.inv.ser j hj) (v2 j hj hg))
        · exact Or.inr (by rw [c6 j hj]; exact Nat.le_refl _)
    · -- superseded earlier
      rw [if_neg hsn] at hyx
      subst hyx
      obtain ⟨t1, t2⟩ := h.tx y hy hv
      refine ⟨by intro hc; rw [hc] at hsn; simp at hsn, ?_⟩
      intro s hs
      obtain ⟨u1, u2, u3⟩ := t2 s hs
      refine ⟨by rw [f1]; exact u1, ?_, ?_⟩
      · intro hm e he
        obtain ⟨v1, v2⟩ := u2 hm e he
        refine ⟨f2 e v1, ?_⟩
        intro j hj hg hej
        rw [c5, List.mem_append] at hj
        rcases hj with hj | hj
        · rcases v2 j hj hg hej with v | v
          · exact Or.inl (f3 e _ (h.inv.ser j hj) v)
          · exact Or.inr v
        · exact Or.inr (by rw [c6 j hj]; omega)
      · intro hm
        obtain ⟨v1, v2⟩ := u3 hm
        refine ⟨f5 v1, ?_⟩
        intro j hj hg
        rw [c5, List.mem_append] at hj
        rcases hj with hj | hj
        · rcases v2 j hj hg with v | v
          · exact Or.inl (f4 _ (h.inv.ser j hj) v)
          · exact Or.inr v
        · exact Or.inr (by rw [c6 j hj]; omega)

theorem valid_lt_sup {x : Txn} {t s : Nat} (hv : x.valid t = true) (hs : x.sup = some s) : t < s + ttl := by
  simp only [Txn.valid, hs, Bool.and_eq_true, decide_eq_true_eq] at hv
  exact hv.2

theorem valid_mono {x : Txn} {t t' : Nat} (hle : t ≤ t') (hv : x.valid t' = true) : x.valid t = true := by
  simp only [Txn.valid, Bool.and_eq_true, Bool.not_eq_true', decide_eq_true_eq] at hv ⊢
  refine ⟨⟨hv.1.1, by omega⟩, ?_⟩
  cases hs : x.sup with
  | none => rfl
  | some s =>
    have := hv.2
    rw [hs] at this
    simp only [decide_eq_true_eq] at this ⊢
    omega

theorem txnFacts_fire (st : St) (j : Job) (x : Txn) (t' : Nat) (hj : j ∈ st.jobs) (hdue : j.due ≤ t')
    (hv : x.valid t' = true) (h : TxnFacts st x) : TxnFacts (fire .stamped st j) x := by
  obtain ⟨t1, t2⟩ := h
  unfold fire
  by_cases hg : j.global = true
  · simp only [hg, if_true]
    split
    · exact ⟨t1, t2⟩
    · rename_i hns
      have hkeep : ∀ s, x.sup = some s → x.req.ma = true → False := by
        intro s hs hm
        rcases (t2 s hs).2.2 hm |>.2 j hj hg with v | v
        · exact hns ⟨trivial, v⟩
        · have := valid_lt_sup hv hs; omega
      split
      · refine ⟨t1, ?_⟩
        intro s hs
        obtain ⟨u1, u2, u3⟩ := t2 s hs
        exact ⟨u1, u2, u3⟩
      · refine ⟨t1, ?_⟩
        intro s hs
        obtain ⟨u1, u2, u3⟩ := t2 s hs
        exact ⟨u1, u2, fun hm => absurd hm (fun hm => hkeep s hs hm)⟩
  · have hg' : j.global = false := by simpa using hg
    simp only [hg', Bool.false_eq_true, if_false]
    refine ⟨t1, ?_⟩
    intro s hs
    obtain ⟨u1, u2, u3⟩ := t2 s hs
    refine ⟨u1, ?_, u3⟩
    intro hm e he
    obtain ⟨v1, v2⟩ := u2 hm e he
    refine ⟨?_, v2⟩
    simp only [List.mem_filter, v1, true_and, Bool.not_eq_true', List.contains_eq_mem, decide_eq_false_iff_not]
    intro hdel
    have hst := delAll_sub _ _ e hdel
    simp only [List.mem_filter, bne_self_eq_false, Bool.false_or, decide_eq_true_eq] at hst
    rcases v2 j hj hg' hst.1 with v | v
    · omega
    · have := valid_lt_sup hv hs; omega

theorem fire_txns (st : St) (j : Job) : (fire .stamped st j).txns = st.txns ∧ (fire .stamped st j).now = st.now := by
  unfold fire
  split
  · split
    · exact ⟨rfl, rfl⟩
    · split <;> exact ⟨rfl, rfl⟩
  · exact ⟨rfl, rfl⟩

theorem fireAll_txns (due : List Job) : ∀ (st : St),
    (due.foldl (fire .stamped) st).txns = st.txns ∧ (due.foldl (fire .stamped) st).now = st.now := by
  induction due with
  | nil => intro st; exact ⟨rfl, rfl⟩
  | cons j js ih =>
    intro st
    simp only [List.foldl_cons]
    obtain ⟨a, b⟩ := ih (fire .stamped st j)
    obtain ⟨c, d⟩ := fire_txns st j
    exact ⟨a.trans c, b.trans d⟩

theorem txnFacts_fireAll (x : Txn) (t' : Nat) (hv : x.valid t' = true) (due : List Job) : ∀ (st : St), Inv st →
    (∀ j ∈ due, j ∈ st.jobs ∧ j.due ≤ t') → TxnFacts st x →
    TxnFacts (due.foldl (fire .stamped) st) x ∧ (due.foldl (fire .stamped) st).txns = st.txns ∧
    (due.foldl (fire .stamped) st).now = st.now := by
  induction due with
  | nil => intro st _ _ h; exact ⟨h, rfl, rfl⟩
  | cons j js ih =>
    intro st hi hsub h
    obtain ⟨hjm, hjd⟩ := hsub j (by simp)
    have h1 := txnFacts_fire st j x t' hjm hjd hv h
    obtain ⟨i1, i2, _⟩ := inv_fire st j hjm hi
    obtain ⟨f1, f2⟩ := fire_txns st j
    obtain ⟨k1, k2, k3⟩ := ih (fire .stamped st j) i1 (fun y hy => by rw [i2]; exact hsub y (by simp [hy])) h1
    simp only [List.foldl_cons]
    exact ⟨k1, k2.trans f1, k3.trans f2⟩

theorem invT_advance (st : St) (d : Nat) (h : InvT st) : InvT (advance .stamped st d) := by
  refine ⟨inv_advance st d h.inv, ?_⟩
  unfold advance
  intro x hx hv
  simp only at hx hv
  have hdue : ∀ j ∈ st.jobs.filter (fun j => decide (j.due ≤ st.now + d)), j ∈ st.jobs ∧ j.due ≤ st.now + d := by
    intro j hj
    obtain ⟨a, b⟩ := List.mem_filter.mp hj
    exact ⟨a, by simpa using b⟩
  have hv0 : x.valid st.now = true := valid_mono (Nat.le_add_right _ _) hv
  have htx := (fireAll_txns (st.jobs.filter fun j => decide (j.due ≤ st.now + d)) st).1
  rw [htx] at hx
  obtain ⟨k1, _, _⟩ := txnFacts_fireAll x (st.now + d) hv _ st h.inv hdue (h.tx x hx hv0)
  obtain ⟨_, i2, _⟩ := inv_fireAll (st.jobs.filter fun j => decide (j.due ≤ st.now + d)) st
    (fun j hj => (List.mem_filter.mp hj).1) h.inv
  obtain ⟨t1, t2⟩ := k1
  refine ⟨t1, ?_⟩
  intro s hs
  obtain ⟨u1, u2, u3⟩ := t2 s hs
  have hnow := (fireAll_txns (st.jobs.filter fun j => decide (j.due ≤ st.now + d)) st).2
  refine ⟨by rw [hnow] at u1; exact Nat.le_trans u1 (Nat.le_add_right _ _), ?_, ?_⟩
  · intro hm e he
    obtain ⟨v1, v2⟩ := u2 hm e he
    exact ⟨v1, fun j hjm => v2 j (by rw [i2]; exact (List.mem_filter.mp hjm).1)⟩
  · intro hm
    obtain ⟨v1, v2⟩ := u3 hm
    exact ⟨v1, fun j hjm => v2 j (by rw [i2]; exact (List.mem_filter.mp hjm).1)⟩

theorem invT_reloadNow (st : St) (new : Req) (h : InvT st) : InvT (reloadNow .stamped st new) := by
  refine ⟨inv_reloadNow st new h.inv, ?_⟩
  unfold reloadNow
  split
  · exact (invT_reload st new h).tx
  · intro x hx hv
    simp only [List.mem_map] at hx
    obtain ⟨y, _, hy⟩ := hx
    subst hy
    simp [Txn.valid] at hv

theorem invT_anchor (st : St) (id : String) (h : InvT st) : InvT (anchorTxn st id) := by
  unfold anchorTxn
  split
  · exact h
  · refine ⟨⟨h.inv.eps, h.inv.all, h.inv.ser⟩, ?_⟩
    intro x hx hv
    simp only [List.mem_append, List.mem_singleton] at hx
    rcases hx with hx | hx
    · exact h.tx x hx hv
    · subst hx
      exact ⟨fun _ => rfl, by intro s hs; cases hs⟩

theorem invT_run (evs : List Ev) : ∀ (st : St), InvT st → InvT (run .stamped st evs) := by
  induction evs with
  | nil => intro st h; exact h
  | cons ev evs ih =>
    intro st h
    apply ih
    cases ev with
    | txn id => exact invT_anchor st id h
    | reload r => exact invT_reload st r h
    | reloadNow r => exact invT_reloadNow st r h
    | advance d => exact invT_advance st d h
    | fail p d => exact ⟨⟨h.inv.eps, h.inv.all, h.inv.ser⟩, h.tx⟩

/-- While the engine serves an in-flight transaction from its anchored version, the proxy manages what that
    version requires. -/
theorem txnView_managed (st : St) (h : InvT st) (id : String) (req : Req) (hv : txnView st id = some req) :
    requiredOK req st.all st.managed = true := by
  unfold txnView at hv
  cases hf : st.txns.find? (fun x => x.id == id) with
  | none => rw [hf] at hv; cases hv
  | some x =>
    rw [hf] at hv
    simp only at hv
    split at hv
    · rename_i hval
      cases hv
      have hx : x ∈ st.txns := List.mem_of_find?_eq_some hf
      obtain ⟨t1, t2⟩ := h.tx x hx hval
      cases hs : x.sup with
      | none => rw [t1 hs]; exact requiredOK_of_inv st h.inv
      | some s =>
        obtain ⟨_, u2, u3⟩ := t2 s hs
        unfold requiredOK
        by_cases hm : x.req.ma = true
        · simp [hm, (u3 hm).1]
        · have hm' : x.req.ma = false := by simpa using hm
          simp only [hm', Bool.false_eq_true, if_false, List.all_eq_true, List.contains_eq_mem, decide_eq_true_eq]
          intro e he
          exact (u2 hm' e he).1
    · cases hv

/-! ### entries compared by text only (F14g.patch alone): reloads that wait for the previous one to settle -/

/-- Every reload of the history happens when no un-manage job is pending. -/
def Spaced (st : St) : List Ev → Prop
  | [] => True
  | .txn id :: evs => Spaced (anchorTxn st id) evs
  | .reload r :: evs => st.jobs = [] ∧ Spaced (reload .byString st r) evs
  | .reloadNow r :: evs => st.jobs = [] ∧ Spaced (reloadNow .byString st r) evs
  | .advance d :: evs => Spaced (advance .byString st d) evs
  | .fail p d :: evs => Spaced { st with failPut := p, failDel := d } evs

structure InvS (st : St) : Prop where
  eps : st.cur.ma = false → ∀ e ∈ st.cur.eps, e ∈ st.managed ∧ ∀ j ∈ st.jobs, j.global = false → e ∉ j.eps
  all : st.cur.ma = true → st.all = true ∧ ∀ j ∈ st.jobs, j.global = false

theorem invS_init : InvS {} := ⟨by intro _ e he; simp at he, by intro h; simp at h⟩

theorem invS_reload (st : St) (new : Req) (hj : st.jobs = []) (h : InvS st) : InvS (reload .byString st new) := by
  unfold reload
  simp only [Bool.false_eq_true, if_false]
  by_cases hma : new.ma = true
  · simp only [hma, if_true, hj]
    cases hf : st.failPut with
    | succ f => exact ⟨by simpa [hj] using h.eps, by intro hc; exact ⟨(h.all hc).1, by simp⟩⟩
    | zero =>
      refine ⟨by intro hc; simp [hma] at hc, ?_⟩
      intro _
      refine ⟨rfl, ?_⟩
      intro j hjm
      simp only [List.nil_append] at hjm
      by_cases hg : j.global = true
      · have := (newJobs_serial (st := st) (prev := st.cur) hjm).2.2 hg
        cases this
      · simpa using hg
  · have hma' : new.ma = false := by simpa using hma
    simp only [hma', Bool.false_eq_true, if_false, hj]
    obtain ⟨_, p2⟩ := putAll_facts st.failPut new.eps
    by_cases hok : (putAll st.failPut new.eps).2.2.2 = true
    · obtain ⟨q1, _⟩ := p2 hok
      simp only [hok, if_true]
      refine ⟨?_, by intro hc; simp [hma'] at hc⟩
      intro _ e he
      refine ⟨by simp [q1, he], ?_⟩
      intro j hjm hg
      simp only [List.nil_append] at hjm
      rw [(newJobs_serial (st := st) (prev := st.cur) hjm).2.1 hg]
      simp only [List.mem_filter, Bool.not_eq_true', List.contains_eq_mem, decide_eq_false_iff_not, not_and,
        Classical.not_not]
      intro _
      exact he
    · simp only [hok, Bool.false_eq_true, if_false]
      refine ⟨?_, by intro hc; exact ⟨(h.all hc).1, by simp⟩⟩
      intro hc e he
      exact ⟨by simp [(h.eps hc e he).1], by simp⟩

theorem invS_fire (st : St) (j : Job) (hj : j ∈ st.jobs) (h : InvS st) :
    InvS (fire .byString st j) ∧ (fire .byString st j).jobs = st.jobs ∧ (fire .byString st j).cur = st.cur := by
  unfold fire
  by_cases hg : j.global = true
  · simp only [hg, if_true]
    have hm : ¬ (Mode.byString = Mode.stamped ∧ j.serial < st.allStamp) := by simp
    rw [if_neg hm]
    by_cases hcma : st.cur.ma = true
    · have := (h.all hcma).2 j hj
      rw [hg] at this
      cases this
    · have hc : st.cur.ma = false := by simpa using hcma
      split
      · exact ⟨⟨h.eps, h.all⟩, rfl, rfl⟩
      · exact ⟨⟨h.eps, by intro hx; simp [hc] at hx⟩, rfl, rfl⟩
  · have hg' : j.global = false := by simpa using hg
    simp only [hg', Bool.false_eq_true, if_false]
    refine ⟨⟨?_, h.all⟩, trivial, trivial⟩
    intro hc e he
    obtain ⟨hm, hjobs⟩ := h.eps hc e he
    refine ⟨?_, hjobs⟩
    simp only [List.mem_filter, hm, true_and, Bool.not_eq_true', List.contains_eq_mem, decide_eq_false_iff_not]
    intro hdel
    have hst := delAll_sub _ _ e hdel
    simp only [List.mem_filter] at hst
    exact hjobs j hj hg' hst.1

theorem invS_fireAll (due : List Job) : ∀ (st : St), (∀ j ∈ due, j ∈ st.jobs) → InvS st →
    InvS (due.foldl (fire .byString) st) ∧ (due.foldl (fire .byString) st).jobs = st.jobs := by
  induction due with
  | nil => intro st _ h; exact ⟨h, rfl⟩
  | cons j js ih =>
    intro st hsub h
    obtain ⟨h1, h2, _⟩ := invS_fire st j (hsub j (by simp)) h
    obtain ⟨i1, i2⟩ := ih (fire .byString st j) (fun x hx => by rw [h2]; exact hsub x (by simp [hx])) h1
    simp only [List.foldl_cons]
    exact ⟨i1, i2.trans h2⟩

theorem invS_advance (st : St) (d : Nat) (h : InvS st) : InvS (advance .byString st d) := by
  unfold advance
  obtain ⟨i1, i2⟩ := invS_fireAll (st.jobs.filter fun j => decide (j.due ≤ st.now + d)) st
    (fun j hj => (List.mem_filter.mp hj).1) h
  refine ⟨?_, ?_⟩
  · intro hc e he
    obtain ⟨hm, hj⟩ := i1.eps hc e he
    exact ⟨hm, fun j hjm => hj j (by rw [i2]; exact (List.mem_filter.mp hjm).1)⟩
  · intro hc
    obtain ⟨ha, hj⟩ := i1.all hc
    exact ⟨ha, fun j hjm => hj j (by rw [i2]; exact (List.mem_filter.mp hjm).1)⟩

theorem invS_reloadNow (st : St) (new : Req) (hj : st.jobs = []) (h : InvS st) : InvS (reloadNow .byString st new) := by
  unfold reloadNow
  have h1 := invS_reload st new hj h
  split
  · exact h1
  · obtain ⟨i1, _⟩ := invS_fireAll ((reload .byString st new).jobs.drop st.jobs.length).reverse
      (reload .byString st new) (fun j hjm => List.mem_of_mem_drop (List.mem_reverse.mp hjm)) h1
    refine ⟨?_, ?_⟩
    · intro hc e he
      exact ⟨(i1.eps hc e he).1, by simp [hj]⟩
    · intro hc
      exact ⟨(i1.all hc).1, by simp [hj]⟩

theorem invS_run (evs : List Ev) : ∀ (st : St), InvS st → Spaced st evs → InvS (run .byString st evs) := by
  induction evs with
  | nil => intro st h _; exact h
  | cons ev evs ih =>
    intro st h hs
    cases ev with
    | txn id =>
      refine ih _ ?_ hs
      show InvS (anchorTxn st id)
      unfold anchorTxn
      split
      · exact h
      · exact ⟨h.eps, h.all⟩
    | reload r => exact ih _ (invS_reload st r hs.1 h) hs.2
    | reloadNow r => exact ih _ (invS_reloadNow st r hs.1 h) hs.2
    | advance d => exact ih _ (invS_advance st d h) hs
    | fail p d => exact ih _ ⟨h.eps, h.all⟩ hs

theorem requiredOK_of_invS (st : St) (h : InvS st) : requiredOK st.cur st.all st.managed = true := by
  unfold requiredOK
  by_cases hc : st.cur.ma = true
  · simp [hc, (h.all hc).1]
  · have hc' : st.cur.ma = false := by simpa using hc
    simp only [hc', Bool.false_eq_true, if_false, List.all_eq_true, List.contains_eq_mem, decide_eq_true_eq]
    intro e he
    exact (h.eps hc' e he).1

end LunarVerif.C14.Reload
