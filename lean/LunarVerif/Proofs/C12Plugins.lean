import LunarVerif.Proofs.C12
/-! C12, remedies: every stored entry has a source response in the observable history; every run of the
caching model satisfies the Spec. -/
set_option linter.unusedSectionVars false
set_option linter.unusedSimpArgs false
namespace LunarVerif.C12

section
variable {σ : Type} [DecidableEq σ]

/-! ## caching remedy -/

/-- `r0` is the response from which entry `e` under key `k` was stored. -/
def CSrc (cfg : CCfg) (k : CKey σ) (e : Entry (Stored σ)) (r0 : PRec σ) : Prop :=
  ∃ m u sel r bl sz, r0.op = .resp m u sel r bl sz ∧ k = ⟨m, u, sel⟩ ∧ bl ≤ cfg.maxRec ∧
    e.val.resp = r ∧ e.expiry = r0.t + cfg.ttl

structure CInv (cfg : CCfg) (h : List (PRec σ)) (c : CCache σ) : Prop where
  src : ∀ k e, find? k c.entries = some e → ∃ r0, r0 ∈ h ∧ CSrc cfg k e r0
  time : ∀ r0, r0 ∈ h → r0.t ≤ c.now
  off : c.sizeOn = false → c.entries = [] ∧ c.tracked = 0
  on : c.sizeOn = true → c.max = cfg.maxBytes
  size : SizeInv c

theorem cinv_init (cfg : CCfg) (t0 : Int) : CInv cfg ([] : List (PRec σ)) (Cache.init t0 false 0) := by
  constructor
  · intro k e hf; simp [Cache.init, find?] at hf
  · intro r0 hr; cases hr
  · intro _; exact ⟨rfl, rfl⟩
  · intro h; simp [Cache.init] at h
  · intro h; simp [Cache.init] at h

/-- Steps that only delete / move the clock forward keep the invariant (history grows by any record). -/
theorem cinv_shrink {cfg : CCfg} {h : List (PRec σ)} {c c' : CCache σ} (r : PRec σ)
    (hinv : CInv cfg h c) (hrt : r.t = c.now)
    (hent : ∀ k e, find? k c'.entries = some e → find? k c.entries = some e)
    (hnow : c.now ≤ c'.now) (hson : c'.sizeOn = c.sizeOn) (hmax : c'.max = c.max)
    (hoff : c.sizeOn = false → c'.entries = [] ∧ c'.tracked = 0) (hsz : SizeInv c') :
    CInv cfg (r :: h) c' := by
  constructor
  · intro k e hf
    obtain ⟨r0, hm, hs⟩ := hinv.src k e (hent k e hf)
    exact ⟨r0, List.mem_cons_of_mem _ hm, hs⟩
  · intro r0 hm
    rcases List.mem_cons.mp hm with h1 | h1
    · rw [h1, hrt]; exact hnow
    · have := hinv.time r0 h1; omega
  · intro hx; rw [hson] at hx; exact hoff hx
  · intro hx; rw [hson] at hx; rw [hmax]; exact hinv.on hx
  · exact hsz

theorem cstep_inv (cfg : CCfg) (hmax : 0 ≤ cfg.maxBytes) (c : CCache σ) (h : List (PRec σ)) (op : POp σ)
    (hinv : CInv cfg h c) : CInv cfg (⟨c.now, op, (cstep cfg c op).2⟩ :: h) (cstep cfg c op).1 := by
  have same : ∀ o, CInv cfg (⟨c.now, op, o⟩ :: h) c := fun o =>
    cinv_shrink ⟨c.now, op, o⟩ hinv rfl (fun _ _ x => x) (Int.le_refl _) rfl rfl hinv.off hinv.size
  cases op with
  | resp m u sel r bl sz =>
    simp only [cstep]
    by_cases hbig : bl > cfg.maxRec
    · simp only [hbig, if_true]; exact same _
    · simp only [hbig, if_false]
      by_cases hhas : has c ⟨m, u, sel⟩ = true
      · simp only [hhas, if_true]; exact same _
      · simp only [hhas, Bool.false_eq_true, if_false]
        -- the store
        let c1 : CCache σ := { c with sizeOn := true, max := cfg.maxBytes }
        have hs1 : SizeInv c1 := by
          intro _
          cases hon : c.sizeOn with
          | false =>
            obtain ⟨he, ht⟩ := hinv.off hon
            show (heldSize c.entries : Int) ≤ c.tracked ∧ c.tracked ≤ cfg.maxBytes
            rw [he, ht]; simp [heldSize, hmax]
          | true =>
            obtain ⟨h1, h2⟩ := hinv.size hon
            have := hinv.on hon
            show (heldSize c.entries : Int) ≤ c.tracked ∧ c.tracked ≤ cfg.maxBytes
            rw [← this]; exact ⟨h1, h2⟩
        constructor
        · intro k e hf
          rcases find?_set hf with ⟨hk, he, _⟩ | ⟨_, _, hb⟩ | ⟨_, hb⟩
          · refine ⟨_, List.mem_cons_self, m, u, sel, r, bl, sz, rfl, hk, by omega, ?_, ?_⟩
            · rw [he]
            · rw [he]
          · obtain ⟨r0, hm, hs⟩ := hinv.src k e hb
            exact ⟨r0, List.mem_cons_of_mem _ hm, hs⟩
          · obtain ⟨r0, hm, hs⟩ := hinv.src k e hb
            exact ⟨r0, List.mem_cons_of_mem _ hm, hs⟩
        · intro r0 hm
          rw [set_now]
          rcases List.mem_cons.mp hm with h1 | h1
          · rw [h1]; exact Int.le_refl _
          · exact hinv.time r0 h1
        · intro hx; rw [set_sizeOn] at hx; cases hx
        · intro _; rw [set_max]
        · exact sizeInv_set _ _ _ _ hs1
  | req m u sel =>
    simp only [cstep]
    cases get c ⟨m, u, sel⟩ with
    | none => exact same _
    | some s => exact same _
  | fire i =>
    simp only [cstep]
    exact cinv_shrink _ hinv rfl (fun _ _ x => find?_fire x) (by rw [fire_now]; exact Int.le_refl _)
      (fire_sizeOn c i) (fire_max c i)
      (fun hx => ⟨fire_entries_nil i (hinv.off hx).1, by rw [fire_tracked_off i hx]; exact (hinv.off hx).2⟩)
      (sizeInv_fire i hinv.size)
  | skip d =>
    simp only [cstep]
    exact cinv_shrink _ hinv rfl (fun _ _ x => x) (by simp only [skip]; omega) rfl rfl hinv.off hinv.size
  | adv d =>
    simp only [cstep]
    exact cinv_shrink _ hinv rfl (fun _ _ x => find?_adv x) (by rw [adv_now]; omega)
      (adv_sizeOn c d) (adv_max c d)
      (fun hx => ⟨adv_entries_nil d (hinv.off hx).1, by rw [adv_tracked_off d hx]; exact (hinv.off hx).2⟩)
      (sizeInv_adv d hinv.size)
  | probe => simp only [cstep]; exact same _

theorem cstep_recOk (cfg : CCfg) (hmax : 0 ≤ cfg.maxBytes) (c : CCache σ) (h : List (PRec σ)) (op : POp σ)
    (hinv : CInv cfg h c) : cRecOk cfg ⟨c.now, op, (cstep cfg c op).2⟩ h = true := by
  cases op with
  | resp m u sel r bl sz =>
    simp only [cstep]
    by_cases hbig : bl > cfg.maxRec
    · simp [hbig, cRecOk]
    · by_cases hhas : has c ⟨m, u, sel⟩ = true
      · simp [hbig, hhas, cRecOk]
      · simp [hbig, hhas, cRecOk]
  | req m u sel =>
    simp only [cstep]
    cases hg : get c ⟨m, u, sel⟩ with
    | none => simp [cRecOk]
    | some s =>
      obtain ⟨e, hf, hv, hle⟩ := get_some hg
      obtain ⟨r0, hm, m0, u0, sel0, r, bl, sz, hop, hk, hbl, hr, hexp⟩ := hinv.src _ e hf
      have ht := hinv.time r0 hm
      simp only [cRecOk]
      simp only [decide_true, Bool.true_and]
      rw [List.any_eq_true]
      refine ⟨r0, hm, ?_⟩
      have hk' : m0 = m ∧ u0 = u ∧ sel0 = sel := by
        cases hk; exact ⟨rfl, rfl, rfl⟩
      rw [hv] at hr
      simp only [cJustifies, hop]
      simp only [hk'.1, hk'.2.1, hk'.2.2, hbl, ← hr, decide_true, Bool.and_self, Bool.true_and, Bool.and_true,
        Bool.and_eq_true, decide_eq_true_eq]
      constructor <;> omega
  | fire i => simp [cstep, cRecOk]
  | skip d => simp [cstep, cRecOk]
  | adv d => simp [cstep, cRecOk]
  | probe =>
    simp only [cstep, cRecOk]
    cases hon : c.sizeOn with
    | false =>
      obtain ⟨he, ht⟩ := hinv.off hon
      rw [he, ht]; simp [heldSize, hmax]
    | true =>
      obtain ⟨h1, h2⟩ := hinv.size hon
      rw [← hinv.on hon]
      simp; omega

theorem crun_holdsRev (cfg : CCfg) (hmax : 0 ≤ cfg.maxBytes) (ops : List (POp σ)) (c : CCache σ)
    (h : List (PRec σ)) (hinv : CInv cfg h c) (hh : choldsRev cfg h = true) :
    choldsRev cfg ((crun cfg c ops).reverse ++ h) = true := by
  induction ops generalizing c h with
  | nil => simpa [crun] using hh
  | cons op ops ih =>
    simp only [crun, List.reverse_cons, List.append_assoc, List.singleton_append]
    apply ih
    · exact cstep_inv cfg hmax c h op hinv
    · simp only [choldsRev, Bool.and_eq_true]
      exact ⟨cstep_recOk cfg hmax c h op hinv, hh⟩

theorem crun_ops (cfg : CCfg) (ops : List (POp σ)) (c : CCache σ) : (crun cfg c ops).map (·.op) = ops := by
  induction ops generalizing c with
  | nil => rfl
  | cons op ops ih => simp [crun, ih]

end

end LunarVerif.C12
