import LunarVerif.Proofs.C01
/-! C01: spacing of the reconstructed windows (level layer and API layer). -/
namespace LunarVerif.C01

/-- Spacing only looks at the starts. -/
theorem spacedBy_bump (W : Nat) (w : Win) (ws : List Win) (c a : Nat) :
    spacedBy W ({ w with charged := c, admitted := a } :: ws) = spacedBy W (w :: ws) := by
  cases ws with
  | nil => simp [spacedBy]
  | cons v rest => simp [spacedBy]

/-- Invariant of a window list under arrivals at instants ≤ `T`: spaced, and the newest window did
    not start after `T`. -/
def SpOk (W T : Nat) (ws : List Win) : Prop :=
  spacedBy W ws = true ∧ ∀ w rest, ws = w :: rest → w.start * nsPerSec ≤ T

theorem SpOk.mono {W T T' : Nat} {ws : List Win} (h : SpOk W T ws) (hT : T ≤ T') : SpOk W T' ws :=
  ⟨h.1, fun w rest e => Nat.le_trans (h.2 w rest e) hT⟩

theorem SpOk.nil (W T : Nat) : SpOk W T [] := ⟨rfl, fun _ _ h => by simp at h⟩

/-- A charged arrival at `t` (not before the newest window's start) keeps the windows spaced by the
    window length, provided the length is a whole number of seconds. -/
theorem SpOk.charge {win t : Nat} {ws : List Win} (cost : Nat) (hw : win % nsPerSec = 0)
    (h : SpOk (win / nsPerSec) t ws) : SpOk (win / nsPerSec) t (chargeWin win t cost ws) := by
  obtain ⟨hs, hh⟩ := h
  cases ws with
  | nil =>
    refine ⟨rfl, ?_⟩
    intro w rest e
    simp only [chargeWin, List.cons.injEq] at e
    obtain ⟨e, _⟩ := e
    subst e
    simp only [nsPerSec]
    omega
  | cons w rest =>
    have hle := hh w rest rfl
    by_cases ho : outside win w.start t = true
    · simp only [chargeWin, ho, if_true]
      refine ⟨?_, ?_⟩
      · simp only [spacedBy, hs, Bool.and_true, decide_eq_true_eq]
        simp only [outside, decide_eq_true_eq] at ho
        simp only [nsPerSec] at ho hw hle ⊢
        omega
      · intro w' rest' e
        simp only [List.cons.injEq] at e
        obtain ⟨e, _⟩ := e
        subst e
        simp only [nsPerSec]
        omega
    · simp only [chargeWin, ho, Bool.false_eq_true, if_false]
      refine ⟨by rw [spacedBy_bump]; exact hs, ?_⟩
      intro w' rest' e
      simp only [List.cons.injEq] at e
      obtain ⟨e, _⟩ := e
      subst e
      exact hle

theorem SpOk.admitOk {W T : Nat} {ws : List Win} (amt : Nat) (h : SpOk W T ws) : SpOk W T (admitWin amt ws) := by
  obtain ⟨hs, hh⟩ := h
  cases ws with
  | nil => exact ⟨rfl, fun _ _ e => by simp [admitWin] at e⟩
  | cons w rest =>
    simp only [admitWin]
    refine ⟨by rw [spacedBy_bump]; exact hs, ?_⟩
    intro w' rest' e
    simp only [List.cons.injEq] at e
    obtain ⟨e, _⟩ := e
    subst e
    exact hh w rest rfl

theorem SpOk.refundOk {W T : Nat} {ws : List Win} (amt : Nat) (h : SpOk W T ws) : SpOk W T (refundWin amt ws) := by
  obtain ⟨hs, hh⟩ := h
  cases ws with
  | nil => exact ⟨rfl, fun _ _ e => by simp [refundWin] at e⟩
  | cons w rest =>
    simp only [refundWin]
    refine ⟨by rw [spacedBy_bump]; exact hs, ?_⟩
    intro w' rest' e
    simp only [List.cons.injEq] at e
    obtain ⟨e, _⟩ := e
    subst e
    exact hh w rest rfl

/-! ### Level layer: logs whose `Inc` instants never decrease -/

/-- Every `Inc` event of the log happened at an instant ≤ `T`. -/
def boundedBy (T : Nat) (log : List LEv) : Prop :=
  ∀ k r t cost res, LEv.inc k r t cost res ∈ log → t ≤ T

/-- Most-recent-first log whose `Inc` instants never decrease with time. -/
def sortedLog : List LEv → Prop
  | [] => True
  | e :: older => sortedLog older ∧ ∀ k r t cost res, e = LEv.inc k r t cost res → boundedBy t older

theorem tally_spaced (win : Nat) (k : Key) (hw : win % nsPerSec = 0) :
    ∀ (log : List LEv) (T : Nat), sortedLog log → boundedBy T log →
      SpOk (win / nsPerSec) T (tally win k log) := by
  intro log
  induction log with
  | nil => intro T _ _; exact SpOk.nil _ _
  | cons e older ih =>
    intro T hs hb
    have hbo : boundedBy T older := fun k r t cost res h => hb k r t cost res (by simp [h])
    by_cases hat : LEv.at k e = true
    · rw [tally_cons_at _ _ _ _ hat]
      cases e with
      | inc k' r t cost res =>
        have ht : t ≤ T := hb k' r t cost res (by simp)
        have hbt : boundedBy t older := hs.2 k' r t cost res rfl
        cases res with
        | increased =>
          simp only [tallyStep]
          exact (SpOk.charge cost hw (ih t hs.1 hbt)).mono ht
        | already => simpa [tallyStep] using ih T hs.1 hbo
        | blocked => simpa [tallyStep] using ih T hs.1 hbo
      | allowed k' r b amt =>
        cases b with
        | true => simpa [tallyStep] using (ih T hs.1 hbo).admitOk amt
        | false => simpa [tallyStep] using ih T hs.1 hbo
      | dec k' r => simpa [tallyStep] using ih T hs.1 hbo
      | refund k' r b amt =>
        cases b with
        | true => simpa [tallyStep] using (ih T hs.1 hbo).refundOk amt
        | false => simpa [tallyStep] using ih T hs.1 hbo
      | verdict tid r q b => simp [LEv.at] at hat
    · have hat' : LEv.at k e = false := by simpa using hat
      rw [tally_cons_other _ _ _ _ hat']
      exact ih T hs.1 hbo

/-- Every `Inc` event logged by a thread step carries the current clock reading. -/
theorem stepThread_times (cfg : Cfg) (st : St) (now tid : Nat) (th : Thread) :
    ∀ k r t cost res, LEv.inc k r t cost res ∈ (stepThread cfg st now tid th).2.2 → t = now := by
  intro k r t cost res
  unfold stepThread
  cases hpc : th.pc with
  | done v => simp
  | inc todo charged thenA =>
    cases todo with
    | nil => simp
    | cons ac rest =>
      obtain ⟨a, c⟩ := ac
      dsimp only
      intro h
      simp only [List.mem_singleton, LEv.inc.injEq] at h
      exact h.2.2.1
  | refund todo thenA =>
    cases todo with
    | nil => simp
    | cons ac rest => obtain ⟨a, c⟩ := ac; simp
  | allowed todo =>
    cases todo with
    | nil => simp
    | cons ac rest =>
      obtain ⟨a, c⟩ := ac
      dsimp only
      split
      · split <;> simp
      · simp
  | dec todo =>
    cases todo with
    | nil => simp
    | cons ac rest => obtain ⟨a, c⟩ := ac; simp

theorem sortedLog_append (evs log : List LEv) (now : Nat)
    (hev : ∀ k r t cost res, LEv.inc k r t cost res ∈ evs → t = now)
    (hs : sortedLog log) (hb : boundedBy now log) :
    sortedLog (evs ++ log) ∧ boundedBy now (evs ++ log) := by
  induction evs with
  | nil => exact ⟨hs, hb⟩
  | cons e evs ih =>
    have ih' := ih (fun k r t cost res h => hev k r t cost res (by simp [h]))
    refine ⟨⟨ih'.1, ?_⟩, ?_⟩
    · intro k r t cost res he
      have : t = now := hev k r t cost res (by simp [he])
      subst this
      exact ih'.2
    · intro k r t cost res h
      simp only [List.cons_append, List.mem_cons] at h
      rcases h with h | h
      · have : t = now := hev k r t cost res (by simp [h])
        omega
      · exact ih'.2 k r t cost res h

theorem run_sorted (cfg : Cfg) (acts : List Act) : ∀ (s : Sys), sortedLog s.log → boundedBy s.now s.log →
    sortedLog (Sys.run cfg s acts).log ∧ boundedBy (Sys.run cfg s acts).now (Sys.run cfg s acts).log := by
  induction acts with
  | nil => intro s h1 h2; exact ⟨h1, h2⟩
  | cons a acts ih =>
    intro s h1 h2
    apply ih
    · cases a with
      | spawn kind q r h => exact h1
      | tick d => exact h1
      | step tid =>
        simp only [Sys.act]
        cases hth : s.threads[tid]? with
        | none => exact h1
        | some th => exact (sortedLog_append _ _ _ (stepThread_times cfg s.st s.now tid th) h1 h2).1
    · cases a with
      | spawn kind q r h => exact h2
      | tick d => exact fun k r t cost res h => Nat.le_trans (h2 k r t cost res h) (Nat.le_add_right _ _)
      | step tid =>
        simp only [Sys.act]
        cases hth : s.threads[tid]? with
        | none => exact h2
        | some th => exact (sortedLog_append _ _ _ (stepThread_times cfg s.st s.now tid th) h1 h2).2

end LunarVerif.C01
