import LunarVerif.Spec.C11
/-! Helper lemmas for C11: association-list maps, the vacuum queue, and the invariant tying the
accessor state to the observable history. -/
namespace LunarVerif.C11

/-! ### maps -/

theorem mfind_eraseAll {α : Type} (ks : List Nat) (m : List (Nat × α)) (k : Nat) :
    mfind k (eraseAll ks m) = if k ∈ ks then none else mfind k m := by
  induction m with
  | nil => simp [eraseAll, mfind]
  | cons p m ih =>
    obtain ⟨k', v⟩ := p
    unfold eraseAll at ih ⊢
    by_cases hk' : k' ∈ ks
    · have : (!ks.contains k') = false := by simp [hk']
      rw [List.filter_cons_of_neg (by simpa using hk')]
      rw [ih]
      by_cases hk : k ∈ ks
      · simp [hk]
      · have : k' ≠ k := fun h => hk (h ▸ hk')
        simp [hk, mfind, this]
    · rw [List.filter_cons_of_pos (by simpa using hk')]
      by_cases hkk : k' = k
      · subst hkk; simp [mfind, hk']
      · simp only [mfind, hkk, if_false]; exact ih

theorem mfind_minsert_same {α : Type} (k : Nat) (v : α) (m : List (Nat × α)) :
    mfind k (minsert k v m) = some v := by
  simp [minsert, mfind]

theorem mfind_minsert_ne {α : Type} (k k' : Nat) (v : α) (m : List (Nat × α)) (h : k' ≠ k) :
    mfind k' (minsert k v m) = mfind k' m := by
  have h2 : k ≠ k' := fun e => h e.symm
  simp [minsert, mfind, h2, mfind_eraseAll, h]

/-! ### the vacuum queue -/

theorem dropExpired_suffix (now : Nat) (q : List (Nat × Nat)) : dropExpired now q <:+ q := by
  induction q with
  | nil => simp [dropExpired]
  | cons p q ih =>
    obtain ⟨t, k⟩ := p
    unfold dropExpired
    by_cases h : t < now
    · simp only [h, if_true]; exact List.IsSuffix.trans ih (List.suffix_cons _ _)
    · simp only [h, if_false]; exact List.suffix_refl _

theorem mem_of_mem_dropExpired {now : Nat} {q : List (Nat × Nat)} {p : Nat × Nat}
    (h : p ∈ dropExpired now q) : p ∈ q :=
  (dropExpired_suffix now q).subset h

theorem mem_split (now : Nat) (q : List (Nat × Nat)) (p : Nat × Nat) (h : p ∈ q) :
    p ∈ dropExpired now q ∨ (p.1 < now ∧ p.2 ∈ expiredKeys now q) := by
  induction q with
  | nil => simp at h
  | cons a q ih =>
    obtain ⟨t, k⟩ := a
    unfold dropExpired expiredKeys
    by_cases ht : t < now
    · simp only [ht, if_true]
      rcases List.mem_cons.mp h with rfl | h'
      · right; exact ⟨ht, List.mem_cons_self⟩
      · rcases ih h' with h1 | ⟨h1, h2⟩
        · left; exact h1
        · right; exact ⟨h1, List.mem_cons_of_mem _ h2⟩
    · simp only [ht, if_false]; left; exact h

theorem expiredKeys_mem (now : Nat) (q : List (Nat × Nat)) (k : Nat) (h : k ∈ expiredKeys now q) :
    ∃ t, (t, k) ∈ q ∧ t < now := by
  induction q with
  | nil => simp [expiredKeys] at h
  | cons a q ih =>
    obtain ⟨t, k'⟩ := a
    unfold expiredKeys at h
    by_cases ht : t < now
    · simp only [ht, if_true] at h
      rcases List.mem_cons.mp h with rfl | h'
      · exact ⟨t, List.mem_cons_self, ht⟩
      · obtain ⟨t', h1, h2⟩ := ih h'
        exact ⟨t', List.mem_cons_of_mem _ h1, h2⟩
    · simp [ht] at h

theorem key_unique (q : List (Nat × Nat)) (hnd : (q.map (·.2)).Nodup) (a b k : Nat)
    (ha : (a, k) ∈ q) (hb : (b, k) ∈ q) : a = b := by
  induction q with
  | nil => simp at ha
  | cons p q ih =>
    simp only [List.map_cons, List.nodup_cons] at hnd
    rcases List.mem_cons.mp ha with ha | ha <;> rcases List.mem_cons.mp hb with hb | hb
    · rw [← ha] at hb; exact (Prod.mk.inj hb).1.symm
    · exfalso; apply hnd.1; rw [← ha]; exact List.mem_map.mpr ⟨_, hb, rfl⟩
    · exfalso; apply hnd.1; rw [← hb]; exact List.mem_map.mpr ⟨_, ha, rfl⟩
    · exact ih hnd.2 ha hb

theorem kept_not_expired (now : Nat) (q : List (Nat × Nat)) (hnd : (q.map (·.2)).Nodup)
    (p : Nat × Nat) (h : p ∈ dropExpired now q) : p.2 ∉ expiredKeys now q := by
  induction q with
  | nil => simp [dropExpired] at h
  | cons a q ih =>
    obtain ⟨t, k⟩ := a
    unfold dropExpired at h
    unfold expiredKeys
    simp only [List.map_cons, List.nodup_cons] at hnd
    by_cases ht : t < now
    · simp only [ht, if_true] at h ⊢
      intro hmem
      rcases List.mem_cons.mp hmem with heq | hmem'
      · apply hnd.1
        rw [← heq]
        exact List.mem_map.mpr ⟨p, mem_of_mem_dropExpired h, rfl⟩
      · exact ih hnd.2 h hmem'
    · simp [ht]

/-- An entry that is not expired is not deleted (keys are unique in the queue). -/
theorem unexpired_not_deleted (now : Nat) (q : List (Nat × Nat)) (hnd : (q.map (·.2)).Nodup)
    (t k : Nat) (hm : (t, k) ∈ q) (ht : now ≤ t) : k ∉ expiredKeys now q ∧ (t, k) ∈ dropExpired now q := by
  rcases mem_split now q (t, k) hm with h | ⟨h, _⟩
  · exact ⟨kept_not_expired now q hnd (t, k) h, h⟩
  · simp only at h; omega

/-! ### history functions -/

theorem firstLookup_update (t : Nat) (d : Nat) (h : List Ev) (x : Nat) :
    firstLookup (.update t d :: h) x = firstLookup h x := by
  simp only [firstLookup]
  cases firstLookup h x <;> rfl

theorem firstLookup_lookup_some (t : Nat) (y : Nat) (r : Option Nat) (h : List Ev) (x : Nat)
    (p : Nat × Option Nat) (hp : firstLookup h x = some p) :
    firstLookup (.lookup t y r :: h) x = some p := by
  simp only [firstLookup, hp]

theorem firstLookup_lookup_none (t : Nat) (y : Nat) (r : Option Nat) (h : List Ev) (x : Nat)
    (hp : firstLookup h x = none) :
    firstLookup (.lookup t y r :: h) x = if y = x then some (t, r) else none := by
  simp only [firstLookup, hp]

/-! ### the invariant -/

/-- Invariant between the accessor state and the history so far (most recent first). -/
structure Inv (cfg : Cfg) (s : St) (h : List Ev) : Prop where
  curData : mfind s.cur s.versions = some (curData cfg.d0 h)
  verLe : ∀ v d, mfind v s.versions = some d → v ≤ s.cur
  verQlt : ∀ p ∈ s.verQ, p.2 < s.cur
  verQnd : (s.verQ.map (·.2)).Nodup
  verQin : ∀ p ∈ s.verQ, ∃ d, mfind p.2 s.versions = some d
  pinQnd : (s.pinQ.map (·.2)).Nodup
  pinQle : ∀ p ∈ s.pinQ, p.1 ≤ s.now + cfg.pinTTL
  pinQin : ∀ p ∈ s.pinQ, ∃ v, mfind p.2 s.pins = some v
  pinOk : ∀ x v, mfind x s.pins = some v →
    ∃ e, (e, x) ∈ s.pinQ ∧ (v = s.cur ∨ (∃ te, (te, v) ∈ s.verQ ∧ e ≤ te) ∨ e < s.now)
  pinHist : ∀ x v, mfind x s.pins = some v → ∃ p, firstLookup h x = some p
  hist : ∀ x t1 r1, firstLookup h x = some (t1, r1) → s.now ≤ t1 + cfg.pinTTL →
    (t1 + cfg.pinTTL, x) ∈ s.pinQ ∧
      ∃ v d, mfind x s.pins = some v ∧ mfind v s.versions = some d ∧ r1 = some d

theorem inv_init (cfg : Cfg) (t0 : Nat) : Inv cfg (init cfg t0) [] := by
  constructor <;> simp [init, mfind, LunarVerif.C11.curData, firstLookup]

/-- Every version a queue entry or the current version refers to is present; in particular a lookup
    never yields the empty policies. -/
theorem getData_isSome (cfg : Cfg) (s : St) (h : List Ev) (hinv : Inv cfg s h) (v : Nat) :
    ∃ d, getData s v = some d := by
  unfold getData
  cases hv : mfind v s.versions with
  | some d => exact ⟨d, rfl⟩
  | none => exact ⟨_, hinv.curData⟩

theorem inv_advance (cfg : Cfg) (s : St) (h : List Ev) (hinv : Inv cfg s h) (d : Nat) :
    Inv cfg (step cfg s (.advance d)).1 h := by
  obtain ⟨h1, h2, h3, h4, h5, h6, h7, h8, h9, h10, h11⟩ := hinv
  refine ⟨h1, h2, h3, h4, h5, h6, ?_, h8, ?_, h10, ?_⟩
  · intro p hp
    have := h7 p hp
    simp only [step]; omega
  · intro x v hx
    obtain ⟨e, he, hc⟩ := h9 x v hx
    refine ⟨e, he, ?_⟩
    rcases hc with a | b | c
    · exact Or.inl a
    · exact Or.inr (Or.inl b)
    · right; right; simp only [step]; omega
  · intro x t1 r1 hf hle
    exact h11 x t1 r1 hf (by simp only [step] at hle; omega)

theorem inv_vacPins (cfg : Cfg) (s : St) (h : List Ev) (hinv : Inv cfg s h) :
    Inv cfg (step cfg s .vacPins).1 h := by
  obtain ⟨h1, h2, h3, h4, h5, h6, h7, h8, h9, h10, h11⟩ := hinv
  have hfind : ∀ x v, mfind x (eraseAll (expiredKeys s.now s.pinQ) s.pins) = some v →
      x ∉ expiredKeys s.now s.pinQ ∧ mfind x s.pins = some v := by
    intro x v hx
    rw [mfind_eraseAll] at hx
    by_cases hm : x ∈ expiredKeys s.now s.pinQ
    · simp [hm] at hx
    · simp only [hm, if_false] at hx; exact ⟨hm, hx⟩
  refine ⟨h1, h2, h3, h4, h5, ?_, ?_, ?_, ?_, ?_, ?_⟩
  · exact List.Nodup.sublist ((dropExpired_suffix s.now s.pinQ).sublist.map _) h6
  · intro p hp
    exact h7 p (mem_of_mem_dropExpired hp)
  · intro p hp
    obtain ⟨v, hv⟩ := h8 p (mem_of_mem_dropExpired hp)
    refine ⟨v, ?_⟩
    show mfind p.2 (eraseAll (expiredKeys s.now s.pinQ) s.pins) = some v
    rw [mfind_eraseAll]
    simp only [kept_not_expired s.now s.pinQ h6 p hp, if_false]; exact hv
  · intro x v hx
    obtain ⟨hne, hx'⟩ := hfind x v hx
    obtain ⟨e, he, hc⟩ := h9 x v hx'
    refine ⟨e, ?_, hc⟩
    rcases mem_split s.now s.pinQ (e, x) he with hk | ⟨_, hk⟩
    · exact hk
    · exact absurd hk hne
  · intro x v hx
    exact h10 x v (hfind x v hx).2
  · intro x t1 r1 hf hle
    obtain ⟨he, v, d, hx, hv, hr⟩ := h11 x t1 r1 hf hle
    obtain ⟨hne, hkeep⟩ := unexpired_not_deleted s.now s.pinQ h6 _ _ he hle
    refine ⟨hkeep, v, d, ?_, hv, hr⟩
    show mfind x (eraseAll (expiredKeys s.now s.pinQ) s.pins) = some v
    rw [mfind_eraseAll]; simp only [hne, if_false]; exact hx

theorem cur_not_expired (cfg : Cfg) (s : St) (h : List Ev) (hinv : Inv cfg s h) :
    s.cur ∉ expiredKeys s.now s.verQ := by
  intro hm
  obtain ⟨t, ht, _⟩ := expiredKeys_mem _ _ _ hm
  have := hinv.verQlt _ ht
  simp at this

theorem inv_vacVers (cfg : Cfg) (s : St) (h : List Ev) (hinv : Inv cfg s h) :
    Inv cfg (step cfg s .vacVers).1 h := by
  have hcur := cur_not_expired cfg s h hinv
  obtain ⟨h1, h2, h3, h4, h5, h6, h7, h8, h9, h10, h11⟩ := hinv
  have hkeep : ∀ v d, v ∉ expiredKeys s.now s.verQ → mfind v s.versions = some d →
      mfind v (eraseAll (expiredKeys s.now s.verQ) s.versions) = some d := by
    intro v d hne hv
    rw [mfind_eraseAll]; simp only [hne, if_false]; exact hv
  refine ⟨?_, ?_, ?_, ?_, ?_, h6, h7, h8, ?_, h10, ?_⟩
  · exact hkeep _ _ hcur h1
  · intro v d hv
    have hv' : mfind v (eraseAll (expiredKeys s.now s.verQ) s.versions) = some d := hv
    rw [mfind_eraseAll] at hv'
    by_cases hm : v ∈ expiredKeys s.now s.verQ
    · simp [hm] at hv'
    · simp only [hm, if_false] at hv'; exact h2 v d hv'
  · intro p hp
    exact h3 p (mem_of_mem_dropExpired hp)
  · exact List.Nodup.sublist ((dropExpired_suffix s.now s.verQ).sublist.map _) h4
  · intro p hp
    obtain ⟨d, hd⟩ := h5 p (mem_of_mem_dropExpired hp)
    exact ⟨d, hkeep _ _ (kept_not_expired s.now s.verQ h4 p hp) hd⟩
  · intro x v hx
    obtain ⟨e, he, hc⟩ := h9 x v hx
    refine ⟨e, he, ?_⟩
    rcases hc with a | ⟨te, hte, hle⟩ | c
    · exact Or.inl a
    · rcases mem_split s.now s.verQ (te, v) hte with hk | ⟨hlt, _⟩
      · exact Or.inr (Or.inl ⟨te, hk, hle⟩)
      · right; right
        show e < s.now
        simp only at hlt; omega
    · exact Or.inr (Or.inr c)
  · intro x t1 r1 hf hle
    obtain ⟨he, v, d, hx, hv, hr⟩ := h11 x t1 r1 hf hle
    refine ⟨he, v, d, hx, ?_, hr⟩
    apply hkeep _ _ _ hv
    obtain ⟨e, he', hc⟩ := h9 x v hx
    have hee : e = t1 + cfg.pinTTL := key_unique s.pinQ h6 _ _ x he' he
    have hle' : s.now ≤ t1 + cfg.pinTTL := hle
    rcases hc with a | ⟨te, hte, hle2⟩ | c
    · rw [a]; exact hcur
    · exact (unexpired_not_deleted s.now s.verQ h4 te v hte (by omega)).1
    · omega

theorem inv_update (cfg : Cfg) (hT : cfg.pinTTL ≤ cfg.verTTL) (s : St) (h : List Ev)
    (hinv : Inv cfg s h) (d : Nat) :
    Inv cfg (step cfg s (.update d true)).1 (.update s.now d :: h) := by
  obtain ⟨h1, h2, h3, h4, h5, h6, h7, h8, h9, h10, h11⟩ := hinv
  have hold : ∀ v d', mfind v s.versions = some d' →
      mfind v (minsert (s.cur + 1) d s.versions) = some d' := by
    intro v d' hv
    have := h2 v d' hv
    rw [mfind_minsert_ne _ _ _ _ (by omega)]; exact hv
  refine ⟨?_, ?_, ?_, ?_, ?_, h6, h7, h8, ?_, ?_, ?_⟩
  · show mfind (s.cur + 1) (minsert (s.cur + 1) d s.versions) = some (LunarVerif.C11.curData cfg.d0 (.update s.now d :: h))
    rw [mfind_minsert_same]; rfl
  · intro v d' hv
    show v ≤ s.cur + 1
    by_cases hv1 : v = s.cur + 1
    · omega
    · have hv' : mfind v (minsert (s.cur + 1) d s.versions) = some d' := hv
      rw [mfind_minsert_ne _ _ _ _ hv1] at hv'
      have := h2 v d' hv'; omega
  · intro p hp
    show p.2 < s.cur + 1
    have hp' : p ∈ s.verQ ++ [(s.now + cfg.verTTL, s.cur)] := hp
    rcases List.mem_append.mp hp' with hp' | hp'
    · have := h3 p hp'; omega
    · simp only [List.mem_singleton] at hp'; subst hp'; simp
  · show ((s.verQ ++ [(s.now + cfg.verTTL, s.cur)]).map (·.2)).Nodup
    rw [List.map_append, List.nodup_append]
    refine ⟨h4, by simp, ?_⟩
    intro a ha b hb
    simp only [List.map_cons, List.map_nil, List.mem_singleton] at hb
    subst hb
    obtain ⟨p, hp, rfl⟩ := List.mem_map.mp ha
    have := h3 p hp
    omega
  · intro p hp
    have hp' : p ∈ s.verQ ++ [(s.now + cfg.verTTL, s.cur)] := hp
    rcases List.mem_append.mp hp' with hp' | hp'
    · obtain ⟨d', hd'⟩ := h5 p hp'
      exact ⟨d', hold _ _ hd'⟩
    · simp only [List.mem_singleton] at hp'; subst hp'
      exact ⟨_, hold _ _ h1⟩
  · intro x v hx
    obtain ⟨e, he, hc⟩ := h9 x v hx
    refine ⟨e, he, ?_⟩
    rcases hc with a | ⟨te, hte, hle⟩ | c
    · right; left
      refine ⟨s.now + cfg.verTTL, ?_, ?_⟩
      · show (s.now + cfg.verTTL, v) ∈ s.verQ ++ [(s.now + cfg.verTTL, s.cur)]
        rw [a]; simp
      · have := h7 _ he
        simp only at this; omega
    · right; left
      exact ⟨te, List.mem_append_left _ hte, hle⟩
    · exact Or.inr (Or.inr c)
  · intro x v hx
    rw [firstLookup_update]; exact h10 x v hx
  · intro x t1 r1 hf hle
    rw [firstLookup_update] at hf
    obtain ⟨he, v, d', hx, hv, hr⟩ := h11 x t1 r1 hf hle
    exact ⟨he, v, d', hx, hold _ _ hv, hr⟩

theorem inv_update_fail (cfg : Cfg) (s : St) (h : List Ev) (hinv : Inv cfg s h) (d : Nat) :
    Inv cfg (step cfg s (.update d false)).1 h := hinv

theorem step_lookup_found (cfg : Cfg) (s : St) (x v : Nat) (hx : mfind x s.pins = some v) :
    step cfg s (.lookup x) = (s, some (.lookup s.now x (getData s v))) := by
  simp only [step, hx]

theorem step_lookup_fresh (cfg : Cfg) (s : St) (x : Nat) (hx : mfind x s.pins = none) :
    step cfg s (.lookup x) =
      ({ s with pins := minsert x s.cur s.pins, pinQ := s.pinQ ++ [(s.now + cfg.pinTTL, x)] },
       some (.lookup s.now x (mfind s.cur s.versions))) := by
  simp only [step, hx, getData]
  cases mfind s.cur s.versions <;> rfl

theorem inv_lookup_found (cfg : Cfg) (s : St) (h : List Ev) (hinv : Inv cfg s h) (x v : Nat)
    (hx : mfind x s.pins = some v) :
    Inv cfg s (.lookup s.now x (getData s v) :: h) ∧
      eventOk cfg.pinTTL cfg.d0 (.lookup s.now x (getData s v)) h = true := by
  obtain ⟨d, hd⟩ := getData_isSome cfg s h hinv v
  obtain ⟨h1, h2, h3, h4, h5, h6, h7, h8, h9, h10, h11⟩ := hinv
  obtain ⟨p, hp⟩ := h10 x v hx
  constructor
  · refine ⟨h1, h2, h3, h4, h5, h6, h7, h8, h9, ?_, ?_⟩
    · intro x' v' hx'
      obtain ⟨p', hp'⟩ := h10 x' v' hx'
      exact ⟨p', firstLookup_lookup_some _ _ _ _ _ _ hp'⟩
    · intro x' t1 r1 hf hle
      cases hf' : firstLookup h x' with
      | some p' =>
        rw [firstLookup_lookup_some _ _ _ _ _ _ hf'] at hf
        exact h11 x' t1 r1 (hf' ▸ hf) hle
      | none =>
        rw [firstLookup_lookup_none _ _ _ _ _ hf'] at hf
        by_cases hxx : x = x'
        · subst hxx; rw [hp] at hf'; cases hf'
        · simp [hxx] at hf
  · obtain ⟨t1, r1⟩ := p
    simp only [eventOk, hp, hd, Option.isSome_some, Bool.true_and, Bool.or_eq_true,
      Bool.not_eq_true', decide_eq_false_iff_not, beq_iff_eq]
    by_cases hle : s.now ≤ t1 + cfg.pinTTL
    · right
      obtain ⟨_, v', d', hx', hv', hr⟩ := h11 x t1 r1 hp hle
      rw [hx] at hx'; cases hx'
      rw [hr, ← hd]; simp [getData, hv']
    · left; exact hle

theorem inv_lookup_fresh (cfg : Cfg) (s : St) (h : List Ev) (hinv : Inv cfg s h) (x : Nat)
    (hx : mfind x s.pins = none) :
    Inv cfg { s with pins := minsert x s.cur s.pins, pinQ := s.pinQ ++ [(s.now + cfg.pinTTL, x)] }
        (.lookup s.now x (mfind s.cur s.versions) :: h) ∧
      eventOk cfg.pinTTL cfg.d0 (.lookup s.now x (mfind s.cur s.versions)) h = true := by
  obtain ⟨h1, h2, h3, h4, h5, h6, h7, h8, h9, h10, h11⟩ := hinv
  have hnotin : ∀ e, (e, x) ∉ s.pinQ := by
    intro e he
    obtain ⟨v, hv⟩ := h8 _ he
    simp only at hv; rw [hx] at hv; cases hv
  have hother : ∀ x' v', mfind x' s.pins = some v' → x' ≠ x ∧ mfind x' (minsert x s.cur s.pins) = some v' := by
    intro x' v' hx'
    have hne : x' ≠ x := by intro e; subst e; rw [hx] at hx'; cases hx'
    exact ⟨hne, by rw [mfind_minsert_ne _ _ _ _ hne]; exact hx'⟩
  constructor
  · refine ⟨h1, h2, h3, h4, h5, ?_, ?_, ?_, ?_, ?_, ?_⟩
    · show ((s.pinQ ++ [(s.now + cfg.pinTTL, x)]).map (·.2)).Nodup
      rw [List.map_append, List.nodup_append]
      refine ⟨h6, by simp, ?_⟩
      intro a ha b hb
      simp only [List.map_cons, List.map_nil, List.mem_singleton] at hb
      subst hb
      obtain ⟨p, hp, rfl⟩ := List.mem_map.mp ha
      intro heq
      exact hnotin p.1 (by rw [← heq]; exact hp)
    · intro p hp
      have hp' : p ∈ s.pinQ ++ [(s.now + cfg.pinTTL, x)] := hp
      rcases List.mem_append.mp hp' with hp' | hp'
      · exact h7 p hp'
      · simp only [List.mem_singleton] at hp'; subst hp'; exact Nat.le_refl _
    · intro p hp
      have hp' : p ∈ s.pinQ ++ [(s.now + cfg.pinTTL, x)] := hp
      rcases List.mem_append.mp hp' with hp' | hp'
      · obtain ⟨v, hv⟩ := h8 p hp'
        exact ⟨v, (hother _ _ hv).2⟩
      · simp only [List.mem_singleton] at hp'; subst hp'
        exact ⟨s.cur, mfind_minsert_same _ _ _⟩
    · intro x' v' hx'
      have hx'' : mfind x' (minsert x s.cur s.pins) = some v' := hx'
      by_cases hxx : x' = x
      · subst hxx
        rw [mfind_minsert_same] at hx''
        cases hx''
        exact ⟨s.now + cfg.pinTTL, List.mem_append_right _ (List.mem_singleton.mpr rfl), Or.inl rfl⟩
      · rw [mfind_minsert_ne _ _ _ _ hxx] at hx''
        obtain ⟨e, he, hc⟩ := h9 x' v' hx''
        exact ⟨e, List.mem_append_left _ he, hc⟩
    · intro x' v' hx'
      have hx'' : mfind x' (minsert x s.cur s.pins) = some v' := hx'
      cases hf : firstLookup h x' with
      | some p => exact ⟨p, firstLookup_lookup_some _ _ _ _ _ _ hf⟩
      | none =>
        by_cases hxx : x' = x
        · subst hxx
          exact ⟨(s.now, mfind s.cur s.versions), by rw [firstLookup_lookup_none _ _ _ _ _ hf]; simp⟩
        · rw [mfind_minsert_ne _ _ _ _ hxx] at hx''
          obtain ⟨p, hp⟩ := h10 x' v' hx''
          rw [hp] at hf; cases hf
    · intro x' t1 r1 hf hle
      have hle' : s.now ≤ t1 + cfg.pinTTL := hle
      cases hf' : firstLookup h x' with
      | some p' =>
        rw [firstLookup_lookup_some _ _ _ _ _ _ hf'] at hf
        obtain ⟨he, v, d, hxv, hv, hr⟩ := h11 x' t1 r1 (hf' ▸ hf) hle'
        exact ⟨List.mem_append_left _ he, v, d, (hother _ _ hxv).2, hv, hr⟩
      | none =>
        rw [firstLookup_lookup_none _ _ _ _ _ hf'] at hf
        by_cases hxx : x = x'
        · subst hxx
          simp only [if_true, Option.some.injEq, Prod.mk.injEq] at hf
          obtain ⟨ht, hr⟩ := hf
          subst ht
          refine ⟨List.mem_append_right _ (List.mem_singleton.mpr rfl), s.cur, _, mfind_minsert_same _ _ _, h1, ?_⟩
          rw [← hr]; exact h1
        · simp [hxx] at hf
  · cases hf : firstLookup h x with
    | none => simp [eventOk, hf, h1]
    | some p =>
      obtain ⟨t1, r1⟩ := p
      simp only [eventOk, hf, h1, Option.isSome_some, Bool.true_and, Bool.or_eq_true,
        Bool.not_eq_true', decide_eq_false_iff_not, beq_iff_eq]
      left
      intro hle
      obtain ⟨_, v, _, hxv, _⟩ := h11 x t1 r1 hf hle
      rw [hx] at hxv; cases hxv

/-- One primitive step preserves the invariant, and the event it emits (if any) satisfies the Spec. -/
theorem step_inv (cfg : Cfg) (hT : cfg.pinTTL ≤ cfg.verTTL) (s : St) (h : List Ev)
    (hinv : Inv cfg s h) (o : Op) :
    match (step cfg s o).2 with
    | some e => Inv cfg (step cfg s o).1 (e :: h) ∧ eventOk cfg.pinTTL cfg.d0 e h = true
    | none => Inv cfg (step cfg s o).1 h := by
  cases o with
  | lookup x =>
    cases hx : mfind x s.pins with
    | some v =>
      rw [step_lookup_found cfg s x v hx]
      exact inv_lookup_found cfg s h hinv x v hx
    | none =>
      rw [step_lookup_fresh cfg s x hx]
      exact inv_lookup_fresh cfg s h hinv x hx
  | update d ok =>
    cases ok with
    | true => exact ⟨inv_update cfg hT s h hinv d, rfl⟩
    | false => exact inv_update_fail cfg s h hinv d
  | vacPins => exact inv_vacPins cfg s h hinv
  | vacVers => exact inv_vacVers cfg s h hinv
  | advance d => exact inv_advance cfg s h hinv d

theorem run_cons (cfg : Cfg) (s : St) (o : Op) (os : List Op) :
    run cfg s (o :: os) =
      (match (step cfg s o).2 with | some e => [e] | none => []) ++ run cfg (step cfg s o).1 os := by
  simp only [run]
  cases (step cfg s o).2 <;> rfl

/-- The history of any run satisfies the Spec, and the invariant holds at its end. -/
theorem run_holds (cfg : Cfg) (hT : cfg.pinTTL ≤ cfg.verTTL) (os : List Op) (s : St) (h : List Ev)
    (hinv : Inv cfg s h) (hh : holdsRev cfg.pinTTL cfg.d0 h = true) :
    holdsRev cfg.pinTTL cfg.d0 ((run cfg s os).reverse ++ h) = true ∧
      Inv cfg (runSt cfg s os) ((run cfg s os).reverse ++ h) := by
  induction os generalizing s h with
  | nil => exact ⟨by simpa [run] using hh, by simpa [run, runSt] using hinv⟩
  | cons o os ih =>
    have hs := step_inv cfg hT s h hinv o
    rw [run_cons]
    simp only [runSt]
    cases he : (step cfg s o).2 with
    | none =>
      rw [he] at hs
      simpa using ih (step cfg s o).1 h hs hh
    | some e =>
      rw [he] at hs
      have := ih (step cfg s o).1 (e :: h) hs.1 (by simp [holdsRev, hs.2, hh])
      simpa using this

/-! ### lemmas for reading the Spec -/

theorem holdsRev_append_right (ttl d0 : Nat) (a b : List Ev) (h : holdsRev ttl d0 (a ++ b) = true) :
    holdsRev ttl d0 b = true := by
  induction a with
  | nil => simpa using h
  | cons e a ih =>
    simp only [List.cons_append, holdsRev, Bool.and_eq_true] at h
    exact ih h.2

theorem holdsRev_head (ttl d0 : Nat) (e : Ev) (older : List Ev) (h : holdsRev ttl d0 (e :: older) = true) :
    eventOk ttl d0 e older = true := by
  simp only [holdsRev, Bool.and_eq_true] at h
  exact h.1

theorem firstLookup_append (a b : List Ev) (x : Nat) :
    firstLookup (a ++ b) x = match firstLookup b x with
      | some p => some p
      | none => firstLookup a x := by
  induction a with
  | nil => simp only [List.nil_append, firstLookup]; cases firstLookup b x <;> rfl
  | cons e a ih =>
    simp only [List.cons_append, firstLookup, ih]
    cases firstLookup b x <;> rfl

theorem firstLookup_none_of_noLookup (h : List Ev) (x : Nat) (hn : ∀ t r, Ev.lookup t x r ∉ h) :
    firstLookup h x = none := by
  induction h with
  | nil => rfl
  | cons e h ih =>
    have ih' := ih (fun t r hm => hn t r (List.mem_cons_of_mem _ hm))
    simp only [firstLookup, ih']
    cases e with
    | update t d => rfl
    | lookup t y r =>
      by_cases hy : y = x
      · subst hy; exact absurd List.mem_cons_self (hn t r)
      · simp [hy]

theorem curData_append_noUpdate (d0 : Nat) (a b : List Ev) (hn : ∀ t d, Ev.update t d ∉ a) :
    curData d0 (a ++ b) = curData d0 b := by
  induction a with
  | nil => rfl
  | cons e a ih =>
    have ih' := ih (fun t d hm => hn t d (List.mem_cons_of_mem _ hm))
    cases e with
    | update t d => exact absurd List.mem_cons_self (hn t d)
    | lookup t y r => simpa [LunarVerif.C11.curData] using ih'

/-! ### queues stay sorted -/

structure QInv (cfg : Cfg) (s : St) : Prop where
  pinSorted : sortedQ s.pinQ
  pinLe : ∀ p ∈ s.pinQ, p.1 ≤ s.now + cfg.pinTTL
  verSorted : sortedQ s.verQ
  verLe : ∀ p ∈ s.verQ, p.1 ≤ s.now + cfg.verTTL

theorem qinv_init (cfg : Cfg) (t0 : Nat) : QInv cfg (init cfg t0) := by
  constructor <;> simp [init, sortedQ]

theorem sortedQ_snoc (q : List (Nat × Nat)) (b : Nat) (k : Nat) (hs : sortedQ q) (hle : ∀ p ∈ q, p.1 ≤ b) :
    sortedQ (q ++ [(b, k)]) := by
  unfold sortedQ at *
  rw [List.pairwise_append]
  refine ⟨hs, by simp, ?_⟩
  intro a ha c hc
  simp only [List.mem_singleton] at hc
  subst hc
  exact hle a ha

theorem sortedQ_drop (now : Nat) (q : List (Nat × Nat)) (hs : sortedQ q) : sortedQ (dropExpired now q) :=
  List.Pairwise.sublist (dropExpired_suffix now q).sublist hs

theorem qinv_step (cfg : Cfg) (s : St) (hq : QInv cfg s) (o : Op) : QInv cfg (step cfg s o).1 := by
  obtain ⟨q1, q2, q3, q4⟩ := hq
  cases o with
  | lookup x =>
    cases hx : mfind x s.pins with
    | some v => rw [step_lookup_found cfg s x v hx]; exact ⟨q1, q2, q3, q4⟩
    | none =>
      rw [step_lookup_fresh cfg s x hx]
      refine ⟨sortedQ_snoc _ _ _ q1 q2, ?_, q3, q4⟩
      intro p hp
      have hp' : p ∈ s.pinQ ++ [(s.now + cfg.pinTTL, x)] := hp
      rcases List.mem_append.mp hp' with hp' | hp'
      · exact q2 p hp'
      · simp only [List.mem_singleton] at hp'; subst hp'; exact Nat.le_refl _
  | update d ok =>
    cases ok with
    | false => exact ⟨q1, q2, q3, q4⟩
    | true =>
      refine ⟨q1, q2, sortedQ_snoc _ _ _ q3 q4, ?_⟩
      intro p hp
      have hp' : p ∈ s.verQ ++ [(s.now + cfg.verTTL, s.cur)] := hp
      rcases List.mem_append.mp hp' with hp' | hp'
      · exact q4 p hp'
      · simp only [List.mem_singleton] at hp'; subst hp'; exact Nat.le_refl _
  | vacPins =>
    exact ⟨sortedQ_drop _ _ q1, fun p hp => q2 p (mem_of_mem_dropExpired hp), q3, q4⟩
  | vacVers =>
    exact ⟨q1, q2, sortedQ_drop _ _ q3, fun p hp => q4 p (mem_of_mem_dropExpired hp)⟩
  | advance d =>
    refine ⟨q1, ?_, q3, ?_⟩
    · intro p hp; have := q2 p hp; simp only [step]; omega
    · intro p hp; have := q4 p hp; simp only [step]; omega

theorem qinv_run (cfg : Cfg) (os : List Op) (s : St) (hq : QInv cfg s) : QInv cfg (runSt cfg s os) := by
  induction os generalizing s with
  | nil => exact hq
  | cons o os ih => exact ih _ (qinv_step cfg s hq o)

/-- On a sorted queue the "break at the first unexpired entry" loop removes EVERY expired entry. -/
theorem dropExpired_complete (now : Nat) (q : List (Nat × Nat)) (hs : sortedQ q) :
    ∀ p ∈ dropExpired now q, now ≤ p.1 := by
  induction q with
  | nil => simp [dropExpired]
  | cons a q ih =>
    obtain ⟨t, k⟩ := a
    unfold sortedQ at hs
    rw [List.pairwise_cons] at hs
    unfold dropExpired
    by_cases ht : t < now
    · simp only [ht, if_true]; exact ih hs.2
    · simp only [ht, if_false]
      intro p hp
      rcases List.mem_cons.mp hp with rfl | hp'
      · simp only; omega
      · have := hs.1 p hp'; simp only at this; omega

end LunarVerif.C11
