import LunarVerif.Spec.C16
/-!
Helper lemmas for C16 (property statements live in `Properties/C16.lean`).
-/
namespace LunarVerif.C16

/-! ### `Json.beq` decides equality -/

mutual
theorem Json.beq_refl : ∀ v : Json, v.beq v = true
  | .null => by simp [Json.beq]
  | .bool b => by simp [Json.beq]
  | .num l => by simp [Json.beq]
  | .str s => by simp [Json.beq]
  | .arr xs => by simp [Json.beq, beqList_refl xs]
  | .obj kvs => by simp [Json.beq, beqFields_refl kvs]
theorem beqList_refl : ∀ xs : List Json, beqList xs xs = true
  | [] => by simp [beqList]
  | x :: xs => by simp [beqList, Json.beq_refl x, beqList_refl xs]
theorem beqFields_refl : ∀ kvs : List (Str × Json), beqFields kvs kvs = true
  | [] => by simp [beqFields]
  | (k, v) :: r => by simp [beqFields, Json.beq_refl v, beqFields_refl r]
end

mutual
theorem Json.eq_of_beq : ∀ v w : Json, v.beq w = true → v = w
  | .null, w, h => by cases w <;> simp_all [Json.beq]
  | .bool b, w, h => by cases w <;> simp_all [Json.beq]
  | .num l, w, h => by cases w <;> simp_all [Json.beq]
  | .str s, w, h => by cases w <;> simp_all [Json.beq]
  | .arr xs, w, h => by
    cases w with
    | arr ys => simp only [Json.beq] at h; rw [eq_of_beqList xs ys h]
    | _ => simp [Json.beq] at h
  | .obj xs, w, h => by
    cases w with
    | obj ys => simp only [Json.beq] at h; rw [eq_of_beqFields xs ys h]
    | _ => simp [Json.beq] at h
theorem eq_of_beqList : ∀ xs ys : List Json, beqList xs ys = true → xs = ys
  | [], ys, h => by cases ys <;> simp_all [beqList]
  | x :: xs, ys, h => by
    cases ys with
    | nil => simp [beqList] at h
    | cons y ys =>
      simp only [beqList, Bool.and_eq_true] at h
      rw [Json.eq_of_beq x y h.1, eq_of_beqList xs ys h.2]
theorem eq_of_beqFields : ∀ xs ys : List (Str × Json), beqFields xs ys = true → xs = ys
  | [], ys, h => by cases ys <;> simp_all [beqFields]
  | (k, v) :: xs, ys, h => by
    cases ys with
    | nil => simp [beqFields] at h
    | cons y ys =>
      obtain ⟨k', v'⟩ := y
      simp only [beqFields, Bool.and_eq_true, beq_iff_eq] at h
      rw [h.1.1, Json.eq_of_beq v v' h.1.2, eq_of_beqFields xs ys h.2]
end

/-! ### The object loop is the identity without duplicate keys -/

theorem getFirst_append_of_not_mem (k : Str) (pre r : List (Str × Json))
    (h : ∀ kv ∈ pre, kv.1 ≠ k) : getFirst k (pre ++ r) = getFirst k r := by
  induction pre with
  | nil => rfl
  | cons a pre ih =>
    obtain ⟨k', v'⟩ := a
    have hk : k' ≠ k := h (k', v') (by simp)
    simp only [List.cons_append, getFirst, beq_iff_eq, hk, if_false]
    exact ih (fun kv hkv => h kv (by simp [hkv]))

theorem setKV_of_not_mem (k : Str) (v : Json) (pre : List (Str × Json))
    (h : ∀ kv ∈ pre, kv.1 ≠ k) : setKV k v pre = pre ++ [(k, v)] := by
  induction pre with
  | nil => rfl
  | cons a pre ih =>
    obtain ⟨k', v'⟩ := a
    have hk : k' ≠ k := h (k', v') (by simp)
    simp only [setKV, beq_iff_eq, hk, if_false, List.cons_append]
    rw [ih (fun kv hkv => h kv (by simp [hkv]))]

theorem noDup_append_not_mem (pre s : List (Str × Json)) (k : Str) (v : Json)
    (h : noDupKeys (pre ++ (k, v) :: s) = true) : ∀ kv ∈ pre, kv.1 ≠ k := by
  induction pre with
  | nil => intro kv hkv; simp at hkv
  | cons a pre ih =>
    obtain ⟨k', v'⟩ := a
    simp only [List.cons_append, noDupKeys, Bool.and_eq_true, Bool.not_eq_true', List.any_eq_false] at h
    intro kv hkv
    rcases List.mem_cons.mp hkv with rfl | hkv
    · have h1 := h.1 (k, v) (by simp)
      intro heq
      exact h1 (beq_iff_eq.mpr heq.symm)
    · exact ih h.2 kv hkv

theorem collapse_aux (fs : List (Str × Json)) (hnd : noDupKeys fs = true) :
    ∀ (suf pre : List (Str × Json)), fs = pre ++ suf →
      (suf.map (·.1)).foldl (collapseStep fs) pre = pre ++ suf := by
  intro suf
  induction suf with
  | nil => intro pre _; simp
  | cons a s ih =>
    intro pre hfs
    obtain ⟨k, v⟩ := a
    have hnm : ∀ kv ∈ pre, kv.1 ≠ k := noDup_append_not_mem pre s k v (hfs ▸ hnd)
    have hget : getFirst k fs = some v := by
      rw [hfs, getFirst_append_of_not_mem k pre _ hnm]; simp [getFirst]
    simp only [List.map_cons, List.foldl_cons]
    have hstep : collapseStep fs pre k = pre ++ [(k, v)] := by
      simp only [collapseStep, hget]; exact setKV_of_not_mem k v pre hnm
    rw [hstep, ih (pre ++ [(k, v)]) (by simp [hfs])]
    simp

theorem collapse_nodup (fs : List (Str × Json)) (hnd : noDupKeys fs = true) : collapse fs = fs := by
  have := collapse_aux fs hnd fs [] rfl
  simpa [collapse] using this

/-! ### Renderings -/

theorem render_append (p q : List Step) : render (p ++ q) = render p ++ render q := by
  induction p with
  | nil => rfl
  | cons s p ih => simp [render, ih]

theorem render_snoc_elem (p : List Step) (i : Nat) : render (p ++ [.elem i]) = render p ++ ['[', ']'] := by
  simp [render_append, render, Step.render]

theorem render_snoc_key (p : List Step) (k : Str) : render (p ++ [.key k]) = render p ++ '.' :: k := by
  simp [render_append, render, Step.render]

/-- A rendering is empty only for the root, and otherwise starts with `.` or `[`. -/
theorem render_head (p : List Step) :
    (p = [] ∧ render p = []) ∨ (∃ c r, render p = c :: r ∧ (c = '.' ∨ c = '[')) := by
  cases p with
  | nil => left; exact ⟨rfl, rfl⟩
  | cons s p =>
    right
    cases s with
    | key k => exact ⟨'.', k ++ render p, by simp [render, Step.render], Or.inl rfl⟩
    | elem i => exact ⟨'[', ']' :: render p, by simp [render, Step.render], Or.inr rfl⟩

/-! ### Every model run conforms to the conformance predicate taken with the MODEL's own exclusion test -/

theorem obfFields_keys (H : Str → Str) (E : Str → Bool) (cursor : Str) :
    ∀ kvs : List (Str × Json), (obfFieldsWith H E cursor kvs).map (·.1) = kvs.map (·.1)
  | [] => by simp [obfFieldsWith]
  | (k, v) :: r => by simp [obfFieldsWith, obfFields_keys H E cursor r]

theorem noDupKeys_of_keys : ∀ (a b : List (Str × Json)), a.map (·.1) = b.map (·.1) →
    noDupKeys a = noDupKeys b
  | [], b, h => by cases b <;> simp_all [noDupKeys]
  | (k, v) :: a, b, h => by
    cases b with
    | nil => simp at h
    | cons y b =>
      obtain ⟨k', v'⟩ := y
      simp only [List.map_cons, List.cons.injEq] at h
      have hany : (a.any fun kv => kv.1 == k) = (b.any fun kv => kv.1 == k') := by
        have h1 : (a.any fun kv => kv.1 == k) = ((a.map (·.1)).any fun x => x == k) := by
          simp [List.any_map, Function.comp_def]
        have h2 : (b.any fun kv => kv.1 == k') = ((b.map (·.1)).any fun x => x == k') := by
          simp [List.any_map, Function.comp_def]
        rw [h1, h2, h.2, h.1]
      simp only [noDupKeys, hany, noDupKeys_of_keys a b h.2]

mutual
theorem obfWith_conforms (H : Str → Str) (E : Str → Bool) : ∀ (d : Json) (p : List Step), wellFormed d = true →
    conformsWith H E p d (obfWith H E (render p) d) = true
  | .arr xs, p, h => by
    simp only [wellFormed] at h
    simp only [obfWith, conformsWith]
    by_cases he : E (render p) = true
    · simp [he, Json.beq_refl]
    · simp only [he, if_false, Bool.false_eq_true]
      exact obfListWith_conforms H E xs p 0 h
  | .obj kvs, p, h => by
    simp only [wellFormed, Bool.and_eq_true] at h
    simp only [obfWith, conformsWith]
    by_cases he : E (render p) = true
    · simp [he, Json.beq_refl]
    · simp only [he, if_false, Bool.false_eq_true]
      rw [collapse_nodup _ (by
        rw [noDupKeys_of_keys _ kvs (obfFields_keys H E (render p) kvs)]; exact h.1)]
      exact obfFieldsWith_conforms H E kvs p h.2
  | .null, p, _ => by
    simp only [obfWith, conformsWith]
    by_cases he : E (render p) = true <;> simp [he, Json.beq_refl]
  | .bool b, p, _ => by
    simp only [obfWith, conformsWith]
    by_cases he : E (render p) = true <;> simp [he, Json.beq_refl]
  | .num l, p, _ => by
    simp only [obfWith, conformsWith]
    by_cases he : E (render p) = true <;> simp [he, Json.beq_refl]
  | .str s, p, _ => by
    simp only [obfWith, conformsWith]
    by_cases he : E (render p) = true <;> simp [he, Json.beq_refl]
theorem obfListWith_conforms (H : Str → Str) (E : Str → Bool) : ∀ (xs : List Json) (p : List Step) (i : Nat),
    wellFormedList xs = true →
    conformsList H E p i xs (obfListWith H E (render p ++ ['[', ']']) xs) = true
  | [], p, i, _ => by simp [obfListWith, conformsList]
  | x :: xs, p, i, h => by
    simp only [wellFormedList, Bool.and_eq_true] at h
    simp only [obfListWith, conformsList, Bool.and_eq_true]
    have h1 := obfWith_conforms H E x (p ++ [.elem i]) h.1
    rw [render_snoc_elem] at h1
    exact ⟨h1, obfListWith_conforms H E xs p (i + 1) h.2⟩
theorem obfFieldsWith_conforms (H : Str → Str) (E : Str → Bool) : ∀ (kvs : List (Str × Json)) (p : List Step),
    wellFormedFields kvs = true →
    conformsFields H E p kvs (obfFieldsWith H E (render p) kvs) = true
  | [], p, _ => by simp [obfFieldsWith, conformsFields]
  | (k, v) :: r, p, h => by
    simp only [wellFormedFields, Bool.and_eq_true] at h
    simp only [obfFieldsWith, conformsFields, Bool.and_eq_true, beq_self_eq_true, true_and]
    have h1 := obfWith_conforms H E v (p ++ [.key k]) h.1
    rw [render_snoc_key] at h1
    exact ⟨h1, obfFieldsWith_conforms H E r p h.2⟩
end

/-- Every run of the walk as coded conforms w.r.t. its own exclusion test. -/
theorem obf_conforms (H : Str → Str) (ex : List Str) (d : Json) (p : List Step) (h : wellFormed d = true) :
    conformsWith H (modelExcl ex) p d (obf H ex (render p) d) = true :=
  obfWith_conforms H (modelExcl ex) d p h

/-! ### Consequences of conformance (for ANY exclusion predicate) -/

theorem shape_leaf_str (s : Str) : shape (.str s) = .null := by simp [shape]

mutual
theorem conforms_shape (H : Str → Str) (E : Str → Bool) : ∀ (d out : Json) (p : List Step),
    conformsWith H E p d out = true → shape out = shape d
  | .arr xs, out, p, h => by
    simp only [conformsWith] at h
    by_cases he : E (render p) = true
    · simp only [he, if_true] at h; rw [Json.eq_of_beq _ _ h]
    · simp only [he, if_false, Bool.false_eq_true] at h
      cases out with
      | arr ys => simp only [shape]; rw [conformsList_shape H E xs ys p 0 h]
      | _ => simp at h
  | .obj kvs, out, p, h => by
    simp only [conformsWith] at h
    by_cases he : E (render p) = true
    · simp only [he, if_true] at h; rw [Json.eq_of_beq _ _ h]
    · simp only [he, if_false, Bool.false_eq_true] at h
      cases out with
      | obj ovs => simp only [shape]; rw [conformsFields_shape H E kvs ovs p h]
      | _ => simp at h
  | .null, out, p, h => by
    simp only [conformsWith] at h
    by_cases he : E (render p) = true
    · simp only [he, if_true] at h; rw [Json.eq_of_beq _ _ h]
    · simp only [he, if_false, Bool.false_eq_true] at h; rw [Json.eq_of_beq _ _ h]; simp [shape]
  | .bool b, out, p, h => by
    simp only [conformsWith] at h
    by_cases he : E (render p) = true
    · simp only [he, if_true] at h; rw [Json.eq_of_beq _ _ h]
    · simp only [he, if_false, Bool.false_eq_true] at h; rw [Json.eq_of_beq _ _ h]; simp [shape]
  | .num l, out, p, h => by
    simp only [conformsWith] at h
    by_cases he : E (render p) = true
    · simp only [he, if_true] at h; rw [Json.eq_of_beq _ _ h]
    · simp only [he, if_false, Bool.false_eq_true] at h; rw [Json.eq_of_beq _ _ h]; simp [shape]
  | .str s, out, p, h => by
    simp only [conformsWith] at h
    by_cases he : E (render p) = true
    · simp only [he, if_true] at h; rw [Json.eq_of_beq _ _ h]
    · simp only [he, if_false, Bool.false_eq_true] at h; rw [Json.eq_of_beq _ _ h]; simp [shape]
theorem conformsList_shape (H : Str → Str) (E : Str → Bool) : ∀ (xs ys : List Json) (p : List Step) (i : Nat),
    conformsList H E p i xs ys = true → shapeList ys = shapeList xs
  | [], ys, p, i, h => by cases ys <;> simp_all [conformsList, shapeList]
  | x :: xs, ys, p, i, h => by
    cases ys with
    | nil => simp [conformsList] at h
    | cons y ys =>
      simp only [conformsList, Bool.and_eq_true] at h
      simp only [shapeList]
      rw [conforms_shape H E x y _ h.1, conformsList_shape H E xs ys p (i + 1) h.2]
theorem conformsFields_shape (H : Str → Str) (E : Str → Bool) : ∀ (kvs ovs : List (Str × Json)) (p : List Step),
    conformsFields H E p kvs ovs = true → shapeFields ovs = shapeFields kvs
  | [], ovs, p, h => by cases ovs <;> simp_all [conformsFields, shapeFields]
  | (k, v) :: r, ovs, p, h => by
    cases ovs with
    | nil => simp [conformsFields] at h
    | cons y ovs =>
      obtain ⟨k', o⟩ := y
      simp only [conformsFields, Bool.and_eq_true, beq_iff_eq] at h
      simp only [shapeFields]
      rw [← h.1.1, conforms_shape H E v o _ h.1.2, conformsFields_shape H E r ovs p h.2]
end

/-- a conforming field list has the matching field, conforming, under every key -/
theorem conformsFields_getFirst (H : Str → Str) (E : Str → Bool) (p : List Step) (k : Str) :
    ∀ (kvs ovs : List (Str × Json)) (v : Json), conformsFields H E p kvs ovs = true →
      getFirst k kvs = some v →
      ∃ o, getFirst k ovs = some o ∧ conformsWith H E (p ++ [.key k]) v o = true := by
  intro kvs
  induction kvs with
  | nil => intro ovs v _ hg; simp [getFirst] at hg
  | cons a r ih =>
    intro ovs v h hg
    obtain ⟨k1, v1⟩ := a
    cases ovs with
    | nil => simp [conformsFields] at h
    | cons y ovs =>
      obtain ⟨k2, o2⟩ := y
      simp only [conformsFields, Bool.and_eq_true, beq_iff_eq] at h
      obtain ⟨⟨hk, hc⟩, hr⟩ := h
      subst hk
      by_cases hkk : k1 = k
      · subst hkk
        simp only [getFirst, beq_self_eq_true, if_true, Option.some.injEq] at hg ⊢
        subst hg
        exact ⟨o2, rfl, hc⟩
      · simp only [getFirst, beq_iff_eq, hkk, if_false] at hg ⊢
        exact ih ovs v hr hg

theorem conformsList_get (H : Str → Str) (E : Str → Bool) (p : List Step) :
    ∀ (xs ys : List Json) (i j : Nat) (x : Json), conformsList H E p i xs ys = true →
      xs[j]? = some x →
      ∃ y, ys[j]? = some y ∧ conformsWith H E (p ++ [.elem (i + j)]) x y = true := by
  intro xs
  induction xs with
  | nil => intro ys i j x _ hg; simp at hg
  | cons a r ih =>
    intro ys i j x h hg
    cases ys with
    | nil => simp [conformsList] at h
    | cons y ys =>
      simp only [conformsList, Bool.and_eq_true] at h
      cases j with
      | zero =>
        simp only [List.getElem?_cons_zero, Option.some.injEq] at hg ⊢
        subst hg
        exact ⟨y, rfl, by simpa using h.1⟩
      | succ j =>
        simp only [List.getElem?_cons_succ] at hg ⊢
        obtain ⟨y', hy, hc⟩ := ih ys (i + 1) j x h.2 hg
        exact ⟨y', hy, by rw [show i + (j + 1) = i + 1 + j by omega]; exact hc⟩

/-- The rendering does not depend on array indices. -/
theorem render_elem_irrel (p : List Step) (i j : Nat) :
    render (p ++ [.elem i]) = render (p ++ [.elem j]) := by
  rw [render_snoc_elem, render_snoc_elem]

/-- Positional reading of conformance: a covered position is verbatim; an uncovered one conforms. -/
theorem conforms_getAt (H : Str → Str) (E : Str → Bool) :
    ∀ (q : List Step) (p0 : List Step) (d out v : Json), conformsWith H E p0 d out = true →
      getAt q d = some v →
      (coveredFrom E p0 q = true → getAt q out = some v) ∧
      (coveredFrom E p0 q = false → ∃ o, getAt q out = some o ∧ conformsWith H E (p0 ++ q) v o = true ∧
         E (render (p0 ++ q)) = false) := by
  intro q
  induction q with
  | nil =>
    intro p0 d out v h hg
    simp only [getAt, Option.some.injEq] at hg
    subst hg
    simp only [coveredFrom, getAt, List.append_nil]
    constructor
    · intro he
      have : out = d := by
        cases d <;> simp only [conformsWith, he, if_true] at h <;> exact Json.eq_of_beq _ _ h
      rw [this]
    · intro he
      exact ⟨out, rfl, h, he⟩
  | cons s q ih =>
    intro p0 d out v h hg
    by_cases he : E (render p0) = true
    · -- the whole subtree is verbatim
      have : out = d := by
        cases d <;> simp only [conformsWith, he, if_true] at h <;> exact Json.eq_of_beq _ _ h
      subst this
      simp only [coveredFrom, he, Bool.true_or]
      exact ⟨fun _ => hg, fun hf => by simp at hf⟩
    · simp only [coveredFrom, he, Bool.false_or]
      cases s with
      | key k =>
        cases d with
        | obj kvs =>
          simp only [getAt] at hg
          cases hgf : getFirst k kvs with
          | none => simp [hgf] at hg
          | some v1 =>
            simp only [hgf, Option.bind_some] at hg
            simp only [conformsWith, he, if_false, Bool.false_eq_true] at h
            cases out with
            | obj ovs =>
              obtain ⟨o1, ho1, hc1⟩ := conformsFields_getFirst H E p0 k kvs ovs v1 h hgf
              have := ih (p0 ++ [.key k]) v1 o1 v hc1 hg
              simp only [getAt, ho1, Option.bind_some, List.append_assoc, List.singleton_append] at this ⊢
              exact this
            | _ => simp at h
        | _ => simp [getAt] at hg
      | elem i =>
        cases d with
        | arr xs =>
          simp only [getAt] at hg
          cases hgf : xs[i]? with
          | none => simp [hgf] at hg
          | some v1 =>
            simp only [hgf, Option.bind_some] at hg
            simp only [conformsWith, he, if_false, Bool.false_eq_true] at h
            cases out with
            | arr ys =>
              obtain ⟨o1, ho1, hc1⟩ := conformsList_get H E p0 xs ys 0 i v1 h hgf
              simp only [Nat.zero_add] at hc1
              have := ih (p0 ++ [.elem i]) v1 o1 v hc1 hg
              simp only [getAt, ho1, Option.bind_some, List.append_assoc, List.singleton_append] at this ⊢
              exact this
            | _ => simp at h
        | _ => simp [getAt] at hg

/-! ### The walk's exclusion test IS the declarative one (on renderings of positions) -/

theorem reqPrefix_chars : reqPrefix = ['$', '.', 'r', 'e', 'q', 'u', 'e', 's', 't', '.', 'b', 'o', 'd', 'y'] := by decide
theorem respPrefix_chars :
    respPrefix = ['$', '.', 'r', 'e', 's', 'p', 'o', 'n', 's', 'e', '.', 'b', 'o', 'd', 'y'] := by decide

theorem req_not_prefix_of_resp (t : Str) : reqPrefix.isPrefixOf (respPrefix ++ t) = false := by
  rw [reqPrefix_chars, respPrefix_chars]; simp [List.isPrefixOf]

theorem resp_not_prefix_of_req (t : Str) : respPrefix.isPrefixOf (reqPrefix ++ t) = false := by
  rw [reqPrefix_chars, respPrefix_chars]; simp [List.isPrefixOf]

theorem trim_req (e : Str) (h : reqPrefix.isPrefixOf e = true) :
    ∃ t, e = reqPrefix ++ t ∧ trimBodyPathPrefix e = t := by
  obtain ⟨t, rfl⟩ := List.isPrefixOf_iff_prefix.mp h
  exact ⟨t, rfl, by simp [trimBodyPathPrefix, h]⟩

theorem trim_resp (e : Str) (h : respPrefix.isPrefixOf e = true) :
    ∃ t, e = respPrefix ++ t ∧ trimBodyPathPrefix e = t := by
  obtain ⟨t, rfl⟩ := List.isPrefixOf_iff_prefix.mp h
  exact ⟨t, rfl, by simp [trimBodyPathPrefix, req_not_prefix_of_resp, h]⟩

theorem trim_none (e : Str) (h1 : reqPrefix.isPrefixOf e = false) (h2 : respPrefix.isPrefixOf e = false) :
    trimBodyPathPrefix e = e := by simp [trimBodyPathPrefix, h1, h2]

theorem prefix_append_self (pre c : Str) : pre.isPrefixOf (pre ++ c) = true := by
  simp [List.isPrefixOf_iff_prefix]

/-- one exclusion, `raw` entry point: the code's test is "denotes in one of the two notations" -/
theorem denotes_raw_iff (e c : Str) :
    (e == c || trimBodyPathPrefix e == c) = denotes .raw e c := by
  simp only [denotes]
  cases h1 : reqPrefix.isPrefixOf e with
  | true =>
    obtain ⟨t, rfl, ht⟩ := trim_req e h1
    rw [ht]
    have h3 : (reqPrefix ++ t == respPrefix ++ c) = false := by
      cases h : (reqPrefix ++ t == respPrefix ++ c) with
      | false => rfl
      | true =>
        have := resp_not_prefix_of_req t
        rw [beq_iff_eq.mp h, prefix_append_self] at this
        exact absurd this (by simp)
    have h4 : (reqPrefix ++ t == reqPrefix ++ c) = (t == c) := by
      rw [Bool.eq_iff_iff]; simp
    rw [h3, h4, Bool.or_false]
  | false =>
    have h3 : (e == reqPrefix ++ c) = false := by
      cases h : (e == reqPrefix ++ c) with
      | false => rfl
      | true => rw [beq_iff_eq.mp h, prefix_append_self] at h1; exact absurd h1 (by simp)
    cases h2 : respPrefix.isPrefixOf e with
    | true =>
      obtain ⟨t, rfl, ht⟩ := trim_resp e h2
      rw [ht]
      have h4 : (respPrefix ++ t == respPrefix ++ c) = (t == c) := by
        rw [Bool.eq_iff_iff]; simp
      rw [h3, h4, Bool.or_false]
    | false =>
      have h5 : (e == respPrefix ++ c) = false := by
        cases h : (e == respPrefix ++ c) with
        | false => rfl
        | true => rw [beq_iff_eq.mp h, prefix_append_self] at h2; exact absurd h2 (by simp)
      rw [trim_none e h1 h2, h3, h5]; simp

/-- a rendering never starts with `$` -/
theorem ne_of_prefixed (t c e : Str)
    (hhead : c = [] ∨ ∃ ch r, c = ch :: r ∧ (ch = '.' ∨ ch = '['))
    (hp : List.isPrefixOf ('$' :: t) e = true) : (e == c) = false := by
  cases h : (e == c) with
  | false => rfl
  | true =>
    rw [beq_iff_eq.mp h] at hp
    rcases hhead with rfl | ⟨ch, r, rfl, hch⟩
    · simp [List.isPrefixOf] at hp
    · rcases hch with rfl | rfl <;> simp [List.isPrefixOf] at hp

theorem reqPrefix_eq : reqPrefix = '$' :: ".request.body".toList := by decide
theorem respPrefix_eq : respPrefix = '$' :: ".response.body".toList := by decide

/-- The code's exclusion test (after the side's filter) equals the declarative test, on every
    rendering of a position. -/
theorem excl_agree (side : Side) (ex : List Str) (p : List Step) :
    modelExcl (bodyExclusions side ex) (render p) = specExcluded side ex (render p) := by
  have hhead : render p = [] ∨ ∃ ch r, render p = ch :: r ∧ (ch = '.' ∨ ch = '[') := by
    rcases render_head p with ⟨_, h⟩ | h
    · exact Or.inl h
    · exact Or.inr h
  cases side with
  | raw =>
    simp only [modelExcl, bodyExclusions, isCursorInExcludedPath, specExcluded]
    congr 1
    funext e
    exact denotes_raw_iff e (render p)
  | req =>
    simp only [modelExcl, bodyExclusions, filterBodyExclusions, isCursorInExcludedPath, specExcluded,
      List.any_filter, denotes]
    congr 1
    funext e
    cases h1 : reqPrefix.isPrefixOf e with
    | false =>
      simp only [Bool.false_and]
      cases h : (e == reqPrefix ++ render p) with
      | false => rfl
      | true => rw [beq_iff_eq.mp h, prefix_append_self] at h1; exact absurd h1 (by simp)
    | true =>
      obtain ⟨t, rfl, ht⟩ := trim_req e h1
      rw [ht, ne_of_prefixed _ (render p) _ hhead (reqPrefix_eq ▸ h1)]
      rw [Bool.eq_iff_iff]; simp
  | resp =>
    simp only [modelExcl, bodyExclusions, filterBodyExclusions, isCursorInExcludedPath, specExcluded,
      List.any_filter, denotes]
    congr 1
    funext e
    cases h1 : respPrefix.isPrefixOf e with
    | false =>
      simp only [Bool.false_and]
      cases h : (e == respPrefix ++ render p) with
      | false => rfl
      | true => rw [beq_iff_eq.mp h, prefix_append_self] at h1; exact absurd h1 (by simp)
    | true =>
      obtain ⟨t, rfl, ht⟩ := trim_resp e h1
      rw [ht, ne_of_prefixed _ (render p) _ hhead (respPrefix_eq ▸ h1)]
      rw [Bool.eq_iff_iff]; simp

/-! ### Conformance only looks at the exclusion predicate on renderings -/

mutual
theorem conforms_congr (H : Str → Str) (E E' : Str → Bool) (hE : ∀ p, E (render p) = E' (render p)) :
    ∀ (d out : Json) (p : List Step), conformsWith H E p d out = conformsWith H E' p d out
  | .arr xs, out, p => by
    simp only [conformsWith, hE p]
    by_cases he : E' (render p) = true
    · simp [he]
    · simp only [he, if_false, Bool.false_eq_true]
      cases out with
      | arr ys => exact conformsList_congr H E E' hE xs ys p 0
      | _ => rfl
  | .obj kvs, out, p => by
    simp only [conformsWith, hE p]
    by_cases he : E' (render p) = true
    · simp [he]
    · simp only [he, if_false, Bool.false_eq_true]
      cases out with
      | obj ovs => exact conformsFields_congr H E E' hE kvs ovs p
      | _ => rfl
  | .null, out, p => by simp only [conformsWith, hE p]
  | .bool b, out, p => by simp only [conformsWith, hE p]
  | .num l, out, p => by simp only [conformsWith, hE p]
  | .str s, out, p => by simp only [conformsWith, hE p]
theorem conformsList_congr (H : Str → Str) (E E' : Str → Bool) (hE : ∀ p, E (render p) = E' (render p)) :
    ∀ (xs ys : List Json) (p : List Step) (i : Nat),
    conformsList H E p i xs ys = conformsList H E' p i xs ys
  | [], ys, p, i => by cases ys <;> simp [conformsList]
  | x :: xs, ys, p, i => by
    cases ys with
    | nil => simp [conformsList]
    | cons y ys =>
      simp only [conformsList]
      rw [conforms_congr H E E' hE x y _, conformsList_congr H E E' hE xs ys p (i + 1)]
theorem conformsFields_congr (H : Str → Str) (E E' : Str → Bool) (hE : ∀ p, E (render p) = E' (render p)) :
    ∀ (kvs ovs : List (Str × Json)) (p : List Step),
    conformsFields H E p kvs ovs = conformsFields H E' p kvs ovs
  | [], ovs, p => by cases ovs <;> simp [conformsFields]
  | (k, v) :: r, ovs, p => by
    cases ovs with
    | nil => simp [conformsFields]
    | cons y ovs =>
      obtain ⟨k', o⟩ := y
      simp only [conformsFields]
      rw [conforms_congr H E E' hE v o _, conformsFields_congr H E E' hE r ovs p]
end

/-- What conformance says about a primitive at a non-excluded position. -/
theorem conforms_leaf (H : Str → Str) (E : Str → Bool) (p : List Step) (v o : Json)
    (hl : isLeaf v = true) (he : E (render p) = false) (h : conformsWith H E p v o = true) :
    o = .str (H (leafPre v)) := by
  cases v <;> simp only [isLeaf, Bool.false_eq_true] at hl <;>
    simp only [conformsWith, he, if_false, Bool.false_eq_true] at h <;> exact Json.eq_of_beq _ _ h

end LunarVerif.C16
