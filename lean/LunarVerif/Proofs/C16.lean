import LunarVerif.Spec.C16
import LunarVerif.Model.C16Fix
/-!
Helper lemmas for C16 (property statements live in `Properties/C16.lean`).
-/
namespace LunarVerif.C16

/-! ### `Json.beq` decides equality -/

mutual
theorem Json.beq_refl : ∀ v : Json, v.beq v = true
  | .null => by simp [Json.beq]
  | .bool b => by simp [Json.beq]
  | .num l => by simp [Json.beq]
  | .str s => by simp [Json.beq]
  | .arr xs => by simp [Json.beq, beqList_refl xs]
  | .obj kvs => by simp [Json.beq, beqFields_refl kvs]
theorem beqList_refl : ∀ xs : List Json, beqList xs xs = true
  | [] => by simp [beqList]
  | x :: xs => by simp [beqList, Json.beq_refl x, beqList_refl xs]
theorem beqFields_refl : ∀ kvs : List (Str × Json), beqFields kvs kvs = true
  | [] => by simp [beqFields]
  | (k, v) :: r => by simp [beqFields, Json.beq_refl v, beqFields_refl r]
end

mutual
theorem Json.eq_of_beq : ∀ v w : Json, v.beq w = true → v = w
  | .null, w, h => by cases w <;> simp_all [Json.beq]
  | .bool b, w, h => by cases w <;> simp_all [Json.beq]
  | .num l, w, h => by cases w <;> simp_all [Json.beq]
  | .str s, w, h => by cases w <;> simp_all [Json.beq]
  | .arr xs, w, h => by
    cases w with
    | arr ys => simp only [Json.beq] at h; rw [eq_of_beqList xs ys h]
    | _ => simp [Json.beq] at h
  | .obj xs, w, h => by
    cases w with
    | obj ys => simp only [Json.beq] at h; rw [eq_of_beqFields xs ys h]
    | _ => simp [Json.beq] at h
theorem eq_of_beqList : ∀ xs ys : List Json, beqList xs ys = true → xs = ys
  | [], ys, h => by cases ys <;> simp_all [beqList]
  | x :: xs, ys, h => by
    cases ys with
    | nil => simp [beqList] at h
    | cons y ys =>
      simp only [beqList, Bool.and_eq_true] at h
      rw [Json.eq_of_beq x y h.1, eq_of_beqList xs ys h.2]
theorem eq_of_beqFields : ∀ xs ys : List (Str × Json), beqFields xs ys = true → xs = ys
  | [], ys, h => by cases ys <;> simp_all [beqFields]
  | (k, v) :: xs, ys, h => by
    cases ys with
    | nil => simp [beqFields] at h
    | cons y ys =>
      obtain ⟨k', v'⟩ := y
      simp only [beqFields, Bool.and_eq_true, beq_iff_eq] at h
      rw [h.1.1, Json.eq_of_beq v v' h.1.2, eq_of_beqFields xs ys h.2]
end

/-! ### The object loop is the identity without duplicate keys -/

theorem getFirst_append_of_not_mem (k : Str) (pre r : List (Str × Json))
    (h : ∀ kv ∈ pre, kv.1 ≠ k) : getFirst k (pre ++ r) = getFirst k r := by
  induction pre with
  | nil => rfl
  | cons a pre ih =>
    obtain ⟨k', v'⟩ := a
    have hk : k' ≠ k := h (k', v') (by simp)
    simp only [List.cons_append, getFirst, beq_iff_eq, hk, if_false]
    exact ih (fun kv hkv => h kv (by simp [hkv]))

theorem setKV_of_not_mem (k : Str) (v : Json) (pre : List (Str × Json))
    (h : ∀ kv ∈ pre, kv.1 ≠ k) : setKV k v pre = pre ++ [(k, v)] := by
  induction pre with
  | nil => rfl
  | cons a pre ih =>
    obtain ⟨k', v'⟩ := a
    have hk : k' ≠ k := h (k', v') (by simp)
    simp only [setKV, beq_iff_eq, hk, if_false, List.cons_append]
    rw [ih (fun kv hkv => h kv (by simp [hkv]))]

theorem noDup_append_not_mem (pre s : List (Str × Json)) (k : Str) (v : Json)
    (h : noDupKeys (pre ++ (k, v) :: s) = true) : ∀ kv ∈ pre, kv.1 ≠ k := by
  induction pre with
  | nil => intro kv hkv; simp at hkv
  | cons a pre ih =>
    obtain ⟨k', v'⟩ := a
    simp only [List.cons_append, noDupKeys, Bool.and_eq_true, Bool.not_eq_true', List.any_eq_false] at h
    intro kv hkv
    rcases List.mem_cons.mp hkv with rfl | hkv
    · have h1 := h.1 (k, v) (by simp)
      intro heq
      exact h1 (beq_iff_eq.mpr heq.symm)
    · exact ih h.2 kv hkv

theorem collapse_aux (fs : List (Str × Json)) (hnd : noDupKeys fs = true) :
    ∀ (suf pre : List (Str × Json)), fs = pre ++ suf →
      (suf.map (·.1)).foldl (collapseStep fs) pre = pre ++ suf := by
  intro suf
  induction suf with
  | nil => intro pre _; simp
  | cons a s ih =>
    intro pre hfs
    obtain ⟨k, v⟩ := a
    have hnm : ∀ kv ∈ pre, kv.1 ≠ k := noDup_append_not_mem pre s k v (hfs ▸ hnd)
    have hget : getFirst k fs = some v := by
      rw [hfs, getFirst_append_of_not_mem k pre _ hnm]; simp [getFirst]
    simp only [List.map_cons, List.foldl_cons]
    have hstep : collapseStep fs pre k = pre ++ [(k, v)] := by
      simp only [collapseStep, hget]; exact setKV_of_not_mem k v pre hnm
    rw [hstep, ih (pre ++ [(k, v)]) (by simp [hfs])]
    simp

theorem collapse_nodup (fs : List (Str × Json)) (hnd : noDupKeys fs = true) : collapse fs = fs := by
  have := collapse_aux fs hnd fs [] rfl
  simpa [collapse] using this

/-! ### Renderings -/

theorem render_append (p q : List Step) : render (p ++ q) = render p ++ render q := by
  induction p with
  | nil => rfl
  | cons s p ih => simp [render, ih]

theorem render_snoc_elem (p : List Step) (i : Nat) : render (p ++ [.elem i]) = render p ++ ['[', ']'] := by
  simp [render_append, render, Step.render]

theorem render_snoc_key (p : List Step) (k : Str) : render (p ++ [.key k]) = render p ++ '.' :: k := by
  simp [render_append, render, Step.render]

/-- A rendering is empty only for the root, and otherwise starts with `.` or `[`. -/
theorem render_head (p : List Step) :
    (p = [] ∧ render p = []) ∨ (∃ c r, render p = c :: r ∧ (c = '.' ∨ c = '[')) := by
  cases p with
  | nil => left; exact ⟨rfl, rfl⟩
  | cons s p =>
    right
    cases s with
    | key k => exact ⟨'.', k ++ render p, by simp [render, Step.render], Or.inl rfl⟩
    | elem i => exact ⟨'[', ']' :: render p, by simp [render, Step.render], Or.inr rfl⟩

/-! ### Every model run conforms to the conformance predicate taken with the MODEL's own exclusion test -/

theorem obfFields_keys (H : Str → Str) (E : Str → Bool) (cursor : Str) :
    ∀ kvs : List (Str × Json), (obfFieldsWith H E cursor kvs).map (·.1) = kvs.map (·.1)
  | [] => by simp [obfFieldsWith]
  | (k, v) :: r => by simp [obfFieldsWith, obfFields_keys H E cursor r]

theorem noDupKeys_of_keys : ∀ (a b : List (Str × Json)), a.map (·.1) = b.map (·.1) →
    noDupKeys a = noDupKeys b
  | [], b, h => by cases b <;> simp_all [noDupKeys]
  | (k, v) :: a, b, h => by
    cases b with
    | nil => simp at h
    | cons y b =>
      obtain ⟨k', v'⟩ := y
      simp only [List.map_cons, List.cons.injEq] at h
      have hany : (a.any fun kv => kv.1 == k) = (b.any fun kv => kv.1 == k') := by
        have h1 : (a.any fun kv => kv.1 == k) = ((a.map (·.1)).any fun x => x == k) := by
          simp [List.any_map, Function.comp_def]
        have h2 : (b.any fun kv => kv.1 == k') = ((b.map (·.1)).any fun x => x == k') := by
          simp [List.any_map, Function.comp_def]
        rw [h1, h2, h.2, h.1]
      simp only [noDupKeys, hany, noDupKeys_of_keys a b h.2]

mutual
theorem obfWith_conforms (H : Str → Str) (E : Str → Bool) : ∀ (d : Json) (p : List Step), wellFormed d = true →
    conformsWith H E p d (obfWith H E (render p) d) = true
  | .arr xs, p, h => by
    simp only [wellFormed] at h
    simp only [obfWith, conformsWith]
    by_cases he : E (render p) = true
    · simp [he, Json.beq_refl]
    · simp only [he, if_false, Bool.false_eq_true]
      exact obfListWith_conforms H E xs p 0 h
  | .obj kvs, p, h => by
    simp only [wellFormed, Bool.and_eq_true] at h
    simp only [obfWith, conformsWith]
    by_cases he : E (render p) = true
    · simp [he, Json.beq_refl]
    · simp only [he, if_false, Bool.false_eq_true]
      rw [collapse_nodup _ (by
        rw [noDupKeys_of_keys _ kvs (obfFields_keys H E (render p) kvs)]; exact h.1)]
      exact obfFieldsWith_conforms H E kvs p h.2
  | .null, p, _ => by
    simp only [obfWith, conformsWith]
    by_cases he : E (render p) = true <;> simp [he, Json.beq_refl]
  | .bool b, p, _ => by
    simp only [obfWith, conformsWith]
    by_cases he : E (render p) = true <;> simp [he, Json.beq_refl]
  | .num l, p, _ => by
    simp only [obfWith, conformsWith]
    by_cases he : E (render p) = true <;> simp [he, Json.beq_refl]
  | .str s, p, _ => by
    simp only [obfWith, conformsWith]
    by_cases he : E (render p) = true <;> simp [he, Json.beq_refl]
theorem obfListWith_conforms (H : Str → Str) (E : Str → Bool) : ∀ (xs : List Json) (p : List Step) (i : Nat),
    wellFormedList xs = true →
    conformsList H E p i xs (obfListWith H E (render p ++ ['[', ']']) xs) = true
  | [], p, i, _ => by simp [obfListWith, conformsList]
  | x :: xs, p, i, h => by
    simp only [wellFormedList, Bool.and_eq_true] at h
    simp only [obfListWith, conformsList, Bool.and_eq_true]
    have h1 := obfWith_conforms H E x (p ++ [.elem i]) h.1
    rw [render_snoc_elem] at h1
    exact ⟨h1, obfListWith_conforms H E xs p (i + 1) h.2⟩
theorem obfFieldsWith_conforms (H : Str → Str) (E : Str → Bool) : ∀ (kvs : List (Str × Json)) (p : List Step),
    wellFormedFields kvs = true →
    conformsFields H E p kvs (obfFieldsWith H E (render p) kvs) = true
  | [], p, _ => by simp [obfFieldsWith, conformsFields]
  | (k, v) :: r, p, h => by
    simp only [wellFormedFields, Bool.and_eq_true] at h
    simp only [obfFieldsWith, conformsFields, Bool.and_eq_true, beq_self_eq_true, true_and]
    have h1 := obfWith_conforms H E v (p ++ [.key k]) h.1
    rw [render_snoc_key] at h1
    exact ⟨h1, obfFieldsWith_conforms H E r p h.2⟩
end

/-- Every run of the walk as coded conforms w.r.t. its own exclusion test. -/
theorem obf_conforms (H : Str → Str) (ex : List Str) (d : Json) (p : List Step) (h : wellFormed d = true) :
    conformsWith H (modelExcl ex) p d (obf H ex (render p) d) = true :=
  obfWith_conforms H (modelExcl ex) d p h

/-! ### Consequences of conformance (for ANY exclusion predicate) -/

theorem shape_leaf_str (s : Str) : shape (.str s) = .null := by simp [shape]

mutual
theorem conforms_shape (H : Str → Str) (E : Str → Bool) : ∀ (d out : Json) (p : List Step),
    conformsWith H E p d out = true → shape out = shape d
  | .arr xs, out, p, h => by
    simp only [conformsWith] at h
    by_cases he : E (render p) = true
    · simp only [he, if_true] at h; rw [Json.eq_of_beq _ _ h]
    · simp only [he, if_false, Bool.false_eq_true] at h
      cases out with
      | arr ys => simp only [shape]; rw [conformsList_shape H E xs ys p 0 h]
      | _ => simp at h
  | .obj kvs, out, p, h => by
    simp only [conformsWith] at h
    by_cases he : E (render p) = true
    · simp only [he, if_true] at h; rw [Json.eq_of_beq _ _ h]
    · simp only [he, if_false, Bool.false_eq_true] at h
      cases out with
      | obj ovs => simp only [shape]; rw [conformsFields_shape H E kvs ovs p h]
      | _ => simp at h
  | .null, out, p, h => by
    simp only [conformsWith] at h
    by_cases he : E (render p) = true
    · simp only [he, if_true] at h; rw [Json.eq_of_beq _ _ h]
    · simp only [he, if_false, Bool.false_eq_true] at h; rw [Json.eq_of_beq _ _ h]; simp [shape]
  | .bool b, out, p, h => by
    simp only [conformsWith] at h
    by_cases he : E (render p) = true
    · simp only [he, if_true] at h; rw [Json.eq_of_beq _ _ h]
    · simp only [he, if_false, Bool.false_eq_true] at h; rw [Json.eq_of_beq _ _ h]; simp [shape]
  | .num l, out, p, h => by
    simp only [conformsWith] at h
    by_cases he : E (render p) = true
    · simp only [he, if_true] at h; rw [Json.eq_of_beq _ _ h]
    · simp only [he, if_false, Bool.false_eq_true] at h; rw [Json.eq_of_beq _ _ h]; simp [shape]
  | .str s, out, p, h => by
    simp only [conformsWith] at h
    by_cases he : E (render p) = true
    · simp only [he, if_true] at h; rw [Json.eq_of_beq _ _ h]
    · simp only [he, if_false, Bool.false_eq_true] at h; rw [Json.eq_of_beq _ _ h]; simp [shape]
theorem conformsList_shape (H : Str → Str) (E : Str → Bool) : ∀ (xs ys : List Json) (p : List Step) (i : Nat),
    conformsList H E p i xs ys = true → shapeList ys = shapeList xs
  | [], ys, p, i, h => by cases ys <;> simp_all [conformsList, shapeList]
  | x :: xs, ys, p, i, h => by
    cases ys with
    | nil => simp [conformsList] at h
    | cons y ys =>
      simp only [conformsList, Bool.and_eq_true] at h
      simp only [shapeList]
      rw [conforms_shape H E x y _ h.1, conformsList_shape H E xs ys p (i + 1) h.2]
theorem conformsFields_shape (H : Str → Str) (E : Str → Bool) : ∀ (kvs ovs : List (Str × Json)) (p : List Step),
    conformsFields H E p kvs ovs = true → shapeFields ovs = shapeFields kvs
  | [], ovs, p, h => by cases ovs <;> simp_all [conformsFields, shapeFields]
  | (k, v) :: r, ovs, p, h => by
    cases ovs with
    | nil => simp [conformsFields] at h
    | cons y ovs =>
      obtain ⟨k', o⟩ := y
      simp only [conformsFields, Bool.and_eq_true, beq_iff_eq] at h
      simp only [shapeFields]
      rw [← h.1.1, conforms_shape H E v o _ h.1.2, conformsFields_shape H E r ovs p h.2]
end

/-- a conforming field list has the matching field, conforming, under every key -/
theorem conformsFields_getFirst (H : Str → Str) (E : Str → Bool) (p : List Step) (k : Str) :
    ∀ (kvs ovs : List (Str × Json)) (v : Json), conformsFields H E p kvs ovs = true →
      getFirst k kvs = some v →
      ∃ o, getFirst k ovs = some o ∧ conformsWith H E (p ++ [.key k]) v o = true := by
  intro kvs
  induction kvs with
  | nil => intro ovs v _ hg; simp [getFirst] at hg
  | cons a r ih =>
    intro ovs v h hg
    obtain ⟨k1, v1⟩ := a
    cases ovs with
    | nil => simp [conformsFields] at h
    | cons y ovs =>
      obtain ⟨k2, o2⟩ := y
      simp only [conformsFields, Bool.and_eq_true, beq_iff_eq] at h
      obtain ⟨⟨hk, hc⟩, hr⟩ := h
      subst hk
      by_cases hkk : k1 = k
      · subst hkk
        simp only [getFirst, beq_self_eq_true, if_true, Option.some.injEq] at hg ⊢
        subst hg
        exact ⟨o2, rfl, hc⟩
      · simp only [getFirst, beq_iff_eq, hkk, if_false] at hg ⊢
        exact ih ovs v hr hg

theorem conformsList_get (H : Str → Str) (E : Str → Bool) (p : List Step) :
    ∀ (xs ys : List Json) (i j : Nat) (x : Json), conformsList H E p i xs ys = true →
      xs[j]? = some x →
      ∃ y, ys[j]? = some y ∧ conformsWith H E (p ++ [.elem (i + j)]) x y = true := by
  intro xs
  induction xs with
  | nil => intro ys i j x _ hg; simp at hg
  | cons a r ih =>
    intro ys i j x h hg
    cases ys with
    | nil => simp [conformsList] at h
    | cons y ys =>
      simp only [conformsList, Bool.and_eq_true] at h
      cases j with
      | zero =>
        simp only [List.getElem?_cons_zero, Option.some.injEq] at hg ⊢
        subst hg
        exact ⟨y, rfl, by simpa using h.1⟩
      | succ j =>
        simp only [List.getElem?_cons_succ] at hg ⊢
        obtain ⟨y', hy, hc⟩ := ih ys (i + 1) j x h.2 hg
        exact ⟨y', hy, by rw [show i + (j + 1) = i + 1 + j by omega]; exact hc⟩

/-- The rendering does not depend on array indices. -/
theorem render_elem_irrel (p : List Step) (i j : Nat) :
    render (p ++ [.elem i]) = render (p ++ [.elem j]) := by
  rw [render_snoc_elem, render_snoc_elem]

/-- Positional reading of conformance: a covered position is verbatim; an uncovered one conforms. -/
theorem conforms_getAt (H : Str → Str) (E : Str → Bool) :
    ∀ (q : List Step) (p0 : List Step) (d out v : Json), conformsWith H E p0 d out = true →
      getAt q d = some v →
      (coveredFrom E p0 q = true → getAt q out = some v) ∧
      (coveredFrom E p0 q = false → ∃ o, getAt q out = some o ∧ conformsWith H E (p0 ++ q) v o = true ∧
         E (render (p0 ++ q)) = false) := by
  intro q
  induction q with
  | nil =>
    intro p0 d out v h hg
    simp only [getAt, Option.some.injEq] at hg
    subst hg
    simp only [coveredFrom, getAt, List.append_nil]
    constructor
    · intro he
      have : out = d := by
        cases d <;> simp only [conformsWith, he, if_true] at h <;> exact Json.eq_of_beq _ _ h
      rw [this]
    · intro he
      exact ⟨out, rfl, h, he⟩
  | cons s q ih =>
    intro p0 d out v h hg
    by_cases he : E (render p0) = true
    · -- the whole subtree is verbatim
      have : out = d := by
        cases d <;> simp only [conformsWith, he, if_true] at h <;> exact Json.eq_of_beq _ _ h
      subst this
      simp only [coveredFrom, he, Bool.true_or]
      exact ⟨fun _ => hg, fun hf => by simp at hf⟩
    · simp only [coveredFrom, he, Bool.false_or]
      cases s with
      | key k =>
        cases d with
        | obj kvs =>
          simp only [getAt] at hg
          cases hgf : getFirst k kvs with
          | none => simp [hgf] at hg
          | some v1 =>
            simp only [hgf, Option.bind_some] at hg
            simp only [conformsWith, he, if_false, Bool.false_eq_true] at h
            cases out with
            | obj ovs =>
              obtain ⟨o1, ho1, hc1⟩ := conformsFields_getFirst H E p0 k kvs ovs v1 h hgf
              have := ih (p0 ++ [.key k]) v1 o1 v hc1 hg
              simp only [getAt, ho1, Option.bind_some, List.append_assoc, List.singleton_append] at this ⊢
              exact this
            | _ => simp at h
        | _ => simp [getAt] at hg
      | elem i =>
        cases d with
        | arr xs =>
          simp only [getAt] at hg
          cases hgf : xs[i]? with
          | none => simp [hgf] at hg
          | some v1 =>
            simp only [hgf, Option.bind_some] at hg
            simp only [conformsWith, he, if_false, Bool.false_eq_true] at h
            cases out with
            | arr ys =>
              obtain ⟨o1, ho1, hc1⟩ := conformsList_get H E p0 xs ys 0 i v1 h hgf
              simp only [Nat.zero_add] at hc1
              have := ih (p0 ++ [.elem i]) v1 o1 v hc1 hg
              simp only [getAt, ho1, Option.bind_some, List.append_assoc, List.singleton_append] at this ⊢
              exact this
            | _ => simp at h
        | _ => simp [getAt] at hg

/-! ### Where the walk's exclusion test and the declarative one agree -/

theorem not_prefix_of_head (t c : Str)
    (hhead : c = [] ∨ ∃ ch r, c = ch :: r ∧ (ch = '.' ∨ ch = '[')) :
    List.isPrefixOf ('$' :: t) c = false := by
  rcases hhead with rfl | ⟨ch, r, rfl, hch⟩
  · rfl
  · rcases hch with rfl | rfl <;> simp [List.isPrefixOf]

theorem agree_prefixed (pre t : Str) (hpre : pre = '$' :: t) (ex : List Str) (c : Str)
    (hhead : c = [] ∨ ∃ ch r, c = ch :: r ∧ (ch = '.' ∨ ch = '['))
    (hsf : (c.isEmpty || ex.all (fun e => !(pre.isPrefixOf e && c.isSuffixOf e) || e == pre ++ c)) = true)
    (hroot : c = [] → (ex.any fun e => e == pre ++ []) = false) :
    isCursorInExcludedPath c (ex.filter (fun e => pre.isPrefixOf e)) = ex.any (fun e => e == pre ++ c) := by
  have hnc : (ex.filter (fun e => pre.isPrefixOf e)).contains c = false := by
    cases hcon : (ex.filter (fun e => pre.isPrefixOf e)).contains c with
    | false => rfl
    | true =>
      have hm : c ∈ ex.filter (fun e => pre.isPrefixOf e) := by simpa using hcon
      have hp := (List.mem_filter.mp hm).2
      rw [hpre, not_prefix_of_head t c hhead] at hp
      simp at hp
  unfold isCursorInExcludedPath
  rw [hnc]
  by_cases hc : c = []
  · subst hc
    have hr := hroot rfl
    simp only [List.isEmpty_nil, if_true, Bool.false_eq_true, if_false]
    rw [hr]
  · have hne : c.isEmpty = false := by cases c <;> simp_all
    simp only [Bool.false_eq_true, if_false, hne]
    rw [hne, Bool.false_or] at hsf
    rw [Bool.eq_iff_iff]
    simp only [List.any_eq_true, List.mem_filter]
    constructor
    · rintro ⟨e, ⟨hmem, hp⟩, hs⟩
      have := (List.all_eq_true.mp hsf) e hmem
      simp only [hp, hs, Bool.and_self, Bool.not_true, Bool.false_or] at this
      exact ⟨e, hmem, this⟩
    · rintro ⟨e, hmem, he⟩
      have he' : e = pre ++ c := by simpa using he
      subst he'
      refine ⟨pre ++ c, ⟨hmem, ?_⟩, ?_⟩
      · simp [List.isPrefixOf_iff_prefix]
      · simp [List.isSuffixOf_iff_suffix]

theorem agree_raw (ex : List Str) (c : Str)
    (hsf : (c.isEmpty || ex.all (fun e => !(true && c.isSuffixOf e) || e == c)) = true) :
    isCursorInExcludedPath c ex = ex.any (fun e => e == c) := by
  unfold isCursorInExcludedPath
  have hcon : ex.contains c = ex.any (fun e => e == c) := by
    rw [List.contains_eq_any_beq]
    congr 1
    funext e
    exact Bool.eq_iff_iff.mpr ⟨fun h => beq_iff_eq.mpr (beq_iff_eq.mp h).symm,
      fun h => beq_iff_eq.mpr (beq_iff_eq.mp h).symm⟩
  rw [hcon]
  cases hany : ex.any (fun e => e == c) with
  | true => simp
  | false =>
    simp only [Bool.false_eq_true, if_false]
    cases hne : c.isEmpty with
    | true => simp
    | false =>
      simp only [Bool.false_eq_true, if_false]
      rw [hne, Bool.false_or] at hsf
      rw [List.any_eq_false]
      intro e hmem hs
      have := (List.all_eq_true.mp hsf) e hmem
      simp only [hs, Bool.and_self, Bool.not_true, Bool.false_or] at this
      have hf := (List.any_eq_false.mp hany) e hmem
      exact hf this

theorem reqPrefix_eq : reqPrefix = '$' :: ".request.body".toList := by decide
theorem respPrefix_eq : respPrefix = '$' :: ".response.body".toList := by decide

/-- On a suffix-free cursor (and with the whole body not excluded by prefix alone) the walk's test is
    the declarative one. -/
theorem excl_agree (side : Side) (ex : List Str) (p : List Step)
    (hsf : cursorSuffixFree side ex (render p) = true) (hroot : rootNotDenoted side ex = true) :
    modelExcl (bodyExclusions side ex) (render p) = specExcluded side ex (render p) := by
  have hhead : render p = [] ∨ ∃ ch r, render p = ch :: r ∧ (ch = '.' ∨ ch = '[') := by
    rcases render_head p with ⟨_, h⟩ | h
    · exact Or.inl h
    · exact Or.inr h
  cases side with
  | raw =>
    simp only [modelExcl, bodyExclusions, specExcluded, denotes]
    exact agree_raw ex (render p) (by simpa [cursorSuffixFree, relevant, denotes] using hsf)
  | req =>
    simp only [modelExcl, bodyExclusions, filterBodyExclusions, specExcluded, denotes]
    refine agree_prefixed reqPrefix _ reqPrefix_eq ex (render p) hhead
      (by simpa [cursorSuffixFree, relevant, denotes] using hsf) ?_
    intro _
    simpa [rootNotDenoted, specExcluded, denotes] using hroot
  | resp =>
    simp only [modelExcl, bodyExclusions, filterBodyExclusions, specExcluded, denotes]
    refine agree_prefixed respPrefix _ respPrefix_eq ex (render p) hhead
      (by simpa [cursorSuffixFree, relevant, denotes] using hsf) ?_
    intro _
    simpa [rootNotDenoted, specExcluded, denotes] using hroot

/-! ### Transfer: on suffix-free inputs, conformance w.r.t. the walk's test IS the property -/

mutual
theorem conforms_transfer (H : Str → Str) (side : Side) (ex : List Str)
    (hroot : rootNotDenoted side ex = true) : ∀ (d out : Json) (p : List Step),
    suffixFreeAt side ex p d = true →
    conformsWith H (modelExcl (bodyExclusions side ex)) p d out
      = conformsWith H (specExcluded side ex) p d out
  | .arr xs, out, p, h => by
    simp only [suffixFreeAt, Bool.and_eq_true] at h
    simp only [conformsWith, excl_agree side ex p h.1 hroot]
    by_cases he : specExcluded side ex (render p) = true
    · simp [he]
    · simp only [he, if_false, Bool.false_eq_true]
      cases out with
      | arr ys => exact conformsList_transfer H side ex hroot xs ys p 0 h.2
      | _ => rfl
  | .obj kvs, out, p, h => by
    simp only [suffixFreeAt, Bool.and_eq_true] at h
    simp only [conformsWith, excl_agree side ex p h.1 hroot]
    by_cases he : specExcluded side ex (render p) = true
    · simp [he]
    · simp only [he, if_false, Bool.false_eq_true]
      cases out with
      | obj ovs => exact conformsFields_transfer H side ex hroot kvs ovs p h.2
      | _ => rfl
  | .null, out, p, h => by
    simp only [suffixFreeAt] at h
    simp only [conformsWith, excl_agree side ex p h hroot]
  | .bool b, out, p, h => by
    simp only [suffixFreeAt] at h
    simp only [conformsWith, excl_agree side ex p h hroot]
  | .num l, out, p, h => by
    simp only [suffixFreeAt] at h
    simp only [conformsWith, excl_agree side ex p h hroot]
  | .str s, out, p, h => by
    simp only [suffixFreeAt] at h
    simp only [conformsWith, excl_agree side ex p h hroot]
theorem conformsList_transfer (H : Str → Str) (side : Side) (ex : List Str)
    (hroot : rootNotDenoted side ex = true) : ∀ (xs ys : List Json) (p : List Step) (i : Nat),
    suffixFreeList side ex p i xs = true →
    conformsList H (modelExcl (bodyExclusions side ex)) p i xs ys
      = conformsList H (specExcluded side ex) p i xs ys
  | [], ys, p, i, _ => by cases ys <;> simp [conformsList]
  | x :: xs, ys, p, i, h => by
    cases ys with
    | nil => simp [conformsList]
    | cons y ys =>
      simp only [suffixFreeList, Bool.and_eq_true] at h
      simp only [conformsList]
      rw [conforms_transfer H side ex hroot x y _ h.1, conformsList_transfer H side ex hroot xs ys p (i + 1) h.2]
theorem conformsFields_transfer (H : Str → Str) (side : Side) (ex : List Str)
    (hroot : rootNotDenoted side ex = true) : ∀ (kvs ovs : List (Str × Json)) (p : List Step),
    suffixFreeFields side ex p kvs = true →
    conformsFields H (modelExcl (bodyExclusions side ex)) p kvs ovs
      = conformsFields H (specExcluded side ex) p kvs ovs
  | [], ovs, p, _ => by cases ovs <;> simp [conformsFields]
  | (k, v) :: r, ovs, p, h => by
    cases ovs with
    | nil => simp [conformsFields]
    | cons y ovs =>
      obtain ⟨k', o⟩ := y
      simp only [suffixFreeFields, Bool.and_eq_true] at h
      simp only [conformsFields]
      rw [conforms_transfer H side ex hroot v o _ h.1, conformsFields_transfer H side ex hroot r ovs p h.2]
end

/-! ### Small bridges used by the property theorems -/

theorem coveredFrom_mono (E E' : Str → Bool) (hm : ∀ c, E c = true → E' c = true) :
    ∀ (q p0 : List Step), coveredFrom E p0 q = true → coveredFrom E' p0 q = true := by
  intro q
  induction q with
  | nil => intro p0 h; exact hm _ h
  | cons s q ih =>
    intro p0 h
    simp only [coveredFrom, Bool.or_eq_true] at h ⊢
    rcases h with h | h
    · exact Or.inl (hm _ h)
    · exact Or.inr (ih _ h)

/-- An explicitly excluded position is excluded by the walk (whole-body-by-prefix aside). -/
theorem spec_imp_model (side : Side) (ex : List Str) (hroot : rootNotDenoted side ex = true) (c : Str)
    (h : specExcluded side ex c = true) : modelExcl (bodyExclusions side ex) c = true := by
  have key : ∀ (pre : Str), (ex.any fun e => e == pre ++ []) = false → (ex.any fun e => e == pre ++ c) = true →
      isCursorInExcludedPath c (ex.filter fun e => pre.isPrefixOf e) = true := by
    intro pre hr hc
    unfold isCursorInExcludedPath
    by_cases hcon : (ex.filter fun e => pre.isPrefixOf e).contains c = true
    · rw [if_pos hcon]
    · simp only [hcon, if_false, Bool.false_eq_true]
      have hne : c.isEmpty = false := by
        cases c with
        | nil => rw [hr] at hc; simp at hc
        | cons _ _ => rfl
      simp only [hne, if_false, Bool.false_eq_true]
      obtain ⟨e, hmem, he⟩ := List.any_eq_true.mp hc
      have he' : e = pre ++ c := by simpa using he
      subst he'
      exact List.any_eq_true.mpr ⟨pre ++ c, List.mem_filter.mpr ⟨hmem, by simp [List.isPrefixOf_iff_prefix]⟩,
        by simp [List.isSuffixOf_iff_suffix]⟩
  cases side with
  | raw =>
    simp only [specExcluded, denotes] at h
    obtain ⟨e, hmem, he⟩ := List.any_eq_true.mp h
    have he' : e = c := by simpa using he
    subst he'
    have : ex.contains e = true := by simpa using hmem
    show isCursorInExcludedPath e ex = true
    unfold isCursorInExcludedPath
    rw [if_pos this]
  | req =>
    simp only [specExcluded, denotes] at h
    simp only [modelExcl, bodyExclusions, filterBodyExclusions]
    exact key reqPrefix (by simpa [rootNotDenoted, specExcluded, denotes] using hroot) h
  | resp =>
    simp only [specExcluded, denotes] at h
    simp only [modelExcl, bodyExclusions, filterBodyExclusions]
    exact key respPrefix (by simpa [rootNotDenoted, specExcluded, denotes] using hroot) h

/-- What conformance says about a primitive at a non-excluded position. -/
theorem conforms_leaf (H : Str → Str) (E : Str → Bool) (p : List Step) (v o : Json)
    (hl : isLeaf v = true) (he : E (render p) = false) (h : conformsWith H E p v o = true) :
    o = .str (H (leafPre v)) := by
  cases v <;> simp only [isLeaf, Bool.false_eq_true] at hl <;>
    simp only [conformsWith, he, if_false, Bool.false_eq_true] at h <;> exact Json.eq_of_beq _ _ h

/-! ### The proposed patch makes the walk's test the declarative one -/

theorem fixedFilter_contains (pre : Str) (ex : List Str) (c : Str) :
    (fixedFilter pre ex).contains c = ex.any (fun e => e == pre ++ c) := by
  rw [Bool.eq_iff_iff]
  simp only [fixedFilter, List.contains_iff_mem, List.mem_map, List.mem_filter, List.any_eq_true, beq_iff_eq]
  constructor
  · rintro ⟨e, ⟨hmem, hp⟩, hd⟩
    obtain ⟨t, rfl⟩ := List.isPrefixOf_iff_prefix.mp hp
    simp only [List.drop_left] at hd
    subst hd
    exact ⟨_, hmem, rfl⟩
  · rintro ⟨e, hmem, rfl⟩
    exact ⟨pre ++ c, ⟨hmem, by simp [List.isPrefixOf_iff_prefix]⟩, by simp⟩

theorem fixedExcl_eq_spec (side : Side) (ex : List Str) :
    fixedExcl (fixedExclusions side ex) = specExcluded side ex := by
  funext c
  cases side with
  | raw =>
    simp only [fixedExcl, fixedExclusions, specExcluded, denotes]
    rw [List.contains_eq_any_beq]
    congr 1
    funext e
    exact Bool.eq_iff_iff.mpr ⟨fun h => beq_iff_eq.mpr (beq_iff_eq.mp h).symm,
      fun h => beq_iff_eq.mpr (beq_iff_eq.mp h).symm⟩
  | req => simp only [fixedExcl, fixedExclusions, specExcluded, denotes]; exact fixedFilter_contains _ _ _
  | resp => simp only [fixedExcl, fixedExclusions, specExcluded, denotes]; exact fixedFilter_contains _ _ _

end LunarVerif.C16
