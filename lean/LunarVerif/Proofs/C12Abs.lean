import LunarVerif.Proofs.C12
/-! C12: the concrete cache refines the abstract map `Key → Option (value, expiry)`. -/
set_option linter.unusedSectionVars false
set_option linter.unusedSimpArgs false
namespace LunarVerif.C12

section
variable {κ ν : Type} [DecidableEq κ]

/-- abstraction function -/
def abs (c : Cache κ ν) : AMap κ ν := fun k => (find? k c.entries).map fun e => (e.val, e.expiry)

/-- The abstract effect of an operation.  The cache state `c` is consulted only for what the abstract map
    does not contain: the verdict of the size test and which sleeper is scheduled. -/
def astep (c : Cache κ ν) (a : AMap κ ν) : Ev κ ν → AMap κ ν
  | .set k v ttl sz =>
    if (set c k v ttl sz).2 = .ok then (if ttl > 0 then a.put k (v, c.now + ttl) else a.del k) else a
  | .del k => a.del k
  | .fire i =>
    match c.pending[i]? with
    | some s => if s.due ≤ c.mono then a.del s.key else a
    | none => a
  | .adv d =>
    (c.pending.filter (fun s => decide (s.due ≤ c.mono + (d : Nat)))).foldl (fun a s => a.del s.key) a
  | _ => a

theorem abs_erase (c : Cache κ ν) (k : κ) (es : List (κ × Entry ν)) (h : es = erase k c.entries)
    (c' : Cache κ ν) (hc : c'.entries = es) : abs c' = (abs c).del k := by
  funext k'
  simp only [abs, AMap.del, hc, h, find?_erase]
  by_cases hk : k' = k <;> simp [hk]

theorem abs_clearKey (c : Cache κ ν) (k : κ) : abs (clearKey c k) = (abs c).del k :=
  abs_erase c k _ rfl _ rfl

theorem abs_clearAll (c : Cache κ ν) (l : List (Sleeper κ)) :
    abs (clearAll c l) = l.foldl (fun a s => a.del s.key) (abs c) := by
  induction l generalizing c with
  | nil => rfl
  | cons s rest ih => simp only [clearAll, List.foldl_cons, ih, abs_clearKey]

theorem abs_get (c : Cache κ ν) (k : κ) : get c k = (abs c).lookup c.now k := by
  simp only [get, abs, AMap.lookup]
  cases find? k c.entries with
  | none => rfl
  | some e => rfl

theorem abs_has (c : Cache κ ν) (k : κ) : has c k = ((abs c).lookup c.now k).isSome := by
  simp only [has, abs, AMap.lookup]
  cases find? k c.entries with
  | none => rfl
  | some e =>
    simp only [Option.map_some]
    by_cases hx : c.now > e.expiry <;> simp [hx]

theorem abs_step (c : Cache κ ν) (ev : Ev κ ν) : abs (step c ev).1 = astep c (abs c) ev := by
  cases ev with
  | set k v ttl sz =>
    simp only [step, astep]
    rcases set_cases c k v ttl sz with ⟨_, h1⟩ | ⟨_, hok, _, _, _, hcase⟩
    · rw [h1]; simp
    · rw [hok]; simp only [if_true]
      rcases hcase with ⟨httl, hent, _⟩ | ⟨httl, hent, _⟩
      · simp only [httl, if_true]
        funext k'
        simp only [abs, hent, AMap.put, find?]
        by_cases hk : k' = k
        · subst hk; simp
        · have hk2 : ¬ k = k' := fun x => hk x.symm
          simp [hk, hk2, find?_erase]
      · simp only [httl, if_false]
        exact abs_erase c k _ rfl _ hent
  | get k => rfl
  | has k => rfl
  | del k => exact abs_clearKey c k
  | fire i =>
    simp only [step, astep]
    rcases fire_cases c i with h1 | h1 | ⟨s, hs, hd, h1⟩
    · rw [h1]
      unfold fire at h1
      cases hp : c.pending[i]? with
      | none => rfl
      | some s =>
        simp only [hp] at h1
        by_cases hd : s.due ≤ c.mono
        · simp [hd] at h1
        · simp [hd]
    · rw [h1]
      unfold fire at h1
      cases hp : c.pending[i]? with
      | none => rfl
      | some s =>
        simp only [hp] at h1
        by_cases hd : s.due ≤ c.mono
        · simp [hd] at h1
        · simp [hd]
    · rw [h1, hs]
      simp only [hd, if_true]
      exact abs_erase c s.key _ rfl _ rfl
  | skip d => rfl
  | wstep d => rfl
  | adv d => exact abs_clearAll c _
  | probe => rfl

end

end LunarVerif.C12
