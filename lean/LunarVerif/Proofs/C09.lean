import LunarVerif.Spec.C09
/-! Helper lemmas for C09: association-list frame lemmas, projection of a run onto one key,
    grid arithmetic, and the per-key invariant tying `singleRateLimitState` to the observable history. -/
namespace LunarVerif.C09

section
variable {κ : Type} [DecidableEq κ]

/-! ### association list -/

theorem find_set_same (k : κ) (v : KeyState) (st : State κ) : find k (set k v st) = some v := by
  induction st with
  | nil => simp [set, find]
  | cons p rest ih =>
    obtain ⟨k', v'⟩ := p
    by_cases h : k' = k
    · simp [set, find, h]
    · simp [set, find, h, ih]

theorem find_set_other (k k' : κ) (v : KeyState) (st : State κ) (hne : k' ≠ k) :
    find k' (set k v st) = find k' st := by
  induction st with
  | nil => simp [set, find, Ne.symm hne]
  | cons p rest ih =>
    obtain ⟨k'', v''⟩ := p
    by_cases h : k'' = k
    · subst h
      simp [set, find, Ne.symm hne]
    · by_cases h2 : k'' = k'
      · subst h2
        simp [set, find, h]
      · simp [set, find, h, h2, ih]

theorem stepL_key (cap : CapFn) (st : State κ) (r : Req κ) : (stepL cap st r).2.req = r := by
  simp [stepL, Event.req]

theorem stepL_other (cap : CapFn) (st : State κ) (r : Req κ) (k : κ) (hne : k ≠ r.key) :
    find k (stepL cap st r).1 = find k st := by
  simp only [stepL]
  exact find_set_other _ _ _ _ hne

theorem runL_inputs (cap : CapFn) (rs : List (Req κ)) (st : State κ) : inputs (runL cap st rs) = rs := by
  induction rs generalizing st with
  | nil => rfl
  | cons r rs ih =>
    simp only [runL, inputs, List.map_cons]
    rw [stepL_key]
    congr 1
    exact ih _

/-- Projection: the events of key `k` in a run are exactly the run of ONE `singleRateLimitState`
    over the requests of key `k` – whatever the other keys do. -/
theorem filter_runL (cap : CapFn) (k : κ) (rs : List (Req κ)) (st : State κ) :
    (runL cap st rs).filter (fun e => e.key == k)
      = runK cap ((find k st).getD initKey) (rs.filter (fun r => r.key == k)) := by
  induction rs generalizing st with
  | nil => rfl
  | cons r rs ih =>
    simp only [runL]
    by_cases hk : r.key = k
    · have hb : (r.key == k) = true := by simpa using hk
      have he : ((stepL cap st r).2.key == k) = true := by simpa [stepL] using hk
      rw [List.filter_cons, List.filter_cons]
      simp only [he, hb, if_true]
      rw [ih]
      simp only [runK, stepL, hk]
      rw [find_set_same]
      rfl
    · have hb : ¬ (r.key == k) = true := by simpa using hk
      have he : ¬ ((stepL cap st r).2.key == k) = true := by simpa [stepL] using hk
      rw [List.filter_cons, List.filter_cons]
      simp only [he, hb, Bool.false_eq_true, if_false]
      rw [ih]
      rw [stepL_other cap st r k (fun h => hk h.symm)]

/-! ### grid arithmetic -/

theorem same_window_before (W q t : Nat) (hW : 0 < W) (h : t / W = q / W) :
    ¬ ((q / W) * W + W ≤ t) := by
  have h1 := Nat.div_add_mod t W
  have h2 := Nat.mod_lt t hW
  rw [← h, Nat.mul_comm]
  omega

theorem new_window_reached (W q t : Nat) (hqt : q ≤ t) (h : t / W ≠ q / W) :
    (q / W) * W + W ≤ t := by
  have h1 := Nat.div_add_mod t W
  have h3 : q / W ≤ t / W := Nat.div_le_div_right hqt
  have h4 : q / W + 1 ≤ t / W := by omega
  have h5 : (q / W + 1) * W ≤ (t / W) * W := Nat.mul_le_mul_right W h4
  rw [Nat.add_mul, Nat.one_mul] at h5
  rw [Nat.mul_comm] at h1
  omega

theorem older_not_in_new_window (W x q t : Nat) (hxq : x ≤ q) (hqt : q ≤ t) (h : t / W ≠ q / W) :
    x / W ≠ t / W := by
  have h1 : x / W ≤ q / W := Nat.div_le_div_right hxq
  have h2 : q / W ≤ t / W := Nat.div_le_div_right hqt
  omega

/-! ### the reference functions -/

theorem passesInWin_zero (W idx : Nat) (h : List (Event κ)) (hno : ∀ e ∈ h, e.t / W ≠ idx) :
    passesInWin W idx h = 0 := by
  induction h with
  | nil => rfl
  | cons e older ih =>
    have h1 : e.t / W ≠ idx := hno e (by simp)
    have h2 := ih (fun x hx => hno x (by simp [hx]))
    simp [passesInWin, h1, h2]

theorem regimeW_cons_same (W : Nat) (p : Event κ) (l : List (Event κ)) (h : p.wd.W = W) :
    regimeW W (p :: l) = p :: regimeW W l := by
  simp [regimeW, List.takeWhile_cons, h]

theorem regimeW_cons_diff (W : Nat) (p : Event κ) (l : List (Event κ)) (h : p.wd.W ≠ W) :
    regimeW W (p :: l) = [] := by
  simp [regimeW, List.takeWhile_cons, h]

theorem mem_regimeW (W : Nat) (x : Event κ) (l : List (Event κ)) (hx : x ∈ regimeW W l) : x ∈ l := by
  induction l with
  | nil => simp [regimeW] at hx
  | cons p rest ih =>
    by_cases hp : p.wd.W = W
    · rw [regimeW_cons_same _ _ _ hp] at hx
      simp only [List.mem_cons] at hx ⊢
      rcases hx with rfl | hx
      · exact Or.inl rfl
      · exact Or.inr (ih hx)
    · rw [regimeW_cons_diff _ _ _ hp] at hx
      simp at hx

theorem regime_eq (e : Event κ) (older : List (Event κ)) (h : ∀ p ∈ older, p.wd.W = e.wd.W) :
    regime e older = older := by
  unfold regime
  induction older with
  | nil => rfl
  | cons q rest ih =>
    rw [regimeW_cons_same _ _ _ (h q (by simp)), ih (fun p hp => h p (by simp [hp]))]

theorem refSpill_cons_cons (e p : Event κ) (rest : List (Event κ)) :
    refSpill (e :: p :: rest) =
      if !e.wd.spillOn then 0
      else if p.wd.W != e.wd.W then refSpill (p :: rest)
      else if e.t / e.wd.W == p.t / e.wd.W then refSpill (p :: rest)
      else if dayOfMonth e.t == e.wd.renewDay then 0
      else refSpill (p :: rest) + e.wd.allowed
              - passesInWin e.wd.W (p.t / e.wd.W) (regime e (p :: rest)) := by
  rw [refSpill]

theorem refSpill_single (e : Event κ) : refSpill [e] = 0 := by
  simp [refSpill]

theorem holdsKeyRev_append_right (cap : CapFn) (a b : List (Event κ)) (h : holdsKeyRev cap (a ++ b) = true) :
    holdsKeyRev cap b = true := by
  induction a with
  | nil => simpa using h
  | cons x xs ih =>
    simp only [List.cons_append, holdsKeyRev, Bool.and_eq_true] at h
    exact ih h.2

/-! ### per-key invariant -/

/-- Invariant between one `singleRateLimitState` and the key's history so far (most recent first). -/
def InvK (s : KeyState) (acc : List (Event κ)) : Prop :=
  match acc with
  | [] => s.windowEnd = 0 ∧ s.spill = 0
  | p :: _ =>
    s.wd.W = p.wd.W ∧ 0 < p.wd.W ∧ s.windowEnd = (p.t / p.wd.W) * p.wd.W + p.wd.W ∧
    s.counter = passesInWin p.wd.W (p.t / p.wd.W) (regimeW p.wd.W acc) ∧
    s.spill = refSpill acc ∧ (∀ e ∈ acc, e.t ≤ p.t)

theorem invK_init : InvK (κ := κ) initKey [] := by
  simp [InvK, initKey]

/-- the spill-over the code computes when it resets the stored window of state `a` -/
def resetSpill (t : Nat) (wd : WindowData) (a : KeyState) : Int :=
  if (wd.spillOn && (a.windowEnd != 0)) = true then
    (if (dayOfMonth t == wd.renewDay) = true then 0 else a.spill + wd.allowed - (a.counter : Int))
  else a.spill

/-- the spill-over `TryToIncrement` starts from: none when the feature is off (fix F09f) -/
def spill0 (wd : WindowData) (s : KeyState) : Int := if wd.spillOn then s.spill else 0

theorem adjust_same (wd : WindowData) (s : KeyState) (h : s.wd.W = wd.W) :
    adjust wd s = ⟨s.counter, spill0 wd s, s.windowEnd, wd⟩ := by
  simp [adjust, spill0, h]

theorem adjust_diff (wd : WindowData) (s : KeyState) (h : s.wd.W ≠ wd.W) :
    adjust wd s = ⟨s.counter, spill0 wd s, 0, wd⟩ := by
  simp [adjust, spill0, h]

theorem adjust_of_zero (wd : WindowData) (s : KeyState) (h : s.windowEnd = 0) :
    adjust wd s = ⟨s.counter, spill0 wd s, 0, wd⟩ := by
  by_cases hW : s.wd.W = wd.W
  · rw [adjust_same _ _ hW, h]
  · exact adjust_diff _ _ hW

theorem tryInc_reset (cap : CapFn) (t : Nat) (wd : WindowData) (s a : KeyState) (ha : adjust wd s = a)
    (hawd : a.wd = wd) (hge : a.windowEnd ≤ t) :
    tryInc cap t wd s =
      if cap (wd.allowed + resetSpill t wd a) wd.ratio ≤ 0
      then (⟨0, resetSpill t wd a, (t / wd.W) * wd.W + wd.W, wd⟩, false)
      else (⟨1, resetSpill t wd a, (t / wd.W) * wd.W + wd.W, wd⟩, true) := by
  simp only [tryInc, ha, ensure, hawd, hge, if_true, resetSpill]
  split <;> simp_all

theorem tryInc_keep (cap : CapFn) (t : Nat) (wd : WindowData) (s a : KeyState) (ha : adjust wd s = a)
    (hawd : a.wd = wd) (hlt : ¬ a.windowEnd ≤ t) :
    tryInc cap t wd s =
      if cap (wd.allowed + a.spill) wd.ratio ≤ (a.counter : Int)
      then (⟨a.counter, a.spill, a.windowEnd, wd⟩, false)
      else (⟨a.counter + 1, a.spill, a.windowEnd, wd⟩, true) := by
  simp only [tryInc, ha, ensure, hawd, hlt, if_false]
  cases a
  split <;> simp_all

theorem mem_cons_le (t : Nat) (x : Event κ) (acc : List (Event κ)) (hx : x.t = t)
    (hmono : ∀ e ∈ acc, e.t ≤ t) : ∀ e ∈ x :: acc, e.t ≤ x.t := by
  intro e he
  simp only [List.mem_cons] at he
  rcases he with rfl | he
  · exact Nat.le_refl _
  · rw [hx]; exact hmono e he

theorem tryInc_inv (cap : CapFn) (s : KeyState) (acc : List (Event κ))
    (r : Req κ) (hinv : InvK s acc) (hW : 0 < r.wd.W) (hmono : ∀ e ∈ acc, e.t ≤ r.t) :
    InvK (tryInc cap r.t r.wd s).1 (⟨r.key, r.t, r.wd, (tryInc cap r.t r.wd s).2⟩ :: acc) ∧
    eventOk cap ⟨r.key, r.t, r.wd, (tryInc cap r.t r.wd s).2⟩ acc = true := by
  obtain ⟨rk, t, wd⟩ := r
  simp only at hW hmono ⊢
  cases acc with
  | nil =>
    obtain ⟨hwe, hsp⟩ := hinv
    have ha := adjust_of_zero wd s hwe
    have hsp0 : spill0 wd s = 0 := by simp [spill0, hsp]
    rw [hsp0] at ha
    have hrsp : resetSpill t wd ⟨s.counter, 0, 0, wd⟩ = 0 := by simp [resetSpill]
    rw [tryInc_reset cap t wd s _ ha rfl (Nat.zero_le _), hrsp]
    split
    · next hc =>
      try dsimp only at hc
      refine ⟨⟨rfl, hW, rfl, ?_, ?_, ?_⟩, ?_⟩
      · simp [regimeW, passesInWin]
      · rw [refSpill_single]
      · simp
      · simp only [eventOk, regime, regimeW, List.takeWhile_nil, passesInWin, refSpill_single]
        simp only [Int.add_zero] at hc
        simp
        omega
    · next hc =>
      try dsimp only at hc
      refine ⟨⟨rfl, hW, rfl, ?_, ?_, ?_⟩, ?_⟩
      · simp [regimeW, passesInWin]
      · rw [refSpill_single]
      · simp
      · simp only [eventOk, regime, regimeW, List.takeWhile_nil, passesInWin, refSpill_single]
        simp only [Int.add_zero] at hc
        simp
        omega
  | cons q rest =>
    obtain ⟨hsW, hqW0, hwe, hcnt, hsp, hle⟩ := hinv
    have hqt : q.t ≤ t := hmono q (by simp)
    by_cases hWeq : q.wd.W = wd.W
    · -- the window size is unchanged
      rw [hWeq] at hsW hwe hcnt
      have ha := adjust_same wd s hsW
      by_cases hsame : t / wd.W = q.t / wd.W
      · -- same grid window: the stored window is kept
        have hlt : ¬ (s.windowEnd ≤ t) := by rw [hwe]; exact same_window_before _ _ _ hW hsame
        have hcnt' : passesInWin wd.W (t / wd.W) (regimeW wd.W (q :: rest)) = s.counter := by
          rw [hsame, hcnt]
        have hrs : ∀ p : Bool, refSpill ((⟨rk, t, wd, p⟩ : Event κ) :: q :: rest) = spill0 wd s := by
          intro p; rw [refSpill_cons_cons]
          cases hso : wd.spillOn <;> simp [spill0, hso, hWeq, hsame, hsp]
        rw [tryInc_keep cap t wd s _ ha rfl hlt]
        split
        · next hc =>
          try dsimp only at hc
          refine ⟨⟨rfl, hW, ?_, ?_, ?_, ?_⟩, ?_⟩
          · simp [hwe, hsame]
          · rw [regimeW_cons_same _ _ _ rfl]
            simp only [passesInWin, Bool.false_and, Bool.false_eq_true, if_false, Nat.zero_add]
            omega
          · rw [hrs]
          · exact mem_cons_le t _ _ rfl hmono
          · simp only [eventOk, regime, hrs, hcnt']
            simp
            omega
        · next hc =>
          try dsimp only at hc
          refine ⟨⟨rfl, hW, ?_, ?_, ?_, ?_⟩, ?_⟩
          · simp [hwe, hsame]
          · rw [regimeW_cons_same _ _ _ rfl]
            simp only [passesInWin, Bool.true_and, beq_self_eq_true, if_true]
            omega
          · rw [hrs]
          · exact mem_cons_le t _ _ rfl hmono
          · simp only [eventOk, regime, hrs, hcnt']
            simp
            omega
      · -- a new grid window: the stored window is reset
        have hge : s.windowEnd ≤ t := by rw [hwe]; exact new_window_reached _ _ _ hqt hsame
        have hwe0 : (s.windowEnd != 0) = true := by
          have : s.windowEnd ≠ 0 := by rw [hwe]; omega
          simpa using this
        have hzero : passesInWin wd.W (t / wd.W) (regimeW wd.W (q :: rest)) = 0 :=
          passesInWin_zero _ _ _ (fun e he =>
            older_not_in_new_window _ _ _ _ (hle e (mem_regimeW _ _ _ he)) hqt hsame)
        have hrs : ∀ p : Bool, refSpill ((⟨rk, t, wd, p⟩ : Event κ) :: q :: rest)
            = resetSpill t wd ⟨s.counter, spill0 wd s, s.windowEnd, wd⟩ := by
          intro p
          have hne : ¬ (t / wd.W = q.t / wd.W) := hsame
          rw [refSpill_cons_cons]
          cases hso : wd.spillOn
          · simp [resetSpill, spill0, hso]
          · simp only [resetSpill, spill0, hso, regime, hwe0, Bool.and_true, beq_iff_eq, bne_iff_ne, ne_eq, hWeq,
              not_true_eq_false, hne, if_false, if_true, Bool.not_true, Bool.false_eq_true, ← hsp, ← hcnt]
        rw [tryInc_reset cap t wd s _ ha rfl hge]
        split
        · next hc =>
          try dsimp only at hc
          refine ⟨⟨rfl, hW, rfl, ?_, ?_, ?_⟩, ?_⟩
          · rw [regimeW_cons_same _ _ _ rfl]
            simp only [passesInWin, Bool.false_and, Bool.false_eq_true, if_false, Nat.zero_add]
            omega
          · rw [hrs]
          · exact mem_cons_le t _ _ rfl hmono
          · simp only [eventOk, regime, hrs, hzero]
            simp
            omega
        · next hc =>
          try dsimp only at hc
          refine ⟨⟨rfl, hW, rfl, ?_, ?_, ?_⟩, ?_⟩
          · rw [regimeW_cons_same _ _ _ rfl]
            simp only [passesInWin, Bool.true_and, beq_self_eq_true, if_true]
            omega
          · rw [hrs]
          · exact mem_cons_le t _ _ rfl hmono
          · simp only [eventOk, regime, hrs, hzero]
            simp
            omega
    · -- the window size changed: counting starts afresh, the spill-over is carried as is
      have hsW' : s.wd.W ≠ wd.W := by rw [hsW]; exact hWeq
      have ha := adjust_diff wd s hsW'
      have hrsp : resetSpill t wd ⟨s.counter, spill0 wd s, 0, wd⟩ = spill0 wd s := by simp [resetSpill]
      have hrs : ∀ p : Bool, refSpill ((⟨rk, t, wd, p⟩ : Event κ) :: q :: rest) = spill0 wd s := by
        intro p; rw [refSpill_cons_cons]
        cases hso : wd.spillOn <;> simp [spill0, hso, hWeq, hsp]
      have hreg : regimeW wd.W (q :: rest) = [] := regimeW_cons_diff _ _ _ hWeq
      rw [tryInc_reset cap t wd s _ ha rfl (Nat.zero_le _), hrsp]
      split
      · next hc =>
        try dsimp only at hc
        refine ⟨⟨rfl, hW, rfl, ?_, ?_, ?_⟩, ?_⟩
        · rw [regimeW_cons_same _ _ _ rfl, hreg]
          simp [passesInWin]
        · rw [hrs]
        · exact mem_cons_le t _ _ rfl hmono
        · simp only [eventOk, regime, hrs, hreg, passesInWin]
          simp
          omega
      · next hc =>
        try dsimp only at hc
        refine ⟨⟨rfl, hW, rfl, ?_, ?_, ?_⟩, ?_⟩
        · rw [regimeW_cons_same _ _ _ rfl, hreg]
          simp [passesInWin]
        · rw [hrs]
        · exact mem_cons_le t _ _ rfl hmono
        · simp only [eventOk, regime, hrs, hreg, passesInWin]
          simp
          omega

/-- Every run of one `singleRateLimitState` over admissible requests satisfies the per-key Spec. -/
theorem runK_holds (cap : CapFn) (rs : List (Req κ)) :
    ∀ (s : KeyState) (acc : List (Event κ)), InvK s acc → holdsKeyRev cap acc = true →
      (∀ r ∈ rs, 0 < r.wd.W) → rs.Pairwise (fun a b => a.t ≤ b.t) →
      (∀ e ∈ acc, ∀ r ∈ rs, e.t ≤ r.t) →
      holdsKeyRev cap ((runK cap s rs).reverse ++ acc) = true := by
  induction rs with
  | nil => intro s acc _ h _ _ _; simpa [runK] using h
  | cons r rs ih =>
    intro s acc hinv hacc hrs hsorted hle
    have hstep := tryInc_inv cap s acc r hinv (hrs r (by simp)) (fun e he => hle e he r (by simp))
    simp only [runK, List.reverse_cons, List.append_assoc, List.singleton_append]
    rw [List.pairwise_cons] at hsorted
    apply ih _ _ hstep.1
    · simp only [holdsKeyRev, Bool.and_eq_true]; exact ⟨hstep.2, hacc⟩
    · intro r' hr'; exact hrs r' (by simp [hr'])
    · exact hsorted.2
    · intro e he r' hr'
      simp only [List.mem_cons] at he
      rcases he with rfl | he
      · exact hsorted.1 r' hr'
      · exact hle e he r' (by simp [hr'])

theorem keyHist_runL (cap : CapFn) (k : κ) (rs : List (Req κ)) :
    keyHist k (runL cap [] rs) = (runK cap initKey (rs.filter (fun r => r.key == k))).reverse := by
  simp [keyHist, filter_runL, find]

theorem runL_holds_of_admissible (cap : CapFn) (rs : List (Req κ)) (hadm : admissible rs = true) :
    holds cap (runL cap [] rs) = true := by
  simp only [admissible, monotone, posW, Bool.and_eq_true, decide_eq_true_eq, List.all_eq_true] at hadm
  simp only [holds, List.all_eq_true]
  intro e _
  rw [keyHist_runL]
  have := runK_holds cap (rs.filter (fun r => r.key == e.key)) initKey [] invK_init rfl
    (fun r hr => hadm.2 r (List.mem_filter.mp hr).1) (hadm.1.filter _) (fun _ h => by simp at h)
  simpa using this

/-! ### consequences of `holds` for a split history -/

theorem keyHist_append (k : κ) (a b : List (Event κ)) : keyHist k (a ++ b) = keyHist k b ++ keyHist k a := by
  simp [keyHist]

theorem keyHist_single (e : Event κ) : keyHist e.key [e] = [e] := by
  simp [keyHist]

theorem holds_split (cap : CapFn) (pre post : List (Event κ)) (e : Event κ)
    (h : holds cap (pre ++ e :: post) = true) : eventOk cap e (keyHist e.key pre) = true := by
  simp only [holds, List.all_eq_true] at h
  have h1 := h e (by simp)
  have h2 : pre ++ e :: post = pre ++ ([e] ++ post) := by simp
  rw [h2, keyHist_append, keyHist_append, keyHist_single, List.append_assoc] at h1
  have h3 := holdsKeyRev_append_right cap _ _ h1
  simp only [List.singleton_append, holdsKeyRev, Bool.and_eq_true] at h3
  exact h3.1

/-! ### constant window data, spill-over off: the plain "≤ cap per grid window" form -/

theorem refSpill_zero (h : List (Event κ)) (hoff : ∀ e ∈ h, e.wd.spillOn = false) : refSpill h = 0 := by
  induction h with
  | nil => rfl
  | cons e older ih =>
    cases older with
    | nil => simp [refSpill]
    | cons p rest =>
      have h1 := ih (fun x hx => hoff x (by simp [hx]))
      have h2 := hoff e (by simp)
      rw [refSpill_cons_cons, h1, h2]
      simp

theorem holdsKeyRev_bound (cap : CapFn) (wd : WindowData) (idx : Nat) (h : List (Event κ))
    (hconst : ∀ e ∈ h, e.wd = wd) (hoff : wd.spillOn = false) (hh : holdsKeyRev cap h = true) :
    (passesInWin wd.W idx h : Int) ≤ max 0 (cap wd.allowed wd.ratio) := by
  induction h with
  | nil => simp [passesInWin]; omega
  | cons e older ih =>
    simp only [holdsKeyRev, Bool.and_eq_true] at hh
    have hih := ih (fun x hx => hconst x (by simp [hx])) hh.2
    have hewd : e.wd = wd := hconst e (by simp)
    by_cases hc : (e.pass && e.t / wd.W == idx) = true
    · simp only [Bool.and_eq_true, beq_iff_eq] at hc
      have hsp : refSpill (e :: older) = 0 :=
        refSpill_zero _ (fun x hx => by rw [hconst x hx]; exact hoff)
      have hok := hh.1
      rw [eventOk, regime_eq _ _ (fun x hx => by rw [hconst x (by simp [hx]), hewd])] at hok
      simp only [hsp, hewd, hc.1, hc.2, Int.add_zero] at hok
      simp only [passesInWin, hc.1, hc.2, Bool.true_and, beq_self_eq_true, if_true]
      simp at hok
      omega
    · simp only [passesInWin, hc, Bool.false_eq_true, if_false, Nat.zero_add]
      exact hih

end
/-- window data of an ungrouped remedy: `Wsec` seconds window, `allowed` per window, spill-over off
    (used by the witnesses in `Properties/C09.lean`) -/
def wd1 (Wsec : Nat) (allowed : Int) : WindowData := ⟨Wsec * 1000000000, allowed, .one, false, 0⟩

/-! ### plugin layer -/

theorem resolve_limited_W (r : Remedy) (hs : List (String × String)) (key : Key) (wd : WindowData)
    (h : resolve r hs = .limited key wd) : wd.W = r.winSec * 1000000000 := by
  unfold resolve at h
  dsimp only at h
  repeat' split at h
  all_goals first
    | (injection h with h1 h2; rw [← h2])
    | (exact absurd h (by simp))
    | skip

theorem pluginStep_direct (cap : CapFn) (st : State Key) (r : Remedy) (hs : List (String × String)) (t : Nat)
    (a : Answer) (h : resolve r hs = .direct a) : pluginStep cap st r hs t = (st, a) := by
  simp [pluginStep, h]

theorem pluginStep_limited (cap : CapFn) (st : State Key) (r : Remedy) (hs : List (String × String)) (t : Nat)
    (key : Key) (wd : WindowData) (h : resolve r hs = .limited key wd) (hW : wd.W ≠ 0) :
    pluginStep cap st r hs t =
      ((stepL cap st ⟨key, t, wd⟩).1,
       if (stepL cap st ⟨key, t, wd⟩).2.pass then .noop else .early (effStatus r)) := by
  have : (wd.W == 0) = false := by simpa using hW
  simp [pluginStep, h, this]

theorem observe_pluginRun (cap : CapFn) (ps : List PReq) (hW : ∀ p ∈ ps, p.remedy.winSec ≠ 0) :
    ∀ st : State Key, observe ps (pluginRun cap st ps) = runL cap st (limitedReqs ps) := by
  induction ps with
  | nil => intro st; rfl
  | cons p ps ih =>
    intro st
    have ih' := ih (fun q hq => hW q (by simp [hq]))
    simp only [pluginRun, observe, limitedReqs, observe1]
    cases hres : resolve p.remedy p.hdrs with
    | direct a =>
      rw [pluginStep_direct cap st _ _ _ a hres]
      simp only [List.nil_append]
      exact ih' st
    | limited key wd =>
      have hw : wd.W ≠ 0 := by
        rw [resolve_limited_W _ _ _ _ hres]
        have := hW p (by simp)
        omega
      have hw' : (wd.W == 0) = false := by simpa using hw
      rw [pluginStep_limited cap st _ _ _ key wd hres hw]
      simp only [hw', Bool.false_eq_true, if_false]
      by_cases hp : (stepL cap st ⟨key, p.t, wd⟩).2.pass = true
      · simp only [hp, if_true, List.singleton_append, List.cons_append, List.nil_append, runL]
        rw [ih']
        congr 1
        simp only [stepL] at hp ⊢
        simp [hp]
      · simp only [hp, Bool.false_eq_true, if_false, List.singleton_append, List.cons_append, List.nil_append, runL]
        rw [ih']
        congr 1
        simp only [stepL] at hp ⊢
        simp at hp
        simp [hp]

theorem answerOk_pluginStep (cap : CapFn) (st : State Key) (p : PReq) :
    answerOk p (pluginStep cap st p.remedy p.hdrs p.t).2 = true := by
  unfold answerOk
  cases hres : resolve p.remedy p.hdrs with
  | direct a =>
    rw [pluginStep_direct cap st _ _ _ a hres]
    cases a <;> simp
  | limited key wd =>
    by_cases hw : wd.W = 0
    · simp [hw]
    · rw [pluginStep_limited cap st _ _ _ key wd hres hw]
      by_cases hp : (stepL cap st ⟨key, p.t, wd⟩).2.pass = true <;> simp [hp]

/-! ### the Spec depends on the keys only through the partition they induce -/

section
variable {κ κ' : Type} [DecidableEq κ] [DecidableEq κ']

theorem passesInWin_map_rekey (f : κ → κ') (W idx : Nat) (l : List (Event κ)) :
    passesInWin W idx (l.map (rekey f)) = passesInWin W idx l := by
  induction l with
  | nil => rfl
  | cons e rest ih => simp [passesInWin, rekey, ih]

theorem regimeW_map_rekey (f : κ → κ') (W : Nat) (l : List (Event κ)) :
    regimeW W (l.map (rekey f)) = (regimeW W l).map (rekey f) := by
  induction l with
  | nil => rfl
  | cons e rest ih =>
    by_cases h : e.wd.W = W
    · rw [List.map_cons, regimeW_cons_same _ _ _ (by simpa [rekey] using h), regimeW_cons_same _ _ _ h,
        List.map_cons, ih]
    · rw [List.map_cons, regimeW_cons_diff _ _ _ (by simpa [rekey] using h), regimeW_cons_diff _ _ _ h]
      rfl

theorem refSpill_map_rekey (f : κ → κ') (l : List (Event κ)) :
    refSpill (l.map (rekey f)) = refSpill l := by
  induction l with
  | nil => rfl
  | cons e rest ih =>
    cases rest with
    | nil => simp [refSpill]
    | cons p rest' =>
      have ih' : refSpill (rekey f p :: List.map (rekey f) rest') = refSpill (p :: rest') := by
        simpa using ih
      have hreg : regimeW e.wd.W (rekey f p :: List.map (rekey f) rest')
          = (regimeW e.wd.W (p :: rest')).map (rekey f) := by
        simpa using regimeW_map_rekey f e.wd.W (p :: rest')
      have he : (rekey f e).wd = e.wd ∧ (rekey f e).t = e.t := ⟨rfl, rfl⟩
      have hp : (rekey f p).wd = p.wd ∧ (rekey f p).t = p.t := ⟨rfl, rfl⟩
      simp only [List.map_cons]
      rw [refSpill_cons_cons, refSpill_cons_cons, ih']
      simp only [regime, he.1, he.2, hp.1, hp.2]
      rw [hreg, passesInWin_map_rekey]

theorem eventOk_rekey (f : κ → κ') (cap : CapFn) (e : Event κ) (older : List (Event κ)) :
    eventOk cap (rekey f e) (older.map (rekey f)) = eventOk cap e older := by
  have h1 := refSpill_map_rekey f (e :: older)
  have he : (rekey f e).wd = e.wd ∧ (rekey f e).t = e.t ∧ (rekey f e).pass = e.pass := ⟨rfl, rfl, rfl⟩
  simp only [List.map_cons] at h1
  simp only [eventOk, regime, h1, he.1, he.2.1, he.2.2]
  rw [regimeW_map_rekey, passesInWin_map_rekey]
  rfl

theorem holdsKeyRev_map_rekey (f : κ → κ') (cap : CapFn) (l : List (Event κ)) :
    holdsKeyRev cap (l.map (rekey f)) = holdsKeyRev cap l := by
  induction l with
  | nil => rfl
  | cons e rest ih => simp only [List.map_cons, holdsKeyRev, eventOk_rekey, ih]

/-- `holds` with the events grouped by `f key` instead of `key` -/
def holdsOn (f : κ → κ') (cap : CapFn) (h : List (Event κ)) : Bool :=
  h.all fun e => holdsKeyRev cap ((h.filter (fun x => f x.key == f e.key)).reverse)

theorem holds_map_rekey (f : κ → κ') (cap : CapFn) (h : List (Event κ)) :
    holds cap (h.map (rekey f)) = holdsOn f cap h := by
  simp only [holds, holdsOn, List.all_map, keyHist]
  congr 1
  funext e
  simp only [Function.comp]
  have : (h.map (rekey f)).filter (fun x => x.key == (rekey f e).key)
      = (h.filter (fun x => f x.key == f e.key)).map (rekey f) := by
    rw [List.filter_map]
    rfl
  rw [this, ← List.map_reverse, holdsKeyRev_map_rekey]

theorem holdsOn_congr {κ'' : Type} [DecidableEq κ''] (f : κ → κ') (g : κ → κ'') (cap : CapFn) (h : List (Event κ))
    (hfg : ∀ a ∈ h, ∀ b ∈ h, (f a.key == f b.key) = (g a.key == g b.key)) :
    holdsOn f cap h = holdsOn g cap h := by
  have key : ∀ e ∈ h, h.filter (fun x => f x.key == f e.key) = h.filter (fun x => g x.key == g e.key) :=
    fun e he => List.filter_congr (fun x hx => hfg x hx e he)
  rw [Bool.eq_iff_iff]
  simp only [holdsOn, List.all_eq_true]
  constructor
  · intro H e he; rw [← key e he]; exact H e he
  · intro H e he; rw [key e he]; exact H e he

end

theorem observeP_code (ps : List PReq) : ∀ as : List Answer,
    (observeP ps as).map (rekey (·.code)) = observe ps as := by
  induction ps with
  | nil => intro as; rfl
  | cons p ps ih =>
    intro as
    cases as with
    | nil => rfl
    | cons a as =>
      simp only [observeP, observe, observe1P, List.map_append, ih]
      congr 1
      cases observe1 p a <;> simp [rekey]

/-! ### the integer cap of the code is the exact rational cap (fix F09b) -/

theorem ratioUnits_of_dvd (n d k : Nat) (hd : 0 < d) (hk : n * 1000000 = d * k) :
    ratioUnits (.pct n d) = (k : Int) := by
  have hd0 : d ≠ 0 := by omega
  simp only [ratioUnits, hd0, if_false]
  congr 1
  have h1 : 2 * n * 1000000 + d = (2 * d) * k + d := by
    have : 2 * n * 1000000 = 2 * (n * 1000000) := Nat.mul_assoc 2 n 1000000
    rw [this, hk, Nat.mul_assoc]
  rw [h1, Nat.mul_add_div (by omega : 0 < 2 * d), Nat.div_eq_of_lt (by omega : d < 2 * d)]
  omega

/-- truncating division/remainder of a product term: ceiling by "truncate, plus one for a positive product with
    a remainder" -/
theorem ceil_of_trunc (P : Int) :
    (if 0 < P ∧ tmodR P ≠ 0 then tdivR P + 1 else tdivR P) = -((-P) / 100000000) := by
  unfold tmodR tdivR
  split <;> split <;> omega

/-- The Go formula (split into whole multiples of 1e8 and a rest) is ⌈count · units / 1e8⌉. -/
theorem capGo_eq_ceil (count units : Int) :
    capGo count units = -((-(count * units)) / 100000000) := by
  have hsplit : count * units = 100000000 * (tdivR count * units) + tmodR count * units := by
    unfold tmodR
    rw [Int.sub_mul, Int.mul_assoc]
    omega
  have hc := ceil_of_trunc (tmodR count * units)
  simp only [capGo]
  rw [hsplit]
  generalize tdivR count * units = A at *
  generalize tmodR count * units = P at *
  split at hc <;> split <;> omega

/-- int64 range -/
def fits64 (x : Int) : Prop := -9223372036854775808 ≤ x ∧ x ≤ 9223372036854775807

/-- No intermediate of `scaledCeil` leaves int64, for EVERY int64 count and every ratio in [0, 1]
    (units ≤ 1e8): the quotient, the remainder, both products, the partial sums and the result. -/
theorem capGo_fits (count units : Int) (hc : fits64 count) (hu0 : 0 ≤ units) (hu1 : units ≤ 100000000) :
    fits64 (tdivR count) ∧ fits64 (tmodR count) ∧ fits64 (tmodR count * units) ∧
    fits64 (tdivR count * units) ∧ fits64 (tdivR (tmodR count * units)) ∧
    fits64 (tmodR (tmodR count * units)) ∧
    fits64 (tdivR count * units + tdivR (tmodR count * units)) ∧
    (0 < tmodR count * units ∧ tmodR (tmodR count * units) ≠ 0 →
      fits64 (tdivR count * units + tdivR (tmodR count * units) + 1)) := by
  obtain ⟨hc1, hc2⟩ := hc
  -- the quotient q and remainder r of count
  have hq : (0 ≤ count → 0 ≤ tdivR count ∧ 100000000 * tdivR count ≤ count) ∧
            (count < 0 → tdivR count ≤ 0 ∧ count ≤ 100000000 * tdivR count) := by
    unfold tdivR; constructor <;> intro h <;> split <;> omega
  have hr : -100000000 < tmodR count ∧ tmodR count < 100000000 ∧
            (0 ≤ count → 0 ≤ tmodR count) ∧ (count < 0 → tmodR count ≤ 0) := by
    unfold tmodR tdivR; split <;> omega
  -- the product P = r·units lies strictly between −1e16 and 1e16
  have hP : -10000000000000000 < tmodR count * units ∧ tmodR count * units < 10000000000000000 := by
    rcases Int.le_total 0 (tmodR count) with h | h
    · have h1 : 0 ≤ tmodR count * units := Int.mul_nonneg h hu0
      have h2 : tmodR count * units ≤ tmodR count * 100000000 := Int.mul_le_mul_of_nonneg_left hu1 h
      omega
    · have h1 : tmodR count * units ≤ 0 := Int.mul_nonpos_of_nonpos_of_nonneg h hu0
      have h2 : tmodR count * 100000000 ≤ tmodR count * units := Int.mul_le_mul_of_nonpos_left h hu1
      omega
  -- the product A = q·units lies between 0 and q·1e8 (on the side of count)
  have hA : (0 ≤ count → 0 ≤ tdivR count * units ∧ tdivR count * units ≤ tdivR count * 100000000) ∧
            (count < 0 → tdivR count * units ≤ 0 ∧ tdivR count * 100000000 ≤ tdivR count * units) := by
    constructor
    · intro h
      exact ⟨Int.mul_nonneg (hq.1 h).1 hu0, Int.mul_le_mul_of_nonneg_left hu1 (hq.1 h).1⟩
    · intro h
      exact ⟨Int.mul_nonpos_of_nonpos_of_nonneg (hq.2 h).1 hu0, Int.mul_le_mul_of_nonpos_left (hq.2 h).1 hu1⟩
  have hPd : -100000000 ≤ tdivR (tmodR count * units) ∧ tdivR (tmodR count * units) ≤ 100000000 ∧
             -100000000 < tmodR (tmodR count * units) ∧ tmodR (tmodR count * units) < 100000000 ∧
             (0 ≤ tmodR count * units → 0 ≤ tdivR (tmodR count * units) ∧
                100000000 * tdivR (tmodR count * units) ≤ tmodR count * units) ∧
             (tmodR count * units < 0 → tdivR (tmodR count * units) ≤ 0 ∧
                tmodR count * units ≤ 100000000 * tdivR (tmodR count * units)) := by
    generalize tmodR count * units = P at hP ⊢
    unfold tmodR tdivR
    split <;> omega
  -- same sign of q·units and r·units (both follow the sign of count): the sum stays within |count|
  have hsign : (0 ≤ count → 0 ≤ tmodR count * units) ∧ (count < 0 → tmodR count * units ≤ 0) :=
    ⟨fun h => Int.mul_nonneg (hr.2.2.1 h) hu0, fun h => Int.mul_nonpos_of_nonpos_of_nonneg (hr.2.2.2 h) hu0⟩
  have hP2 : (0 ≤ count → tmodR count * units ≤ tmodR count * 100000000) ∧
             (count < 0 → tmodR count * 100000000 ≤ tmodR count * units) :=
    ⟨fun h => Int.mul_le_mul_of_nonneg_left hu1 (hr.2.2.1 h),
     fun h => Int.mul_le_mul_of_nonpos_left (hr.2.2.2 h) hu1⟩
  have hcount : count = 100000000 * tdivR count + tmodR count := by unfold tmodR; omega
  have hPeq : tmodR (tmodR count * units)
      = tmodR count * units - 100000000 * tdivR (tmodR count * units) := rfl
  unfold fits64
  rcases Int.lt_or_le count 0 with hneg | hpos
  · have := hq.2 hneg; have := hA.2 hneg; have := hr.2.2.2 hneg; have := hsign.2 hneg; have := hP2.2 hneg
    refine ⟨?_, ?_, ?_, ?_, ?_, ?_, ?_, ?_⟩ <;> omega
  · have := hq.1 hpos; have := hA.1 hpos; have := hr.2.2.1 hpos; have := hsign.1 hpos; have := hP2.1 hpos
    refine ⟨?_, ?_, ?_, ?_, ?_, ?_, ?_, ?_⟩ <;> omega

theorem ratioUnits_nonneg (r : Ratio) : 0 ≤ ratioUnits r := by
  cases r with
  | one => simp [ratioUnits]
  | pct n d =>
    simp only [ratioUnits]
    split
    · exact Int.le_refl 0
    · exact Int.natCast_nonneg _

theorem capUnits_eq_capExact (total : Int) (r : Ratio) (h6 : sixDecimals r = true) :
    capUnits total r = capExact total r := by
  cases r with
  | one =>
    simp only [capUnits, capExact, ratioUnits, capGo_eq_ceil]
    rw [← Int.neg_mul, Int.mul_ediv_cancel _ (by omega : (100000000 : Int) ≠ 0), Int.neg_neg]
  | pct n d =>
    simp only [sixDecimals, Bool.and_eq_true, bne_iff_ne, ne_eq, beq_iff_eq] at h6
    obtain ⟨hd0, hmod⟩ := h6
    have hd : 0 < d := by omega
    obtain ⟨k, hk⟩ : ∃ k, n * 1000000 = d * k :=
      ⟨n * 1000000 / d, (Nat.mul_div_cancel' (Nat.dvd_of_mod_eq_zero hmod)).symm⟩
    simp only [capUnits, capExact, ratioUnits_of_dvd n d k hd hk, capGo_eq_ceil]
    congr 1
    -- (-(total·n)) / (d·100) = (-(total·k)) / 10^8, via  ·10^6  and cancelling d
    have hkI : (n : Int) * 1000000 = (d : Int) * (k : Int) := by
      have h := congrArg (Nat.cast : Nat → Int) hk
      rw [Int.natCast_mul, Int.natCast_mul] at h
      exact h
    have hdI : (0 : Int) < (d : Int) := Int.natCast_pos.mpr hd
    have e1 : (-(total * (n : Int))) / ((d : Int) * 100)
        = ((-(total * (n : Int))) * 1000000) / (((d : Int) * 100) * 1000000) := by
      rw [Int.mul_ediv_mul_of_pos_left _ _ (by omega : (0 : Int) < 1000000)]
    have e2 : (-(total * (n : Int))) * 1000000 = (-(total * (k : Int))) * (d : Int) := by
      have : total * (n : Int) * 1000000 = total * ((n : Int) * 1000000) := by
        rw [Int.mul_assoc]
      rw [Int.neg_mul, this, hkI, Int.neg_mul]
      congr 1
      rw [Int.mul_comm (d : Int) (k : Int), Int.mul_assoc]
    have e3 : ((d : Int) * 100) * 1000000 = 100000000 * (d : Int) := by
      rw [Int.mul_assoc, Int.mul_comm]
      rfl
    rw [e1, e2, e3, Int.mul_ediv_mul_of_pos_left _ _ hdI]

section
variable {κ : Type} [DecidableEq κ]

theorem eventOk_congr_cap (c₁ c₂ : CapFn) (e : Event κ) (older : List (Event κ))
    (h : ∀ total, c₁ total e.wd.ratio = c₂ total e.wd.ratio) :
    eventOk c₁ e older = eventOk c₂ e older := by
  simp only [eventOk, h]

theorem holdsKeyRev_congr_cap (c₁ c₂ : CapFn) (l : List (Event κ))
    (h : ∀ e ∈ l, ∀ total, c₁ total e.wd.ratio = c₂ total e.wd.ratio) :
    holdsKeyRev c₁ l = holdsKeyRev c₂ l := by
  induction l with
  | nil => rfl
  | cons e rest ih =>
    simp only [holdsKeyRev]
    rw [eventOk_congr_cap c₁ c₂ e rest (h e (by simp)), ih (fun x hx => h x (by simp [hx]))]

theorem holds_congr_cap (c₁ c₂ : CapFn) (h : List (Event κ))
    (hc : ∀ e ∈ h, ∀ total, c₁ total e.wd.ratio = c₂ total e.wd.ratio) :
    holds c₁ h = holds c₂ h := by
  have key : ∀ e ∈ h, holdsKeyRev c₁ (keyHist e.key h) = holdsKeyRev c₂ (keyHist e.key h) := by
    intro e _
    apply holdsKeyRev_congr_cap
    intro x hx
    simp only [keyHist, List.mem_reverse, List.mem_filter] at hx
    exact hc x hx.1
  rw [Bool.eq_iff_iff]
  simp only [holds, List.all_eq_true]
  constructor
  · intro H e he; rw [← key e he]; exact H e he
  · intro H e he; rw [key e he]; exact H e he

end

/-! ### the counter key IS the allocation table's group (fix F09e) -/

theorem resolve_key_eq_specKey (r : Remedy) (hs : List (String × String)) (key : Key) (wd : WindowData)
    (h : resolve r hs = .limited key wd) : key = specKey r hs := by
  unfold resolve at h
  unfold specKey
  dsimp only at h
  repeat' split at h
  all_goals first
    | (injection h with h1 h2; subst h1; simp [*, normGroup])
    | (exact absurd h (by simp))
    | skip

theorem observe1P_keys (p : PReq) (a : Answer) (e : Event PKey) (h : observe1P p a = some e) :
    e.key.code = e.key.spec := by
  unfold observe1P at h
  cases ho : observe1 p a with
  | none => rw [ho] at h; simp at h
  | some e0 =>
    rw [ho] at h
    simp only [Option.map_some, Option.some.injEq] at h
    subst h
    simp only [rekey]
    -- the event's key comes from `resolve`
    unfold observe1 at ho
    cases hr : resolve p.remedy p.hdrs with
    | direct a' => rw [hr] at ho; simp at ho
    | limited key wd =>
      rw [hr] at ho
      have hk := resolve_key_eq_specKey _ _ _ _ hr
      simp only at ho
      split at ho
      · simp at ho
      · split at ho <;> first | (simp only [Option.some.injEq] at ho; subst ho; exact hk) | simp at ho

theorem observeP_keys (ps : List PReq) : ∀ (as : List Answer), ∀ e ∈ observeP ps as, e.key.code = e.key.spec := by
  induction ps with
  | nil => intro as e he; simp [observeP] at he
  | cons p ps ih =>
    intro as e he
    cases as with
    | nil => simp [observeP] at he
    | cons a as =>
      simp only [observeP, List.mem_append] at he
      rcases he with he | he
      · cases ho : observe1P p a with
        | none => rw [ho] at he; simp at he
        | some e0 =>
          rw [ho] at he
          simp only [List.mem_singleton] at he
          subst he
          exact observe1P_keys p a _ ho
      · exact ih as e he

/-! ### clock readings -/

theorem tryInc2_single_reading (cap : CapFn) (t : Nat) (wd : WindowData) (s : KeyState) :
    tryInc2 cap t t wd s = tryInc cap t wd s := by
  simp only [tryInc2, tryInc, ensure2, ensure]

section
variable {κ : Type} [DecidableEq κ]

theorem stamp_mem_t (ts : List Nat) (cs : List (κ × WindowData)) : ∀ r ∈ stamp ts cs, r.t ∈ ts := by
  induction ts generalizing cs with
  | nil => intro r hr; cases cs <;> simp [stamp] at hr
  | cons t ts ih =>
    intro r hr
    cases cs with
    | nil => simp [stamp] at hr
    | cons c cs =>
      obtain ⟨k, wd⟩ := c
      simp only [stamp, List.mem_cons] at hr ⊢
      rcases hr with rfl | hr
      · exact Or.inl rfl
      · exact Or.inr (ih cs r hr)

theorem stamp_mem_wd (ts : List Nat) (cs : List (κ × WindowData)) :
    ∀ r ∈ stamp ts cs, (r.key, r.wd) ∈ cs := by
  induction ts generalizing cs with
  | nil => intro r hr; cases cs <;> simp [stamp] at hr
  | cons t ts ih =>
    intro r hr
    cases cs with
    | nil => simp [stamp] at hr
    | cons c cs =>
      obtain ⟨k, wd⟩ := c
      simp only [stamp, List.mem_cons] at hr ⊢
      rcases hr with rfl | hr
      · exact Or.inl rfl
      · exact Or.inr (ih cs r hr)

theorem stamp_monotone (ts : List Nat) (cs : List (κ × WindowData)) (h : ts.Pairwise (· ≤ ·)) :
    (stamp ts cs).Pairwise (fun a b => a.t ≤ b.t) := by
  induction ts generalizing cs with
  | nil => cases cs <;> simp [stamp]
  | cons t ts ih =>
    cases cs with
    | nil => simp [stamp]
    | cons c cs =>
      obtain ⟨k, wd⟩ := c
      rw [List.pairwise_cons] at h
      simp only [stamp, List.pairwise_cons]
      exact ⟨fun r hr => h.1 _ (stamp_mem_t ts cs r hr), ih cs h.2⟩

end

end LunarVerif.C09
