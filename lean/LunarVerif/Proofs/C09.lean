import LunarVerif.Spec.C09
/-! Helper lemmas for C09: association-list frame lemmas, projection of a run onto one key,
    grid arithmetic, and the per-key invariant tying `singleRateLimitState` to the observable history. -/
namespace LunarVerif.C09

section
variable {κ : Type} [DecidableEq κ]

/-! ### association list -/

theorem find_set_same (k : κ) (v : KeyState) (st : State κ) : find k (set k v st) = some v := by
  induction st with
  | nil => simp [set, find]
  | cons p rest ih =>
    obtain ⟨k', v'⟩ := p
    by_cases h : k' = k
    · simp [set, find, h]
    · simp [set, find, h, ih]

theorem find_set_other (k k' : κ) (v : KeyState) (st : State κ) (hne : k' ≠ k) :
    find k' (set k v st) = find k' st := by
  induction st with
  | nil => simp [set, find, Ne.symm hne]
  | cons p rest ih =>
    obtain ⟨k'', v''⟩ := p
    by_cases h : k'' = k
    · subst h
      simp [set, find, Ne.symm hne]
    · by_cases h2 : k'' = k'
      · subst h2
        simp [set, find, h]
      · simp [set, find, h, h2, ih]

theorem stepL_key (cap : CapFn) (st : State κ) (r : Req κ) : (stepL cap st r).2.req = r := by
  simp [stepL, Event.req]

theorem stepL_other (cap : CapFn) (st : State κ) (r : Req κ) (k : κ) (hne : k ≠ r.key) :
    find k (stepL cap st r).1 = find k st := by
  simp only [stepL]
  exact find_set_other _ _ _ _ hne

theorem runL_inputs (cap : CapFn) (rs : List (Req κ)) (st : State κ) : inputs (runL cap st rs) = rs := by
  induction rs generalizing st with
  | nil => rfl
  | cons r rs ih =>
    simp only [runL, inputs, List.map_cons]
    rw [stepL_key]
    congr 1
    exact ih _

/-- Projection: the events of key `k` in a run are exactly the run of ONE `singleRateLimitState`
    over the requests of key `k` – whatever the other keys do. -/
theorem filter_runL (cap : CapFn) (k : κ) (rs : List (Req κ)) (st : State κ) :
    (runL cap st rs).filter (fun e => e.key == k)
      = runK cap ((find k st).getD initKey) (rs.filter (fun r => r.key == k)) := by
  induction rs generalizing st with
  | nil => rfl
  | cons r rs ih =>
    simp only [runL]
    by_cases hk : r.key = k
    · have hb : (r.key == k) = true := by simpa using hk
      have he : ((stepL cap st r).2.key == k) = true := by simpa [stepL] using hk
      rw [List.filter_cons, List.filter_cons]
      simp only [he, hb, if_true]
      rw [ih]
      simp only [runK, stepL, hk]
      rw [find_set_same]
      rfl
    · have hb : ¬ (r.key == k) = true := by simpa using hk
      have he : ¬ ((stepL cap st r).2.key == k) = true := by simpa [stepL] using hk
      rw [List.filter_cons, List.filter_cons]
      simp only [he, hb, Bool.false_eq_true, if_false]
      rw [ih]
      rw [stepL_other cap st r k (fun h => hk h.symm)]

/-! ### grid arithmetic -/

theorem same_window_not_after (W q t : Nat) (hW : 0 < W) (h : t / W = q / W) :
    ¬ (t > (q / W) * W + W) := by
  have h1 := Nat.div_add_mod t W
  have h2 := Nat.mod_lt t hW
  rw [← h, Nat.mul_comm]
  omega

theorem new_window_after (W q t : Nat) (_hW : 0 < W) (hqt : q ≤ t) (hb : t % W ≠ 0) (h : t / W ≠ q / W) :
    t > (q / W) * W + W := by
  have h1 := Nat.div_add_mod t W
  have h3 : q / W ≤ t / W := Nat.div_le_div_right hqt
  have h4 : q / W + 1 ≤ t / W := by omega
  have h5 : (q / W + 1) * W ≤ (t / W) * W := Nat.mul_le_mul_right W h4
  rw [Nat.add_mul, Nat.one_mul] at h5
  rw [Nat.mul_comm] at h1
  omega

theorem older_not_in_new_window (W x q t : Nat) (hxq : x ≤ q) (hqt : q ≤ t) (h : t / W ≠ q / W) :
    x / W ≠ t / W := by
  have h1 : x / W ≤ q / W := Nat.div_le_div_right hxq
  have h2 : q / W ≤ t / W := Nat.div_le_div_right hqt
  omega

/-! ### the reference functions -/

theorem passesInWin_zero (W idx : Nat) (h : List (Event κ)) (hno : ∀ e ∈ h, e.t / W ≠ idx) :
    passesInWin W idx h = 0 := by
  induction h with
  | nil => rfl
  | cons e older ih =>
    have h1 : e.t / W ≠ idx := hno e (by simp)
    have h2 := ih (fun x hx => hno x (by simp [hx]))
    simp [passesInWin, h1, h2]

theorem refSpill_cons_cons (e p : Event κ) (rest : List (Event κ)) :
    refSpill (e :: p :: rest) =
      if e.t / e.wd.W == p.t / e.wd.W then refSpill (p :: rest)
      else if e.wd.spillOn then
        (if dayOfMonth e.t == e.wd.renewDay then 0
         else refSpill (p :: rest) + e.wd.allowed - passesInWin e.wd.W (p.t / e.wd.W) (p :: rest))
      else refSpill (p :: rest) := by
  rw [refSpill]

theorem regime_eq (e : Event κ) (older : List (Event κ)) (h : ∀ p ∈ older, p.wd.W = e.wd.W) :
    regime e older = older := by
  unfold regime
  induction older with
  | nil => rfl
  | cons q rest ih =>
    have hq : (q.wd.W == e.wd.W) = true := by simpa using h q (by simp)
    rw [List.takeWhile_cons, hq]
    simp only [if_true]
    rw [ih (fun p hp => h p (by simp [hp]))]

theorem holdsKeyRev_append_right (cap : CapFn) (a b : List (Event κ)) (h : holdsKeyRev cap (a ++ b) = true) :
    holdsKeyRev cap b = true := by
  induction a with
  | nil => simpa using h
  | cons x xs ih =>
    simp only [List.cons_append, holdsKeyRev, Bool.and_eq_true] at h
    exact ih h.2

/-! ### per-key invariant -/

/-- Invariant between one `singleRateLimitState` and the key's history so far (most recent first),
    for window size `W0`. -/
def InvK (W0 : Nat) (s : KeyState) (acc : List (Event κ)) : Prop :=
  match acc with
  | [] => s.windowEnd = 0 ∧ s.spill = 0
  | p :: _ =>
    s.windowEnd = (p.t / W0) * W0 + W0 ∧ s.counter = passesInWin W0 (p.t / W0) acc ∧
    s.spill = refSpill acc ∧ (∀ e ∈ acc, e.t ≤ p.t) ∧ (∀ e ∈ acc, e.wd.W = W0)

theorem invK_init (W0 : Nat) : InvK (κ := κ) W0 initKey [] := by
  simp [InvK, initKey]

/-- the spill-over the code computes when it resets the stored window -/
def resetSpill (t : Nat) (wd : WindowData) (s : KeyState) : Int :=
  if (wd.spillOn && (s.windowEnd != 0)) = true then
    (if (dayOfMonth t == wd.renewDay) = true then 0 else s.spill + wd.allowed - (s.counter : Int))
  else s.spill

theorem tryInc_reset (cap : CapFn) (t : Nat) (wd : WindowData) (s : KeyState) (hgt : t > s.windowEnd) :
    tryInc cap t wd s =
      if cap (wd.allowed + resetSpill t wd s) wd.ratio ≤ 0
      then (⟨0, resetSpill t wd s, (t / wd.W) * wd.W + wd.W, wd⟩, false)
      else (⟨1, resetSpill t wd s, (t / wd.W) * wd.W + wd.W, wd⟩, true) := by
  simp only [tryInc, ensure, hgt, if_true, resetSpill]
  split <;> simp_all

theorem tryInc_keep (cap : CapFn) (t : Nat) (wd : WindowData) (s : KeyState) (hna : ¬ t > s.windowEnd) :
    tryInc cap t wd s =
      if cap (wd.allowed + s.spill) wd.ratio ≤ (s.counter : Int)
      then (⟨s.counter, s.spill, s.windowEnd, wd⟩, false)
      else (⟨s.counter + 1, s.spill, s.windowEnd, wd⟩, true) := by
  simp only [tryInc, ensure, hna, if_false]

theorem mem_cons_le (t : Nat) (x : Event κ) (acc : List (Event κ)) (hx : x.t = t)
    (hmono : ∀ e ∈ acc, e.t ≤ t) : ∀ e ∈ x :: acc, e.t ≤ x.t := by
  intro e he
  simp only [List.mem_cons] at he
  rcases he with rfl | he
  · exact Nat.le_refl _
  · rw [hx]; exact hmono e he

theorem mem_cons_W (W : Nat) (x : Event κ) (acc : List (Event κ)) (hx : x.wd.W = W)
    (hWs : ∀ e ∈ acc, e.wd.W = W) : ∀ e ∈ x :: acc, e.wd.W = W := by
  intro e he
  simp only [List.mem_cons] at he
  rcases he with rfl | he
  · exact hx
  · exact hWs e he

theorem tryInc_inv (cap : CapFn) (W0 : Nat) (hW : 0 < W0) (s : KeyState) (acc : List (Event κ))
    (r : Req κ) (hinv : InvK W0 s acc) (hrW : r.wd.W = W0) (hb : r.t % W0 ≠ 0)
    (hmono : ∀ e ∈ acc, e.t ≤ r.t) :
    InvK W0 (tryInc cap r.t r.wd s).1 (⟨r.key, r.t, r.wd, (tryInc cap r.t r.wd s).2⟩ :: acc) ∧
    eventOk cap ⟨r.key, r.t, r.wd, (tryInc cap r.t r.wd s).2⟩ acc = true := by
  obtain ⟨rk, t, wd⟩ := r
  simp only at hrW hb hmono ⊢
  subst hrW
  cases acc with
  | nil =>
    obtain ⟨hwe, hsp⟩ := hinv
    have ht : t > 0 := by
      rcases Nat.eq_zero_or_pos t with h0 | h0
      · subst h0; simp at hb
      · exact h0
    have hgt : t > s.windowEnd := by omega
    have hrsp : resetSpill t wd s = 0 := by simp [resetSpill, hwe, hsp]
    rw [tryInc_reset cap t wd s hgt, hrsp]
    split
    · next hc =>
      refine ⟨⟨rfl, ?_, ?_, ?_, ?_⟩, ?_⟩
      · simp [passesInWin]
      · simp [refSpill]
      · simp
      · simp
      · simp only [eventOk, regime, List.takeWhile_nil, passesInWin, refSpill]
        simp only [Int.add_zero] at hc
        simp
        omega
    · next hc =>
      refine ⟨⟨rfl, ?_, ?_, ?_, ?_⟩, ?_⟩
      · simp [passesInWin]
      · simp [refSpill]
      · simp
      · simp
      · simp only [eventOk, regime, List.takeWhile_nil, passesInWin, refSpill]
        simp only [Int.add_zero] at hc
        simp
        omega
  | cons q rest =>
    obtain ⟨hwe, hcnt, hsp, hle, hWs⟩ := hinv
    have hqt : q.t ≤ t := hmono q (by simp)
    by_cases hsame : t / wd.W = q.t / wd.W
    · -- same grid window: the stored window is kept
      have hna : ¬ (t > s.windowEnd) := by rw [hwe]; exact same_window_not_after _ _ _ hW hsame
      have hcnt' : passesInWin wd.W (t / wd.W) (q :: rest) = s.counter := by rw [hsame, hcnt]
      have hrs : ∀ p : Bool, refSpill ((⟨rk, t, wd, p⟩ : Event κ) :: q :: rest) = s.spill := by
        intro p; rw [refSpill_cons_cons]; simp [hsame, hsp]
      rw [tryInc_keep cap t wd s hna]
      split
      · next hc =>
        refine ⟨⟨?_, ?_, ?_, ?_, ?_⟩, ?_⟩
        · simp [hwe, hsame]
        · simp only [passesInWin, Bool.false_and, Bool.false_eq_true, if_false, Nat.zero_add]
          have := hcnt'
          simp only [passesInWin] at this
          omega
        · rw [hrs]
        · exact mem_cons_le t _ _ rfl hmono
        · exact mem_cons_W wd.W _ _ rfl hWs
        · rw [eventOk, regime_eq _ _ hWs]
          simp only [hrs, hcnt']
          simp
          omega
      · next hc =>
        refine ⟨⟨?_, ?_, ?_, ?_, ?_⟩, ?_⟩
        · simp [hwe, hsame]
        · simp only [passesInWin, Bool.true_and, beq_self_eq_true, if_true]
          have := hcnt'
          simp only [passesInWin] at this
          omega
        · rw [hrs]
        · exact mem_cons_le t _ _ rfl hmono
        · exact mem_cons_W wd.W _ _ rfl hWs
        · rw [eventOk, regime_eq _ _ hWs]
          simp only [hrs, hcnt']
          simp
          omega
    · -- a new grid window: the stored window is reset
      have hgt : t > s.windowEnd := by rw [hwe]; exact new_window_after _ _ _ hW hqt hb hsame
      have hwe0 : (s.windowEnd != 0) = true := by
        have : s.windowEnd ≠ 0 := by rw [hwe]; omega
        simpa using this
      have hzero : passesInWin wd.W (t / wd.W) (q :: rest) = 0 :=
        passesInWin_zero _ _ _ (fun e he => older_not_in_new_window _ _ _ _ (hle e he) hqt hsame)
      -- the spill-over computed by the code equals the reference
      have hrs : ∀ p : Bool, refSpill ((⟨rk, t, wd, p⟩ : Event κ) :: q :: rest) = resetSpill t wd s := by
        intro p
        have hne : ¬ (t / wd.W = q.t / wd.W) := hsame
        rw [refSpill_cons_cons]
        simp only [resetSpill, hwe0, Bool.and_true, beq_iff_eq, hne, if_false, ← hsp, ← hcnt]
      rw [tryInc_reset cap t wd s hgt]
      split
      · next hc =>
        refine ⟨⟨rfl, ?_, ?_, ?_, ?_⟩, ?_⟩
        · simp only [passesInWin, Bool.false_and, Bool.false_eq_true, if_false, Nat.zero_add]
          have := hzero
          simp only [passesInWin] at this
          omega
        · rw [hrs]
        · exact mem_cons_le t _ _ rfl hmono
        · exact mem_cons_W wd.W _ _ rfl hWs
        · rw [eventOk, regime_eq _ _ hWs]
          simp only [hrs, hzero]
          simp
          omega
      · next hc =>
        refine ⟨⟨rfl, ?_, ?_, ?_, ?_⟩, ?_⟩
        · simp only [passesInWin, Bool.true_and, beq_self_eq_true, if_true]
          have := hzero
          simp only [passesInWin] at this
          omega
        · rw [hrs]
        · exact mem_cons_le t _ _ rfl hmono
        · exact mem_cons_W wd.W _ _ rfl hWs
        · rw [eventOk, regime_eq _ _ hWs]
          simp only [hrs, hzero]
          simp
          omega

/-- Every run of one `singleRateLimitState` over admissible requests satisfies the per-key Spec. -/
theorem runK_holds (cap : CapFn) (W0 : Nat) (hW : 0 < W0) (rs : List (Req κ)) :
    ∀ (s : KeyState) (acc : List (Event κ)), InvK W0 s acc → holdsKeyRev cap acc = true →
      (∀ r ∈ rs, r.wd.W = W0 ∧ r.t % W0 ≠ 0) → rs.Pairwise (fun a b => a.t ≤ b.t) →
      (∀ e ∈ acc, ∀ r ∈ rs, e.t ≤ r.t) →
      holdsKeyRev cap ((runK cap s rs).reverse ++ acc) = true := by
  induction rs with
  | nil => intro s acc _ h _ _ _; simpa [runK] using h
  | cons r rs ih =>
    intro s acc hinv hacc hrs hsorted hle
    have hr := hrs r (by simp)
    have hstep := tryInc_inv cap W0 hW s acc r hinv hr.1 hr.2 (fun e he => hle e he r (by simp))
    simp only [runK, List.reverse_cons, List.append_assoc, List.singleton_append]
    rw [List.pairwise_cons] at hsorted
    apply ih _ _ hstep.1
    · simp only [holdsKeyRev, Bool.and_eq_true]; exact ⟨hstep.2, hacc⟩
    · intro r' hr'; exact hrs r' (by simp [hr'])
    · exact hsorted.2
    · intro e he r' hr'
      simp only [List.mem_cons] at he
      rcases he with rfl | he
      · exact hsorted.1 r' hr'
      · exact hle e he r' (by simp [hr'])

theorem keyHist_runL (cap : CapFn) (k : κ) (rs : List (Req κ)) :
    keyHist k (runL cap [] rs) = (runK cap initKey (rs.filter (fun r => r.key == k))).reverse := by
  simp [keyHist, filter_runL, find]

/-- facts extracted from `admissible` -/
theorem admissible_key (rs : List (Req κ)) (hadm : admissible rs = true) (r0 : Req κ) (h0 : r0 ∈ rs) :
    0 < r0.wd.W ∧
    (∀ r ∈ rs.filter (fun r => r.key == r0.key), r.wd.W = r0.wd.W ∧ r.t % r0.wd.W ≠ 0) ∧
    (rs.filter (fun r => r.key == r0.key)).Pairwise (fun a b => a.t ≤ b.t) := by
  simp only [admissible, monotone, boundaryFree, constW, Bool.and_eq_true, decide_eq_true_eq,
    List.all_eq_true, Bool.or_eq_true, Bool.not_eq_true', beq_iff_eq, beq_eq_false_iff_ne] at hadm
  obtain ⟨⟨hm, hbf⟩, hcw⟩ := hadm
  refine ⟨(hbf r0 h0).1, ?_, hm.filter _⟩
  intro r hr
  simp only [List.mem_filter, beq_iff_eq] at hr
  have hWeq : r.wd.W = r0.wd.W := by
    rcases hcw r hr.1 r0 h0 with h | h
    · exact absurd hr.2 h
    · exact h
  refine ⟨hWeq, ?_⟩
  rw [← hWeq]
  exact (hbf r hr.1).2

theorem runL_holds_of_admissible (cap : CapFn) (rs : List (Req κ)) (hadm : admissible rs = true) :
    holds cap (runL cap [] rs) = true := by
  simp only [holds, List.all_eq_true]
  intro e he
  have hin : e.req ∈ rs := by
    have := runL_inputs cap rs ([] : State κ)
    rw [← this]
    exact List.mem_map.mpr ⟨e, he, rfl⟩
  obtain ⟨hW, hall, hsorted⟩ := admissible_key rs hadm e.req hin
  rw [keyHist_runL]
  have := runK_holds cap e.req.wd.W hW _ initKey [] (invK_init _) rfl hall hsorted
    (fun _ h => by simp at h)
  simpa [Event.req] using this

/-! ### consequences of `holds` for a split history -/

theorem keyHist_append (k : κ) (a b : List (Event κ)) : keyHist k (a ++ b) = keyHist k b ++ keyHist k a := by
  simp [keyHist]

theorem keyHist_single (e : Event κ) : keyHist e.key [e] = [e] := by
  simp [keyHist]

theorem holds_split (cap : CapFn) (pre post : List (Event κ)) (e : Event κ)
    (h : holds cap (pre ++ e :: post) = true) : eventOk cap e (keyHist e.key pre) = true := by
  simp only [holds, List.all_eq_true] at h
  have h1 := h e (by simp)
  have h2 : pre ++ e :: post = pre ++ ([e] ++ post) := by simp
  rw [h2, keyHist_append, keyHist_append, keyHist_single, List.append_assoc] at h1
  have h3 := holdsKeyRev_append_right cap _ _ h1
  simp only [List.singleton_append, holdsKeyRev, Bool.and_eq_true] at h3
  exact h3.1

theorem clean_regime (h pre post : List (Event κ)) (e : Event κ) (hclean : clean h = true)
    (hsplit : h = pre ++ e :: post) : regime e (keyHist e.key pre) = keyHist e.key pre := by
  apply regime_eq
  intro p hp
  simp only [keyHist, List.mem_reverse, List.mem_filter, beq_iff_eq] at hp
  simp only [clean, admissible, constW, Bool.and_eq_true, List.all_eq_true, Bool.or_eq_true,
    Bool.not_eq_true', beq_iff_eq, beq_eq_false_iff_ne] at hclean
  have hpin : p.req ∈ inputs h := List.mem_map.mpr ⟨p, by rw [hsplit]; simp [hp.1], rfl⟩
  have hein : e.req ∈ inputs h := List.mem_map.mpr ⟨e, by rw [hsplit]; simp, rfl⟩
  rcases hclean.2 p.req hpin e.req hein with hne | heq
  · exact absurd hp.2 hne
  · exact heq

/-! ### constant window data, spill-over off: the plain "≤ cap per grid window" form -/

theorem refSpill_zero (h : List (Event κ)) (hoff : ∀ e ∈ h, e.wd.spillOn = false) : refSpill h = 0 := by
  induction h with
  | nil => rfl
  | cons e older ih =>
    cases older with
    | nil => simp [refSpill]
    | cons p rest =>
      have h1 := ih (fun x hx => hoff x (by simp [hx]))
      have h2 := hoff e (by simp)
      rw [refSpill_cons_cons, h1, h2]
      simp

theorem holdsKeyRev_bound (cap : CapFn) (wd : WindowData) (idx : Nat) (h : List (Event κ))
    (hconst : ∀ e ∈ h, e.wd = wd) (hoff : wd.spillOn = false) (hh : holdsKeyRev cap h = true) :
    (passesInWin wd.W idx h : Int) ≤ max 0 (cap wd.allowed wd.ratio) := by
  induction h with
  | nil => simp [passesInWin]; omega
  | cons e older ih =>
    simp only [holdsKeyRev, Bool.and_eq_true] at hh
    have hih := ih (fun x hx => hconst x (by simp [hx])) hh.2
    have hewd : e.wd = wd := hconst e (by simp)
    by_cases hc : (e.pass && e.t / wd.W == idx) = true
    · simp only [Bool.and_eq_true, beq_iff_eq] at hc
      have hsp : refSpill (e :: older) = 0 :=
        refSpill_zero _ (fun x hx => by rw [hconst x hx]; exact hoff)
      have hok := hh.1
      rw [eventOk, regime_eq _ _ (fun x hx => by rw [hconst x (by simp [hx]), hewd])] at hok
      simp only [hsp, hewd, hc.1, hc.2, Int.add_zero] at hok
      simp only [passesInWin, hc.1, hc.2, Bool.true_and, beq_self_eq_true, if_true]
      simp at hok
      omega
    · simp only [passesInWin, hc, Bool.false_eq_true, if_false, Nat.zero_add]
      exact hih

end
/-- window data of an ungrouped remedy: `Wsec` seconds window, `allowed` per window, spill-over off
    (used by the witnesses in `Properties/C09.lean`) -/
def wd1 (Wsec : Nat) (allowed : Int) : WindowData := ⟨Wsec * 1000000000, allowed, .one, false, 0⟩

/-! ### plugin layer -/

theorem resolve_limited_W (r : Remedy) (hs : List (String × String)) (key : Key) (wd : WindowData)
    (h : resolve r hs = .limited key wd) : wd.W = r.winSec * 1000000000 := by
  unfold resolve at h
  dsimp only at h
  repeat' split at h
  all_goals first
    | (injection h with h1 h2; rw [← h2])
    | (exact absurd h (by simp))
    | skip

theorem pluginStep_direct (cap : CapFn) (st : State Key) (r : Remedy) (hs : List (String × String)) (t : Nat)
    (a : Answer) (h : resolve r hs = .direct a) : pluginStep cap st r hs t = (st, a) := by
  simp [pluginStep, h]

theorem pluginStep_limited (cap : CapFn) (st : State Key) (r : Remedy) (hs : List (String × String)) (t : Nat)
    (key : Key) (wd : WindowData) (h : resolve r hs = .limited key wd) (hW : wd.W ≠ 0) :
    pluginStep cap st r hs t =
      ((stepL cap st ⟨key, t, wd⟩).1,
       if (stepL cap st ⟨key, t, wd⟩).2.pass then .noop else .early (effStatus r)) := by
  have : (wd.W == 0) = false := by simpa using hW
  simp [pluginStep, h, this]

theorem observe_pluginRun (cap : CapFn) (ps : List PReq) (hW : ∀ p ∈ ps, p.remedy.winSec ≠ 0) :
    ∀ st : State Key, observe ps (pluginRun cap st ps) = runL cap st (limitedReqs ps) := by
  induction ps with
  | nil => intro st; rfl
  | cons p ps ih =>
    intro st
    have ih' := ih (fun q hq => hW q (by simp [hq]))
    simp only [pluginRun, observe, limitedReqs, observe1]
    cases hres : resolve p.remedy p.hdrs with
    | direct a =>
      rw [pluginStep_direct cap st _ _ _ a hres]
      simp only [List.nil_append]
      exact ih' st
    | limited key wd =>
      have hw : wd.W ≠ 0 := by
        rw [resolve_limited_W _ _ _ _ hres]
        have := hW p (by simp)
        omega
      have hw' : (wd.W == 0) = false := by simpa using hw
      rw [pluginStep_limited cap st _ _ _ key wd hres hw]
      simp only [hw', Bool.false_eq_true, if_false]
      by_cases hp : (stepL cap st ⟨key, p.t, wd⟩).2.pass = true
      · simp only [hp, if_true, List.singleton_append, List.cons_append, List.nil_append, runL]
        rw [ih']
        congr 1
        simp only [stepL] at hp ⊢
        simp [hp]
      · simp only [hp, Bool.false_eq_true, if_false, List.singleton_append, List.cons_append, List.nil_append, runL]
        rw [ih']
        congr 1
        simp only [stepL] at hp ⊢
        simp at hp
        simp [hp]

theorem answerOk_pluginStep (cap : CapFn) (st : State Key) (p : PReq) :
    answerOk p (pluginStep cap st p.remedy p.hdrs p.t).2 = true := by
  unfold answerOk
  cases hres : resolve p.remedy p.hdrs with
  | direct a =>
    rw [pluginStep_direct cap st _ _ _ a hres]
    cases a <;> simp
  | limited key wd =>
    by_cases hw : wd.W = 0
    · simp [hw]
    · rw [pluginStep_limited cap st _ _ _ key wd hres hw]
      by_cases hp : (stepL cap st ⟨key, p.t, wd⟩).2.pass = true <;> simp [hp]

end LunarVerif.C09
