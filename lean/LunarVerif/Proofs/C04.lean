import LunarVerif.Proofs.C04Txn
/-!
From `load` (the model's loader) and `specCfg` (the reference view of the same configuration) to the
pair lists of `C04Txn`, and the unpacking of the finding classifier.
-/
namespace LunarVerif.C04
open LunarVerif.FlowGraph LunarVerif.FlowExec

/-! ### `buildAll` yields built flows, declaration by declaration -/

theorem buildAll_pairs {pts : List PType} : ∀ (ds : List FlowDecl) (fs : List (Kind × Flow)),
    buildAll pts ds = .ok fs →
    ∃ pl : List (FlowDecl × Flow), pl.map (·.1) = ds ∧ fs = pl.map (fun p => (p.1.kind, p.2)) ∧
      ∀ p ∈ pl, Built p.1.rep p.2
  | [], fs, h => by
    simp only [buildAll, Except.ok.injEq] at h
    subst h
    exact ⟨[], rfl, rfl, by simp⟩
  | d :: ds, fs, h => by
    unfold buildAll at h
    cases h1 : buildFlow pts d.rep with
    | error e => simp [h1] at h
    | ok f =>
      simp only [h1] at h
      cases h2 : buildAll pts ds with
      | error e => simp [h2] at h
      | ok fs' =>
        simp only [h2, Except.ok.injEq] at h
        subst h
        obtain ⟨pl, hp1, hp2, hp3⟩ := buildAll_pairs ds fs' h2
        refine ⟨(d, f) :: pl, by simp [hp1], by simp [hp2], ?_⟩
        intro p hp
        rcases List.mem_cons.mp hp with rfl | hp'
        · exact built_of_buildFlow h1
        · exact hp3 p hp'

/-- the (representation, flow) pairs of one kind, in order -/
def pairsOf (kd : Kind) (pl : List (FlowDecl × Flow)) : Pairs :=
  (pl.filter (·.1.kind == kd)).map fun p => (p.1.rep, p.2)

theorem pairsOf_ok {pl : List (FlowDecl × Flow)} (h : ∀ p ∈ pl, Built p.1.rep p.2) (kd : Kind) :
    PairsOK (pairsOf kd pl) := by
  intro q hq
  simp only [pairsOf, List.mem_map, List.mem_filter] at hq
  obtain ⟨p, ⟨hp, _⟩, rfl⟩ := hq
  exact h p hp

theorem filter_map_kind (kd : Kind) : ∀ (pl : List (FlowDecl × Flow)),
    ((pl.map fun p => (p.1.kind, p.2)).filter (·.1 == kd)).map (·.2) = mflows (pairsOf kd pl)
  | [] => rfl
  | p :: pl => by
    have ih := filter_map_kind kd pl
    simp only [mflows, pairsOf, List.map_cons, List.filter_cons] at ih ⊢
    cases h : p.1.kind == kd <;> simp [ih]

def conv (d : FlowDecl) : SFlow := ⟨d.rep.name, d.rep.req, d.rep.res⟩

theorem filter_map_conv (kd : Kind) : ∀ (pl : List (FlowDecl × Flow)),
    ((pl.map (·.1)).filter (·.kind == kd)).map conv = sflows (pairsOf kd pl)
  | [] => rfl
  | p :: pl => by
    have ih := filter_map_conv kd pl
    simp only [sflows, pairsOf, List.map_cons, List.filter_cons] at ih ⊢
    cases h : p.1.kind == kd <;> simp [ih, conv, sflowOf]

/-! ### system flows: the engine's wiring is the reference chain (after the fix F04e) -/

theorem sysChainFrom_eq : ∀ (ks : List String) (k : String), sysChainFrom k ks = chainFrom k ks
  | [], _ => rfl
  | k' :: ks, k => by simp [sysChainFrom, chainFrom, sysChainFrom_eq ks k']

theorem sysConns_eq : sysConns = chainConns := by
  funext ks
  cases ks with
  | nil => rfl
  | cons k ks => simp [sysConns, chainConns, sysChainFrom_eq]

theorem sysDecls_eq (qs : List Quota) : sysDecls sysConns qs = sysDecls chainConns qs := by
  rw [sysConns_eq]

theorem sysDeclsOfGroup_no_user (conns : List String → List Conn) (g : List Quota) :
    (sysDeclsOfGroup conns g).filter (·.kind == .user) = [] := by
  unfold sysDeclsOfGroup
  cases g with
  | nil => rfl
  | cons q g => simp only; split <;> rfl

theorem sysDeclsOfKeys_no_user (conns : List String → List Conn) (qs : List Quota) :
    ∀ ks, (sysDeclsOfKeys conns qs ks).filter (·.kind == .user) = []
  | [] => rfl
  | k :: ks => by
    unfold sysDeclsOfKeys
    rw [List.filter_append, sysDeclsOfGroup_no_user, sysDeclsOfKeys_no_user conns qs ks]
    rfl

theorem sysDecls_no_user (conns : List String → List Conn) (qs : List Quota) :
    (sysDecls conns qs).filter (·.kind == .user) = [] := by
  unfold sysDecls
  rw [List.filter_append, sysDeclsOfKeys_no_user, sysDeclsOfKeys_no_user]
  rfl

/-! ### shape of the reference user loop -/

theorem suserReq_shape (o : Oracle) (fuel : Nat) : ∀ fs : List SFlow,
    ((suserReq o fuel fs).2.2.isSome = true → (suserReq o fuel fs).2.1 = none) ∧
    (∀ sf k, (suserReq o fuel fs).2.1 = some (sf, k) → sf ∈ fs)
  | [] => ⟨fun _ => rfl, by simp [suserReq]⟩
  | f :: fs => by
    have ih := suserReq_shape o fuel fs
    unfold suserReq
    simp only
    split
    · exact ⟨fun _ => rfl, by simp⟩
    · split
      · rename_i k hk
        refine ⟨by simp, ?_⟩
        intro sf k' h
        simp only [Option.some.injEq, Prod.mk.injEq] at h
        rw [← h.1]; exact List.mem_cons_self ..
      · refine ⟨ih.1, ?_⟩
        intro sf k' h
        exact List.mem_cons_of_mem _ (ih.2 sf k' h)

/-! ### unpacking the finding classifier -/

theorem finding_none {s : STxn} (h : finding s = none) {sf : SFlow} {k : String}
    (ha : s.answered = some (sf, k)) : mentioned sf.res k = true := by
  unfold finding at h
  rw [ha] at h
  simp only at h
  cases hm : mentioned sf.res k with
  | false => simp [hm] at h
  | true => rfl

/-! ### names of user flows are unique -/

theorem nodupNames_inj {α : Type} (f : α → String) : ∀ (l : List α), nodupNames (l.map f) = true →
    ∀ a ∈ l, ∀ b ∈ l, f a = f b → a = b
  | [], _, a, ha, _, _, _ => by simp at ha
  | x :: l, h, a, ha, b, hb, hab => by
    simp only [List.map_cons, nodupNames, Bool.and_eq_true, Bool.not_eq_true', List.contains_eq_mem,
      decide_eq_false_iff_not] at h
    have hx : ∀ y ∈ l, f y ≠ f x := fun y hy hfy => h.1 (List.mem_map.mpr ⟨y, hy, hfy⟩)
    rcases List.mem_cons.mp ha with rfl | ha' <;> rcases List.mem_cons.mp hb with rfl | hb'
    · rfl
    · exact absurd hab.symm (hx b hb')
    · exact absurd hab (hx a ha')
    · exact nodupNames_inj f l h.2 a ha' b hb' hab

/-! ### assembly -/

/-- what `load = ok` provides -/
theorem load_pairs {c : Cfg} {order : List String} {l : Loaded} (hl : load c order = .ok l) :
    ∃ pl : List (FlowDecl × Flow),
      pl.map (·.1) = sortBy order (c.flows.filter yamlOk) ++ sysDecls sysConns c.quotas ∧
      l.flows = pl.map (fun p => (p.1.kind, p.2)) ∧
      (∀ p ∈ pl, Built p.1.rep p.2) ∧
      nodupNames (((sortBy order (c.flows.filter yamlOk)).filter (·.kind == .user)).map (·.rep.name)) = true := by
  unfold load at hl
  simp only at hl
  split at hl
  · simp at hl
  · split at hl
    · simp at hl
    · rename_i hnd
      cases hb : buildAll (c.ptypes ++ sysPTypes)
          (sortBy order (c.flows.filter yamlOk) ++ sysDecls sysConns c.quotas) with
      | error e => simp [hb] at hl
      | ok fs =>
        simp only [hb, Except.ok.injEq] at hl
        subst hl
        obtain ⟨pl, h1, h2, h3⟩ := buildAll_pairs _ _ hb
        exact ⟨pl, h1, h2, h3, by simpa using hnd⟩

theorem selected_eq {l : Loaded} {pl : List (FlowDecl × Flow)} (h : l.flows = pl.map (fun p => (p.1.kind, p.2))) :
    l.selected = ⟨mflows (pairsOf .sysStart pl), mflows (pairsOf .user pl), mflows (pairsOf .sysEnd pl)⟩ := by
  unfold Loaded.selected
  rw [h, filter_map_kind, filter_map_kind, filter_map_kind]

theorem specCfg_eq {c : Cfg} {order : List String} {pl : List (FlowDecl × Flow)}
    (h : pl.map (·.1) = sortBy order (c.flows.filter yamlOk) ++ sysDecls sysConns c.quotas) :
    specCfg c order =
      ⟨sflows (pairsOf .sysStart pl), sflows (pairsOf .user pl), sflows (pairsOf .sysEnd pl)⟩ := by
  unfold specCfg
  simp only
  rw [← sysDecls_eq, ← h]
  have e1 := filter_map_conv .sysStart pl
  have e2 := filter_map_conv .user pl
  have e3 := filter_map_conv .sysEnd pl
  unfold conv at e1 e2 e3
  rw [e1, e2, e3]

/-- names of the user pairs are pairwise different -/
theorem user_names_inj {c : Cfg} {order : List String} {pl : List (FlowDecl × Flow)}
    (h : pl.map (·.1) = sortBy order (c.flows.filter yamlOk) ++ sysDecls sysConns c.quotas)
    (hnd : nodupNames (((sortBy order (c.flows.filter yamlOk)).filter (·.kind == .user)).map (·.rep.name)) = true) :
    ∀ a ∈ pairsOf .user pl, ∀ b ∈ pairsOf .user pl, a.1.name = b.1.name → a = b := by
  have hn : (pairsOf .user pl).map (·.1.name) =
      ((sortBy order (c.flows.filter yamlOk)).filter (·.kind == .user)).map (·.rep.name) := by
    have h1 : ((pl.map (·.1)).filter (·.kind == .user)).map (·.rep.name) = (pairsOf .user pl).map (·.1.name) := by
      clear h hnd
      induction pl with
      | nil => rfl
      | cons p pl ih =>
        simp only [pairsOf, List.map_cons, List.filter_cons] at ih ⊢
        cases hk : p.1.kind == .user <;> simp [ih]
    rw [← h1, h, List.filter_append, sysDecls_no_user, List.append_nil]
  intro a ha b hb hab
  exact nodupNames_inj (·.1.name) _ (by rw [hn]; exact hnd) a ha b hb hab

/-- System-flow processors never answer a request themselves. -/
def SysQuiet (sc : SCfg) (o : Oracle) : Prop :=
  ∀ sf ∈ sc.start ++ sc.finish, ∀ k, (o sf.name k .req).early = false

theorem noAnswer_of_quiet {sf : SFlow} {o : Oracle} (h : ∀ k, (o sf.name k .req).early = false) :
    NoAnswer sf o .req := fun k => by simp [h k]

/-- **Transaction refinement on pair lists** (all fuel values): the engine's flows `mflows …` were built from
    the connection lists whose reference views are `sflows …`. -/
theorem txn_eq_pairs (ps pu pf : Pairs) (o : Oracle) (d : Dir) (fuel : Nat)
    (hs : PairsOK ps) (hu : PairsOK pu) (hfi : PairsOK pf)
    (hinj : ∀ a ∈ pu, ∀ b ∈ pu, a.1.name = b.1.name → a = b)
    (hq : SysQuiet ⟨sflows ps, sflows pu, sflows pf⟩ o)
    (hf : finding (stxn ⟨sflows ps, sflows pu, sflows pf⟩ o fuel d) = none) :
    (transaction ⟨mflows ps, mflows pu, mflows pf⟩ o fuel d).trace =
      (stxn ⟨sflows ps, sflows pu, sflows pf⟩ o fuel d).trace ∧
    (transaction ⟨mflows ps, mflows pu, mflows pf⟩ o fuel d).err =
      (stxn ⟨sflows ps, sflows pu, sflows pf⟩ o fuel d).err := by
  cases d with
  | res =>
    have hr := res_eq o fuel _ _ _ hs hu hfi none (by intro p _ fl k h; simp at h)
    unfold transaction stxn
    simp only
    rcases hrr : sresponse ⟨sflows (ps), sflows (pu), sflows (pf)⟩
        o fuel none with ⟨rt, re⟩
    rw [hrr] at hr
    exact hr
  | req =>
    have hqs : ∀ p ∈ ps, NoAnswer (sflowOf p.1) o .req := by
      intro p hp
      apply noAnswer_of_quiet
      apply hq
      simp only [List.mem_append]
      exact Or.inl (List.mem_map.mpr ⟨p, hp, rfl⟩)
    have hqf : ∀ p ∈ pf, NoAnswer (sflowOf p.1) o .req := by
      intro p hp
      apply noAnswer_of_quiet
      apply hq
      simp only [List.mem_append]
      exact Or.inr (List.mem_map.mpr ⟨p, hp, rfl⟩)
    have hshape := suserReq_shape o fuel (sflows (pu))
    -- the classifier speaks about the answer of the user loop whenever that loop was reached
    have hans : (sall o .req fuel (sflows (ps))).err = none →
        (suserReq o fuel (sflows (pu))).2.2 = none →
        (stxn ⟨sflows (ps), sflows (pu), sflows (pf)⟩ o fuel .req).answered
          = (suserReq o fuel (sflows (pu))).2.1 ∨
        (suserReq o fuel (sflows (pu))).2.1 = none := by
      intro ha hbe
      unfold stxn
      simp only [ha, Option.isSome_none, Bool.false_eq_true, if_false]
      rcases hss : suserReq o fuel (sflows (pu)) with ⟨st, ssc, se⟩
      rw [hss] at hbe
      simp only at hbe ⊢
      subst hbe
      simp only [Option.isSome_none, Bool.false_eq_true, if_false]
      split
      · exact Or.inl rfl
      · cases ssc with
        | none => exact Or.inr rfl
        | some q => obtain ⟨sf, k⟩ := q; exact Or.inl rfl
    apply req_eq o fuel _ _ _ hs hu hfi hqs hqf
    intro ha sf k hsc p hp hname
    have hbe : (suserReq o fuel (sflows (pu))).2.2 = none := by
      cases hbe : (suserReq o fuel (sflows (pu))).2.2 with
      | none => rfl
      | some e => have := hshape.1 (by simp [hbe]); rw [hsc] at this; simp at this
    rcases hans ha hbe with h4 | h4
    · have hfn := finding_none hf (by rw [h4, hsc])
      -- the answering reference flow is the view of exactly one user pair: `p`
      have hmem := hshape.2 sf k hsc
      obtain ⟨q, hq', hqe⟩ := List.mem_map.mp hmem
      have hpq : p = q := hinj p hp q hq' (by rw [hname, ← hqe]; rfl)
      subst hpq
      have hres : sf.res = p.1.res := by rw [← hqe]; rfl
      rw [hres] at hfn
      exact hfn
    · rw [hsc] at h4; simp at h4


/-- **Transaction refinement** (all fuel values): outside the class of the open finding F04c the
    engine model's transaction equals the reference interpreter's. -/
theorem txn_eq (c : Cfg) (order : List String) (l : Loaded) (o : Oracle) (d : Dir) (fuel : Nat)
    (hl : load c order = .ok l)
    (hq : SysQuiet (specCfg c order) o)
    (hf : finding (stxn (specCfg c order) o fuel d) = none) :
    (transaction l.selected o fuel d).trace = (stxn (specCfg c order) o fuel d).trace ∧
    (transaction l.selected o fuel d).err = (stxn (specCfg c order) o fuel d).err := by
  obtain ⟨pl, h1, h2, h3, hnd⟩ := load_pairs hl
  have hsel := selected_eq h2
  have hspec := specCfg_eq h1
  rw [hspec] at hq hf ⊢
  rw [hsel]
  exact txn_eq_pairs _ _ _ o d fuel (pairsOf_ok h3 .sysStart) (pairsOf_ok h3 .user) (pairsOf_ok h3 .sysEnd)
    (user_names_inj h1 hnd) hq hf

end LunarVerif.C04
