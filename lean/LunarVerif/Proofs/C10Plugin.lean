import LunarVerif.Model.C10Plugin
/-! Helper lemmas for the plugin-level model: per-key projection of a plugin run. -/
namespace LunarVerif.C10

theorem lookup_setQ_self (qs : List (Nat × State)) (k : Nat) (s : State) :
    lookupQ (setQ qs k s) k = some s := by
  induction qs with
  | nil => simp [setQ, lookupQ]
  | cons q rest ih =>
    obtain ⟨k', s'⟩ := q
    simp only [setQ]
    split
    · simp [lookupQ]
    · next h => simp [lookupQ, h, ih]

theorem lookup_setQ_ne (qs : List (Nat × State)) (k k' : Nat) (s : State) (h : k' ≠ k) :
    lookupQ (setQ qs k s) k' = lookupQ qs k' := by
  induction qs with
  | nil => simp [setQ, lookupQ, Ne.symm h]
  | cons q rest ih =>
    obtain ⟨k0, s0⟩ := q
    simp only [setQ]
    split
    · next h0 => subst h0; simp [lookupQ, Ne.symm h]
    · next h0 =>
      simp only [lookupQ]
      split
      · rfl
      · exact ih

theorem lookup_tickQ (qs : List (Nat × State)) (k d : Nat) :
    lookupQ (tickQ d qs) k = (lookupQ qs k).map (fun s => { s with now := s.now + d }) := by
  induction qs with
  | nil => simp [tickQ, lookupQ]
  | cons q rest ih =>
    obtain ⟨k0, s0⟩ := q
    simp only [tickQ, List.map_cons, lookupQ] at ih ⊢
    split
    · simp
    · exact ih

theorem runS_nil (cfg : Cfg) (s : State) : runS cfg s [] = some s := by simp [runS, run]

theorem runS_cons (cfg : Cfg) (s : State) (l : Label) (ls : List Label) :
    runS cfg s (l :: ls) = match step cfg s l with
      | none => none
      | some (s', _) => runS cfg s' ls := by
  simp only [runS, run]
  cases hs : step cfg s l with
  | none => simp
  | some pr =>
    obtain ⟨s', e⟩ := pr
    simp only
    cases run cfg s' ls <;> simp

/-- A queue that already exists sees exactly its projection of the rest of the schedule. -/
theorem prun_existing (cfgOf : Nat → Cfg) (k : Nat) (ls : List PLabel) (p p' : Plugin) (s : State)
    (h : lookupQ p.queues k = some s) (hr : prun cfgOf p ls = some p') :
    lookupQ p'.queues k = runS (cfgOf k) s (projQ k ls) := by
  induction ls generalizing p s with
  | nil =>
    simp only [prun, Option.some.injEq] at hr
    subst hr
    simp [projQ, runS_nil, h]
  | cons l ls ih =>
    simp only [prun] at hr
    split at hr
    · simp at hr
    · next p1 hp1 =>
      cases l with
      | tick d =>
        simp only [pstep, Option.some.injEq] at hp1
        subst hp1
        have h1 : lookupQ (tickQ d p.queues) k = some { s with now := s.now + d } := by
          rw [lookup_tickQ, h]; rfl
        rw [ih _ _ h1 hr]
        simp [projQ, runS_cons, step]
      | on k0 l0 =>
        simp only [pstep] at hp1
        split at hp1
        · simp at hp1
        · next s' e hs =>
          simp only [Option.some.injEq] at hp1
          subst hp1
          by_cases hk : k0 = k
          · subst hk
            rw [h] at hs
            simp only [Option.getD_some] at hs
            rw [ih _ _ (lookup_setQ_self _ _ _) hr]
            simp [projQ, runS_cons, hs]
          · have h1 : lookupQ (setQ p.queues k0 s') k = some s := by
              rw [lookup_setQ_ne _ _ _ _ (Ne.symm hk)]; exact h
            rw [ih _ _ h1 hr]
            simp [projQ, hk]

/-- The queue of `key` over a plugin schedule started at instant `now` while it does not exist yet:
    created by its first own step, at the instant of that step, with its own strategy. -/
def createdRun (cfgOf : Nat → Cfg) (key : Nat) : Nat → List PLabel → Option State
  | _, [] => none
  | now, .tick d :: ls => createdRun cfgOf key (now + d) ls
  | now, .on k l :: ls =>
    if k = key then runS (cfgOf key) (init (cfgOf key) now) (l :: projQ key ls)
    else createdRun cfgOf key now ls

theorem prun_absent (cfgOf : Nat → Cfg) (k : Nat) (ls : List PLabel) (p p' : Plugin)
    (h : lookupQ p.queues k = none) (hr : prun cfgOf p ls = some p') :
    lookupQ p'.queues k = createdRun cfgOf k p.now ls := by
  induction ls generalizing p with
  | nil =>
    simp only [prun, Option.some.injEq] at hr
    subst hr
    simp [createdRun, h]
  | cons l ls ih =>
    simp only [prun] at hr
    split at hr
    · simp at hr
    · next p1 hp1 =>
      cases l with
      | tick d =>
        simp only [pstep, Option.some.injEq] at hp1
        subst hp1
        have h1 : lookupQ (tickQ d p.queues) k = none := by rw [lookup_tickQ, h]; rfl
        rw [ih _ h1 hr]
        simp [createdRun]
      | on k0 l0 =>
        simp only [pstep] at hp1
        split at hp1
        · simp at hp1
        · next s' e hs =>
          simp only [Option.some.injEq] at hp1
          subst hp1
          by_cases hk : k0 = k
          · subst hk
            rw [h] at hs
            simp only [Option.getD_none] at hs
            rw [prun_existing cfgOf k0 ls _ _ s' (lookup_setQ_self _ _ _) hr]
            simp [createdRun, runS_cons, hs]
          · have h1 : lookupQ (setQ p.queues k0 s') k = none := by
              rw [lookup_setQ_ne _ _ _ _ (Ne.symm hk)]; exact h
            rw [ih _ h1 hr]
            simp [createdRun, hk]

end LunarVerif.C10
