import LunarVerif.Spec.C05
/-!
C05, part 1: the validator's cycle DFS simulates every walk.

`dfs g F vis k c = true` explores ALL edges below `k`; the walker follows a subset of them (those whose
condition equals the processor's output).  So whenever the DFS succeeded with fuel `F`, the walker started
at `k` with any fuel `≥ F` never runs out of fuel, and executes at most `1 + D + … + D^(F-1)` processors.
-/
namespace LunarVerif.C05
open LunarVerif.FlowGraph LunarVerif.FlowExec

/-! ### paths -/

/-- `b` is the target of a processor edge of node `a` -/
def Step (g : DirGraph) (a b : String) : Prop :=
  ∃ n e, g.find a = some n ∧ e ∈ n.edges ∧ e.target = .node b

/-- consecutive elements are connected by processor edges -/
def IsPath (g : DirGraph) : List String → Prop
  | [] => True
  | [_] => True
  | a :: b :: rest => Step g a b ∧ IsPath g (b :: rest)

theorem dfs_edge {g : DirGraph} {F : Nat} {vis : List (String × String)} {k c : String} {n : Node} {e : Edge}
    {t : String} (h : dfs g (F + 1) vis k c = true) (hn : g.find k = some n) (he : e ∈ n.edges)
    (ht : e.target = .node t) : dfs g F ((condKey c, k) :: vis) t e.cond = true := by
  unfold dfs at h
  simp only [hn] at h
  split at h
  · exact absurd h (by simp)
  · rw [List.all_eq_true] at h
    have := h e he
    simp only [ht] at this
    exact this

/-- every path below a node the DFS accepted is shorter than the DFS's fuel: no cycle is reachable -/
theorem dfs_paths_bounded (g : DirGraph) : ∀ (F : Nat) (vis : List (String × String)) (t c : String),
    dfs g F vis t c = true → ∀ p, IsPath g (t :: p) → p.length < F
  | 0, _, _, _, h, _, _ => by simp [dfs] at h
  | F + 1, vis, t, c, h, p, hp => by
    cases p with
    | nil => simp
    | cons b rest =>
      obtain ⟨⟨n, e, hn, he, ht⟩, hrest⟩ := hp
      have := dfs_paths_bounded g F _ b e.cond (dfs_edge h hn he ht) rest hrest
      simp only [List.length_cons]
      omega

/-! ### counting executions -/

theorem steps_nil : steps [] = 0 := rfl

theorem steps_append (a b : List Event) : steps (a ++ b) = steps a + steps b := by
  simp [steps, List.filter_append]

theorem steps_cons_exec (f k : String) (d : Dir) (o : Out) (t : List Event) :
    steps (Event.exec f k d o :: t) = 1 + steps t := by
  simp [steps]; omega

theorem steps_cons_enter (f : String) (d : Dir) (t : List Event) :
    steps (Event.enter f d :: t) = steps t := by
  simp [steps]

/-- a result that did not run out of fuel and executed at most `b` processors -/
def WOk (b : Nat) (r : WalkRes) : Prop := r.err ≠ some .fuel ∧ steps r.trace ≤ b

theorem walkEdges_ok (rec : String → WalkRes) (name : String) (b : Nat) :
    ∀ (es : List Edge) (sc : Option String),
      (∀ e ∈ es, ∀ t, e.target = .node t → WOk b (rec t)) →
      WOk (es.length * b) (walkEdges rec name es sc)
  | [], sc, _ => by simp [walkEdges, WOk, steps_nil]
  | e :: es, sc, h => by
    have hrest : ∀ sc', WOk (es.length * b) (walkEdges rec name es sc') :=
      fun sc' => walkEdges_ok rec name b es sc' (fun e' he' => h e' (List.mem_cons_of_mem _ he'))
    have hmul : (e :: es).length * b = es.length * b + b := by
      simp only [List.length_cons, Nat.add_mul, Nat.one_mul]
    unfold walkEdges
    cases ht : e.target with
    | stream n a =>
      simp only []
      have := hrest sc
      exact ⟨this.1, by rw [hmul]; exact Nat.le_trans this.2 (Nat.le_add_right _ _)⟩
    | node t =>
      simp only []
      have hr := h e (List.mem_cons_self) t ht
      by_cases hc : (e.cond == name) = true
      · simp only [hc, if_true]
        by_cases herr : (rec t).err.isSome = true
        · simp only [herr, if_true]
          exact ⟨hr.1, by rw [hmul]; exact Nat.le_trans hr.2 (Nat.le_add_left _ _)⟩
        · simp only [herr, Bool.false_eq_true, if_false]
          by_cases hsc : (rec t).sc.isSome = true
          · simp only [hsc, if_true]
            exact ⟨hr.1, by rw [hmul]; exact Nat.le_trans hr.2 (Nat.le_add_left _ _)⟩
          · simp only [hsc, Bool.false_eq_true, if_false]
            have := hrest (rec t).sc
            refine ⟨this.1, ?_⟩
            simp only [steps_append]
            rw [hmul]
            have h1 := hr.2
            have h2 := this.2
            omega
      · simp only [hc, Bool.false_eq_true, if_false]
        have := hrest sc
        exact ⟨this.1, by rw [hmul]; exact Nat.le_trans this.2 (Nat.le_add_right _ _)⟩

/-! ### out-degree -/

theorem foldl_max_ge (l : List Node) : ∀ (m : Nat), m ≤ l.foldl (fun m n => max m n.edges.length) m := by
  induction l with
  | nil => intro m; exact Nat.le_refl _
  | cons x xs ih =>
    intro m
    simp only [List.foldl_cons]
    exact Nat.le_trans (Nat.le_max_left _ _) (ih _)

theorem foldl_max_mem (l : List Node) : ∀ (m : Nat) (n : Node), n ∈ l →
    n.edges.length ≤ l.foldl (fun m n => max m n.edges.length) m := by
  induction l with
  | nil => intro m n h; simp at h
  | cons x xs ih =>
    intro m n h
    simp only [List.foldl_cons]
    rcases List.mem_cons.mp h with rfl | h'
    · exact Nat.le_trans (Nat.le_max_right _ _) (foldl_max_ge xs _)
    · exact ih _ n h'

theorem find_mem {g : DirGraph} {k : String} {n : Node} (h : g.find k = some n) : n ∈ g.nodes := by
  unfold DirGraph.find findNode at h
  exact List.mem_of_find?_eq_some h

theorem deg_le_maxDeg {g : DirGraph} {k : String} {n : Node} (h : g.find k = some n) :
    n.edges.length ≤ maxDeg g := foldl_max_mem g.nodes 0 n (find_mem h)

theorem bnd_step (d : Nat) : ∀ m, bnd d m ≤ bnd d (m + 1)
  | 0 => by simp [bnd]
  | m + 1 => by
    have := Nat.mul_le_mul_left d (bnd_step d m)
    simp only [bnd] at this ⊢
    omega

theorem bnd_mono (d : Nat) {a b : Nat} (h : a ≤ b) : bnd d a ≤ bnd d b := by
  induction h with
  | refl => exact Nat.le_refl _
  | step _ ih => exact Nat.le_trans ih (bnd_step d _)

/-! ### the simulation -/

/-- one level of the walk, given that every edge target is fine with `fuel` -/
theorem walk_succ_ok (f : Flow) (o : Oracle) (d : Dir) (fuel : Nat) (k : String) (b : Nat)
    (h : ∀ n, (f.dir d).find k = some n → ∀ e ∈ n.edges, ∀ t, e.target = .node t → WOk b (walk f o d fuel t)) :
    WOk (1 + maxDeg (f.dir d) * b) (walk f o d (fuel + 1) k) := by
  unfold walk
  cases hn : (f.dir d).find k with
  | none => simp [WOk, steps_nil]
  | some n =>
    simp only []
    by_cases herr : (o f.name k d).err = true
    · simp only [herr, if_true]
      refine ⟨by simp, ?_⟩
      rw [steps_cons_exec, steps_nil]; omega
    · simp only [herr]
      by_cases hearly : ((o f.name k d).early && d == .req) = true
      · simp only [hearly, Bool.false_eq_true, if_false, if_true]
        cases f.res.find k with
        | none => refine ⟨by simp, ?_⟩; simp only []; rw [steps_cons_exec, steps_nil]; omega
        | some _ => refine ⟨by simp, ?_⟩; simp only []; rw [steps_cons_exec, steps_nil]; omega
      · simp only [hearly, Bool.false_eq_true, if_false]
        have hw := walkEdges_ok (walk f o d fuel) (o f.name k d).name b n.edges none (h n hn)
        refine ⟨hw.1, ?_⟩
        simp only [steps_cons_exec]
        have hdeg := deg_le_maxDeg hn
        have := Nat.mul_le_mul_right b hdeg
        have h2 := hw.2
        omega

/-- **the DFS simulates the walk** -/
theorem walk_of_dfs (f : Flow) (o : Oracle) (d : Dir) :
    ∀ (F : Nat) (vis : List (String × String)) (k c : String),
      dfs (f.dir d) F vis k c = true → ∀ fuel, F ≤ fuel →
      WOk (bnd (maxDeg (f.dir d)) F) (walk f o d fuel k)
  | 0, _, _, _, h, _, _ => by simp [dfs] at h
  | F + 1, vis, k, c, h, fuel, hf => by
    obtain ⟨fuel', rfl⟩ : ∃ fuel', fuel = fuel' + 1 := ⟨fuel - 1, by omega⟩
    have := walk_succ_ok f o d fuel' k (bnd (maxDeg (f.dir d)) F) (fun n hn e he t ht =>
      walk_of_dfs f o d F _ t e.cond (dfs_edge h hn he ht) fuel' (by omega))
    simpa [bnd] using this

/-- more fuel than needed changes nothing about the bound -/
theorem WOk.mono {a b : Nat} {r : WalkRes} (h : WOk a r) (hab : a ≤ b) : WOk b r :=
  ⟨h.1, Nat.le_trans h.2 hab⟩

end LunarVerif.C05
