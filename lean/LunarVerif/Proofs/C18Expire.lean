import LunarVerif.Model.C18Expire
/-! Invariant of the stored-request clean-up model. -/
namespace LunarVerif.C18.Expire

/-- every live stored request: the watcher's entries for its key carry exactly the deadline of its
    latest store, and before that deadline the key still holds its value -/
def Inv (s : St) : Prop :=
  ∀ e ∈ s.want, (∀ e' ∈ s.dls, e'.1 = e.1 → e'.2 = e.2) ∧ (s.now < e.2 → e.1 ∈ s.store)

theorem inv_init : Inv {} := by
  intro e he; simp at he

theorem mem_set {t : Tbl} {k : String} {v : Nat} {e : String × Nat} (h : e ∈ t.set k v) :
    e = (k, v) ∨ (e ∈ t ∧ e.1 ≠ k) := by
  unfold Tbl.set at h
  rcases List.mem_cons.1 h with h | h
  · exact Or.inl h
  · right
    have := List.mem_filter.1 h
    exact ⟨this.1, by simpa using this.2⟩

theorem mem_del {t : Tbl} {k : String} {e : String × Nat} (h : e ∈ t.del k) : e ∈ t ∧ e.1 ≠ k := by
  unfold Tbl.del at h
  have := List.mem_filter.1 h
  exact ⟨this.1, by simpa using this.2⟩

theorem inv_step (s : St) (op : Op) (h : Inv s) : Inv (step s op) := by
  cases op with
  | add k d =>
    intro e he
    simp only [step] at he ⊢
    rcases mem_set he with rfl | ⟨hw, hne⟩
    · constructor
      · intro e' he' hk
        rcases mem_set he' with rfl | ⟨_, hne'⟩
        · rfl
        · exact absurd hk hne'
      · intro _; simp
    · obtain ⟨h1, h2⟩ := h e hw
      constructor
      · intro e' he' hk
        rcases mem_set he' with rfl | ⟨hin, _⟩
        · exact absurd hk.symm hne
        · exact h1 e' hin hk
      · intro hlt
        have := h2 hlt
        apply List.mem_cons_of_mem
        exact List.mem_filter.2 ⟨this, by simpa using hne⟩
  | discard k =>
    intro e he
    simp only [step] at he ⊢
    obtain ⟨hw, hne⟩ := mem_del he
    obtain ⟨h1, h2⟩ := h e hw
    exact ⟨h1, fun hlt => List.mem_filter.2 ⟨h2 hlt, by simpa using hne⟩⟩
  | sleep n =>
    intro e he
    simp only [step] at he ⊢
    obtain ⟨h1, h2⟩ := h e he
    exact ⟨h1, fun hlt => h2 (by omega)⟩
  | sweep =>
    intro e he
    simp only [step] at he ⊢
    obtain ⟨h1, h2⟩ := h e he
    constructor
    · intro e' he' hk
      exact h1 e' (List.mem_filter.1 he').1 hk
    · intro hlt
      refine List.mem_filter.2 ⟨h2 hlt, ?_⟩
      simp only [Bool.not_eq_true', List.contains_eq_mem, decide_eq_false_iff_not, List.mem_map,
        List.mem_filter, not_exists, not_and, and_imp]
      intro e' he' hexp hk
      have := h1 e' he' hk
      simp only [expired, decide_eq_true_eq] at hexp
      omega

theorem inv_run (ops : List Op) : ∀ s, Inv s → Inv (run ops s) := by
  induction ops with
  | nil => intro s h; exact h
  | cons o os ih => intro s h; exact ih _ (inv_step s o h)

end LunarVerif.C18.Expire
