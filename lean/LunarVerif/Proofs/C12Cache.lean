import LunarVerif.Proofs.C12
/-! C12, raw cache: the invariant tying every stored entry to the LAST successful store of its key in the
observable history, and the proof that every run satisfies `Spec.holds`. -/
set_option linter.unusedSectionVars false
set_option linter.unusedSimpArgs false
namespace LunarVerif.C12

section
variable {κ ν : Type} [DecidableEq κ] [DecidableEq ν]

/-- Every stored entry is the last successful `Set` of its key (not deleted since), with its expiry. -/
def EntInv (h : List (Rec κ ν)) (c : Cache κ ν) : Prop :=
  ∀ k e, find? k c.entries = some e →
    ∃ t0 ttl, lastStore k h = some (e.val, t0, ttl) ∧ e.expiry = t0 + ttl

theorem lastStore_set_ok (k k' : κ) (v : ν) (ttl : Int) (sz : Nat) (t : Int) (h : List (Rec κ ν)) :
    lastStore k' (⟨t, .set k v ttl sz, .setRes .ok⟩ :: h) =
      if k = k' then some (v, t, ttl) else lastStore k' h := by
  simp [lastStore]

theorem lastStore_set_full (k k' : κ) (v : ν) (ttl : Int) (sz : Nat) (t : Int) (h : List (Rec κ ν)) :
    lastStore k' (⟨t, .set k v ttl sz, .setRes .full⟩ :: h) = lastStore k' h := by
  simp [lastStore]

theorem lastStore_del (k k' : κ) (t : Int) (o : Out ν) (h : List (Rec κ ν)) :
    lastStore k' (⟨t, .del k, o⟩ :: h) = if k = k' then none else lastStore k' h := by
  simp [lastStore]

theorem lastStore_get (k k' : κ) (t : Int) (o : Out ν) (h : List (Rec κ ν)) :
    lastStore k' (⟨t, .get k, o⟩ :: h) = lastStore k' h := by
  simp [lastStore]

theorem lastStore_has (k k' : κ) (t : Int) (o : Out ν) (h : List (Rec κ ν)) :
    lastStore k' (⟨t, .has k, o⟩ :: h) = lastStore k' h := by
  simp [lastStore]

theorem lastStore_fire (i : Nat) (k' : κ) (t : Int) (o : Out ν) (h : List (Rec κ ν)) :
    lastStore k' (⟨t, .fire i, o⟩ :: h) = lastStore k' h := by
  simp [lastStore]

theorem lastStore_skip (d : Nat) (k' : κ) (t : Int) (o : Out ν) (h : List (Rec κ ν)) :
    lastStore k' (⟨t, .skip d, o⟩ :: h) = lastStore k' h := by
  simp [lastStore]

theorem lastStore_adv (d : Nat) (k' : κ) (t : Int) (o : Out ν) (h : List (Rec κ ν)) :
    lastStore k' (⟨t, .adv d, o⟩ :: h) = lastStore k' h := by
  simp [lastStore]

theorem lastStore_probe (k' : κ) (t : Int) (o : Out ν) (h : List (Rec κ ν)) :
    lastStore k' (⟨t, .probe, o⟩ :: h) = lastStore k' h := by
  simp [lastStore]

theorem step_entInv (c : Cache κ ν) (h : List (Rec κ ν)) (ev : Ev κ ν) (hinv : EntInv h c) :
    EntInv (⟨c.now, ev, (step c ev).2⟩ :: h) (step c ev).1 := by
  intro k' e hf
  cases ev with
  | set k v ttl sz =>
    simp only [step] at hf ⊢
    rcases find?_set hf with ⟨hk, he, hok⟩ | ⟨hk, hok, hb⟩ | ⟨hfull, hb⟩
    · rw [hok, lastStore_set_ok]
      subst hk; subst he
      exact ⟨c.now, ttl, by simp, rfl⟩
    · rw [hok, lastStore_set_ok]
      have : ¬ k = k' := fun x => hk x.symm
      simp only [this, if_false]
      exact hinv k' e hb
    · rw [hfull, lastStore_set_full]
      exact hinv k' e hb
  | get k => simp only [step] at hf ⊢; rw [lastStore_get]; exact hinv k' e hf
  | has k => simp only [step] at hf ⊢; rw [lastStore_has]; exact hinv k' e hf
  | del k =>
    simp only [step, clearKey_entries] at hf ⊢
    have := find?_erase_some hf
    rw [lastStore_del]
    have hk : ¬ k = k' := fun x => this.1 x.symm
    simp only [hk, if_false]
    exact hinv k' e this.2
  | fire i => simp only [step] at hf ⊢; rw [lastStore_fire]; exact hinv k' e (find?_fire hf)
  | skip d => simp only [step, skip] at hf ⊢; rw [lastStore_skip]; exact hinv k' e hf
  | adv d => simp only [step] at hf ⊢; rw [lastStore_adv]; exact hinv k' e (find?_adv hf)
  | probe => simp only [step] at hf ⊢; rw [lastStore_probe]; exact hinv k' e hf

theorem step_recOk (cfg : Cfg) (c : Cache κ ν) (h : List (Rec κ ν)) (ev : Ev κ ν)
    (hinv : EntInv h c) (hs : SizeInv c) (hc : c.sizeOn = cfg.sizeOn ∧ c.max = cfg.max) :
    recOk cfg ⟨c.now, ev, (step c ev).2⟩ h = true := by
  cases ev with
  | set k v ttl sz => simp [recOk, step]
  | get k =>
    simp only [step]
    cases hg : get c k with
    | none => simp [recOk]
    | some v =>
      obtain ⟨e, hf, hv, hle⟩ := get_some hg
      obtain ⟨t0, ttl, hl, hx⟩ := hinv k e hf
      simp only [recOk, hl, freshStore, hv]
      simp; omega
  | has k =>
    simp only [step]
    cases hg : has c k with
    | false => simp [recOk]
    | true =>
      obtain ⟨e, hf, hle⟩ := has_true hg
      obtain ⟨t0, ttl, hl, hx⟩ := hinv k e hf
      simp only [recOk, hl, freshStore]
      simp; omega
  | del k => simp [recOk, step]
  | fire i => simp [recOk, step]
  | skip d => simp [recOk, step]
  | adv d => simp [recOk, step]
  | probe =>
    simp only [step, recOk]
    cases hon : cfg.sizeOn with
    | false => simp
    | true =>
      have hon' : c.sizeOn = true := by rw [hc.1]; exact hon
      obtain ⟨h1, h2⟩ := hs hon'
      rw [← hc.2]
      simp; omega

theorem run_holdsRev (cfg : Cfg) (evs : List (Ev κ ν)) (c : Cache κ ν) (h : List (Rec κ ν))
    (hinv : EntInv h c) (hs : SizeInv c) (hc : c.sizeOn = cfg.sizeOn ∧ c.max = cfg.max)
    (hh : holdsRev cfg h = true) : holdsRev cfg ((run c evs).reverse ++ h) = true := by
  induction evs generalizing c h with
  | nil => simpa [run] using hh
  | cons ev evs ih =>
    simp only [run, List.reverse_cons, List.append_assoc, List.singleton_append]
    apply ih
    · exact step_entInv c h ev hinv
    · exact sizeInv_step ev hs
    · rw [step_sizeOn, step_max]; exact hc
    · simp only [holdsRev, Bool.and_eq_true]
      exact ⟨step_recOk cfg c h ev hinv hs hc, hh⟩

theorem entInv_init (cfg : Cfg) : EntInv ([] : List (Rec κ ν)) (cfg.init : Cache κ ν) := by
  intro k e hf
  simp [Cfg.init, Cache.init, find?] at hf

theorem sizeInv_init (cfg : Cfg) (hmax : 0 ≤ cfg.max) : SizeInv (cfg.init : Cache κ ν) := by
  intro _
  simp [Cfg.init, Cache.init, heldSize, hmax]

theorem final_sizeInv (evs : List (Ev κ ν)) (c : Cache κ ν) (hs : SizeInv c) : SizeInv (final c evs) := by
  induction evs generalizing c with
  | nil => exact hs
  | cons ev evs ih => exact ih _ (sizeInv_step ev hs)

theorem final_sizeOn (evs : List (Ev κ ν)) (c : Cache κ ν) : (final c evs).sizeOn = c.sizeOn := by
  induction evs generalizing c with
  | nil => rfl
  | cons ev evs ih => simp only [final]; rw [ih, step_sizeOn]

theorem final_max (evs : List (Ev κ ν)) (c : Cache κ ν) : (final c evs).max = c.max := by
  induction evs generalizing c with
  | nil => rfl
  | cons ev evs ih => simp only [final]; rw [ih, step_max]

/-! ### reading the property back out of `holdsRev` -/

theorem holdsRev_append_right (cfg : Cfg) (a b : List (Rec κ ν)) (h : holdsRev cfg (a ++ b) = true) :
    holdsRev cfg b = true := by
  induction a with
  | nil => simpa using h
  | cons r rest ih =>
    simp only [List.cons_append, holdsRev, Bool.and_eq_true] at h
    exact ih h.2

theorem holdsRev_head (cfg : Cfg) (r : Rec κ ν) (older : List (Rec κ ν))
    (h : holdsRev cfg (r :: older) = true) : recOk cfg r older = true := by
  simp only [holdsRev, Bool.and_eq_true] at h
  exact h.1

/-- From a split of a run: the record `r` satisfies `recOk` w.r.t. everything before it. -/
theorem recOk_of_split (cfg : Cfg) (hist pre post : List (Rec κ ν)) (r : Rec κ ν)
    (hh : holds cfg hist = true) (hsplit : hist = pre ++ r :: post) : recOk cfg r pre.reverse = true := by
  rw [holds, hsplit] at hh
  simp only [List.reverse_append, List.reverse_cons, List.append_assoc, List.singleton_append] at hh
  exact holdsRev_head cfg _ _ (holdsRev_append_right cfg _ _ hh)

theorem run_out_get {c : Cache κ ν} {evs : List (Ev κ ν)} {r : Rec κ ν} (hm : r ∈ run c evs) {k : κ}
    (hev : r.ev = .get k) : r.out = .got (none : Option ν) ∨ ∃ v, r.out = .got (some v) := by
  induction evs generalizing c with
  | nil => simp [run] at hm
  | cons ev evs ih =>
    simp only [run, List.mem_cons] at hm
    rcases hm with h1 | h1
    · subst h1
      simp only at hev
      subst hev
      simp only [step]
      cases get c k with
      | none => exact Or.inl rfl
      | some v => exact Or.inr ⟨v, rfl⟩
    · exact ih h1

theorem lastStore_cons_untouched (k : κ) (r : Rec κ ν) (rest : List (Rec κ ν)) (h : touches k r = false) :
    lastStore k (r :: rest) = lastStore k rest := by
  obtain ⟨t, ev, out⟩ := r
  cases ev <;> cases out <;> simp_all [touches, lastStore]
  all_goals (rename_i sr; cases sr <;> simp_all)

theorem lastStore_cons_touched (k : κ) (r : Rec κ ν) (rest : List (Rec κ ν)) (h : touches k r = true) :
    (∃ v ttl sz, r.ev = .set k v ttl sz ∧ r.out = .setRes .ok ∧ lastStore k (r :: rest) = some (v, r.t, ttl)) ∨
    (r.ev = .del k ∧ lastStore k (r :: rest) = none) := by
  obtain ⟨t, ev, out⟩ := r
  cases ev <;> cases out <;> simp_all [touches, lastStore]
  all_goals (rename_i sr; cases sr <;> simp_all)

/-- `lastStore` really is the last successful `Set` of the key, with no later `Set`/`Del` of it. -/
theorem lastStore_spec (k : κ) (h : List (Rec κ ν)) (v : ν) (t0 ttl : Int)
    (hl : lastStore k h = some (v, t0, ttl)) :
    ∃ newer r older sz, h = newer ++ r :: older ∧ r.t = t0 ∧ r.ev = .set k v ttl sz ∧ r.out = .setRes .ok ∧
      ∀ x, x ∈ newer → touches k x = false := by
  induction h with
  | nil => simp [lastStore] at hl
  | cons r rest ih =>
    by_cases ht : touches k r = true
    · rcases lastStore_cons_touched k r rest ht with ⟨v', ttl', sz, hev, hout, hls⟩ | ⟨_, hls⟩
      · rw [hls] at hl
        simp only [Option.some.injEq, Prod.mk.injEq] at hl
        obtain ⟨h1, h2, h3⟩ := hl
        subst h1; subst h3
        exact ⟨[], r, rest, sz, rfl, h2, hev, hout, fun x hx => by cases hx⟩
      · rw [hls] at hl; cases hl
    · have ht' : touches k r = false := by simpa using ht
      rw [lastStore_cons_untouched k r rest ht'] at hl
      obtain ⟨newer, r0, older, sz, h1, h2, h3, h4, h5⟩ := ih hl
      refine ⟨r :: newer, r0, older, sz, by rw [h1]; rfl, h2, h3, h4, ?_⟩
      intro x hx
      rcases List.mem_cons.mp hx with hx | hx
      · rw [hx]; exact ht'
      · exact h5 x hx

end

end LunarVerif.C12
