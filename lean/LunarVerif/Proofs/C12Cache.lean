import LunarVerif.Proofs.C12
/-! C12, raw cache: the invariant tying every stored entry to the LAST successful store of its key in the
observable history, and the proof that every run satisfies `Spec.holds`. -/
set_option linter.unusedSectionVars false
set_option linter.unusedSimpArgs false
namespace LunarVerif.C12

section
variable {κ ν : Type} [DecidableEq κ] [DecidableEq ν]

/-- Every stored entry is the last successful `Set` of its key (not deleted since), with its expiry. -/
def EntInv (h : List (Rec κ ν)) (c : Cache κ ν) : Prop :=
  ∀ k e, find? k c.entries = some e →
    ∃ t0 ttl, lastStore k h = some (e.val, t0, ttl) ∧ e.expiry = t0 + ttl

theorem lastStore_set_ok (k k' : κ) (v : ν) (ttl : Int) (sz : Nat) (t m : Int) (h : List (Rec κ ν)) :
    lastStore k' (⟨t, m, .set k v ttl sz, .setRes .ok⟩ :: h) =
      if k = k' then some (v, t, ttl) else lastStore k' h := by
  simp [lastStore]

theorem lastStore_set_full (k k' : κ) (v : ν) (ttl : Int) (sz : Nat) (t m : Int) (h : List (Rec κ ν)) :
    lastStore k' (⟨t, m, .set k v ttl sz, .setRes .full⟩ :: h) = lastStore k' h := by
  simp [lastStore]

theorem lastStore_del (k k' : κ) (t m : Int) (o : Out ν) (h : List (Rec κ ν)) :
    lastStore k' (⟨t, m, .del k, o⟩ :: h) = if k = k' then none else lastStore k' h := by
  simp [lastStore]

theorem lastStore_get (k k' : κ) (t m : Int) (o : Out ν) (h : List (Rec κ ν)) :
    lastStore k' (⟨t, m, .get k, o⟩ :: h) = lastStore k' h := by
  simp [lastStore]

theorem lastStore_has (k k' : κ) (t m : Int) (o : Out ν) (h : List (Rec κ ν)) :
    lastStore k' (⟨t, m, .has k, o⟩ :: h) = lastStore k' h := by
  simp [lastStore]

theorem lastStore_fire (i : Nat) (k' : κ) (t m : Int) (o : Out ν) (h : List (Rec κ ν)) :
    lastStore k' (⟨t, m, .fire i, o⟩ :: h) = lastStore k' h := by
  simp [lastStore]

theorem lastStore_skip (d : Nat) (k' : κ) (t m : Int) (o : Out ν) (h : List (Rec κ ν)) :
    lastStore k' (⟨t, m, .skip d, o⟩ :: h) = lastStore k' h := by
  simp [lastStore]

theorem lastStore_adv (d : Nat) (k' : κ) (t m : Int) (o : Out ν) (h : List (Rec κ ν)) :
    lastStore k' (⟨t, m, .adv d, o⟩ :: h) = lastStore k' h := by
  simp [lastStore]

theorem lastStore_wstep (d : Int) (k' : κ) (t m : Int) (o : Out ν) (h : List (Rec κ ν)) :
    lastStore k' (⟨t, m, .wstep d, o⟩ :: h) = lastStore k' h := by
  simp [lastStore]

theorem lastStore_probe (k' : κ) (t m : Int) (o : Out ν) (h : List (Rec κ ν)) :
    lastStore k' (⟨t, m, .probe, o⟩ :: h) = lastStore k' h := by
  simp [lastStore]

theorem step_entInv (c : Cache κ ν) (h : List (Rec κ ν)) (ev : Ev κ ν) (hinv : EntInv h c) :
    EntInv (⟨c.now, c.mono, ev, (step c ev).2⟩ :: h) (step c ev).1 := by
  intro k' e hf
  cases ev with
  | set k v ttl sz =>
    simp only [step] at hf ⊢
    rcases find?_set hf with ⟨hk, he, hok⟩ | ⟨hk, hok, hb⟩ | ⟨hfull, hb⟩
    · rw [hok, lastStore_set_ok]
      subst hk; subst he
      exact ⟨c.now, ttl, by simp, rfl⟩
    · rw [hok, lastStore_set_ok]
      have : ¬ k = k' := fun x => hk x.symm
      simp only [this, if_false]
      exact hinv k' e hb
    · rw [hfull, lastStore_set_full]
      exact hinv k' e hb
  | get k => simp only [step] at hf ⊢; rw [lastStore_get]; exact hinv k' e hf
  | has k => simp only [step] at hf ⊢; rw [lastStore_has]; exact hinv k' e hf
  | del k =>
    simp only [step, clearKey_entries] at hf ⊢
    have := find?_erase_some hf
    rw [lastStore_del]
    have hk : ¬ k = k' := fun x => this.1 x.symm
    simp only [hk, if_false]
    exact hinv k' e this.2
  | fire i => simp only [step] at hf ⊢; rw [lastStore_fire]; exact hinv k' e (find?_fire hf)
  | skip d => simp only [step, skip] at hf ⊢; rw [lastStore_skip]; exact hinv k' e hf
  | adv d => simp only [step] at hf ⊢; rw [lastStore_adv]; exact hinv k' e (find?_adv hf)
  | wstep d => simp only [step, wstep] at hf ⊢; rw [lastStore_wstep]; exact hinv k' e hf
  | probe => simp only [step] at hf ⊢; rw [lastStore_probe]; exact hinv k' e hf

/-! ### timers on time: every stored entry still has its own (not yet due) expiry timer pending -/

theorem storeDue_set_ok (k k' : κ) (v : ν) (ttl : Int) (sz : Nat) (t m : Int) (h : List (Rec κ ν)) :
    storeDue k' (⟨t, m, .set k v ttl sz, .setRes .ok⟩ :: h) = if k = k' then some (m + ttl) else storeDue k' h := by
  simp [storeDue]

theorem storeDue_set_full (k k' : κ) (v : ν) (ttl : Int) (sz : Nat) (t m : Int) (h : List (Rec κ ν)) :
    storeDue k' (⟨t, m, .set k v ttl sz, .setRes .full⟩ :: h) = storeDue k' h := by
  simp [storeDue]

theorem storeDue_del (k k' : κ) (t m : Int) (o : Out ν) (h : List (Rec κ ν)) :
    storeDue k' (⟨t, m, .del k, o⟩ :: h) = if k = k' then none else storeDue k' h := by
  simp [storeDue]

theorem mem_insertSleeper_self (s : Sleeper κ) (l : List (Sleeper κ)) : s ∈ insertSleeper s l := by
  induction l with
  | nil => simp [insertSleeper]
  | cons p rest ih =>
    simp only [insertSleeper]
    split <;> simp [ih]

theorem mem_insertSleeper_of_mem {s x : Sleeper κ} {l : List (Sleeper κ)} (h : x ∈ l) : x ∈ insertSleeper s l := by
  induction l with
  | nil => cases h
  | cons p rest ih =>
    simp only [insertSleeper]
    rcases List.mem_cons.mp h with h1 | h1
    · split <;> simp [h1]
    · split
      · exact List.mem_cons_of_mem _ (ih h1)
      · exact List.mem_cons_of_mem _ (List.mem_cons_of_mem _ h1)

theorem mem_insertSleeper_cases {s x : Sleeper κ} {l : List (Sleeper κ)} (h : x ∈ insertSleeper s l) :
    x = s ∨ x ∈ l := by
  induction l with
  | nil => simp [insertSleeper] at h; exact Or.inl h
  | cons p rest ih =>
    simp only [insertSleeper] at h
    by_cases hp : p.due ≤ s.due
    · simp only [hp, if_true, List.mem_cons] at h
      rcases h with h | h
      · exact Or.inr (by simp [h])
      · rcases ih h with h | h
        · exact Or.inl h
        · exact Or.inr (List.mem_cons_of_mem _ h)
    · simp only [hp, if_false, List.mem_cons] at h
      rcases h with h | h | h
      · exact Or.inl h
      · exact Or.inr (by simp [h])
      · exact Or.inr (List.mem_cons_of_mem _ h)

theorem find?_clearAll_notin {c : Cache κ ν} {l : List (Sleeper κ)} {k : κ} {e : Entry ν}
    (h : find? k (clearAll c l).entries = some e) : ∀ s, s ∈ l → s.key ≠ k := by
  induction l generalizing c with
  | nil => intro s hs; cases hs
  | cons s0 rest ih =>
    intro s hs
    rcases List.mem_cons.mp hs with h1 | h1
    · have h2 := find?_clearAll (c := clearKey c s0.key) (l := rest) h
      have := (find?_erase_some h2).1
      rw [h1]; exact fun x => this x.symm
    · exact ih (c := clearKey c s0.key) h s h1

/-- While no `skip` happened: no pending timer is due, and every stored entry has its own timer pending,
    due at the elapsed deadline `storeDue` of the last store of its key. -/
def OnTime (h : List (Rec κ ν)) (c : Cache κ ν) : Prop :=
  timersOnTime h = true →
    (∀ s, s ∈ c.pending → c.mono < s.due) ∧
    (∀ k e, find? k c.entries = some e → ∃ d, storeDue k h = some d ∧ ∃ s, s ∈ c.pending ∧ s.key = k ∧ s.due = d)

theorem onTime_init (cfg : Cfg) : OnTime ([] : List (Rec κ ν)) (cfg.init : Cache κ ν) := by
  intro _
  constructor
  · intro s hs; simp [Cfg.init, Cache.init] at hs
  · intro k e hf; simp [Cfg.init, Cache.init, find?] at hf

theorem step_onTime (c : Cache κ ν) (h : List (Rec κ ν)) (ev : Ev κ ν) (hinv : OnTime h c) :
    OnTime (⟨c.now, c.mono, ev, (step c ev).2⟩ :: h) (step c ev).1 := by
  intro hot
  have hot0 : timersOnTime h = true := by
    simp only [timersOnTime, Bool.and_eq_true] at hot; exact hot.2
  obtain ⟨hdue, hown⟩ := hinv hot0
  cases ev with
  | set k v ttl sz =>
    simp only [step]
    by_cases hfull : c.sizeOn = true ∧ c.tracked + (sz : Nat) > c.max
    · rw [set_eq_full k v ttl sz hfull]
      refine ⟨hdue, ?_⟩
      intro k' e hf
      simp only [storeDue_set_full]; exact hown k' e hf
    · have hok : ∀ x, x = SetRes.ok → True := fun _ _ => trivial
      by_cases httl : ttl > 0
      · rw [set_eq_pos k v ttl sz hfull httl]
        constructor
        · intro s hs
          rcases mem_insertSleeper_cases hs with h1 | h1
          · rw [h1]; show c.mono < c.mono + ttl; omega
          · exact hdue s h1
        · intro k' e hf
          simp only [storeDue_set_ok]
          by_cases hk : k = k'
          · subst hk
            simp only [if_true]
            exact ⟨c.mono + ttl, rfl, ⟨c.mono + ttl, k⟩, mem_insertSleeper_self _ _, rfl, rfl⟩
          · simp only [hk, if_false]
            simp only [find?, hk, if_false] at hf
            obtain ⟨d, hd, s, hs, hsk, hsd⟩ := hown k' e (find?_erase_some hf).2
            exact ⟨d, hd, s, mem_insertSleeper_of_mem hs, hsk, hsd⟩
      · rw [set_eq_nonpos k v ttl sz hfull httl]
        refine ⟨hdue, ?_⟩
        intro k' e hf
        have hne := find?_erase_some (k := k) (l := c.entries) hf
        simp only [storeDue_set_ok]
        have hk : ¬ k = k' := fun x => hne.1 x.symm
        simp only [hk, if_false]
        exact hown k' e hne.2
  | get k =>
    simp only [step]
    exact ⟨hdue, fun k' e hf => by simpa [storeDue] using hown k' e hf⟩
  | has k =>
    simp only [step]
    exact ⟨hdue, fun k' e hf => by simpa [storeDue] using hown k' e hf⟩
  | probe =>
    simp only [step]
    exact ⟨hdue, fun k' e hf => by simpa [storeDue] using hown k' e hf⟩
  | wstep d =>
    simp only [step, wstep]
    exact ⟨hdue, fun k' e hf => by simpa [storeDue] using hown k' e hf⟩
  | skip d => simp [timersOnTime] at hot
  | del k =>
    refine ⟨hdue, ?_⟩
    intro k' e hf
    have hne := find?_erase_some (k := k) (l := c.entries) hf
    simp only [storeDue_del]
    have hk : ¬ k = k' := fun x => hne.1 x.symm
    simp only [hk, if_false]
    exact hown k' e hne.2
  | fire i =>
    -- no timer is due: nothing fires
    have hsame : (fire c i).1 = c := by
      rcases fire_cases c i with h1 | h1 | ⟨s, hs, hd, _⟩
      · rw [h1]
      · rw [h1]
      · have := hdue s (List.mem_of_getElem? hs); omega
    simp only [step, hsame]
    exact ⟨hdue, fun k' e hf => by simpa [storeDue] using hown k' e hf⟩
  | adv d =>
    simp only [step]
    constructor
    · intro s hs
      simp only [adv, List.mem_filter, Bool.not_eq_true', decide_eq_false_iff_not] at hs
      show c.mono + (d : Nat) < s.due
      omega
    · intro k' e hf
      have hnot := find?_clearAll_notin (c := c) hf
      obtain ⟨dd, hd, s, hs, hsk, hsd⟩ := hown k' e (find?_adv hf)
      refine ⟨dd, by simpa [storeDue] using hd, s, ?_, hsk, hsd⟩
      simp only [adv, List.mem_filter, Bool.not_eq_true', decide_eq_false_iff_not]
      refine ⟨hs, ?_⟩
      intro hle
      exact hnot s (List.mem_filter.mpr ⟨hs, by simpa using hle⟩) hsk

theorem step_recOk (cfg : Cfg) (c : Cache κ ν) (h : List (Rec κ ν)) (ev : Ev κ ν)
    (hinv : EntInv h c) (hs : SizeInv c) (hc : c.sizeOn = cfg.sizeOn ∧ c.max = cfg.max) (hot : OnTime h c) :
    recOk cfg ⟨c.now, c.mono, ev, (step c ev).2⟩ h = true := by
  have helapsed : ∀ k e, find? k c.entries = some e → elapsedFresh k c.mono h = true := by
    intro k e hf
    simp only [elapsedFresh, Bool.or_eq_true, Bool.not_eq_true']
    cases hx : timersOnTime h with
    | false => exact Or.inl rfl
    | true =>
      obtain ⟨hdue, hown⟩ := hot hx
      obtain ⟨d, hd, s, hs, _, hsd⟩ := hown k e hf
      have := hdue s hs
      right; simp only [hd, decide_eq_true_eq]; omega
  cases ev with
  | set k v ttl sz => simp [recOk, step]
  | get k =>
    simp only [step]
    cases hg : get c k with
    | none => simp [recOk]
    | some v =>
      obtain ⟨e, hf, hv, hle⟩ := get_some hg
      obtain ⟨t0, ttl, hl, hx⟩ := hinv k e hf
      simp only [recOk, hl, freshStore, hv, helapsed k e hf]
      simp; omega
  | has k =>
    simp only [step]
    cases hg : has c k with
    | false => simp [recOk]
    | true =>
      obtain ⟨e, hf, hle⟩ := has_true hg
      obtain ⟨t0, ttl, hl, hx⟩ := hinv k e hf
      simp only [recOk, hl, freshStore, helapsed k e hf]
      simp; omega
  | del k => simp [recOk, step]
  | fire i => simp [recOk, step]
  | skip d => simp [recOk, step]
  | adv d => simp [recOk, step]
  | wstep d => simp [recOk, step]
  | probe =>
    simp only [step, recOk]
    cases hon : cfg.sizeOn with
    | false => simp
    | true =>
      have hon' : c.sizeOn = true := by rw [hc.1]; exact hon
      obtain ⟨h1, h2⟩ := hs hon'
      rw [← hc.2]
      simp; omega

theorem run_holdsRev (cfg : Cfg) (evs : List (Ev κ ν)) (c : Cache κ ν) (h : List (Rec κ ν))
    (hinv : EntInv h c) (hs : SizeInv c) (hc : c.sizeOn = cfg.sizeOn ∧ c.max = cfg.max) (hot : OnTime h c)
    (hh : holdsRev cfg h = true) : holdsRev cfg ((run c evs).reverse ++ h) = true := by
  induction evs generalizing c h with
  | nil => simpa [run] using hh
  | cons ev evs ih =>
    simp only [run, List.reverse_cons, List.append_assoc, List.singleton_append]
    apply ih
    · exact step_entInv c h ev hinv
    · exact sizeInv_step ev hs
    · rw [step_sizeOn, step_max]; exact hc
    · exact step_onTime c h ev hot
    · simp only [holdsRev, Bool.and_eq_true]
      exact ⟨step_recOk cfg c h ev hinv hs hc hot, hh⟩

theorem entInv_init (cfg : Cfg) : EntInv ([] : List (Rec κ ν)) (cfg.init : Cache κ ν) := by
  intro k e hf
  simp [Cfg.init, Cache.init, find?] at hf

theorem sizeInv_init (cfg : Cfg) (hmax : 0 ≤ cfg.max) : SizeInv (cfg.init : Cache κ ν) := by
  intro _
  simp [Cfg.init, Cache.init, heldSize, hmax]

theorem final_sizeInv (evs : List (Ev κ ν)) (c : Cache κ ν) (hs : SizeInv c) : SizeInv (final c evs) := by
  induction evs generalizing c with
  | nil => exact hs
  | cons ev evs ih => exact ih _ (sizeInv_step ev hs)

theorem final_sizeOn (evs : List (Ev κ ν)) (c : Cache κ ν) : (final c evs).sizeOn = c.sizeOn := by
  induction evs generalizing c with
  | nil => rfl
  | cons ev evs ih => simp only [final]; rw [ih, step_sizeOn]

theorem final_max (evs : List (Ev κ ν)) (c : Cache κ ν) : (final c evs).max = c.max := by
  induction evs generalizing c with
  | nil => rfl
  | cons ev evs ih => simp only [final]; rw [ih, step_max]

/-! ### reading the property back out of `holdsRev` -/

theorem holdsRev_append_right (cfg : Cfg) (a b : List (Rec κ ν)) (h : holdsRev cfg (a ++ b) = true) :
    holdsRev cfg b = true := by
  induction a with
  | nil => simpa using h
  | cons r rest ih =>
    simp only [List.cons_append, holdsRev, Bool.and_eq_true] at h
    exact ih h.2

theorem holdsRev_head (cfg : Cfg) (r : Rec κ ν) (older : List (Rec κ ν))
    (h : holdsRev cfg (r :: older) = true) : recOk cfg r older = true := by
  simp only [holdsRev, Bool.and_eq_true] at h
  exact h.1

/-- From a split of a run: the record `r` satisfies `recOk` w.r.t. everything before it. -/
theorem recOk_of_split (cfg : Cfg) (hist pre post : List (Rec κ ν)) (r : Rec κ ν)
    (hh : holds cfg hist = true) (hsplit : hist = pre ++ r :: post) : recOk cfg r pre.reverse = true := by
  rw [holds, hsplit] at hh
  simp only [List.reverse_append, List.reverse_cons, List.append_assoc, List.singleton_append] at hh
  exact holdsRev_head cfg _ _ (holdsRev_append_right cfg _ _ hh)

theorem run_out_get {c : Cache κ ν} {evs : List (Ev κ ν)} {r : Rec κ ν} (hm : r ∈ run c evs) {k : κ}
    (hev : r.ev = .get k) : r.out = .got (none : Option ν) ∨ ∃ v, r.out = .got (some v) := by
  induction evs generalizing c with
  | nil => simp [run] at hm
  | cons ev evs ih =>
    simp only [run, List.mem_cons] at hm
    rcases hm with h1 | h1
    · subst h1
      simp only at hev
      subst hev
      simp only [step]
      cases get c k with
      | none => exact Or.inl rfl
      | some v => exact Or.inr ⟨v, rfl⟩
    · exact ih h1

theorem lastStore_cons_untouched (k : κ) (r : Rec κ ν) (rest : List (Rec κ ν)) (h : touches k r = false) :
    lastStore k (r :: rest) = lastStore k rest := by
  obtain ⟨t, m, ev, out⟩ := r
  cases ev <;> cases out <;> simp_all [touches, lastStore]
  all_goals (rename_i sr; cases sr <;> simp_all)

theorem lastStore_cons_touched (k : κ) (r : Rec κ ν) (rest : List (Rec κ ν)) (h : touches k r = true) :
    (∃ v ttl sz, r.ev = .set k v ttl sz ∧ r.out = .setRes .ok ∧ lastStore k (r :: rest) = some (v, r.t, ttl)) ∨
    (r.ev = .del k ∧ lastStore k (r :: rest) = none) := by
  obtain ⟨t, m, ev, out⟩ := r
  cases ev <;> cases out <;> simp_all [touches, lastStore]
  all_goals (rename_i sr; cases sr <;> simp_all)

/-- `lastStore` really is the last successful `Set` of the key, with no later `Set`/`Del` of it. -/
theorem lastStore_spec (k : κ) (h : List (Rec κ ν)) (v : ν) (t0 ttl : Int)
    (hl : lastStore k h = some (v, t0, ttl)) :
    ∃ newer r older sz, h = newer ++ r :: older ∧ r.t = t0 ∧ r.ev = .set k v ttl sz ∧ r.out = .setRes .ok ∧
      ∀ x, x ∈ newer → touches k x = false := by
  induction h with
  | nil => simp [lastStore] at hl
  | cons r rest ih =>
    by_cases ht : touches k r = true
    · rcases lastStore_cons_touched k r rest ht with ⟨v', ttl', sz, hev, hout, hls⟩ | ⟨_, hls⟩
      · rw [hls] at hl
        simp only [Option.some.injEq, Prod.mk.injEq] at hl
        obtain ⟨h1, h2, h3⟩ := hl
        subst h1; subst h3
        exact ⟨[], r, rest, sz, rfl, h2, hev, hout, fun x hx => by cases hx⟩
      · rw [hls] at hl; cases hl
    · have ht' : touches k r = false := by simpa using ht
      rw [lastStore_cons_untouched k r rest ht'] at hl
      obtain ⟨newer, r0, older, sz, h1, h2, h3, h4, h5⟩ := ih hl
      refine ⟨r :: newer, r0, older, sz, by rw [h1]; rfl, h2, h3, h4, ?_⟩
      intro x hx
      rcases List.mem_cons.mp hx with hx | hx
      · rw [hx]; exact ht'
      · exact h5 x hx

end

end LunarVerif.C12
