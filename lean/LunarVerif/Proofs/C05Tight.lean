import LunarVerif.Proofs.C05
/-!
C05, part 1b: the TIGHT depth bound.  If all paths below `k` are bounded (which is what the validator's DFS
establishes), then they are duplicate-free (a repeated node would be a cycle, and a cycle can be pumped), so
by the pigeonhole principle they visit at most `N` = number of nodes of the direction; a walk that runs out
of fuel `n` exhibits a path of `n` existing nodes; hence fuel `N + 1` is never exhausted, more fuel changes
nothing, and at most `1 + D + … + D^N` processors are executed.
-/
namespace LunarVerif.C05
open LunarVerif.FlowGraph LunarVerif.FlowExec

/-! ### a reachable cycle gives paths of every length -/

theorem isPath_append (g : DirGraph) (x : String) (b : List String) :
    ∀ a : List String, IsPath g (a ++ [x]) → IsPath g (x :: b) → IsPath g (a ++ x :: b)
  | [], _, hb => hb
  | [y], ha, hb => by
    simp only [List.cons_append, List.nil_append, IsPath] at ha ⊢
    exact ⟨ha.1, hb⟩
  | y :: z :: a', ha, hb => by
    simp only [List.cons_append, IsPath] at ha ⊢
    exact ⟨ha.1, isPath_append g x b (z :: a') ha.2 hb⟩

theorem pump (g : DirGraph) (t x : String) (p q : List String)
    (hreach : IsPath g (t :: p ++ [x])) (hcyc : IsPath g (x :: q ++ [x])) :
    ∀ m : Nat, ∃ p', IsPath g (t :: p' ++ [x]) ∧ m ≤ p'.length
  | 0 => ⟨p, hreach, Nat.zero_le _⟩
  | m + 1 => by
    obtain ⟨p', hp', hm⟩ := pump g t x p q hreach hcyc m
    refine ⟨p' ++ x :: q, ?_, ?_⟩
    · have := isPath_append g x (q ++ [x]) (t :: p') hp' hcyc
      simpa using this
    · simp only [List.length_append, List.length_cons]
      omega

theorem cycle_unbounded (g : DirGraph) (F : Nat) (t : String) (p q : List String) (x : String)
    (hreach : IsPath g (t :: p ++ [x])) (hcyc : IsPath g (x :: q ++ [x]))
    (hb : ∀ p', IsPath g (t :: p') → p'.length < F) : False := by
  obtain ⟨p', hp', hm⟩ := pump g t x p q hreach hcyc F
  have := hb (p' ++ [x]) (by simpa using hp')
  simp only [List.length_append, List.length_cons, List.length_nil] at this
  omega


/-! ### sub-paths -/

theorem isPath_prefix (g : DirGraph) (l2 : List String) : ∀ l1 : List String, IsPath g (l1 ++ l2) → IsPath g l1
  | [], _ => trivial
  | [_], _ => trivial
  | a :: b :: l1', h => by
    simp only [List.cons_append, IsPath] at h ⊢
    exact ⟨h.1, isPath_prefix g l2 (b :: l1') h.2⟩

theorem isPath_tail {g : DirGraph} {a : String} {l : List String} (h : IsPath g (a :: l)) : IsPath g l := by
  cases l with
  | nil => trivial
  | cons b rest => exact h.2

/-- bounded paths are duplicate-free -/
theorem path_nodup (g : DirGraph) (F : Nat) : ∀ (p : List String) (k : String), IsPath g (k :: p) →
    (∀ p', IsPath g (k :: p') → p'.length < F) → (k :: p).Nodup
  | [], k, _, _ => by simp
  | k1 :: p1, k, hp, hb => by
    have htail : IsPath g (k1 :: p1) := isPath_tail hp
    have hstep : Step g k k1 := hp.1
    have hb1 : ∀ p', IsPath g (k1 :: p') → p'.length < F := fun p' hp' => by
      have := hb (k1 :: p') ⟨hstep, hp'⟩
      simp only [List.length_cons] at this
      omega
    have ih := path_nodup g F p1 k1 htail hb1
    rw [List.nodup_cons]
    refine ⟨?_, ih⟩
    intro hmem
    obtain ⟨s, t, hst⟩ := List.append_of_mem hmem
    have hcyc : IsPath g (k :: s ++ [k]) := by
      have : k :: (k1 :: p1) = (k :: s ++ [k]) ++ t := by rw [hst]; simp
      rw [this] at hp
      exact isPath_prefix g t _ hp
    exact cycle_unbounded g F k s s k hcyc hcyc hb

/-- every node of a path except the last one exists -/
theorem isPath_exists (g : DirGraph) : ∀ l : List String, IsPath g l → ∀ a ∈ l.dropLast, (g.find a).isSome = true
  | [], _, a, ha => by simp at ha
  | [_], _, a, ha => by simp at ha
  | x :: y :: rest, h, a, ha => by
    rw [List.dropLast_cons_cons] at ha
    rcases List.mem_cons.mp ha with rfl | ha'
    · obtain ⟨n, _, hn, _, _⟩ := h.1
      simp [hn]
    · exact isPath_exists g (y :: rest) h.2 a ha'

def keys (g : DirGraph) : List String := g.nodes.map (·.key)

theorem mem_keys_of_find {g : DirGraph} {a : String} (h : (g.find a).isSome = true) : a ∈ keys g := by
  cases hf : g.find a with
  | none => simp [hf] at h
  | some n =>
    have hm := find_mem hf
    have hk : (n.key == a) = true := by
      unfold DirGraph.find findNode at hf
      exact List.find?_some (p := fun (x : Node) => x.key == a) hf
    have : n.key = a := by simpa using hk
    unfold keys
    rw [List.mem_map]
    exact ⟨n, hm, this⟩

/-- pigeonhole: a bounded path has at most `N` steps -/
theorem path_length_le (g : DirGraph) (F : Nat) (p : List String) (k : String) (hp : IsPath g (k :: p))
    (hb : ∀ p', IsPath g (k :: p') → p'.length < F) : p.length ≤ g.nodes.length := by
  have hnd := path_nodup g F p k hp hb
  have hnd' : (k :: p).dropLast.Nodup := List.Nodup.sublist (List.dropLast_sublist _) hnd
  have hsub : (k :: p).dropLast ⊆ keys g := fun a ha => mem_keys_of_find (isPath_exists g _ hp a ha)
  have := List.Nodup.length_le_of_subset hnd' hsub
  simpa [keys] using this

/-! ### a walk that runs out of fuel exhibits a path as long as the fuel -/

theorem walkEdges_fuel (rec : String → WalkRes) (name : String) : ∀ (es : List Edge) (sc : Option String),
    (walkEdges rec name es sc).err = some .fuel →
    ∃ e ∈ es, ∃ t, e.target = .node t ∧ (rec t).err = some .fuel
  | [], sc, h => by simp [walkEdges] at h
  | e :: es, sc, h => by
    have lift : (∃ e' ∈ es, ∃ t, e'.target = .node t ∧ (rec t).err = some .fuel) →
        ∃ e' ∈ e :: es, ∃ t, e'.target = .node t ∧ (rec t).err = some .fuel :=
      fun ⟨e', he', t, ht, hr⟩ => ⟨e', List.mem_cons_of_mem _ he', t, ht, hr⟩
    unfold walkEdges at h
    cases ht : e.target with
    | stream n a =>
      simp only [ht] at h
      exact lift (walkEdges_fuel rec name es sc h)
    | node t =>
      simp only [ht] at h
      by_cases hc : (e.cond == name) = true
      · simp only [hc, if_true] at h
        by_cases herr : (rec t).err.isSome = true
        · simp only [herr, if_true] at h
          exact ⟨e, List.mem_cons_self, t, ht, h⟩
        · simp only [herr, Bool.false_eq_true, if_false] at h
          by_cases hsc : (rec t).sc.isSome = true
          · simp only [hsc, if_true] at h
            rw [h] at herr
            simp at herr
          · simp only [hsc, Bool.false_eq_true, if_false] at h
            exact lift (walkEdges_fuel rec name es _ h)
      · simp only [hc, Bool.false_eq_true, if_false] at h
        exact lift (walkEdges_fuel rec name es sc h)

theorem walk_fuel_path (f : Flow) (o : Oracle) (d : Dir) : ∀ (n : Nat) (k : String),
    (walk f o d n k).err = some .fuel → ∃ p, IsPath (f.dir d) (k :: p) ∧ p.length = n
  | 0, k, _ => ⟨[], trivial, rfl⟩
  | n + 1, k, h => by
    unfold walk at h
    cases hn : (f.dir d).find k with
    | none => simp [hn] at h
    | some nd =>
      simp only [hn] at h
      by_cases herr : (o f.name k d).err = true
      · simp [herr] at h
      · simp only [herr, Bool.false_eq_true, if_false] at h
        by_cases hearly : ((o f.name k d).early && d == .req) = true
        · simp only [hearly, if_true] at h
          cases hres : f.res.find k <;> simp [hres] at h
        · simp only [hearly, Bool.false_eq_true, if_false] at h
          obtain ⟨e, he, t, ht, hr⟩ := walkEdges_fuel _ _ _ _ h
          obtain ⟨p', hp', hl⟩ := walk_fuel_path f o d n t hr
          exact ⟨t :: p', ⟨⟨nd, e, hn, he, ht⟩, hp'⟩, by simp [hl]⟩

/-! ### more fuel changes nothing once the walk ended without `.fuel` -/

theorem walkEdges_congr (rec1 rec2 : String → WalkRes) (name : String)
    (h : ∀ t, (rec1 t).err ≠ some .fuel → rec2 t = rec1 t) : ∀ (es : List Edge) (sc : Option String),
    (walkEdges rec1 name es sc).err ≠ some .fuel → walkEdges rec2 name es sc = walkEdges rec1 name es sc
  | [], _, _ => rfl
  | e :: es, sc, hne => by
    unfold walkEdges at hne ⊢
    cases ht : e.target with
    | stream n a =>
      simp only [ht] at hne ⊢
      exact walkEdges_congr rec1 rec2 name h es sc hne
    | node t =>
      simp only [ht] at hne ⊢
      by_cases hc : (e.cond == name) = true
      · simp only [hc, if_true] at hne ⊢
        by_cases herr : (rec1 t).err.isSome = true
        · simp only [herr, if_true] at hne
          have := h t hne
          simp only [this, herr, if_true]
        · simp only [herr, Bool.false_eq_true, if_false] at hne
          have hnone : (rec1 t).err ≠ some .fuel := by
            intro hc'
            rw [hc'] at herr
            simp at herr
          have heq := h t hnone
          simp only [heq, herr, Bool.false_eq_true, if_false]
          by_cases hsc : (rec1 t).sc.isSome = true
          · simp only [hsc, if_true]
          · simp only [hsc, Bool.false_eq_true, if_false] at hne ⊢
            rw [walkEdges_congr rec1 rec2 name h es _ hne]
      · simp only [hc, Bool.false_eq_true, if_false] at hne ⊢
        exact walkEdges_congr rec1 rec2 name h es sc hne

theorem walk_stable (f : Flow) (o : Oracle) (d : Dir) : ∀ (n : Nat) (k : String),
    (walk f o d n k).err ≠ some .fuel → walk f o d (n + 1) k = walk f o d n k
  | 0, k, h => by simp [walk] at h
  | n + 1, k, h => by
    have ih : ∀ t, (walk f o d n t).err ≠ some .fuel → walk f o d (n + 1) t = walk f o d n t :=
      fun t ht => walk_stable f o d n t ht
    rw [walk.eq_def f o d (n + 1 + 1) k, walk.eq_def f o d (n + 1) k]
    simp only []
    rw [walk.eq_def f o d (n + 1) k] at h
    simp only [] at h
    cases hn : (f.dir d).find k with
    | none => rfl
    | some nd =>
      simp only [hn] at h ⊢
      by_cases herr : (o f.name k d).err = true
      · simp only [herr, if_true]
      · simp only [herr, Bool.false_eq_true, if_false] at h ⊢
        by_cases hearly : ((o f.name k d).early && d == .req) = true
        · simp only [hearly, if_true]
        · simp only [hearly, Bool.false_eq_true, if_false] at h ⊢
          rw [walkEdges_congr (walk f o d n) (walk f o d (n + 1)) _ ih nd.edges none h]

theorem walk_stable_add (f : Flow) (o : Oracle) (d : Dir) (n : Nat) (k : String)
    (h : (walk f o d n k).err ≠ some .fuel) : ∀ m, walk f o d (n + m) k = walk f o d n k
  | 0 => rfl
  | m + 1 => by
    have ih := walk_stable_add f o d n k h m
    have : (walk f o d (n + m) k).err ≠ some .fuel := by rw [ih]; exact h
    rw [show n + (m + 1) = (n + m) + 1 by omega, walk_stable f o d (n + m) k this, ih]

/-! ### executions of a walk of depth `n` -/

theorem walkEdges_steps (rec : String → WalkRes) (name : String) (b : Nat) (h : ∀ t, steps (rec t).trace ≤ b) :
    ∀ (es : List Edge) (sc : Option String), steps (walkEdges rec name es sc).trace ≤ es.length * b
  | [], sc => by simp [walkEdges, steps_nil]
  | e :: es, sc => by
    have hmul : (e :: es).length * b = es.length * b + b := by
      simp only [List.length_cons, Nat.add_mul, Nat.one_mul]
    have hrest := fun sc' => walkEdges_steps rec name b h es sc'
    unfold walkEdges
    rw [hmul]
    cases ht : e.target with
    | stream n a => simp only []; exact Nat.le_trans (hrest sc) (Nat.le_add_right _ _)
    | node t =>
      simp only []
      have hr := h t
      by_cases hc : (e.cond == name) = true
      · simp only [hc, if_true]
        by_cases herr : (rec t).err.isSome = true
        · simp only [herr, if_true]; omega
        · simp only [herr, Bool.false_eq_true, if_false]
          by_cases hsc : (rec t).sc.isSome = true
          · simp only [hsc, if_true]; omega
          · simp only [hsc, Bool.false_eq_true, if_false, steps_append]
            have := hrest (rec t).sc
            omega
      · simp only [hc, Bool.false_eq_true, if_false]
        exact Nat.le_trans (hrest sc) (Nat.le_add_right _ _)

theorem walk_steps_le (f : Flow) (o : Oracle) (d : Dir) : ∀ (n : Nat) (k : String),
    steps (walk f o d n k).trace ≤ bnd (maxDeg (f.dir d)) n
  | 0, k => by simp [walk, steps_nil]
  | n + 1, k => by
    unfold walk
    simp only [bnd]
    cases hn : (f.dir d).find k with
    | none => simp [steps_nil]
    | some nd =>
      simp only []
      by_cases herr : (o f.name k d).err = true
      · simp only [herr, if_true, steps_cons_exec, steps_nil]; omega
      · simp only [herr, Bool.false_eq_true, if_false]
        by_cases hearly : ((o f.name k d).early && d == .req) = true
        · simp only [hearly, if_true]
          cases f.res.find k <;> simp only [steps_cons_exec, steps_nil] <;> omega
        · simp only [hearly, Bool.false_eq_true, if_false, steps_cons_exec]
          have hw := walkEdges_steps (walk f o d n) (o f.name k d).name _ (fun t => walk_steps_le f o d n t)
            nd.edges none
          have hdeg := deg_le_maxDeg hn
          have := Nat.mul_le_mul_right (bnd (maxDeg (f.dir d)) n) hdeg
          omega

/-! ### the tight statement -/

/-- **If all paths below `k` are bounded, the walk from `k` halts within depth `N + 1`**: no fuel `≥ N + 1`
    is ever exhausted and at most `1 + D + … + D^N` processors are executed. -/
theorem walk_of_bounded (f : Flow) (o : Oracle) (d : Dir) (k : String) (F : Nat)
    (hb : ∀ p, IsPath (f.dir d) (k :: p) → p.length < F) (fuel : Nat) (hf : depthOf (f.dir d) ≤ fuel) :
    WOk (dirBound (f.dir d)) (walk f o d fuel k) := by
  unfold dirBound
  have hno : (walk f o d (depthOf (f.dir d)) k).err ≠ some .fuel := by
    intro h
    obtain ⟨p, hp, hl⟩ := walk_fuel_path f o d _ k h
    have := path_length_le (f.dir d) F p k hp hb
    unfold depthOf at hl
    omega
  obtain ⟨m, rfl⟩ : ∃ m, fuel = depthOf (f.dir d) + m := ⟨fuel - depthOf (f.dir d), by omega⟩
  rw [walk_stable_add f o d _ k hno m]
  exact ⟨hno, walk_steps_le f o d _ k⟩

/-- bounded paths below the targets of a node's edges bound the paths below the node itself -/
theorem bounded_of_dfsFrom (g : DirGraph) (k : String)
    (h : ∀ n, g.find k = some n → dfsFrom g n = true) :
    ∀ p, IsPath g (k :: p) → p.length < dfsFuel g + 1 := by
  intro p hp
  cases p with
  | nil => simp
  | cons t rest =>
    obtain ⟨⟨n, e, hn, he, ht⟩, hrest⟩ := hp
    have hd := h n hn
    unfold dfsFrom at hd
    rw [List.all_eq_true] at hd
    have := hd e he
    simp only [ht] at this
    have := dfs_paths_bounded g _ [] t e.cond this rest hrest
    simp only [List.length_cons]
    omega

end LunarVerif.C05
