import LunarVerif.Spec.C08
/-! Helper lemmas for C08 (core Lean only). -/
namespace LunarVerif.C08

namespace Disk

@[simp] theorem get_nil (p : Path) : get [] p = none := rfl

theorem get_cons (q : Path) (c : Bytes) (rest : Disk) (p : Path) :
    get ((q, c) :: rest) p = if q = p then some c else get rest p := rfl

/-- Filtering on the key only. -/
theorem get_filter_key (f : Path → Bool) (d : Disk) (p : Path) :
    get (d.filter (fun e => f e.1)) p = if f p then get d p else none := by
  induction d with
  | nil => simp
  | cons e rest ih =>
    obtain ⟨q, c⟩ := e
    by_cases hq : f q = true
    · rw [List.filter_cons_of_pos (by simpa using hq), get_cons, get_cons, ih]
      by_cases hqp : q = p
      · subst hqp; simp [hq]
      · simp [hqp]
    · rw [List.filter_cons_of_neg (by simpa using hq), get_cons, ih]
      by_cases hqp : q = p
      · subst hqp; simp [hq]
      · simp [hqp]

theorem get_remove (d : Disk) (p q : Path) :
    get (remove d p) q = if q = p then none else get d q := by
  unfold remove
  rw [get_filter_key (fun k => decide (k ≠ p))]
  by_cases h : q = p <;> simp [h]

theorem get_write (d : Disk) (p : Path) (c : Bytes) (q : Path) :
    get (write d p c) q = if q = p then some c else get d q := by
  unfold write
  rw [get_cons, get_remove]
  by_cases h : p = q
  · subst h; simp
  · have h' : ¬ q = p := fun e => h e.symm
    simp [h, h']

theorem get_eq_none_of_not_mem (d : Disk) (p : Path) (h : p ∉ keys d) : get d p = none := by
  induction d with
  | nil => rfl
  | cons e rest ih =>
    obtain ⟨q, c⟩ := e
    simp only [keys, List.map_cons, List.mem_cons, not_or] at h
    rw [get_cons, if_neg (fun e => h.1 e.symm)]
    exact ih h.2

theorem mem_keys_of_get (d : Disk) (p : Path) (c : Bytes) (h : get d p = some c) : p ∈ keys d := by
  apply Classical.byContradiction
  intro hn
  rw [get_eq_none_of_not_mem d p hn] at h
  cases h

theorem get_of_mem (d : Disk) (hwf : WF d) (p : Path) (c : Bytes) (h : (p, c) ∈ d) :
    get d p = some c := by
  induction d with
  | nil => cases h
  | cons e rest ih =>
    obtain ⟨q, c'⟩ := e
    unfold WF keys at hwf
    simp only [List.map_cons, List.nodup_cons] at hwf
    rw [get_cons]
    rcases List.mem_cons.mp h with h | h
    · cases h; simp
    · have hne : ¬ q = p := by
        intro e; subst e
        exact hwf.1 (List.mem_map.mpr ⟨(q, c), h, rfl⟩)
      rw [if_neg hne]
      exact ih hwf.2 h

end Disk

/-- `sameDisk` is extensional equality of the two maps. -/
theorem sameDisk_iff (a b : Disk) : sameDisk a b = true ↔ ∀ p, a.get p = b.get p := by
  unfold sameDisk
  rw [List.all_eq_true]
  constructor
  · intro h p
    by_cases hp : p ∈ a.keys ++ b.keys
    · simpa using h p hp
    · rw [List.mem_append, not_or] at hp
      rw [Disk.get_eq_none_of_not_mem a p hp.1, Disk.get_eq_none_of_not_mem b p hp.2]
  · intro h p _
    simpa using h p

theorem sameDisk_refl (a : Disk) : sameDisk a a = true := (sameDisk_iff a a).mpr (fun _ => rfl)

end LunarVerif.C08

namespace LunarVerif.C08

/-! ### `Restore()` as written -/

theorem store_nofault (d : Disk) (p : Path) (c : Bytes) : store false d p c = (d.write p c, true) := rfl
theorem store_fault (d : Disk) (p : Path) (c : Bytes) : store true d p c = (d.remove p, false) := rfl

/-- Writing back what is already there changes nothing. -/
theorem storeAll_noop (env : Env) (hnf : ∀ p, env.plan (.restoreStore p) = false) (d0 : Disk) :
    ∀ (L : List (Path × Bytes)) (d : Disk), (∀ e ∈ L, d0.get e.1 = some e.2) →
      (∀ q, d.get q = d0.get q) →
      (storeAll env d L).2 = true ∧ ∀ q, (storeAll env d L).1.get q = d0.get q := by
  intro L
  induction L with
  | nil => intro d _ hd; exact ⟨rfl, hd⟩
  | cons e rest ih =>
    intro d hL hd
    obtain ⟨p, c⟩ := e
    unfold storeAll
    rw [hnf p, store_nofault]
    simp only [if_true]
    apply ih
    · intro e he; exact hL e (List.mem_cons_of_mem _ he)
    · intro q
      rw [Disk.get_write]
      by_cases hq : q = p
      · subst hq
        have := hL (q, c) List.mem_cons_self
        simp [this]
      · simp [hq, hd q]

theorem mem_getDiff_snapshot (d b : Disk) (e : Path × Bytes) (h : e ∈ getDiff (snapshot d) b) : e ∈ d := by
  unfold getDiff snapshot at h
  exact (List.mem_filter.mp (List.mem_filter.mp h).1).1

/-- F08a, general form: whatever the backup, a `Restore()` without store faults leaves every file as it is. -/
theorem restore_noop (env : Env) (backup d : Disk) (hwf : d.WF)
    (hnf : ∀ p, env.plan (.restoreStore p) = false) :
    ∀ q, (restore env backup d).1.get q = d.get q := by
  intro q
  unfold restore
  by_cases hr : env.plan .restoreRead = true
  · simp [hr]
  · simp only [hr]
    refine (storeAll_noop env hnf d _ d ?_ (fun _ => rfl)).2 q
    intro e he
    exact Disk.get_of_mem d hwf e.1 e.2 (mem_getDiff_snapshot d backup e he)

/-! ### Saving the payload -/

/-- The tree after a list of writes. -/
def overlay (d : Disk) (ws : List (Path × Bytes)) (p : Path) : Option Bytes :=
  match lastWrite ws p with
  | some c => some c
  | none => d.get p

theorem saveTarget_eq (d : Disk) (p : Path)
    (h : p ≠ .userMetrics ∨ (d.get .userMetrics).isSome = true) : saveTarget d p = p := by
  unfold saveTarget
  by_cases hp : p = .userMetrics
  · rcases h with h | h
    · exact absurd hp h
    · simp [hp, h]
  · simp [hp]

theorem saveAll_get (env : Env) :
    ∀ (ws : List (Path × Bytes)) (d : Disk),
      (Path.userMetrics ∉ ws.map Prod.fst ∨ (d.get .userMetrics).isSome = true) →
      (saveAll env d ws).2 = true →
      ∀ p, (saveAll env d ws).1.get p = overlay d ws p := by
  intro ws
  induction ws with
  | nil => intro d _ _ p; rfl
  | cons e rest ih =>
    intro d hum hok p
    obtain ⟨q, c⟩ := e
    have htgt : saveTarget d q = q := by
      apply saveTarget_eq
      rcases hum with h | h
      · left; intro e; apply h; simp [e]
      · right; exact h
    unfold saveAll at hok ⊢
    rw [htgt] at hok ⊢
    by_cases hf : env.plan (.save q) = true
    · rw [hf, store_fault] at hok; simp at hok
    · have hf' : env.plan (.save q) = false := by simpa using hf
      rw [hf', store_nofault] at hok ⊢
      simp only [if_true] at hok ⊢
      have hum' : Path.userMetrics ∉ rest.map Prod.fst ∨
          ((d.write q c).get .userMetrics).isSome = true := by
        rcases hum with h | h
        · left; intro hm; apply h; simp only [List.map_cons, List.mem_cons]; right; exact hm
        · right
          rw [Disk.get_write]
          by_cases hq : Path.userMetrics = q <;> simp [hq, h]
      rw [ih (d.write q c) hum' hok p]
      unfold overlay
      simp only [lastWrite]
      cases hl : lastWrite rest p with
      | some x => rfl
      | none =>
        simp only [Disk.get_write]
        by_cases hq : q = p
        · subst hq; simp
        · have : ¬ p = q := fun e => hq e.symm
          simp [hq, this]

theorem parse_some (items : List Item) :
    ∀ parsed, parse items = some parsed →
      payloadWrites items = parsed ∧ parsed.map Prod.fst = itemPaths items := by
  induction items with
  | nil => intro parsed h; cases h; exact ⟨rfl, rfl⟩
  | cons i rest ih =>
    intro parsed h
    unfold parse at h
    cases hc : i.content with
    | none => simp [hc] at h
    | some c =>
      cases hr : parse rest with
      | none => simp [hc, hr] at h
      | some ps =>
        simp only [hc, hr, Option.some.injEq] at h
        subst h
        obtain ⟨h1, h2⟩ := ih ps hr
        constructor
        · simp only [payloadWrites, List.filterMap_cons, hc, Option.map_some]
          exact congrArg _ h1
        · simp only [List.map_cons, itemPaths]
          exact congrArg _ h2

theorem parse_none_of_mem (items : List Item) (i : Item) (hi : i ∈ items) (hc : i.content = none) :
    parse items = none := by
  induction items with
  | nil => cases hi
  | cons j rest ih =>
    unfold parse
    rcases List.mem_cons.mp hi with h | h
    · subst h; simp [hc]
    · rw [ih h]
      cases j.content <;> rfl

theorem not_mem_of_hasMetricsItem_false (items : List Item)
    (h : hasMetricsItem (some items) = false) : Path.userMetrics ∉ itemPaths items := by
  unfold hasMetricsItem at h
  simp only [List.any_eq_false, decide_eq_true_eq] at h
  intro hm
  obtain ⟨i, hi, he⟩ := List.mem_map.mp hm
  exact h i hi he

/-! ### `CleanAll` -/

theorem cleanFiles_get (env : Env) :
    ∀ (L : List Path) (d : Disk), (cleanFiles env d L).2 = true →
      ∀ p, (cleanFiles env d L).1.get p = if p ∈ L then none else d.get p := by
  intro L
  induction L with
  | nil => intro d _ p; simp [cleanFiles]
  | cons q rest ih =>
    intro d hok p
    unfold cleanFiles at hok ⊢
    by_cases hf : env.plan (.cleanRemove q) = true
    · simp [hf] at hok
    · have hf' : env.plan (.cleanRemove q) = false := by simpa using hf
      simp only [hf', Bool.false_eq_true, if_false] at hok ⊢
      rw [ih _ hok p, Disk.get_remove]
      by_cases hp : p = q
      · subst hp; simp
      · by_cases hr : p ∈ rest <;> simp [hp, hr]

/-- `fs.files` is the gateway configuration and the USER metrics file. -/
def Env.CleanOrderOk (env : Env) : Prop :=
  ∀ p, p ∈ env.cleanOrder ↔ (p = .gateway ∨ p = .userMetrics)

theorem cleanAll_get (env : Env) (hco : env.CleanOrderOk) (d : Disk) (hok : (cleanAll env d).2 = true) :
    ∀ p, (cleanAll env d).1.get p = if p.covered then none else d.get p := by
  intro p
  unfold cleanAll at hok ⊢
  rw [cleanFiles_get env _ _ hok p, Disk.get_filter_key (fun k => !k.inDirs)]
  have := hco p
  cases p <;> simp [Path.covered, Path.inDirs] at this ⊢ <;> simp [this]

/-! ### `reloadFlows` -/

theorem reload_mid_nogate (env : Env) (r : Nat) (d : Disk) (e : Engine) (mid : List Engine) :
    (reload env r false d e mid).mid = mid := by
  unfold reload
  simp only [Bool.false_eq_true, if_false]
  split
  · rfl
  · split
    · rfl
    · split
      · rfl
      · split <;> rfl

theorem reload_ok_engine (env : Env) (r : Nat) (g : Bool) (d : Disk) (e : Engine) (mid : List Engine)
    (h : (reload env r g d e mid).ok = true) : (reload env r g d e mid).engine = .ready d := by
  unfold reload at h ⊢
  simp only at h ⊢
  by_cases h1 : (env.plan (.validate r) || !env.validates d) = true
  · rw [if_pos h1] at h; cases h
  · rw [if_neg h1] at h ⊢
    by_cases h2 : env.plan (.initialize r) = true
    · rw [if_pos h2] at h; cases h
    · rw [if_neg h2] at h ⊢
      by_cases h3 : (env.plan (.haproxy r) && env.hasEndpoints d) = true
      · rw [if_pos h3] at h; cases h
      · rw [if_neg h3] at h ⊢
        by_cases h4 : (env.plan (.metrics r) || !env.metricsOk d) = true
        · rw [if_pos h4] at h; cases h
        · rw [if_neg h4]

end LunarVerif.C08

namespace LunarVerif.C08

/-! ### From handler outcomes to the Spec predicate -/

theorem early_holds (probes : List Path) (st : State) (req : Req) (r : Result)
    (hs : r.status ≠ 200) (hd : r.disk = st.disk) (he : r.engine = st.engine) (hm : r.mid = []) :
    holds (observe probes st req r) = true := by
  simp [holds, observe, hs, hd, he, hm, sameDisk_refl]

theorem finding_late {V : Type} (o : Obs V) (hput : o.methodPut = true) (hs : o.status ≠ 200)
    (hl : lateFailure o = true) : finding o ≠ none := by
  unfold finding
  rw [if_neg (by simp [hput]), if_pos hs, if_pos hl]
  cases o.ep <;> simp

theorem late_finding (probes : List Path) (st : State) (req : Req) (r : Result)
    (hput : req.methodPut = true) (hs : r.status ≠ 200)
    (hp : r.phase = .cleanup ∨ r.phase = .save ∨ r.phase = .reload) :
    finding (observe probes st req r) ≠ none := by
  apply finding_late _ hput hs
  unfold lateFailure
  have hs' : (observe probes st req r).status ≠ 200 := hs
  have hp' : (observe probes st req r).phase = r.phase := rfl
  rw [hp']
  rcases hp with h | h | h <;> simp [hs', h]

theorem finding_none_methodPut {V : Type} (o : Obs V) (h : finding o = none) : o.methodPut = true := by
  unfold finding at h
  cases hm : o.methodPut with
  | true => rfl
  | false => simp [hm] at h

theorem success_holds (probes : List Path) (st : State) (req : Req) (r : Result) (items : List Item)
    (hb : req.body = .payload items) (hs : r.status = 200)
    (hgate : req.gate = false → r.mid = [])
    (hdisk : metricsMismatch (observe probes st req r) = false →
      ∀ p, r.disk.get p = expectedGet req.ep items st.disk p)
    (hfind : finding (observe probes st req r) = none) :
    holds (observe probes st req r) = true := by
  have hput := finding_none_methodPut _ hfind
  unfold finding at hfind
  simp only [hput, Bool.not_true, Bool.false_eq_true, if_false] at hfind
  have hs' : (observe probes st req r).status = 200 := hs
  rw [if_neg (by simp [hs'])] at hfind
  by_cases hmm : metricsMismatch (observe probes st req r) = true
  · simp [hmm] at hfind
  · have hmm' : metricsMismatch (observe probes st req r) = false := by simpa using hmm
    simp only [hmm', Bool.false_eq_true, if_false] at hfind
    have hg : req.gate = false := by
      cases hgt : req.gate with
      | false => rfl
      | true => simp [observe, hgt] at hfind
    have hmid := hgate hg
    have hd := hdisk hmm'
    unfold holds
    rw [if_neg (by simp [hs'])]
    simp only [observe, hmid, List.map_nil, List.all_nil, Bool.true_and]
    unfold successDisk
    simp only [hb, bodyItems, List.all_eq_true, decide_eq_true_eq]
    intro p _
    exact hd p

theorem statusOf_put (req : Req) (h : req.methodPut = true) (s : Nat) : statusOf req s = s := by
  simp [statusOf, h]

/-- For `/configuration`: absence of a metrics mismatch means the metrics item (if any) goes to the user file. -/
theorem no_mismatch_configuration (probes : List Path) (st : State) (req : Req) (r : Result)
    (items : List Item) (hb : req.body = .payload items) (hep : req.ep = .configuration)
    (h : metricsMismatch (observe probes st req r) = false) :
    Path.userMetrics ∉ itemPaths items ∨ (st.disk.get .userMetrics).isSome = true := by
  unfold metricsMismatch at h
  simp only [observe, hb, bodyItems, hep] at h
  by_cases hm : hasMetricsItem (some items) = true
  · right
    simp only [hm, Bool.true_and, Bool.or_eq_false_iff] at h
    cases hg : st.disk.get .userMetrics with
    | none => simp [hg] at h
    | some _ => rfl
  · left
    exact not_mem_of_hasMetricsItem_false items (by simpa using hm)

theorem no_mismatch_applyFlows (probes : List Path) (st : State) (req : Req) (r : Result)
    (items : List Item) (hb : req.body = .payload items) (hep : req.ep = .applyFlows)
    (h : metricsMismatch (observe probes st req r) = false) :
    Path.userMetrics ∉ itemPaths items := by
  unfold metricsMismatch at h
  simp only [observe, hb, bodyItems, hep] at h
  apply not_mem_of_hasMetricsItem_false
  simpa using h

end LunarVerif.C08

namespace LunarVerif.C08

theorem partial_configuration (env : Env) (probes : List Path) (st : State) (req : Req)
    (hep : req.ep = .configuration)
    (hnone : finding (observe probes st req (handleConfiguration env st req)) = none) :
    holds (observe probes st req (handleConfiguration env st req)) = true := by
  have hput : req.methodPut = true := finding_none_methodPut _ hnone
  have hst : ∀ s, statusOf req s = s := statusOf_put req hput
  cases hb : req.body with
  | badJson =>
    have hr : handleConfiguration env st req = ⟨400, .decode, st.disk, st.engine, []⟩ := by
      simp [handleConfiguration, hb, hst]
    rw [hr]; exact early_holds _ _ _ _ (by simp) rfl rfl rfl
  | null =>
    have hr : handleConfiguration env st req = ⟨400, .nodata, st.disk, st.engine, []⟩ := by
      simp [handleConfiguration, hb, hst]
    rw [hr]; exact early_holds _ _ _ _ (by simp) rfl rfl rfl
  | payload items =>
    by_cases hbk : env.plan .backupRead = true
    · have hr : handleConfiguration env st req = ⟨500, .backup, st.disk, st.engine, []⟩ := by
        simp [handleConfiguration, hb, hst, hbk]
      rw [hr]; exact early_holds _ _ _ _ (by simp) rfl rfl rfl
    · have hbk' : env.plan .backupRead = false := by simpa using hbk
      cases hpr : parse items with
      | none =>
        have hr : handleConfiguration env st req = ⟨400, .parse, st.disk, st.engine, []⟩ := by
          simp [handleConfiguration, hb, hst, hbk', hpr]
        rw [hr]; exact early_holds _ _ _ _ (by simp) rfl rfl rfl
      | some parsed =>
        by_cases hsv : (saveAll env st.disk parsed).2 = true
        · by_cases hok : (reload env 1 req.gate (saveAll env st.disk parsed).1 st.engine []).ok = true
          · have hr : handleConfiguration env st req =
                ⟨200, .ok, (saveAll env st.disk parsed).1,
                 (reload env 1 req.gate (saveAll env st.disk parsed).1 st.engine []).engine,
                 (reload env 1 req.gate (saveAll env st.disk parsed).1 st.engine []).mid⟩ := by
              simp [handleConfiguration, hb, hst, hbk', hpr, hsv, hok]
            rw [hr] at hnone ⊢
            apply success_holds probes st req _ items hb rfl _ _ hnone
            · intro hg
              simp only [hg]
              exact reload_mid_nogate env 1 _ _ _
            · intro hmm p
              have hum := no_mismatch_configuration probes st req _ items hb hep hmm
              obtain ⟨hw, hpaths⟩ := parse_some items parsed hpr
              rw [← hpaths] at hum
              rw [saveAll_get env parsed st.disk hum hsv p, hep]
              unfold overlay expectedGet
              rw [hw]
              rfl
          · exfalso
            apply late_finding probes st req (handleConfiguration env st req) hput _ _ hnone
            · simp [handleConfiguration, hb, hst, hbk', hpr, hsv, hok]
            · right; right
              simp [handleConfiguration, hb, hbk', hpr, hsv, hok]
        · exfalso
          apply late_finding probes st req (handleConfiguration env st req) hput _ _ hnone
          · simp [handleConfiguration, hb, hst, hbk', hpr, hsv]
          · right; left
            simp [handleConfiguration, hb, hbk', hpr, hsv]

theorem partial_applyFlows (env : Env) (hco : env.CleanOrderOk) (probes : List Path) (st : State)
    (req : Req) (hep : req.ep = .applyFlows)
    (hnone : finding (observe probes st req (handleApplyFlows env st req)) = none) :
    holds (observe probes st req (handleApplyFlows env st req)) = true := by
  have hput : req.methodPut = true := finding_none_methodPut _ hnone
  have hst : ∀ s, statusOf req s = s := statusOf_put req hput
  cases hb : req.body with
  | badJson =>
    have hr : handleApplyFlows env st req = ⟨400, .decode, st.disk, st.engine, []⟩ := by
      simp [handleApplyFlows, hb, hst]
    rw [hr]; exact early_holds _ _ _ _ (by simp) rfl rfl rfl
  | null =>
    have hr : handleApplyFlows env st req = ⟨400, .nodata, st.disk, st.engine, []⟩ := by
      simp [handleApplyFlows, hb, hst]
    rw [hr]; exact early_holds _ _ _ _ (by simp) rfl rfl rfl
  | payload items =>
    cases hpr : parse items with
    | none =>
      have hr : handleApplyFlows env st req = ⟨400, .parse, st.disk, st.engine, []⟩ := by
        simp [handleApplyFlows, hb, hst, hpr]
      rw [hr]; exact early_holds _ _ _ _ (by simp) rfl rfl rfl
    | some parsed =>
      by_cases hcl : (cleanAll env st.disk).2 = true
      · by_cases hsv : (saveAll env (cleanAll env st.disk).1 parsed).2 = true
        · by_cases hok : (reload env 1 req.gate (saveAll env (cleanAll env st.disk).1 parsed).1
              st.engine []).ok = true
          · have hr : handleApplyFlows env st req =
                ⟨200, .ok, (saveAll env (cleanAll env st.disk).1 parsed).1,
                 (reload env 1 req.gate (saveAll env (cleanAll env st.disk).1 parsed).1 st.engine []).engine,
                 (reload env 1 req.gate (saveAll env (cleanAll env st.disk).1 parsed).1 st.engine []).mid⟩ := by
              simp [handleApplyFlows, hb, hst, hpr, hcl, hsv, hok]
            rw [hr] at hnone ⊢
            apply success_holds probes st req _ items hb rfl _ _ hnone
            · intro hg
              simp only [hg]
              exact reload_mid_nogate env 1 _ _ _
            · intro hmm p
              have hum := no_mismatch_applyFlows probes st req _ items hb hep hmm
              obtain ⟨hw, hpaths⟩ := parse_some items parsed hpr
              rw [← hpaths] at hum
              rw [saveAll_get env parsed _ (Or.inl hum) hsv p, hep]
              unfold overlay expectedGet
              rw [hw, cleanAll_get env hco st.disk hcl p]
              rfl
          · exfalso
            apply late_finding probes st req (handleApplyFlows env st req) hput _ _ hnone
            · simp [handleApplyFlows, hb, hst, hpr, hcl, hsv, hok]
            · right; right
              simp [handleApplyFlows, hb, hpr, hcl, hsv, hok]
        · exfalso
          apply late_finding probes st req (handleApplyFlows env st req) hput _ _ hnone
          · simp [handleApplyFlows, hb, hst, hpr, hcl, hsv]
          · right; left
            simp [handleApplyFlows, hb, hpr, hcl, hsv]
      · exfalso
        apply late_finding probes st req (handleApplyFlows env st req) hput _ _ hnone
        · simp [handleApplyFlows, hb, hst, hpr, hcl]
        · left
          simp [handleApplyFlows, hb, hpr, hcl]

/-- The connection theorem: outside the known-finding classes the Spec predicate holds of every model step. -/
theorem partial_holds (env : Env) (hco : env.CleanOrderOk) (probes : List Path) (st : State) (req : Req)
    (hnone : finding (observe probes st req (handle env st req)) = none) :
    holds (observe probes st req (handle env st req)) = true := by
  unfold handle at hnone ⊢
  cases hep : req.ep with
  | configuration =>
    simp only [hep] at hnone ⊢
    exact partial_configuration env probes st req hep hnone
  | applyFlows =>
    simp only [hep] at hnone ⊢
    exact partial_applyFlows env hco probes st req hep hnone

end LunarVerif.C08

namespace LunarVerif.C08

/-! ### The proposed fix -/

def restoredGet (b d : Disk) (q : Path) : Option Bytes :=
  match b.get q with
  | some c => some c
  | none => d.get q

theorem storeBackAll_get (env : Env) (hnf : ∀ p, env.plan (.restoreStore p) = false) (b : Disk) :
    ∀ (L : List Path) (d : Disk),
      (storeBackAll env b d L).2 = true ∧
      ∀ q, (storeBackAll env b d L).1.get q = if q ∈ L then restoredGet b d q else d.get q := by
  intro L
  induction L with
  | nil => intro d; exact ⟨rfl, fun q => by simp [storeBackAll]⟩
  | cons p rest ih =>
    intro d
    unfold storeBackAll
    cases hbp : b.get p with
    | none =>
      simp only
      refine ⟨(ih d).1, fun q => ?_⟩
      rw [(ih d).2 q]
      by_cases hq : q = p
      · subst hq
        simp [restoredGet, hbp]
      · simp [hq]
    | some c =>
      simp only
      by_cases hsame : d.get p = some c
      · rw [if_pos hsame]
        refine ⟨(ih d).1, fun q => ?_⟩
        rw [(ih d).2 q]
        by_cases hq : q = p
        · subst hq
          by_cases hr : q ∈ rest <;> simp [hr, restoredGet, hbp, hsame]
        · simp [hq]
      · rw [if_neg hsame, hnf p, store_nofault]
        simp only [if_true]
        refine ⟨(ih _).1, fun q => ?_⟩
        rw [(ih _).2 q]
        by_cases hq : q = p
        · subst hq
          by_cases hr : q ∈ rest <;> simp [hr, restoredGet, hbp, Disk.get_write]
        · by_cases hr : q ∈ rest <;> simp [hr, hq, restoredGet, Disk.get_write]

theorem snapshot_get (d : Disk) (q : Path) : (snapshot d).get q = if q.covered then d.get q else none := by
  unfold snapshot
  exact Disk.get_filter_key Path.covered d q

/-- The corrected `Restore()` brings back the backed-up tree, provided nothing outside its scope was touched. -/
theorem restoreFixed_correct (env : Env) (hrr : env.plan .restoreRead = false)
    (hnf : ∀ p, env.plan (.restoreStore p) = false) (d0 d : Disk)
    (hunc : ∀ q, q.covered = false → d.get q = d0.get q) :
    ∀ q, (restoreFixed env (snapshot d0) d).1.get q = d0.get q := by
  intro q
  unfold restoreFixed
  simp only [hrr, Bool.false_eq_true, if_false]
  obtain ⟨hok, hget⟩ := storeBackAll_get env hnf (snapshot d0) (snapshot d0).keys d
  rw [if_pos hok]
  simp only
  rw [Disk.get_filter_key (fun k => !k.covered || ((snapshot d0).get k).isSome), hget q]
  cases hc : q.covered with
  | false =>
    have hb : (snapshot d0).get q = none := by rw [snapshot_get, hc]; rfl
    simp only [Bool.not_false, Bool.true_or, if_true]
    by_cases hk : q ∈ (snapshot d0).keys
    · rw [if_pos hk]; simp [restoredGet, hb, hunc q hc]
    · rw [if_neg hk]; exact hunc q hc
  | true =>
    have hb : (snapshot d0).get q = d0.get q := by rw [snapshot_get, hc]; rfl
    cases hd : d0.get q with
    | none => simp [hb, hd]
    | some c =>
      have hk : q ∈ (snapshot d0).keys := Disk.mem_keys_of_get _ q c (by rw [hb, hd])
      simp [hb, hd, hk, restoredGet]

theorem not_covered_iff (q : Path) : q.covered = false ↔ q = .defaultMetrics := by
  cases q <;> simp [Path.covered]

theorem saveAllFixed_uncovered (env : Env) :
    ∀ (ws : List (Path × Bytes)) (d : Disk), Path.defaultMetrics ∉ ws.map Prod.fst →
      ∀ q, q.covered = false → (saveAllFixed env d ws).1.get q = d.get q := by
  intro ws
  induction ws with
  | nil => intro d _ q _; rfl
  | cons e rest ih =>
    intro d hdm q hq
    obtain ⟨p, c⟩ := e
    have hqp : ¬ q = p := by
      intro e; subst e
      apply hdm
      rw [(not_covered_iff q).mp hq]
      simp
    have hrest : Path.defaultMetrics ∉ rest.map Prod.fst := fun h => hdm (by simp [h])
    unfold saveAllFixed
    by_cases hf : env.plan (.save p) = true
    · rw [hf, store_fault]
      simp [Disk.get_remove, hqp]
    · have hf' : env.plan (.save p) = false := by simpa using hf
      rw [hf', store_nofault]
      simp only [if_true]
      rw [ih _ hrest q hq, Disk.get_write]
      simp [hqp]

/-- `validates` / `metricsOk` look at the tree only through its contents. -/
def Env.Extensional (env : Env) : Prop :=
  ∀ a b : Disk, (∀ p, a.get p = b.get p) →
    env.validates a = env.validates b ∧ env.metricsOk a = env.metricsOk b

theorem reload_clean (env : Env) (r : Nat) (g : Bool) (d : Disk) (e : Engine) (mid : List Engine)
    (hv : env.validates d = true) (hm : env.metricsOk d = true)
    (h1 : env.plan (.validate r) = false) (h2 : env.plan (.initialize r) = false)
    (h3 : env.plan (.haproxy r) = false) (h4 : env.plan (.metrics r) = false) :
    (reload env r g d e mid).engine = .ready d ∧ (reload env r g d e mid).ok = true := by
  unfold reload
  simp [hv, hm, h1, h2, h3, h4]

/-- No fault inside `Restore()` nor in the reload that follows it. -/
structure Env.RestoreFaultFree (env : Env) : Prop where
  read : env.plan .restoreRead = false
  store : ∀ p, env.plan (.restoreStore p) = false
  validate2 : env.plan (.validate 2) = false
  init2 : env.plan (.initialize 2) = false
  haproxy2 : env.plan (.haproxy 2) = false
  metrics2 : env.plan (.metrics 2) = false

theorem rollback_fixed_aux (env : Env) (hext : env.Extensional) (hff : env.RestoreFaultFree)
    (st : State) (req : Req) (hput : req.methodPut = true)
    (hwf : ∀ items, req.body = .payload items → Path.defaultMetrics ∉ itemPaths items)
    (hv : env.validates st.disk = true) (hm : env.metricsOk st.disk = true)
    (hsync : ∀ p, st.engine.probe p = st.disk.get p)
    (hs : (handleConfigurationFixed env st req).status ≠ 200) :
    (∀ p, (handleConfigurationFixed env st req).disk.get p = st.disk.get p) ∧
    (∀ p, (handleConfigurationFixed env st req).engine.probe p = st.engine.probe p) := by
  have hst : ∀ s, statusOf req s = s := statusOf_put req hput
  cases hb : req.body with
  | badJson =>
    have hr : handleConfigurationFixed env st req = ⟨400, .decode, st.disk, st.engine, []⟩ := by
      simp [handleConfigurationFixed, hb, hst]
    rw [hr]; exact ⟨fun _ => rfl, fun _ => rfl⟩
  | null =>
    have hr : handleConfigurationFixed env st req = ⟨400, .nodata, st.disk, st.engine, []⟩ := by
      simp [handleConfigurationFixed, hb, hst]
    rw [hr]; exact ⟨fun _ => rfl, fun _ => rfl⟩
  | payload items =>
    by_cases hbk : env.plan .backupRead = true
    · have hr : handleConfigurationFixed env st req = ⟨500, .backup, st.disk, st.engine, []⟩ := by
        simp [handleConfigurationFixed, hb, hst, hbk]
      rw [hr]; exact ⟨fun _ => rfl, fun _ => rfl⟩
    · have hbk' : env.plan .backupRead = false := by simpa using hbk
      cases hpr : parse items with
      | none =>
        have hr : handleConfigurationFixed env st req = ⟨400, .parse, st.disk, st.engine, []⟩ := by
          simp [handleConfigurationFixed, hb, hst, hbk', hpr]
        rw [hr]; exact ⟨fun _ => rfl, fun _ => rfl⟩
      | some parsed =>
        have hdm : Path.defaultMetrics ∉ parsed.map Prod.fst := by
          rw [(parse_some items parsed hpr).2]; exact hwf items hb
        have hrest : ∀ q, (restoreFixed env (snapshot st.disk) (saveAllFixed env st.disk parsed).1).1.get q
            = st.disk.get q :=
          restoreFixed_correct env hff.read hff.store st.disk _
            (saveAllFixed_uncovered env parsed st.disk hdm)
        by_cases hsv : (saveAllFixed env st.disk parsed).2 = true
        · by_cases hok : (reload env 1 req.gate (saveAllFixed env st.disk parsed).1 st.engine []).ok = true
          · exfalso
            apply hs
            simp [handleConfigurationFixed, hb, hst, hbk', hpr, hsv, hok]
          · have hext' := hext _ _ hrest
            obtain ⟨he, _⟩ := reload_clean env 2 req.gate
              (restoreFixed env (snapshot st.disk) (saveAllFixed env st.disk parsed).1).1
              (reload env 1 req.gate (saveAllFixed env st.disk parsed).1 st.engine []).engine
              (reload env 1 req.gate (saveAllFixed env st.disk parsed).1 st.engine []).mid
              (by rw [hext'.1]; exact hv) (by rw [hext'.2]; exact hm)
              hff.validate2 hff.init2 hff.haproxy2 hff.metrics2
            have hd : (handleConfigurationFixed env st req).disk =
                (restoreFixed env (snapshot st.disk) (saveAllFixed env st.disk parsed).1).1 := by
              simp [handleConfigurationFixed, hb, hbk', hpr, hsv, hok]
            have heng : (handleConfigurationFixed env st req).engine =
                .ready (restoreFixed env (snapshot st.disk) (saveAllFixed env st.disk parsed).1).1 := by
              rw [← he]
              simp [handleConfigurationFixed, hb, hbk', hpr, hsv, hok]
            rw [hd, heng]
            exact ⟨hrest, fun p => by rw [hsync p]; exact hrest p⟩
        · have hd : (handleConfigurationFixed env st req).disk =
              (restoreFixed env (snapshot st.disk) (saveAllFixed env st.disk parsed).1).1 := by
            simp [handleConfigurationFixed, hb, hbk', hpr, hsv]
          have heng : (handleConfigurationFixed env st req).engine = st.engine := by
            simp [handleConfigurationFixed, hb, hbk', hpr, hsv]
          rw [hd, heng]
          exact ⟨hrest, fun _ => rfl⟩

end LunarVerif.C08

namespace LunarVerif.C08

/-! ### What the unchanged handlers do guarantee -/

def Phase.early : Phase → Bool
  | .decode | .nodata | .backup | .parse => true
  | _ => false

theorem early_configuration (env : Env) (st : State) (req : Req)
    (h : (handleConfiguration env st req).phase.early = true) :
    (handleConfiguration env st req).disk = st.disk ∧ (handleConfiguration env st req).engine = st.engine ∧
    (handleConfiguration env st req).mid = [] := by
  cases hb : req.body with
  | badJson => simp [handleConfiguration, hb]
  | null => simp [handleConfiguration, hb]
  | payload items =>
    by_cases hbk : env.plan .backupRead = true
    · simp [handleConfiguration, hb, hbk]
    · have hbk' : env.plan .backupRead = false := by simpa using hbk
      cases hpr : parse items with
      | none => simp [handleConfiguration, hb, hbk', hpr]
      | some parsed =>
        exfalso
        by_cases hsv : (saveAll env st.disk parsed).2 = true
        · by_cases hok : (reload env 1 req.gate (saveAll env st.disk parsed).1 st.engine []).ok = true
          · simp [handleConfiguration, hb, hbk', hpr, hsv, hok, Phase.early] at h
          · simp [handleConfiguration, hb, hbk', hpr, hsv, hok, Phase.early] at h
        · simp [handleConfiguration, hb, hbk', hpr, hsv, Phase.early] at h

theorem early_applyFlows (env : Env) (st : State) (req : Req)
    (h : (handleApplyFlows env st req).phase.early = true) :
    (handleApplyFlows env st req).disk = st.disk ∧ (handleApplyFlows env st req).engine = st.engine ∧
    (handleApplyFlows env st req).mid = [] := by
  cases hb : req.body with
  | badJson => simp [handleApplyFlows, hb]
  | null => simp [handleApplyFlows, hb]
  | payload items =>
    cases hpr : parse items with
    | none => simp [handleApplyFlows, hb, hpr]
    | some parsed =>
      exfalso
      by_cases hcl : (cleanAll env st.disk).2 = true
      · by_cases hsv : (saveAll env (cleanAll env st.disk).1 parsed).2 = true
        · by_cases hok : (reload env 1 req.gate (saveAll env (cleanAll env st.disk).1 parsed).1
              st.engine []).ok = true
          · simp [handleApplyFlows, hb, hpr, hcl, hsv, hok, Phase.early] at h
          · simp [handleApplyFlows, hb, hpr, hcl, hsv, hok, Phase.early] at h
        · simp [handleApplyFlows, hb, hpr, hcl, hsv, Phase.early] at h
      · simp [handleApplyFlows, hb, hpr, hcl, Phase.early] at h

theorem statusOf_ne_200 (req : Req) (s : Nat) (h : s ≠ 200) : statusOf req s ≠ 200 := by
  unfold statusOf
  split
  · exact h
  · decide

/-- A body that cannot be decoded. -/
def Body.undecodable : Body → Bool
  | .badJson => true
  | .null => true
  | .payload items => (parse items).isNone

theorem undecodable_handle (env : Env) (st : State) (req : Req) (h : req.body.undecodable = true) :
    (handle env st req).status ≠ 200 ∧ (handle env st req).phase.early = true := by
  have h4 : statusOf req 400 ≠ 200 := statusOf_ne_200 _ _ (by decide)
  have h5 : statusOf req 500 ≠ 200 := statusOf_ne_200 _ _ (by decide)
  unfold handle
  cases hep : req.ep with
  | configuration =>
    simp only
    cases hb : req.body with
    | badJson => simp [handleConfiguration, hb, h4, Phase.early]
    | null => simp [handleConfiguration, hb, h4, Phase.early]
    | payload items =>
      by_cases hbk : env.plan .backupRead = true
      · simp [handleConfiguration, hb, hbk, h5, Phase.early]
      · have hbk' : env.plan .backupRead = false := by simpa using hbk
        cases hpr : parse items with
        | none => simp [handleConfiguration, hb, hbk', hpr, h4, Phase.early]
        | some parsed => simp [hb, Body.undecodable, hpr] at h
  | applyFlows =>
    simp only
    cases hb : req.body with
    | badJson => simp [handleApplyFlows, hb, h4, Phase.early]
    | null => simp [handleApplyFlows, hb, h4, Phase.early]
    | payload items =>
      cases hpr : parse items with
      | none => simp [handleApplyFlows, hb, hpr, h4, Phase.early]
      | some parsed => simp [hb, Body.undecodable, hpr] at h

theorem early_handle (env : Env) (st : State) (req : Req)
    (h : (handle env st req).phase.early = true) :
    (handle env st req).disk = st.disk ∧ (handle env st req).engine = st.engine ∧
    (handle env st req).mid = [] := by
  unfold handle at h ⊢
  cases hep : req.ep with
  | configuration =>
    simp only [hep] at h ⊢
    exact early_configuration env st req h
  | applyFlows =>
    simp only [hep] at h ⊢
    exact early_applyFlows env st req h

/-- The shape of every request answered 200. -/
theorem success_char (env : Env) (hco : env.CleanOrderOk) (st : State) (req : Req)
    (hs : (handle env st req).status = 200) :
    req.methodPut = true ∧ (handle env st req).phase = .ok ∧
    (handle env st req).engine = .ready (handle env st req).disk ∧
    ∃ items, req.body = .payload items ∧ (parse items).isSome = true ∧
      (metricsMismatch (observe [] st req (handle env st req)) = false →
        ∀ p, (handle env st req).disk.get p = expectedGet req.ep items st.disk p) := by
  have hput : req.methodPut = true := by
    cases hm : req.methodPut with
    | true => rfl
    | false =>
      exfalso
      have : ∀ r : Result, r = handle env st req → r.status = 405 := by
        intro r hr
        subst hr
        unfold handle handleConfiguration handleApplyFlows statusOf
        simp only [hm]
        cases req.ep <;> cases req.body <;> simp <;> (repeat' split) <;> rfl
      rw [this _ rfl] at hs
      cases hs
  have hst : ∀ s, statusOf req s = s := statusOf_put req hput
  refine ⟨hput, ?_⟩
  unfold handle at hs ⊢
  cases hep : req.ep with
  | configuration =>
    simp only [hep] at hs ⊢
    cases hb : req.body with
    | badJson => simp [handleConfiguration, hb, hst] at hs
    | null => simp [handleConfiguration, hb, hst] at hs
    | payload items =>
      by_cases hbk : env.plan .backupRead = true
      · simp [handleConfiguration, hb, hst, hbk] at hs
      · have hbk' : env.plan .backupRead = false := by simpa using hbk
        cases hpr : parse items with
        | none => simp [handleConfiguration, hb, hst, hbk', hpr] at hs
        | some parsed =>
          by_cases hsv : (saveAll env st.disk parsed).2 = true
          · by_cases hok : (reload env 1 req.gate (saveAll env st.disk parsed).1 st.engine []).ok = true
            · have hr : handleConfiguration env st req =
                  ⟨200, .ok, (saveAll env st.disk parsed).1,
                   (reload env 1 req.gate (saveAll env st.disk parsed).1 st.engine []).engine,
                   (reload env 1 req.gate (saveAll env st.disk parsed).1 st.engine []).mid⟩ := by
                simp [handleConfiguration, hb, hst, hbk', hpr, hsv, hok]
              rw [hr]
              refine ⟨rfl, reload_ok_engine env 1 _ _ _ _ hok, items, rfl, by simp [hpr], ?_⟩
              intro hmm p
              have hum := no_mismatch_configuration [] st req _ items hb hep hmm
              obtain ⟨hw, hpaths⟩ := parse_some items parsed hpr
              rw [← hpaths] at hum
              simp only
              rw [saveAll_get env parsed st.disk hum hsv p]
              unfold overlay expectedGet
              rw [hw]
              rfl
            · simp [handleConfiguration, hb, hst, hbk', hpr, hsv, hok] at hs
          · simp [handleConfiguration, hb, hst, hbk', hpr, hsv] at hs
  | applyFlows =>
    simp only [hep] at hs ⊢
    cases hb : req.body with
    | badJson => simp [handleApplyFlows, hb, hst] at hs
    | null => simp [handleApplyFlows, hb, hst] at hs
    | payload items =>
      cases hpr : parse items with
      | none => simp [handleApplyFlows, hb, hst, hpr] at hs
      | some parsed =>
        by_cases hcl : (cleanAll env st.disk).2 = true
        · by_cases hsv : (saveAll env (cleanAll env st.disk).1 parsed).2 = true
          · by_cases hok : (reload env 1 req.gate (saveAll env (cleanAll env st.disk).1 parsed).1
                st.engine []).ok = true
            · have hr : handleApplyFlows env st req =
                  ⟨200, .ok, (saveAll env (cleanAll env st.disk).1 parsed).1,
                   (reload env 1 req.gate (saveAll env (cleanAll env st.disk).1 parsed).1 st.engine []).engine,
                   (reload env 1 req.gate (saveAll env (cleanAll env st.disk).1 parsed).1 st.engine []).mid⟩ := by
                simp [handleApplyFlows, hb, hst, hpr, hcl, hsv, hok]
              rw [hr]
              refine ⟨rfl, reload_ok_engine env 1 _ _ _ _ hok, items, rfl, by simp [hpr], ?_⟩
              intro hmm p
              have hum := no_mismatch_applyFlows [] st req _ items hb hep hmm
              obtain ⟨hw, hpaths⟩ := parse_some items parsed hpr
              rw [← hpaths] at hum
              simp only
              rw [saveAll_get env parsed _ (Or.inl hum) hsv p]
              unfold overlay expectedGet
              rw [hw, cleanAll_get env hco st.disk hcl p]
              rfl
            · simp [handleApplyFlows, hb, hst, hpr, hcl, hsv, hok] at hs
          · simp [handleApplyFlows, hb, hst, hpr, hcl, hsv] at hs
        · simp [handleApplyFlows, hb, hst, hpr, hcl] at hs

end LunarVerif.C08

namespace LunarVerif.C08

/-- Steps of `Restore()` and of the reload that follows it. -/
def Step.inRestore : Step → Bool
  | .restoreRead | .restoreStore _ => true
  | .validate r | .initialize r | .haproxy r | .metrics r => decide (r = 2)
  | _ => false

theorem single_fault_restoreFaultFree (env : Env) (k : Step) (hk : env.plan = fun s => decide (s = k))
    (hnr : k.inRestore = false) : env.RestoreFaultFree := by
  constructor <;> (try intro p) <;> rw [hk] <;> simp only [decide_eq_false_iff_not] <;>
    intro e <;> subst e <;> simp [Step.inRestore] at hnr

/-- A concrete environment for the witnesses: a file is rejected by the dry run / the metrics loader
    iff its content is the text `bad`; HAProxy always has endpoints; at most one injected fault. -/
def demoEnv (fault : Option Step) : Env :=
  { plan := fun s => match fault with | some f => decide (s = f) | none => false,
    validates := fun d => d.all (fun e => e.1 = .userMetrics || e.1 = .defaultMetrics || e.2 != "bad"),
    metricsOk := fun d => match d.get .userMetrics with
      | some c => c != "bad"
      | none => match d.get .defaultMetrics with
        | some c => c != "bad"
        | none => false,
    hasEndpoints := fun _ => true,
    cleanOrder := [.gateway, .userMetrics] }

theorem demoEnv_cleanOrderOk (f : Option Step) : (demoEnv f).CleanOrderOk := by
  intro p
  cases p <;> simp [demoEnv]

end LunarVerif.C08
