import LunarVerif.Spec.C08
/-! Helper lemmas for C08 (core Lean only). -/
namespace LunarVerif.C08

namespace Disk

@[simp] theorem get_nil (p : Path) : get [] p = none := rfl

theorem get_cons (q : Path) (c : Bytes) (rest : Disk) (p : Path) :
    get ((q, c) :: rest) p = if q = p then some c else get rest p := rfl

/-- Filtering on the key only. -/
theorem get_filter_key (f : Path → Bool) (d : Disk) (p : Path) :
    get (d.filter (fun e => f e.1)) p = if f p then get d p else none := by
  induction d with
  | nil => simp
  | cons e rest ih =>
    obtain ⟨q, c⟩ := e
    by_cases hq : f q = true
    · rw [List.filter_cons_of_pos (by simpa using hq), get_cons, get_cons, ih]
      by_cases hqp : q = p
      · subst hqp; simp [hq]
      · simp [hqp]
    · rw [List.filter_cons_of_neg (by simpa using hq), get_cons, ih]
      by_cases hqp : q = p
      · subst hqp; simp [hq]
      · simp [hqp]

theorem get_remove (d : Disk) (p q : Path) :
    get (remove d p) q = if q = p then none else get d q := by
  unfold remove
  rw [get_filter_key (fun k => decide (k ≠ p))]
  by_cases h : q = p <;> simp [h]

theorem get_write (d : Disk) (p : Path) (c : Bytes) (q : Path) :
    get (write d p c) q = if q = p then some c else get d q := by
  unfold write
  rw [get_cons, get_remove]
  by_cases h : p = q
  · subst h; simp
  · have h' : ¬ q = p := fun e => h e.symm
    simp [h, h']

theorem get_eq_none_of_not_mem (d : Disk) (p : Path) (h : p ∉ keys d) : get d p = none := by
  induction d with
  | nil => rfl
  | cons e rest ih =>
    obtain ⟨q, c⟩ := e
    simp only [keys, List.map_cons, List.mem_cons, not_or] at h
    rw [get_cons, if_neg (fun e => h.1 e.symm)]
    exact ih h.2

theorem mem_keys_of_get (d : Disk) (p : Path) (c : Bytes) (h : get d p = some c) : p ∈ keys d := by
  apply Classical.byContradiction
  intro hn
  rw [get_eq_none_of_not_mem d p hn] at h
  cases h

theorem get_of_mem (d : Disk) (hwf : WF d) (p : Path) (c : Bytes) (h : (p, c) ∈ d) :
    get d p = some c := by
  induction d with
  | nil => cases h
  | cons e rest ih =>
    obtain ⟨q, c'⟩ := e
    unfold WF keys at hwf
    simp only [List.map_cons, List.nodup_cons] at hwf
    rw [get_cons]
    rcases List.mem_cons.mp h with h | h
    · cases h; simp
    · have hne : ¬ q = p := by
        intro e; subst e
        exact hwf.1 (List.mem_map.mpr ⟨(q, c), h, rfl⟩)
      rw [if_neg hne]
      exact ih hwf.2 h

end Disk

/-- `sameDisk` is extensional equality of the two maps. -/
theorem sameDisk_iff (a b : Disk) : sameDisk a b = true ↔ ∀ p, a.get p = b.get p := by
  unfold sameDisk
  rw [List.all_eq_true]
  constructor
  · intro h p
    by_cases hp : p ∈ a.keys ++ b.keys
    · simpa using h p hp
    · rw [List.mem_append, not_or] at hp
      rw [Disk.get_eq_none_of_not_mem a p hp.1, Disk.get_eq_none_of_not_mem b p hp.2]
  · intro h p _
    simpa using h p

theorem sameDisk_refl (a : Disk) : sameDisk a a = true := (sameDisk_iff a a).mpr (fun _ => rfl)

end LunarVerif.C08

namespace LunarVerif.C08

theorem store_nofault (u : Bool) (d : Disk) (p : Path) (c : Bytes) :
    store u false d p c = ((unlinked u d p).write p c, true) := rfl
theorem store_fault (u : Bool) (d : Disk) (p : Path) (c : Bytes) :
    store u true d p c = (unlinked u d p, false) := rfl

/-- Whatever the unlink did, after the write the file holds exactly the new bytes. -/
theorem get_write_unlinked (u : Bool) (d : Disk) (p : Path) (c : Bytes) (q : Path) :
    ((unlinked u d p).write p c).get q = if q = p then some c else d.get q := by
  rw [Disk.get_write]
  by_cases hq : q = p
  · simp [hq]
  · cases u <;> simp [hq, unlinked, Disk.get_remove]

theorem get_unlinked_other (u : Bool) (d : Disk) (p q : Path) (h : ¬ q = p) :
    (unlinked u d p).get q = d.get q := by
  cases u <;> simp [unlinked, Disk.get_remove, h]

/-! ### Environment / state well-formedness -/

structure Env.WF (env : Env) : Prop where
  /-- `fs.files` is the gateway configuration and the USER metrics file. -/
  cleanOrder : ∀ p, p ∈ env.cleanOrder ↔ (p = .gateway ∨ p = .userMetrics)
  /-- map iteration visits exactly the keys. -/
  restoreOrder : ∀ (L : List Path) (p : Path), p ∈ env.restoreOrder L ↔ p ∈ L
  /-- `validates` / `metricsOk` look at the tree only through its contents. -/
  ext : ∀ a b : Disk, (∀ p, a.get p = b.get p) →
    env.validates a = env.validates b ∧ env.metricsOk a = env.metricsOk b

/-- No fault inside `Restore()` nor in the pre-switch part of the reload that follows it. -/
structure Env.RestoreFaultFree (env : Env) : Prop where
  read : env.plan .restoreRead = false
  store : ∀ p, env.plan (.restoreStore p) = false
  validate2 : env.plan (.validate 2) = false
  init2 : env.plan (.initialize 2) = false

/-- The running configuration is valid and the engine was loaded from the tree on disk. -/
structure State.WF (env : Env) (st : State) : Prop where
  valid : env.validates st.disk = true
  metrics : env.metricsOk st.disk = true
  sync : ∀ p, st.engine.probe p = st.disk.get p

/-! ### Saving the payload -/

/-- The tree after a list of writes. -/
def overlay (d : Disk) (ws : List (Path × Bytes)) (p : Path) : Option Bytes :=
  match lastWrite ws p with
  | some c => some c
  | none => d.get p

theorem saveAll_get (env : Env) :
    ∀ (ws : List (Path × Bytes)) (d : Disk), (saveAll env d ws).2 = true →
      ∀ p, (saveAll env d ws).1.get p = overlay d ws p := by
  intro ws
  induction ws with
  | nil => intro d _ p; rfl
  | cons e rest ih =>
    intro d hok p
    obtain ⟨q, c⟩ := e
    unfold saveAll at hok ⊢
    by_cases hf : env.plan (.save q) = true
    · rw [hf, store_fault] at hok; simp at hok
    · have hf' : env.plan (.save q) = false := by simpa using hf
      rw [hf', store_nofault] at hok ⊢
      simp only [if_true] at hok ⊢
      rw [ih _ hok p]
      unfold overlay
      simp only [lastWrite]
      cases hl : lastWrite rest p with
      | some x => rfl
      | none =>
        simp only [get_write_unlinked]
        by_cases hq : q = p
        · subst hq; simp
        · have : ¬ p = q := fun e => hq e.symm
          simp [hq, this]

theorem not_covered_iff (q : Path) : q.covered = false ↔ q = .defaultMetrics := by
  cases q <;> simp [Path.covered]

theorem saveAll_uncovered (env : Env) :
    ∀ (ws : List (Path × Bytes)) (d : Disk), Path.defaultMetrics ∉ ws.map Prod.fst →
      ∀ q, q.covered = false → (saveAll env d ws).1.get q = d.get q := by
  intro ws
  induction ws with
  | nil => intro d _ q _; rfl
  | cons e rest ih =>
    intro d hdm q hq
    obtain ⟨p, c⟩ := e
    have hqp : ¬ q = p := by
      intro e; subst e
      apply hdm
      rw [(not_covered_iff q).mp hq]
      simp
    have hrest : Path.defaultMetrics ∉ rest.map Prod.fst := fun h => hdm (by simp [h])
    unfold saveAll
    by_cases hf : env.plan (.save p) = true
    · rw [hf, store_fault]
      simp [get_unlinked_other _ _ _ _ hqp]
    · have hf' : env.plan (.save p) = false := by simpa using hf
      rw [hf', store_nofault]
      simp only [if_true]
      rw [ih _ hrest q hq, get_write_unlinked]
      simp [hqp]

theorem parse_some (items : List Item) :
    ∀ parsed, parse items = some parsed →
      payloadWrites items = parsed ∧ parsed.map Prod.fst = itemPaths items := by
  induction items with
  | nil => intro parsed h; cases h; exact ⟨rfl, rfl⟩
  | cons i rest ih =>
    intro parsed h
    unfold parse at h
    cases hc : i.content with
    | none => simp [hc] at h
    | some c =>
      cases hr : parse rest with
      | none => simp [hc, hr] at h
      | some ps =>
        simp only [hc, hr, Option.some.injEq] at h
        subst h
        obtain ⟨h1, h2⟩ := ih ps hr
        constructor
        · simp only [payloadWrites, List.filterMap_cons, hc, Option.map_some]
          exact congrArg _ h1
        · simp only [List.map_cons, itemPaths]
          exact congrArg _ h2

theorem parse_none_of_mem (items : List Item) (i : Item) (hi : i ∈ items) (hc : i.content = none) :
    parse items = none := by
  induction items with
  | nil => cases hi
  | cons j rest ih =>
    unfold parse
    rcases List.mem_cons.mp hi with h | h
    · subst h; simp [hc]
    · rw [ih h]
      cases j.content <;> rfl

/-! ### `CleanAll` -/

theorem cleanFiles_get (env : Env) :
    ∀ (L : List Path) (d : Disk), (cleanFiles env d L).2 = true →
      ∀ p, (cleanFiles env d L).1.get p = if p ∈ L then none else d.get p := by
  intro L
  induction L with
  | nil => intro d _ p; simp [cleanFiles]
  | cons q rest ih =>
    intro d hok p
    unfold cleanFiles at hok ⊢
    by_cases hf : env.plan (.cleanRemove q) = true
    · simp [hf] at hok
    · have hf' : env.plan (.cleanRemove q) = false := by simpa using hf
      simp only [hf', Bool.false_eq_true, if_false] at hok ⊢
      rw [ih _ hok p, Disk.get_remove]
      by_cases hp : p = q
      · subst hp; simp
      · by_cases hr : p ∈ rest <;> simp [hp, hr]

theorem cleanFiles_other (env : Env) :
    ∀ (L : List Path) (d : Disk) (q : Path), q ∉ L → (cleanFiles env d L).1.get q = d.get q := by
  intro L
  induction L with
  | nil => intro d q _; rfl
  | cons p rest ih =>
    intro d q hq
    simp only [List.mem_cons, not_or] at hq
    unfold cleanFiles
    by_cases hf : env.plan (.cleanRemove p) = true
    · simp [hf]
    · have hf' : env.plan (.cleanRemove p) = false := by simpa using hf
      simp only [hf', Bool.false_eq_true, if_false]
      rw [ih _ q hq.2, Disk.get_remove]
      simp [hq.1]

theorem cleanAll_get (env : Env) (hwf : env.WF) (d : Disk) (hok : (cleanAll env d).2 = true) :
    ∀ p, (cleanAll env d).1.get p = if p.covered then none else d.get p := by
  intro p
  unfold cleanAll at hok ⊢
  rw [cleanFiles_get env _ _ hok p, Disk.get_filter_key (fun k => !k.inDirs)]
  have := hwf.cleanOrder p
  cases p <;> simp [Path.covered, Path.inDirs] at this ⊢ <;> simp [this]

/-- `CleanAll` — finished or not — never touches anything outside its scope. -/
theorem cleanAll_uncovered (env : Env) (hwf : env.WF) (d : Disk) :
    ∀ q, q.covered = false → (cleanAll env d).1.get q = d.get q := by
  intro q hq
  have hq' := (not_covered_iff q).mp hq
  subst hq'
  unfold cleanAll
  rw [cleanFiles_other env _ _ _ (by rw [hwf.cleanOrder]; simp),
      Disk.get_filter_key (fun k => !k.inDirs)]
  simp [Path.inDirs]

/-! ### `Restore()` -/

def restoredGet (b d : Disk) (q : Path) : Option Bytes :=
  match b.get q with
  | some c => some c
  | none => d.get q

theorem storeBackAll_get (env : Env) (hnf : ∀ p, env.plan (.restoreStore p) = false) (b : Disk) :
    ∀ (L : List Path) (d : Disk),
      (storeBackAll env b d L).2 = true ∧
      ∀ q, (storeBackAll env b d L).1.get q = if q ∈ L then restoredGet b d q else d.get q := by
  intro L
  induction L with
  | nil => intro d; exact ⟨rfl, fun q => by simp [storeBackAll]⟩
  | cons p rest ih =>
    intro d
    unfold storeBackAll
    cases hbp : b.get p with
    | none =>
      simp only
      refine ⟨(ih d).1, fun q => ?_⟩
      rw [(ih d).2 q]
      by_cases hq : q = p
      · subst hq
        simp [restoredGet, hbp]
      · simp [hq]
    | some c =>
      simp only
      by_cases hsame : d.get p = some c
      · rw [if_pos hsame]
        refine ⟨(ih d).1, fun q => ?_⟩
        rw [(ih d).2 q]
        by_cases hq : q = p
        · subst hq
          by_cases hr : q ∈ rest <;> simp [hr, restoredGet, hbp, hsame]
        · simp [hq]
      · rw [if_neg hsame, hnf p, store_nofault]
        simp only [if_true]
        refine ⟨(ih _).1, fun q => ?_⟩
        rw [(ih _).2 q]
        by_cases hq : q = p
        · subst hq
          by_cases hr : q ∈ rest <;> simp [hr, restoredGet, hbp, get_write_unlinked]
        · by_cases hr : q ∈ rest <;> simp [hr, hq, restoredGet, get_write_unlinked]

theorem snapshot_get (d : Disk) (q : Path) : (snapshot d).get q = if q.covered then d.get q else none := by
  unfold snapshot
  exact Disk.get_filter_key Path.covered d q

/-- `Restore()` brings back the backed-up tree, provided nothing outside its scope was touched and
    the restore itself does not fail — in whatever order the map is ranged over. -/
theorem restore_correct (env : Env) (hwf : env.WF) (hrr : env.plan .restoreRead = false)
    (hnf : ∀ p, env.plan (.restoreStore p) = false) (d0 d : Disk)
    (hunc : ∀ q, q.covered = false → d.get q = d0.get q) :
    ∀ q, (restore env (snapshot d0) d).1.get q = d0.get q := by
  intro q
  unfold restore
  simp only [hrr, Bool.false_eq_true, if_false]
  obtain ⟨hok, hget⟩ := storeBackAll_get env hnf (snapshot d0) (env.restoreOrder (snapshot d0).keys) d
  rw [if_pos hok]
  simp only
  rw [Disk.get_filter_key (fun k => !k.covered || ((snapshot d0).get k).isSome), hget q]
  cases hc : q.covered with
  | false =>
    have hb : (snapshot d0).get q = none := by rw [snapshot_get, hc]; rfl
    simp only [Bool.not_false, Bool.true_or, if_true]
    by_cases hk : q ∈ env.restoreOrder (snapshot d0).keys
    · rw [if_pos hk]; simp [restoredGet, hb, hunc q hc]
    · rw [if_neg hk]; exact hunc q hc
  | true =>
    have hb : (snapshot d0).get q = d0.get q := by rw [snapshot_get, hc]; rfl
    cases hd : d0.get q with
    | none => simp [hb, hd]
    | some c =>
      have hk : q ∈ env.restoreOrder (snapshot d0).keys :=
        (hwf.restoreOrder _ q).mpr (Disk.mem_keys_of_get _ q c (by rw [hb, hd]))
      simp [hb, hd, hk, restoredGet]

/-! ### `reloadFlows` -/

/-- The three ways a reload can end. -/
theorem reload_cases (env : Env) (r : Nat) (g : Bool) (d : Disk) (e : Engine) (mid : List Engine) :
    ((reload env r g d e mid).ok = false ∧ (reload env r g d e mid).engine = e ∧
      (reload env r g d e mid).mid = mid) ∨
    ((reload env r g d e mid).ok = false ∧ (reload env r g d e mid).engine = .ready d ∧
      (reload env r g d e mid).mid = mid ++ (if g then [e] else [])) ∨
    ((reload env r g d e mid).ok = true ∧ (reload env r g d e mid).engine = .ready d ∧
      (reload env r g d e mid).mid = mid ++ (if g then [e] else []) ∧
      env.validates d = true ∧ env.metricsOk d = true) := by
  unfold reload
  simp only
  by_cases h1 : (env.plan (.validate r) || !env.validates d) = true
  · rw [if_pos h1]; exact Or.inl ⟨rfl, rfl, rfl⟩
  · rw [if_neg h1]
    by_cases h2 : env.plan (.initialize r) = true
    · rw [if_pos h2]; exact Or.inl ⟨rfl, rfl, rfl⟩
    · rw [if_neg h2]
      have hmid : (if g = true then mid ++ [e] else mid) = mid ++ (if g = true then [e] else []) := by
        cases g <;> simp
      by_cases h3 : (env.plan (.haproxy r) && env.hasEndpoints d) = true
      · rw [if_pos h3]; exact Or.inr (Or.inl ⟨rfl, rfl, hmid⟩)
      · rw [if_neg h3]
        by_cases h4 : (env.plan (.metrics r) || !env.metricsOk d) = true
        · rw [if_pos h4]; exact Or.inr (Or.inl ⟨rfl, rfl, hmid⟩)
        · rw [if_neg h4]
          refine Or.inr (Or.inr ⟨rfl, rfl, hmid, ?_, ?_⟩)
          · simp only [Bool.or_eq_true, Bool.not_eq_true', not_or, Bool.not_eq_false] at h1
            exact h1.2
          · simp only [Bool.or_eq_true, Bool.not_eq_true', not_or, Bool.not_eq_false] at h4
            exact h4.2

/-- The reload after a fault-free restore of a valid tree always reaches the switch. -/
theorem reload_switches (env : Env) (r : Nat) (g : Bool) (d : Disk) (e : Engine) (mid : List Engine)
    (hv : env.validates d = true) (h1 : env.plan (.validate r) = false)
    (h2 : env.plan (.initialize r) = false) :
    (reload env r g d e mid).engine = .ready d ∧
    (reload env r g d e mid).mid = mid ++ (if g then [e] else []) := by
  unfold reload
  simp only [h1, hv, h2, Bool.not_true, Bool.or_false, Bool.false_eq_true, if_false]
  have hmid : (if g = true then mid ++ [e] else mid) = mid ++ (if g = true then [e] else []) := by
    cases g <;> simp
  split
  · exact ⟨rfl, hmid⟩
  · split <;> exact ⟨rfl, hmid⟩

end LunarVerif.C08

namespace LunarVerif.C08

/-! ### Outcomes of a request -/

/-- Not answered 200: tree and behaviour as before; the transactions at the switch points were
    served by the old engine — unless the request had already switched once (two switch points). -/
def RolledBack (st : State) (r : Result) : Prop :=
  r.status ≠ 200 ∧ (∀ p, r.disk.get p = st.disk.get p) ∧
  (∀ p, r.engine.probe p = st.engine.probe p) ∧
  ((∀ e ∈ r.mid, e = st.engine) ∨ 2 ≤ r.mid.length)

/-- Answered 200, `d` being the tree the saves produced. -/
def Switched (env : Env) (st : State) (r : Result) (d : Disk) : Prop :=
  r.status = 200 ∧ r.phase = .ok ∧ r.disk = d ∧ r.engine = .ready d ∧
  env.validates d = true ∧ env.metricsOk d = true ∧ (∀ e ∈ r.mid, e = st.engine)

theorem mem_ite_singleton (g : Bool) (e x : Engine) (h : x ∈ (if g = true then [e] else [])) : x = e := by
  cases g <;> simp at h
  exact h

theorem saveAndReload_outcome (env : Env) (hwf : env.WF) (hff : env.RestoreFaultFree)
    (st : State) (hst : st.WF env) (req : Req) (d1 : Disk) (parsed : List (Path × Bytes))
    (hdm : Path.defaultMetrics ∉ parsed.map Prod.fst)
    (hunc : ∀ q, q.covered = false → d1.get q = st.disk.get q) :
    RolledBack st (saveAndReload env st req (snapshot st.disk) d1 parsed) ∨
    ((saveAll env d1 parsed).2 = true ∧
      Switched env st (saveAndReload env st req (snapshot st.disk) d1 parsed) (saveAll env d1 parsed).1) := by
  have hrest : ∀ q, (restore env (snapshot st.disk) (saveAll env d1 parsed).1).1.get q = st.disk.get q :=
    restore_correct env hwf hff.read hff.store st.disk _
      (fun q hq => by rw [saveAll_uncovered env parsed d1 hdm q hq]; exact hunc q hq)
  unfold saveAndReload
  simp only
  by_cases hsv : (saveAll env d1 parsed).2 = true
  · simp only [hsv, Bool.not_true, Bool.false_eq_true, if_false]
    rcases reload_cases env 1 req.gate (saveAll env d1 parsed).1 st.engine [] with h | h | h
    · -- failed before the switch
      obtain ⟨hok, heng, hmid⟩ := h
      left
      simp only [hok, Bool.false_eq_true, if_false, heng, hmid]
      have hext := hwf.ext _ _ hrest
      obtain ⟨he2, hm2⟩ := reload_switches env 2 req.gate
        (restore env (snapshot st.disk) (saveAll env d1 parsed).1).1 st.engine []
        (by rw [hext.1]; exact hst.valid) hff.validate2 hff.init2
      refine ⟨by simp, hrest, ?_, Or.inl ?_⟩
      · intro p; simp only; rw [he2, hst.sync p]; exact hrest p
      · intro e he
        simp only at he
        rw [hm2] at he
        exact mem_ite_singleton req.gate st.engine e (by simpa using he)
    · -- switched, then failed
      obtain ⟨hok, heng, hmid⟩ := h
      left
      simp only [hok, Bool.false_eq_true, if_false, heng, hmid]
      have hext := hwf.ext _ _ hrest
      obtain ⟨he2, hm2⟩ := reload_switches env 2 req.gate
        (restore env (snapshot st.disk) (saveAll env d1 parsed).1).1
        (.ready (saveAll env d1 parsed).1) ([] ++ if req.gate = true then [st.engine] else [])
        (by rw [hext.1]; exact hst.valid) hff.validate2 hff.init2
      refine ⟨by simp, hrest, ?_, ?_⟩
      · intro p; simp only; rw [he2, hst.sync p]; exact hrest p
      · simp only
        rw [hm2]
        cases hg : req.gate with
        | false => left; intro e he; simp at he
        | true => right; simp
    · -- success
      obtain ⟨hok, heng, hmid, hv, hm⟩ := h
      right
      refine ⟨by first | exact hsv | trivial, ?_⟩
      simp only [hok, if_true]
      refine ⟨rfl, rfl, rfl, heng, hv, hm, ?_⟩
      intro e he
      simp only [hmid] at he
      exact mem_ite_singleton req.gate st.engine e (by simpa using he)
  · left
    have hsv' : (saveAll env d1 parsed).2 = false := by simpa using hsv
    simp only [hsv', Bool.not_false, if_true]
    exact ⟨by simp, hrest, fun _ => rfl, Or.inl (fun e he => by cases he)⟩

/-- Unchanged state is a (trivial) roll-back. -/
theorem rolledBack_of_unchanged (st : State) (s : Nat) (ph : Phase) (hs : s ≠ 200) :
    RolledBack st ⟨s, ph, st.disk, st.engine, []⟩ :=
  ⟨hs, fun _ => rfl, fun _ => rfl, Or.inl (fun e he => by cases he)⟩

/-- Every request is either rolled back or switched to exactly the payload applied. -/
theorem handle_outcome (env : Env) (hwf : env.WF) (hff : env.RestoreFaultFree)
    (st : State) (hst : st.WF env) (req : Req) (hreq : req.WF) :
    RolledBack st (handle env st req) ∨
    (req.methodPut = true ∧ ∃ items, req.body = .payload items ∧ (parse items).isSome = true ∧
      (∀ p, (handle env st req).disk.get p = expectedGet req.ep items st.disk p) ∧
      Switched env st (handle env st req) (handle env st req).disk) := by
  unfold handle
  cases hep : req.ep with
  | configuration =>
    simp only
    unfold handleConfiguration
    cases hm : req.methodPut with
    | false => left; simp only [Bool.not_false, if_true]; exact rolledBack_of_unchanged st 405 _ (by decide)
    | true =>
      simp only [Bool.not_true, Bool.false_eq_true, if_false]
      cases hb : req.body with
      | badJson => left; exact rolledBack_of_unchanged st 400 _ (by decide)
      | null => left; exact rolledBack_of_unchanged st 400 _ (by decide)
      | payload items =>
        simp only
        by_cases hbk : env.plan .backupRead = true
        · left; simp only [hbk, if_true]; exact rolledBack_of_unchanged st 500 _ (by decide)
        · have hbk' : env.plan .backupRead = false := by simpa using hbk
          simp only [hbk', Bool.false_eq_true, if_false]
          cases hpr : parse items with
          | none => left; exact rolledBack_of_unchanged st 400 _ (by decide)
          | some parsed =>
            simp only
            obtain ⟨hw, hpaths⟩ := parse_some items parsed hpr
            have hdm : Path.defaultMetrics ∉ parsed.map Prod.fst := by
              rw [hpaths]; simpa [Req.WF, hb, itemsWF] using hreq
            rcases saveAndReload_outcome env hwf hff st hst req st.disk parsed hdm (fun _ _ => rfl) with h | ⟨hsv, h⟩
            · exact Or.inl h
            · right
              refine ⟨by simp, items, by simp, by simp [hpr], ?_, ?_⟩
              · intro p
                rw [h.2.2.1, saveAll_get env parsed st.disk hsv p]
                unfold overlay expectedGet
                rw [hw]
                rfl
              · rw [h.2.2.1]; exact h
  | applyFlows =>
    simp only
    unfold handleApplyFlows
    cases hm : req.methodPut with
    | false => left; simp only [Bool.not_false, if_true]; exact rolledBack_of_unchanged st 405 _ (by decide)
    | true =>
      simp only [Bool.not_true, Bool.false_eq_true, if_false]
      cases hb : req.body with
      | badJson => left; exact rolledBack_of_unchanged st 400 _ (by decide)
      | null => left; exact rolledBack_of_unchanged st 400 _ (by decide)
      | payload items =>
        simp only
        by_cases hbk : env.plan .backupRead = true
        · left; simp only [hbk, if_true]; exact rolledBack_of_unchanged st 500 _ (by decide)
        · have hbk' : env.plan .backupRead = false := by simpa using hbk
          simp only [hbk', Bool.false_eq_true, if_false]
          cases hpr : parse items with
          | none => left; exact rolledBack_of_unchanged st 400 _ (by decide)
          | some parsed =>
            simp only
            obtain ⟨hw, hpaths⟩ := parse_some items parsed hpr
            have hdm : Path.defaultMetrics ∉ parsed.map Prod.fst := by
              rw [hpaths]; simpa [Req.WF, hb, itemsWF] using hreq
            by_cases hcl : (cleanAll env st.disk).2 = true
            · simp only [hcl, Bool.not_true, Bool.false_eq_true, if_false]
              rcases saveAndReload_outcome env hwf hff st hst req (cleanAll env st.disk).1 parsed hdm
                (cleanAll_uncovered env hwf st.disk) with h | ⟨hsv, h⟩
              · exact Or.inl h
              · right
                refine ⟨by simp, items, by simp, by simp [hpr], ?_, ?_⟩
                · intro p
                  rw [h.2.2.1, saveAll_get env parsed _ hsv p]
                  unfold overlay expectedGet
                  rw [hw, cleanAll_get env hwf st.disk hcl p]
                  rfl
                · rw [h.2.2.1]; exact h
            · left
              have hcl' : (cleanAll env st.disk).2 = false := by simpa using hcl
              simp only [hcl', Bool.not_false, if_true]
              exact ⟨by simp,
                restore_correct env hwf hff.read hff.store st.disk _ (cleanAll_uncovered env hwf st.disk),
                fun _ => rfl, Or.inl (fun e he => by cases he)⟩

end LunarVerif.C08

namespace LunarVerif.C08

/-! ### From outcomes to the Spec predicate and the property theorems -/

theorem holds_of_rolledBack (probes : List Path) (st : State) (req : Req) (r : Result)
    (h : RolledBack st r) (hf : finding (observe probes st req r) = none) :
    holds (observe probes st req r) = true := by
  obtain ⟨hs, hd, he, hmid⟩ := h
  have hmid' : ∀ e ∈ r.mid, e = st.engine := by
    rcases hmid with h | h
    · exact h
    · exfalso
      unfold finding switchedThenFailed at hf
      simp only [observe, List.length_map] at hf
      simp [hs, h] at hf
  unfold holds
  have hs' : (observe probes st req r).status ≠ 200 := hs
  rw [if_pos hs']
  simp only [observe, Bool.and_eq_true, List.all_eq_true, List.mem_map,
    forall_exists_index, and_imp, forall_apply_eq_imp_iff₂]
  refine ⟨⟨(sameDisk_iff _ _).mpr hd, decide_eq_true (List.map_congr_left (fun p _ => he p))⟩, ?_⟩
  intro e hemem
  rw [hmid' e hemem]
  exact decide_eq_true rfl

theorem holds_of_switched (env : Env) (probes : List Path) (st : State) (req : Req) (r : Result)
    (items : List Item) (hb : req.body = .payload items)
    (hdisk : ∀ p, r.disk.get p = expectedGet req.ep items st.disk p)
    (h : Switched env st r r.disk) : holds (observe probes st req r) = true := by
  obtain ⟨hs, _, _, _, _, _, hmid⟩ := h
  unfold holds
  have hs' : ¬ (observe probes st req r).status ≠ 200 := by simp [observe, hs]
  rw [if_neg hs']
  simp only [Bool.and_eq_true, List.all_eq_true, Bool.or_eq_true, decide_eq_true_eq]
  constructor
  · intro m hm
    simp only [observe, List.mem_map] at hm
    obtain ⟨e, hemem, rfl⟩ := hm
    left
    rw [hmid e hemem]
    rfl
  · unfold successDisk
    simp only [observe, hb, bodyItems, List.all_eq_true, decide_eq_true_eq]
    intro p _
    exact hdisk p

theorem partial_holds (env : Env) (hwf : env.WF) (hff : env.RestoreFaultFree) (probes : List Path)
    (st : State) (hst : st.WF env) (req : Req) (hreq : req.WF)
    (hnone : finding (observe probes st req (handle env st req)) = none) :
    holds (observe probes st req (handle env st req)) = true := by
  rcases handle_outcome env hwf hff st hst req hreq with h | ⟨_, items, hb, _, hd, hsw⟩
  · exact holds_of_rolledBack probes st req _ h hnone
  · exact holds_of_switched env probes st req _ items hb hd hsw

theorem wf_preserved (env : Env) (hwf : env.WF) (hff : env.RestoreFaultFree)
    (st : State) (hst : st.WF env) (req : Req) (hreq : req.WF) :
    (handle env st req).state.WF env := by
  rcases handle_outcome env hwf hff st hst req hreq with ⟨_, hd, he, _⟩ | ⟨_, _, _, _, _, hsw⟩
  · have hext := hwf.ext _ _ hd
    exact ⟨by rw [Result.state]; simp only; rw [hext.1]; exact hst.valid,
           by rw [Result.state]; simp only; rw [hext.2]; exact hst.metrics,
           fun p => by rw [Result.state]; simp only; rw [he p, hst.sync p, hd p]⟩
  · obtain ⟨_, _, _, heng, hv, hm, _⟩ := hsw
    exact ⟨hv, hm, fun p => by rw [Result.state]; simp only; rw [heng]; rfl⟩

theorem rollback_aux (env : Env) (hwf : env.WF) (hff : env.RestoreFaultFree)
    (st : State) (hst : st.WF env) (req : Req) (hreq : req.WF)
    (hs : (handle env st req).status ≠ 200) :
    (∀ p, (handle env st req).disk.get p = st.disk.get p) ∧
    (∀ p, (handle env st req).engine.probe p = st.engine.probe p) := by
  rcases handle_outcome env hwf hff st hst req hreq with ⟨_, hd, he, _⟩ | ⟨_, _, _, _, _, hsw⟩
  · exact ⟨hd, he⟩
  · exact absurd hsw.1 hs

theorem success_aux (env : Env) (hwf : env.WF) (hff : env.RestoreFaultFree)
    (st : State) (hst : st.WF env) (req : Req) (hreq : req.WF)
    (hs : (handle env st req).status = 200) :
    req.methodPut = true ∧ (handle env st req).phase = .ok ∧
    (handle env st req).engine = .ready (handle env st req).disk ∧
    (∀ e ∈ (handle env st req).mid, e = st.engine) ∧
    ∃ items, req.body = .payload items ∧ (parse items).isSome = true ∧
      ∀ p, (handle env st req).disk.get p = expectedGet req.ep items st.disk p := by
  rcases handle_outcome env hwf hff st hst req hreq with ⟨hne, _⟩ | ⟨hput, items, hb, hp, hd, hsw⟩
  · exact absurd hs hne
  · exact ⟨hput, hsw.2.1, hsw.2.2.2.1, hsw.2.2.2.2.2.2, items, hb, hp, hd⟩

/-! ### Rejections before the first write (any environment, any state) -/

def Phase.early : Phase → Bool
  | .busy | .method | .decode | .nodata | .backup | .parse => true
  | _ => false

theorem saveAndReload_not_early (env : Env) (st : State) (req : Req) (b d1 : Disk)
    (parsed : List (Path × Bytes)) : (saveAndReload env st req b d1 parsed).phase.early = false := by
  unfold saveAndReload
  simp only
  split
  · rfl
  · split <;> rfl

theorem early_handle (env : Env) (st : State) (req : Req)
    (h : (handle env st req).phase.early = true) :
    (handle env st req).disk = st.disk ∧ (handle env st req).engine = st.engine ∧
    (handle env st req).mid = [] := by
  unfold handle at h ⊢
  cases hep : req.ep with
  | configuration =>
    simp only [hep] at h ⊢
    unfold handleConfiguration at h ⊢
    cases hm : req.methodPut with
    | false => simp
    | true =>
      simp only [hm, Bool.not_true, Bool.false_eq_true, if_false] at h ⊢
      cases hb : req.body with
      | badJson => simp
      | null => simp
      | payload items =>
        simp only [hb] at h ⊢
        by_cases hbk : env.plan .backupRead = true
        · simp [hbk]
        · have hbk' : env.plan .backupRead = false := by simpa using hbk
          simp only [hbk', Bool.false_eq_true, if_false] at h ⊢
          cases hpr : parse items with
          | none => simp
          | some parsed =>
            simp only [hpr, saveAndReload_not_early] at h
            cases h
  | applyFlows =>
    simp only [hep] at h ⊢
    unfold handleApplyFlows at h ⊢
    cases hm : req.methodPut with
    | false => simp
    | true =>
      simp only [hm, Bool.not_true, Bool.false_eq_true, if_false] at h ⊢
      cases hb : req.body with
      | badJson => simp
      | null => simp
      | payload items =>
        simp only [hb] at h ⊢
        by_cases hbk : env.plan .backupRead = true
        · simp [hbk]
        · have hbk' : env.plan .backupRead = false := by simpa using hbk
          simp only [hbk', Bool.false_eq_true, if_false] at h ⊢
          cases hpr : parse items with
          | none => simp
          | some parsed =>
            simp only [hpr] at h
            by_cases hcl : (cleanAll env st.disk).2 = true
            · simp only [hcl, Bool.not_true, Bool.false_eq_true, if_false, saveAndReload_not_early] at h
            · have hcl' : (cleanAll env st.disk).2 = false := by simpa using hcl
              simp [hcl', Phase.early] at h

/-- A body that cannot be decoded. -/
def Body.undecodable : Body → Bool
  | .badJson => true
  | .null => true
  | .payload items => (parse items).isNone

theorem undecodable_handle (env : Env) (st : State) (req : Req) (h : req.body.undecodable = true) :
    (handle env st req).status ≠ 200 ∧ (handle env st req).phase.early = true := by
  unfold handle
  cases hep : req.ep <;> simp only <;>
  (first | unfold handleConfiguration | unfold handleApplyFlows) <;>
  (cases hm : req.methodPut with
   | false => simp [Phase.early]
   | true =>
     simp only [Bool.not_true, Bool.false_eq_true, if_false]
     cases hb : req.body with
     | badJson => simp [Phase.early]
     | null => simp [Phase.early]
     | payload items =>
       simp only
       by_cases hbk : env.plan .backupRead = true
       · simp [hbk, Phase.early]
       · have hbk' : env.plan .backupRead = false := by simpa using hbk
         simp only [hbk', Bool.false_eq_true, if_false]
         cases hpr : parse items with
         | none => simp [Phase.early]
         | some parsed => simp [hb, Body.undecodable, hpr] at h)

theorem non_put_handle (env : Env) (st : State) (req : Req) (h : req.methodPut = false) :
    (handle env st req).status = 405 ∧ (handle env st req).phase = .method := by
  unfold handle handleConfiguration handleApplyFlows
  cases req.ep <;> simp [h]

theorem single_fault_restoreFaultFree (env : Env) (k : Step) (hk : env.plan = fun s => decide (s = k))
    (hnr : k.inRestore = false) : env.RestoreFaultFree := by
  constructor <;> (try intro p) <;> rw [hk] <;> simp only [decide_eq_false_iff_not] <;>
    intro e <;> subst e <;> simp [Step.inRestore] at hnr

/-- A concrete environment for the witnesses and examples: a file is rejected by the dry run / the
    metrics loader iff its content is the text `bad`; HAProxy always has endpoints; at most one
    injected fault; maps ranged over in list order. -/
def demoEnv (fault : Option Step) : Env :=
  { plan := fun s => match fault with | some f => decide (s = f) | none => false,
    validates := fun d => [Path.flow "a.yaml", .flow "b.yaml", .flow "c.yaml", .gateway].all
      (fun p => d.get p != some "bad"),
    metricsOk := fun d => match d.get .userMetrics with
      | some c => c != "bad"
      | none => match d.get .defaultMetrics with
        | some c => c != "bad"
        | none => false,
    hasEndpoints := fun _ => true,
    cleanOrder := [.gateway, .userMetrics],
    restoreOrder := id }

theorem demoEnv_wf (f : Option Step) : (demoEnv f).WF := by
  refine ⟨?_, fun _ _ => Iff.rfl, ?_⟩
  · intro p; cases p <;> simp [demoEnv]
  · intro a b h
    simp only [demoEnv, h]
    exact ⟨trivial, trivial⟩

end LunarVerif.C08

namespace LunarVerif.C08

/-! ### Two overlapping pushes -/

/-- Same tree byte for byte, same serving behaviour. -/
def State.Equiv (s s' : State) : Prop :=
  (∀ p, s.disk.get p = s'.disk.get p) ∧ (∀ p, s.engine.probe p = s'.engine.probe p)

theorem State.Equiv.refl (s : State) : s.Equiv s := ⟨fun _ => rfl, fun _ => rfl⟩

theorem State.Equiv.trans {a b c : State} (h1 : a.Equiv b) (h2 : b.Equiv c) : a.Equiv c :=
  ⟨fun p => (h1.1 p).trans (h2.1 p), fun p => (h1.2 p).trans (h2.2 p)⟩

/-- `final` is what running the pushes of the list one after the other — each on a state equivalent
    to the one its predecessor left, each answered 200 — produces from `st`. -/
inductive SerialFrom (env : Env) : State → List Req → State → Prop
  | nil {st final : State} : st.Equiv final → SerialFrom env st [] final
  | cons {st s' final : State} {r : Req} {rest : List Req} :
      st.Equiv s' → (handle env s' r).status = 200 →
      SerialFrom env (handle env s' r).state rest final → SerialFrom env st (r :: rest) final

/-- The pushes of a two-push run that were answered 200, in the order they went through the critical section. -/
def acceptedInOrder (a b : Req) (t : TwoResult) : Sched → List Req
  | .aThenB | .aDuringB =>
    (if t.ra.status = 200 then [a] else []) ++ (if t.rb.status = 200 then [b] else [])
  | .bThenA | .bDuringA =>
    (if t.rb.status = 200 then [b] else []) ++ (if t.ra.status = 200 then [a] else [])

theorem rolledBack_equiv (env : Env) (hwf : env.WF) (hff : env.RestoreFaultFree)
    (st : State) (hst : st.WF env) (req : Req) (hreq : req.WF)
    (hs : (handle env st req).status ≠ 200) : st.Equiv (handle env st req).state := by
  obtain ⟨hd, he⟩ := rollback_aux env hwf hff st hst req hreq hs
  exact ⟨fun p => (hd p).symm, fun p => (he p).symm⟩

/-- Two pushes one after the other. -/
theorem serial_two (env : Env) (hwf : env.WF) (hff : env.RestoreFaultFree)
    (st : State) (hst : st.WF env) (x y : Req) (hx : x.WF) (hy : y.WF) :
    SerialFrom env st
      ((if (handle env st x).status = 200 then [x] else []) ++
       (if (handle env (handle env st x).state y).status = 200 then [y] else []))
      (handle env (handle env st x).state y).state := by
  have hst1 : (handle env st x).state.WF env := wf_preserved env hwf hff st hst x hx
  by_cases h1 : (handle env st x).status = 200
  · by_cases h2 : (handle env (handle env st x).state y).status = 200
    · simp only [h1, h2, if_true, List.cons_append, List.nil_append]
      exact .cons (State.Equiv.refl _) h1 (.cons (State.Equiv.refl _) h2 (.nil (State.Equiv.refl _)))
    · simp only [h1, h2, if_true, if_false, List.append_nil]
      exact .cons (State.Equiv.refl _) h1
        (.nil (rolledBack_equiv env hwf hff _ hst1 y hy h2))
  · have e1 := rolledBack_equiv env hwf hff st hst x hx h1
    by_cases h2 : (handle env (handle env st x).state y).status = 200
    · simp only [h1, h2, if_true, if_false, List.nil_append]
      exact .cons e1 h2 (.nil (State.Equiv.refl _))
    · simp only [h1, h2, if_false, List.append_nil]
      exact .nil (e1.trans (rolledBack_equiv env hwf hff _ hst1 y hy h2))

/-- One push alone (the other one was answered 226 and touched nothing). -/
theorem serial_one (env : Env) (hwf : env.WF) (hff : env.RestoreFaultFree)
    (st : State) (hst : st.WF env) (y : Req) (hy : y.WF) :
    SerialFrom env st (if (handle env st y).status = 200 then [y] else []) (handle env st y).state := by
  by_cases h : (handle env st y).status = 200
  · simp only [h, if_true]
    exact .cons (State.Equiv.refl _) h (.nil (State.Equiv.refl _))
  · simp only [h, if_false]
    exact .nil (rolledBack_equiv env hwf hff st hst y hy h)

theorem two_pushes_aux (env : Env) (hwf : env.WF) (hff : env.RestoreFaultFree)
    (st : State) (hst : st.WF env) (a b : Req) (ha : a.WF) (hb : b.WF) (sched : Sched) :
    SerialFrom env st (acceptedInOrder a b (runTwo env st a b sched) sched) (runTwo env st a b sched).final := by
  cases sched with
  | aThenB => exact serial_two env hwf hff st hst a b ha hb
  | bThenA =>
    exact serial_two env hwf hff st hst b a hb ha
  | aDuringB =>
    exact serial_one env hwf hff st hst b hb
  | bDuringA =>
    exact serial_one env hwf hff st hst a ha

end LunarVerif.C08

namespace LunarVerif.C08

/-! ### The registry of managed endpoints -/

/-- Every scheduled job carries a serial that is not ahead of the request counter. -/
def Registry.WF (r : Registry) : Prop := ∀ job ∈ r.pending, job.2 ≤ r.serial

theorem Registry.fire_ser (r : Registry) (job : List Path × Nat) : (r.fire job).ser = r.ser := rfl
theorem Registry.fire_serOf (r : Registry) (job : List Path × Nat) (e : Path) :
    (r.fire job).serOf e = r.serOf e := rfl

theorem Registry.foldl_fire_serOf (jobs : List (List Path × Nat)) (r : Registry) (e : Path) :
    (jobs.foldl Registry.fire r).serOf e = r.serOf e := by
  induction jobs generalizing r with
  | nil => rfl
  | cons j rest ih => simp only [List.foldl_cons]; rw [ih, Registry.fire_serOf]

/-- An endpoint survives the firing of a list of jobs if each job that names it is older than its serial. -/
theorem Registry.survives (jobs : List (List Path × Nat)) (r : Registry) (e : Path)
    (hm : e ∈ r.managed)
    (hj : ∀ job ∈ jobs, job.1.contains e = true → job.2 < r.serOf e) :
    e ∈ (jobs.foldl Registry.fire r).managed := by
  induction jobs generalizing r with
  | nil => exact hm
  | cons j rest ih =>
    simp only [List.foldl_cons]
    apply ih
    · unfold Registry.fire
      simp only [List.mem_filter, hm, true_and, Bool.not_eq_true', Bool.and_eq_false_iff,
        decide_eq_false_iff_not, Nat.not_le]
      by_cases hc : j.1.contains e = true
      · right; exact hj j List.mem_cons_self hc
      · left; simpa using hc
    · intro job hjob hc
      rw [Registry.fire_serOf]
      exact hj job (List.mem_cons_of_mem _ hjob) hc

theorem Registry.serOf_manage (r : Registry) (eps : List Path) (e : Path) (he : e ∈ eps) :
    (r.manage eps).serOf e = r.serial + 1 := by
  unfold Registry.serOf Registry.manage
  simp only
  induction eps with
  | nil => cases he
  | cons x rest ih =>
    simp only [List.map_cons, List.cons_append, List.find?_cons]
    by_cases hx : x = e
    · simp [hx]
    · simp only [hx, decide_false]
      rcases List.mem_cons.mp he with h | h
      · exact absurd h.symm hx
      · exact ih h

theorem Registry.mem_manage (r : Registry) (eps : List Path) (e : Path) (he : e ∈ eps) :
    e ∈ (r.manage eps).managed := by
  unfold Registry.manage
  simp [he]

theorem Registry.manage_wf (r : Registry) (h : r.WF) (eps : List Path) : (r.manage eps).WF := by
  intro job hj
  have := h job hj
  show job.2 ≤ r.serial + 1
  omega

theorem Registry.schedule_wf (r : Registry) (h : r.WF) (prev new : List Path) : (r.schedule prev new).WF := by
  unfold Registry.schedule
  simp only
  split
  · exact h
  · intro job hj
    simp only [List.mem_append, List.mem_singleton] at hj
    rcases hj with hj | hj
    · exact h job hj
    · subst hj; exact Nat.le_refl _

/-- What a switch schedules never names an endpoint of the engine it switches to. -/
theorem Registry.switch_pending (r : Registry) (prev new : List Path) (job : List Path × Nat)
    (hj : job ∈ (r.switch prev new).pending) :
    job ∈ r.pending ∨ (∀ e ∈ new, job.1.contains e = false) := by
  unfold Registry.switch Registry.schedule at hj
  simp only at hj
  split at hj
  · left; exact hj
  · simp only [List.mem_append, List.mem_singleton] at hj
    rcases hj with hj | hj
    · left; exact hj
    · right
      intro e he
      subst hj
      simp only [List.contains_eq_mem, List.mem_filter, decide_eq_false_iff_not, not_and,
        Bool.not_eq_true', decide_eq_false_iff_not, Decidable.not_not]
      intro _
      simpa using he

/-- The serial discipline: after a switch to an engine with endpoints `new`, once the un-manage delay has
    elapsed every endpoint of `new` is still managed — whatever older switches had scheduled. -/
theorem Registry.switch_then_tick (r : Registry) (h : r.WF) (prev new : List Path) (e : Path) (he : e ∈ new) :
    e ∈ ((r.switch prev new).tick).managed := by
  unfold Registry.tick
  simp only
  apply Registry.survives
  · unfold Registry.switch Registry.schedule
    simp only
    split <;> exact Registry.mem_manage r new e he
  · intro job hjob hc
    have hser : (r.switch prev new).serOf e = r.serial + 1 := by
      unfold Registry.switch Registry.schedule
      simp only
      split <;> exact Registry.serOf_manage r new e he
    rw [hser]
    rcases Registry.switch_pending r prev new job hjob with hold | hnew
    · have := h job hold; omega
    · rw [hnew e he] at hc; cases hc

theorem Registry.switch_wf (r : Registry) (h : r.WF) (prev new : List Path) : (r.switch prev new).WF :=
  Registry.schedule_wf _ (Registry.manage_wf r h new) prev new

end LunarVerif.C08
