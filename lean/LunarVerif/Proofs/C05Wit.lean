import LunarVerif.Proofs.C05Txn
/-!
C05, part 3: cycles give unbounded paths; concrete witnesses for F05a / F05b; the builder's fuel on
reference-free connection lists.
-/
namespace LunarVerif.C05
open LunarVerif.FlowGraph LunarVerif.FlowExec

/-- `Except` has no `DecidableEq`: decide the verdict through a Boolean -/
def vOk (d : Dir) (g : DirGraph) : Bool :=
  match validateDirection d g with
  | .ok _ => true
  | .error _ => false

theorem vOk_ok {d : Dir} {g : DirGraph} (h : vOk d g = true) : validateDirection d g = .ok () := by
  unfold vOk at h
  split at h
  · rename_i u hu
    cases u
    exact hu
  · exact absurd h (by simp)

/-! ### F05a witness -/

def wPA : PDef := ⟨"PA", [⟨"a", "any"⟩, ⟨"b", "any"⟩], []⟩
def wPE : PDef := ⟨"PE", [⟨"a", "any"⟩, ⟨"b", "any"⟩, ⟨"e", "res"⟩], []⟩
def wS : XEnd := .stream "globalStream" "start"
def wE : XEnd := .stream "globalStream" "end"

/-- `corpus/C05/F05a.ops` -/
def wCfgA : Cfg :=
  { pdefs := [wPA, wPE]
    flows := [{ name := "f1"
                procs := [⟨"G", "PE", []⟩, ⟨"B", "PA", []⟩, ⟨"C", "PA", []⟩, ⟨"R", "PA", []⟩]
                req := [⟨wS, .proc "G" ""⟩, ⟨.proc "G" "a", wE⟩]
                res := [⟨wS, .proc "R" ""⟩, ⟨.proc "R" "a", wE⟩, ⟨.proc "G" "e", .proc "B" ""⟩,
                        ⟨.proc "B" "a", .proc "C" ""⟩, ⟨.proc "C" "a", .proc "B" ""⟩] }] }

def wFlowA : Flow :=
  ⟨"f1",
   ⟨some "G", [⟨"G", [⟨"a", .stream "globalStream" "end"⟩]⟩]⟩,
   ⟨some "R", [⟨"R", [⟨"a", .stream "globalStream" "end"⟩]⟩, ⟨"G", [⟨"e", .node "B"⟩]⟩,
               ⟨"B", [⟨"a", .node "C"⟩]⟩, ⟨"C", [⟨"a", .node "B"⟩]⟩]⟩⟩

/-- `G` answers the request; every other processor always emits output `a` -/
def wOracleA : Oracle := fun _ k d => if k == "G" && d == .req then { name := "e", early := true } else { name := "a" }

def okLoad : LoadRes → Option (List Flow)
  | .accept fls => some fls
  | _ => none

theorem wCfgA_load : load wCfgA = .accept [wFlowA] := by decide

theorem wCfgA_f05a : f05a wCfgA = true := by
  unfold f05a
  rw [wCfgA_load]
  decide

/-- one level of a walk through a node with a single, followed, processor edge whose target loops -/
theorem walk_through (f : Flow) (o : Oracle) (d : Dir) (fuel : Nat) (k t : String) (n : Node)
    (hn : (f.dir d).find k = some n) (herr : (o f.name k d).err = false)
    (hearly : ((o f.name k d).early && d == .req) = false)
    (hedges : n.edges = [⟨(o f.name k d).name, .node t⟩])
    (ht : (walk f o d fuel t).err = some .fuel) : (walk f o d (fuel + 1) k).err = some .fuel := by
  unfold walk
  simp only [hn, herr, hearly, hedges, Bool.false_eq_true, if_false, walkEdges, beq_self_eq_true, if_true, ht,
    Option.isSome_some]

theorem wFlowA_BC : ∀ fuel, (walk wFlowA wOracleA .res fuel "B").err = some .fuel ∧
    (walk wFlowA wOracleA .res fuel "C").err = some .fuel
  | 0 => by simp [walk]
  | fuel + 1 => by
    have ih := wFlowA_BC fuel
    exact ⟨walk_through wFlowA wOracleA .res fuel "B" "C" ⟨"B", [⟨"a", .node "C"⟩]⟩ (by decide) (by decide)
             (by decide) (by decide) ih.2,
           walk_through wFlowA wOracleA .res fuel "C" "B" ⟨"C", [⟨"a", .node "B"⟩]⟩ (by decide) (by decide)
             (by decide) (by decide) ih.1⟩

/-- `executeFlow` started from a short-circuit node whose first edge leads to the processor `t` -/
theorem executeFlow_sc (f : Flow) (o : Oracle) (d : Dir) (fuel : Nat) (k t : String) (n : Node) (c : String)
    (rest : List Edge) (hdef : (f.dir d).isDefined = true) (hn : (f.dir d).find k = some n)
    (hedges : n.edges = ⟨c, .node t⟩ :: rest) :
    (executeFlow f o d fuel (some k)).err = (walk f o d fuel t).err := by
  unfold executeFlow
  simp only [hdef, Bool.not_true, Bool.false_eq_true, if_false, Option.bind_some, hn, hedges]

theorem wFlowA_loops : ∀ fuel, (executeFlow wFlowA wOracleA .res fuel (some "G")).err = some .fuel := by
  intro fuel
  rw [executeFlow_sc wFlowA wOracleA .res fuel "G" "B" ⟨"G", [⟨"e", .node "B"⟩]⟩ "e" [] (by decide) (by decide)
    (by decide)]
  exact (wFlowA_BC fuel).1


theorem wReqA (n : Nat) : executeFlow wFlowA wOracleA .req (n + 1) none =
    { trace := [.enter "f1" .req, .exec "f1" "G" .req { name := "e", early := true }], sc := some "G", err := none } := by
  rfl

theorem wTxnA_loops : ∀ fuel, (transaction (selected [wFlowA]) wOracleA fuel .req).err = some .fuel := by
  intro fuel
  cases fuel with
  | zero => decide
  | succ n =>
    have h := wFlowA_loops (n + 1)
    simp only [transaction, executeReq, selected, runAll, runUserReq, wReqA, executeRes, runUserRes,
      List.reverse_cons, List.reverse_nil, List.nil_append, startFor, show wFlowA.name = "f1" from rfl]
    simp [h]

/-! ### the builder's fuel on reference-free connection lists -/

theorem buildX_refFree_noFuel (pts : List PType) (fs : List XFlow) (home : String) (d : Dir) :
    ∀ (cs : List XConn), cs.all (·.base?.isSome) = true → ∀ (cur : String) (s : BS) (fuel : Nat),
      cs.length ≤ fuel → buildX pts fs home d fuel cur s cs ≠ .error .fuel
  | [], _, _, _, _, _ => by simp [buildX]
  | c :: cs, hfree, cur, s, fuel, hf => by
    simp only [List.all_cons, Bool.and_eq_true] at hfree
    obtain ⟨fuel', rfl⟩ : ∃ fuel', fuel = fuel' + 1 := ⟨fuel - 1, by simp only [List.length_cons] at hf; omega⟩
    have ih := fun s' => buildX_refFree_noFuel pts fs home d cs hfree.2 cur s' fuel'
      (by simp only [List.length_cons] at hf; omega)
    obtain ⟨src, dst⟩ := c
    have hc := hfree.1
    unfold buildX
    cases src <;> cases dst <;> simp [XConn.base?, XEnd.base?] at hc <;> simp only []
    all_goals
      split
      · intro h; cases h
      · first
        | exact ih _
        | (split
           · rename_i e heq
             intro h
             cases h
             (repeat' (split at heq)) <;> simp at heq
           · exact ih _)


/-! ### F05b witness -/

def wFa : XFlow :=
  { name := "fa", procs := [⟨"A", "PA", []⟩]
    req := [⟨wS, .proc "A" ""⟩, ⟨.proc "A" "a", .flow "fb" "start"⟩], res := [⟨wS, wE⟩] }

def wFb : XFlow :=
  { name := "fb", procs := [⟨"B", "PA", []⟩]
    req := [⟨wS, .proc "B" ""⟩, ⟨.proc "B" "a", .flow "fa" "start"⟩], res := [⟨wS, wE⟩] }

/-- `corpus/C05/F05b.ops` -/
def wCfgB : Cfg := { pdefs := [wPA], flows := [wFa, wFb] }

theorem getOrCreateX_some (fs : List XFlow) (cur : String) (s : BS) (k : String)
    (h : (procsOf fs cur).any (·.1 == k) = true) : ∃ s', getOrCreateX fs cur s k = some s' := by
  unfold getOrCreateX
  cases s.g.find k <;> simp [h]

/-- a flow of the shape `start → k`, `k -a-> flow tgt start` cannot be built with `fuel` if `tgt` cannot be
    built with any smaller fuel -/
theorem loop_shape (pts : List PType) (fs : List XFlow) (home cur k tgt : String) (tf : XFlow) (fuel : Nat)
    (hk : (procsOf fs cur).any (·.1 == k) = true)
    (hcond : validateCondition pts (procsOf fs cur) .req k "a" = true)
    (hflow : findFlow fs tgt = some tf)
    (hrec : ∀ f', f' < fuel → ∀ s', buildX pts fs home .req f' tgt s' (tf.conns .req) = .error .fuel) (s : BS) :
    buildX pts fs home .req fuel cur s
      [⟨.stream "globalStream" "start", .proc k ""⟩, ⟨.proc k "a", .flow tgt "start"⟩] = .error .fuel := by
  cases fuel with
  | zero => rfl
  | succ f1 =>
    obtain ⟨s1, hs1⟩ := getOrCreateX_some fs cur s k hk
    unfold buildX
    simp only [Bool.not_true, Bool.false_eq_true, if_false, beq_self_eq_true, if_true, hs1]
    have hnext : ∀ s2, buildX pts fs home .req f1 cur s2 [⟨.proc k "a", .flow tgt "start"⟩] = .error .fuel := by
      intro s2
      cases f1 with
      | zero => rfl
      | succ f2 =>
        obtain ⟨s3, hs3⟩ := getOrCreateX_some fs cur s2 k hk
        unfold buildX
        simp only [hcond, Bool.not_true, Bool.false_eq_true, if_false, beq_self_eq_true, if_true, hs3, hflow,
          hrec f2 (by omega) s3]
    by_cases ho : (s1.ownerOf k == home) = true
    · simp only [ho, if_true, hnext]
    · simp only [ho, Bool.false_eq_true, if_false, hnext]

theorem wB_loops : ∀ (fuel : Nat) (home : String) (s : BS),
    buildX wCfgB.ptypes wCfgB.flows home .req fuel "fa" s wFa.req = .error .fuel ∧
    buildX wCfgB.ptypes wCfgB.flows home .req fuel "fb" s wFb.req = .error .fuel := by
  intro fuel
  induction fuel using Nat.strongRecOn with
  | ind fuel ih =>
    intro home s
    exact ⟨loop_shape _ _ home "fa" "A" "fb" wFb fuel (by decide) (by decide) (by decide)
             (fun f' hf' s' => (ih f' hf' home s').2) s,
           loop_shape _ _ home "fb" "B" "fa" wFa fuel (by decide) (by decide) (by decide)
             (fun f' hf' s' => (ih f' hf' home s').1) s⟩

theorem wCfgB_load : load wCfgB = .crash := by
  have h1 : buildFlowX wCfgB.ptypes wCfgB.flows wFa none = .error .fuel := by
    unfold buildFlowX
    rw [show wFa.name = "fa" from rfl, (wB_loops buildFuel "fa" _).1]
  have h2 : buildAll wCfgB.ptypes wCfgB.flows wCfgB.flows none = .error .fuel := by
    show buildAll wCfgB.ptypes wCfgB.flows (wFa :: [wFb]) none = .error .fuel
    unfold buildAll buildOne
    rw [show wFa.refFree = false by decide]
    simp only [Bool.false_eq_true, if_false, h1]
  unfold load
  rw [show quotaCheck wCfgB.qfiles = .ok [] by decide]
  simp only [show wCfgB.flows.all flowYamlOk = true by decide,
    show nodupKeys (wCfgB.flows.map (·.name)) = true by decide,
    show (([] : List String) ++ wCfgB.flows.map fun f => f.url.getD "").all urlOk = true by decide,
    show firstSome (fun f => firstSome (procCreate wCfgB) f.procs) wCfgB.flows = none by decide, h2,
    Bool.not_true, Bool.false_eq_true, if_false]

/-! ### a plain accepted configuration (non-vacuity) -/

def wCfgOk : Cfg :=
  { pdefs := [wPA]
    flows := [{ name := "f1"
                procs := [⟨"A", "PA", []⟩, ⟨"B", "PA", []⟩, ⟨"C", "PA", []⟩]
                req := [⟨wS, .proc "A" ""⟩, ⟨.proc "A" "a", .proc "B" ""⟩, ⟨.proc "A" "a", .proc "C" ""⟩,
                        ⟨.proc "B" "a", wE⟩, ⟨.proc "C" "a", wE⟩]
                res := [⟨wS, wE⟩] }] }

end LunarVerif.C05
