import LunarVerif.Proofs.C05Build
/-!
C05, part 3: concrete configurations — the former witnesses of F05a / F05b / F05c (now regression examples:
the loader REFUSES them) and plain accepted configurations for non-vacuity.
-/
namespace LunarVerif.C05
open LunarVerif.FlowGraph LunarVerif.FlowExec

/-- `Except` has no `DecidableEq`: decide the verdict through a Boolean -/
def vOk (d : Dir) (g : DirGraph) : Bool :=
  match validateDirection d g with
  | .ok _ => true
  | .error _ => false

theorem vOk_ok {d : Dir} {g : DirGraph} (h : vOk d g = true) : validateDirection d g = .ok () := by
  unfold vOk at h
  split at h
  · rename_i u hu
    cases u
    exact hu
  · exact absurd h (by simp)

def wPA : PDef := ⟨"PA", [⟨"a", "any"⟩, ⟨"b", "any"⟩], []⟩
def wPE : PDef := ⟨"PE", [⟨"a", "any"⟩, ⟨"b", "any"⟩, ⟨"e", "res"⟩], []⟩
def wS : XEnd := .stream "globalStream" "start"
def wE : XEnd := .stream "globalStream" "end"

/-- `corpus/C05/regress-F05a.ops`: response `start → R → end`, cycle `B ⇄ C` reachable only from the
    answering node `G` -/
def wCfgA : Cfg :=
  { pdefs := [wPA, wPE]
    flows := [{ name := "f1"
                procs := [⟨"G", "PE", []⟩, ⟨"B", "PA", []⟩, ⟨"C", "PA", []⟩, ⟨"R", "PA", []⟩]
                req := [⟨wS, .proc "G" ""⟩, ⟨.proc "G" "a", wE⟩]
                res := [⟨wS, .proc "R" ""⟩, ⟨.proc "R" "a", wE⟩, ⟨.proc "G" "e", .proc "B" ""⟩,
                        ⟨.proc "B" "a", .proc "C" ""⟩, ⟨.proc "C" "a", .proc "B" ""⟩] }] }

/-- the same continuation without the cycle (`G → B → C → end`), in a response direction WITHOUT stream entry -/
def wCfgA' : Cfg :=
  { pdefs := [wPA, wPE]
    flows := [{ name := "f1"
                procs := [⟨"G", "PE", []⟩, ⟨"B", "PA", []⟩, ⟨"C", "PA", []⟩]
                req := [⟨wS, .proc "G" ""⟩, ⟨.proc "G" "a", wE⟩]
                res := [⟨.proc "G" "e", .proc "B" ""⟩, ⟨.proc "B" "a", .proc "C" ""⟩, ⟨.proc "C" "a", wE⟩] }] }

/-- `G` answers the request; every other processor always emits output `a` -/
def wOracleA : Oracle := fun _ k d => if k == "G" && d == .req then { name := "e", early := true } else { name := "a" }

def wFa : XFlow :=
  { name := "fa", procs := [⟨"A", "PA", []⟩]
    req := [⟨wS, .proc "A" ""⟩, ⟨.proc "A" "a", .flow "fb" "start"⟩], res := [⟨wS, wE⟩] }

def wFb : XFlow :=
  { name := "fb", procs := [⟨"B", "PA", []⟩]
    req := [⟨wS, .proc "B" ""⟩, ⟨.proc "B" "a", .flow "fa" "start"⟩], res := [⟨wS, wE⟩] }

/-- `corpus/C05/regress-F05b.ops`: `fa ⇄ fb` -/
def wCfgB : Cfg := { pdefs := [wPA], flows := [wFa, wFb] }

/-- a diamond of references `fa → fc`, `fb → fc` on the response side (the same flow incorporated twice) -/
def wCfgDiamond : Cfg :=
  { pdefs := [wPA]
    flows := [{ name := "fa", procs := [⟨"A", "PA", []⟩], req := [⟨wS, wE⟩]
                res := [⟨wS, .proc "A" ""⟩, ⟨.proc "A" "a", .flow "fc" "start"⟩] },
              { name := "fb", procs := [⟨"B", "PA", []⟩], req := [⟨wS, wE⟩]
                res := [⟨wS, .proc "B" ""⟩, ⟨.proc "B" "a", .flow "fc" "start"⟩] },
              { name := "fc", procs := [⟨"C", "PA", []⟩], req := [⟨wS, wE⟩]
                res := [⟨wS, .proc "C" ""⟩, ⟨.proc "C" "a", wE⟩] }] }

def wRef (name key tgt : String) : XFlow :=
  { name := name, procs := [⟨key, "PA", []⟩], req := [⟨wS, wE⟩]
    res := [⟨wS, .proc key ""⟩, ⟨.proc key "a", .flow tgt "start"⟩] }

def wRhoEntry : XFlow := wRef "Entry" "E" "LoopA"

/-- `corpus/C05/regress-refcycle-rho.ops`: `Entry → LoopA → LoopB → LoopA` -/
def wCfgRho : Cfg := { pdefs := [wPA], flows := [wRhoEntry, wRef "LoopA" "A" "LoopB", wRef "LoopB" "B" "LoopA"] }

/-- `corpus/C05/regress-F05c.ops`: a null entry among the internal limits -/
def wCfgC : Cfg :=
  { qfiles := [{ quotas := [{ id := "q1", url := some "verif.test/*", strat := { kind := "conc", maxreq := some 5 } }],
                 internals := [{ null := true }] }] }

/-- a plain accepted configuration: `A → {B, C}` -/
def wCfgOk : Cfg :=
  { pdefs := [wPA]
    flows := [{ name := "f1"
                procs := [⟨"A", "PA", []⟩, ⟨"B", "PA", []⟩, ⟨"C", "PA", []⟩]
                req := [⟨wS, .proc "A" ""⟩, ⟨.proc "A" "a", .proc "B" ""⟩, ⟨.proc "A" "a", .proc "C" ""⟩,
                        ⟨.proc "B" "a", wE⟩, ⟨.proc "C" "a", wE⟩]
                res := [⟨wS, wE⟩] }] }

/-- `corpus/C05/regress-F05e.ops`: `G` answers the request; the flow's filter has `status_code: [429, 500]` -/
def wCfgStatus : Cfg :=
  { pdefs := [wPA, wPE]
    flows := [{ name := "f1", status := [429, 500]
                procs := [⟨"G", "PE", []⟩, ⟨"P", "PA", []⟩]
                req := [⟨wS, .proc "G" ""⟩, ⟨.proc "G" "a", wE⟩]
                res := [⟨wS, .proc "P" ""⟩, ⟨.proc "G" "e", .proc "P" ""⟩, ⟨.proc "P" "a", wE⟩] }] }

def isAccept : LoadRes → Bool
  | .accept _ => true
  | _ => false

end LunarVerif.C05
