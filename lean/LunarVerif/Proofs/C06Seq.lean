import LunarVerif.Proofs.C06Ops
/-!
Helper lemmas for C06, part 7: the schedule of a driver run that uses neither the gate after the
slot test (`arriveBegin`) nor shutdown has non-overlapping arrivals (`SeqArr`), so the size bound
theorem applies to it.
-/
namespace LunarVerif.C06

theorem SeqArr_append (cfg : Cfg) (a b : List Act) (s : St) (ha : SeqArr cfg s a) (hb : SeqArr cfg (run cfg s a) b) :
    SeqArr cfg s (a ++ b) := by
  induction a generalizing s with
  | nil => exact hb
  | cons x xs ih => exact ⟨ha.1, ih (step cfg s x) ha.2 hb⟩

def isArrive : Act → Bool
  | .arrive _ => true
  | _ => false

theorem SeqArr_noArrive (cfg : Cfg) (acts : List Act) (s : St) (h : ∀ a ∈ acts, isArrive a = false) :
    SeqArr cfg s acts := by
  induction acts generalizing s with
  | nil => trivial
  | cons x xs ih =>
    refine ⟨fun ⟨p, e⟩ => ?_, ih _ (fun a ha => h a (List.mem_cons_of_mem _ ha))⟩
    have := h x List.mem_cons_self
    rw [e] at this; cases this

/-- A step other than `arrive` never puts a request between slot test and registration. -/
theorem pc_step (cfg : Cfg) (s : St) (a : Act) (ha : isArrive a = false) (j : Nat) :
    ((step cfg s a).reqs j).pc = (s.reqs j).pc ∨ ((step cfg s a).reqs j).pc ≠ .checked := by
  unfold step
  split
  · exact Or.inl rfl
  · cases a with
    | arrive p => cases ha
    | advance d => exact Or.inl rfl
    | register i =>
      simp only [stepCore]
      unfold stepRegister; split <;> simp only [St.upd] <;> (try split) <;> simp_all
    | push i =>
      simp only [stepCore]
      unfold stepPush; split <;> simp only [St.upd, St.emit] <;> (try split) <;> simp_all
    | wake i =>
      simp only [stepCore]
      unfold stepWake; split <;> simp only [St.upd, St.emit] <;> (try split) <;> simp_all
    | unwatch i =>
      simp only [stepCore]
      unfold stepUnwatch; split <;> simp only [St.upd, St.emit] <;> (try split) <;> simp_all
    | heapRemove i =>
      simp only [stepCore]
      unfold stepHeapRemove; split <;> simp only [St.upd] <;> (try split) <;> simp_all
    | loopFire =>
      simp only [stepCore]
      unfold stepLoopFire; split <;> (try split) <;> exact Or.inl rfl
    | wScan =>
      simp only [stepCore]
      unfold stepScan; split <;> exact Or.inl rfl
    | cancel =>
      simp only [stepCore]
      unfold stepCancel; split <;> exact Or.inl rfl
    | loopStep k =>
      simp only [stepCore]
      unfold stepLoop
      split
      · exact Or.inl rfl
      · exact Or.inl rfl
      · split <;> exact Or.inl rfl
      · split
        · left; simp only [St.upd]; split <;> simp_all
        · exact Or.inl rfl
      · left; simp only [St.upd, St.emit]; split <;> simp_all
      · exact Or.inl rfl
      · left; simp only [St.upd]; split <;> simp_all
      · left; exact (signal_frame s _ .success).2.2.1 j
      · split
        · split <;> exact Or.inl rfl
        · left; exact (signal_frame s _ .timeout).2.2.1 j
    | wStep k =>
      simp only [stepCore]
      unfold stepWatcher
      split
      · exact Or.inl rfl
      · split
        · split <;> exact Or.inl rfl
        · split
          · left; simp only [St.upd]; split <;> simp_all
          · exact Or.inl rfl
      · left; exact (signal_frame s _ .timeout).2.2.1 j

theorem noneChecked_step (cfg : Cfg) (s : St) (a : Act) (ha : isArrive a = false) (h : noneChecked s) :
    noneChecked (step cfg s a) := by
  intro j
  rcases pc_step cfg s a ha j with e | e
  · rw [e]; exact h j
  · exact e

theorem noneChecked_run (cfg : Cfg) (acts : List Act) (s : St) (ha : ∀ a ∈ acts, isArrive a = false)
    (h : noneChecked s) : noneChecked (run cfg s acts) := by
  induction acts generalizing s with
  | nil => exact h
  | cons x xs ih =>
    exact ih (step cfg s x) (fun a m => ha a (List.mem_cons_of_mem _ m))
      (noneChecked_step cfg s x (ha x List.mem_cons_self) h)

theorem mem_settle (hold : Bool) (n : Nat) (a : Act) (h : a ∈ settleActs hold n) : isArrive a = false := by
  unfold settleActs at h
  rcases List.mem_flatMap.1 h with ⟨i, _, hi⟩
  split at hi
  · simp at hi; subst hi; rfl
  · simp at hi; rcases hi with e | e | e <;> (subst e; rfl)

theorem mem_repeat (acts : List Act) (a : Act) : ∀ k, a ∈ repeatActs acts k → a ∈ acts
  | 0, h => by simp [repeatActs] at h
  | k + 1, h => by
    unfold repeatActs at h
    rcases List.mem_append.1 h with e | e
    · exact e
    · exact mem_repeat acts a k e

theorem mem_loopUntilGate (cfg : Cfg) (hold : Bool) (a : Act) :
    ∀ (fuel : Nat) (s : St), a ∈ loopUntilGate cfg hold fuel s → isArrive a = false
  | 0, _, h => by simp [loopUntilGate] at h
  | fuel + 1, s, h => by
    unfold loopUntilGate at h
    split at h <;> try simp at h
    rcases h with e | e | e
    · subst e; rfl
    · exact mem_settle hold s.n a e
    · exact mem_loopUntilGate cfg hold a fuel _ e

theorem opActs_noArrive (cfg : Cfg) (x : Sim) (op : Op) (h1 : ∀ p, op ≠ .arrive p) (h2 : ∀ p, op ≠ .arriveBegin p) :
    ∀ a ∈ opActs cfg x op, isArrive a = false := by
  have hs := mem_settle x.hold x.s.n
  intro a ha
  cases op with
  | arrive p => exact absurd rfl (h1 p)
  | arriveBegin p => exact absurd rfl (h2 p)
  | arriveEnd i => simp [opActs] at ha; rcases ha with e | e <;> subst e <;> rfl
  | tick =>
    simp only [opActs, List.mem_append, List.mem_cons, List.mem_nil_iff, or_false] at ha
    rcases ha with ((( e | e) | e) | e) | e
    · subst e; rfl
    · subst e; rfl
    · have := mem_repeat _ a _ e
      rcases List.mem_cons.1 this with e' | e'
      · subst e'; rfl
      · exact hs a e'
    · subst e; rfl
    · have := mem_repeat _ a _ e
      rcases List.mem_cons.1 this with e' | e'
      · subst e'; rfl
      · exact hs a e'
  | holdRemove => simp [opActs] at ha
  | flushRemove => exact mem_settle false x.s.n a ha
  | drain =>
    simp only [opActs, List.mem_append, List.mem_cons, List.mem_nil_iff, or_false] at ha
    rcases ha with ((e | e) | e) | e
    · subst e; rfl
    · subst e; rfl
    · have := mem_repeat _ a _ e
      rcases List.mem_cons.1 this with e' | e'
      · subst e'; rfl
      · exact hs a e'
    · exact hs a e
  | idle =>
    simp only [opActs, List.mem_cons] at ha
    rcases ha with e | e
    · subst e; rfl
    · have := mem_repeat _ a _ e
      rcases List.mem_cons.1 this with e' | e'
      · subst e'; rfl
      · exact hs a e'
  | tickHold =>
    simp only [opActs, tickPrefix, List.mem_append, List.mem_cons, List.mem_nil_iff, or_false] at ha
    rcases ha with (((e | e) | e) | e) | e
    · subst e; rfl
    · subst e; rfl
    · have := mem_repeat _ a _ e
      rcases List.mem_cons.1 this with e' | e'
      · subst e'; rfl
      · exact hs a e'
    · subst e; rfl
    · exact mem_loopUntilGate cfg _ a _ _ e
  | tickRelease =>
    have := mem_repeat _ a _ ha
    rcases List.mem_cons.1 this with e' | e'
    · subst e'; rfl
    · exact hs a e'

/-- One whole `arrive` macro-operation started with nobody between slot test and registration. -/
theorem arrive_op (cfg : Cfg) (s : St) (p : Nat) (hA : InvA s) (hc : noneChecked s) :
    SeqArr cfg s [.arrive p, .register s.n, .push s.n] ∧
    noneChecked (run cfg s [.arrive p, .register s.n, .push s.n]) := by
  refine ⟨⟨fun _ => hc, fun ⟨_, e⟩ => (by cases e), fun ⟨_, e⟩ => (by cases e), trivial⟩, ?_⟩
  have hnd : isDraining s.loop = false := by
    cases hl : s.loop <;> simp [isDraining]
    exact absurd hl (hA.lp.2 _)
  have h1 : noneChecked (run cfg s [.arrive p, .register s.n]) := by
    intro j
    simp only [run, List.foldl, step, hA.np, Bool.false_eq_true, if_false, stepCore]
    unfold stepArrive
    split
    · simp only [St.emit, step, Bool.false_eq_true, if_false, hA.np, stepCore, stepRegister, if_true, hnd, and_self, St.upd]
      by_cases e : j = s.n
      · simp [e]
      · simp only [e, if_false]; exact hc j
    · simp only [St.emit, step, Bool.false_eq_true, if_false, hA.np, stepCore, stepRegister, if_true, hnd, St.upd]
      by_cases e : j = s.n
      · simp [e]
      · simp [e]; exact hc j
  have : run cfg s [.arrive p, .register s.n, .push s.n] = step cfg (run cfg s [.arrive p, .register s.n]) (.push s.n) := rfl
  rw [this]
  exact noneChecked_step cfg _ _ rfl h1

def isArriveBegin : Op → Bool
  | .arriveBegin _ => true
  | _ => false

theorem seqArr_schedule (cfg : Cfg) (ops : List Op) (x : Sim) (hb : ∀ op ∈ ops, isArriveBegin op = false)
    (hd : Op.drain ∉ ops) (hA : InvA x.s) (hc : noneChecked x.s) : SeqArr cfg x.s (schedule cfg x ops) := by
  induction ops generalizing x with
  | nil => trivial
  | cons op rest ih =>
    unfold schedule
    have hop : op ≠ .drain := fun e => hd (by simp [e])
    have hnb : ∀ p, op ≠ .arriveBegin p := fun p e => by have := hb op List.mem_cons_self; rw [e] at this; cases this
    have hA' : InvA (applyOp cfg x op).s := by
      rw [applyOp_s]; exact invA_run cfg _ _ (opActs_noCancel cfg x op hop) hA
    have key : SeqArr cfg x.s (opActs cfg x op) ∧ noneChecked (run cfg x.s (opActs cfg x op)) := by
      by_cases ha : ∃ p, op = .arrive p
      · obtain ⟨p, e⟩ := ha; subst e
        exact arrive_op cfg x.s p hA hc
      · have hna := opActs_noArrive cfg x op (fun p e => ha ⟨p, e⟩) hnb
        exact ⟨SeqArr_noArrive cfg _ _ hna, noneChecked_run cfg _ _ hna hc⟩
    refine SeqArr_append cfg _ _ _ key.1 ?_
    rw [← applyOp_s cfg x op]
    exact ih (applyOp cfg x op) (fun o ho => hb o (List.mem_cons_of_mem _ ho)) (fun e => hd (List.mem_cons_of_mem _ e)) hA'
      (by rw [applyOp_s]; exact key.2)

end LunarVerif.C06
