import LunarVerif.Spec.C11Glue
import LunarVerif.Proofs.C11
/-! Helper lemmas for the handler-glue level of C11. -/
namespace LunarVerif.C11

/-- Accessor part of the invariant between the glue state and the glue history (most recent first). -/
structure AInv (cfg : Cfg) (a : St) (h : List GEv) : Prop where
  cur : mfind a.cur a.versions = some (gCur cfg.d0 h)
  verLe : ∀ v d, mfind v a.versions = some d → v ≤ a.cur
  pinned : ∀ id k, gPinned cfg.d0 h id = some k →
    ∃ v, mfind id a.pins = some v ∧ mfind v a.versions = some k
  pinSeen : ∀ id v, mfind id a.pins = some v → ∃ k, gPinned cfg.d0 h id = some k

structure GInv (cfg : Cfg) (g : GSt) (h : List GEv) : Prop where
  acc : AInv cfg g.acc h
  retry : g.retry = gRetry cfg.d0 h
  pend : ∀ id ∈ g.pending, ∃ k, gPinned cfg.d0 h id = some k

theorem ginv_init (cfg : Cfg) (t0 : Nat) : GInv cfg (ginit cfg t0) [] := by
  refine ⟨⟨?_, ?_, ?_, ?_⟩, rfl, ?_⟩ <;> simp [ginit, init, mfind, gCur, gPinned]

theorem gPinned_cons (d0 : Nat) (e : GEv) (h : List GEv) (id : Nat) :
    gPinned d0 (e :: h) id = match gPinned d0 h id with
      | some k => some k
      | none => if mentions id e then some (gCur d0 h) else none := rfl

theorem gPinned_self (d0 : Nat) (e : GEv) (h : List GEv) (id : Nat) (hm : mentions id e = true) :
    gPinned d0 (e :: h) id = some (gLabel d0 h id) := by
  rw [gPinned_cons, gLabel]
  cases gPinned d0 h id <;> simp [hm]

/-- `GetTxnPoliciesData(id)` answers with the policies in force when `id` was first seen, and
    afterwards `id` is pinned to them. -/
theorem lookup_ainv (cfg : Cfg) (a : St) (h : List GEv) (hA : AInv cfg a h) (id : Nat) (e : GEv)
    (hm : ∀ id', mentions id' e = (id == id')) (hcur : gCur cfg.d0 (e :: h) = gCur cfg.d0 h) :
    (lookupLabel cfg a id).2 = some (gLabel cfg.d0 h id) ∧ AInv cfg (lookupLabel cfg a id).1 (e :: h) := by
  obtain ⟨h1, h2, h3, h4⟩ := hA
  have hmid : mentions id e = true := by rw [hm]; simp
  have hmne : ∀ id', id' ≠ id → mentions id' e = false := by
    intro id' hne; rw [hm]; simp; exact fun e => hne e.symm
  cases hx : mfind id a.pins with
  | some v =>
    obtain ⟨k, hk⟩ := h4 id v hx
    obtain ⟨v', hv', hd⟩ := h3 id k hk
    rw [hx] at hv'; cases hv'
    have hl : lookupLabel cfg a id = (a, some k) := by
      simp only [lookupLabel, step_lookup_found cfg a id v hx, getData, hd]
    rw [hl]
    refine ⟨by simp [gLabel, hk], ⟨by rw [hcur]; exact h1, h2, ?_, ?_⟩⟩
    · intro id' k' hp
      rw [gPinned_cons] at hp
      cases hq : gPinned cfg.d0 h id' with
      | some k'' =>
        rw [hq] at hp
        have : k'' = k' := Option.some.inj hp
        subst this
        exact h3 id' _ hq
      | none =>
        rw [hq] at hp
        by_cases hid : id' = id
        · subst hid; rw [hk] at hq; cases hq
        · simp [hmne id' hid] at hp
    · intro id' v' hp
      obtain ⟨k', hk'⟩ := h4 id' v' hp
      exact ⟨k', by rw [gPinned_cons, hk']⟩
  | none =>
    have hnone : gPinned cfg.d0 h id = none := by
      cases hq : gPinned cfg.d0 h id with
      | none => rfl
      | some k => obtain ⟨v, hv, _⟩ := h3 id k hq; rw [hx] at hv; cases hv
    have hl : lookupLabel cfg a id =
        ({ a with pins := minsert id a.cur a.pins, pinQ := a.pinQ ++ [(a.now + cfg.pinTTL, id)] },
         some (gCur cfg.d0 h)) := by
      simp only [lookupLabel, step_lookup_fresh cfg a id hx, h1]
    rw [hl]
    refine ⟨by simp [gLabel, hnone], ⟨by rw [hcur]; exact h1, h2, ?_, ?_⟩⟩
    · intro id' k' hp
      rw [gPinned_cons] at hp
      by_cases hid : id' = id
      · subst hid
        rw [hnone] at hp
        simp only [hmid, if_true, Option.some.injEq] at hp
        subst hp
        exact ⟨a.cur, mfind_minsert_same _ _ _, h1⟩
      · cases hq : gPinned cfg.d0 h id' with
        | some k'' =>
          rw [hq] at hp
          have : k'' = k' := Option.some.inj hp
          subst this
          obtain ⟨v, hv, hd⟩ := h3 id' _ hq
          exact ⟨v, by show mfind id' (minsert id a.cur a.pins) = some v
                       rw [mfind_minsert_ne _ _ _ _ hid]; exact hv, hd⟩
        | none => rw [hq] at hp; simp [hmne id' hid] at hp
    · intro id' v' hp
      have hp' : mfind id' (minsert id a.cur a.pins) = some v' := hp
      rw [gPinned_cons]
      by_cases hid : id' = id
      · subst hid; rw [hnone]; simp [hmid]
      · rw [mfind_minsert_ne _ _ _ _ hid] at hp'
        obtain ⟨k', hk'⟩ := h4 id' v' hp'
        exact ⟨k', by rw [hk']⟩

/-- An applied update with data `k`, recorded in the history as `e` (a reload) or not at all. -/
theorem update_ainv (cfg : Cfg) (a : St) (h h' : List GEv) (hA : AInv cfg a h) (k : Nat)
    (hcur : gCur cfg.d0 h' = k) (hpin : ∀ id, gPinned cfg.d0 h' id = gPinned cfg.d0 h id) :
    AInv cfg (step cfg a (.update k true)).1 h' := by
  obtain ⟨h1, h2, h3, h4⟩ := hA
  have hold : ∀ v d', mfind v a.versions = some d' →
      mfind v (minsert (a.cur + 1) k a.versions) = some d' := by
    intro v d' hv
    have := h2 v d' hv
    rw [mfind_minsert_ne _ _ _ _ (by omega)]; exact hv
  refine ⟨?_, ?_, ?_, ?_⟩
  · show mfind (a.cur + 1) (minsert (a.cur + 1) k a.versions) = some (gCur cfg.d0 h')
    rw [mfind_minsert_same, hcur]
  · intro v d' hv
    show v ≤ a.cur + 1
    by_cases hv1 : v = a.cur + 1
    · omega
    · have hv' : mfind v (minsert (a.cur + 1) k a.versions) = some d' := hv
      rw [mfind_minsert_ne _ _ _ _ hv1] at hv'
      have := h2 v d' hv'; omega
  · intro id k' hp
    rw [hpin] at hp
    obtain ⟨v, hv, hd⟩ := h3 id k' hp
    exact ⟨v, hv, hold _ _ hd⟩
  · intro id v hp
    rw [hpin]; exact h4 id v hp

theorem gPinned_cons_some (d0 : Nat) (e : GEv) (h : List GEv) (id k : Nat)
    (hk : gPinned d0 h id = some k) : gPinned d0 (e :: h) id = some k := by
  rw [gPinned_cons, hk]

/-- A transaction that has been seen is pinned: looking it up again changes nothing and yields the
    policies it first saw. -/
theorem lookup_pinned_noop (cfg : Cfg) (a : St) (h : List GEv) (hA : AInv cfg a h) (id k : Nat)
    (hk : gPinned cfg.d0 h id = some k) : lookupLabel cfg a id = (a, some k) := by
  obtain ⟨v, hv, hd⟩ := hA.pinned id k hk
  simp only [lookupLabel, step_lookup_found cfg a id v hv, getData, hd]

/-- The diagnosis worker works off its queue: the accessor state is untouched and every exported
    record satisfies the Spec. -/
theorem drain_inv (cfg : Cfg) (seen : List Nat) (a : St) (ps : List Nat) (h : List GEv)
    (hA : AInv cfg a h) (hp : ∀ id ∈ ps, ∃ k, gPinned cfg.d0 h id = some k)
    (hh : gHoldsRev cfg.d0 h = true) :
    (drain cfg seen a ps).1 = a ∧
    AInv cfg a ((drain cfg seen a ps).2.reverse ++ h) ∧
    gHoldsRev cfg.d0 ((drain cfg seen a ps).2.reverse ++ h) = true ∧
    gCur cfg.d0 ((drain cfg seen a ps).2.reverse ++ h) = gCur cfg.d0 h ∧
    gRetry cfg.d0 ((drain cfg seen a ps).2.reverse ++ h) = gRetry cfg.d0 h ∧
    (∀ id k, gPinned cfg.d0 h id = some k →
      gPinned cfg.d0 ((drain cfg seen a ps).2.reverse ++ h) id = some k) := by
  induction ps generalizing h with
  | nil => simp [drain, hA, hh]
  | cons id rest ih =>
    obtain ⟨k, hk⟩ := hp id List.mem_cons_self
    have hnoop := lookup_pinned_noop cfg a h hA id k hk
    by_cases hs : (seen.contains id && labelHasDiag (some k)) = true
    · -- a record is exported
      let e : GEv := .diag id (some (diagLens k))
      have hl := lookup_ainv cfg a h hA id e (by intro id'; simp [e, mentions]) rfl
      rw [hnoop] at hl
      have hA' : AInv cfg a (e :: h) := hl.2
      have hok : gEventOk cfg.d0 e h = true := by
        simp [e, gEventOk, gLabel, hk]
      have hh' : gHoldsRev cfg.d0 (e :: h) = true := by simp [gHoldsRev, hok, hh]
      have hp' : ∀ id' ∈ rest, ∃ k', gPinned cfg.d0 (e :: h) id' = some k' := by
        intro id' hm
        obtain ⟨k', hk'⟩ := hp id' (List.mem_cons_of_mem _ hm)
        exact ⟨k', gPinned_cons_some _ _ _ _ _ hk'⟩
      obtain ⟨i1, i2, i3, i4, i5, i6⟩ := ih (e :: h) hA' hp' hh'
      have hd : drain cfg seen a (id :: rest) =
          ((drain cfg seen a rest).1, e :: (drain cfg seen a rest).2) := by
        simp only [drain, hnoop, hs, if_true, Option.map, e]
      rw [hd]
      simp only [List.reverse_cons, List.append_assoc, List.singleton_append]
      refine ⟨i1, i2, i3, ?_, ?_, ?_⟩
      · rw [i4]; rfl
      · rw [i5]; rfl
      · intro id' k' hk'
        exact i6 id' k' (gPinned_cons_some _ _ _ _ _ hk')
    · -- the request is not in the worker's cache, or its policies have no diagnosis: nothing is exported
      have hp' : ∀ id' ∈ rest, ∃ k', gPinned cfg.d0 h id' = some k' :=
        fun id' hm => hp id' (List.mem_cons_of_mem _ hm)
      have hd : drain cfg seen a (id :: rest) = drain cfg seen a rest := by
        simp only [drain, hnoop, hs]
        rfl
      rw [hd]
      exact ih h hA hp' hh

theorem gstep_inv (cfg : Cfg) (g : GSt) (h : List GEv) (hinv : GInv cfg g h)
    (hh : gHoldsRev cfg.d0 h = true) (o : GOp) :
    GInv cfg (gstep cfg g o).1 ((gstep cfg g o).2.reverse ++ h) ∧
      gHoldsRev cfg.d0 ((gstep cfg g o).2.reverse ++ h) = true := by
  obtain ⟨hA, hR, hP⟩ := hinv
  have hupd : ∀ k l, GInv cfg { g with acc := (step cfg g.acc (.update k true)).1, loaded := l }
        (GEv.reload k :: h) ∧
      gHoldsRev cfg.d0 (GEv.reload k :: h) = true := by
    intro k l
    have hpin : ∀ id, gPinned cfg.d0 (GEv.reload k :: h) id = gPinned cfg.d0 h id := by
      intro id
      rw [gPinned_cons]
      cases gPinned cfg.d0 h id <;> simp [mentions]
    refine ⟨⟨update_ainv cfg g.acc h _ hA k rfl hpin, hR, ?_⟩, ?_⟩
    · intro id' hm
      rw [hpin]; exact hP id' hm
    · simp [gHoldsRev, gEventOk, hh]
  cases o with
  | req id seq =>
    have hl := lookup_ainv cfg g.acc h hA id (.req id seq ((lookupLabel cfg g.acc id).2.map stampLens))
      (by intro id'; simp [mentions]) rfl
    simp only [gstep, List.reverse_cons, List.reverse_nil, List.nil_append, List.singleton_append]
    refine ⟨⟨hl.2, hR, ?_⟩, ?_⟩
    · intro id' hm
      obtain ⟨k', hk'⟩ := hP id' hm
      exact ⟨k', gPinned_cons_some _ _ _ _ _ hk'⟩
    · simp [gHoldsRev, gEventOk, hl.1, hh]
  | resp id seq status =>
    have hl := fun out => lookup_ainv cfg g.acc h hA id (.resp id seq status out)
      (by intro id'; simp [mentions]) rfl
    simp only [gstep]
    rw [(hl none).1]
    simp only [List.reverse_cons, List.reverse_nil, List.nil_append, List.singleton_append]
    refine ⟨⟨(hl _).2, ?_, ?_⟩, ?_⟩
    · show (retryLens g.retry (gLabel cfg.d0 h id) id seq status).1 = _
      rw [hR]; rfl
    · intro id' hm
      have hm' : id' ∈ g.pending ∨ id' = id := by
        have hm2 : id' ∈ (if hasDiag (gLabel cfg.d0 h id) then g.pending ++ [id] else g.pending) := hm
        split at hm2
        · rcases List.mem_append.mp hm2 with a | b
          · exact Or.inl a
          · exact Or.inr (List.mem_singleton.mp b)
        · exact Or.inl hm2
      rcases hm' with hm' | hm'
      · obtain ⟨k', hk'⟩ := hP id' hm'
        exact ⟨k', gPinned_cons_some _ _ _ _ _ hk'⟩
      · subst hm'
        exact ⟨_, gPinned_self _ _ _ _ (by simp [mentions])⟩
    · simp [gHoldsRev, gEventOk, hR, hh]
  | reload k ok =>
    cases ok with
    | false => exact ⟨⟨hA, hR, hP⟩, by simpa [gstep] using hh⟩
    | true =>
      simp only [gstep, List.reverse_cons, List.reverse_nil, List.nil_append, List.singleton_append]
      exact hupd k k
  | revert free =>
    simp only [gstep, List.reverse_cons, List.reverse_nil, List.nil_append, List.singleton_append]
    exact hupd _ g.loaded
  | diag =>
    obtain ⟨d1, d2, d3, _, d5, _⟩ := drain_inv cfg g.seen g.acc g.pending h hA hP hh
    simp only [gstep]
    refine ⟨⟨?_, ?_, ?_⟩, d3⟩
    · show AInv cfg (drain cfg g.seen g.acc g.pending).1 _
      rw [d1]; exact d2
    · show g.retry = _
      rw [d5]; exact hR
    · intro id' hm
      exact absurd hm (List.not_mem_nil)

theorem grun_holds (cfg : Cfg) (os : List GOp) (g : GSt) (h : List GEv)
    (hinv : GInv cfg g h) (hh : gHoldsRev cfg.d0 h = true) :
    gHoldsRev cfg.d0 ((grun cfg g os).reverse ++ h) = true := by
  induction os generalizing g h with
  | nil => simpa [grun] using hh
  | cons o os ih =>
    have hs := gstep_inv cfg g h hinv hh o
    have := ih (gstep cfg g o).1 _ hs.1 hs.2
    simpa [grun, List.reverse_append, List.append_assoc] using this

theorem gHoldsRev_append_right (d0 : Nat) (a b : List GEv) (h : gHoldsRev d0 (a ++ b) = true) :
    gHoldsRev d0 b = true := by
  induction a with
  | nil => simpa using h
  | cons e a ih =>
    simp only [List.cons_append, gHoldsRev, Bool.and_eq_true] at h
    exact ih h.2

theorem gHoldsRev_head (d0 : Nat) (e : GEv) (older : List GEv) (h : gHoldsRev d0 (e :: older) = true) :
    gEventOk d0 e older = true := by
  simp only [gHoldsRev, Bool.and_eq_true] at h
  exact h.1

theorem gPinned_append_some (d0 : Nat) (a b : List GEv) (id k : Nat) (hb : gPinned d0 b id = some k) :
    gPinned d0 (a ++ b) id = some k := by
  induction a with
  | nil => exact hb
  | cons e a ih => rw [List.cons_append, gPinned_cons, ih]

/-- The lenses on the response path and the diagnosis path do not depend on the diagnosis-free variant. -/
theorem retryLens_stamp (r : List (Nat × (Nat × Nat))) (k id seq status : Nat) :
    retryLens r (stampLens k) id seq status = retryLens r k id seq status := by
  have h1 : lensStatus (stampLens k) = lensStatus k := by simp only [lensStatus, stampLens]; omega
  have h2 : lensCooldown (stampLens k) = lensCooldown k := by simp only [lensCooldown, stampLens]; omega
  simp only [retryLens, h1, h2]

theorem diagLens_stamp (k : Nat) : diagLens (stampLens k) = diagLens k := by
  simp only [diagLens, stampLens]; omega

end LunarVerif.C11
