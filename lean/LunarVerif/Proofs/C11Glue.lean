import LunarVerif.Spec.C11Glue
import LunarVerif.Proofs.C11
/-! Helper lemmas for the handler-glue level of C11. -/
namespace LunarVerif.C11

/-- Accessor part of the invariant between the glue state and the glue history (most recent first). -/
structure AInv (cfg : Cfg) (a : St) (h : List GEv) : Prop where
  cur : mfind a.cur a.versions = some (gCur cfg.d0 h)
  verLe : ∀ v d, mfind v a.versions = some d → v ≤ a.cur
  pinned : ∀ id k, gPinned cfg.d0 h id = some k →
    ∃ v, mfind id a.pins = some v ∧ mfind v a.versions = some k
  pinSeen : ∀ id v, mfind id a.pins = some v → ∃ k, gPinned cfg.d0 h id = some k

structure GInv (cfg : Cfg) (g : GSt) (h : List GEv) : Prop where
  acc : AInv cfg g.acc h
  retry : g.retry = gRetry cfg.d0 h
  loaded : g.loaded = gCur cfg.d0 h

theorem ginv_init (cfg : Cfg) (t0 : Nat) : GInv cfg (ginit cfg t0) [] := by
  refine ⟨⟨?_, ?_, ?_, ?_⟩, rfl, rfl⟩ <;> simp [ginit, init, mfind, gCur, gPinned]

theorem gPinned_cons (d0 : Nat) (e : GEv) (h : List GEv) (id : Nat) :
    gPinned d0 (e :: h) id = match gPinned d0 h id with
      | some k => some k
      | none => if mentions id e then some (gCur d0 h) else none := rfl

/-- `GetTxnPoliciesData(id)` answers with the policies in force when `id` was first seen, and
    afterwards `id` is pinned to them. -/
theorem lookup_ainv (cfg : Cfg) (a : St) (h : List GEv) (hA : AInv cfg a h) (id : Nat) (e : GEv)
    (hm : ∀ id', mentions id' e = (id == id')) (hcur : gCur cfg.d0 (e :: h) = gCur cfg.d0 h) :
    (lookupLabel cfg a id).2 = some (gLabel cfg.d0 h id) ∧ AInv cfg (lookupLabel cfg a id).1 (e :: h) := by
  obtain ⟨h1, h2, h3, h4⟩ := hA
  have hmid : mentions id e = true := by rw [hm]; simp
  have hmne : ∀ id', id' ≠ id → mentions id' e = false := by
    intro id' hne; rw [hm]; simp; exact fun e => hne e.symm
  cases hx : mfind id a.pins with
  | some v =>
    obtain ⟨k, hk⟩ := h4 id v hx
    obtain ⟨v', hv', hd⟩ := h3 id k hk
    rw [hx] at hv'; cases hv'
    have hl : lookupLabel cfg a id = (a, some k) := by
      simp only [lookupLabel, step_lookup_found cfg a id v hx, getData, hd]
    rw [hl]
    refine ⟨by simp [gLabel, hk], ⟨by rw [hcur]; exact h1, h2, ?_, ?_⟩⟩
    · intro id' k' hp
      rw [gPinned_cons] at hp
      cases hq : gPinned cfg.d0 h id' with
      | some k'' =>
        rw [hq] at hp
        have : k'' = k' := Option.some.inj hp
        subst this
        exact h3 id' _ hq
      | none =>
        rw [hq] at hp
        by_cases hid : id' = id
        · subst hid; rw [hk] at hq; cases hq
        · simp [hmne id' hid] at hp
    · intro id' v' hp
      obtain ⟨k', hk'⟩ := h4 id' v' hp
      exact ⟨k', by rw [gPinned_cons, hk']⟩
  | none =>
    have hnone : gPinned cfg.d0 h id = none := by
      cases hq : gPinned cfg.d0 h id with
      | none => rfl
      | some k => obtain ⟨v, hv, _⟩ := h3 id k hq; rw [hx] at hv; cases hv
    have hl : lookupLabel cfg a id =
        ({ a with pins := minsert id a.cur a.pins, pinQ := a.pinQ ++ [(a.now + cfg.pinTTL, id)] },
         some (gCur cfg.d0 h)) := by
      simp only [lookupLabel, step_lookup_fresh cfg a id hx, h1]
    rw [hl]
    refine ⟨by simp [gLabel, hnone], ⟨by rw [hcur]; exact h1, h2, ?_, ?_⟩⟩
    · intro id' k' hp
      rw [gPinned_cons] at hp
      by_cases hid : id' = id
      · subst hid
        rw [hnone] at hp
        simp only [hmid, if_true, Option.some.injEq] at hp
        subst hp
        exact ⟨a.cur, mfind_minsert_same _ _ _, h1⟩
      · cases hq : gPinned cfg.d0 h id' with
        | some k'' =>
          rw [hq] at hp
          have : k'' = k' := Option.some.inj hp
          subst this
          obtain ⟨v, hv, hd⟩ := h3 id' _ hq
          exact ⟨v, by show mfind id' (minsert id a.cur a.pins) = some v
                       rw [mfind_minsert_ne _ _ _ _ hid]; exact hv, hd⟩
        | none => rw [hq] at hp; simp [hmne id' hid] at hp
    · intro id' v' hp
      have hp' : mfind id' (minsert id a.cur a.pins) = some v' := hp
      rw [gPinned_cons]
      by_cases hid : id' = id
      · subst hid; rw [hnone]; simp [hmid]
      · rw [mfind_minsert_ne _ _ _ _ hid] at hp'
        obtain ⟨k', hk'⟩ := h4 id' v' hp'
        exact ⟨k', by rw [hk']⟩

/-- An applied update with data `k`, recorded in the history as `e` (a reload) or not at all. -/
theorem update_ainv (cfg : Cfg) (a : St) (h h' : List GEv) (hA : AInv cfg a h) (k : Nat)
    (hcur : gCur cfg.d0 h' = k) (hpin : ∀ id, gPinned cfg.d0 h' id = gPinned cfg.d0 h id) :
    AInv cfg (step cfg a (.update k true)).1 h' := by
  obtain ⟨h1, h2, h3, h4⟩ := hA
  have hold : ∀ v d', mfind v a.versions = some d' →
      mfind v (minsert (a.cur + 1) k a.versions) = some d' := by
    intro v d' hv
    have := h2 v d' hv
    rw [mfind_minsert_ne _ _ _ _ (by omega)]; exact hv
  refine ⟨?_, ?_, ?_, ?_⟩
  · show mfind (a.cur + 1) (minsert (a.cur + 1) k a.versions) = some (gCur cfg.d0 h')
    rw [mfind_minsert_same, hcur]
  · intro v d' hv
    show v ≤ a.cur + 1
    by_cases hv1 : v = a.cur + 1
    · omega
    · have hv' : mfind v (minsert (a.cur + 1) k a.versions) = some d' := hv
      rw [mfind_minsert_ne _ _ _ _ hv1] at hv'
      have := h2 v d' hv'; omega
  · intro id k' hp
    rw [hpin] at hp
    obtain ⟨v, hv, hd⟩ := h3 id k' hp
    exact ⟨v, hv, hold _ _ hd⟩
  · intro id v hp
    rw [hpin]; exact h4 id v hp

theorem gstep_inv (cfg : Cfg) (g : GSt) (h : List GEv) (hinv : GInv cfg g h) (o : GOp) :
    match (gstep cfg g o).2 with
    | some e => GInv cfg (gstep cfg g o).1 (e :: h) ∧ gEventOk cfg.d0 e h = true
    | none => GInv cfg (gstep cfg g o).1 h := by
  obtain ⟨hA, hR, hL⟩ := hinv
  cases o with
  | req id seq =>
    have hl := lookup_ainv cfg g.acc h hA id (.req id seq (lookupLabel cfg g.acc id).2)
      (by intro id'; simp [mentions]) rfl
    simp only [gstep]
    refine ⟨⟨hl.2, ?_, ?_⟩, ?_⟩
    · exact hR
    · exact hL
    · simp [gEventOk, hl.1]
  | resp id seq status =>
    have hl := fun out => lookup_ainv cfg g.acc h hA id (.resp id seq status out)
      (by intro id'; simp [mentions]) rfl
    simp only [gstep]
    rw [(hl none).1]
    simp only
    refine ⟨⟨(hl _).2, ?_, ?_⟩, ?_⟩
    · show (retryLens g.retry (gLabel cfg.d0 h id) id seq status).1 = _
      rw [hR]; rfl
    · exact hL
    · simp [gEventOk, hR]
  | reload k ok =>
    cases ok with
    | false => exact ⟨hA, hR, hL⟩
    | true =>
      simp only [gstep]
      refine ⟨⟨update_ainv cfg g.acc h _ hA k rfl ?_, hR, rfl⟩, rfl⟩
      intro id
      rw [gPinned_cons]
      cases gPinned cfg.d0 h id <;> simp [mentions]
  | revert =>
    simp only [gstep]
    exact ⟨update_ainv cfg g.acc h h hA g.loaded hL.symm (fun _ => rfl), hR, hL⟩

theorem grun_cons (cfg : Cfg) (g : GSt) (o : GOp) (os : List GOp) :
    grun cfg g (o :: os) =
      (match (gstep cfg g o).2 with | some e => [e] | none => []) ++ grun cfg (gstep cfg g o).1 os := by
  simp only [grun]
  cases (gstep cfg g o).2 <;> rfl

theorem grun_holds (cfg : Cfg) (os : List GOp) (g : GSt) (h : List GEv)
    (hinv : GInv cfg g h) (hh : gHoldsRev cfg.d0 h = true) :
    gHoldsRev cfg.d0 ((grun cfg g os).reverse ++ h) = true := by
  induction os generalizing g h with
  | nil => simpa [grun] using hh
  | cons o os ih =>
    have hs := gstep_inv cfg g h hinv o
    rw [grun_cons]
    cases he : (gstep cfg g o).2 with
    | none =>
      rw [he] at hs
      simpa using ih (gstep cfg g o).1 h hs hh
    | some e =>
      rw [he] at hs
      have := ih (gstep cfg g o).1 (e :: h) hs.1 (by simp [gHoldsRev, hs.2, hh])
      simpa using this

theorem gHoldsRev_append_right (d0 : Nat) (a b : List GEv) (h : gHoldsRev d0 (a ++ b) = true) :
    gHoldsRev d0 b = true := by
  induction a with
  | nil => simpa using h
  | cons e a ih =>
    simp only [List.cons_append, gHoldsRev, Bool.and_eq_true] at h
    exact ih h.2

theorem gHoldsRev_head (d0 : Nat) (e : GEv) (older : List GEv) (h : gHoldsRev d0 (e :: older) = true) :
    gEventOk d0 e older = true := by
  simp only [gHoldsRev, Bool.and_eq_true] at h
  exact h.1

theorem gPinned_append_some (d0 : Nat) (a b : List GEv) (id k : Nat) (hb : gPinned d0 b id = some k) :
    gPinned d0 (a ++ b) id = some k := by
  induction a with
  | nil => exact hb
  | cons e a ih => rw [List.cons_append, gPinned_cons, ih]

theorem gPinned_self (d0 : Nat) (e : GEv) (h : List GEv) (id : Nat) (hm : mentions id e = true) :
    gPinned d0 (e :: h) id = some (gLabel d0 h id) := by
  rw [gPinned_cons, gLabel]
  cases gPinned d0 h id <;> simp [hm]

end LunarVerif.C11
