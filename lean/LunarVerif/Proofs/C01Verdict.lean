import LunarVerif.Proofs.C01Api
/-! C01: a call is let through only after every quota of its chain admitted it (`Allowed = true`). -/
namespace LunarVerif.C01

structure VInv (cfg : Cfg) (s : Sys) : Prop where
  idx : ∀ (i : Nat) (r : Rid) (q : QId) (b : Bool), LEv.verdict i r q b ∈ s.log → i < s.threads.length
  pre : ∀ (i : Nat) (th : Thread) (todo : List (QId × QuotaCfg)), s.threads[i]? = some th → th.pc = Pc.allowed todo →
    ∃ pre, chain cfg th.q = pre ++ todo ∧ ∀ p ∈ pre, ∃ amt, LEv.allowed (keyOf p th.h) th.r true amt ∈ s.log
  ver : ∀ (i : Nat) (th : Thread) (r : Rid) (q : QId), s.threads[i]? = some th → LEv.verdict i r q true ∈ s.log →
    r = th.r ∧ q = th.q ∧ ∀ p ∈ chain cfg th.q, ∃ amt, LEv.allowed (keyOf p th.h) th.r true amt ∈ s.log

theorem VInv.init (cfg : Cfg) (t0 : Nat) : VInv cfg (Sys.init t0) := by
  constructor
  · intro i r q b h; simp [Sys.init] at h
  · intro i th todo h; simp [Sys.init] at h
  · intro i th r q h; simp [Sys.init] at h

theorem afterInc_allowed (cfg : Cfg) (q : QId) (thenA : Bool) (todo : List (QId × QuotaCfg))
    (h : afterInc cfg q thenA = .allowed todo) : todo = chain cfg q := by
  unfold afterInc at h
  split at h
  · simp only [Pc.allowed.injEq] at h; exact h.symm
  · simp at h

theorem incNext_allowed (cfg : Cfg) (q : QId) (ac : QId × QuotaCfg) (res : IncRes)
    (rest charged : List (QId × QuotaCfg)) (thenA : Bool) (todo : List (QId × QuotaCfg))
    (h : incNext cfg q ac res rest charged thenA = .allowed todo) : todo = chain cfg q := by
  unfold incNext at h
  split at h
  · split at h
    · exact afterInc_allowed cfg q thenA todo h
    · simp at h
  · split at h
    · exact afterInc_allowed cfg q thenA todo h
    · simp at h
  · exact afterInc_allowed cfg q thenA todo h

theorem refundNext_allowed (cfg : Cfg) (q : QId) (rest : List (QId × QuotaCfg)) (thenA : Bool)
    (todo : List (QId × QuotaCfg)) (h : refundNext cfg q rest thenA = .allowed todo) : todo = chain cfg q := by
  unfold refundNext at h
  split at h
  · exact afterInc_allowed cfg q thenA todo h
  · simp at h

/-- What one step of thread `tid` logs and where it goes, as far as verdicts are concerned. -/
theorem stepThread_verdict (cfg : Cfg) (st : St) (now tid : Nat) (th : Thread) (log : List LEv)
    (hpre : ∀ todo, th.pc = .allowed todo →
      ∃ pre, chain cfg th.q = pre ++ todo ∧ ∀ p ∈ pre, ∃ amt, LEv.allowed (keyOf p th.h) th.r true amt ∈ log) :
    (∀ i r q b, LEv.verdict i r q b ∈ (stepThread cfg st now tid th).2.2 → i = tid) ∧
    (∀ todo, (stepThread cfg st now tid th).2.1 = .allowed todo →
      ∃ pre, chain cfg th.q = pre ++ todo ∧
        ∀ p ∈ pre, ∃ amt, LEv.allowed (keyOf p th.h) th.r true amt ∈ (stepThread cfg st now tid th).2.2 ++ log) ∧
    (∀ r q, LEv.verdict tid r q true ∈ (stepThread cfg st now tid th).2.2 →
      r = th.r ∧ q = th.q ∧
        ∀ p ∈ chain cfg th.q, ∃ amt, LEv.allowed (keyOf p th.h) th.r true amt ∈ (stepThread cfg st now tid th).2.2 ++ log) := by
  unfold stepThread
  cases hpc : th.pc with
  | done v => simp
  | dec todo =>
    cases todo with
    | nil => simp
    | cons ac rest => obtain ⟨a, c⟩ := ac; simp
  | inc todo charged thenA =>
    cases todo with
    | nil =>
      refine ⟨by simp, ?_, by simp⟩
      intro todo h
      exact ⟨[], by simp [afterInc_allowed cfg th.q thenA todo h], by simp⟩
    | cons ac rest =>
      obtain ⟨a, c⟩ := ac
      dsimp only
      refine ⟨by simp, ?_, by simp⟩
      intro todo h
      exact ⟨[], by simp [incNext_allowed cfg th.q _ _ _ _ thenA todo h], by simp⟩
  | refund todo thenA =>
    cases todo with
    | nil =>
      refine ⟨by simp, ?_, by simp⟩
      intro todo h
      exact ⟨[], by simp [afterInc_allowed cfg th.q thenA todo h], by simp⟩
    | cons ac rest =>
      obtain ⟨a, c⟩ := ac
      dsimp only
      refine ⟨by simp, ?_, by simp⟩
      intro todo h
      exact ⟨[], by simp [refundNext_allowed cfg th.q _ thenA todo h], by simp⟩
  | allowed todo =>
    cases todo with
    | nil => simp
    | cons ac rest =>
      obtain ⟨a, c⟩ := ac
      obtain ⟨pre, hch, hadm⟩ := hpre _ hpc
      dsimp only
      split
      · cases rest with
        | nil =>
          dsimp only
          refine ⟨?_, by simp, ?_⟩
          · intro i r q b h
            simp only [List.mem_cons, LEv.verdict.injEq, List.mem_nil_iff, or_false, reduceCtorEq] at h
            exact h.1
          · intro r q h
            simp only [List.mem_cons, LEv.verdict.injEq, List.mem_nil_iff, or_false, reduceCtorEq, and_true] at h
            refine ⟨h.2.1, h.2.2, ?_⟩
            intro p hp
            rw [hch] at hp
            simp only [List.mem_append, List.mem_singleton] at hp
            rcases hp with hp | hp
            · obtain ⟨amt, ha⟩ := hadm p hp
              exact ⟨amt, by simp [ha]⟩
            · subst hp
              exact ⟨pendingAmt (st.at (a, groupOf c th.h)) th.r, by simp [keyOf]⟩
        | cons x xs =>
          dsimp only
          refine ⟨by simp, ?_, by simp⟩
          intro todo h
          simp only [Pc.allowed.injEq] at h
          subst h
          refine ⟨pre ++ [(a, c)], by simp [hch], ?_⟩
          intro p hp
          simp only [List.mem_append, List.mem_singleton] at hp
          rcases hp with hp | hp
          · obtain ⟨amt, ha⟩ := hadm p hp
            exact ⟨amt, by simp [ha]⟩
          · subst hp
            exact ⟨pendingAmt (st.at (a, groupOf c th.h)) th.r, by simp [keyOf]⟩
      · dsimp only
        refine ⟨?_, by simp, by simp⟩
        intro i r q b h
        simp only [List.mem_cons, LEv.verdict.injEq, List.mem_nil_iff, or_false, reduceCtorEq] at h
        exact h.1

theorem VInv.act (cfg : Cfg) (s : Sys) (a : Act) (inv : VInv cfg s) : VInv cfg (Sys.act cfg s a) := by
  cases a with
  | tick d => exact ⟨inv.idx, inv.pre, inv.ver⟩
  | spawn kind q r h =>
    have hget : ∀ i th, (s.threads ++ [⟨r, q, h, spawnPc cfg kind q⟩])[i]? = some th →
        s.threads[i]? = some th ∨ (i = s.threads.length ∧ th = ⟨r, q, h, spawnPc cfg kind q⟩) := by
      intro i th hi
      by_cases hlt : i < s.threads.length
      · left; rw [List.getElem?_append_left hlt] at hi; exact hi
      · right
        have hge : s.threads.length ≤ i := Nat.le_of_not_lt hlt
        rw [List.getElem?_append_right hge] at hi
        cases hd : i - s.threads.length with
        | zero =>
          simp only [hd, List.getElem?_cons_zero, Option.some.injEq] at hi
          exact ⟨by omega, hi.symm⟩
        | succ m => simp [hd] at hi
    constructor
    · intro i r' q' b hv
      have := inv.idx i r' q' b hv
      simp only [Sys.act, List.length_append, List.length_singleton]
      omega
    · intro i th todo hi hpc
      rcases hget i th hi with h1 | ⟨_, h2⟩
      · exact inv.pre i th todo h1 hpc
      · subst h2
        cases kind <;> simp only [spawnPc, Pc.allowed.injEq, reduceCtorEq] at hpc
        exact ⟨[], by simp [hpc], by simp⟩
    · intro i th r' q' hi hv
      rcases hget i th hi with h1 | ⟨h2, _⟩
      · exact inv.ver i th r' q' h1 hv
      · have := inv.idx i r' q' true hv
        omega
  | step tid =>
    simp only [Sys.act]
    cases hth : s.threads[tid]? with
    | none => exact inv
    | some th =>
      have hlt : tid < s.threads.length := (List.getElem?_eq_some_iff.mp hth).1
      obtain ⟨h1, h2, h3⟩ := stepThread_verdict cfg s.st s.now tid th s.log (fun todo hpc => inv.pre tid th todo hth hpc)
      dsimp only
      constructor
      · intro i r q b hv
        simp only [List.length_set]
        simp only [List.mem_append] at hv
        rcases hv with hv | hv
        · rw [h1 i r q b hv]; exact hlt
        · exact inv.idx i r q b hv
      · intro i th' todo hi hpc
        by_cases hit : i = tid
        · subst hit
          rw [List.getElem?_set_self hlt] at hi
          simp only [Option.some.injEq] at hi
          subst hi
          exact h2 todo hpc
        · rw [List.getElem?_set_ne (Ne.symm hit)] at hi
          obtain ⟨pre, hc, ha⟩ := inv.pre i th' todo hi hpc
          exact ⟨pre, hc, fun p hp => by obtain ⟨amt, hx⟩ := ha p hp; exact ⟨amt, List.mem_append_right _ hx⟩⟩
      · intro i th' r q hi hv
        by_cases hit : i = tid
        · subst hit
          rw [List.getElem?_set_self hlt] at hi
          simp only [Option.some.injEq] at hi
          subst hi
          simp only [List.mem_append] at hv
          rcases hv with hv | hv
          · exact h3 r q hv
          · obtain ⟨e1, e2, e3⟩ := inv.ver i th r q hth hv
            exact ⟨e1, e2, fun p hp => by obtain ⟨amt, hx⟩ := e3 p hp; exact ⟨amt, List.mem_append_right _ hx⟩⟩
        · rw [List.getElem?_set_ne (Ne.symm hit)] at hi
          simp only [List.mem_append] at hv
          rcases hv with hv | hv
          · exact absurd (h1 i r q true hv) hit
          · obtain ⟨e1, e2, e3⟩ := inv.ver i th' r q hi hv
            exact ⟨e1, e2, fun p hp => by obtain ⟨amt, hx⟩ := e3 p hp; exact ⟨amt, List.mem_append_right _ hx⟩⟩

theorem VInv.run (cfg : Cfg) (acts : List Act) : ∀ (s : Sys), VInv cfg s → VInv cfg (Sys.run cfg s acts) := by
  induction acts with
  | nil => intro s h; exact h
  | cons a acts ih => intro s h; exact ih _ (VInv.act cfg s a h)

end LunarVerif.C01
