import LunarVerif.Proofs.C03Build
/-! Assembly for C03: closed form of `getFlow`, the per-flow qualification against the flow's own filter,
and the characterisation of the selection under `Benign`. -/
namespace LunarVerif.C03
open LunarVerif.UrlTree LunarVerif.UrlMatch

theorem classify_benign (cfg : List Flow) : classify cfg = "-" ↔ Benign cfg = true := by
  unfold classify Benign
  cases cfgBoundaryMix cfg <;> simp

/-! ### closed form of `GetFlow` (unconditional) -/

def FlowResult.Good (x : FlowResult) : Prop := x.valid = !x.flow.isEmpty

theorem FlowResult.extend_good {f o : FlowResult} (hf : f.Good) (ho : o.Good) :
    (f.extend o).flow = f.flow ++ o.flow ∧ (f.extend o).Good := by
  unfold FlowResult.Good at *
  unfold FlowResult.extend
  cases hov : o.valid with
  | false =>
    rw [hov] at ho
    have : o.flow = [] := by simpa using ho.symm
    simp [this, hf]
  | true =>
    rw [hov] at ho
    cases hfv : f.valid with
    | false =>
      rw [hfv] at hf
      have : f.flow = [] := by simpa using hf.symm
      simp [this]
      simpa using ho
    | true =>
      simp
      intro _
      simpa using ho

theorem pick_good (fl : List Flow) (t : Txn) : (pick fl t).Good := by
  simp [pick, FlowResult.Good]

def FilterResult.Good (r : FilterResult) : Prop := r.user.Good ∧ r.sysStart.Good ∧ r.sysEnd.Good

def FilterResult.get (r : FilterResult) : Kind → FlowResult
  | .user => r.user
  | .sysStart => r.sysStart
  | .sysEnd => r.sysEnd

theorem FilterResult.good_get {r : FilterResult} (h : r.Good) (k : Kind) : (r.get k).Good := by
  cases k
  · exact h.1
  · exact h.2.1
  · exact h.2.2

/-- what one node contributes to group `k` -/
def nodeSel (n : FNode) (t : Txn) (k : Kind) : List Flow := (n.group k).filter fun f => flowValid f t

theorem getFlow_node_some {n : FNode} {t : Txn} {r : FilterResult} (h : n.getFlow t = some r) :
    r.Good ∧ ∀ k, (r.get k).flow = nodeSel n t k := by
  unfold FNode.getFlow at h
  simp only at h
  split at h
  · simp at h
  · simp only [Option.some.injEq] at h
    subst h
    refine ⟨⟨pick_good _ _, pick_good _ _, pick_good _ _⟩, ?_⟩
    intro k
    cases k <;> rfl

theorem getFlow_node_none {n : FNode} {t : Txn} (h : n.getFlow t = none) : ∀ k, nodeSel n t k = [] := by
  unfold FNode.getFlow at h
  simp only at h
  split at h
  · rename_i he
    simp only [FilterResult.isEmpty, pick, Bool.and_eq_true, Bool.not_eq_true', Bool.not_eq_false'] at he
    intro k
    cases k
    · simpa [nodeSel, FNode.group] using he.1.1
    · simpa [nodeSel, FNode.group] using he.1.2
    · simpa [nodeSel, FNode.group] using he.2
  · simp at h

theorem getFlow_node_isSome (n : FNode) (t : Txn) :
    (n.getFlow t).isSome =
      [Kind.user, Kind.sysStart, Kind.sysEnd].any (fun k => !(nodeSel n t k).isEmpty) := by
  rcases ha : (n.userFlows.filter fun f => flowValid f t) with _ | ⟨a, as⟩ <;>
  rcases hb : (n.systemFlowStart.filter fun f => flowValid f t) with _ | ⟨b, bs⟩ <;>
  rcases hc : (n.systemFlowEnd.filter fun f => flowValid f t) with _ | ⟨c, cs⟩ <;>
  simp [FNode.getFlow, FilterResult.isEmpty, pick, nodeSel, FNode.group, ha, hb, hc]

theorem extend_get (f o : FilterResult) (k : Kind) : (f.extend o).get k = (f.get k).extend (o.get k) := by
  cases k <;> rfl

theorem collect_spec (store : List FNode) (t : Txn) (vals : List Nat) : ∀ (acc : FilterResult) (found : Bool),
    acc.Good →
    (collect store t vals (acc, found)).1.Good ∧
    (∀ k, ((collect store t vals (acc, found)).1.get k).flow =
      (acc.get k).flow ++ vals.flatMap (fun v => nodeSel (store.getD v .empty) t k)) ∧
    (collect store t vals (acc, found)).2 =
      (found || vals.any (fun v => ((store.getD v .empty).getFlow t).isSome)) := by
  induction vals with
  | nil => intro acc found hg; simp [collect, hg]
  | cons v vs ih =>
    intro acc found hg
    unfold collect
    cases hn : (store.getD v .empty).getFlow t with
    | none =>
      simp only
      obtain ⟨h1, h2, h3⟩ := ih acc found hg
      refine ⟨h1, ?_, by simp [-List.getD_eq_getElem?_getD, h3, hn]⟩
      intro k
      rw [h2 k, List.flatMap_cons, getFlow_node_none hn k]
      simp
    | some r =>
      simp only
      obtain ⟨hrg, hrk⟩ := getFlow_node_some hn
      have hg' : (acc.extend r).Good :=
        ⟨(FlowResult.extend_good hg.1 hrg.1).2, (FlowResult.extend_good hg.2.1 hrg.2.1).2,
         (FlowResult.extend_good hg.2.2 hrg.2.2).2⟩
      obtain ⟨h1, h2, h3⟩ := ih (acc.extend r) true hg'
      refine ⟨h1, ?_, by simp [-List.getD_eq_getElem?_getD, h3, hn]⟩
      intro k
      rw [h2 k, extend_get, (FlowResult.extend_good (FilterResult.good_get hg k) (FilterResult.good_get hrg k)).1,
        hrk k, List.flatMap_cons, List.append_assoc]

theorem any_or' {α : Type} (l : List α) (p q : α → Bool) :
    l.any (fun a => p a || q a) = (l.any p || l.any q) := by
  induction l with
  | nil => rfl
  | cons a as ih => simp only [List.any_cons, ih]; cases p a <;> cases q a <;> simp

theorem nonempty_flatMap {α β : Type} (l : List α) (g : α → List β) :
    (!(l.flatMap g).isEmpty) = l.any (fun a => !(g a).isEmpty) := by
  induction l with
  | nil => rfl
  | cons a as ih =>
    simp only [List.flatMap_cons, List.any_cons, ← ih]
    cases g a <;> simp

theorem names_eq (r : FilterResult) (k : Kind) :
    (Answer.names ⟨b, r.user.flow.map (·.name), r.sysStart.flow.map (·.name), r.sysEnd.flow.map (·.name)⟩ k) =
      (r.get k).flow.map (·.name) := by
  cases k <;> rfl

/-- `getFlow_char`, list form: what the model reports is, per group, the concatenation over the nodes the
    traversal returns of the flows passing that node's qualification; `found` says whether any did.
    No hypothesis: every tree, store and transaction. -/
theorem observe_char (ft : FTree) (t : Txn) :
    (∀ k, (observe ft t).names k = (selected ft t k).map (·.name)) ∧
    (observe ft t).found = [Kind.user, Kind.sysStart, Kind.sysEnd].any (fun k => !(selected ft t k).isEmpty) := by
  unfold observe getFlow
  simp only
  by_cases hv : (lookupFlow ft.tree t.parts).isEmpty = true
  · rw [if_pos hv]
    have : lookupFlow ft.tree t.parts = [] := by simpa using hv
    simp only [selected, this]
    refine ⟨fun k => by cases k <;> rfl, by simp⟩
  · rw [if_neg hv]
    obtain ⟨hg, hk, hf⟩ := collect_spec ft.store t (lookupFlow ft.tree t.parts) .none false
      ⟨rfl, rfl, rfl⟩
    generalize hc : collect ft.store t (lookupFlow ft.tree t.parts) (FilterResult.none, false) = c at hg hk hf
    obtain ⟨flows, found⟩ := c
    simp only at hg hk hf ⊢
    have hsel : ∀ k, (flows.get k).flow = selected ft t k := by
      intro k
      rw [hk k]
      cases k <;> simp [FilterResult.none, FilterResult.get, selected, nodeSel]
    refine ⟨fun k => by rw [names_eq, hsel k], ?_⟩
    rw [hf]
    simp only [Bool.false_or]
    -- a node is valid iff one of its groups contributes
    have hiff : ∀ v, ((ft.store.getD v .empty).getFlow t).isSome =
        [Kind.user, Kind.sysStart, Kind.sysEnd].any (fun k => !(nodeSel (ft.store.getD v .empty) t k).isEmpty) :=
      fun v => getFlow_node_isSome _ t
    simp only [hiff, selected, nodeSel, List.any_cons, List.any_nil, Bool.or_false, any_or', nonempty_flatMap]

theorem mem_selected {ft : FTree} {t : Txn} {k : Kind} {f : Flow} (ht : t.parts ≠ []) :
    f ∈ selected ft t k ↔ ∃ v ∈ travS true ft.tree t.parts, f ∈ (ft.store.getD v .empty).group k ∧
      flowValid f t = true := by
  simp [selected, lookupFlow_eq_travS, ht, List.mem_flatMap, List.mem_filter]

/-! ### the qualification IS the flow's own filter -/

/-- the non-URL part of `applies` -/
def filterOk (f : Flow) (t : Txn) : Bool :=
  methodOk f t && (if t.isResp then statusOk f t else headersOk f t && queryOk f t)

theorem applies_eq (f : Flow) (t : Txn) : applies f t = («matches» f.parts t.parts && filterOk f t) := by
  unfold applies filterOk
  rw [Bool.and_assoc]

theorem headersOk_nil {f : Flow} {t : Txn} (h : f.headers.isEmpty = true) : headersOk f t = true := by
  have : f.headers = [] := by simpa using h
  simp [headersOk, this]

theorem hdr_eq (f : Flow) (t : Txn) : isHeadersQualified f t = (t.isResp || headersOk f t) := by
  unfold isHeadersQualified
  cases t.isResp with
  | true => simp
  | false =>
    simp only [Bool.false_eq_true, if_false, Bool.false_or]
    have hcheck : (f.headers.all fun kv => (f.headers.filter (fun kv' => kv'.1 == kv.1)).any
        fun kv' => hdrMatch t kv.1 kv'.2) = headersOk f t := by
      unfold headersOk
      congr 1
      funext kv
      rw [List.any_filter]
    rw [hcheck]
    by_cases he : f.headers.isEmpty = true
    · rw [headersOk_nil he]; simp [he]
    · simp [he]

theorem all_congr_mem {α : Type} (l : List α) (p q : α → Bool) (h : ∀ a ∈ l, p a = q a) :
    l.all p = l.all q := by
  induction l with
  | nil => rfl
  | cons a as ih =>
    simp only [List.all_cons]
    rw [h a (by simp), ih (fun b hb => h b (by simp [hb]))]

theorem q_eq (f : Flow) (t : Txn) : isQueryParamsQualified f t = (t.isResp || queryOk f t) := by
  unfold isQueryParamsQualified queryOk
  cases t.isResp with
  | true => simp
  | false =>
    simp only [Bool.false_eq_true, if_false, Bool.false_or]
    apply all_congr_mem
    intro kv _
    cases queryFind t kv.1 with
    | none => rfl
    | some x => cases kv.2 <;> rfl

theorem flowValid_eq (f : Flow) (t : Txn) : flowValid f t = filterOk f t := by
  unfold flowValid filterOk
  rw [hdr_eq, q_eq]
  unfold isStatusCodeQualified isMethodQualified methodOk statusOk
  cases t.isResp <;> cases f.statuses.isEmpty <;> cases f.methods.isEmpty <;> cases headersOk f t <;>
    cases queryOk f t <;> simp <;> exact Bool.and_comm _ _

/-! ### the selection under `Benign` -/

theorem benign_parts {cfg : List Flow} (h : Benign cfg = true) : cfgBoundaryMix cfg = false := by
  unfold Benign at h
  simpa using h

theorem travHyp_of {cfg : List Flow} {ft : FTree} {t : Txn} (hinv : Inv ft cfg) (hb : Benign cfg = true)
    (hH : hostFirst cfg t.parts = true) : TravHyp true ft.tree t.parts := by
  refine ⟨hinv.wl, hinv.partsOK (cfgBoundaryMix_false (benign_parts hb)), hinv.rcoh, ?_⟩
  intro _ p rest ov u us' hm _ hus
  obtain ⟨g, hg, hq⟩ := hinv.dom _ _ hm
  unfold hostFirst at hH
  simp only [Bool.and_eq_true, List.all_eq_true] at hH
  have h1 := hH.1
  have h2 := hH.2 g hg
  rw [hus] at h1
  rw [hq] at h2
  simp only [List.head?_cons] at h1 h2
  rw [h1, h2]

/-- `getFlow_char` under `Benign`: a loaded configuration selects exactly the flows whose own filter
    accepts the transaction and that no literal sibling shadows. -/
theorem selected_iff {cfg : List Flow} {ft : FTree} {t : Txn} (hinv : Inv ft cfg) (hb : Benign cfg = true)
    (hH : hostFirst cfg t.parts = true) (ht : t.parts ≠ []) (k : Kind) (f : Flow) :
    f ∈ selected ft t k ↔ f ∈ cfg ∧ f.kind = k ∧ applies f t = true ∧ shadowed cfg f t = false := by
  have hth := travHyp_of hinv hb hH
  rw [mem_selected ht, applies_eq]
  constructor
  · rintro ⟨v, hv, hfg, hval⟩
    obtain ⟨q, hq, hmq, hsh⟩ := (mem_travS_iff hth v).mp hv
    obtain ⟨hfq, hfc, hfk⟩ := hinv.node q v hq k f hfg
    refine ⟨hfc, hfk, ?_, ?_⟩
    · rw [← flowValid_eq, hval, Bool.and_true, hfq]
      exact hmq
    · unfold shadowed
      rw [List.any_eq_false]
      intro g hg
      obtain ⟨i, hi, _⟩ := hinv.cov g hg
      have := hsh _ hi
      rw [hfq]
      simpa using this
  · rintro ⟨hfc, hfk, hap, hsh⟩
    simp only [Bool.and_eq_true] at hap
    obtain ⟨i, hi, hfg⟩ := hinv.cov f hfc
    rw [hfk] at hfg
    refine ⟨i, ?_, hfg, ?_⟩
    · apply (mem_travS_iff hth i).mpr
      refine ⟨f.parts, hi, hap.1, ?_⟩
      intro ⟨q, ov⟩ he
      obtain ⟨g, hg, hgq⟩ := hinv.dom _ _ he
      unfold shadowed at hsh
      have := any_false_of hsh g hg
      rw [← hgq]
      exact this
    · rw [flowValid_eq]
      exact hap.2

/-! ### from the characterisation to the Spec predicates -/

theorem selOk_of {cfg : List Flow} {t : Txn} {a : Answer}
    (h : ∀ k n, n ∈ a.names k → ∃ f ∈ cfg, f.name = n ∧ f.kind = k ∧ applies f t = true) :
    selOk cfg t a = true := by
  unfold selOk
  rw [List.all_eq_true]
  intro k _
  rw [List.all_eq_true]
  intro n hn
  rw [List.any_eq_true]
  obtain ⟨f, hf, h1, h2, h3⟩ := h k n hn
  exact ⟨f, hf, by simp [h1, h2, h3]⟩

theorem compOk_of {cfg : List Flow} {t : Txn} {a : Answer}
    (h : ∀ f ∈ cfg, applies f t = true → shadowed cfg f t = false → f.name ∈ a.names f.kind) :
    compOk cfg t a = true := by
  unfold compOk
  rw [List.all_eq_true]
  intro f hf
  cases ha : applies f t with
  | false => simp
  | true =>
    cases hs : shadowed cfg f t with
    | true => simp
    | false => simpa using h f hf ha hs

theorem nOk_observe (ft : FTree) (t : Txn) : nOk (observe ft t) = true := by
  obtain ⟨hn, hf⟩ := observe_char ft t
  unfold nOk
  rw [hf]
  have hu := hn .user
  have hs := hn .sysStart
  have he := hn .sysEnd
  simp only [Answer.names] at hu hs he
  rw [hu, hs, he]
  simp only [List.any_cons, List.any_nil, Bool.or_false, List.isEmpty_map]
  cases (selected ft t .user).isEmpty <;> cases (selected ft t .sysStart).isEmpty <;>
    cases (selected ft t .sysEnd).isEmpty <;> rfl

theorem executed_nil {ft : FTree} {t : Txn} (h : (observe ft t).found = false) : executed ft t = [] := by
  unfold observe at h
  unfold executed
  rcases hg : getFlow ft t with ⟨r, b⟩
  rw [hg] at h
  cases r <;> cases b <;> simp_all

theorem mem_names_observe {ft : FTree} {t : Txn} {k : Kind} {n : String} :
    n ∈ (observe ft t).names k ↔ ∃ f ∈ selected ft t k, f.name = n := by
  rw [(observe_char ft t).1 k, List.mem_map]

theorem sameSel_of {a b : Answer} (h : ∀ k n, n ∈ a.names k ↔ n ∈ b.names k) : sameSel a b = true := by
  unfold sameSel
  rw [List.all_eq_true]
  intro k _
  simp only [Bool.and_eq_true, List.all_eq_true, List.contains_iff_mem]
  exact ⟨fun n hn => (h k n).mp hn, fun n hn => (h k n).mpr hn⟩

theorem shadowed_perm {cfg cfg' : List Flow} (hp : cfg.Perm cfg') (f : Flow) (t : Txn) :
    shadowed cfg f t = shadowed cfg' f t := by
  unfold shadowed
  rw [Bool.eq_iff_iff, List.any_eq_true, List.any_eq_true]
  exact ⟨fun ⟨g, hg, h⟩ => ⟨g, hp.mem_iff.mp hg, h⟩, fun ⟨g, hg, h⟩ => ⟨g, hp.mem_iff.mpr hg, h⟩⟩

theorem cfgBoundaryMix_perm {cfg cfg' : List Flow} (hp : cfg.Perm cfg') :
    cfgBoundaryMix cfg = cfgBoundaryMix cfg' := by
  unfold cfgBoundaryMix
  rw [Bool.eq_iff_iff, List.any_eq_true, List.any_eq_true]
  constructor
  · rintro ⟨g, hg, h⟩
    rw [List.any_eq_true] at h
    obtain ⟨g', hg', h'⟩ := h
    exact ⟨g, hp.mem_iff.mp hg, by rw [List.any_eq_true]; exact ⟨g', hp.mem_iff.mp hg', h'⟩⟩
  · rintro ⟨g, hg, h⟩
    rw [List.any_eq_true] at h
    obtain ⟨g', hg', h'⟩ := h
    exact ⟨g, hp.mem_iff.mpr hg, by rw [List.any_eq_true]; exact ⟨g', hp.mem_iff.mpr hg', h'⟩⟩

theorem benign_perm {cfg cfg' : List Flow} (hp : cfg.Perm cfg') : Benign cfg = Benign cfg' := by
  unfold Benign
  rw [cfgBoundaryMix_perm hp]

theorem hostFirst_perm {cfg cfg' : List Flow} (hp : cfg.Perm cfg') (u : Url) (h : hostFirst cfg u = true) :
    hostFirst cfg' u = true := by
  unfold hostFirst at h ⊢
  simp only [Bool.and_eq_true, List.all_eq_true] at h ⊢
  exact ⟨h.1, fun f hf => h.2 f (hp.mem_iff.mpr hf)⟩

theorem keysOK_perm {cfg cfg' : List Flow} (hp : cfg.Perm cfg') (h : keysOK cfg = true) : keysOK cfg' = true := by
  unfold keysOK at h ⊢
  rw [List.all_eq_true] at h ⊢
  intro f hf
  have := h f (hp.mem_iff.mpr hf)
  rw [List.all_eq_true] at this ⊢
  intro g hg
  exact this g (hp.mem_iff.mpr hg)

/-- The tree the driver builds while skipping refused flows is the tree built from the accepted ones. -/
theorem loadSkip_build (fs : List Flow) : ∀ (ft : FTree),
    buildFrom ft (((fs.zip (loadSkip ft fs).2).filter (fun p => p.2.isNone)).map (·.1)) = .ok (loadSkip ft fs).1 := by
  induction fs with
  | nil => intro ft; simp [loadSkip, buildFrom]
  | cons f rest ih =>
    intro ft
    unfold loadSkip
    cases ha : addFlow ft f with
    | error e =>
      simp only
      have := ih ft
      simpa [List.zip_cons_cons] using this
    | ok ft1 =>
      simp only
      have := ih ft1
      simp only [List.zip_cons_cons, Option.isNone_none, List.filter_cons_of_pos, List.map_cons, buildFrom, ha]
      exact this

/-! ### the grouping key of quota system flows -/

/-- Two filters agree on everything `Filter.ToComparable` looks at, up to the order inside each list. -/
structure SameKey (f g : Flow) : Prop where
  parts : f.parts = g.parts
  methods : f.methods.Perm g.methods
  headers : f.headers.Perm g.headers
  query : f.query.Perm g.query
  statuses : f.statuses.Perm g.statuses

theorem perm_isEmpty {α : Type} {l l' : List α} (h : l.Perm l') : l.isEmpty = l'.isEmpty := by
  have := h.length_eq
  cases l <;> cases l' <;> simp_all

theorem perm_contains {α : Type} [BEq α] [LawfulBEq α] {l l' : List α} (h : l.Perm l') (a : α) :
    l.contains a = l'.contains a := by
  rw [Bool.eq_iff_iff, List.contains_iff_mem, List.contains_iff_mem]
  exact h.mem_iff

theorem perm_all {α : Type} {l l' : List α} (h : l.Perm l') (p : α → Bool) : l.all p = l'.all p := by
  rw [Bool.eq_iff_iff, List.all_eq_true, List.all_eq_true]
  exact ⟨fun hh a ha => hh a (h.mem_iff.mpr ha), fun hh a ha => hh a (h.mem_iff.mp ha)⟩

theorem perm_any {α : Type} {l l' : List α} (h : l.Perm l') (p : α → Bool) : l.any p = l'.any p := by
  rw [Bool.eq_iff_iff, List.any_eq_true, List.any_eq_true]
  exact ⟨fun ⟨a, ha, hp⟩ => ⟨a, h.mem_iff.mp ha, hp⟩, fun ⟨a, ha, hp⟩ => ⟨a, h.mem_iff.mpr ha, hp⟩⟩

theorem sameKey_filterOk {f g : Flow} (h : SameKey f g) (t : Txn) : filterOk f t = filterOk g t := by
  unfold filterOk methodOk statusOk headersOk queryOk
  rw [perm_isEmpty h.methods, perm_contains h.methods, perm_isEmpty h.statuses, perm_contains h.statuses,
    perm_all h.query, perm_all h.headers]
  congr 3
  congr 1
  funext kv
  rw [perm_any h.headers]

theorem insertBy_perm {α : Type} (le : α → α → Bool) (a : α) (l : List α) : (insertBy le a l).Perm (a :: l) := by
  induction l with
  | nil => exact List.Perm.refl _
  | cons b l ih =>
    unfold insertBy
    split
    · exact List.Perm.refl _
    · exact (List.Perm.cons b ih).trans (List.Perm.swap a b l)

theorem sortBy_perm {α : Type} (le : α → α → Bool) (l : List α) : (sortBy le l).Perm l := by
  induction l with
  | nil => exact List.Perm.refl _
  | cons a l ih => exact (insertBy_perm le a _).trans (List.Perm.cons a ih)

/-- sorted token lists are equal only for permutations of the same tokens -/
theorem perm_of_sortBy_eq {α : Type} {le : α → α → Bool} {l l' : List α} (h : sortBy le l = sortBy le l') :
    l.Perm l' := by
  have h1 := sortBy_perm le l
  have h2 := sortBy_perm le l'
  rw [h] at h1
  exact h1.symm.trans h2

end LunarVerif.C03
