import LunarVerif.Spec.C03
import LunarVerif.Proofs.UrlTree
namespace LunarVerif.C03
open LunarVerif.UrlTree LunarVerif.UrlMatch
end LunarVerif.C03
