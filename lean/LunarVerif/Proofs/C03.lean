import LunarVerif.Proofs.C03Build
/-! Assembly for C03: closed form of `getFlow`, the per-flow qualification against the flow's own filter,
and the characterisation of the selection under `Benign`. -/
namespace LunarVerif.C03
open LunarVerif.UrlTree LunarVerif.UrlMatch

theorem classify_benign (cfg : List Flow) (t : Txn) : classify cfg t = "-" ↔ Benign cfg t = true := by
  unfold classify Benign benignCfg benignTxn
  cases mixedShapes cfg <;> cases oneExtra cfg t.parts <;> cases zeroSegWild cfg t.parts <;>
    cases mergeConfused cfg <;> cases cfgBoundaryMix cfg <;> cases boundaryMix cfg t.parts <;>
    cases emptySegment t.parts <;> cases nonCanonical cfg <;> cases sysDefaultMethods cfg t <;>
    cases valuelessQuery cfg t <;> simp

/-! ### closed form of `GetFlow` (unconditional) -/

def FlowResult.Good (x : FlowResult) : Prop := x.valid = !x.flow.isEmpty

theorem FlowResult.extend_good {f o : FlowResult} (hf : f.Good) (ho : o.Good) :
    (f.extend o).flow = f.flow ++ o.flow ∧ (f.extend o).Good := by
  unfold FlowResult.Good at *
  unfold FlowResult.extend
  cases hov : o.valid with
  | false =>
    rw [hov] at ho
    have : o.flow = [] := by simpa using ho.symm
    simp [this, hf]
  | true =>
    rw [hov] at ho
    cases hfv : f.valid with
    | false =>
      rw [hfv] at hf
      have : f.flow = [] := by simpa using hf.symm
      simp [this]
      simpa using ho
    | true =>
      simp
      intro _
      simpa using ho

theorem pick_good (n : FNode) (fl : List Flow) (t : Txn) : (pick n fl t).Good := by
  simp [pick, FlowResult.Good]

def FilterResult.Good (r : FilterResult) : Prop := r.user.Good ∧ r.sysStart.Good ∧ r.sysEnd.Good

def FilterResult.get (r : FilterResult) : Kind → FlowResult
  | .user => r.user
  | .sysStart => r.sysStart
  | .sysEnd => r.sysEnd

theorem FilterResult.good_get {r : FilterResult} (h : r.Good) (k : Kind) : (r.get k).Good := by
  cases k
  · exact h.1
  · exact h.2.1
  · exact h.2.2

/-- what one node contributes to group `k` -/
def nodeSel (n : FNode) (t : Txn) (k : Kind) : List Flow := (n.group k).filter fun f => flowValid n f t

theorem getFlow_node_some {n : FNode} {t : Txn} {r : FilterResult} (h : n.getFlow t = some r) :
    r.Good ∧ ∀ k, (r.get k).flow = nodeSel n t k := by
  unfold FNode.getFlow at h
  simp only at h
  split at h
  · simp at h
  · simp only [Option.some.injEq] at h
    subst h
    refine ⟨⟨pick_good _ _ _, pick_good _ _ _, pick_good _ _ _⟩, ?_⟩
    intro k
    cases k <;> rfl

theorem getFlow_node_none {n : FNode} {t : Txn} (h : n.getFlow t = none) : ∀ k, nodeSel n t k = [] := by
  unfold FNode.getFlow at h
  simp only at h
  split at h
  · rename_i he
    simp only [FilterResult.isEmpty, pick, Bool.and_eq_true, Bool.not_eq_true', Bool.not_eq_false'] at he
    intro k
    cases k
    · simpa [nodeSel, FNode.group] using he.1.1
    · simpa [nodeSel, FNode.group] using he.1.2
    · simpa [nodeSel, FNode.group] using he.2
  · simp at h

theorem getFlow_node_isSome (n : FNode) (t : Txn) :
    (n.getFlow t).isSome =
      [Kind.user, Kind.sysStart, Kind.sysEnd].any (fun k => !(nodeSel n t k).isEmpty) := by
  rcases ha : (n.userFlows.filter fun f => flowValid n f t) with _ | ⟨a, as⟩ <;>
  rcases hb : (n.systemFlowStart.filter fun f => flowValid n f t) with _ | ⟨b, bs⟩ <;>
  rcases hc : (n.systemFlowEnd.filter fun f => flowValid n f t) with _ | ⟨c, cs⟩ <;>
  simp [FNode.getFlow, FilterResult.isEmpty, pick, nodeSel, FNode.group, ha, hb, hc]

theorem extend_get (f o : FilterResult) (k : Kind) : (f.extend o).get k = (f.get k).extend (o.get k) := by
  cases k <;> rfl

theorem collect_spec (store : List FNode) (t : Txn) (vals : List Nat) : ∀ (acc : FilterResult) (found : Bool),
    acc.Good →
    (collect store t vals (acc, found)).1.Good ∧
    (∀ k, ((collect store t vals (acc, found)).1.get k).flow =
      (acc.get k).flow ++ vals.flatMap (fun v => nodeSel (store.getD v .empty) t k)) ∧
    (collect store t vals (acc, found)).2 =
      (found || vals.any (fun v => ((store.getD v .empty).getFlow t).isSome)) := by
  induction vals with
  | nil => intro acc found hg; simp [collect, hg]
  | cons v vs ih =>
    intro acc found hg
    unfold collect
    cases hn : (store.getD v .empty).getFlow t with
    | none =>
      simp only
      obtain ⟨h1, h2, h3⟩ := ih acc found hg
      refine ⟨h1, ?_, by simp [-List.getD_eq_getElem?_getD, h3, hn]⟩
      intro k
      rw [h2 k, List.flatMap_cons, getFlow_node_none hn k]
      simp
    | some r =>
      simp only
      obtain ⟨hrg, hrk⟩ := getFlow_node_some hn
      have hg' : (acc.extend r).Good :=
        ⟨(FlowResult.extend_good hg.1 hrg.1).2, (FlowResult.extend_good hg.2.1 hrg.2.1).2,
         (FlowResult.extend_good hg.2.2 hrg.2.2).2⟩
      obtain ⟨h1, h2, h3⟩ := ih (acc.extend r) true hg'
      refine ⟨h1, ?_, by simp [-List.getD_eq_getElem?_getD, h3, hn]⟩
      intro k
      rw [h2 k, extend_get, (FlowResult.extend_good (FilterResult.good_get hg k) (FilterResult.good_get hrg k)).1,
        hrk k, List.flatMap_cons, List.append_assoc]

theorem any_or' {α : Type} (l : List α) (p q : α → Bool) :
    l.any (fun a => p a || q a) = (l.any p || l.any q) := by
  induction l with
  | nil => rfl
  | cons a as ih => simp only [List.any_cons, ih]; cases p a <;> cases q a <;> simp

theorem nonempty_flatMap {α β : Type} (l : List α) (g : α → List β) :
    (!(l.flatMap g).isEmpty) = l.any (fun a => !(g a).isEmpty) := by
  induction l with
  | nil => rfl
  | cons a as ih =>
    simp only [List.flatMap_cons, List.any_cons, ← ih]
    cases g a <;> simp

theorem names_eq (r : FilterResult) (k : Kind) :
    (Answer.names ⟨b, r.user.flow.map (·.name), r.sysStart.flow.map (·.name), r.sysEnd.flow.map (·.name)⟩ k) =
      (r.get k).flow.map (·.name) := by
  cases k <;> rfl

/-- `getFlow_char`, list form: what the model reports is, per group, the concatenation over the nodes the
    traversal returns of the flows passing that node's qualification; `found` says whether any did.
    No hypothesis: every tree, store and transaction. -/
theorem observe_char (ft : FTree) (t : Txn) :
    (∀ k, (observe ft t).names k = (selected ft t k).map (·.name)) ∧
    (observe ft t).found = [Kind.user, Kind.sysStart, Kind.sysEnd].any (fun k => !(selected ft t k).isEmpty) := by
  unfold observe getFlow
  simp only
  by_cases hv : (lookupFlow ft.tree t.parts).isEmpty = true
  · rw [if_pos hv]
    have : lookupFlow ft.tree t.parts = [] := by simpa using hv
    simp only [selected, this]
    refine ⟨fun k => by cases k <;> rfl, by simp⟩
  · rw [if_neg hv]
    obtain ⟨hg, hk, hf⟩ := collect_spec ft.store t (lookupFlow ft.tree t.parts) .none false
      ⟨rfl, rfl, rfl⟩
    generalize hc : collect ft.store t (lookupFlow ft.tree t.parts) (FilterResult.none, false) = c at hg hk hf
    obtain ⟨flows, found⟩ := c
    simp only at hg hk hf ⊢
    have hsel : ∀ k, (flows.get k).flow = selected ft t k := by
      intro k
      rw [hk k]
      cases k <;> simp [FilterResult.none, FilterResult.get, selected, nodeSel]
    refine ⟨fun k => by rw [names_eq, hsel k], ?_⟩
    rw [hf]
    simp only [Bool.false_or]
    -- a node is valid iff one of its groups contributes
    have hiff : ∀ v, ((ft.store.getD v .empty).getFlow t).isSome =
        [Kind.user, Kind.sysStart, Kind.sysEnd].any (fun k => !(nodeSel (ft.store.getD v .empty) t k).isEmpty) :=
      fun v => getFlow_node_isSome _ t
    simp only [hiff, selected, nodeSel, List.any_cons, List.any_nil, Bool.or_false, any_or', nonempty_flatMap]

theorem mem_selected {ft : FTree} {t : Txn} {k : Kind} {f : Flow} :
    f ∈ selected ft t k ↔ ∃ v ∈ travS ft.tree t.parts, f ∈ (ft.store.getD v .empty).group k ∧
      flowValid (ft.store.getD v .empty) f t = true := by
  simp [selected, lookupFlow_eq_travS, List.mem_flatMap, List.mem_filter]

/-! ### the node's qualification vs the flow's own filter -/

/-- the non-URL part of `applies` -/
def filterOk (f : Flow) (t : Txn) : Bool :=
  methodOk f t && (if t.isResp then statusOk f t else headersOk f t && queryOk f t)

theorem applies_eq (f : Flow) (t : Txn) : applies f t = («matches» f.parts t.parts && filterOk f t) := by
  unfold applies filterOk
  rw [Bool.and_assoc]

/-- The node's requirements say about `f` what `f`'s own filter says, and `t` avoids F03h / F03i for `f`. -/
structure NodeOK (n : FNode) (f : Flow) (t : Txn) : Prop where
  hM : f.kind = .user → n.reqMethodsEmpty = f.methods.isEmpty
  hH : f.kind = .user → n.reqHeadersEmpty = f.headers.isEmpty
  hQ : f.kind = .user → n.reqQueryEmpty = f.query.isEmpty
  hS : f.kind = .user → n.reqStatusEmpty = f.statuses.isEmpty
  sys : f.kind ≠ .user → f.methods.isEmpty = true → defaultMethods.contains t.method = true
  qv : t.isResp = false → ∀ kv ∈ f.query, kv.2 = none → queryFind t kv.1 = none ∨ queryFind t kv.1 = some ""

theorem all_congr_mem {α : Type} (l : List α) (p q : α → Bool) (h : ∀ a ∈ l, p a = q a) :
    l.all p = l.all q := by
  induction l with
  | nil => rfl
  | cons a as ih =>
    simp only [List.all_cons]
    rw [h a (by simp), ih (fun b hb => h b (by simp [hb]))]

theorem isUser_iff (f : Flow) : f.isUser = true ↔ f.kind = .user := by simp [Flow.isUser]

theorem headersOk_nil {f : Flow} {t : Txn} (h : f.headers.isEmpty = true) : headersOk f t = true := by
  have : f.headers = [] := by simpa using h
  simp [headersOk, this]

theorem hdr_eq {n : FNode} {f : Flow} {t : Txn} (hH : f.kind = .user → n.reqHeadersEmpty = f.headers.isEmpty) :
    isHeadersQualified n f t = (t.isResp || headersOk f t) := by
  unfold isHeadersQualified
  cases t.isResp with
  | true => simp
  | false =>
    simp only [Bool.false_eq_true, if_false, Bool.false_or]
    have hcheck : (f.headers.all fun kv => (f.headers.filter (fun kv' => kv'.1 == kv.1)).any
        fun kv' => hdrMatch t kv.1 kv'.2) = headersOk f t := by
      unfold headersOk
      congr 1
      funext kv
      rw [List.any_filter]
    rw [hcheck]
    by_cases he : f.headers.isEmpty = true
    · rw [headersOk_nil he]
      split <;> simp [he]
    · by_cases hu : f.kind = .user
      · have : (f.isUser && n.reqHeadersEmpty) = false := by
          rw [hH hu]; simp at he; simp [he]
        simp [this, he]
      · have : f.isUser = false := by
          cases h : f.isUser with
          | false => rfl
          | true => exact absurd ((isUser_iff f).mp h) hu
        simp [this, he]

theorem st_eq {n : FNode} {f : Flow} {t : Txn} (hS : f.kind = .user → n.reqStatusEmpty = f.statuses.isEmpty) :
    isStatusCodeQualified n f t = (!t.isResp || statusOk f t) := by
  unfold isStatusCodeQualified statusOk
  by_cases hu : f.kind = .user
  · have hiu : f.isUser = true := (isUser_iff f).mpr hu
    rw [hiu, hS hu]
    cases t.isResp <;> cases f.statuses.isEmpty <;> simp
  · have : f.isUser = false := by
      cases h : f.isUser with
      | false => rfl
      | true => exact absurd ((isUser_iff f).mp h) hu
    rw [this]
    cases t.isResp <;> cases f.statuses.isEmpty <;> simp

theorem m_eq {n : FNode} {f : Flow} {t : Txn} (hM : f.kind = .user → n.reqMethodsEmpty = f.methods.isEmpty)
    (hsys : f.kind ≠ .user → f.methods.isEmpty = true → defaultMethods.contains t.method = true) :
    isMethodQualified n f t = methodOk f t := by
  unfold isMethodQualified methodOk supportedMethods
  by_cases hu : f.kind = .user
  · have hiu : f.isUser = true := (isUser_iff f).mpr hu
    rw [hiu, hM hu]
    cases he : f.methods.isEmpty <;> simp
  · have : f.isUser = false := by
      cases h : f.isUser with
      | false => rfl
      | true => exact absurd ((isUser_iff f).mp h) hu
    rw [this]
    cases he : f.methods.isEmpty with
    | false => simp
    | true =>
      have := hsys hu he
      simpa [defaultMethods] using this

theorem q_eq {n : FNode} {f : Flow} {t : Txn} (hQ : f.kind = .user → n.reqQueryEmpty = f.query.isEmpty)
    (hqv : t.isResp = false → ∀ kv ∈ f.query, kv.2 = none → queryFind t kv.1 = none ∨ queryFind t kv.1 = some "") :
    isQueryParamsQualified n f t = (t.isResp || queryOk f t) := by
  unfold isQueryParamsQualified
  cases hr : t.isResp with
  | true => simp
  | false =>
    simp only [Bool.false_eq_true, if_false, Bool.false_or]
    by_cases hcond : (f.isUser && n.reqQueryEmpty) = true
    · rw [if_pos hcond]
      simp only [Bool.and_eq_true] at hcond
      have he : f.query.isEmpty = true := by rw [← hQ ((isUser_iff f).mp hcond.1)]; exact hcond.2
      have : f.query = [] := by simpa using he
      simp [queryOk, this]
    · rw [if_neg hcond]
      unfold queryOk
      apply all_congr_mem
      intro kv hkv
      cases hk2 : kv.2 with
      | some v => cases queryFind t kv.1 <;> simp
      | none =>
        rcases hqv hr kv hkv hk2 with h | h <;> rw [h] <;> simp

theorem flowValid_eq {n : FNode} {f : Flow} {t : Txn} (h : NodeOK n f t) : flowValid n f t = filterOk f t := by
  unfold flowValid filterOk
  rw [hdr_eq h.hH, st_eq h.hS, m_eq h.hM h.sys, q_eq h.hQ h.qv]
  cases t.isResp <;> cases headersOk f t <;> cases statusOk f t <;> cases methodOk f t <;> cases queryOk f t <;> rfl

/-! ### the selection under `Benign` -/

theorem benign_parts {cfg : List Flow} {t : Txn} (h : Benign cfg t = true) :
    mixedShapes cfg = false ∧ mergeConfused cfg = false ∧ cfgBoundaryMix cfg = false ∧ nonCanonical cfg = false ∧
    oneExtra cfg t.parts = false ∧ zeroSegWild cfg t.parts = false ∧ boundaryMix cfg t.parts = false ∧
    emptySegment t.parts = false ∧ sysDefaultMethods cfg t = false ∧ valuelessQuery cfg t = false := by
  unfold Benign benignCfg benignTxn at h
  simp only [Bool.and_eq_true, Bool.not_eq_true'] at h
  obtain ⟨⟨⟨⟨a, b⟩, c⟩, d⟩, ⟨⟨⟨⟨⟨e, f⟩, g⟩, i⟩, j⟩, k⟩⟩ := h
  exact ⟨a, b, c, d, e, f, g, i, j, k⟩

theorem benign_cfg {cfg : List Flow} {t : Txn} (h : Benign cfg t = true) : benignCfg cfg = true := by
  unfold Benign at h
  simp only [Bool.and_eq_true] at h
  exact h.1

theorem travHyp_of {cfg : List Flow} {ft : FTree} {t : Txn} (hinv : Inv ft cfg) (hb : Benign cfg t = true) :
    TravHyp ft.tree t.parts := by
  obtain ⟨_, _, hbm, _, hoe, hzs, hbt, hes, _, _⟩ := benign_parts hb
  have hflt : ∀ g ∈ cfg, flagsOK g.parts t.parts = true := by
    intro g hg
    have := any_false_of hbt g hg
    simpa using this
  refine ⟨hinv.wl, hinv.partsOK (cfgBoundaryMix_false hbm), hinv.rcoh, hinv.aligned hflt, ?_, ?_, ?_⟩
  · simpa [emptySegment] using hes
  · intro ⟨q, ov⟩ hm hew hne
    obtain ⟨g, hg, hq⟩ := hinv.dom _ _ hm
    unfold oneExtra at hoe
    have hne' : t.parts.isEmpty = false := by simpa using hne
    simp only [hne', Bool.not_false, Bool.true_and] at hoe
    have := any_false_of hoe g hg
    simp only at hew
    rw [hq, hew] at this
    simpa using this
  · intro ⟨q, ov⟩ hm
    obtain ⟨g, hg, hq⟩ := hinv.dom _ _ hm
    have := any_false_of hzs g hg
    rw [hq] at this
    simpa using this

theorem sameKeys_self (p : Pattern) : sameKeys p p = true := by simp [sameKeys]

theorem nodeOK_of {cfg : List Flow} {ft : FTree} {t : Txn} (hinv : Inv ft cfg) (hb : Benign cfg t = true)
    {q : List Part} {i : Nat} (hm : (q, some i) ∈ ft.tree) {k : Kind} {f : Flow}
    (hf : f ∈ (ft.store.getD i .empty).group k) : NodeOK (ft.store.getD i .empty) f t := by
  obtain ⟨hms, _, _, _, _, _, _, _, hsd, hvq⟩ := benign_parts hb
  obtain ⟨hfq, hfc, hfk⟩ := hinv.node q i hm k f hf
  obtain ⟨g0, hg0, hg0q, hreq⟩ := hinv.req q i hm
  have hshape : f.kind = .user → shape f = nodeShape g0 := by
    intro hu
    have h1 := any_false_of hms f hfc
    simp only [hu, beq_self_eq_true, Bool.true_and] at h1
    have h2 := any_false_of h1 g0 hg0
    rw [hfq, hg0q, sameKeys_self] at h2
    simpa using h2
  have hreqs : (ft.store.getD i .empty).reqMethodsEmpty = (nodeShape g0).1 ∧
      (ft.store.getD i .empty).reqHeadersEmpty = (nodeShape g0).2.1 ∧
      (ft.store.getD i .empty).reqQueryEmpty = (nodeShape g0).2.2.1 ∧
      (ft.store.getD i .empty).reqStatusEmpty = (nodeShape g0).2.2.2 := by
    unfold FNode.reqMethodsEmpty FNode.reqHeadersEmpty FNode.reqQueryEmpty FNode.reqStatusEmpty nodeShape shape
    rw [hreq]
    by_cases hu : g0.kind = .user <;> simp [hu]
  refine ⟨?_, ?_, ?_, ?_, ?_, ?_⟩
  · intro hu; rw [hreqs.1, ← hshape hu]; rfl
  · intro hu; rw [hreqs.2.1, ← hshape hu]; rfl
  · intro hu; rw [hreqs.2.2.1, ← hshape hu]; rfl
  · intro hu; rw [hreqs.2.2.2, ← hshape hu]; rfl
  · intro hnu hme
    unfold sysDefaultMethods at hsd
    cases hc : defaultMethods.contains t.method with
    | true => rfl
    | false =>
      exfalso
      simp only [hc, Bool.not_false, Bool.true_and] at hsd
      have := any_false_of hsd f hfc
      simp [hme, hnu] at this
  · intro hr kv hkv hk2
    unfold valuelessQuery at hvq
    simp only [hr, Bool.not_false, Bool.true_and] at hvq
    have h1 := any_false_of hvq f hfc
    have h2 := any_false_of h1 kv hkv
    simp only [hk2, Option.isNone_none, Bool.true_and] at h2
    cases hq : queryFind t kv.1 with
    | none => exact .inl rfl
    | some x =>
      right
      rw [hq] at h2
      simpa using h2

/-- `getFlow_char` under `Benign`: a loaded configuration selects exactly the flows whose own filter
    accepts the transaction and that no literal sibling shadows. -/
theorem selected_iff {cfg : List Flow} {ft : FTree} {t : Txn} (hinv : Inv ft cfg) (hb : Benign cfg t = true)
    (ht : t.parts ≠ []) (k : Kind) (f : Flow) :
    f ∈ selected ft t k ↔ f ∈ cfg ∧ f.kind = k ∧ applies f t = true ∧ shadowed cfg f t = false := by
  obtain ⟨u, us, hus⟩ : ∃ u us, t.parts = u :: us := by
    cases h : t.parts with
    | nil => exact absurd h ht
    | cons u us => exact ⟨u, us, rfl⟩
  have hth := travHyp_of hinv hb
  have hbt := (benign_parts hb).2.2.2.2.2.2.1
  rw [mem_selected, applies_eq]
  constructor
  · rintro ⟨v, hv, hfg, hval⟩
    rw [hus] at hv hth
    obtain ⟨q, hq, hmq, hsh⟩ := (mem_travS_iff hth v).mp hv
    obtain ⟨hfq, hfc, hfk⟩ := hinv.node q v hq k f hfg
    have hfl : flagsOK f.parts t.parts = true := by
      have := any_false_of hbt f hfc
      simpa using this
    refine ⟨hfc, hfk, ?_, ?_⟩
    · rw [← flowValid_eq (nodeOK_of hinv hb hq hfg), hval, Bool.and_true]
      rw [hus, hfq]
      rw [hus, hfq] at hfl
      exact matches_of_lax _ _ hmq hfl
    · unfold shadowed
      rw [List.any_eq_false]
      intro g hg
      obtain ⟨i, hi, _⟩ := hinv.cov g hg
      have := hsh _ hi
      rw [hus, hfq]
      simpa using this
  · rintro ⟨hfc, hfk, hap, hsh⟩
    simp only [Bool.and_eq_true] at hap
    obtain ⟨i, hi, hfg⟩ := hinv.cov f hfc
    rw [hfk] at hfg
    refine ⟨i, ?_, hfg, ?_⟩
    · rw [hus]
      rw [hus] at hth
      apply (mem_travS_iff hth i).mpr
      refine ⟨f.parts, hi, ?_, ?_⟩
      · rw [← hus]; exact lax_of_matches _ _ hap.1
      · intro ⟨q, ov⟩ he
        obtain ⟨g, hg, hgq⟩ := hinv.dom _ _ he
        unfold shadowed at hsh
        have := any_false_of hsh g hg
        rw [← hus, ← hgq]
        exact this
    · rw [flowValid_eq (nodeOK_of hinv hb hi hfg)]
      exact hap.2

/-! ### from the characterisation to the Spec predicates -/

theorem selOk_of {cfg : List Flow} {t : Txn} {a : Answer}
    (h : ∀ k n, n ∈ a.names k → ∃ f ∈ cfg, f.name = n ∧ f.kind = k ∧ applies f t = true) :
    selOk cfg t a = true := by
  unfold selOk
  rw [List.all_eq_true]
  intro k _
  rw [List.all_eq_true]
  intro n hn
  rw [List.any_eq_true]
  obtain ⟨f, hf, h1, h2, h3⟩ := h k n hn
  exact ⟨f, hf, by simp [h1, h2, h3]⟩

theorem compOk_of {cfg : List Flow} {t : Txn} {a : Answer}
    (h : ∀ f ∈ cfg, applies f t = true → shadowed cfg f t = false → f.name ∈ a.names f.kind) :
    compOk cfg t a = true := by
  unfold compOk
  rw [List.all_eq_true]
  intro f hf
  cases ha : applies f t with
  | false => simp
  | true =>
    cases hs : shadowed cfg f t with
    | true => simp
    | false => simpa using h f hf ha hs

theorem nOk_observe (ft : FTree) (t : Txn) : nOk (observe ft t) = true := by
  obtain ⟨hn, hf⟩ := observe_char ft t
  unfold nOk
  rw [hf]
  have hu := hn .user
  have hs := hn .sysStart
  have he := hn .sysEnd
  simp only [Answer.names] at hu hs he
  rw [hu, hs, he]
  simp only [List.any_cons, List.any_nil, Bool.or_false, List.isEmpty_map]
  cases (selected ft t .user).isEmpty <;> cases (selected ft t .sysStart).isEmpty <;>
    cases (selected ft t .sysEnd).isEmpty <;> rfl

theorem executed_nil {ft : FTree} {t : Txn} (h : (observe ft t).found = false) : executed ft t = [] := by
  unfold observe at h
  unfold executed
  rcases hg : getFlow ft t with ⟨r, b⟩
  rw [hg] at h
  cases r <;> cases b <;> simp_all

theorem mem_names_observe {ft : FTree} {t : Txn} {k : Kind} {n : String} :
    n ∈ (observe ft t).names k ↔ ∃ f ∈ selected ft t k, f.name = n := by
  rw [(observe_char ft t).1 k, List.mem_map]

theorem sameSel_of {a b : Answer} (h : ∀ k n, n ∈ a.names k ↔ n ∈ b.names k) : sameSel a b = true := by
  unfold sameSel
  rw [List.all_eq_true]
  intro k _
  simp only [Bool.and_eq_true, List.all_eq_true, List.contains_iff_mem]
  exact ⟨fun n hn => (h k n).mp hn, fun n hn => (h k n).mpr hn⟩

theorem shadowed_perm {cfg cfg' : List Flow} (hp : cfg.Perm cfg') (f : Flow) (t : Txn) :
    shadowed cfg f t = shadowed cfg' f t := by
  unfold shadowed
  rw [Bool.eq_iff_iff, List.any_eq_true, List.any_eq_true]
  exact ⟨fun ⟨g, hg, h⟩ => ⟨g, hp.mem_iff.mp hg, h⟩, fun ⟨g, hg, h⟩ => ⟨g, hp.mem_iff.mpr hg, h⟩⟩

/-- The tree the driver builds while skipping refused flows is the tree built from the accepted ones. -/
theorem loadSkip_build (fs : List Flow) : ∀ (ft : FTree),
    buildFrom ft (((fs.zip (loadSkip ft fs).2).filter (fun p => p.2.isNone)).map (·.1)) = .ok (loadSkip ft fs).1 := by
  induction fs with
  | nil => intro ft; simp [loadSkip, buildFrom]
  | cons f rest ih =>
    intro ft
    unfold loadSkip
    cases ha : addFlow ft f with
    | error e =>
      simp only
      have := ih ft
      simpa [List.zip_cons_cons] using this
    | ok ft1 =>
      simp only
      have := ih ft1
      simp only [List.zip_cons_cons, Option.isNone_none, List.filter_cons_of_pos, List.map_cons, buildFrom, ha]
      exact this

end LunarVerif.C03
