import LunarVerif.Generated.ClockFacts
/-!
# The production clock (shared by every time-dependent slice)

The models of C01, C02, C06, C08, C09, C10, C11, C12, C14, C17, C18 and C20 take time as a reading `now`
(ns since the epoch) supplied by the environment, with `since t = now - t`, `until t = t - now`, a sleep or
timer of `d` ending at `now + d`, and nanosecond resolution (two consecutive readings in one goroutine are
ordered).  The harnesses drive the code on mock or manual clocks; in production the clock is
`toolkit-core/clock.RealClock`, installed by the context manager.  That `RealClock` IS Go's `time`
package — every method a direct delegate, nothing rounded, sliced, clamped or re-derived — is an assumption
of all those models; it is tied to the source here: `Generated.clockFacts` is re-extracted from /repo on
every run (harness/go/internal/bodyfacts: signature and body, comments dropped) and the kernel compares it
with the bodies the models were written against.  A change to the production clock breaks this obligation
in every slice that depends on time, whatever the mock-clock correspondence runs say.
-/
namespace LunarVerif.Clock

/-- what the models assume of a reading `now` and an instant `t` (Go: `time.Since`, `time.Until`) -/
def since (now t : Int) : Int := now - t
def untl (now t : Int) : Int := t - now

theorem since_neg_until (now t : Int) : since now t = - untl now t := by unfold since untl; omega

/-- an instant is in the future exactly when `until` is positive and `since` negative: the expiry tests of
    the concurrency collector (`Until(expiry) <= 0`) and the window tests read the sign -/
theorem future_iff (now t : Int) : now < t ↔ (0 < untl now t ∧ since now t < 0) := by
  unfold since untl; omega

/-- the bodies the models were written against -/
def expected : List (String × String) := [
  ("RealClock.Now", "func() time.Time => return time.Now()"),
  ("RealClock.Sleep", "func(d time.Duration) => time.Sleep(d)"),
  ("RealClock.After", "func(d time.Duration) <-chan time.Time => return time.After(d)"),
  ("RealClock.Since", "func(sinceTime time.Time) time.Duration => return time.Since(sinceTime)"),
  ("RealClock.Until", "func(untilTime time.Time) time.Duration => return time.Until(untilTime)"),
  ("NewRealClock", "func() *RealClock => return &RealClock{}"),
  ("ContextManager.SetRealClock", "func() *ContextManager => m.mu.Lock(); defer m.mu.Unlock(); m.clock = clock.NewRealClock(); return instance"),
  ("ContextManager.GetClock", "func() clock.Clock => m.mu.RLock(); defer m.mu.RUnlock(); return m.clock")
]

/-- OBLIGATION on the regenerated facts: the production clock is Go's `time`, method by method. -/
theorem production_clock_is_go_time : Generated.clockFacts = expected := by decide

end LunarVerif.Clock
