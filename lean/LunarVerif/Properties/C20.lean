import LunarVerif.Proofs.C20
/-!
# C20 — Diagnosis fail-safe reacts only to stable health changes and never flaps

Property theorems only (helpers live in `Proofs/C20.lean`).  All statements quantify over every
configuration (`ConsecutiveN` any integer, any stable period, check interval and cool-down),
every start instant and every finite sequence of observations with arbitrary predicate
latencies.  The model is `Model/C20.lean` (`step` = one iteration of `StateChangeWatcher.run`).
-/
namespace LunarVerif.C20

/-- Full property: the observable history of any run satisfies `Spec.C20.holds`
    (alternation, stability before each reaction, silence during cool-down). -/
theorem c20_holds (cfg : Cfg) (t0 : Nat) (is : List Input) :
    holds cfg (run cfg (W.init t0) is) = true := by
  have := run_holds cfg is (W.init t0) [] (inv_init cfg t0) rfl
  simpa [holds] using this

/-- Reactions fire strictly alternately, starting with `unhealthy` (`false`). -/
theorem alternation (cfg : Cfg) (t0 : Nat) (is : List Input) :
    alternating false (reactions (run cfg (W.init t0) is)) = true := by
  have h := c20_holds cfg t0 is
  have := (alternating_of_holdsRev cfg _ h).1
  rw [← reactions_reverse] at this
  simpa using this

/-- A reaction for state `s` fires only on an observation of `s` that is at least the
    `max N 2`-th consecutive observation of `s`, the first of which is at least the stable
    period old; the callback runs at the observation instant. -/
theorem stable_before_reaction (cfg : Cfg) (t0 : Nat) (is : List Input)
    (pre post : List Event) (e : Event) (s : Bool)
    (hsplit : run cfg (W.init t0) is = pre ++ e :: post) (hr : e.react = some s) :
    e.obs = s ∧ 2 ≤ (sameRun s pre.reverse).length + 1 ∧
    cfg.n ≤ ((sameRun s pre.reverse).length + 1 : Nat) ∧
    runStart e pre.reverse + cfg.period ≤ e.t ∧ e.rt = e.t := by
  have h := c20_holds cfg t0 is
  rw [holds, hsplit] at h
  simp only [List.reverse_append, List.reverse_cons, List.append_assoc, List.singleton_append] at h
  have he := holdsRev_head cfg _ _ (holdsRev_append_right cfg _ _ h)
  simp only [eventOk, hr, Bool.and_eq_true, bne_iff_ne, ne_eq, beq_iff_eq, decide_eq_true_eq] at he
  obtain ⟨_, ⟨⟨⟨⟨_, h2⟩, h3⟩, h4⟩, h5⟩, h6⟩ := he
  subst h2
  exact ⟨rfl, h3, h4, h5, h6⟩

/-- Nothing is observed (hence nothing can fire) during the cool-down after `unhealthy`. -/
theorem no_observation_in_cooldown (cfg : Cfg) (t0 : Nat) (is : List Input)
    (pre post : List Event) (p e : Event)
    (hsplit : run cfg (W.init t0) is = pre ++ p :: e :: post) (hr : p.react = some false) :
    p.rt + cfg.cooldown ≤ e.t := by
  have h := c20_holds cfg t0 is
  rw [holds, hsplit] at h
  simp only [List.reverse_append, List.reverse_cons, List.append_assoc, List.singleton_append] at h
  have he := holdsRev_head cfg _ _ (holdsRev_append_right cfg _ _ h)
  simp only [List.append_eq, List.cons_append, List.nil_append, eventOk, hr, Bool.and_eq_true, Bool.or_eq_true,
    bne_iff_ne, ne_eq, decide_eq_true_eq] at he
  rcases he.1.1 with h1 | h1
  · exact absurd trivial h1
  · exact h1

/-- A flapping signal (no two consecutive observations equal) never triggers any reaction. -/
theorem flapping_silent (cfg : Cfg) (t0 : Nat) (is : List Input)
    (hflap : flapping (is.map (·.obs)) = true) :
    reactions (run cfg (W.init t0) is) = [] := by
  rw [reactions, List.filterMap_eq_nil_iff]
  intro e he
  obtain ⟨pre, post, hsplit⟩ := List.append_of_mem he
  cases hr : e.react with
  | none => rfl
  | some s =>
    exfalso
    have hs := stable_before_reaction cfg t0 is pre post e s hsplit hr
    have hobs := run_obs cfg is (W.init t0)
    rw [hsplit] at hobs
    rw [← hobs] at hflap
    -- the run of equal observations before `e` has length ≥ 1, so `pre` ends with `obs = s`
    cases hp : pre.reverse with
    | nil => rw [hp] at hs; simp [sameRun] at hs
    | cons p older =>
      rw [hp] at hs
      have hpo : p.obs = s := by
        by_cases hpo : p.obs = s
        · exact hpo
        · rw [sameRun_cons_diff _ _ _ hpo] at hs; simp at hs
      have hpre : pre = older.reverse ++ [p] := by
        have := congrArg List.reverse hp; simpa using this
      rw [hpre] at hflap
      simp only [List.map_append, List.map_cons, List.append_assoc,
        List.singleton_append] at hflap
      exact flapping_mid _ _ _ _ hflap (by rw [hpo, hs.1])

/-! ### Non-vacuity: reactions do fire on concrete runs of the model. -/

/-- N = 2, period 10, interval 5, cool-down 7: three `false` then three `true` observations
    produce exactly `unhealthy` then `healthy`. -/
example :
    reactions (run ⟨2, 10, 5, 7⟩ (W.init 100)
      [⟨false, 0⟩, ⟨false, 0⟩, ⟨false, 0⟩, ⟨true, 0⟩, ⟨true, 0⟩, ⟨true, 0⟩]) = [false, true] := by
  decide

/-- and the next observation after the `unhealthy` reaction (at 110) comes after the cool-down and the check interval (110 + 7 + 5). -/
example :
    (run ⟨2, 10, 5, 7⟩ (W.init 100) [⟨false, 0⟩, ⟨false, 0⟩, ⟨false, 0⟩, ⟨true, 0⟩]).map (·.t)
      = [100, 105, 110, 122] := by
  decide

end LunarVerif.C20
