import LunarVerif.Proofs.C20
import LunarVerif.Proofs.C20Wiring
import LunarVerif.Generated.Constants
/-!
# C20 — Diagnosis fail-safe reacts only to stable health changes and never flaps

Property theorems only (helpers live in `Proofs/C20.lean`).  All statements quantify over every
configuration (`ConsecutiveN` any integer, any stable period, check interval and cool-down),
every start instant and every finite sequence of observations with arbitrary predicate
latencies.  The model is `Model/C20.lean` (`step` = one iteration of `StateChangeWatcher.run`).
-/
namespace LunarVerif.C20

/-- Full property: the observable history of any run satisfies `Spec.C20.holds`
    (alternation, stability before each reaction, silence during cool-down). -/
theorem c20_holds (cfg : Cfg) (t0 : Nat) (is : List Input) :
    holds cfg (run cfg (W.init t0) is) = true := by
  have := run_holds cfg is (W.init t0) [] (inv_init cfg t0) rfl
  simpa [holds] using this

/-- Reactions fire strictly alternately, starting with `unhealthy` (`false`). -/
theorem alternation (cfg : Cfg) (t0 : Nat) (is : List Input) :
    alternating false (reactions (run cfg (W.init t0) is)) = true := by
  have h := c20_holds cfg t0 is
  have := (alternating_of_holdsRev cfg _ h).1
  rw [← reactions_reverse] at this
  simpa using this

/-- A reaction for state `s` fires only on an observation of `s` that is at least the
    `max N 2`-th consecutive observation of `s`, the first of which is at least the stable
    period old; the callback runs at the observation instant. -/
theorem stable_before_reaction (cfg : Cfg) (t0 : Nat) (is : List Input)
    (pre post : List Event) (e : Event) (s : Bool)
    (hsplit : run cfg (W.init t0) is = pre ++ e :: post) (hr : e.react = some s) :
    e.obs = s ∧ 2 ≤ (sameRun s pre.reverse).length + 1 ∧
    cfg.n ≤ ((sameRun s pre.reverse).length + 1 : Nat) ∧
    runStart e pre.reverse + cfg.period ≤ e.t ∧ e.rt = e.t := by
  have h := c20_holds cfg t0 is
  rw [holds, hsplit] at h
  simp only [List.reverse_append, List.reverse_cons, List.append_assoc, List.singleton_append] at h
  have he := holdsRev_head cfg _ _ (holdsRev_append_right cfg _ _ h)
  simp only [eventOk, hr, Bool.and_eq_true, bne_iff_ne, ne_eq, beq_iff_eq, decide_eq_true_eq] at he
  obtain ⟨_, ⟨⟨⟨⟨_, h2⟩, h3⟩, h4⟩, h5⟩, h6⟩ := he
  subst h2
  exact ⟨rfl, h3, h4, h5, h6⟩

/-- Nothing is observed (hence nothing can fire) during the cool-down after `unhealthy`. -/
theorem no_observation_in_cooldown (cfg : Cfg) (t0 : Nat) (is : List Input)
    (pre post : List Event) (p e : Event)
    (hsplit : run cfg (W.init t0) is = pre ++ p :: e :: post) (hr : p.react = some false) :
    p.rt + cfg.cooldown ≤ e.t := by
  have h := c20_holds cfg t0 is
  rw [holds, hsplit] at h
  simp only [List.reverse_append, List.reverse_cons, List.append_assoc, List.singleton_append] at h
  have he := holdsRev_head cfg _ _ (holdsRev_append_right cfg _ _ h)
  simp only [List.append_eq, List.cons_append, List.nil_append, eventOk, hr, Bool.and_eq_true, Bool.or_eq_true,
    bne_iff_ne, ne_eq, decide_eq_true_eq] at he
  rcases he.1.1 with h1 | h1
  · exact absurd trivial h1
  · exact h1

/-- A flapping signal (no two consecutive observations equal) never triggers any reaction. -/
theorem flapping_silent (cfg : Cfg) (t0 : Nat) (is : List Input)
    (hflap : flapping (is.map (·.obs)) = true) :
    reactions (run cfg (W.init t0) is) = [] := by
  rw [reactions, List.filterMap_eq_nil_iff]
  intro e he
  obtain ⟨pre, post, hsplit⟩ := List.append_of_mem he
  cases hr : e.react with
  | none => rfl
  | some s =>
    exfalso
    have hs := stable_before_reaction cfg t0 is pre post e s hsplit hr
    have hobs := run_obs cfg is (W.init t0)
    rw [hsplit] at hobs
    rw [← hobs] at hflap
    -- the run of equal observations before `e` has length ≥ 1, so `pre` ends with `obs = s`
    cases hp : pre.reverse with
    | nil => rw [hp] at hs; simp [sameRun] at hs
    | cons p older =>
      rw [hp] at hs
      have hpo : p.obs = s := by
        by_cases hpo : p.obs = s
        · exact hpo
        · rw [sameRun_cons_diff _ _ _ hpo] at hs; simp at hs
      have hpre : pre = older.reverse ++ [p] := by
        have := congrArg List.reverse hp; simpa using this
      rw [hpre] at hflap
      simp only [List.map_append, List.map_cons, List.append_assoc,
        List.singleton_append] at hflap
      exact flapping_mid _ _ _ _ hflap (by rw [hpo, hs.1])

/-! ### Non-vacuity: reactions do fire on concrete runs of the model. -/

/-- N = 2, period 10, interval 5, cool-down 7: three `false` then three `true` observations
    produce exactly `unhealthy` then `healthy`. -/
example :
    reactions (run ⟨2, 10, 5, 7⟩ (W.init 100)
      [⟨false, 0⟩, ⟨false, 0⟩, ⟨false, 0⟩, ⟨true, 0⟩, ⟨true, 0⟩, ⟨true, 0⟩]) = [false, true] := by
  decide

/-- and the next observation after the `unhealthy` reaction (at 110) comes after the cool-down and the check interval (110 + 7 + 5). -/
example :
    (run ⟨2, 10, 5, 7⟩ (W.init 100) [⟨false, 0⟩, ⟨false, 0⟩, ⟨false, 0⟩, ⟨true, 0⟩]).map (·.t)
      = [100, 105, 110, 122] := by
  decide

/-! ## Level 2 — what `diagnosis_failsafe.go` wires around the watcher

Model `Model/C20Wiring.lean`, specification `Spec/C20Wiring.lean`.  (a) the health predicate, (b) the
configuration read from the environment, (c) the two reactions on the policies accessor. -/

/-! ### (a) the health predicate `areSPOEConnectionsHealthy` -/

/-- The predicate answers exactly `expectedHealthy`, and fetches the stats iff both thresholds are
    readable integers. -/
theorem predicate_spec (thr : Thr) (h : Http) :
    predicate thr h = (expectedHealthy thr h, (thrParsed thr).isSome) :=
  Prod.ext (predicate_eq_expected thr h) (predicate_fetched thr h)

/-- `unhealthy` is answered exactly when both thresholds parse, the fetch is a 200 with a parsable table
    whose FIRST `lunar,BACKEND` row has both fields, and that row fails
    `rate = healthyRate ∧ lastsess·1s > healthyMax·1s` (both products in wrapping `int64` ns). -/
theorem predicate_unhealthy_iff (thr : Thr) (h : Http) :
    (predicate thr h).1 = false ↔
      ∃ rt mx rate last, thrParsed thr = some (rt, mx) ∧ classify h = .values rate last ∧
        ¬ (rate = rt ∧ secToNs mx < secToNs last) := by
  rw [predicate_eq_expected]
  unfold expectedHealthy
  cases hp : thrParsed thr with
  | none => simp
  | some p =>
    obtain ⟨rt, mx⟩ := p
    cases hc : classify h with
    | values rate last =>
      simp only [classVerdict, Bool.and_eq_false_iff, beq_eq_false_iff_ne, ne_eq, decide_eq_false_iff_not,
        Option.some.injEq, Prod.mk.injEq, FetchClass.values.injEq]
      constructor
      · intro hx
        refine ⟨rt, mx, rate, last, ⟨rfl, rfl⟩, ⟨rfl, rfl⟩, ?_⟩
        intro ⟨h1, h2⟩
        rcases hx with hx | hx
        · exact hx h1
        · exact hx h2
      · rintro ⟨rt', mx', rate', last', ⟨rfl, rfl⟩, ⟨rfl, rfl⟩, hn⟩
        by_cases h1 : rate = rt
        · right; intro h2; exact hn ⟨h1, h2⟩
        · left; exact h1
    | _ => simp [classVerdict]

/-- In the range where seconds → nanoseconds does not overflow the comparison is the plain one. -/
theorem last_session_comparison (mx last : Int)
    (h1 : -9223372036 ≤ mx) (h2 : mx ≤ 9223372036) (h3 : -9223372036 ≤ last) (h4 : last ≤ 9223372036) :
    secToNs mx < secToNs last ↔ mx < last := by
  rw [secToNs_of_small mx h1 h2, secToNs_of_small last h3 h4]; omega

/-- Every error path answers `healthy`: transport error, unreadable body, status ≠ 200, unparsable
    table, no SPOE backend row, row without the two fields - and unreadable thresholds. -/
theorem error_paths_healthy (thr : Thr) (h : Http) (he : (classify h).isError = true) :
    (predicate thr h).1 = true := by
  rw [predicate_eq_expected]; exact expectedHealthy_of_error thr h he

theorem unreadable_threshold_healthy (thr : Thr) (h : Http) (he : thrParsed thr = none) :
    predicate thr h = (true, false) := by
  rw [predicate_spec, he]; simp [expectedHealthy, he]

/-- Level 1 consequence: a watcher that is only ever told `healthy` never reacts. -/
theorem healthy_answers_silent (cfg : Cfg) (t0 : Nat) (is : List Input)
    (hall : ∀ i ∈ is, i.obs = true) : reactions (run cfg (W.init t0) is) = [] := by
  cases hr : reactions (run cfg (W.init t0) is) with
  | nil => rfl
  | cons x xs =>
    exfalso
    have halt := alternation cfg t0 is
    rw [hr] at halt
    simp only [alternating, Bool.and_eq_true, beq_iff_eq] at halt
    have hx : x = false := halt.1
    have hmem : x ∈ reactions (run cfg (W.init t0) is) := by rw [hr]; exact List.mem_cons_self
    simp only [reactions, List.mem_filterMap] at hmem
    obtain ⟨e, he, hre⟩ := hmem
    obtain ⟨pre, post, hsplit⟩ := List.append_of_mem he
    have hs := stable_before_reaction cfg t0 is pre post e x hsplit hre
    have hobs := run_obs cfg is (W.init t0)
    have : e.obs ∈ is.map (·.obs) := by
      rw [← hobs]; exact List.mem_map_of_mem he
    obtain ⟨i, hi, hio⟩ := List.mem_map.mp this
    have := hall i hi
    rw [hs.1, hx] at hio
    rw [hio] at this
    exact Bool.noConfusion this

/-- Errors alone can never trigger the `unhealthy` reaction: a wired run in which every fetch falls in
    an error class (whatever the thresholds, whatever else happens in between) produces no reaction. -/
theorem failing_fetches_never_react (cfg : Cfg) (t0 : Nat) (thr : Thr) (p0 : Option Pol) (ops : List Op)
    (herr : ∀ lat h, Op.obs lat h ∈ ops → (classify h).isError = true) :
    reactions (obsEvents (sysRun cfg (Sys.init t0 thr p0) ops)) = [] := by
  rw [obsEvents_sysRun]
  apply healthy_answers_silent
  have key : ∀ (ops : List Op) (thr : Thr),
      (∀ lat h, Op.obs lat h ∈ ops → (classify h).isError = true) →
      ∀ i ∈ inputsOf thr ops, i.obs = true := by
    intro ops
    induction ops with
    | nil => intro thr _ i hi; simp [inputsOf] at hi
    | cons op ops ih =>
      intro thr herr i hi
      have herr' : ∀ lat h, Op.obs lat h ∈ ops → (classify h).isError = true :=
        fun lat h hm => herr lat h (List.mem_cons_of_mem _ hm)
      cases op with
      | obs lat h =>
        simp only [inputsOf, List.mem_cons] at hi
        rcases hi with hi | hi
        · rw [hi]; exact error_paths_healthy thr h (herr lat h List.mem_cons_self)
        · exact ih thr herr' i hi
      | thr t => exact ih t herr' i (by simpa [inputsOf] using hi)
      | write f => exact ih thr herr' i (by simpa [inputsOf] using hi)
      | admin b => exact ih thr herr' i (by simpa [inputsOf] using hi)
      | reload => exact ih thr herr' i (by simpa [inputsOf] using hi)
      | revert f => exact ih thr herr' i (by simpa [inputsOf] using hi)
  exact key ops thr herr

/-! Non-vacuity and the boundary: with the shipped thresholds (rate 0, max 5 s) a row `0, 5` is
    unhealthy, `0, 6` healthy, `1, 6` unhealthy; the same unhealthy row behind a 503 is healthy. -/
example : (predicate dockerThr (.status 200 (.csv ⟨true, true, true, true⟩ [⟨"lunar", "BACKEND", "0", "5", 0⟩]))).1 = false := by decide
example : (predicate dockerThr (.status 200 (.csv ⟨true, true, true, true⟩ [⟨"lunar", "BACKEND", "0", "6", 0⟩]))).1 = true := by decide
example : (predicate dockerThr (.status 200 (.csv ⟨true, true, true, true⟩ [⟨"lunar", "BACKEND", "1", "6", 0⟩]))).1 = false := by decide
example : (predicate dockerThr (.status 503 (.csv ⟨true, true, true, true⟩ [⟨"lunar", "BACKEND", "1", "6", 0⟩]))).1 = true := by decide
/-- a bad record AFTER the evaluated row voids the whole table -/
example : (predicate dockerThr (.status 200 (.csv ⟨true, true, true, true⟩
    [⟨"lunar", "BACKEND", "1", "6", 0⟩, ⟨"x", "y", "1", "1", 1⟩]))).1 = true := by decide
/-- `lastsess` beyond 9 223 372 036 s wraps to a negative duration: "unhealthy" -/
example : (predicate dockerThr (.status 200 (.csv ⟨true, true, true, true⟩ [⟨"lunar", "BACKEND", "0", "9223372037", 0⟩]))).1 = false := by decide

/-! ### (b) the configuration read from the environment -/

/-- Construction succeeds iff all four variables are `strconv.Atoi`-readable; there is no default
    (the empty string is a syntax error), no lower bound (0 and negative values are accepted). -/
theorem construct_ok_iff (e : EnvCfg) :
    (∃ raw, construct e = .ok raw) ↔
      ∃ i n p c, goAtoi e.interval = .ok i ∧ goAtoi e.n = .ok n ∧ goAtoi e.period = .ok p ∧
        goAtoi e.cooldown = .ok c := by
  unfold construct getenvInt
  cases goAtoi e.interval <;> cases goAtoi e.n <;> cases goAtoi e.period <;> cases goAtoi e.cooldown <;> simp

/-- ... and then N is taken as is, the three durations are seconds turned into (wrapping) nanoseconds. -/
theorem construct_value (e : EnvCfg) (i n p c : Int)
    (hi : goAtoi e.interval = .ok i) (hn : goAtoi e.n = .ok n) (hp : goAtoi e.period = .ok p)
    (hc : goAtoi e.cooldown = .ok c) :
    construct e = .ok ⟨n, secToNs p, secToNs i, secToNs c⟩ := by
  simp [construct, getenvInt, hi, hn, hp, hc]

/-- The error of a failed construction is that of the FIRST unreadable variable in the order interval,
    N, stable period, cool-down, and carries the offending string. -/
theorem construct_first_error (e : EnvCfg) :
    (∀ k, goAtoi e.interval = .error k → construct e = .error ⟨k, e.interval⟩) ∧
    (∀ i k, goAtoi e.interval = .ok i → goAtoi e.n = .error k → construct e = .error ⟨k, e.n⟩) ∧
    (∀ i n k, goAtoi e.interval = .ok i → goAtoi e.n = .ok n → goAtoi e.period = .error k →
       construct e = .error ⟨k, e.period⟩) ∧
    (∀ i n p k, goAtoi e.interval = .ok i → goAtoi e.n = .ok n → goAtoi e.period = .ok p →
       goAtoi e.cooldown = .error k → construct e = .error ⟨k, e.cooldown⟩) := by
  refine ⟨?_, ?_, ?_, ?_⟩ <;> intros <;> simp_all [construct, getenvInt]

/-- The initial wait exists exactly for a negative check interval. -/
theorem initialWait_pos_iff (r : RawCfg) (h : -9223372036854775808 ≤ r.interval) :
    0 < r.initialWait ↔ r.interval < 0 := by
  unfold RawCfg.initialWait
  split <;> omega

/-- The shipped values (proxy/Dockerfile): N = 5, stable 7 s, every 1 s, cool-down 300 s. -/
example : (construct dockerEnv).toOption = some ⟨5, 7000000000, 1000000000, 300000000000⟩ := by decide
/-- 0 is accepted everywhere; -/
example : (construct ⟨"0", "0", "0", "0"⟩).toOption = some ⟨0, 0, 0, 0⟩ := by decide
/-- negative values too (the watcher then behaves as for 0, except the ≈ 292-year initial wait of a negative interval); -/
example : (construct ⟨"-1", "-5", "-7", "-300"⟩).toOption.map (fun r => (r.toCfg.interval, r.initialWait))
    = some (0, 9223372035854775809) := by decide
/-- an unset variable, a unit suffix or a fraction fail the construction (the engine then panics at boot); -/
example : errOf (construct ⟨"", "5", "7", "300"⟩) = some ⟨.syntax, ""⟩ := by decide
example : errOf (construct ⟨"1", "5", "7s", "300"⟩) = some ⟨.syntax, "7s"⟩ := by decide
example : errOf (construct ⟨"1", "5", "7", "0.5"⟩) = some ⟨.syntax, "0.5"⟩ := by decide
example : errOf (construct ⟨"1", "5", "7", "9223372036854775808"⟩) = some ⟨.range, "9223372036854775808"⟩ := by decide
/-- a cool-down of 9 223 372 037 s overflows to a negative duration, i.e. no cool-down at all. -/
example : (construct ⟨"1", "5", "7", "9223372037"⟩).toOption.map (·.toCfg.cooldown) = some 0 := by decide

/-! ### (c) the property through the wiring; the reactions on the policies accessor (beyond the property) -/

/-- Level 1 holds through the wiring, for every script: the health checks of a wired run satisfy
    `holds` (alternation, stability, cool-down) and every answer of the predicate is the specified one. -/
theorem c20_wiring_core (cfg : Cfg) (t0 : Nat) (thr : Thr) (p0 : Option Pol) (ops : List Op) :
    coreOk cfg thr (sysRun cfg (Sys.init t0 thr p0) ops) = true := by
  simp only [coreOk, Bool.and_eq_true]
  refine ⟨?_, predsOk_sysRun cfg ops (Sys.init t0 thr p0)⟩
  rw [obsEvents_sysRun]
  exact c20_holds cfg t0 _

/-- Connection theorem of level 2: the judge predicate `wholds` (property C20 on the wired fail-safe) is
    true of EVERY model run - every configuration the environment can state, every script of stats
    fetches, threshold changes, reloads, reverts and HAProxy moods.  No excluded class. -/
theorem c20_wiring_holds (raw : RawCfg) (t0 : Nat) (thr : Thr) (p0 : Option Pol) (ops : List Op) :
    wholds raw thr (sysRun raw.toCfg (Sys.init t0 thr p0) ops) = true :=
  c20_wiring_core _ t0 thr p0 ops

/-- Beyond the property (model theorem, not judged): in every wired run with an accessor, right after an `unhealthy` reaction
    that HAProxy does not refuse no diagnosis plugin is in force, and right after `healthy again` the
    policies read by the latest reload (boot file at first) are - whatever reloads, refusals and reverts
    came before. -/
theorem reaction_effect (cfg : Cfg) (t0 : Nat) (thr : Thr) (p : Pol) (ops : List Op) :
    effectOk (Eff.init p) (sysRun cfg (Sys.init t0 thr (some p)) ops) = true :=
  effect_run _ ops _ _ (Acc.boot p) rfl (einv_boot p)

/-- `effectOk` rejects a history in which the `unhealthy` reaction leaves a diagnosis in force. -/
example :
    effectOk (Eff.init ⟨1, true, false, false⟩)
      [(.obs 0 .transportErr, .obs ⟨0, false, some false, 0⟩ true (some ⟨1, true, false, false⟩))] = false := by
  decide

/-- Beyond the property (model theorem): every wired run that contains no step of the three classes
    `Beyond` (reload while diagnosis-free; a revert HAProxy refuses; a reload HAProxy refuses) keeps the
    policies in force on the reference: diagnosis-free variant of the latest load from an `unhealthy`
    reaction to the next `healthy` one, the latest load itself otherwise. -/
theorem policies_follow_reference (cfg : Cfg) (t0 : Nat) (thr : Thr) (p0 : Option Pol) (ops : List Op)
    (hex : wexcluded p0 (sysRun cfg (Sys.init t0 thr p0) ops) = none) :
    inForceOk p0 (sysRun cfg (Sys.init t0 thr p0) ops) = true := by
  cases p0 with
  | none => exact noacc_run _ ops _ rfl
  | some p => exact policies_run _ ops _ _ (Acc.boot p) rfl (ainv_boot p) hex

/-- The hypothesis is satisfiable by a non-trivial run: a full unhealthy/healthy cycle with two reloads
    outside the unhealthy period (N = 2, no period, no cool-down). -/
example :
    let U := Op.obs 0 (.status 200 (.csv ⟨true, true, true, true⟩ [⟨"lunar", "BACKEND", "0", "5", 0⟩]))
    let H := Op.obs 0 (.status 200 (.csv ⟨true, true, true, true⟩ [⟨"lunar", "BACKEND", "0", "6", 0⟩]))
    let ops := [.write (.good ⟨2, true, false, true⟩), .reload, U, U, H, H, .write (.good ⟨3, false, true, false⟩), .reload]
    let h := sysRun ⟨2, 0, 0, 0⟩ (Sys.init 0 dockerThr (some ⟨1, true, true, false⟩)) ops
    wexcluded (some ⟨1, true, true, false⟩) h = none ∧ reactions (obsEvents h) = [false, true] := by
  decide

/-- Observation beyond C20 (model fact, not a violation): a reload arriving while the fail-safe holds the policies diagnosis-free puts the diagnoses back
    in force although the link is still unhealthy (the reload itself is not lost: see
    `reload_survives_unhealthy_period`). -/
theorem reload_while_free_observation_witness :
    ∃ ops : List Op,
      let h := sysRun ⟨2, 0, 0, 0⟩ (Sys.init 0 dockerThr (some ⟨1, true, true, false⟩)) ops
      policiesOk (Ref.init ⟨1, true, true, false⟩) h = false ∧
      excluded (Ref.init ⟨1, true, true, false⟩) h = some .reloadWhileFree :=
  ⟨[.obs 0 (.status 200 (.csv ⟨true, true, true, true⟩ [⟨"lunar", "BACKEND", "0", "5", 0⟩])),
    .obs 0 (.status 200 (.csv ⟨true, true, true, true⟩ [⟨"lunar", "BACKEND", "0", "5", 0⟩])),
    .write (.good ⟨2, true, true, false⟩), .reload], by decide⟩

/-- Observation beyond C20 (model fact, not a violation): a revert refused by HAProxy is only logged; the watcher counts the reaction as done and never
    retries: the diagnoses stay in force for the whole unhealthy period. -/
theorem refused_revert_observation_witness :
    ∃ ops : List Op,
      let h := sysRun ⟨2, 0, 0, 0⟩ (Sys.init 0 dockerThr (some ⟨1, true, false, true⟩)) ops
      policiesOk (Ref.init ⟨1, true, false, true⟩) h = false ∧
      excluded (Ref.init ⟨1, true, false, true⟩) h = some .revertRefused :=
  ⟨[.admin true,
    .obs 0 (.status 200 (.csv ⟨true, true, true, true⟩ [⟨"lunar", "BACKEND", "0", "5", 0⟩])),
    .obs 0 (.status 200 (.csv ⟨true, true, true, true⟩ [⟨"lunar", "BACKEND", "0", "5", 0⟩])),
    .admin false,
    .obs 0 (.status 200 (.csv ⟨true, true, true, true⟩ [⟨"lunar", "BACKEND", "0", "5", 0⟩]))], by decide⟩

/-- Observation beyond C20 (model fact, not a violation): a reload refused by HAProxy has already overwritten both "last loaded" snapshots; the next
    reaction installs the (diagnosis-free variant of the) refused policies. -/
theorem refused_reload_observation_witness :
    ∃ ops : List Op,
      let h := sysRun ⟨2, 0, 0, 0⟩ (Sys.init 0 dockerThr (some ⟨1, true, false, false⟩)) ops
      policiesOk (Ref.init ⟨1, true, false, false⟩) h = false ∧
      excluded (Ref.init ⟨1, true, false, false⟩) h = some .reloadRefused :=
  ⟨[.admin true, .write (.good ⟨2, false, true, true⟩), .reload, .admin false,
    .obs 0 (.status 200 (.csv ⟨true, true, true, true⟩ [⟨"lunar", "BACKEND", "0", "5", 0⟩])),
    .obs 0 (.status 200 (.csv ⟨true, true, true, true⟩ [⟨"lunar", "BACKEND", "0", "5", 0⟩]))], by decide⟩

/-- What "last loaded" is: after a `ReloadFromFile` of a readable file both snapshots hold THAT file -
    whether or not HAProxy then accepted it, whatever the mode; an unreadable file changes nothing. -/
theorem last_loaded_is_last_read (a : Acc) :
    (∀ p, a.file.content = some p →
      a.reload.1.loadedFull = some p ∧ a.reload.1.loadedFree = some (strip p)) ∧
    (a.file.content = none → a.reload = (a, false)) := by
  constructor
  · intro p hp
    simp only [Acc.reload, hp, Acc.update]
    split <;> exact ⟨rfl, rfl⟩
  · intro hn; simp [Acc.reload, hn]

/-- A reload arriving during the unhealthy period is not lost: once HAProxy accepts it, the `healthy`
    reaction (`RevertToLastLoaded`) puts exactly the reloaded policies in force. -/
theorem reload_survives_unhealthy_period (a : Acc) (p : Pol) (hp : a.file.content = some p)
    (hadm : (a.adminFail && needsAdmin p) = false) :
    ((a.reload.1).revert false).1.cur = p := by
  have h1 : a.reload.1.loadedFull = some p := ((last_loaded_is_last_read a).1 p hp).1
  have h2 : a.reload.1.adminFail = a.adminFail := by
    simp only [Acc.reload, hp, Acc.update]; split <;> rfl
  simp only [Acc.revert, Bool.false_eq_true, if_false, h1, Acc.update, h2, hadm]

/-- The `unhealthy` reaction strips exactly the diagnoses (global and endpoint), nothing else. -/
theorem strip_spec (p : Pol) : (strip p).k = p.k ∧ (strip p).r = p.r ∧ (strip p).g = false ∧ (strip p).e = false :=
  ⟨rfl, rfl, rfl, rfl⟩

/-- The policies in force, stated directly: after any script without manual reverts and without a step of
    the three `Beyond` classes - any interleaving of health checks (through the level-1 watcher), file
    writes, reloads and HAProxy moods - the policies in force are the diagnosis-free variant of `L` exactly
    when the watcher's last reaction was `unhealthy`, and `L` itself otherwise (no reaction yet, or the last
    one was `healthy`), where `L` = the policies of the latest successful (re)load; and "last loaded" is `L`. -/
theorem in_force_between_reactions (cfg : Cfg) (t0 : Nat) (thr : Thr) (p : Pol) (ops : List Op)
    (hnr : ∀ f, Op.revert f ∉ ops)
    (hex : excluded (Ref.init p) (sysRun cfg (Sys.init t0 thr (some p)) ops) = none) :
    ∃ a, (sysFinal cfg (Sys.init t0 thr (some p)) ops).acc = some a ∧
      a.cur = (if lastReaction (obsEvents (sysRun cfg (Sys.init t0 thr (some p)) ops)).reverse
               then (refRun (Ref.init p) (sysRun cfg (Sys.init t0 thr (some p)) ops)).L
               else strip (refRun (Ref.init p) (sysRun cfg (Sys.init t0 thr (some p)) ops)).L) ∧
      a.loadedFull = some (refRun (Ref.init p) (sysRun cfg (Sys.init t0 thr (some p)) ops)).L := by
  obtain ⟨a, ha, hinv⟩ := policies_run_final cfg ops (Sys.init t0 thr (some p)) (Ref.init p) (Acc.boot p)
    rfl (ainv_boot p) hex
  refine ⟨a, ha, ?_, hinv.full⟩
  have hdf := refRun_df cfg ops hnr (Sys.init t0 thr (some p)) (Ref.init p)
  rw [hinv.cur, Ref.expect, hdf, lastReaction_reverse]
  simp only [Ref.init, Bool.not_false]
  cases lastReactFold true (obsEvents (sysRun cfg (Sys.init t0 thr (some p)) ops)) <;> simp

/-- Non-vacuity: after `unhealthy` the stripped version 2 is in force, after `healthy` version 2 itself. -/
example :
    let U := Op.obs 0 (.status 200 (.csv ⟨true, true, true, true⟩ [⟨"lunar", "BACKEND", "0", "5", 0⟩]))
    let H := Op.obs 0 (.status 200 (.csv ⟨true, true, true, true⟩ [⟨"lunar", "BACKEND", "0", "6", 0⟩]))
    let s0 := Sys.init 0 dockerThr (some ⟨1, true, true, false⟩)
    ((sysFinal ⟨2, 0, 0, 0⟩ s0 [.write (.good ⟨2, true, false, true⟩), .reload, U, U]).acc.map (·.cur),
     (sysFinal ⟨2, 0, 0, 0⟩ s0 [.write (.good ⟨2, true, false, true⟩), .reload, U, U, H, H]).acc.map (·.cur))
    = (some ⟨2, false, false, true⟩, some ⟨2, true, false, true⟩) := by
  decide

/-! ### The shipped configuration (regenerated from `proxy/Dockerfile` by the extractor) -/

open LunarVerif.Generated in
/-- Obligation: the `ENV DIAGNOSIS_FAILSAFE_*` values extracted from the tree under test are the ones the
    level-2 model and generators use (`dockerEnv`, `dockerThr`), all six were found, they construct, and the
    constructed configuration is a sane one (N ≥ 2, positive interval / stable period / cool-down, no
    overflow, no initial wait). -/
theorem shipped_defaults_ok :
    Const.notFound.all (fun n => !n.startsWith "dfs") = true ∧
    (goAtoi dockerEnv.interval).toOption = some Const.dfsMinSecBetweenCalls ∧
    (goAtoi dockerEnv.n).toOption = some Const.dfsConsecutiveN ∧
    (goAtoi dockerEnv.period).toOption = some Const.dfsMinStableSec ∧
    (goAtoi dockerEnv.cooldown).toOption = some Const.dfsCooldownSec ∧
    (goAtoi dockerThr.rate).toOption = some Const.dfsHealthySessionRate ∧
    (goAtoi dockerThr.max).toOption = some Const.dfsHealthyMaxLastSessionSec ∧
    (construct dockerEnv).toOption =
      some ⟨Const.dfsConsecutiveN, Const.dfsMinStableSec * 1000000000,
            Const.dfsMinSecBetweenCalls * 1000000000, Const.dfsCooldownSec * 1000000000⟩ ∧
    2 ≤ Const.dfsConsecutiveN ∧ 0 < Const.dfsMinSecBetweenCalls ∧ 0 < Const.dfsMinStableSec ∧
    0 < Const.dfsCooldownSec ∧ Const.dfsCooldownSec ≤ 9223372036 := by
  decide

open LunarVerif.Generated in
/-- The level-1 configuration the shipped defaults amount to. -/
def shippedCfg : Cfg :=
  ⟨Const.dfsConsecutiveN, (Const.dfsMinStableSec * 1000000000).toNat,
   (Const.dfsMinSecBetweenCalls * 1000000000).toNat, (Const.dfsCooldownSec * 1000000000).toNat⟩

/-- Level 1 at the shipped configuration. -/
theorem c20_holds_shipped (t0 : Nat) (is : List Input) :
    holds shippedCfg (run shippedCfg (W.init t0) is) = true := c20_holds shippedCfg t0 is

/-- Level 2 at the shipped configuration: the environment of the Dockerfile constructs, to exactly
    `shippedCfg`, and every wired run under it (shipped thresholds, any script) satisfies the property. -/
theorem c20_wiring_holds_shipped :
    ∃ raw, (construct dockerEnv).toOption = some raw ∧ raw.toCfg = shippedCfg ∧ raw.initialWait = 0 ∧
      ∀ (t0 : Nat) (p0 : Option Pol) (ops : List Op),
        wholds raw dockerThr (sysRun raw.toCfg (Sys.init t0 dockerThr p0) ops) = true :=
  ⟨⟨5, 7000000000, 1000000000, 300000000000⟩, by decide, by rfl, by decide,
   fun t0 p0 ops => c20_wiring_holds _ t0 dockerThr p0 ops⟩

end LunarVerif.C20
