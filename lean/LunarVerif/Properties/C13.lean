import LunarVerif.Proofs.C13
/-!
# C13 — Endpoint policies apply only to requests matching their declared endpoint

Property theorems only (helpers: `Proofs/UrlTree.lean`, `Proofs/C13.lean`).  Model: `Model/UrlTree.lean`
(extensional trie), `Model/C13.lean` (`BuildEndpointPolicyTree` with explicit map identity, selection of
`getRemedies`/`getDiagnoses`).  Spec: `Spec/UrlMatch.lean`, `Spec/C13.lean` (observable terms only).
All `_partial` theorems quantify over every endpoint list, every request and every global configuration;
their extra hypotheses are exactly the decidable classifiers of `Spec/C13.lean` (findings F13a–e), and each
class has a `_violation_witness` showing that the hypothesis cannot be dropped on the unchanged code.
-/
namespace LunarVerif.C13
open LunarVerif.UrlTree LunarVerif.UrlMatch

/-! ### witnesses: concrete declarations (already split, as `splitURL` does) -/

def hostApiCom : List Part := [⟨true, .lit "api"⟩, ⟨true, .lit "com"⟩]
/-- `GET api.com/users/{id}` → remedy A -/
def epUsersId : Endpoint :=
  ⟨"GET", "api.com/users/{id}", hostApiCom ++ [⟨false, .lit "users"⟩, ⟨false, .par "id"⟩], [⟨"A", 1, true⟩], []⟩
/-- `GET api.com/users/me` → remedy B -/
def epUsersMe : Endpoint :=
  ⟨"GET", "api.com/users/me", hostApiCom ++ [⟨false, .lit "users"⟩, ⟨false, .lit "me"⟩], [⟨"B", 2, true⟩], []⟩
/-- request URL `api.com/users/123` -/
def urlUsers123 : List Part := hostApiCom ++ [⟨false, .lit "users"⟩, ⟨false, .lit "123"⟩]
def noGlobals : Globals := ⟨[], []⟩

/-- Endpoint remedies the model applies to `(m, u)` under the declaration order `es` (`none`: build error). -/
def appliedRemedies (es : List Endpoint) (m : String) (u : List Part) : Option (List String) :=
  match build es with
  | .ok pt => some (getRemedies pt noGlobals m u).1
  | .error _ => none

/-- F13a.  Declared `[GET api.com/users/{id} → A, GET api.com/users/me → B]`: `GET api.com/users/123`
    receives B — a policy whose pattern does not match it — and A is gone. -/
theorem alias_violation_witness :
    appliedRemedies [epUsersId, epUsersMe] "GET" urlUsers123 = some ["B"] ∧
    «matches» epUsersMe.parts urlUsers123 = false ∧
    (∃ pt, build [epUsersId, epUsersMe] = .ok pt ∧
      soundOk [epUsersId, epUsersMe] "GET" urlUsers123 (observe pt noGlobals "GET" urlUsers123) = false) := by
  refine ⟨by decide, by decide, ?_⟩
  cases h : build [epUsersId, epUsersMe] with
  | error e =>
    have : (match build [epUsersId, epUsersMe] with | .ok _ => true | .error _ => false) = true := by decide
    rw [h] at this
    exact absurd this (by simp)
  | ok pt =>
    refine ⟨pt, rfl, ?_⟩
    have : (match build [epUsersId, epUsersMe] with
      | .ok pt => soundOk [epUsersId, epUsersMe] "GET" urlUsers123 (observe pt noGlobals "GET" urlUsers123)
      | .error _ => true) = false := by decide
    rw [h] at this
    exact this

/-- The reverse declaration order behaves as intended: the outcome depends on the declaration order. -/
theorem order_dependence_witness :
    appliedRemedies [epUsersMe, epUsersId] "GET" urlUsers123 = some ["A"] ∧
    appliedRemedies [epUsersId, epUsersMe] "GET" urlUsers123 = some ["B"] ∧
    [epUsersMe, epUsersId].Perm [epUsersId, epUsersMe] := by
  refine ⟨by decide, by decide, ?_⟩
  exact List.Perm.swap _ _ _

/-- (S) Soundness outside the excluded classes: if no declared URL is (laxly) matched by an EARLIER declared
    different pattern (¬F13a), no declared pattern follows the request URL across the host/path boundary
    (¬F13c) and the URL has no empty segment (¬F13d), then a policy is applied to `(m, u)` only if it was
    declared for method `m` with a pattern that `matches` `u` — for every endpoint list, globals, request. -/
theorem sound_partial (es : List Endpoint) (g : Globals) (pt : PTree) (m : String) (u : List Part)
    (hbuild : build es = .ok pt)
    (hF13a : crossMatchEarlier es = false) (hF13c : boundaryMix es u = false)
    (hF13d : emptySegment u = false) :
    soundOk es m u (observe pt g m u) = true := by
  have hne : urlNonEmpty u = true := by simpa [emptySegment] using hF13d
  exact soundOk_of_select g m u (select_sound (build_inv hF13a hbuild) m u hne hF13c)

/-- non-vacuity of `sound_partial`: overlapping declarations in the benign order, a matching request. -/
example :
    crossMatchEarlier [epUsersMe, epUsersId] = false ∧ boundaryMix [epUsersMe, epUsersId] urlUsers123 = false ∧
    emptySegment urlUsers123 = false ∧ appliedRemedies [epUsersMe, epUsersId] "GET" urlUsers123 = some ["A"] := by
  decide

/-! ### (P) and (N): parameters and normalised URL -/

/-- (P) Outside F13a–d: every extracted `(name, value)` is `{name}` in the applied policy's pattern at a
    position where the request URL has the segment `value`. -/
theorem params_are_segments_partial (es : List Endpoint) (g : Globals) (pt : PTree) (m : String) (u : List Part)
    (hbuild : build es = .ok pt)
    (hF13a : crossMatchEarlier es = false) (hF13c : boundaryMix es u = false)
    (hF13d : emptySegment u = false) (hF13b : wildDisplaced es u = false) :
    paramsOkA es m u (observe pt g m u) = true := by
  have hne : urlNonEmpty u = true := by simpa [emptySegment] using hF13d
  have hinv := build_inv hF13a hbuild
  unfold paramsOkA
  apply any_soundFor g m u (fun e => paramsOk e.parts u (observe pt g m u).params)
    (select_sound hinv m u hne hF13c)
  intro pol hp
  obtain ⟨_, hpar⟩ := select_exact hinv m u hne hF13c hF13b pol hp
  simp only [paramsOk, observe, hpar]
  rw [List.all_eq_true]
  intro ⟨k, v⟩ hkv
  rcases bindParams_mem _ _ _ _ _ hkv with h | ⟨pu, hpu, h1, h2⟩
  · simp at h
  · rw [List.any_eq_true]
    exact ⟨pu, hpu, by simp [h1, h2]⟩

/-- (N) Outside F13a–d: the reported normalised URL is the applied policy's declared pattern (which matches
    the request, by `sound_partial`). -/
theorem normalized_is_declared_and_matches_partial (es : List Endpoint) (g : Globals) (pt : PTree)
    (m : String) (u : List Part) (hbuild : build es = .ok pt)
    (hF13a : crossMatchEarlier es = false) (hF13c : boundaryMix es u = false)
    (hF13d : emptySegment u = false) (hF13b : wildDisplaced es u = false) :
    normOk es m u (observe pt g m u) = true := by
  have hne : urlNonEmpty u = true := by simpa [emptySegment] using hF13d
  have hinv := build_inv hF13a hbuild
  unfold normOk
  apply any_soundFor g m u (fun e => (observe pt g m u).normParts == e.parts)
    (select_sound hinv m u hne hF13c)
  intro pol hp
  obtain ⟨hnorm, _⟩ := select_exact hinv m u hne hF13c hF13b pol hp
  simp [observe, hnorm]

/-- `GET a.com/x/*` → remedy A (F13b witness). -/
def epXWild : Endpoint :=
  ⟨"GET", "a.com/x/*", [⟨true, .lit "a"⟩, ⟨true, .lit "com"⟩, ⟨false, .lit "x"⟩, ⟨false, .wild⟩], [⟨"A", 1, true⟩], []⟩
def urlX : List Part := [⟨true, .lit "a"⟩, ⟨true, .lit "com"⟩, ⟨false, .lit "x"⟩]
def urlXY : List Part := urlX ++ [⟨false, .lit "y"⟩]

/-- Normalised URL reported for `(m, u)` (parts), `none` on build error or when no policy applies. -/
def reportedNorm (es : List Endpoint) (m : String) (u : List Part) : Option (List Part) :=
  match build es with
  | .ok pt => (select pt m u).policy.map (fun _ => (select pt m u).norm)
  | .error _ => none

/-- F13b.  Only `a.com/x/*` declared, request `a.com/x`: the policy is applied (the `*` swallows nothing)
    but the reported normalised URL is `a.com/x`, which is not a declared pattern. -/
theorem zero_segment_wildcard_violation_witness :
    reportedNorm [epXWild] "GET" urlX = some urlX ∧ urlX ≠ epXWild.parts ∧
    wildDisplaced [epXWild] urlX = true ∧
    (∃ pt, build [epXWild] = .ok pt ∧ normOk [epXWild] "GET" urlX (observe pt noGlobals "GET" urlX) = false) := by
  refine ⟨by decide, by decide, by decide, ?_⟩
  cases h : build [epXWild] with
  | error e =>
    have : (match build [epXWild] with | .ok _ => true | .error _ => false) = true := by decide
    rw [h] at this
    exact absurd this (by simp)
  | ok pt =>
    refine ⟨pt, rfl, ?_⟩
    have : (match build [epXWild] with
      | .ok pt => normOk [epXWild] "GET" urlX (observe pt noGlobals "GET" urlX)
      | .error _ => true) = false := by decide
    rw [h] at this
    exact this

/-- non-vacuity of (P)/(N): a request with one more segment is outside every excluded class, the policy
    is applied and the normalised URL is the declared pattern. -/
example :
    crossMatchEarlier [epXWild] = false ∧ boundaryMix [epXWild] urlXY = false ∧ emptySegment urlXY = false ∧
    wildDisplaced [epXWild] urlXY = false ∧ reportedNorm [epXWild] "GET" urlXY = some epXWild.parts := by
  decide

/-- non-vacuity of (P): a parameter is extracted. -/
example :
    wildDisplaced [epUsersMe, epUsersId] urlUsers123 = false ∧
    (match build [epUsersMe, epUsersId] with
     | .ok pt => (select pt "GET" urlUsers123).params == [("id", "123")]
     | .error _ => false) = true := by
  decide

/-! ### (M): most specific, as far as the non-backtracking lookup guarantees it -/

/-- (M) Outside F13a, F13c, F13d: the applied policy's pattern `p` is at least as specific (`specLE`:
    literal > parameter > wildcard, position-wise, lexicographic) as EVERY declared pattern `q` that matches
    the request — except when `passedOver p q`: `p` ends in `*` and `q` follows the same trie path up to that
    `*` and continues with a literal/parameter there.  That exception is precisely the lookup's lack of
    backtracking (after entering a literal/parameter child it can only fall back to the deepest `*` seen);
    it never arises when the applied pattern does not end in `*`. -/
theorem most_specific_partial (es : List Endpoint) (g : Globals) (pt : PTree) (m : String) (u : List Part)
    (hbuild : build es = .ok pt)
    (hF13a : crossMatchEarlier es = false) (hF13c : boundaryMix es u = false)
    (hF13d : emptySegment u = false) :
    mostSpecificOk es m u (observe pt g m u) = true := by
  have hne : urlNonEmpty u = true := by simpa [emptySegment] using hF13d
  have hinv := build_inv hF13a hbuild
  unfold mostSpecificOk
  exact any_soundFor g m u (fun e => mostSpecificFor es u e) (select_sound hinv m u hne hF13c)
    (select_most_specific hinv m u hne hF13c)

/-- The `passedOver` exception is empty for patterns that do not end in `*`: an applied literal/parameter
    pattern is a maximum of the matching declared patterns. -/
theorem passedOver_only_wildcard (p q : Pattern) (h : passedOver p q = true) :
    ∃ l, p.getLast? = some l ∧ l.seg = .wild := by
  induction p generalizing q with
  | nil => simp [passedOver] at h
  | cons a p ih =>
    cases q with
    | nil => simp [passedOver] at h
    | cons b q =>
      cases p with
      | nil => simp [passedOver] at h; exact ⟨a, rfl, h.1⟩
      | cons c p =>
        simp only [passedOver, List.isEmpty_cons, Bool.false_eq_true, if_false, Bool.and_eq_true] at h
        obtain ⟨l, hl, hw⟩ := ih q h.2
        exact ⟨l, by simpa [List.getLast?_cons_cons] using hl, hw⟩

/-- `GET a.com/x/y`→A, `GET a.com/{p}/z`→B, `GET a.com/*`→C (pairwise no cross-match). -/
def epXY : Endpoint :=
  ⟨"GET", "a.com/x/y", [⟨true, .lit "a"⟩, ⟨true, .lit "com"⟩, ⟨false, .lit "x"⟩, ⟨false, .lit "y"⟩], [⟨"A", 1, true⟩], []⟩
def epPZ : Endpoint :=
  ⟨"GET", "a.com/{p}/z", [⟨true, .lit "a"⟩, ⟨true, .lit "com"⟩, ⟨false, .par "p"⟩, ⟨false, .lit "z"⟩], [⟨"B", 2, true⟩], []⟩
def urlXZ : List Part := [⟨true, .lit "a"⟩, ⟨true, .lit "com"⟩, ⟨false, .lit "x"⟩, ⟨false, .lit "z"⟩]
def urlWZ : List Part := [⟨true, .lit "a"⟩, ⟨true, .lit "com"⟩, ⟨false, .lit "w"⟩, ⟨false, .lit "z"⟩]

/-- The lookup does not backtrack: `a.com/x/z` is matched by the declared `a.com/{p}/z`, but the walk takes
    the literal `x` and finds nothing — no policy is applied (this is the design of the trie, stated here so
    that (M) is not over-read as a completeness claim). -/
theorem no_backtracking_witness :
    «matches» epPZ.parts urlXZ = true ∧ crossMatch [epXY, epPZ] = false ∧
    appliedRemedies [epXY, epPZ] "GET" urlXZ = some [] ∧
    appliedRemedies [epXY, epPZ] "GET" urlWZ = some ["B"] := by
  decide

/-- non-vacuity of (M): two declared patterns match `api.com/users/me`, the literal one is applied. -/
example :
    crossMatchEarlier [epUsersMe, epUsersId] = false ∧
    «matches» epUsersId.parts epUsersMe.parts = true ∧ «matches» epUsersMe.parts epUsersMe.parts = true ∧
    appliedRemedies [epUsersMe, epUsersId] "GET" epUsersMe.parts = some ["B"] ∧
    specLE epUsersId.parts epUsersMe.parts = true ∧ specLE epUsersMe.parts epUsersId.parts = false := by
  decide

def epWildAll : Endpoint :=
  ⟨"GET", "a.com/*", [⟨true, .lit "a"⟩, ⟨true, .lit "com"⟩, ⟨false, .wild⟩], [⟨"C", 3, true⟩], []⟩

/-- The `passedOver` exception of (M) is real: with `a.com/x/y`, `a.com/{p}/z`, `a.com/*` declared (in this
    order: no declared URL is matched by an earlier pattern), `a.com/x/z` gets the `*` policy although the
    matching `a.com/{p}/z` is more specific — the walk entered `x`, failed, and fell back to the `*`. -/
theorem passed_over_witness :
    crossMatchEarlier [epXY, epPZ, epWildAll] = false ∧
    appliedRemedies [epXY, epPZ, epWildAll] "GET" urlXZ = some ["C"] ∧
    «matches» epPZ.parts urlXZ = true ∧ specLE epPZ.parts epWildAll.parts = false ∧
    passedOver epWildAll.parts epPZ.parts = true := by
  decide

/-! ### (G) and the connection theorem: the judge's per-request predicate holds of every model answer -/

/-- (G) Global remedies/diagnoses and `shouldDiagnose` are as specified — unconditionally. -/
theorem globals_ok (pt : PTree) (g : Globals) (m : String) (u : List Part) :
    globalsOk g (observe pt g m u) = true := globalsOk_observe pt g m u

/-- Connection theorem.  `reqOk` — the very predicate `lvdriver_c13 judge` evaluates on the
    implementation's answers — is true of the model's answer to EVERY request on EVERY successfully built
    endpoint list, outside the four excluded classes (whose members the judge labels F13a–d). -/
theorem c13_holds_partial (es : List Endpoint) (g : Globals) (pt : PTree) (m : String) (u : List Part)
    (hbuild : build es = .ok pt)
    (hF13a : crossMatchEarlier es = false) (hF13b : wildDisplaced es u = false)
    (hF13c : boundaryMix es u = false) (hF13d : emptySegment u = false) :
    reqOk es g m u (observe pt g m u) = true := by
  unfold reqOk
  rw [sound_partial es g pt m u hbuild hF13a hF13c hF13d,
    most_specific_partial es g pt m u hbuild hF13a hF13c hF13d,
    params_are_segments_partial es g pt m u hbuild hF13a hF13c hF13d hF13b,
    normalized_is_declared_and_matches_partial es g pt m u hbuild hF13a hF13c hF13d hF13b,
    globals_ok]
  rfl

/-! ### the remaining excluded classes are not empty on the unchanged code -/

def urlEvil : List Part :=
  [⟨true, .lit "a"⟩, ⟨true, .lit "com"⟩, ⟨true, .lit "evil"⟩, ⟨true, .lit "org"⟩, ⟨false, .lit "x"⟩]

/-- F13c.  `a.com/*` is applied to the host `a.com.evil.org`. -/
theorem boundary_violation_witness :
    appliedRemedies [epWildAll] "GET" urlEvil = some ["C"] ∧ «matches» epWildAll.parts urlEvil = false ∧
    boundaryMix [epWildAll] urlEvil = true ∧ crossMatchEarlier [epWildAll] = false ∧ emptySegment urlEvil = false := by
  decide

def epUserPosts : Endpoint :=
  ⟨"GET", "a.com/users/{id}/posts",
    [⟨true, .lit "a"⟩, ⟨true, .lit "com"⟩, ⟨false, .lit "users"⟩, ⟨false, .par "id"⟩, ⟨false, .lit "posts"⟩],
    [⟨"A", 1, true⟩], []⟩
/-- `a.com/users//posts` -/
def urlEmptyId : List Part :=
  [⟨true, .lit "a"⟩, ⟨true, .lit "com"⟩, ⟨false, .lit "users"⟩, ⟨false, .lit ""⟩, ⟨false, .lit "posts"⟩]

/-- F13d.  `{id}` accepts the empty segment of `a.com/users//posts`. -/
theorem empty_segment_violation_witness :
    appliedRemedies [epUserPosts] "GET" urlEmptyId = some ["A"] ∧ «matches» epUserPosts.parts urlEmptyId = false ∧
    emptySegment urlEmptyId = true ∧ boundaryMix [epUserPosts] urlEmptyId = false := by
  decide

def epX1 : Endpoint := ⟨"GET", "a.com/x", urlX, [⟨"A", 1, true⟩], []⟩
def epX2 : Endpoint := ⟨"GET", "a.com/x", urlX, [⟨"B", 2, true⟩], []⟩

/-- F13e.  The same method+URL declared twice with remedies of different types is accepted and the later
    declaration replaces the earlier one: the outcome depends on the declaration order although no pattern
    cross-matches another. -/
theorem duplicate_key_order_witness :
    appliedRemedies [epX1, epX2] "GET" urlX = some ["B"] ∧ appliedRemedies [epX2, epX1] "GET" urlX = some ["A"] ∧
    crossMatch [epX1, epX2] = false ∧ dupKeys [epX1, epX2] = true := by
  decide

/-- (D) Outside F13a, F13c, F13d: the remedy that answers through the dispatcher (first of the endpoint-scoped
    then global enabled remedies) is an enabled global remedy or an enabled remedy of an endpoint declared for
    the request's method whose pattern matches the request URL. -/
theorem dispatch_sound_partial (es : List Endpoint) (g : Globals) (pt : PTree) (m : String) (u : List Part)
    (first : String) (hbuild : build es = .ok pt)
    (hF13a : crossMatchEarlier es = false) (hF13c : boundaryMix es u = false)
    (hF13d : emptySegment u = false) (hd : dispatchFirst pt g m u = some first) :
    dispOk es g m u first = true := by
  have hne : urlNonEmpty u = true := by simpa [emptySegment] using hF13d
  have hinv := build_inv hF13a hbuild
  have hmem : first ∈ (getRemedies pt g m u).1 ++ (getRemedies pt g m u).2 := by
    unfold dispatchFirst at hd
    exact List.mem_of_mem_head? hd
  unfold dispOk
  rw [Bool.or_eq_true]
  rcases List.mem_append.mp hmem with h | h
  · right
    cases hp : (select pt m u).policy with
    | none => simp [getRemedies, hp] at h
    | some pol =>
      obtain ⟨h1, h2, h3⟩ := select_sound hinv m u hne hF13c pol hp
      simp only [getRemedies, hp, List.mem_map, List.mem_filter] at h
      obtain ⟨r, ⟨hr, hen⟩, hname⟩ := h
      rw [List.any_eq_true]
      refine ⟨pol.src, h1, ?_⟩
      simp only [h2, h3, beq_self_eq_true, Bool.true_and, List.any_eq_true]
      exact ⟨r, hr, by simp [hen, hname]⟩
  · left
    simp only [getRemedies, List.mem_map, List.mem_filter] at h
    obtain ⟨r, ⟨hr, hen⟩, hname⟩ := h
    rw [List.any_eq_true]
    exact ⟨r, hr, by simp [hen, hname]⟩

/-- non-vacuity of (D), and the F13a witness seen through the dispatcher. -/
example :
    (match build [epUsersMe, epUsersId] with
     | .ok pt => dispatchFirst pt noGlobals "GET" urlUsers123 == some "A"
     | .error _ => false) = true ∧
    (match build [epUsersId, epUsersMe] with
     | .ok pt => dispatchFirst pt noGlobals "GET" urlUsers123 == some "B" &&
                 !dispOk [epUsersId, epUsersMe] noGlobals "GET" urlUsers123 "B"
     | .error _ => false) = true := by
  decide

/-! ### (O): order independence -/

/-- (O) If no declared pattern (as the trie keeps it) laxly matches another declared URL (¬F13a, symmetric
    form), no declared pattern follows another declared URL across the host/path boundary (¬F13c among the
    declarations) and no (method, pattern) is declared twice (¬F13e), then every permutation of the
    declarations that also builds gives the same answer to EVERY request (no hypothesis on the request). -/
theorem order_independent_partial (es es' : List Endpoint) (g : Globals) (pt pt' : PTree)
    (m : String) (u : List Part) (hperm : es.Perm es')
    (hbuild : build es = .ok pt) (hbuild' : build es' = .ok pt')
    (hF13a : crossMatch es = false) (hF13c : cfgBoundaryMix es = false) (hF13e : dupKeys es = false) :
    observe pt g m u = observe pt' g m u := by
  obtain ⟨hinv, h2⟩ := build_inv2 hF13a hF13c hF13e hbuild
  obtain ⟨hinv', h2'⟩ := build_inv2 (crossMatch_perm hperm hF13a) (cfgBoundaryMix_perm hperm hF13c)
    (dupKeys_perm hperm hF13e) hbuild'
  have hsel := select_perm hinv h2 hinv' h2' (fun x hx => hperm.mem_iff.mp hx)
    (fun x hx => hperm.mem_iff.mpr hx) (cfgBoundaryMix_false hF13c) m u
  simp only [observe, getRemedies, getDiagnoses, shouldDiagnose, hsel]

/-- non-vacuity of (O): overlapping (but not cross-matching) declarations, both orders build and agree. -/
example :
    crossMatch [epXY, epPZ] = false ∧ cfgBoundaryMix [epXY, epPZ] = false ∧ dupKeys [epXY, epPZ] = false ∧
    [epXY, epPZ].Perm [epPZ, epXY] ∧
    appliedRemedies [epXY, epPZ] "GET" urlWZ = some ["B"] ∧ appliedRemedies [epPZ, epXY] "GET" urlWZ = some ["B"] :=
  ⟨by decide, by decide, by decide, List.Perm.swap _ _ _, by decide, by decide⟩

end LunarVerif.C13
