import LunarVerif.Proofs.C13
/-!
# C13 — Endpoint policies apply only to requests matching their declared endpoint

Property theorems only (helpers: `Proofs/UrlTree.lean`, `Proofs/C13.lean`).  Model: `Model/UrlTree.lean`
(extensional trie), `Model/C13.lean` (`BuildEndpointPolicyTree` AFTER fixes/F13a.patch + fixes/F13e.patch,
with explicit map identity; selection of `getRemedies`/`getDiagnoses`).  Spec: `Spec/UrlMatch.lean`,
`Spec/C13.lean` (observable terms only).

REPAIRED and no longer excluded anywhere: F13a, F13e (builder), F13b, F13d, F13f and the wildcard half of F13c
(trie lookup / validation).  Their former violation witnesses are now regression theorems (`regress_F13a`,
`regress_F13b`, `regress_F13c_wildcard`, `regress_F13d`, `regress_F13e`, `regress_F13f`).  The one hypothesis
left in the `_partial` theorems is the classifier of the finding still open: F13c, literal/parameter half
(`boundaryMix` / `cfgBoundaryMix`: trie children are keyed by value, not by value and side of the host/path
boundary), with its `boundary_violation_witness`.
All theorems quantify over every endpoint list, every request and every global configuration.
-/
namespace LunarVerif.C13
open LunarVerif.UrlTree LunarVerif.UrlMatch

/-! ### concrete declarations (already split, as `splitURL` does) -/

def hostApiCom : List Part := [⟨true, .lit "api"⟩, ⟨true, .lit "com"⟩]
/-- `GET api.com/users/{id}` → remedy A -/
def epUsersId : Endpoint :=
  ⟨"GET", "api.com/users/{id}", hostApiCom ++ [⟨false, .lit "users"⟩, ⟨false, .par "id"⟩], [⟨"A", 1, true⟩], []⟩
/-- `GET api.com/users/me` → remedy B -/
def epUsersMe : Endpoint :=
  ⟨"GET", "api.com/users/me", hostApiCom ++ [⟨false, .lit "users"⟩, ⟨false, .lit "me"⟩], [⟨"B", 2, true⟩], []⟩
/-- request URL `api.com/users/123` -/
def urlUsers123 : List Part := hostApiCom ++ [⟨false, .lit "users"⟩, ⟨false, .lit "123"⟩]
def noGlobals : Globals := ⟨[], []⟩

/-- Endpoint remedies the model applies to `(m, u)` under the declaration order `es` (`none`: build error). -/
def appliedRemedies (es : List Endpoint) (m : String) (u : List Part) : Option (List String) :=
  match build es with
  | .ok pt => some (getRemedies pt noGlobals m u).1
  | .error _ => none

/-! ### (S) soundness -/

/-- (S) For EVERY endpoint list that builds, in every declaration order, with overlapping and duplicated
    declarations, and EVERY request URL (empty segments included): if no declared pattern follows the request
    URL across the host/path boundary (¬F13c), a policy is applied to `(m, u)` only if it was declared for method
    `m` with a pattern that `matches` `u`, and what is applied is exactly the enabled remedies and diagnoses
    of the declarations for that method and pattern. -/
theorem sound_partial (es : List Endpoint) (g : Globals) (pt : PTree) (m : String) (u : List Part)
    (hbuild : build es = .ok pt) (hF13c : boundaryMix es u = false) :
    soundOk es m u (observe pt g m u) = true :=
  soundOk_of_inv (build_inv hbuild) g m u hF13c

/-- Former F13a witness, now a regression: `[GET api.com/users/{id} → A, GET api.com/users/me → B]` in BOTH
    declaration orders gives A to `api.com/users/123` and B to `api.com/users/me`. -/
theorem regress_F13a :
    appliedRemedies [epUsersId, epUsersMe] "GET" urlUsers123 = some ["A"] ∧
    appliedRemedies [epUsersMe, epUsersId] "GET" urlUsers123 = some ["A"] ∧
    appliedRemedies [epUsersId, epUsersMe] "GET" epUsersMe.parts = some ["B"] ∧
    appliedRemedies [epUsersMe, epUsersId] "GET" epUsersMe.parts = some ["B"] := by
  decide

/-! ### (M) most specific, as far as the non-backtracking lookup guarantees it -/

/-- (M) Outside F13c: the applied policy's pattern `p` is at least as specific (`specLE`:
    literal > parameter > wildcard, position-wise, lexicographic; a trailing `*` matches any remainder
    INCLUDING none) as EVERY declared pattern `q` that matches the request — except when `q` was passed over
    BECAUSE it is shadowed: `passedOver p q` (`p` ends in `*`, `q` follows the same trie path up to that `*` and
    continues there) AND `shadowed … q u` (further down `q` has a parameter where a third declared pattern has
    the literal equal to the request's segment).  That exception is precisely the lookup's lack of backtracking
    (it takes the literal child, never comes back, and can only fall back to the deepest `*` seen); a matching
    pattern that is NOT shadowed always beats a shallower `*` — in particular the deeper of two nested
    wildcards wins on its own base URL. -/
theorem most_specific_partial (es : List Endpoint) (g : Globals) (pt : PTree) (m : String) (u : List Part)
    (hbuild : build es = .ok pt) (hF13c : boundaryMix es u = false) :
    mostSpecificOk es m u (observe pt g m u) = true := by
  have hinv := build_inv hbuild
  unfold mostSpecificOk
  apply any_soundFor hinv g m u hF13c (fun e => mostSpecificFor es u e)
  intro q i e hl hq _ _ hep
  exact most_specific_of_inv hinv u hF13c hl hq hep

/-- The `passedOver` exception is empty for patterns that do not end in `*`. -/
theorem passedOver_only_wildcard (p q : Pattern) (h : passedOver p q = true) :
    ∃ l, p.getLast? = some l ∧ l.seg = .wild := by
  induction p generalizing q with
  | nil => simp [passedOver] at h
  | cons a p ih =>
    cases q with
    | nil => simp [passedOver] at h
    | cons b q =>
      cases p with
      | nil => simp [passedOver] at h; exact ⟨a, rfl, h.1⟩
      | cons c p =>
        simp only [passedOver, List.isEmpty_cons, Bool.false_eq_true, if_false, Bool.and_eq_true] at h
        obtain ⟨l, hl, hw⟩ := ih q h.2
        exact ⟨l, by simpa [List.getLast?_cons_cons] using hl, hw⟩

def epXY : Endpoint :=
  ⟨"GET", "a.com/x/y", [⟨true, .lit "a"⟩, ⟨true, .lit "com"⟩, ⟨false, .lit "x"⟩, ⟨false, .lit "y"⟩], [⟨"A", 1, true⟩], []⟩
def epPZ : Endpoint :=
  ⟨"GET", "a.com/{p}/z", [⟨true, .lit "a"⟩, ⟨true, .lit "com"⟩, ⟨false, .par "p"⟩, ⟨false, .lit "z"⟩], [⟨"B", 2, true⟩], []⟩
def epWildAll : Endpoint :=
  ⟨"GET", "a.com/*", [⟨true, .lit "a"⟩, ⟨true, .lit "com"⟩, ⟨false, .wild⟩], [⟨"C", 3, true⟩], []⟩
def urlXZ : List Part := [⟨true, .lit "a"⟩, ⟨true, .lit "com"⟩, ⟨false, .lit "x"⟩, ⟨false, .lit "z"⟩]
def urlWZ : List Part := [⟨true, .lit "a"⟩, ⟨true, .lit "com"⟩, ⟨false, .lit "w"⟩, ⟨false, .lit "z"⟩]

/-- The lookup does not backtrack: `a.com/x/z` is matched by the declared `a.com/{p}/z`, but the walk takes
    the literal `x` and finds nothing (design of the trie; (M) is not a completeness claim). -/
theorem no_backtracking_witness :
    «matches» epPZ.parts urlXZ = true ∧
    appliedRemedies [epXY, epPZ] "GET" urlXZ = some [] ∧
    appliedRemedies [epXY, epPZ] "GET" urlWZ = some ["B"] := by
  decide

/-- The `passedOver` exception of (M) is real: with `a.com/*` also declared, `a.com/x/z` gets the `*` policy
    although the matching `a.com/{p}/z` is more specific. -/
theorem passed_over_witness :
    appliedRemedies [epXY, epPZ, epWildAll] "GET" urlXZ = some ["C"] ∧
    «matches» epPZ.parts urlXZ = true ∧ specLE epPZ.parts epWildAll.parts = false ∧
    passedOver epWildAll.parts epPZ.parts = true ∧
    shadowed ([epXY, epPZ, epWildAll].map (·.parts)) epPZ.parts urlXZ = true := by
  decide

def epV1Wild : Endpoint :=
  ⟨"GET", "a.com/v1/*", [⟨true, .lit "a"⟩, ⟨true, .lit "com"⟩, ⟨false, .lit "v1"⟩, ⟨false, .wild⟩], [⟨"D", 4, true⟩], []⟩
def urlV1 : List Part := [⟨true, .lit "a"⟩, ⟨true, .lit "com"⟩, ⟨false, .lit "v1"⟩]

/-- Nested wildcards: on its own base URL `a.com/v1` the deeper `a.com/v1/*` (zero segments under the `*`)
    wins over `a.com/*`, in both declaration orders; it is passed-over-shaped but NOT shadowed, so (M) does
    not excuse the shallower wildcard (seeded change C13-s9). -/
theorem nested_wildcard_base :
    appliedRemedies [epWildAll, epV1Wild] "GET" urlV1 = some ["D"] ∧
    appliedRemedies [epV1Wild, epWildAll] "GET" urlV1 = some ["D"] ∧
    «matches» epV1Wild.parts urlV1 = true ∧ passedOver epWildAll.parts epV1Wild.parts = true ∧
    shadowed ([epWildAll, epV1Wild].map (·.parts)) epV1Wild.parts urlV1 = false := by
  decide

/-- non-vacuity of (S)/(M): two declared patterns match `api.com/users/me`, the literal one is applied. -/
example :
    boundaryMix [epUsersId, epUsersMe] epUsersMe.parts = false ∧
    «matches» epUsersId.parts epUsersMe.parts = true ∧ «matches» epUsersMe.parts epUsersMe.parts = true ∧
    appliedRemedies [epUsersId, epUsersMe] "GET" epUsersMe.parts = some ["B"] ∧
    specLE epUsersId.parts epUsersMe.parts = true ∧ specLE epUsersMe.parts epUsersId.parts = false := by
  decide

/-! ### (P) and (N): parameters and normalised URL -/

/-- (P) Outside F13c: every extracted `(name, value)` is `{name}` in the applied policy's pattern at a
    position where the request URL has the segment `value`, and no parameter position is dropped: the
    reported map contains every binding of `expectedParams` (in fact it IS that map). -/
theorem params_are_segments_partial (es : List Endpoint) (g : Globals) (pt : PTree) (m : String) (u : List Part)
    (hbuild : build es = .ok pt) (hF13c : boundaryMix es u = false) :
    paramsOkA es m u (observe pt g m u) = true := by
  have hinv := build_inv hbuild
  unfold paramsOkA
  apply any_soundFor hinv g m u hF13c (fun e => paramsOk e.parts u (observe pt g m u).params)
  intro q i e hl hq _ _ hep
  obtain ⟨_, hpar⟩ := exact_of_inv hinv u hF13c hl hq
  have hsp : (observe pt g m u).params = bindParams [] q u := by
    simp only [observe, select_some hl]; exact hpar
  simp only [paramsOk, hsp, hep, expectedParams, expectedFrom_eq, Bool.and_eq_true]
  constructor
  · rw [List.all_eq_true]
    intro ⟨k, v⟩ hkv
    rcases bindParams_mem _ _ _ _ _ hkv with h | ⟨pu, hpu, h1, h2⟩
    · simp at h
    · rw [List.any_eq_true]
      exact ⟨pu, hpu, by simp [h1, h2]⟩
  · rw [List.all_eq_true]
    intro kv hkv
    simpa using hkv

/-- (N) Outside F13c: the reported normalised URL is the applied policy's declared pattern (which matches
    the request, by `sound_partial`). -/
theorem normalized_is_declared_and_matches_partial (es : List Endpoint) (g : Globals) (pt : PTree)
    (m : String) (u : List Part) (hbuild : build es = .ok pt) (hF13c : boundaryMix es u = false) :
    normOk es m u (observe pt g m u) = true := by
  have hinv := build_inv hbuild
  unfold normOk
  apply any_soundFor hinv g m u hF13c (fun e => (observe pt g m u).normParts == e.parts)
  intro q i e hl hq _ _ hep
  obtain ⟨hnorm, _⟩ := exact_of_inv hinv u hF13c hl hq
  simp only [observe, select_some hl, hnorm, hep, beq_self_eq_true]

def epXWild : Endpoint :=
  ⟨"GET", "a.com/x/*", [⟨true, .lit "a"⟩, ⟨true, .lit "com"⟩, ⟨false, .lit "x"⟩, ⟨false, .wild⟩], [⟨"A", 1, true⟩], []⟩
def urlX : List Part := [⟨true, .lit "a"⟩, ⟨true, .lit "com"⟩, ⟨false, .lit "x"⟩]
def urlXY : List Part := urlX ++ [⟨false, .lit "y"⟩]

/-- Normalised URL reported for `(m, u)` (parts), `none` on build error or when no policy applies. -/
def reportedNorm (es : List Endpoint) (m : String) (u : List Part) : Option (List Part) :=
  match build es with
  | .ok pt => (select pt m u).policy.map (fun _ => (select pt m u).norm)
  | .error _ => none

/-- Former F13b witness, now a regression: only `a.com/x/*` declared, request `a.com/x` (the `*` swallows
    nothing): the reported normalised URL is the declared pattern `a.com/x/*`. -/
theorem regress_F13b :
    reportedNorm [epXWild] "GET" urlX = some epXWild.parts ∧
    reportedNorm [epXWild] "GET" urlXY = some epXWild.parts := by
  decide

/-- non-vacuity of (P): a parameter is extracted. -/
example :
    boundaryMix [epUsersMe, epUsersId] urlUsers123 = false ∧
    (match build [epUsersMe, epUsersId] with
     | .ok pt => (select pt "GET" urlUsers123).params == [("id", "123")]
     | .error _ => false) = true := by
  decide

/-! ### (G), (D) and the connection theorem -/

/-- (G) Global remedies/diagnoses and `shouldDiagnose` are as specified — unconditionally. -/
theorem globals_ok (pt : PTree) (g : Globals) (m : String) (u : List Part) :
    globalsOk g (observe pt g m u) = true := globalsOk_observe pt g m u

/-- Connection theorem.  `reqOk` — the very predicate `lvdriver_c13 judge` evaluates on the
    implementation's answers — is true of the model's answer to EVERY request on EVERY successfully built
    endpoint list, outside the one class still open (whose members the judge labels F13c). -/
theorem c13_holds_partial (es : List Endpoint) (g : Globals) (pt : PTree) (m : String) (u : List Part)
    (hbuild : build es = .ok pt) (hF13c : boundaryMix es u = false) :
    reqOk es g m u (observe pt g m u) = true := by
  unfold reqOk
  rw [sound_partial es g pt m u hbuild hF13c,
    most_specific_partial es g pt m u hbuild hF13c,
    params_are_segments_partial es g pt m u hbuild hF13c,
    normalized_is_declared_and_matches_partial es g pt m u hbuild hF13c,
    globals_ok]
  rfl

/-- (D) Outside F13c: the remedy that answers through the dispatcher (the first fixed-response one of the
    endpoint-scoped then global enabled remedies) is an enabled global remedy or an enabled remedy of an endpoint
    declared for the request's method whose pattern matches the request URL. -/
theorem dispatch_sound_partial (es : List Endpoint) (g : Globals) (pt : PTree) (m : String) (u : List Part)
    (first : String) (hbuild : build es = .ok pt) (hF13c : boundaryMix es u = false)
    (hd : dispatchFirst pt g m u = some first) :
    dispOk es g m u first = true := by
  have hinv := build_inv hbuild
  unfold dispatchFirst at hd
  cases hh : ((selRemedies pt g m u).filter (·.type == 7)).head? with
  | none => rw [hh] at hd; simp at hd
  | some r =>
    rw [hh] at hd
    simp only [Option.map_some, Option.some.injEq] at hd
    have := List.mem_of_mem_head? hh
    rw [← hd]
    exact selRemedies_entitled hinv hF13c r (List.mem_filter.mp this).1

/-- (D, credentials) Outside F13c: on a forwarded request the credentials that leave the engine belong only
    to authentication remedies that are enabled global ones or enabled remedies of an endpoint declared for the
    request's METHOD whose pattern matches the URL — never to the remedy another method of the same pattern
    declares. -/
theorem credentials_sound_partial (es : List Endpoint) (g : Globals) (pt : PTree) (m : String) (u : List Part)
    (hbuild : build es = .ok pt) (hF13c : boundaryMix es u = false) :
    authOk es g m u (authKeys pt g m u) = true := by
  have hinv := build_inv hbuild
  unfold authOk authKeys
  rw [List.all_eq_true]
  intro k hk
  obtain ⟨r, hr, hname⟩ := List.mem_map.mp hk
  rw [← hname]
  exact selRemedies_entitled hinv hF13c r (List.mem_filter.mp hr).1

/-- (D, response leg) Outside F13c: an early answer is run through the response leg under the policy the
    request's (method, URL) selects — the retry remedies that act on it are those of the applied endpoint group
    and the global ones (`respLegOk` on the model's own answer). -/
theorem early_response_leg_partial (es : List Endpoint) (g : Globals) (pt : PTree) (m : String) (u : List Part)
    (hbuild : build es = .ok pt) (hF13c : boundaryMix es u = false) :
    respLegOk es g m u (observe pt g m u) (dispatchRespActive pt g m u) = true := by
  have hinv := build_inv hbuild
  unfold respLegOk
  cases hp : (select pt m u).policy with
  | none =>
    have : (observe pt g m u).pol = none := by simp [observe, hp]
    rw [this]
    simp [dispatchRespActive, hp, retryCount]
  | some pol =>
    have := any_soundFor hinv g m u hF13c
      (fun e => dispatchRespActive pt g m u ==
        (if retryCount ((group es m e.parts).flatMap (·.remedies)) + retryCount g.remedies > 0 then 1 else 0))
      (by
        intro q i e hl hq hpol _ hep
        simp only [dispatchRespActive, hpol, Policy.remedies, hep, beq_self_eq_true])
    have hpolv : (observe pt g m u).pol = some pol.url := by simp [observe, hp]
    rw [hpolv] at this ⊢
    exact this

/-- non-vacuity of (D, credentials): GET and POST of one pattern carry authentication remedies on different
    accounts; each method gets its own. -/
example :
    (match build [{ epUsersId with remedies := [⟨"ro", 9, true⟩] },
                  { epUsersId with method := "POST", remedies := [⟨"rw", 9, true⟩] }] with
     | .ok pt => authKeys pt noGlobals "GET" urlUsers123 == ["ro"] && authKeys pt noGlobals "POST" urlUsers123 == ["rw"] &&
                 authKeys pt noGlobals "HEAD" urlUsers123 == []
     | .error _ => false) = true := by
  decide

/-- non-vacuity of (D): the dispatcher answers with A, and with a retry remedy on the same endpoint the early
    answer is modified on the response leg. -/
example :
    (match build [{ epUsersId with remedies := [⟨"A", 7, true⟩, ⟨"R", 8, true⟩] }, epUsersMe] with
     | .ok pt => dispatchFirst pt noGlobals "GET" urlUsers123 == some "A" &&
                 dispatchRespActive pt noGlobals "GET" urlUsers123 == 1 &&
                 dispatchRespActive pt noGlobals "POST" urlUsers123 == 0
     | .error _ => false) = true := by
  decide

/-! ### the class still open is not empty; the repaired ones are regressions -/

def urlEvil : List Part :=
  [⟨true, .lit "a"⟩, ⟨true, .lit "com"⟩, ⟨true, .lit "evil"⟩, ⟨true, .lit "org"⟩, ⟨false, .lit "x"⟩]

/-- Former F13c witness (wildcard half), now a regression: `a.com/*` is NOT applied to the host
    `a.com.evil.org`, and still is to `a.com/x/y`. -/
theorem regress_F13c_wildcard :
    appliedRemedies [epWildAll] "GET" urlEvil = some [] ∧ appliedRemedies [epWildAll] "GET" urlXY = some ["C"] := by
  decide

/-- host `a.com.x` → A -/
def epHostX : Endpoint :=
  ⟨"GET", "a.com.x", [⟨true, .lit "a"⟩, ⟨true, .lit "com"⟩, ⟨true, .lit "x"⟩], [⟨"A", 1, true⟩], []⟩
/-- `a.com/x/y` → B -/
def epPathXY : Endpoint :=
  ⟨"GET", "a.com/x/y", [⟨true, .lit "a"⟩, ⟨true, .lit "com"⟩, ⟨false, .lit "x"⟩, ⟨false, .lit "y"⟩], [⟨"B", 2, true⟩], []⟩
/-- URL `a.com.x/y` -/
def urlHostXY : List Part := [⟨true, .lit "a"⟩, ⟨true, .lit "com"⟩, ⟨true, .lit "x"⟩, ⟨false, .lit "y"⟩]

/-- F13c (open, literal/parameter half).  Trie children are keyed by value only: `a.com/x/y` declared after
    the host `a.com.x` is filed under the host's node and is applied to `a.com.x/y`, which it does not match
    (and not to `a.com/x/y`, which it does). -/
theorem boundary_violation_witness :
    appliedRemedies [epHostX, epPathXY] "GET" urlHostXY = some ["B"] ∧
    «matches» epPathXY.parts urlHostXY = false ∧ boundaryMix [epHostX, epPathXY] urlHostXY = true ∧
    appliedRemedies [epHostX, epPathXY] "GET" epPathXY.parts = some [] := by
  decide

def epUserPosts : Endpoint :=
  ⟨"GET", "a.com/users/{id}/posts",
    [⟨true, .lit "a"⟩, ⟨true, .lit "com"⟩, ⟨false, .lit "users"⟩, ⟨false, .par "id"⟩, ⟨false, .lit "posts"⟩],
    [⟨"A", 1, true⟩], []⟩
def urlEmptyId : List Part :=
  [⟨true, .lit "a"⟩, ⟨true, .lit "com"⟩, ⟨false, .lit "users"⟩, ⟨false, .lit ""⟩, ⟨false, .lit "posts"⟩]
def urlId7 : List Part :=
  [⟨true, .lit "a"⟩, ⟨true, .lit "com"⟩, ⟨false, .lit "users"⟩, ⟨false, .lit "7"⟩, ⟨false, .lit "posts"⟩]

/-- Former F13d witness, now a regression: `{id}` does not accept the empty segment of `a.com/users//posts`. -/
theorem regress_F13d :
    appliedRemedies [epUserPosts] "GET" urlEmptyId = some [] ∧
    appliedRemedies [epUserPosts] "GET" urlId7 = some ["A"] := by
  decide

/-! ### (O): order independence -/

/-- (O) For every permutation of the declarations that also builds: if no declared pattern follows another
    declared URL across the host/path boundary (¬F13c among the declarations), EVERY request gets the same answer under both orders — same policy or
    none, the same remedies and diagnoses (as multisets: duplicated declarations run in the order they are
    written), same normalised URL and parameters.  Overlapping, cross-matching and duplicated declarations
    are all covered. -/
theorem order_independent_partial (es es' : List Endpoint) (g : Globals) (pt pt' : PTree)
    (m : String) (u : List Part) (hperm : es.Perm es')
    (hbuild : build es = .ok pt) (hbuild' : build es' = .ok pt')
    (hF13c : cfgBoundaryMix es = false) :
    sameAnswer (observe pt g m u) (observe pt' g m u) = true :=
  sameAnswer_of_select g m u
    (select_perm (build_inv hbuild) (build_inv hbuild') hperm hF13c m u)

def epX1 : Endpoint := ⟨"GET", "a.com/x", urlX, [⟨"A", 1, true⟩], []⟩
def epX2 : Endpoint := ⟨"GET", "a.com/x", urlX, [⟨"B", 2, true⟩], []⟩

/-- Former F13e witness, now a regression: the same method+URL declared twice with remedies of different
    types keeps BOTH, in the order they are written. -/
theorem regress_F13e :
    appliedRemedies [epX1, epX2] "GET" urlX = some ["A", "B"] ∧
    appliedRemedies [epX2, epX1] "GET" urlX = some ["B", "A"] := by
  decide

/-- non-vacuity of (O): cross-matching declarations (the former F13a class) in both orders. -/
example :
    cfgBoundaryMix [epUsersId, epUsersMe] = false ∧
    [epUsersId, epUsersMe].Perm [epUsersMe, epUsersId] ∧
    appliedRemedies [epUsersId, epUsersMe] "GET" urlUsers123 = some ["A"] ∧
    appliedRemedies [epUsersMe, epUsersId] "GET" urlUsers123 = some ["A"] :=
  ⟨by decide, List.Perm.swap _ _ _, by decide, by decide⟩

def epWildWild : Endpoint :=
  ⟨"GET", "a.com/*/*", [⟨true, .lit "a"⟩, ⟨true, .lit "com"⟩, ⟨false, .wild⟩, ⟨false, .wild⟩], [⟨"B", 2, true⟩], []⟩

/-- Former F13f witness, now a regression: `a.com/*/*` is rejected by the validation (in every order), so it
    can no longer knock out the policy of `a.com/*`. -/
theorem regress_F13f :
    (match build [epWildAll, epWildWild] with | .error (.insert .wildcardPos) => true | _ => false) = true ∧
    (match build [epWildWild, epWildAll] with | .error (.insert .wildcardPos) => true | _ => false) = true := by
  decide

/-- F13g (open; acceptance, not selection).  `checkForDuplicates` looks the new URL up as a request: with
    remedies of one type, `users/{id}` then `users/me` is rejected, the reverse order is accepted. -/
theorem acceptance_order_witness :
    (match build [epUsersId, { epUsersMe with remedies := [⟨"B", 1, true⟩] }] with
     | .error .duplicate => true | _ => false) = true ∧
    (match build [{ epUsersMe with remedies := [⟨"B", 1, true⟩] }, epUsersId] with
     | .ok _ => true | _ => false) = true := by
  decide

end LunarVerif.C13
