import LunarVerif.Proofs.C13
/-!
# C13 — Endpoint policies apply only to requests matching their declared endpoint

Property theorems only (helpers: `Proofs/UrlTree.lean`, `Proofs/C13.lean`).  Model: `Model/UrlTree.lean`
(extensional trie), `Model/C13.lean` (`BuildEndpointPolicyTree` with explicit map identity, selection of
`getRemedies`/`getDiagnoses`).  Spec: `Spec/UrlMatch.lean`, `Spec/C13.lean` (observable terms only).
All `_partial` theorems quantify over every endpoint list, every request and every global configuration;
their extra hypotheses are exactly the decidable classifiers of `Spec/C13.lean` (findings F13a–e), and each
class has a `_violation_witness` showing that the hypothesis cannot be dropped on the unchanged code.
-/
namespace LunarVerif.C13
open LunarVerif.UrlTree LunarVerif.UrlMatch

/-! ### witnesses: concrete declarations (already split, as `splitURL` does) -/

def hostApiCom : List Part := [⟨true, .lit "api"⟩, ⟨true, .lit "com"⟩]
/-- `GET api.com/users/{id}` → remedy A -/
def epUsersId : Endpoint :=
  ⟨"GET", "api.com/users/{id}", hostApiCom ++ [⟨false, .lit "users"⟩, ⟨false, .par "id"⟩], [⟨"A", 1, true⟩], []⟩
/-- `GET api.com/users/me` → remedy B -/
def epUsersMe : Endpoint :=
  ⟨"GET", "api.com/users/me", hostApiCom ++ [⟨false, .lit "users"⟩, ⟨false, .lit "me"⟩], [⟨"B", 2, true⟩], []⟩
/-- request URL `api.com/users/123` -/
def urlUsers123 : List Part := hostApiCom ++ [⟨false, .lit "users"⟩, ⟨false, .lit "123"⟩]
def noGlobals : Globals := ⟨[], []⟩

/-- Endpoint remedies the model applies to `(m, u)` under the declaration order `es` (`none`: build error). -/
def appliedRemedies (es : List Endpoint) (m : String) (u : List Part) : Option (List String) :=
  match build es with
  | .ok pt => some (getRemedies pt noGlobals m u).1
  | .error _ => none

/-- F13a.  Declared `[GET api.com/users/{id} → A, GET api.com/users/me → B]`: `GET api.com/users/123`
    receives B — a policy whose pattern does not match it — and A is gone. -/
theorem alias_violation_witness :
    appliedRemedies [epUsersId, epUsersMe] "GET" urlUsers123 = some ["B"] ∧
    «matches» epUsersMe.parts urlUsers123 = false ∧
    (∃ pt, build [epUsersId, epUsersMe] = .ok pt ∧
      soundOk [epUsersId, epUsersMe] "GET" urlUsers123 (observe pt noGlobals "GET" urlUsers123) = false) := by
  refine ⟨by decide, by decide, ?_⟩
  cases h : build [epUsersId, epUsersMe] with
  | error e =>
    have : (match build [epUsersId, epUsersMe] with | .ok _ => true | .error _ => false) = true := by decide
    rw [h] at this
    exact absurd this (by simp)
  | ok pt =>
    refine ⟨pt, rfl, ?_⟩
    have : (match build [epUsersId, epUsersMe] with
      | .ok pt => soundOk [epUsersId, epUsersMe] "GET" urlUsers123 (observe pt noGlobals "GET" urlUsers123)
      | .error _ => true) = false := by decide
    rw [h] at this
    exact this

/-- The reverse declaration order behaves as intended: the outcome depends on the declaration order. -/
theorem order_dependence_witness :
    appliedRemedies [epUsersMe, epUsersId] "GET" urlUsers123 = some ["A"] ∧
    appliedRemedies [epUsersId, epUsersMe] "GET" urlUsers123 = some ["B"] ∧
    [epUsersMe, epUsersId].Perm [epUsersId, epUsersMe] := by
  refine ⟨by decide, by decide, ?_⟩
  exact List.Perm.swap _ _ _

/-- (S) Soundness outside the excluded classes: if no declared URL is (laxly) matched by an EARLIER declared
    different pattern (¬F13a), no declared pattern follows the request URL across the host/path boundary
    (¬F13c) and the URL has no empty segment (¬F13d), then a policy is applied to `(m, u)` only if it was
    declared for method `m` with a pattern that `matches` `u` — for every endpoint list, globals, request. -/
theorem sound_partial (es : List Endpoint) (g : Globals) (pt : PTree) (m : String) (u : List Part)
    (hbuild : build es = .ok pt)
    (hF13a : crossMatchEarlier es = false) (hF13c : boundaryMix es u = false)
    (hF13d : emptySegment u = false) :
    soundOk es m u (observe pt g m u) = true := by
  have hne : urlNonEmpty u = true := by simpa [emptySegment] using hF13d
  exact soundOk_of_select g m u (select_sound (build_inv hF13a hbuild) m u hne hF13c)

/-- non-vacuity of `sound_partial`: overlapping declarations in the benign order, a matching request. -/
example :
    crossMatchEarlier [epUsersMe, epUsersId] = false ∧ boundaryMix [epUsersMe, epUsersId] urlUsers123 = false ∧
    emptySegment urlUsers123 = false ∧ appliedRemedies [epUsersMe, epUsersId] "GET" urlUsers123 = some ["A"] := by
  decide

end LunarVerif.C13
