import LunarVerif.Proofs.C07
/-!
# C07 — Combined actions: early response wins, header edits merge last-writer-wins

Property theorems only (helpers live in `Proofs/C07.lean`).  All statements quantify over every
finite sequence of actions of every kind with arbitrary header maps (association lists read
through `List.lookup`), paths, bodies and status codes.  The model is `Model/C07.lean`
(`reqPrio`/`respPrio` = the two `*_prioritize.go` tables, `foldReq`/`foldResp` = the fold sites,
`encodeReq`/`encodeResp` = the SPOE transformers, `foldReqH` = the same fold on action OBJECTS).

Two classes of inputs contradict the property on the unchanged code and are excluded by an
explicit decidable hypothesis (`…_partial`) next to a proved witness (`…_violation_witness`):
* F07a `f07aClass` — header names containing `:`/newline or values containing a newline are not
  carried faithfully by `DumpHeaders`;
* F07b `f07bClass` — the same action object handed to the request fold twice
  (`ModifyRequestAction.ReqPrioritize` assigns to its receiver).
-/
namespace LunarVerif.C07

/-! ## Request side: the fold over action values -/

/-- The first early response wins, unchanged, whatever precedes and follows it. -/
theorem fold_first_early (pre post : List ReqAct) (e : ReqAct)
    (hpre : ∀ a ∈ pre, a.isEarly = false) (he : e.isEarly = true) :
    foldReq (pre ++ e :: post) = e :=
  foldl_reqPrio_first_early .noop pre post e rfl hpre he

example : foldReq [.modHdr [("x", "1")], .early 429 "slow down" [("retry-after", "1")],
    .early 503 "" [], .modReq [("x", "2")] "h" "/p" "" ""] = .early 429 "slow down" [("retry-after", "1")] := by
  decide

/-- Without an early response every header name gets the value of its LAST writer
    (the union of all header edits, later edit winning). -/
theorem fold_headers_union (as : List ReqAct) (hno : ∀ a ∈ as, a.isEarly = false) (k : String) :
    (foldReq as).hdrs.lookup k = lastWriter k (as.map (·.hdrs)) := by
  unfold foldReq
  rw [foldl_reqPrio_hdrs .noop as rfl hno k]
  exact lastWriter_nil_cons k _

example : (foldReq [.modHdr [("x", "1"), ("a", "A")], .noop, .genReq [("x", "2")] ["r"] "b",
    .modReq [("b", "B")] "" "" "" ""]).hdrs.lookup "x" = some "2" := by decide

/-- The result is a no-op only if every action was a no-op (and then it is). -/
theorem fold_noop_iff (as : List ReqAct) : foldReq as = .noop ↔ ∀ a ∈ as, a = .noop := by
  have h := foldl_reqPrio_isNoop .noop as
  have h1 : ReqAct.noop.isNoop = true := rfl
  rw [h1, Bool.true_and] at h
  have hiff : ∀ a : ReqAct, a.isNoop = true ↔ a = .noop := by
    intro a; cases a <;> simp [ReqAct.isNoop]
  constructor
  · intro hf a ha
    have : as.all (·.isNoop) = true := by rw [← h]; exact (hiff _).mpr hf
    exact (hiff a).mp (List.all_eq_true.mp this a ha)
  · intro hall
    apply (hiff _).mp
    show (List.foldl reqPrio .noop as).isNoop = true
    rw [h, List.all_eq_true]
    intro a ha; exact (hiff a).mpr (hall a ha)

/-- Without an early response the result is a request modification as soon as one action is. -/
theorem fold_kind (as : List ReqAct) (hno : ∀ a ∈ as, a.isEarly = false)
    (hsome : ∃ a ∈ as, a ≠ .noop) : (foldReq as).isMod = true := by
  apply isMod_of_not
  · show (List.foldl reqPrio .noop as).isEarly = false
    rw [foldl_reqPrio_isEarly]
    have h0 : ReqAct.noop.isEarly = false := rfl
    rw [h0, Bool.false_or, List.any_eq_false]
    intro a ha; simp [hno a ha]
  · cases hn : (foldReq as).isNoop
    · rfl
    · exfalso
      obtain ⟨a, ha, hne⟩ := hsome
      have : foldReq as = .noop := by cases hf : foldReq as <;> simp_all [ReqAct.isNoop]
      exact hne ((fold_noop_iff as).mp this a ha)

example : (foldReq [.noop, .modHdr [], .noop]).isMod = true := by decide

/-- The combination rule of the property (`Spec.reqFoldOk`: first early response, else not early,
    no-op iff all no-ops, a modification otherwise, header union with last writer winning) holds
    of the fold for EVERY sequence. -/
theorem req_fold_ok (as : List ReqAct) : reqFoldOk as (foldReq as) = true :=
  reqFoldOk_foldReq as

/-! ## Response side -/

/-- A no-op anywhere in the sequence changes nothing: it never displaces a modification or a retry. -/
theorem resp_noop_never_displaces (pre post : List RespAct) :
    foldResp (pre ++ .noop :: post) = foldResp (pre ++ post) := by
  simp [foldResp, List.foldl_append, respPrio_noop_right]

/-- The response result is a no-op only if every action was. -/
theorem resp_noop_iff (as : List RespAct) : (foldResp as).isNoop = as.all (·.isNoop) := by
  unfold foldResp; rw [foldl_respPrio_isNoop]; rfl

/-- Response modifications (with no-ops in between) merge their header edits, last writer wins. -/
theorem resp_headers_union (as : List RespAct) (hno : ∀ a ∈ as, a.isRetry = false) (k : String) :
    (foldResp as).isRetry = false ∧ (foldResp as).hdrs.lookup k = lastWriter k (as.map (·.hdrs)) := by
  have h := foldl_respPrio_noRetry .noop as rfl hno k
  refine ⟨h.1, ?_⟩
  show List.lookup k (List.foldl respPrio .noop as).hdrs = _
  rw [h.2]; exact lastWriter_nil_cons k _

/-- Retries merge their header edits the same way. -/
theorem resp_retry_headers_union (as : List RespAct) (hno : ∀ a ∈ as, a.isMod = false) (k : String) :
    (foldResp as).isMod = false ∧ (foldResp as).hdrs.lookup k = lastWriter k (as.map (·.hdrs)) := by
  have h := foldl_respPrio_noMod .noop as rfl hno k
  refine ⟨h.1, ?_⟩
  show List.lookup k (List.foldl respPrio .noop as).hdrs = _
  rw [h.2]; exact lastWriter_nil_cons k _

example : (foldResp [.modResp [("x", "1")] "b1" 200, .noop, .modResp [("x", "2"), ("y", "Y")] "b2" 404]) =
    .modResp [("x", "2"), ("y", "Y")] "b1" 200 := by decide

/-- As coded: between a modification and a retry the LATER one wins (its kind is the result's). -/
theorem resp_later_of_modify_and_retry_wins (pre : List RespAct) (a : RespAct) (ha : a.isNoop = false) :
    (foldResp (pre ++ [a])).isMod = a.isMod ∧ (foldResp (pre ++ [a])).isRetry = a.isRetry := by
  have : foldResp (pre ++ [a]) = respPrio (foldResp pre) a := by simp [foldResp, List.foldl_append]
  rw [this]; exact respPrio_kind _ a ha

/-- The response rule of the property holds of every fold step for EVERY sequence. -/
theorem resp_fold_ok (pre : List RespAct) (a : RespAct) :
    respFoldOk (pre ++ [a]) (foldResp pre) (foldResp (pre ++ [a])) = true :=
  respFoldOk_foldResp pre a

/-! ## Encoding handed to the proxy -/

/-- The SPOE variables of a request action decode to exactly that action (kind, status, body,
    host/path/query, headers; `HeadersToRemove` is not transmitted) — header maps outside F07a. -/
theorem encode_faithful_partial (a : ReqAct) (hs : f07aClass a.hdrs = false) :
    decodeReq (encodeReq a) = some a.eraseRm :=
  decodeReq_encodeReq a (by simpa [f07aClass] using hs)

theorem encode_resp_faithful_partial (a : RespAct) (hs : f07aClass a.hdrs = false) :
    decodeResp (encodeResp a) = some a :=
  decodeResp_encodeResp a (by simpa [f07aClass] using hs)

example : f07aClass (ReqAct.modReq [("authorization", "Bearer a:b"), ("x-y", "")] "h" "/p" "q=1" "").hdrs = false := by
  decide

/-- F07a: for arbitrary header maps the encoding does NOT carry the headers: two different maps
    have the same dump, and the decoded action differs from the encoded one. -/
theorem encode_faithful_violation_witness :
    ∃ a : ReqAct, decodeReq (encodeReq a) ≠ some a.eraseRm := by
  refine ⟨.modHdr [("a:b", "c")], ?_⟩
  decide

theorem dump_not_injective : dumpHeaders [("a:b", "c")] = dumpHeaders [("a", "b:c")] := by decide

/-- A value containing a newline smuggles a second header into the dump. -/
theorem dump_injection_witness :
    parseHeaders (dumpHeaders [("a", "1\nx-injected:2")]) = [("a", "1"), ("x-injected", "2")] := by decide

/-! ## Connection: the judge predicate is true of every model run -/

/-- Request side, full observation of one fold (rule + encoding), outside F07a. -/
theorem req_holds_partial (as : List ReqAct) (hs : f07aClass (foldReq as).hdrs = false) :
    reqHolds as (foldReq as) (encodeReq (foldReq as)) = true := by
  unfold reqHolds reqEncOk
  rw [req_fold_ok, encode_faithful_partial _ hs]
  simp [ReqAct.sim_refl]

theorem req_holds_violation_witness :
    ∃ as : List ReqAct, reqHolds as (foldReq as) (encodeReq (foldReq as)) ≠ true := by
  refine ⟨[.modHdr [("a:b", "c")]], ?_⟩
  decide

/-- Response side, one fold step, outside F07a. -/
theorem resp_holds_partial (pre : List RespAct) (a : RespAct)
    (hs : f07aClass (foldResp (pre ++ [a])).hdrs = false) :
    respHolds (pre ++ [a]) (foldResp pre) (foldResp (pre ++ [a])) (encodeResp (foldResp (pre ++ [a]))) = true := by
  unfold respHolds respEncOk
  rw [resp_fold_ok, encode_resp_faithful_partial _ hs]
  simp [RespAct.sim_refl]

theorem resp_holds_violation_witness :
    ∃ (pre : List RespAct) (a : RespAct),
      respHolds (pre ++ [a]) (foldResp pre) (foldResp (pre ++ [a])) (encodeResp (foldResp (pre ++ [a]))) ≠ true := by
  refine ⟨[], .retry [("k", "v\n")], ?_⟩
  decide

/-- The judge predicate `Spec.holds` is true of the observable history of every model run whose
    intermediate results stay outside F07a. -/
theorem holds_model_history_partial (rs : List ReqAct) (ss : List RespAct)
    (hr : ∀ i, f07aClass (foldReq (rs.take (i + 1))).hdrs = false)
    (hsafe : ∀ i, f07aClass (foldResp (ss.take i ++ [ss.getD i .noop])).hdrs = false) :
    holds (reqHistory rs ++ respHistory ss) = true := by
  unfold holds
  rw [List.all_eq_true]
  intro o ho
  rcases List.mem_append.mp ho with ho | ho
  · obtain ⟨i, _, rfl⟩ := List.mem_map.mp ho
    exact req_holds_partial _ (hr i)
  · obtain ⟨i, _, rfl⟩ := List.mem_map.mp ho
    exact resp_holds_partial _ _ (hsafe i)

example : holds (reqHistory [.modHdr [("x", "1")], .noop, .modReq [("x", "2")] "h" "/p" "" "b"] ++
    respHistory [.retry [("x", "1")], .modResp [] "b" 200]) = true := by decide

/-- Fold SITE (`getSPOEReqActions`): only the variables are visible; what they decode to obeys
    the rule for the actions handed in — when no input header map is in class F07a. -/
theorem req_site_holds_partial (as : List ReqAct) (hs : f07aClass (as.flatMap (·.hdrs)) = false) :
    reqSiteHolds as (encodeReq (foldReq as)) = true := by
  have hsafe : hdrsSafe (foldReq as).hdrs = true := foldReq_safe as (by simpa [f07aClass] using hs)
  unfold reqSiteHolds
  rw [decodeReq_encodeReq _ hsafe]
  exact reqFoldOk_eraseRm as _ (req_fold_ok as)

theorem req_site_holds_violation_witness :
    ∃ as : List ReqAct, reqSiteHolds as (encodeReq (foldReq as)) ≠ true := by
  refine ⟨[.modHdr [("x", "1")], .modReq [("a", "1\nx:2")] "" "" "" ""], ?_⟩
  decide

/-- Fold SITE (`getSPOERespActions`), same. -/
theorem resp_site_holds_partial (as : List RespAct) (hs : f07aClass (as.flatMap (·.hdrs)) = false) :
    respSiteHolds as (encodeResp (foldResp as)) = true := by
  have hsafe : hdrsSafe (foldResp as).hdrs = true := foldResp_safe as (by simpa [f07aClass] using hs)
  unfold respSiteHolds
  rw [decodeResp_encodeResp _ hsafe]
  exact respRuleOk_foldResp as

theorem resp_site_holds_violation_witness :
    ∃ as : List RespAct, respSiteHolds as (encodeResp (foldResp as)) ≠ true := by
  refine ⟨[.retry [("k", "v")], .retry [("a:b", "c")]], ?_⟩
  decide

/-- The judge predicate is true of the site observations of every model run on F07a-free inputs. -/
theorem holds_site_history_partial (rs : List ReqAct) (ss : List RespAct)
    (hr : f07aClass (rs.flatMap (·.hdrs)) = false) (hsafe : f07aClass (ss.flatMap (·.hdrs)) = false) :
    holds [.reqSite rs (encodeReq (foldReq rs)), .respSite ss (encodeResp (foldResp ss))] = true := by
  simp [holds, Obs.holds, req_site_holds_partial rs hr, resp_site_holds_partial ss hsafe]

example : holds [.reqSite [.genReq [("x", "1")] ["r"] "g", .modHdr [("x", "2"), ("y", "Y")]]
      (encodeReq (foldReq [.genReq [("x", "1")] ["r"] "g", .modHdr [("x", "2"), ("y", "Y")]])),
    .respSite [.modResp [("x", "1")] "b" 200, .noop] (encodeResp (foldResp [.modResp [("x", "1")] "b" 200, .noop]))] = true := by
  decide

/-! ## Object level: the fold on pointers agrees with the fold on values unless an object repeats -/

/-- Folding the objects named `ns` (pairwise distinct: outside F07b) whose current values are
    `vals` yields exactly `foldReq vals`, and no object outside `ns` is touched. -/
theorem obj_fold_partial (s : Store) (ns : List String) (vals : List ReqAct)
    (hd : f07bClass ns = false)
    (hv : ns.map (fun n => (s.lookup n).bind Obj.asReq) = vals.map some) :
    ∃ s' acc', foldReqH s (.val .noop) ns = some (s', acc') ∧ acc'.get s' = some (foldReq vals) ∧
      ∀ m, m ∉ ns → s'.lookup m = s.lookup m := by
  obtain ⟨s', acc', h1, h2, h3⟩ := foldReqH_pure ns s (.val .noop) .noop vals rfl
    (fun i hi => by cases hi) (by simpa [f07bClass] using hd) hv
  exact ⟨s', acc', h1, h2, fun m hm => h3 m hm (fun i hi => by cases hi)⟩

/-- F07b: with the same `ModifyRequestAction` object twice in the sequence the rule fails: the
    object was mutated by the first merge, so its second occurrence writes the OTHER action's
    value of `x` (last writer `m` says `1`, result says `2`). -/
theorem obj_fold_violation_witness :
    ∃ (s : Store) (ns : List String) (vals : List ReqAct) (s' : Store) (acc' : Acc) (out : ReqAct),
      ns.map (fun n => (s.lookup n).bind Obj.asReq) = vals.map some ∧
      foldReqH s (.val .noop) ns = some (s', acc') ∧ acc'.get s' = some out ∧
      reqFoldOk vals out ≠ true := by
  refine ⟨[("m", .req (.modReq [("x", "1")] "" "" "" "")), ("h", .req (.modHdr [("x", "2")]))],
    ["m", "h", "m"],
    [.modReq [("x", "1")] "" "" "" "", .modHdr [("x", "2")], .modReq [("x", "1")] "" "" "" ""],
    [("m", .req (.modReq [("x", "2")] "" "" "" "")), ("h", .req (.modHdr [("x", "2")]))],
    .val (.modReq [("x", "2")] "" "" "" ""), .modReq [("x", "2")] "" "" "" "", ?_, ?_, ?_, ?_⟩ <;> decide

/-! ## As coded, outside the property (recorded so that a change is noticed) -/

/-- `ModifyRequest × ModifyRequest` (and `ModifyHeaders/GenerateRequest × ModifyRequest`) takes
    host, path, query and body of the LATER action even when they are empty: the earlier
    action's rewrite is dropped. -/
theorem modreq_takes_later_fields (a : ReqAct) (h2 : Hdrs) (host path q b : String)
    (ha : a.isEarly = false) (hn : a.isNoop = false) :
    reqPrio a (.modReq h2 host path q b) = .modReq (merge a.hdrs h2) host path q b := by
  cases a <;> simp_all [reqPrio, ReqAct.isEarly, ReqAct.isNoop, ReqAct.hdrs]

/-- Merged response modifications keep body and status of the FIRST one. -/
theorem modresp_keeps_first_body_status (h h2 : Hdrs) (b b2 : String) (s s2 : Int) :
    respPrio (.modResp h b s) (.modResp h2 b2 s2) = .modResp (merge h h2) b s := rfl

end LunarVerif.C07
