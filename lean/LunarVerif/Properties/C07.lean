import LunarVerif.Proofs.C07
/-!
# C07 — Combined actions: early response wins, header edits merge last-writer-wins

Property theorems only (helpers live in `Proofs/C07.lean`).  All statements quantify over every
finite sequence of actions of every kind with arbitrary header maps (association lists read
through `List.lookup`), paths, bodies and status codes.  The model is `Model/C07.lean`
(`reqPrio`/`respPrio` = the two `*_prioritize.go` tables, `foldReq`/`foldResp` = the fold sites,
`encodeReq`/`encodeResp` = the SPOE transformers, `foldReqH` = the same fold on action OBJECTS).

Both defects found by this slice are repaired in /repo and the statements below are unconditional:
* F07a — `DumpHeaders` now drops entries whose name is not an RFC 7230 token and removes CR/LF from
  values (`sanitizeHdrs`); the encoding decodes to exactly the SANITIZED action for EVERY header map,
  and the sanitized action is the action itself for valid HTTP header maps;
* F07b — `ModifyRequestAction.ReqPrioritize(ModifyHeadersAction)` returns a fresh struct; the fold on
  action OBJECTS equals the fold on values for every list of objects, repeated or not.
-/
namespace LunarVerif.C07

/-! ## Request side: the fold over action values -/

/-- The first early response wins, unchanged, whatever precedes and follows it. -/
theorem fold_first_early (pre post : List ReqAct) (e : ReqAct)
    (hpre : ∀ a ∈ pre, a.isEarly = false) (he : e.isEarly = true) :
    foldReq (pre ++ e :: post) = e :=
  foldl_reqPrio_first_early .noop pre post e rfl hpre he

example : foldReq [.modHdr [("x", "1")], .early 429 "slow down" [("retry-after", "1")],
    .early 503 "" [], .modReq [("x", "2")] "h" "/p" "" ""] = .early 429 "slow down" [("retry-after", "1")] := by
  decide

/-- Without an early response every header name gets the value of its LAST writer
    (the union of all header edits, later edit winning). -/
theorem fold_headers_union (as : List ReqAct) (hno : ∀ a ∈ as, a.isEarly = false) (k : String) :
    (foldReq as).hdrs.lookup k = lastWriter k (as.map (·.hdrs)) := by
  unfold foldReq
  rw [foldl_reqPrio_hdrs .noop as rfl hno k]
  exact lastWriter_nil_cons k _

example : (foldReq [.modHdr [("x", "1"), ("a", "A")], .noop, .genReq [("x", "2")] ["r"] "b",
    .modReq [("b", "B")] "" "" "" ""]).hdrs.lookup "x" = some "2" := by decide

/-- The result is a no-op only if every action was a no-op (and then it is). -/
theorem fold_noop_iff (as : List ReqAct) : foldReq as = .noop ↔ ∀ a ∈ as, a = .noop := by
  have h := foldl_reqPrio_isNoop .noop as
  have h1 : ReqAct.noop.isNoop = true := rfl
  rw [h1, Bool.true_and] at h
  have hiff : ∀ a : ReqAct, a.isNoop = true ↔ a = .noop := by
    intro a; cases a <;> simp [ReqAct.isNoop]
  constructor
  · intro hf a ha
    have : as.all (·.isNoop) = true := by rw [← h]; exact (hiff _).mpr hf
    exact (hiff a).mp (List.all_eq_true.mp this a ha)
  · intro hall
    apply (hiff _).mp
    show (List.foldl reqPrio .noop as).isNoop = true
    rw [h, List.all_eq_true]
    intro a ha; exact (hiff a).mpr (hall a ha)

/-- Without an early response the result is a request modification as soon as one action is. -/
theorem fold_kind (as : List ReqAct) (hno : ∀ a ∈ as, a.isEarly = false)
    (hsome : ∃ a ∈ as, a ≠ .noop) : (foldReq as).isMod = true := by
  apply isMod_of_not
  · show (List.foldl reqPrio .noop as).isEarly = false
    rw [foldl_reqPrio_isEarly]
    have h0 : ReqAct.noop.isEarly = false := rfl
    rw [h0, Bool.false_or, List.any_eq_false]
    intro a ha; simp [hno a ha]
  · cases hn : (foldReq as).isNoop
    · rfl
    · exfalso
      obtain ⟨a, ha, hne⟩ := hsome
      have : foldReq as = .noop := by cases hf : foldReq as <;> simp_all [ReqAct.isNoop]
      exact hne ((fold_noop_iff as).mp this a ha)

example : (foldReq [.noop, .modHdr [], .noop]).isMod = true := by decide

/-- The combination rule of the property (`Spec.reqFoldOk`: first early response, else not early,
    no-op iff all no-ops, a modification otherwise, header union with last writer winning) holds
    of the fold for EVERY sequence. -/
theorem req_fold_ok (as : List ReqAct) : reqFoldOk as (foldReq as) = true :=
  reqFoldOk_foldReq as

/-! ## Response side -/

/-- A no-op anywhere in the sequence changes nothing: it never displaces a modification or a retry. -/
theorem resp_noop_never_displaces (pre post : List RespAct) :
    foldResp (pre ++ .noop :: post) = foldResp (pre ++ post) := by
  simp [foldResp, List.foldl_append, respPrio_noop_right]

/-- The response result is a no-op only if every action was. -/
theorem resp_noop_iff (as : List RespAct) : (foldResp as).isNoop = as.all (·.isNoop) := by
  unfold foldResp; rw [foldl_respPrio_isNoop]; rfl

/-- Response modifications (with no-ops in between) merge their header edits, last writer wins. -/
theorem resp_headers_union (as : List RespAct) (hno : ∀ a ∈ as, a.isRetry = false) (k : String) :
    (foldResp as).isRetry = false ∧ (foldResp as).hdrs.lookup k = lastWriter k (as.map (·.hdrs)) := by
  have h := foldl_respPrio_noRetry .noop as rfl hno k
  refine ⟨h.1, ?_⟩
  show List.lookup k (List.foldl respPrio .noop as).hdrs = _
  rw [h.2]; exact lastWriter_nil_cons k _

/-- Retries merge their header edits the same way. -/
theorem resp_retry_headers_union (as : List RespAct) (hno : ∀ a ∈ as, a.isMod = false) (k : String) :
    (foldResp as).isMod = false ∧ (foldResp as).hdrs.lookup k = lastWriter k (as.map (·.hdrs)) := by
  have h := foldl_respPrio_noMod .noop as rfl hno k
  refine ⟨h.1, ?_⟩
  show List.lookup k (List.foldl respPrio .noop as).hdrs = _
  rw [h.2]; exact lastWriter_nil_cons k _

example : (foldResp [.modResp [("x", "1")] "b1" 200, .noop, .modResp [("x", "2"), ("y", "Y")] "b2" 404]) =
    .modResp [("x", "2"), ("y", "Y")] "b1" 200 := by decide

/-- As coded: between a modification and a retry the LATER one wins (its kind is the result's). -/
theorem resp_later_of_modify_and_retry_wins (pre : List RespAct) (a : RespAct) (ha : a.isNoop = false) :
    (foldResp (pre ++ [a])).isMod = a.isMod ∧ (foldResp (pre ++ [a])).isRetry = a.isRetry := by
  have : foldResp (pre ++ [a]) = respPrio (foldResp pre) a := by simp [foldResp, List.foldl_append]
  rw [this]; exact respPrio_kind _ a ha

/-- The response rule of the property holds of every fold step for EVERY sequence. -/
theorem resp_fold_ok (pre : List RespAct) (a : RespAct) :
    respFoldOk (pre ++ [a]) (foldResp pre) (foldResp (pre ++ [a])) = true :=
  respFoldOk_foldResp pre a

/-! ## Encoding handed to the proxy -/

/-- The SPOE variables of a request action decode to exactly that action (kind, status, body,
    host/path/query, headers; `HeadersToRemove` is not transmitted) with its header map sanitized —
    for EVERY header map. -/
theorem encode_faithful (a : ReqAct) : decodeReq (encodeReq a) = some a.sanitized.eraseRm :=
  decodeReq_encodeReq a

theorem encode_resp_faithful (a : RespAct) : decodeResp (encodeResp a) = some a.sanitized :=
  decodeResp_encodeResp a

/-- Sanitizing changes nothing on valid HTTP header maps (names are tokens, no CR/LF in values) … -/
theorem sanitized_of_valid (a : ReqAct) (hv : hdrsValid a.hdrs = true) : a.sanitized = a :=
  ReqAct.sanitized_of_valid a hv

theorem resp_sanitized_of_valid (a : RespAct) (hv : hdrsValid a.hdrs = true) : a.sanitized = a :=
  RespAct.sanitized_of_valid a hv

/-- … so for those the variables carry exactly the action. -/
theorem encode_faithful_valid (a : ReqAct) (hv : hdrsValid a.hdrs = true) :
    decodeReq (encodeReq a) = some a.eraseRm := by
  rw [encode_faithful, sanitized_of_valid a hv]

/-- An entry with an invalid name is DROPPED (never mis-read as another header); any other entry
    keeps its name and loses only the line breaks of its value. -/
theorem sanitized_lookup (a : ReqAct) (k : String) :
    a.sanitized.hdrs.lookup k = if validName k then (a.hdrs.lookup k).map stripCRLF else none := by
  rw [ReqAct.sanitized_hdrs, lookup_sanitize]

example : hdrsValid (ReqAct.modReq [("authorization", "Bearer a:b"), ("x-y", "")] "h" "/p" "q=1" "").hdrs = true := by
  decide

/-- The former F07a witnesses: a name with `:` is dropped, a value with a newline cannot inject. -/
example : decodeReq (encodeReq (.modHdr [("a:b", "c"), ("x", "1")])) = some (.modHdr [("x", "1")]) := by decide
example : parseHeaders (dumpHeaders [("a", "1\nx-injected:2")]) = [("a", "1x-injected:2")] := by decide

/-! ### … over bytes

Go strings are byte strings (not necessarily UTF-8).  A model `String` stands for a byte string,
character `b < 256` ↔ byte `b` (`ofBytes`/`toBytes`, exact inverses on bytes); `dumpB`/`parseB`
are `dumpHeaders`/`parseHeaders` read through that correspondence. -/

theorem bytes_roundtrip (bs : Bytes) : toBytes (ofBytes bs) = bs := toBytes_ofBytes bs

/-- The dump, byte for byte: for every kept entry `name 0x3A value' 0x0A` where `value'` is the
    value without its 0x0D/0x0A bytes — every other byte (≥ 0x80, invalid UTF-8, NUL …) untouched. -/
theorem dump_bytes_exact (h : List (Bytes × Bytes)) : dumpB h = dumpSpecB (sanitizeB h) := dumpB_eq h

/-- Reading the dump back gives the sanitized header list byte for byte, for EVERY header list. -/
theorem encode_bytes_faithful (h : List (Bytes × Bytes)) : parseB (dumpB h) = sanitizeB h :=
  parseB_dumpB h

/-- `filename="r\xe9sum\xe9.pdf"` (ISO-8859-1), a lone continuation byte, an overlong form and 0xFF
    survive; CR/LF go; the name with a byte ≥ 0x80 is dropped. -/
example : dumpB [([0x78], [0x72, 0xE9, 0x73, 0x0D, 0x0A, 0x80, 0xC0, 0xAF, 0xFF]), ([0x6B, 0xE9], [0x31])]
    = [0x78, 0x3A, 0x72, 0xE9, 0x73, 0x80, 0xC0, 0xAF, 0xFF, 0x0A] := by
  rw [dump_bytes_exact]; decide

/-! ## Connection: the judge predicate is true of every model run -/

/-- Request side, full observation of one fold (rule + encoding), every sequence. -/
theorem req_holds (as : List ReqAct) : reqHolds as (foldReq as) (encodeReq (foldReq as)) = true := by
  unfold reqHolds reqEncOk
  rw [req_fold_ok, encode_faithful]
  simp [ReqAct.sim_refl]

/-- Response side, one fold step, every sequence. -/
theorem resp_holds (pre : List RespAct) (a : RespAct) :
    respHolds (pre ++ [a]) (foldResp pre) (foldResp (pre ++ [a])) (encodeResp (foldResp (pre ++ [a]))) = true := by
  unfold respHolds respEncOk
  rw [resp_fold_ok, encode_resp_faithful]
  simp [RespAct.sim_refl]

/-- The judge predicate `Spec.holds` is true of the observable history (every prefix) of EVERY
    model run. -/
theorem holds_model_history (rs : List ReqAct) (ss : List RespAct) :
    holds (reqHistory rs ++ respHistory ss) = true := by
  unfold holds
  rw [List.all_eq_true]
  intro o ho
  rcases List.mem_append.mp ho with ho | ho
  · obtain ⟨i, _, rfl⟩ := List.mem_map.mp ho
    exact req_holds _
  · obtain ⟨i, _, rfl⟩ := List.mem_map.mp ho
    exact resp_holds _ _

example : holds (reqHistory [.modHdr [("x", "1")], .noop, .modReq [("x", "2"), ("a:b", "c")] "h" "/p" "" "b"] ++
    respHistory [.retry [("x", "1\n")], .modResp [] "b" 200]) = true := by decide

/-- Fold SITE (`getSPOEReqActions`, `runOnRequest`): only the variables are visible; what they decode
    to obeys the rule for the (sanitized) actions handed in — every sequence. -/
theorem req_site_holds (as : List ReqAct) : reqSiteHolds as (encodeReq (foldReq as)) = true := by
  unfold reqSiteHolds
  rw [decodeReq_encodeReq]
  exact reqFoldOk_eraseRm _ _ (reqFoldOk_sanitized as)

/-- Fold SITE (`getSPOERespActions`, `runOnResponse`), same. -/
theorem resp_site_holds (as : List RespAct) : respSiteHolds as (encodeResp (foldResp as)) = true := by
  unfold respSiteHolds
  rw [decodeResp_encodeResp]
  exact respRuleOk_sanitized as

theorem holds_site_history (rs : List ReqAct) (ss : List RespAct) :
    holds [.reqSite rs (encodeReq (foldReq rs)), .respSite ss (encodeResp (foldResp ss))] = true := by
  simp [holds, Obs.holds, req_site_holds rs, resp_site_holds ss]

example : holds [.reqSite [.genReq [("x", "1")] ["r"] "g", .modHdr [("x", "2"), ("y", "Y"), ("bad name", "v")]]
      (encodeReq (foldReq [.genReq [("x", "1")] ["r"] "g", .modHdr [("x", "2"), ("y", "Y"), ("bad name", "v")]])),
    .respSite [.modResp [("x", "1")] "b" 200, .noop] (encodeResp (foldResp [.modResp [("x", "1")] "b" 200, .noop]))] = true := by
  decide

/-! ## Legacy (policies) mode: `runner.DispatchOnRequest` / `DispatchOnResponse`

`scriptReq` / `scriptResp` are the answers of the configured remedies (the environment);
`legacyFoldReq` = `runOnRequest`, `rerunEarly` = `obtainModifiedEarlyResponse`. -/

/-- `runOnRequest`: the first remedy that answers the request itself wins, unchanged, whatever
    the other remedies answer (a `GenerateRequestAction` before it included). -/
theorem legacy_first_early (env : ReqEnv) (rs : List Remedy) (e : ReqAct)
    (he : firstEarly (scriptReq env rs) = some e) : legacyFoldReq env rs = e := by
  obtain ⟨pre, post, hsplit, hpre, hE⟩ := firstEarly_some _ e he
  unfold legacyFoldReq
  rw [hsplit]; exact fold_first_early pre post e hpre hE

/-- `runOnRequest` obeys the whole request rule for the remedies' answers. -/
theorem legacy_fold_ok (env : ReqEnv) (rs : List Remedy) :
    reqFoldOk (scriptReq env rs) (legacyFoldReq env rs) = true :=
  req_fold_ok _

/-- `obtainModifiedEarlyResponse` keeps status and body of the early response; its header map
    gains exactly the header edits of the response-side modifications, last writer winning. -/
theorem legacy_rerun_early (rs : List Remedy) (s : Int) (b : String) (h : Hdrs) :
    ∃ h', rerunEarly rs (.early s b h) = .early s b h' ∧
      ∀ k, h'.lookup k = lastWriter k (h :: respEdits (scriptResp s rs)) := by
  refine ⟨_, rfl, fun k => ?_⟩
  rw [rerun_foldl_eq, foldl_merge_lookup]

/-- Anything that is not an early response passes through unchanged. -/
theorem legacy_rerun_other (rs : List Remedy) (a : ReqAct) (h : a.isEarly = false) :
    rerunEarly rs a = a := rerunEarly_of_not_early rs a h

/-- Connection: the judge predicate of the legacy request site is true of every model run. -/
theorem legacy_req_holds (env : ReqEnv) (rs : List Remedy) :
    legacyReqHolds env rs (encodeReq (legacyReq env rs)) = true :=
  legacyReqHolds_legacyReq env rs

/-- A SEQUENCE of transactions (requests and provider responses) against the same plugins (state —
    authentication caches, the response cache — carried by `envAfter`/`envAfterResp`): every transaction's variables obey
    the rule for what ITS OWN remedies answered — nothing leaks from an earlier transaction. -/
theorem legacy_sequence_holds (st : ReqEnv) (txns : List Txn) : legacySeqHolds st txns = true := by
  induction txns generalizing st with
  | nil => rfl
  | cons t ts ih =>
    cases t with
    | req h rs => simp only [legacySeqHolds, legacy_req_holds, Bool.true_and]; exact ih _
    | resp s b h rs =>
      have hr : legacyRespHolds s rs (encodeResp (legacyResp s rs)) = true := resp_site_holds _
      simp only [legacySeqHolds, hr, Bool.true_and]; exact ih _

/-- F07c regression on the model: a response is cached, a hit is answered with a retry remedy firing
    (the answer gains the retry header), the NEXT hit carries the stored headers only. -/
example :
    let e0 : ReqEnv := { hdrs := [] }
    let e1 := envAfterResp e0 200 "B" [("h", "1")] [.cache]
    let e2 := envAfter e1 [.cache, .retry 5 200 299]
    legacyReq e1 [.cache, .retry 5 200 299] = .early 200 "B" [("h", "1"), ("x-lunar-retry-after", "5")] ∧
    legacyReq e2 [.cache] = .early 200 "B" [("h", "1")] := by decide

/-- … and of the legacy response site. -/
theorem legacy_resp_holds (status : Int) (rs : List Remedy) :
    legacyRespHolds status rs (encodeResp (legacyResp status rs)) = true :=
  resp_site_holds _

/-- OAuth (`GenerateRequestAction`) first, then a fixed response: the early response wins; a retry
    remedy covering 418 adds its header, status and body stay. -/
example : legacyReq { hdrs := [("early-response", "true")] }
    [.oauth "s3cr3t", .acct [("x", "1")], .fixed 418, .fixed 503, .retry 5 400 499, .retry 7 0 599] =
    .early 418 fixedBody [("powered-by", "Lunar Interventions Inc."), ("x-lunar-retry-after", "7")] := by decide

/-- A throttled answer (429) with a retry remedy covering it gains the retry header — in THAT transaction only. -/
example : legacyReq { hdrs := [] } [.throttle 429, .retry 5 400 499] =
    .early 429 throttleBody [("content-type", "text/plain"), ("x-lunar-retry-after", "5")] ∧
    legacyReq { hdrs := [] } [.throttle 429] = .early 429 throttleBody [("content-type", "text/plain")] := by decide

example : legacyReq { hdrs := [("a", "A")] } [.acct [("x", "1")], .oauth "t", .apikey [("x", "3")], .fixed 418] =
    .modReq [("a", "A"), ("x", "3")] "" "" "" "" := by decide

/-! ## Object level: the fold on pointers agrees with the fold on values -/

/-- Folding the objects named `ns` (ANY list, the same object may occur several times) whose values
    are `vals` yields exactly `foldReq vals`; the fold writes to no object (the store is not even
    an output of `foldReqH`). -/
theorem obj_fold (s : Store) (ns : List String) (vals : List ReqAct)
    (hv : ns.map (fun n => (s.lookup n).bind Obj.asReq) = vals.map some) :
    ∃ acc', foldReqH s (.val .noop) ns = some acc' ∧ acc'.get s = some (foldReq vals) :=
  foldReqH_pure ns s (.val .noop) .noop vals rfl hv

/-- The former F07b witness `[m, h, m]`: the last writer `m` now wins. -/
example :
    (foldReqH [("m", .req (.modReq [("x", "1")] "" "" "" "")), ("h", .req (.modHdr [("x", "2")]))]
      (.val .noop) ["m", "h", "m"]) = some (.val (.modReq [("x", "1")] "" "" "" "")) := by decide

/-! ## As coded, outside the property (recorded so that a change is noticed) -/

/-- `ModifyRequest × ModifyRequest` (and `ModifyHeaders/GenerateRequest × ModifyRequest`) takes
    host, path, query and body of the LATER action even when they are empty: the earlier
    action's rewrite is dropped. -/
theorem modreq_takes_later_fields (a : ReqAct) (h2 : Hdrs) (host path q b : String)
    (ha : a.isEarly = false) (hn : a.isNoop = false) :
    reqPrio a (.modReq h2 host path q b) = .modReq (merge a.hdrs h2) host path q b := by
  cases a <;> simp_all [reqPrio, ReqAct.isEarly, ReqAct.isNoop, ReqAct.hdrs]

/-- Merged response modifications keep body and status of the FIRST one. -/
theorem modresp_keeps_first_body_status (h h2 : Hdrs) (b b2 : String) (s s2 : Int) :
    respPrio (.modResp h b s) (.modResp h2 b2 s2) = .modResp (merge h h2) b s := rfl

end LunarVerif.C07
